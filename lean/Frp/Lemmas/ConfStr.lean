import Frp.Model.Validate
import Frp.Model.ConfNum
/-
  String lemmas for C18: `splitOn`, `contains`, `joinWith`.
-/
namespace Frp
namespace Str

theorem splitOn_ne_nil (sep : Nat) : ∀ s : Str, splitOn sep s ≠ []
  | [] => by simp [splitOn]
  | c :: cs => by
    simp only [splitOn]
    split
    · simp
    · split <;> simp

/-- `len(strings.Split(s, sep))` = number of separators + 1 -/
theorem splitOn_length (sep : Nat) : ∀ s : Str, (splitOn sep s).length = s.count sep + 1
  | [] => by simp [splitOn]
  | c :: cs => by
    have ih := splitOn_length sep cs
    simp only [splitOn]
    by_cases h : c = sep
    · subst h; simp [ih]
    · simp only [h, if_false]
      have hne := splitOn_ne_nil sep cs
      cases hs : splitOn sep cs with
      | nil => exact absurd hs hne
      | cons a t =>
        rw [hs] at ih
        simp only [List.length_cons] at ih ⊢
        have : List.count sep (c :: cs) = List.count sep cs := by
          simp [List.count_cons, h]
        omega

/-- no separator: one piece -/
theorem splitOn_of_not_mem (sep : Nat) : ∀ s : Str, sep ∉ s → splitOn sep s = [s]
  | [], _ => rfl
  | c :: cs, h => by
    have hc : c ≠ sep := fun e => h (e ▸ List.mem_cons_self ..)
    have hcs : sep ∉ cs := fun m => h (List.mem_cons_of_mem _ m)
    simp [splitOn, hc, splitOn_of_not_mem sep cs hcs]

/-- first piece ends at the first separator -/
theorem splitOn_append (sep : Nat) : ∀ (a b : Str), sep ∉ a →
    splitOn sep (a ++ sep :: b) = a :: splitOn sep b
  | [], b, _ => by simp [splitOn]
  | c :: cs, b, h => by
    have hc : c ≠ sep := fun e => h (e ▸ List.mem_cons_self ..)
    have hcs : sep ∉ cs := fun m => h (List.mem_cons_of_mem _ m)
    simp [splitOn, hc, splitOn_append sep cs b hcs]

end Str

namespace Validate
open Str

theorem contains_self : ∀ s : Str, contains s s = true
  | [] => rfl
  | c :: cs => by simp [contains]

theorem contains_append_left (sub : Str) : ∀ p s : Str, contains s sub = true → contains (p ++ s) sub = true
  | [], s, h => h
  | c :: cs, s, h => by
    simp only [List.cons_append, contains, Bool.or_eq_true]
    exact Or.inr (contains_append_left sub cs s h)

/-- a name of the form `p.host` is caught by the test as written (same letter case on both sides) -/
theorem belongs_of_suffix (host p : Str) (hh : host ≠ []) :
    domainBelongs host (p ++ dot :: host) = true := by
  simp only [domainBelongs, Bool.and_eq_true, decide_eq_true_eq]
  refine ⟨⟨by simp [hh], ?_⟩, ?_⟩
  · rw [splitOn_length, splitOn_length]
    simp [List.count_append, List.count_cons]
    omega
  · exact contains_append_left host p (dot :: host)
      (contains_append_left host [dot] host (contains_self host))

end Validate
end Frp
