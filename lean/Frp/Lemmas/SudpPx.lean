import Frp.Model.SudpPx
import Frp.Lemmas.Udp
/-
  Lemmas about the client side of a sudp proxy with several work connections (core Lean only):
  per-connection invariants, and the frame / projection lemmas that make the connections independent.
  The property statements are in Frp/Props/C03.lean.
-/
namespace Frp
namespace SudpPx
open Udp Base64

/-! ### one connection: conservation and socket ownership -/

structure CInv (c : Conn) : Prop where
  up : ∀ x : View, c.inLog.count x =
      (c.readCh.map view).count x + (c.backendLog.map Prod.snd).count x + (c.dropUp.map Prod.snd).count x
  down : ∀ x : View, (c.replyLog.map Prod.snd).count x =
      ((pkts c.sendCh).map view).count x + c.wire.count x + (c.dropDown.map Prod.snd).count x
  socksLt : ∀ e ∈ c.socks, e.1 < c.nextSock
  socksFun : ∀ k a a', (k, a) ∈ c.socks → (k, a') ∈ c.socks → a = a'
  cmapSock : ∀ e ∈ c.cmap, (e.2, e.1) ∈ c.socks
  backendSock : ∀ e ∈ c.backendLog, (e.1, e.2.1) ∈ c.socks
  replySock : ∀ e ∈ c.replyLog, (e.1, e.2.1) ∈ c.socks

theorem cinv_init (bs cap : Nat) : CInv (Conn.init bs cap) := by
  constructor <;> simp [Conn.init, pkts]

macro "keepc " h:ident : tactic =>
  `(tactic| first
    | exact ($h).up | exact ($h).down | exact ($h).socksLt | exact ($h).socksFun
    | exact ($h).cmapSock | exact ($h).backendSock | exact ($h).replySock)

theorem pkts_append_some (q : List (Option Packet)) (m : Packet) : pkts (q ++ [some m]) = pkts q ++ [m] := by
  simp [pkts, List.filterMap_append]

theorem pkts_append_none (q : List (Option Packet)) : pkts (q ++ [none]) = pkts q := by
  simp [pkts, List.filterMap_append]

theorem pkts_cons_some (q : List (Option Packet)) (m : Packet) : pkts (some m :: q) = m :: pkts q := by
  simp [pkts]

theorem pkts_cons_none (q : List (Option Packet)) : pkts (none :: q) = pkts q := by
  simp [pkts]

theorem cinv_doClose {c : Conn} (h : CInv c) (w : Cause) : CInv (doClose c w) := by
  unfold doClose
  split
  · exact h
  · constructor
    all_goals keepc h

theorem cinv_recv {c : Conn} (h : CInv c) (m : Packet) : CInv (stepRecv c m) := by
  unfold stepRecv
  split
  · exact h
  · split
    · constructor
      all_goals (try keepc h)
      intro x
      have := h.up x
      simp only [List.map_append, List.count_append, List.map_cons, List.map_nil, List.count_cons,
        List.count_nil] at this ⊢
      omega
    · split
      · constructor
        all_goals (try keepc h)
        intro x
        have := h.up x
        simp only [List.map_append, List.count_append, List.map_cons, List.map_nil, List.count_cons,
          List.count_nil] at this ⊢
        omega
      · exact h

theorem cinv_readerDie {c : Conn} (h : CInv c) : CInv (stepReaderDie c) := by
  unfold stepReaderDie
  split
  · apply cinv_doClose
    constructor
    all_goals keepc h
  · exact h

theorem cinv_fwd {c : Conn} (h : CInv c) (ok : Bool) : CInv (stepFwd c ok) := by
  unfold stepFwd
  split
  · exact h
  · rename_i m rest hq
    have hcnt : ∀ x : View, c.inLog.count x =
        (if view m == x then 1 else 0) + (rest.map view).count x
          + (c.backendLog.map Prod.snd).count x + (c.dropUp.map Prod.snd).count x := by
      intro x
      have := h.up x
      rw [hq] at this
      simp only [List.map_cons, List.count_cons] at this
      omega
    simp only []
    split
    · constructor
      all_goals (try keepc h)
      intro x
      have := hcnt x
      simp only [List.map_append, List.count_append, List.map_cons, List.map_nil, List.count_cons,
        List.count_nil] at this ⊢
      omega
    · split
      · rename_i k hk
        have hks : (k, m.raddr) ∈ c.socks := h.cmapSock _ (lookup_some hk)
        split
        · constructor
          all_goals (try keepc h)
          · intro x
            have := hcnt x
            simp only [List.map_append, List.count_append, List.map_cons, List.map_nil, List.count_cons,
              List.count_nil] at this ⊢
            omega
          · intro e he
            simp only [List.mem_append, List.mem_cons, List.not_mem_nil, or_false] at he
            rcases he with he | he
            · exact h.backendSock e he
            · subst he; exact hks
        · constructor
          all_goals (try keepc h)
          intro x
          have := hcnt x
          simp only [List.map_append, List.count_append, List.map_cons, List.map_nil, List.count_cons,
            List.count_nil] at this ⊢
          omega
      · have hlt : ∀ e ∈ (c.nextSock, m.raddr) :: c.socks, e.1 < c.nextSock + 1 := by
          intro e he
          simp only [List.mem_cons] at he
          rcases he with he | he
          · subst he; exact Nat.lt_succ_self _
          · exact Nat.lt_succ_of_lt (h.socksLt e he)
        have hfun : ∀ k a a', (k, a) ∈ (c.nextSock, m.raddr) :: c.socks →
            (k, a') ∈ (c.nextSock, m.raddr) :: c.socks → a = a' := by
          intro k a a' h1 h2
          simp only [List.mem_cons, Prod.mk.injEq] at h1 h2
          rcases h1 with ⟨hk1, ha1⟩ | h1 <;> rcases h2 with ⟨hk2, ha2⟩ | h2
          · rw [ha1, ha2]
          · have := h.socksLt _ h2; simp only at this; omega
          · have := h.socksLt _ h1; simp only at this; omega
          · exact h.socksFun k a a' h1 h2
        have hcm : ∀ e ∈ (m.raddr, c.nextSock) :: c.cmap, (e.2, e.1) ∈ (c.nextSock, m.raddr) :: c.socks := by
          intro e he
          simp only [List.mem_cons] at he
          rcases he with he | he
          · subst he; exact List.mem_cons_self
          · exact List.mem_cons_of_mem _ (h.cmapSock e he)
        have hrs : ∀ e ∈ c.replyLog, (e.1, e.2.1) ∈ (c.nextSock, m.raddr) :: c.socks :=
          fun e he => List.mem_cons_of_mem _ (h.replySock e he)
        split
        · constructor
          all_goals (try keepc h)
          · intro x
            have := hcnt x
            simp only [List.map_append, List.count_append, List.map_cons, List.map_nil, List.count_cons,
              List.count_nil] at this ⊢
            omega
          · exact hlt
          · exact hfun
          · exact hcm
          · intro e he
            simp only [List.mem_append, List.mem_cons, List.not_mem_nil, or_false] at he
            rcases he with he | he
            · exact List.mem_cons_of_mem _ (h.backendSock e he)
            · subst he; exact List.mem_cons_self
          · exact hrs
        · constructor
          all_goals (try keepc h)
          · intro x
            have := hcnt x
            simp only [List.map_append, List.count_append, List.map_cons, List.map_nil, List.count_cons,
              List.count_nil] at this ⊢
            omega
          · exact hlt
          · exact hfun
          · exact hcm
          · exact fun e he => List.mem_cons_of_mem _ (h.backendSock e he)
          · exact hrs

theorem cinv_backendReply {c : Conn} (h : CInv c) (k : Nat) (q : Str) : CInv (stepBackendReply c k q) := by
  unfold stepBackendReply
  split
  · exact h
  · split
    · exact h
    · rename_i a ho
      have hks : (k, a) ∈ c.socks := ownerOf_some ho
      have hrs : ∀ e ∈ c.replyLog ++ [(k, view (packetOf (rd c.bs q) none a))], (e.1, e.2.1) ∈ c.socks := by
        intro e he
        simp only [List.mem_append, List.mem_cons, List.not_mem_nil, or_false] at he
        rcases he with he | he
        · exact h.replySock e he
        · subst he; exact hks
      split
      · simp only []
        split
        · constructor
          all_goals (try keepc h)
          · intro x
            have := h.down x
            simp only [List.map_append, List.count_append, List.map_cons, List.map_nil, List.count_cons,
              List.count_nil] at this ⊢
            omega
          · intro e he
            exact h.cmapSock e (List.mem_filter.1 he).1
          · exact hrs
        · split
          · constructor
            all_goals (try keepc h)
            · intro x
              have := h.down x
              simp only [pkts_append_some, List.map_append, List.count_append, List.map_cons, List.map_nil,
                List.count_cons, List.count_nil] at this ⊢
              omega
            · exact hrs
          · constructor
            all_goals (try keepc h)
            · intro x
              have := h.down x
              simp only [List.map_append, List.count_append, List.map_cons, List.map_nil, List.count_cons,
                List.count_nil] at this ⊢
              omega
            · exact hrs
      · exact h

theorem cinv_sockExit {c : Conn} (h : CInv c) (k : Nat) : CInv (stepSockExit c k) := by
  unfold stepSockExit
  split
  · exact h
  · split
    · constructor
      all_goals (try keepc h)
      intro e he
      exact h.cmapSock e (List.mem_filter.1 he).1
    · exact h

theorem cinv_send {c : Conn} (h : CInv c) (ok : Bool) : CInv (stepSend c ok) := by
  unfold stepSend
  split
  · exact h
  · split
    · exact h
    · rename_i rest hq
      have hd : ∀ x : View, (c.replyLog.map Prod.snd).count x =
          ((pkts rest).map view).count x + c.wire.count x + (c.dropDown.map Prod.snd).count x := by
        intro x; have := h.down x; rw [hq, pkts_cons_none] at this; exact this
      split
      · constructor
        all_goals (try keepc h)
        exact hd
      · apply cinv_doClose
        constructor
        all_goals (try keepc h)
        exact hd
    · rename_i m rest hq
      have hd : ∀ x : View, (c.replyLog.map Prod.snd).count x =
          (if view m == x then 1 else 0) + ((pkts rest).map view).count x + c.wire.count x
            + (c.dropDown.map Prod.snd).count x := by
        intro x
        have := h.down x
        rw [hq, pkts_cons_some] at this
        simp only [List.map_cons, List.count_cons] at this
        omega
      split
      · constructor
        all_goals (try keepc h)
        intro x
        have := hd x
        simp only [List.count_append, List.count_cons, List.count_nil] at this ⊢
        omega
      · apply cinv_doClose
        constructor
        all_goals (try keepc h)
        intro x
        have := hd x
        simp only [List.map_append, List.count_append, List.map_cons, List.map_nil, List.count_cons,
          List.count_nil] at this ⊢
        omega

theorem cinv_senderEnd {c : Conn} (h : CInv c) : CInv (stepSenderEnd c) := by
  unfold stepSenderEnd
  split
  · constructor
    all_goals keepc h
  · exact h

theorem cinv_tick {c : Conn} (h : CInv c) : CInv (stepTick c) := by
  unfold stepTick
  split
  · exact h
  · split
    · constructor
      all_goals keepc h
    · split
      · constructor
        all_goals (try keepc h)
        intro x
        have := h.down x
        simp only [pkts_append_none] at this ⊢
        exact this
      · exact h

theorem cinv_hbClose {c : Conn} (h : CInv c) (pc : Bool) : CInv (stepHbClose pc c) := by
  unfold stepHbClose
  split
  · apply cinv_doClose
    constructor
    all_goals keepc h
  · exact h

theorem cinv_step {c : Conn} (h : CInv c) (pc : Bool) (l : CLabel) : CInv (cstep pc c l) := by
  cases l with
  | recv m => exact cinv_recv h m
  | readerDie => exact cinv_readerDie h
  | fwd ok => exact cinv_fwd h ok
  | backendReply k q => exact cinv_backendReply h k q
  | sockExit k => exact cinv_sockExit h k
  | send ok => exact cinv_send h ok
  | senderEnd => exact cinv_senderEnd h
  | tick => exact cinv_tick h
  | hbClose => exact cinv_hbClose h pc

/-! ### one connection: the goroutines of an open connection are all there; what an open connection may have dropped -/

structure CFlags (c : Conn) : Prop where
  openOK : c.isClose = false → c.reader = true ∧ c.sender = true ∧ c.hb = true ∧ c.cause = none
  openUp : c.isClose = false → ∀ e ∈ c.dropUp, e.1 = PDrop.decodeErr ∨ e.1 = PDrop.writeErr
  openDown : c.isClose = false → ∀ e ∈ c.dropDown, e.1 = PDrop.replyFull
  closedCause : c.isClose = true → c.cause ≠ none

theorem cflags_init (bs cap : Nat) : CFlags (Conn.init bs cap) := by
  constructor <;> simp [Conn.init]

theorem mem_append_one {α} {l : List α} {a e : α} (h : e ∈ l ++ [a]) : e ∈ l ∨ e = a := by
  simpa using h

theorem cflags_step {c : Conn} (h : CFlags c) (pc : Bool) (l : CLabel) : CFlags (cstep pc c l) := by
  obtain ⟨h1, h2, h3, h4⟩ := h
  cases hc : c.isClose with
  | true =>
    have hcause := h4 hc
    cases l <;>
      simp only [cstep, stepRecv, stepReaderDie, stepFwd, stepBackendReply, stepSockExit, stepSend,
        stepSenderEnd, stepTick, stepHbClose, doClose] <;>
      (repeat' split) <;>
      (constructor <;> intro hx <;> simp_all)
  | false =>
    obtain ⟨r1, r2, r3, r4⟩ := h1 hc
    have u := h2 hc
    have d := h3 hc
    cases l <;>
      simp only [cstep, stepRecv, stepReaderDie, stepFwd, stepBackendReply, stepSockExit, stepSend,
        stepSenderEnd, stepTick, stepHbClose, doClose] <;>
      (repeat' split) <;>
      (constructor <;> intro hx <;> simp_all) <;>
      (first
        | exact u
        | exact d
        | (intro a1 a2 a3 hm
           rcases hm with hm | hm
           · first | exact u _ _ _ hm | exact d _ _ _ hm
           · simp [hm.1]))

/-! ### the proxy: every connection keeps its invariants; connections do not touch each other -/

def Inv (s : St) : Prop := ∀ c ∈ s.conns, CInv c ∧ CFlags c ∧ c.bs = s.bs ∧ c.cap = s.cap

theorem inv_init (bs cap : Nat) : Inv (init bs cap) := by
  intro c hc; simp [init] at hc

theorem cstep_fixed (pc : Bool) (c : Conn) (l : CLabel) : (cstep pc c l).bs = c.bs ∧ (cstep pc c l).cap = c.cap := by
  cases l <;>
    simp only [cstep, stepRecv, stepReaderDie, stepFwd, stepBackendReply, stepSockExit, stepSend,
      stepSenderEnd, stepTick, stepHbClose, doClose] <;>
    (repeat' split) <;> simp_all

theorem conn_at (s : St) (i j : Nat) (l : CLabel) :
    (step s (.at j l)).conn i = (s.conn i).map (fun c => if j = i then cstep s.pclosed c l else c) := by
  simp only [step, St.conn, List.getElem?_modify]
  cases s.conns[i]? <;> simp

theorem inv_step {s : St} (h : Inv s) (l : Label) : Inv (step s l) := by
  cases l with
  | open_ =>
    intro c hc
    simp only [step, List.mem_append, List.mem_cons, List.not_mem_nil, or_false] at hc
    rcases hc with hc | hc
    · exact h c hc
    · subst hc; exact ⟨cinv_init _ _, cflags_init _ _, rfl, rfl⟩
  | proxyClose => exact h
  | «at» j l =>
    intro c hc
    obtain ⟨i, hi⟩ := List.mem_iff_getElem?.1 hc
    have := conn_at s i j l
    simp only [St.conn] at this
    rw [this] at hi
    cases ho : s.conns[i]? with
    | none => rw [ho] at hi; cases hi
    | some c0 =>
      rw [ho] at hi
      simp only [Option.map_some, Option.some.injEq] at hi
      obtain ⟨a, b, e1, e2⟩ := h c0 (List.mem_iff_getElem?.2 ⟨i, ho⟩)
      by_cases hji : j = i
      · simp only [hji, if_true] at hi
        subst hi
        have := cstep_fixed s.pclosed c0 l
        exact ⟨cinv_step a _ _, cflags_step b _ _, this.1.trans e1, this.2.trans e2⟩
      · simp only [hji, if_false] at hi
        subst hi
        exact ⟨a, b, e1, e2⟩

theorem inv_run (s : St) (h : Inv s) (ls : List Label) : Inv (run s ls) := by
  unfold run
  induction ls generalizing s with
  | nil => exact h
  | cons l ls ih => exact ih (step s l) (inv_step h l)

/-- an action of connection `j` leaves every other connection exactly as it was -/
theorem step_other (s : St) {i j : Nat} (hij : i ≠ j) (l : CLabel) : (step s (.at j l)).conn i = s.conn i := by
  rw [conn_at]
  have : ¬ j = i := fun h => hij h.symm
  simp only [this, if_false]
  cases s.conn i <;> rfl

/-- a further InWorkConn call leaves every existing connection exactly as it was, and the new one starts fresh -/
theorem step_open (s : St) :
    (∀ i, i < s.conns.length → (step s .open_).conn i = s.conn i) ∧
    (step s .open_).conn s.conns.length = some (Conn.init s.bs s.cap) ∧
    (step s .open_).conns.length = s.conns.length + 1 := by
  refine ⟨fun i hi => ?_, ?_, ?_⟩
  · simp only [step, St.conn]; exact List.getElem?_append_left hi
  · simp only [step, St.conn]
    rw [List.getElem?_append_right (Nat.le_refl _)]
    simp
  · simp [step]

theorem step_length_mono (s : St) (l : Label) : s.conns.length ≤ (step s l).conns.length := by
  cases l <;> simp [step, List.length_modify]

theorem step_not_addressed (s : St) (l : Label) (i : Nat) (hi : i < s.conns.length)
    (hl : addressed i l = false) : (step s l).conn i = s.conn i := by
  cases l with
  | open_ => exact (step_open s).1 i hi
  | proxyClose => rfl
  | «at» j l =>
    have : i ≠ j := by
      intro h; subst h; simp [addressed] at hl
    exact step_other s this l

/-- **frame**: a run in which no action is addressed to connection `i` — any number of further connections
    opened, any traffic on them, any of them closed in any way, even `Close()` of the proxy — leaves
    connection `i` exactly as it was -/
theorem run_frame (s : St) (ls : List Label) (i : Nat) (hi : i < s.conns.length)
    (hl : ∀ l ∈ ls, addressed i l = false) : (run s ls).conn i = s.conn i := by
  unfold run
  induction ls generalizing s with
  | nil => rfl
  | cons l ls ih =>
    have h1 := step_not_addressed s l i hi (hl l List.mem_cons_self)
    have h2 := ih (step s l) (Nat.lt_of_lt_of_le hi (step_length_mono s l))
      (fun l' hl' => hl l' (List.mem_cons_of_mem _ hl'))
    simp only [List.foldl_cons]
    rw [h2, h1]

theorem step_pclosed (s : St) (l : Label) :
    (step s l).pclosed = (match l with | .proxyClose => true | _ => s.pclosed) := by
  cases l <;> rfl

/-- **projection**: what connection `i` is after ANY run is what its own actions (with the value of
    `pxy.closeCh` at their time) make of it — however they interleave with the opening, the traffic and the
    closing of every other connection -/
theorem run_proj (s : St) (ls : List Label) (i : Nat) (c : Conn) (hc : s.conn i = some c) :
    (run s ls).conn i = some (crun c (proj i s.pclosed ls)) := by
  unfold run
  induction ls generalizing s c with
  | nil => simpa [proj, crun] using hc
  | cons l ls ih =>
    have hi : i < s.conns.length := by
      simp only [St.conn] at hc
      exact (List.getElem?_eq_some_iff.1 hc).1
    simp only [List.foldl_cons]
    cases l with
    | open_ =>
      have h1 : (step s .open_).conn i = some c := by rw [(step_open s).1 i hi]; exact hc
      have := ih (step s .open_) c h1
      simpa [proj, step] using this
    | proxyClose =>
      have h1 : (step s .proxyClose).conn i = some c := hc
      have := ih (step s .proxyClose) c h1
      simpa [proj, step] using this
    | «at» j l =>
      by_cases hji : j = i
      · have h1 : (step s (.at j l)).conn i = some (cstep s.pclosed c l) := by
          rw [conn_at, hc]; simp [hji]
        have := ih (step s (.at j l)) _ h1
        simp only [proj, hji, if_true, crun, List.foldl_cons] at this ⊢
        simpa [step] using this
      · have h1 : (step s (.at j l)).conn i = some c := by
          rw [conn_at, hc]; simp [hji]
        have := ih (step s (.at j l)) c h1
        simp only [proj, hji, if_false] at this ⊢
        simpa [step] using this

/-- **why a connection gets closed**: a step closes connection `i` only if it is an action of connection `i`
    itself: its reader failing, its sender failing to write, or its heartbeat seeing the proxy closed.  Never a
    new work connection, never anything that happens on another connection. -/
theorem close_causes (s : St) (l : Label) (i : Nat) (c c' : Conn) (h0 : s.conn i = some c)
    (h1 : (step s l).conn i = some c') (ho : c.isClose = false) (hc : c'.isClose = true) :
    (l = .at i .readerDie ∧ c'.cause = some .readErr) ∨
    ((∃ ok, l = .at i (.send ok)) ∧ c'.cause = some .writeErr) ∨
    (l = .at i .hbClose ∧ s.pclosed = true ∧ c'.cause = some .proxyClosed) := by
  have hi : i < s.conns.length := by
    simp only [St.conn] at h0
    exact (List.getElem?_eq_some_iff.1 h0).1
  cases l with
  | open_ =>
    rw [(step_open s).1 i hi, h0] at h1
    cases h1; rw [ho] at hc; cases hc
  | proxyClose =>
    have : (step s .proxyClose).conn i = s.conn i := rfl
    rw [this, h0] at h1
    cases h1; rw [ho] at hc; cases hc
  | «at» j l =>
    by_cases hji : j = i
    · subst hji
      rw [conn_at, h0] at h1
      simp only [if_true, Option.map_some, Option.some.injEq] at h1
      subst h1
      cases l <;>
        simp only [cstep, stepRecv, stepReaderDie, stepFwd, stepBackendReply, stepSockExit, stepSend,
          stepSenderEnd, stepTick, stepHbClose, doClose] at hc ⊢ <;>
        (repeat' split at hc) <;>
        simp_all [doClose]
    · have : i ≠ j := fun h => hji h.symm
      rw [step_other s this, h0] at h1
      cases h1; rw [ho] at hc; cases hc

/-! ### light load on one connection -/

/-- a datagram that arrives on an open, idle connection is handed to the backend on the socket of its user
    address (the existing one, or a new one), and nothing is dropped -/
theorem conn_delivers (pc : Bool) (c : Conn) (a : Addr) (p : Str) (hb : isBytes p = true)
    (ho : c.isClose = false) (hr : c.reader = true) (hq : c.readCh = []) (hcap : 0 < c.cap)
    (hs : ∀ k, lookup c.cmap (some a) = some k → c.closedSocks.contains k = false) :
    let c' := crun c [(pc, .recv (packetOf p none (some a))), (pc, .fwd true)]
    let k := (lookup c.cmap (some a)).getD c.nextSock
    c'.backendLog = c.backendLog ++ [(k, (some a, some p))] ∧ c'.dropUp = c.dropUp ∧ c'.readCh = [] ∧
      c'.isClose = false := by
  have hv : contentOf (packetOf p none (some a)) = some p := decode_encode p ((isBytes_iff p).1 hb)
  have hvw : view (packetOf p none (some a)) = (some a, some p) := by
    simp only [view, hv]; rfl
  have hra : (packetOf p none (some a)).raddr = some a := rfl
  simp only [crun, List.foldl_cons, List.foldl_nil, cstep, stepRecv, hr, ho, hq, List.length_nil, hcap,
    Bool.not_true, Bool.false_eq_true, if_false, if_true, List.nil_append, stepFwd, hv, hra, hvw]
  cases hl : lookup c.cmap (some a) with
  | none => simp [hq]
  | some k =>
    have := hs k hl
    simp only [List.contains_eq_mem, decide_eq_false_iff_not] at this
    simp [this, hq]

/-- a reply the backend sends to a live socket of an open, idle connection is written on THAT work
    connection, tagged with the user address the socket was dialled for, and nothing is dropped -/
theorem conn_reply_delivers (pc : Bool) (c : Conn) (k : Nat) (a : Option Addr) (q : Str) (hb : isBytes q = true)
    (ho : c.isClose = false) (hsd : c.sender = true) (hq : c.sendCh = []) (hcap : 0 < c.cap)
    (hown : ownerOf c.socks k = some a) (hlive : lookup c.cmap a = some k) (hopen : c.closedSocks.contains k = false) :
    let c' := crun c [(pc, .backendReply k q), (pc, .send true)]
    c'.wire = c.wire ++ [(a, some (rd c.bs q))] ∧ c'.dropDown = c.dropDown ∧ c'.sendCh = [] ∧ c'.isClose = false := by
  have hv := view_packetOf' q a hb c.bs
  simp only [crun, List.foldl_cons, List.foldl_nil, cstep, stepBackendReply, hb, hown, hlive, hopen, ho, hq,
    List.length_nil, hcap, Bool.not_true, Bool.not_false, Bool.false_eq_true, if_false, if_true, List.nil_append,
    stepSend, hsd, Bool.and_true]
  simp [hv]

end SudpPx
end Frp
