import Frp.Model.Frame
/-! Helper lemmas for the framing model (core Lean only). -/
namespace Frp
namespace Frame

/-- all elements are bytes -/
def IsBytes (s : Str) : Prop := ∀ b ∈ s, b < 256

instance (s : Str) : Decidable (IsBytes s) := by unfold IsBytes; exact inferInstance

theorem be64_length (n : Nat) : (be64 n).length = 8 := rfl

theorem be64_isBytes (n : Nat) : IsBytes (be64 n) := by
  intro b hb
  simp only [be64, List.mem_cons, List.not_mem_nil, or_false] at hb
  omega

theorem unbe64_be64 (n : Nat) (h : n < 18446744073709551616) : unbe64 (be64 n) = n := by
  simp only [unbe64, be64, List.foldl]
  omega

/-- any 8 bytes are the big-endian image of their value -/
theorem be64_unbe64 (hdr : Str) (hl : hdr.length = 8) (hb : IsBytes hdr) : be64 (unbe64 hdr) = hdr := by
  match hdr, hl with
  | [a, b, c, d, e, f, g, h], _ =>
    have ha := hb a (by simp)
    have hb' := hb b (by simp)
    have hc := hb c (by simp)
    have hd := hb d (by simp)
    have he := hb e (by simp)
    have hf := hb f (by simp)
    have hg := hb g (by simp)
    have hh := hb h (by simp)
    simp only [unbe64, be64, List.foldl]
    have e1 : (((((((0 * 256 + a) * 256 + b) * 256 + c) * 256 + d) * 256 + e) * 256 + f) * 256 + g) * 256 + h
      = a * 72057594037927936 + b * 281474976710656 + c * 1099511627776 + d * 4294967296
        + e * 16777216 + f * 65536 + g * 256 + h := by omega
    rw [e1]
    congr 1
    · omega
    congr 1
    · omega
    congr 1
    · omega
    congr 1
    · omega
    congr 1
    · omega
    congr 1
    · omega
    congr 1
    · omega
    congr 1
    omega

theorem unbe64_lt (hdr : Str) (hl : hdr.length = 8) (hb : IsBytes hdr) : unbe64 hdr < 18446744073709551616 := by
  have h := be64_unbe64 hdr hl hb
  match hdr, hl with
  | [a, b, c, d, e, f, g, h], _ =>
    have ha := hb a (by simp)
    have hb' := hb b (by simp)
    have hc := hb c (by simp)
    have hd := hb d (by simp)
    have he := hb e (by simp)
    have hf := hb f (by simp)
    have hg := hb g (by simp)
    have hh := hb h (by simp)
    simp only [unbe64, List.foldl]
    omega

theorem take8_be64 (n : Nat) (r : Str) : (be64 n ++ r).take 8 = be64 n := by
  simp [be64]

theorem drop8_be64 (n : Nat) (r : Str) : (be64 n ++ r).drop 8 = r := by
  simp [be64]

theorem length_be64_append (n : Nat) (r : Str) : (be64 n ++ r).length = 8 + r.length := by
  simp [be64]; omega

theorem toInt64_small (u : Nat) (h : u < 9223372036854775808) : toInt64 u = (u : Int) := by
  simp only [toInt64, h, if_true]

theorem toInt64_neg (u : Nat) (h : 9223372036854775808 ≤ u) (h2 : u < 18446744073709551616) : toInt64 u < 0 := by
  simp only [toInt64]
  split <;> omega

/-- the sign of the int64 is the top bit of the first header byte -/
theorem top_bit_unbe64 (b0 : Nat) (tl : Str) (hl : tl.length = 7) (hb : IsBytes (b0 :: tl)) :
    (128 ≤ b0 ↔ 9223372036854775808 ≤ unbe64 (b0 :: tl)) := by
  match tl, hl with
  | [b, c, d, e, f, g, h], _ =>
    have ha := hb b0 (by simp)
    have hb' := hb b (by simp)
    have hc := hb c (by simp)
    have hd := hb d (by simp)
    have he := hb e (by simp)
    have hf := hb f (by simp)
    have hg := hb g (by simp)
    have hh := hb h (by simp)
    simp only [unbe64, List.foldl]
    omega

theorem encode_length (t : Nat) (body : Str) : (encode t body).length = 9 + body.length := by
  simp only [encode, List.length_cons, length_be64_append]; omega

theorem encode_take9 (t : Nat) (body rest : Str) : (encode t body ++ rest).take 9 = t :: be64 body.length := by
  simp [encode, be64]

theorem mem_of_lookup {l : List (Nat × String)} {t : Nat} {s : String} (h : l.lookup t = some s) :
    (t, s) ∈ l := by
  induction l with
  | nil => simp [List.lookup] at h
  | cons p tl ih =>
    obtain ⟨a, b⟩ := p
    simp only [List.lookup] at h
    split at h
    · rename_i heq
      simp only [beq_iff_eq] at heq
      injection h with h
      subst heq; subst h
      exact List.mem_cons_self
    · exact List.mem_cons_of_mem _ (ih h)

end Frame
end Frp
