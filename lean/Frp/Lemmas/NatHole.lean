import Frp.Model.NatHole
/-
  Helper lemmas for C20 (core only).
-/
namespace Frp
namespace NatHole
open NatBeh Gen.NatTables

/-! ## score lists: the (mode, index) shape never changes -/

def shape (l : List Score) : List (Nat × Nat) := l.map (fun s => (s.mode, s.index))

theorem shape_append (a b : List Score) : shape (a ++ b) = shape a ++ shape b := by
  simp [shape]

theorem shape_decAt (l : List Score) (k : Nat) : shape (decAt l k) = shape l := by
  induction l generalizing k with
  | nil => simp [decAt]
  | cons s r ih =>
    cases k with
    | zero => simp [decAt, shape]
    | succ k => simp only [decAt, shape, List.map_cons]; have := ih k; simp only [shape] at this; rw [this]

theorem shape_reportSuccess (mode index : Nat) (l : List Score) :
    shape (reportSuccess mode index l) = shape l := by
  induction l with
  | nil => simp [reportSuccess]
  | cons s r ih =>
    simp only [reportSuccess]
    split
    · simp only [shape, List.map_cons] at ih ⊢; rw [ih]
    · simp [shape]

theorem shape_recommand (l : List Score) : shape (recommand l).1 = shape l := by
  unfold recommand
  split
  · rfl
  · exact shape_decAt _ _

/-- what `Recommand` returns is (0,0) or the (mode, index) of a stored entry -/
theorem recommand_mem (l : List Score) :
    (recommand l).2 = (0, 0) ∨ (recommand l).2 ∈ shape l := by
  unfold recommand
  split
  · left; rfl
  · next s hs =>
    right
    have := List.mem_of_getElem? hs
    simp only [shape, List.mem_map]
    exact ⟨s, this, rfl⟩

/-- every stored (mode, index) indexes an existing row of the mode's table -/
def Valid (l : List Score) : Prop := ∀ p ∈ shape l, p.2 < (behaviorsByMode p.1).length

theorem valid_append {a b : List Score} (ha : Valid a) (hb : Valid b) : Valid (a ++ b) := by
  intro p hp
  rw [shape_append] at hp
  rcases List.mem_append.mp hp with h | h
  · exact ha p h
  · exact hb p h

theorem scoresFrom_bound (mode : Nat) (s r : Int) (tbl : List (Beh × Beh)) (i : Nat) :
    ∀ p ∈ shape (scoresFrom mode s r tbl i), p.1 = mode ∧ p.2 < i + tbl.length := by
  induction tbl generalizing i with
  | nil => intro p hp; simp [scoresFrom, shape] at hp
  | cons x xs ih =>
    intro p hp
    simp only [scoresFrom, shape, List.map_cons, List.mem_cons] at hp
    rcases hp with h | h
    · subst h; simp only [List.length_cons]; refine ⟨?_, ?_⟩ <;> first | rfl | omega | trivial
    · have := ih (i + 1) p (by simpa [shape] using h)
      simp only [List.length_cons]
      exact ⟨this.1, by omega⟩

theorem valid_scoresByMode2 (mode : Nat) (s r : Int) : Valid (scoresByMode2 mode s r) := by
  intro p hp
  have := scoresFrom_bound mode s r (behaviorsByMode mode) 0 p hp
  rw [this.1]
  omega

theorem valid_scoresByMode (mode : Nat) (d : Int) : Valid (scoresByMode mode d) :=
  valid_scoresByMode2 mode d d

theorem valid_newRecords (c v : Feature) : Valid (newRecords c v) := by
  unfold newRecords
  have h0 : Valid (if c.pub then scoresByMode2 detectMode0 0 1
      else if v.pub then scoresByMode2 detectMode0 1 0 else scoresByMode detectMode0 0) := by
    split
    · exact valid_scoresByMode2 _ _ _
    · split
      · exact valid_scoresByMode2 _ _ _
      · exact valid_scoresByMode _ _
  simp only
  split
  · exact h0
  · split
    · exact valid_append (valid_append (valid_scoresByMode _ _) (valid_scoresByMode _ _)) h0
    · split
      · exact valid_append (valid_append (valid_scoresByMode _ _) (valid_scoresByMode _ _)) h0
      · split
        · exact valid_append (valid_scoresByMode _ _) (valid_scoresByMode _ _)
        · split
          · exact valid_scoresByMode _ _
          · exact valid_append (valid_append (valid_scoresByMode _ _) (valid_scoresByMode _ _)) (valid_scoresByMode _ _)

theorem valid_recommand {l : List Score} (h : Valid l) : Valid (recommand l).1 := by
  intro p hp; rw [shape_recommand] at hp; exact h p hp

theorem valid_reportSuccess {l : List Score} (mode index : Nat) (h : Valid l) :
    Valid (reportSuccess mode index l) := by
  intro p hp; rw [shape_reportSuccess] at hp; exact h p hp

theorem zero_row : 0 < (behaviorsByMode 0).length := by decide

/-- the recommended (mode, index) of a valid record set indexes an existing row -/
theorem recommand_row {l : List Score} (h : Valid l) :
    (recommand l).2.2 < (behaviorsByMode (recommand l).2.1).length := by
  rcases recommand_mem l with h0 | hm
  · rw [h0]; exact zero_row
  · exact h _ hm

/-! ## analyzer invariant -/

def AInv (A : Analyzer) : Prop := ∀ key r, aget A.records key = some r → Valid r

theorem ainv_init : AInv {} := by intro key r h; simp [aget] at h

theorem ainv_put {A : Analyzer} (h : AInv A) (key : Str) (r : List Score) (hr : Valid r) :
    AInv { records := aput A.records key r } := by
  intro k' r' hk
  rw [aget_aput] at hk
  split at hk
  · cases hk; exact hr
  · exact h k' r' hk

/-- the record set `GetRecommandBehaviors` works on -/
def recsFor (A : Analyzer) (key : Str) (c v : Feature) : List Score :=
  match aget A.records key with
  | some r => r
  | none => newRecords c v

theorem valid_recsFor {A : Analyzer} (h : AInv A) (key : Str) (c v : Feature) : Valid (recsFor A key c v) := by
  unfold recsFor
  split
  · next r hr => exact h key r hr
  · exact valid_newRecords c v

theorem getRecommand_eq (A : Analyzer) (key : Str) (c v : Feature) :
    getRecommand A key c v =
      ({ records := aput A.records key (recommand (recsFor A key c v)).1 },
       { mode := (recommand (recsFor A key c v)).2.1, index := (recommand (recsFor A key c v)).2.2,
         cBeh := (swapRule (recommand (recsFor A key c v)).2.1 c
                    (behaviorByModeAndIndex (recommand (recsFor A key c v)).2.1 (recommand (recsFor A key c v)).2.2)).1,
         vBeh := (swapRule (recommand (recsFor A key c v)).2.1 c
                    (behaviorByModeAndIndex (recommand (recsFor A key c v)).2.1 (recommand (recsFor A key c v)).2.2)).2 }) := by
  unfold getRecommand recsFor
  rfl

theorem ainv_getRecommand {A : Analyzer} (h : AInv A) (key : Str) (c v : Feature) :
    AInv (getRecommand A key c v).1 := by
  rw [getRecommand_eq]
  exact ainv_put h key _ (valid_recommand (valid_recsFor h key c v))

theorem ainv_report {A : Analyzer} (h : AInv A) (key : Str) (mode index : Nat) :
    AInv (analyzerReport A key mode index) := by
  unfold analyzerReport
  split
  · exact h
  · next r hr => exact ainv_put h key _ (valid_reportSuccess mode index (h key r hr))

theorem ainv_forget {A : Analyzer} (h : AInv A) (key : Str) : AInv (analyzerForget A key) := by
  intro k' r hk
  simp only [analyzerForget] at hk
  rw [aget_adel] at hk
  split at hk
  · cases hk
  · exact h k' r hk

/-! ## compact, classify -/

theorem mem_compact (a : Str) : ∀ l : List Str, a ∈ compact l ↔ a ∈ l
  | [] => by simp [compact]
  | [x] => by simp [compact]
  | x :: y :: r => by
    have ih := mem_compact a (y :: r)
    simp only [compact]
    split
    · next h => subst h; rw [ih]; simp
    · simp only [List.mem_cons] at ih ⊢; rw [ih]

theorem getLast_mem {α : Type} {l : List α} {a : α} (h : l.getLast? = some a) : a ∈ l := by
  exact List.mem_of_getLast? h

/-- the last element of the slice left behind by `slices.Compact` is an original element or "" -/
theorem getLast_compactZeroed {l : List Str} {a : Str} (h : (compactZeroed l).getLast? = some a) :
    a ∈ l ∨ a = [] := by
  have hm := List.mem_of_getLast? h
  unfold compactZeroed at hm
  rcases List.mem_append.mp hm with h1 | h2
  · left; exact (mem_compact a l).mp h1
  · right; exact (List.mem_replicate.mp h2).2

theorem splitHostPort_nil : splitHostPort [] = none := by decide

theorem classifyLoop_minmax (loc : List Str) : ∀ (addrs : List Str) (st st' : ClsSt),
    st.portMin ≤ st.portMax → classifyLoop loc addrs st = some st' → st'.portMin ≤ st'.portMax := by
  intro addrs
  induction addrs with
  | nil => intro st st' h e; simp only [classifyLoop] at e; cases e; exact h
  | cons a r ih =>
    intro st st' h e
    simp only [classifyLoop] at e
    split at e
    · cases e
    · split at e
      · cases e
      · next pn _ =>
        split at e
        · cases e
        · split at e
          · exact ih _ _ (by simp) e
          · refine ih _ _ ?_ e
            simp only
            split <;> split <;> omega

theorem classify_diff_nonneg {addrs loc : List Str} {f : Feature} (h : classify addrs loc = some f) :
    0 ≤ f.portsDifference := by
  unfold classify at h
  split at h
  · cases h
  · split at h
    · cases h
    · next st hst =>
      have hmm := classifyLoop_minmax loc addrs {} st (by simp) hst
      cases h
      simp only [featureOf]
      split <;> omega

end NatHole
end Frp
