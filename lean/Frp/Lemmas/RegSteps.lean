import Frp.Model.RegSteps
/-
  Helper lemmas for Frp/Model/RegSteps.lean (core only): the quota table, `claim`, the sums the
  quota counter must equal, and the structural invariant of every step.
-/
namespace Frp
namespace RegSteps
open Release

/-! ### quota table -/

theorem lookup_filter_ne (l : List (Nat × Nat)) (a b : Nat) (h : b ≠ a) :
    (l.filter (fun e => e.1 ≠ a)).lookup b = l.lookup b := by
  induction l with
  | nil => rfl
  | cons e es ih =>
    obtain ⟨x, y⟩ := e
    rw [List.filter_cons]
    split
    · rw [List.lookup_cons, List.lookup_cons, ih]
    · rename_i hp
      have hx : x = a := by simpa using hp
      have hb : (b == x) = false := by rw [hx]; simpa using h
      rw [ih, List.lookup_cons, hb]

theorem lookup_filter_self (l : List (Nat × Nat)) (a : Nat) :
    (l.filter (fun e => e.1 ≠ a)).lookup a = none := by
  induction l with
  | nil => rfl
  | cons e es ih =>
    obtain ⟨x, y⟩ := e
    rw [List.filter_cons]
    split
    · rename_i hp
      have hx : x ≠ a := by simpa using hp
      have hb : (a == x) = false := by simpa using (fun h : a = x => hx h.symm)
      rw [List.lookup_cons, hb, ih]
    · exact ih

theorem quotaOf_setQuota (s : CState) (sid v x : Nat) :
    (s.setQuota sid v).quotaOf x = if x = sid then v else s.quotaOf x := by
  unfold CState.quotaOf CState.setQuota
  by_cases h : x = sid
  · subst h; simp
  · have hb : (x == sid) = false := by simpa using h
    simp only [List.lookup_cons, hb, if_neg h]
    rw [lookup_filter_ne _ _ _ h]

theorem quotaOf_charge (s : CState) (sid n x : Nat) :
    (s.charge sid n).quotaOf x = if x = sid then s.quotaOf sid + s.amt n else s.quotaOf x := by
  unfold CState.charge CState.amt
  by_cases hm : s.maxPorts > 0
  · simp only [if_pos hm]; exact quotaOf_setQuota s sid _ x
  · simp only [if_neg hm]; split
    · rename_i h; subst h; rfl
    · rfl

theorem quotaOf_refund (s : CState) (sid n x : Nat) :
    (s.refund sid n).quotaOf x = if x = sid then s.quotaOf sid - s.amt n else s.quotaOf x := by
  unfold CState.refund CState.amt
  by_cases hm : s.maxPorts > 0
  · simp only [if_pos hm]; exact quotaOf_setQuota s sid _ x
  · simp only [if_neg hm]; split
    · rename_i h; subst h; rfl
    · rfl

@[simp] theorem charge_held (s : CState) (a b : Nat) : (s.charge a b).held = s.held := by
  unfold CState.charge CState.setQuota; split <;> rfl
@[simp] theorem charge_names (s : CState) (a b : Nat) : (s.charge a b).names = s.names := by
  unfold CState.charge CState.setQuota; split <;> rfl
@[simp] theorem charge_own (s : CState) (a b : Nat) : (s.charge a b).own = s.own := by
  unfold CState.charge CState.setQuota; split <;> rfl
@[simp] theorem charge_flights (s : CState) (a b : Nat) : (s.charge a b).flights = s.flights := by
  unfold CState.charge CState.setQuota; split <;> rfl
@[simp] theorem charge_maxPorts (s : CState) (a b : Nat) : (s.charge a b).maxPorts = s.maxPorts := by
  unfold CState.charge CState.setQuota; split <;> rfl
@[simp] theorem refund_held (s : CState) (a b : Nat) : (s.refund a b).held = s.held := by
  unfold CState.refund CState.setQuota; split <;> rfl
@[simp] theorem refund_names (s : CState) (a b : Nat) : (s.refund a b).names = s.names := by
  unfold CState.refund CState.setQuota; split <;> rfl
@[simp] theorem refund_own (s : CState) (a b : Nat) : (s.refund a b).own = s.own := by
  unfold CState.refund CState.setQuota; split <;> rfl
@[simp] theorem refund_flights (s : CState) (a b : Nat) : (s.refund a b).flights = s.flights := by
  unfold CState.refund CState.setQuota; split <;> rfl
@[simp] theorem refund_maxPorts (s : CState) (a b : Nat) : (s.refund a b).maxPorts = s.maxPorts := by
  unfold CState.refund CState.setQuota; split <;> rfl

theorem amt_eq (s t : CState) (h : t.maxPorts = s.maxPorts) (x : Nat) : t.amt x = s.amt x := by
  unfold CState.amt; rw [h]

theorem amt_add (s : CState) (a b : Nat) : s.amt (a + b) = s.amt a + s.amt b := by
  unfold CState.amt; split <;> rfl

/-! ### `claim` -/

theorem lookup_isSome_of_mem {l : List (Key × Inst)} {k : Key} {n : Inst} (h : (k, n) ∈ l) :
    (l.lookup k).isSome = true := by
  induction l with
  | nil => simp at h
  | cons e es ih =>
    obtain ⟨a, b⟩ := e
    rw [List.lookup_cons]
    by_cases hk : k = a
    · subst hk; simp
    · have : (k == a) = false := by simpa using hk
      simp only [this]
      rcases List.mem_cons.mp h with h | h
      · injection h with h1; exact absurd h1 hk
      · exact ih h

theorem lookup_none_not_mem {l : List (Key × Inst)} {k : Key} (h : (l.lookup k).isSome = false) :
    k ∉ l.map (·.1) := by
  intro hm
  obtain ⟨e, he, hk⟩ := List.mem_map.mp hm
  have : (l.lookup k).isSome = true := lookup_isSome_of_mem (n := e.2) (by rw [← hk]; exact he)
  rw [h] at this; cases this

theorem lookup_none_of_not_mem {l : List (Key × Inst)} {k : Key} (h : k ∉ l.map (·.1)) :
    (l.lookup k).isSome = false := by
  induction l with
  | nil => rfl
  | cons e es ih =>
    obtain ⟨a, b⟩ := e
    simp only [List.map_cons, List.mem_cons, not_or] at h
    have : (k == a) = false := by simpa using h.1
    rw [List.lookup_cons]; simp only [this]
    exact ih h.2

/-- `claim` only prepends entries held by `who`, on keys that were free, keeping keys distinct -/
theorem claim_shape (held : List (Key × Inst)) (who : Inst) (ks : List Key)
    (hn : (held.map (·.1)).Nodup) :
    ∃ new, (claim held who ks).1 = new ++ held ∧ (∀ e ∈ new, e.2 = who) ∧
      (((claim held who ks).1).map (·.1)).Nodup := by
  induction ks generalizing held with
  | nil => exact ⟨[], rfl, by simp, hn⟩
  | cons k ks ih =>
    unfold claim
    split
    · exact ⟨[], rfl, by simp, hn⟩
    · rename_i hk
      have hk' : (held.lookup k).isSome = false := Bool.eq_false_iff.mpr hk
      have hn' : (((k, who) :: held).map (·.1)).Nodup := by
        simp only [List.map_cons, List.nodup_cons]
        exact ⟨lookup_none_not_mem hk', hn⟩
      obtain ⟨new, h1, h2, h3⟩ := ih ((k, who) :: held) hn'
      refine ⟨new ++ [(k, who)], ?_, ?_, h3⟩
      · rw [h1]; simp
      · intro e he
        rcases List.mem_append.mp he with he | he
        · exact h2 e he
        · simp at he; rw [he]

/-- distinct free keys are all claimed -/
theorem claim_free (held : List (Key × Inst)) (who : Inst) (ks : List Key) (hnd : ks.Nodup)
    (hfree : ∀ k ∈ ks, k ∉ held.map (·.1)) : (claim held who ks).2 = none := by
  induction ks generalizing held with
  | nil => rfl
  | cons k ks ih =>
    unfold claim
    have hk := lookup_none_of_not_mem (hfree k List.mem_cons_self)
    simp only [hk, Bool.false_eq_true, if_false]
    have hnd' := List.nodup_cons.mp hnd
    apply ih _ hnd'.2
    intro k' hk'
    simp only [List.map_cons, List.mem_cons, not_or]
    exact ⟨fun e => hnd'.1 (e ▸ hk'), hfree k' (List.mem_cons_of_mem _ hk')⟩

theorem releaseAll_append (a b : List (Key × Inst)) (who : Inst) :
    releaseAll (a ++ b) who = releaseAll a who ++ releaseAll b who := by
  simp [releaseAll]

theorem releaseAll_all_held {a : List (Key × Inst)} {who : Inst} (h : ∀ e ∈ a, e.2 = who) :
    releaseAll a who = [] := by
  unfold releaseAll
  apply List.filter_eq_nil_iff.mpr
  intro e he
  simp [h e he]

theorem releaseAll_none_held {a : List (Key × Inst)} {who : Inst} (h : ∀ e ∈ a, e.2 ≠ who) :
    releaseAll a who = a := by
  unfold releaseAll
  apply List.filter_eq_self.mpr
  intro e he
  simpa using h e he

/-! ### the sums -/

theorem ownSum_cons (o : Own) (os : List Own) (x : Nat) :
    ownSum (o :: os) x = (if o.sid = x then o.n else 0) + ownSum os x := rfl

theorem flightSum_cons (f : Flight) (fs : List Flight) (x : Nat) :
    flightSum (f :: fs) x = (if f.sid = x then f.n else 0) + flightSum fs x := rfl

theorem flightSum_filter_other (l : List Flight) (sid x : Nat) (h : x ≠ sid) :
    flightSum (l.filter (fun f => f.sid ≠ sid)) x = flightSum l x := by
  induction l with
  | nil => rfl
  | cons f fs ih =>
    rw [List.filter_cons]
    split
    · rw [flightSum_cons, flightSum_cons, ih]
    · rename_i hp
      have hf : f.sid = sid := by simpa using hp
      have : ¬ f.sid = x := fun e => h (e ▸ hf)
      rw [ih, flightSum_cons, if_neg this, Nat.zero_add]

theorem flightSum_filter_self (l : List Flight) (sid : Nat) :
    flightSum (l.filter (fun f => f.sid ≠ sid)) sid = 0 := by
  induction l with
  | nil => rfl
  | cons f fs ih =>
    rw [List.filter_cons]
    split
    · rename_i hp
      have hf : ¬ f.sid = sid := by simpa using hp
      rw [flightSum_cons, if_neg hf, ih]
    · exact ih

theorem filter_sid_ne_self (gs : List Flight) (sid : Nat) (h : sid ∉ gs.map (·.sid)) :
    gs.filter (fun g => g.sid ≠ sid) = gs := by
  apply List.filter_eq_self.mpr
  intro g hg
  have : g.sid ≠ sid := fun e => h (List.mem_map.mpr ⟨g, hg, e⟩)
  simpa using this

/-- with one flight per session, the session's sum is the charge of its flight -/
theorem flightSum_of_mem (l : List Flight) (hnd : (l.map (·.sid)).Nodup) (f : Flight) (hf : f ∈ l) :
    flightSum l f.sid = f.n := by
  induction l with
  | nil => simp at hf
  | cons g gs ih =>
    simp only [List.map_cons, List.nodup_cons] at hnd
    rcases List.mem_cons.mp hf with e | e
    · subst e
      have : flightSum gs f.sid = 0 := by
        rw [← filter_sid_ne_self gs f.sid hnd.1]; exact flightSum_filter_self gs f.sid
      rw [flightSum_cons, if_pos rfl, this, Nat.add_zero]
    · have hne : ¬ g.sid = f.sid := fun e' => hnd.1 (List.mem_map.mpr ⟨f, e, e'.symm⟩)
      rw [flightSum_cons, if_neg hne, Nat.zero_add, ih hnd.2 e]

theorem flightSum_not_busy (l : List Flight) (sid : Nat) (h : l.any (fun f => f.sid = sid) = false) :
    flightSum l sid = 0 := by
  induction l with
  | nil => rfl
  | cons f fs ih =>
    simp only [List.any_cons, Bool.or_eq_false_iff, decide_eq_false_iff_not] at h
    rw [flightSum_cons, if_neg h.1, ih h.2]

theorem ownSum_drop_other (l : List Own) (sid x : Nat) (name : Str) (h : x ≠ sid) :
    ownSum (l.filter (fun o => ¬ (o.sid = sid ∧ o.name = name))) x = ownSum l x := by
  induction l with
  | nil => rfl
  | cons o os ih =>
    rw [List.filter_cons]
    split
    · rw [ownSum_cons, ownSum_cons, ih]
    · rename_i hp
      have ho : o.sid = sid ∧ o.name = name := by simpa using hp
      have : ¬ o.sid = x := fun e => h (e ▸ ho.1)
      rw [ih, ownSum_cons, if_neg this, Nat.zero_add]

theorem filter_drop_self (ps : List Own) (sid : Nat) (name : Str) (h : name ∉ ps.map (·.name)) :
    ps.filter (fun p => ¬ (p.sid = sid ∧ p.name = name)) = ps := by
  apply List.filter_eq_self.mpr
  intro p hp
  have : ¬ (p.sid = sid ∧ p.name = name) := fun e => h (List.mem_map.mpr ⟨p, hp, e.2⟩)
  exact decide_eq_true this

/-- names being distinct, dropping (sid, name) takes exactly that entry's charge off the session's sum -/
theorem ownSum_drop_self (l : List Own) (hnd : (l.map (·.name)).Nodup) (o : Own) (ho : o ∈ l) :
    ownSum (l.filter (fun p => ¬ (p.sid = o.sid ∧ p.name = o.name))) o.sid + o.n = ownSum l o.sid := by
  induction l with
  | nil => simp at ho
  | cons p ps ih =>
    simp only [List.map_cons, List.nodup_cons] at hnd
    rcases List.mem_cons.mp ho with e | e
    · subst e
      rw [List.filter_cons]
      split
      · rename_i hp
        exact absurd ⟨rfl, rfl⟩ (of_decide_eq_true hp)
      · rw [filter_drop_self ps o.sid o.name hnd.1, ownSum_cons, if_pos rfl]
        omega
    · have hne : ¬ (p.sid = o.sid ∧ p.name = o.name) :=
        fun e' => hnd.1 (List.mem_map.mpr ⟨o, e, e'.2.symm⟩)
      have := ih hnd.2 e
      rw [List.filter_cons]
      split
      · rw [ownSum_cons, ownSum_cons]
        omega
      · rename_i hp
        exact absurd (decide_eq_true hne) hp

end RegSteps
end Frp
