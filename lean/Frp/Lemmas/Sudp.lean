import Frp.Model.Sudp
import Frp.Lemmas.Udp
/-
  Invariants of the sudp visitor machine (Frp/Model/Sudp.lean), core Lean only.
  The property statements are in Frp/Props/C03.lean (section 5).
-/
namespace Frp
namespace Sudp
open Udp Base64

/-- packets built by `ForwardUserConn` from a logged user datagram -/
def UpOK (s : St) (m : Packet) : Prop :=
  ∃ a p, (a, p) ∈ s.sent ∧ isBytes p = true ∧ m = packetOf (rd s.bs p) none (some a)

/-- upstream drop reasons: overload, failed connection attempt, dead connection -/
def okUp : VDrop → Bool
  | .sendFull | .connFail | .connDown => true
  | _ => false

structure Inv (s : St) : Prop where
  /-- every datagram that arrived at the visitor's socket is exactly one of: queued, held in a local
      variable of the dispatcher / worker, written on some visitor connection, dropped -/
  up : ∀ x : View, s.sentV.count x =
      (s.sendCh.map view).count x + ((held s).map view).count x
        + (s.wire.map Prod.snd).count x + (s.dropUp.map Prod.snd).count x
  down : ∀ x : View, (s.inLog.map Prod.snd).count x =
      (s.readCh.map view).count x + (s.userLog.map uview).count x + (s.dropDown.map Prod.snd).count x
  sentEq : s.sentV = s.sent.map (fun e => (some e.1, some (rd s.bs e.2)))
  upOK : ∀ m, (m ∈ s.sendCh ∨ m ∈ held s) → UpOK s m
  wireGen : ∀ e ∈ s.wire, 1 ≤ e.1 ∧ e.1 ≤ s.gen
  inGen : ∀ e ∈ s.inLog, 1 ≤ e.1 ∧ e.1 ≤ s.gen
  workGen : s.phase = .work → 1 ≤ s.gen
  idle : s.phase ≠ .work → s.sender = false ∧ s.reader = false
  /-- the sender goroutine leaves only after its first-packet block -/
  senderGone : s.phase = .work → s.sender = false → s.firstDone = true
  dropReason : ∀ e ∈ s.dropUp, okUp e.1 = true

theorem inv_init (bs cap : Nat) : Inv (init bs cap) := by
  constructor <;> simp [init, held, UpOK]

theorem UpOK.mono {s s' : St} {m : Packet} (hs : ∀ e ∈ s.sent, e ∈ s'.sent) (hb : s'.bs = s.bs)
    (h : UpOK s m) : UpOK s' m := by
  obtain ⟨a, p, hin, hbytes, rfl⟩ := h
  exact ⟨a, p, hs _ hin, hbytes, by rw [hb]⟩

theorem UpOK.same {s s' : St} {m : Packet} (hs : s'.sent = s.sent) (hb : s'.bs = s.bs)
    (h : UpOK s m) : UpOK s' m :=
  h.mono (fun e he => by rw [hs]; exact he) hb

theorem UpOK.view {s : St} {m : Packet} (h : UpOK s m) :
    ∃ a p, (a, p) ∈ s.sent ∧ Udp.view m = (some a, some (rd s.bs p)) := by
  obtain ⟨a, p, hin, hb, rfl⟩ := h
  exact ⟨a, p, hin, view_packetOf' p (some a) hb s.bs⟩

theorem ok_append {l : List (VDrop × View)} {d : VDrop} {v : View}
    (h : ∀ e ∈ l, okUp e.1 = true) (h1 : okUp d = true) :
    ∀ e ∈ l ++ [(d, v)], okUp e.1 = true := by
  intro e he
  simp only [List.mem_append, List.mem_cons, List.not_mem_nil, or_false] at he
  rcases he with he | he
  · exact h e he
  · subst he; exact h1

theorem gen_append {l : List (Nat × View)} {g : Nat} {v : View}
    (h : ∀ e ∈ l, 1 ≤ e.1 ∧ e.1 ≤ g) (hg : 1 ≤ g) :
    ∀ e ∈ l ++ [(g, v)], 1 ≤ e.1 ∧ e.1 ≤ g := by
  intro e he
  simp only [List.mem_append, List.mem_cons, List.not_mem_nil, or_false] at he
  rcases he with he | he
  · exact h e he
  · subst he; exact ⟨hg, Nat.le_refl _⟩

/-- close a goal that is literally a field of the old invariant -/
macro "keep " h:ident : tactic =>
  `(tactic| first
    | exact ($h).up | exact ($h).down | exact ($h).sentEq | exact ($h).upOK | exact ($h).wireGen
    | exact ($h).inGen | exact ($h).workGen | exact ($h).idle | exact ($h).senderGone
    | exact ($h).dropReason)

macro "cnt " "at " h:ident : tactic =>
  `(tactic| simp only [List.map_append, List.count_append, List.map_cons, List.map_nil, List.count_cons,
      List.count_nil, Option.toList, List.map_map] at $h:ident ⊢)

/-! ### every label preserves the invariant -/

theorem inv_userSend {s : St} (h : Inv s) (a : Addr) (p : Str) : Inv (stepUserSend s a p) := by
  unfold stepUserSend
  split
  · exact h
  · rename_i hb
    have hb : isBytes p = true := by simpa using hb
    have hv := view_packetOf' p (some a) hb s.bs
    have hmono : ∀ e ∈ s.sent, e ∈ s.sent ++ [(a, p)] := fun e he => List.mem_append_left _ he
    have hnew : UpOK { s with sent := s.sent ++ [(a, p)] } (packetOf (rd s.bs p) none (some a)) :=
      ⟨a, p, by simp, hb, rfl⟩
    simp only []
    split
    · constructor
      all_goals (try keep h)
      case up =>
        intro x
        have := h.up x
        simp only [held] at this ⊢
        cnt at this
        omega
      case sentEq => simp only [List.map_append, List.map_cons, List.map_nil, h.sentEq, hv]
      case upOK =>
        intro m hm
        simp only [held] at hm
        simp only [List.mem_append, List.mem_cons, List.not_mem_nil, or_false] at hm
        rcases hm with (hm | hm) | hm
        · exact (h.upOK m (Or.inl hm)).mono hmono rfl
        · subst hm; exact hnew
        · exact (h.upOK m (Or.inr (by simpa only [held] using hm))).mono hmono rfl
    · constructor
      all_goals (try keep h)
      case up =>
        intro x
        have := h.up x
        simp only [held] at this ⊢
        cnt at this
        omega
      case sentEq => simp only [List.map_append, List.map_cons, List.map_nil, h.sentEq, hv]
      case upOK =>
        intro m hm
        simp only [held] at hm
        rcases hm with hm | hm
        · exact (h.upOK m (Or.inl hm)).mono hmono rfl
        · exact (h.upOK m (Or.inr (by simpa only [held] using hm))).mono hmono rfl
      case dropReason => exact ok_append h.dropReason rfl

theorem inv_dispTake {s : St} (h : Inv s) : Inv (stepDispTake s) := by
  unfold stepDispTake
  split
  · rename_i m rest hph hq
    have hheld : held s = [] := by simp only [held, hph]
    constructor
    all_goals (try keep h)
    case up =>
      intro x
      have := h.up x
      rw [hheld, hq] at this
      simp only [held]
      cnt at this
      omega
    case upOK =>
      intro m' hm'
      simp only [held, Option.toList, List.mem_cons, List.not_mem_nil, or_false] at hm'
      rcases hm' with hm' | hm'
      · exact (h.upOK m' (Or.inl (by rw [hq]; exact List.mem_cons_of_mem _ hm'))).same rfl rfl
      · subst hm'; exact (h.upOK _ (Or.inl (by rw [hq]; exact List.mem_cons_self))).same rfl rfl
    case workGen => intro hw; cases hw
    case idle => intro _; exact h.idle (by rw [hph]; intro hc; cases hc)
    case senderGone => intro hw; cases hw
  · exact h

theorem inv_connect {s : St} (h : Inv s) (ok : Bool) : Inv (stepConnect s ok) := by
  unfold stepConnect
  split
  · rename_i hph
    have hheld : held s = s.dFirst.toList := by simp only [held, hph]
    have hidle := h.idle (by rw [hph]; intro hc; cases hc)
    split
    · constructor
      all_goals (try keep h)
      case up =>
        intro x
        have := h.up x
        rw [hheld] at this
        simp only [held, Bool.false_eq_true, if_false]
        exact this
      case upOK =>
        intro m' hm'
        simp only [held, Bool.false_eq_true, if_false] at hm'
        exact (h.upOK m' (by rw [hheld]; exact hm')).same rfl rfl
      case wireGen =>
        intro e he
        have := h.wireGen e he
        exact ⟨this.1, Nat.le_succ_of_le this.2⟩
      case inGen =>
        intro e he
        have := h.inGen e he
        exact ⟨this.1, Nat.le_succ_of_le this.2⟩
      case workGen => intro _; exact Nat.succ_le_succ (Nat.zero_le _)
      case idle => intro hc; exact absurd rfl hc
      case senderGone => intro _ hc; cases hc
    · constructor
      all_goals (try keep h)
      case up =>
        intro x
        have := h.up x
        rw [hheld] at this
        simp only [held]
        cases hd : s.dFirst with
        | none =>
          rw [hd] at this
          cnt at this
          omega
        | some m =>
          rw [hd] at this
          cnt at this
          omega
      case upOK =>
        intro m' hm'
        simp only [held, List.not_mem_nil, or_false] at hm'
        exact (h.upOK m' (Or.inl hm')).same rfl rfl
      case workGen => intro hw; cases hw
      case idle => intro _; exact hidle
      case senderGone => intro hw; cases hw
      case dropReason =>
        intro e he
        simp only [List.mem_append, List.mem_map] at he
        rcases he with he | ⟨m, _, rfl⟩
        · exact h.dropReason e he
        · rfl
  · exact h

theorem inv_sendFirst {s : St} (h : Inv s) (ok : Bool) : Inv (stepSendFirst s ok) := by
  unfold stepSendFirst
  split
  · rename_i hph
    have hg := h.workGen hph
    split
    · rename_i hc
      simp only [Bool.and_eq_true, Bool.not_eq_true'] at hc
      have hheld : held s = s.wFirst.toList := by simp only [held, hph, hc.2, Bool.false_eq_true, if_false]
      split
      · rename_i hw
        constructor
        all_goals (try keep h)
        case up =>
          intro x
          have := h.up x
          rw [hheld, hw] at this
          simp only [held, hph, if_true]
          cnt at this
          omega
        case upOK =>
          intro m' hm'
          simp only [held, hph, if_true, List.not_mem_nil, or_false] at hm'
          exact (h.upOK m' (Or.inl hm')).same rfl rfl
        case senderGone => intro _ _; rfl
      · rename_i m hw
        split
        · constructor
          all_goals (try keep h)
          case up =>
            intro x
            have := h.up x
            rw [hheld, hw] at this
            simp only [held, hph, if_true]
            cnt at this
            omega
          case upOK =>
            intro m' hm'
            simp only [held, hph, if_true, List.not_mem_nil, or_false] at hm'
            exact (h.upOK m' (Or.inl hm')).same rfl rfl
          case wireGen => exact gen_append h.wireGen hg
          case senderGone => intro _ _; rfl
        · constructor
          all_goals (try keep h)
          case up =>
            intro x
            have := h.up x
            rw [hheld, hw] at this
            simp only [held, hph, if_true]
            cnt at this
            omega
          case upOK =>
            intro m' hm'
            simp only [held, hph, if_true, List.not_mem_nil, or_false] at hm'
            exact (h.upOK m' (Or.inl hm')).same rfl rfl
          case idle => intro hne; exact absurd hph hne
          case senderGone => intro _ _; rfl
          case dropReason => exact ok_append h.dropReason rfl
    · exact h
  · exact h

theorem inv_sendNext {s : St} (h : Inv s) (ok : Bool) : Inv (stepSendNext s ok) := by
  unfold stepSendNext
  split
  · rename_i m rest hph hq
    have hg := h.workGen hph
    split
    · rename_i hc
      simp only [Bool.and_eq_true] at hc
      have hheld : held s = [] := by simp only [held, hph, hc.2, if_true]
      have hup : ∀ m', (m' ∈ rest ∨ m' ∈ ([] : List Packet)) → UpOK s m' := by
        intro m' hm'
        rcases hm' with hm' | hm'
        · exact h.upOK m' (Or.inl (by rw [hq]; exact List.mem_cons_of_mem _ hm'))
        · cases hm'
      split
      · constructor
        all_goals (try keep h)
        case up =>
          intro x
          have := h.up x
          rw [hheld, hq] at this
          simp only [held, hph, hc.2, if_true]
          cnt at this
          omega
        case upOK =>
          intro m' hm'
          simp only [held, hph, hc.2, if_true] at hm'
          exact (hup m' hm').same rfl rfl
        case wireGen => exact gen_append h.wireGen hg
      · constructor
        all_goals (try keep h)
        case up =>
          intro x
          have := h.up x
          rw [hheld, hq] at this
          simp only [held, hph, hc.2, if_true]
          cnt at this
          omega
        case upOK =>
          intro m' hm'
          simp only [held, hph, hc.2, if_true] at hm'
          exact (hup m' hm').same rfl rfl
        case idle => intro hne; exact absurd hph hne
        case senderGone => intro _ _; exact hc.2
        case dropReason => exact ok_append h.dropReason rfl
    · exact h
  · exact h

theorem inv_senderExit {s : St} (h : Inv s) : Inv (stepSenderExit s) := by
  unfold stepSenderExit
  split
  · rename_i hph
    split
    · rename_i hc
      simp only [Bool.and_eq_true, Bool.not_eq_true'] at hc
      constructor
      all_goals (try keep h)
      case idle => intro hne; exact absurd hph hne
      case senderGone => intro _ _; exact hc.1.2
    · exact h
  · exact h

theorem inv_connRecv {s : St} (h : Inv s) (m : Packet) : Inv (stepConnRecv s m) := by
  unfold stepConnRecv
  split
  · rename_i hph
    have hg := h.workGen hph
    split
    · constructor
      all_goals (try keep h)
      case down =>
        intro x
        have := h.down x
        cnt at this
        omega
      case inGen => exact gen_append h.inGen hg
    · exact h
  · exact h

theorem inv_readerDie {s : St} (h : Inv s) : Inv (stepReaderDie s) := by
  unfold stepReaderDie
  split
  · rename_i hph
    constructor
    all_goals (try keep h)
    case idle => intro hne; exact absurd hph hne
  · exact h

theorem inv_workerEnd {s : St} (h : Inv s) : Inv (stepWorkerEnd s) := by
  unfold stepWorkerEnd
  split
  · rename_i hph
    split
    · rename_i hc
      simp only [Bool.and_eq_true, Bool.not_eq_true'] at hc
      have hfd : s.firstDone = true := h.senderGone hph hc.1
      have hheld : held s = [] := by simp only [held, hph, hfd, if_true]
      constructor
      all_goals (try keep h)
      case up =>
        intro x
        have := h.up x
        rw [hheld] at this
        simp only [held]
        exact this
      case upOK =>
        intro m' hm'
        simp only [held, List.not_mem_nil, or_false] at hm'
        exact (h.upOK m' (Or.inl hm')).same rfl rfl
      case workGen => intro hw; cases hw
      case idle => intro _; exact hc
      case senderGone => intro hw; cases hw
    · exact h
  · exact h

theorem inv_sback {s : St} (h : Inv s) : Inv (stepSback s) := by
  unfold stepSback
  split
  · exact h
  · rename_i m rest hq
    have hcnt : ∀ x : View, (s.inLog.map Prod.snd).count x =
        (if view m == x then 1 else 0) + (rest.map view).count x
          + (s.userLog.map uview).count x + (s.dropDown.map Prod.snd).count x := by
      intro x
      have := h.down x
      rw [hq] at this
      simp only [List.map_cons, List.count_cons] at this
      omega
    simp only []
    split
    · rename_i buf a hc hr
      have hvm : view m = uview (a, buf) := by simp only [view, uview, hr, hc]
      constructor
      all_goals (try keep h)
      case down =>
        intro x
        have := hcnt x
        rw [hvm] at this
        cnt at this
        omega
    · constructor
      all_goals (try keep h)
      case down =>
        intro x
        have := hcnt x
        cnt at this
        omega
    · constructor
      all_goals (try keep h)
      case down =>
        intro x
        have := hcnt x
        cnt at this
        omega

theorem inv_step {s : St} (h : Inv s) (l : Label) : Inv (step s l) := by
  cases l with
  | userSend a p => exact inv_userSend h a p
  | dispTake => exact inv_dispTake h
  | connect ok => exact inv_connect h ok
  | sendFirst ok => exact inv_sendFirst h ok
  | sendNext ok => exact inv_sendNext h ok
  | senderExit => exact inv_senderExit h
  | connRecv m => exact inv_connRecv h m
  | connPing => exact h
  | readerDie => exact inv_readerDie h
  | workerEnd => exact inv_workerEnd h
  | sback => exact inv_sback h

theorem inv_run (s : St) (h : Inv s) (ls : List Label) : Inv (run s ls) := by
  unfold run
  induction ls generalizing s with
  | nil => exact h
  | cons l ls ih => exact ih (step s l) (inv_step h l)

/-! ### where drops can come from; progress at light load -/

/-- one step adds a drop entry only at one of three sites, each with its cause -/
theorem drop_causes (s : St) (l : Label) (d : VDrop) (x : View)
    (hgt : s.dropUp.count (d, x) < (step s l).dropUp.count (d, x)) :
    (d = .sendFull ∧ s.cap ≤ s.sendCh.length ∧ ∃ a p, l = .userSend a p) ∨
    (d = .connFail ∧ s.phase = .connect ∧ l = .connect false) ∨
    (d = .connDown ∧ s.phase = .work ∧ (l = .sendFirst false ∨ l = .sendNext false)) := by
  have same : ∀ {P : Prop}, s.dropUp.count (d, x) < s.dropUp.count (d, x) → P :=
    fun h => absurd h (Nat.lt_irrefl _)
  have one : ∀ {r : VDrop} {v : View}, s.dropUp.count (d, x) < (s.dropUp ++ [(r, v)]).count (d, x) → d = r := by
    intro r v h
    simp only [List.count_append, List.count_cons, List.count_nil, beq_iff_eq, Prod.mk.injEq] at h
    split at h
    · rename_i heq; exact heq.1.symm
    · omega
  cases l with
  | userSend a p =>
    simp only [step, stepUserSend] at hgt
    split at hgt
    · exact same hgt
    · split at hgt
      · exact same hgt
      · rename_i hfull
        simp only [Nat.not_lt] at hfull
        exact Or.inl ⟨one hgt, hfull, a, p, rfl⟩
  | dispTake => simp only [step, stepDispTake] at hgt; split at hgt <;> exact same hgt
  | connect ok =>
    simp only [step, stepConnect] at hgt
    split at hgt
    · rename_i hph
      split at hgt
      · exact same hgt
      · rename_i hok
        have hok : ok = false := by simpa using hok
        cases hd : s.dFirst with
        | none =>
          rw [hd] at hgt
          simp only [Option.toList, List.map_nil, List.append_nil] at hgt
          exact same hgt
        | some m =>
          rw [hd] at hgt
          simp only [Option.toList, List.map_cons, List.map_nil] at hgt
          exact Or.inr (Or.inl ⟨one hgt, hph, by rw [hok]⟩)
    · exact same hgt
  | sendFirst ok =>
    simp only [step, stepSendFirst] at hgt
    split at hgt
    · rename_i hph
      split at hgt
      · split at hgt
        · exact same hgt
        · split at hgt
          · exact same hgt
          · rename_i hok
            have hok : ok = false := by simpa using hok
            exact Or.inr (Or.inr ⟨one hgt, hph, Or.inl (by rw [hok])⟩)
      · exact same hgt
    · exact same hgt
  | sendNext ok =>
    simp only [step, stepSendNext] at hgt
    split at hgt
    · rename_i hph _
      split at hgt
      · split at hgt
        · exact same hgt
        · rename_i hok
          have hok : ok = false := by simpa using hok
          exact Or.inr (Or.inr ⟨one hgt, hph, Or.inr (by rw [hok])⟩)
      · exact same hgt
    · exact same hgt
  | senderExit => simp only [step, stepSenderExit] at hgt; (repeat' split at hgt) <;> exact same hgt
  | connRecv m => simp only [step, stepConnRecv] at hgt; (repeat' split at hgt) <;> exact same hgt
  | connPing => simp only [step] at hgt; exact same hgt
  | readerDie => simp only [step, stepReaderDie] at hgt; split at hgt <;> exact same hgt
  | workerEnd => simp only [step, stepWorkerEnd] at hgt; (repeat' split at hgt) <;> exact same hgt
  | sback => simp only [step, stepSback] at hgt; (repeat' split at hgt) <;> exact same hgt

/-- light load, no connection yet: the datagram is taken by the dispatcher, a connection is made
    and the datagram is the first thing written on it -/
theorem first_datagram_delivered (s : St) (a : Addr) (p : Str) (hb : isBytes p = true)
    (hph : s.phase = .wait) (hq : s.sendCh = []) (hcap : 0 < s.cap) :
    let s' := run s [.userSend a p, .dispTake, .connect true, .sendFirst true]
    s'.wire = s.wire ++ [(s.gen + 1, (some a, some (rd s.bs p)))] ∧ s'.dropUp = s.dropUp ∧
      s'.sendCh = [] ∧ s'.phase = .work ∧ s'.sender = true ∧ s'.firstDone = true := by
  have hv := view_packetOf' p (some a) hb s.bs
  simp only [run, List.foldl, step, stepUserSend, hb, hq, hcap, Bool.not_true, Bool.false_eq_true,
    if_false, if_true, List.length_nil, List.nil_append, stepDispTake, hph, stepConnect, stepSendFirst,
    Bool.and_self, Bool.not_false, hv, and_self]

/-- light load, connection up: the datagram is written on the current connection -/
theorem next_datagram_delivered (s : St) (a : Addr) (p : Str) (hb : isBytes p = true)
    (hph : s.phase = .work) (hs : s.sender = true) (hf : s.firstDone = true) (hq : s.sendCh = [])
    (hcap : 0 < s.cap) :
    let s' := run s [.userSend a p, .sendNext true]
    s'.wire = s.wire ++ [(s.gen, (some a, some (rd s.bs p)))] ∧ s'.dropUp = s.dropUp ∧ s'.sendCh = [] := by
  have hv := view_packetOf' p (some a) hb s.bs
  simp only [run, List.foldl, step, stepUserSend, hb, hq, hcap, Bool.not_true, Bool.false_eq_true,
    if_false, if_true, List.length_nil, List.nil_append, stepSendNext, hph, hs, hf, Bool.and_self, hv,
    and_self]

end Sudp
end Frp
