import Frp.Lemmas.Router
import Frp.Model.VhostReg
/-
  Invariant of the registration layer (Frp/Model/VhostReg.lean) and its preservation by every
  single registration / un-registration step of `Run` and `Close` (property theorems live in
  Frp/Props/C06.lean).
-/
namespace Frp
namespace VhostReg
open Str Router

/-- `r` is stored in table `R` (under its own domain and user) -/
def Reg (R : Routers) (r : Route) : Prop := r ∈ R r.domain r.user

theorem unique_of_pairwise {α β : Type} (f : α → β) {l : List α}
    (h : l.Pairwise (fun a b => f a ≠ f b)) {a b : α} (ha : a ∈ l) (hb : b ∈ l) (e : f a = f b) :
    a = b := by
  induction l with
  | nil => cases ha
  | cons x xs ih =>
    obtain ⟨hx, hxs⟩ := List.pairwise_cons.mp h
    rcases List.mem_cons.mp ha with ha' | ha'
    · rcases List.mem_cons.mp hb with hb' | hb'
      · rw [ha', hb']
      · subst ha'; exact absurd e (hx b hb')
    · rcases List.mem_cons.mp hb with hb' | hb'
      · subst hb'; exact absurd e.symm (hx a ha')
      · exact ih hxs ha' hb'

/-- a bucket never holds two routes with the same location -/
theorem reg_unique {R : Routers} (h : Inv R) {x y : Route} (hx : Reg R x) (hy : Reg R y)
    (ed : x.domain = y.domain) (eu : x.user = y.user) (el : x.location = y.location) : x = y := by
  unfold Reg at hx hy
  rw [ed, eu] at hx
  exact unique_of_pairwise (·.location) (desc_ne (h.desc _ _)) hx hy el

/-! ### membership after `add` / `del` -/

theorem add_ok_fresh {R R' : Routers} {d l u : Str} {p : Nat} (h : add R d l u p = (R', .ok)) :
    ∀ x ∈ R (toLower d) u, x.location ≠ l := by
  unfold add at h
  simp only at h
  split at h
  · simp at h
  · rename_i hno
    intro x hx he
    apply hno
    simp only [List.any_eq_true, decide_eq_true_eq]
    exact ⟨x, hx, he⟩

theorem reg_add {R R' : Routers} {d l u : Str} {p : Nat} (h : add R d l u p = (R', .ok)) (x : Route) :
    Reg R' x ↔ Reg R x ∨ x = { domain := toLower d, location := l, user := u, payload := p } := by
  unfold add at h
  simp only at h
  split at h
  · simp at h
  · have hR : R' = upd R (toLower d) u (sortDesc (R (toLower d) u ++
        [{ domain := toLower d, location := l, user := u, payload := p }])) := by
      simp only [Prod.mk.injEq] at h; exact h.1.symm
    subst hR
    unfold Reg
    by_cases e : x.domain = toLower d ∧ x.user = u
    · obtain ⟨e1, e2⟩ := e
      rw [e1, e2, upd_same, mem_sortDesc]; simp
    · rw [upd_other _ _ _ _ _ _ e]
      constructor
      · exact Or.inl
      · rintro (h | h)
        · exact h
        · subst h; exact absurd ⟨rfl, rfl⟩ e

theorem inv_add_ok {R R' : Routers} {d l u : Str} {p : Nat} (hR : Inv R) (h : add R d l u p = (R', .ok)) :
    Inv R' := by
  have := inv_add hR d l u p
  rw [h] at this; exact this

theorem reg_del (R : Routers) (d l u : Str) (x : Route) :
    Reg (del R d l u) x ↔ Reg R x ∧ ¬ (x.domain = toLower d ∧ x.user = u ∧ x.location = l) := by
  unfold Reg del
  by_cases e : x.domain = toLower d ∧ x.user = u
  · obtain ⟨e1, e2⟩ := e
    rw [e1, e2, upd_same, List.mem_filter]; simp
  · rw [upd_other _ _ _ _ _ _ e]
    constructor
    · intro h; exact ⟨h, fun ⟨h1, h2, _⟩ => e ⟨h1, h2⟩⟩
    · exact fun h => h.1

/-! ### the group table -/

theorem get_set_same (G : Groups) (n : Str) (v : Option Group) : (G.set n v).get n = v := by
  simp [Groups.get, Groups.set]

theorem get_set_other (G : Groups) (n n' : Str) (v : Option Group) (h : n' ≠ n) :
    (G.set n v).get n' = G.get n' := by
  have hk : (n' == n) = false := by simpa using h
  simp [Groups.get, Groups.set, List.lookup_cons, hk]

/-! ### the invariant -/

/-- the route a non-group proxy holds for one of its (domain, location) pairs -/
def pr (h : Holder) (k : Str × Str) : Route :=
  { domain := toLower k.1, location := k.2, user := h.user, payload := 2 * h.id }

/-- the route a non-empty group holds -/
def gr (g : Group) : Route :=
  { domain := toLower g.domain, location := g.location, user := g.user, payload := 2 * g.gid + 1 }

structure InvL (T : Tab) (hs : List Holder) : Prop where
  rinv    : Router.Inv T.R
  ids     : hs.Pairwise (fun a b => a.id ≠ b.id)
  own     : ∀ h ∈ hs, h.group = [] → ∀ k ∈ h.keys, Reg T.R (pr h k)
  owned   : ∀ r, Reg T.R r → r.payload % 2 = 0 → ∃ h ∈ hs, h.group = [] ∧ ∃ k ∈ h.keys, r = pr h k
  nodup   : ∀ h ∈ hs, h.group = [] →
              h.keys.Pairwise (fun a b => ¬ (toLower a.1 = toLower b.1 ∧ a.2 = b.2))
  gmem    : ∀ h ∈ hs, h.group ≠ [] → h.keys ≠ [] →
              ∃ g, T.G.get h.group = some g ∧ (h.name, h.id) ∈ g.members
  groute  : ∀ n g, T.G.get n = some g → g.members ≠ [] → Reg T.R (gr g) ∧ g.group = n ∧ n ≠ []
  gholder : ∀ n g, T.G.get n = some g → ∀ m ∈ g.members,
              ∃ h ∈ hs, h.id = m.2 ∧ h.name = m.1 ∧ h.group = n ∧
                h.keys = [(g.domain, g.location)] ∧ h.user = g.user
  gnames  : ∀ n g, T.G.get n = some g → g.members.Pairwise (fun a b => a.1 ≠ b.1)
  gowned  : ∀ r, Reg T.R r → r.payload % 2 = 1 →
              ∃ n g, T.G.get n = some g ∧ g.members ≠ [] ∧ r = gr g
  gids    : ∀ n g, T.G.get n = some g → g.gid < T.nextG
  ginj    : ∀ n n' g g', T.G.get n = some g → T.G.get n' = some g' → g.gid = g'.gid → n = n'

theorem invL_empty : InvL Tab.empty [] := by
  refine ⟨inv_empty, List.Pairwise.nil, ?_, ?_, ?_, ?_, ?_, ?_, ?_, ?_, ?_, ?_⟩
  · intro h hh; cases hh
  · intro r hr; simp [Reg, Tab.empty, Router.empty, Routers.bucket] at hr
  · intro h hh; cases hh
  · intro h hh; cases hh
  · intro n g hg; simp [Tab.empty, Groups.get] at hg
  · intro n g hg; simp [Tab.empty, Groups.get] at hg
  · intro n g hg; simp [Tab.empty, Groups.get] at hg
  · intro r hr; simp [Reg, Tab.empty, Router.empty, Routers.bucket] at hr
  · intro n g hg; simp [Tab.empty, Groups.get] at hg
  · intro n n' g g' hg; simp [Tab.empty, Groups.get] at hg

theorem id_unique {hs : List Holder} (h : hs.Pairwise (fun a b => a.id ≠ b.id)) {a b : Holder}
    (ha : a ∈ hs) (hb : b ∈ hs) (e : a.id = b.id) : a = b :=
  unique_of_pairwise (·.id) h ha hb e

/-! ### single steps of a non-group proxy -/

theorem members_ne_nil {g : Group} {m : Str × Nat} (hm : m ∈ g.members) : g.members ≠ [] := by
  intro e; rw [e] at hm; cases hm

/-- a successful `HTTPReverseProxy.Register` / `Muxer.Listen` of one more (domain, location) -/
theorem inv_claim_plain {T : Tab} {p : Holder} {hs : List Holder} {d l : Str} {R' : Routers}
    (hI : InvL T (p :: hs)) (hg : p.group = []) (ha : add T.R d l p.user (2 * p.id) = (R', .ok)) :
    InvL { T with R := R' } ({ p with keys := p.keys ++ [(d, l)] } :: hs) := by
  have hreg := reg_add ha
  have hfresh := add_ok_fresh ha
  have hids := List.pairwise_cons.mp hI.ids
  refine ⟨inv_add_ok hI.rinv ha, List.pairwise_cons.mpr ⟨hids.1, hids.2⟩, ?_, ?_, ?_, ?_, ?_, ?_,
    hI.gnames, ?_, hI.gids, hI.ginj⟩
  · intro h hh hgr k hk
    rcases List.mem_cons.mp hh with rfl | hh'
    · rcases List.mem_append.mp hk with hk' | hk'
      · exact (hreg _).mpr (Or.inl (hI.own p List.mem_cons_self hg k hk'))
      · simp only [List.mem_singleton] at hk'; subst hk'
        exact (hreg _).mpr (Or.inr rfl)
    · exact (hreg _).mpr (Or.inl (hI.own h (List.mem_cons_of_mem _ hh') hgr k hk))
  · intro r hr he
    rcases (hreg r).mp hr with hr0 | hr0
    · obtain ⟨h, hh, hgr, k, hk, hrk⟩ := hI.owned r hr0 he
      rcases List.mem_cons.mp hh with rfl | hh'
      · exact ⟨_, List.mem_cons_self, hg, k, List.mem_append_left _ hk, hrk⟩
      · exact ⟨h, List.mem_cons_of_mem _ hh', hgr, k, hk, hrk⟩
    · exact ⟨_, List.mem_cons_self, hg, (d, l), by simp, hr0⟩
  · intro h hh hgr
    rcases List.mem_cons.mp hh with rfl | hh'
    · refine List.pairwise_append.mpr ⟨hI.nodup p List.mem_cons_self hg, by simp, ?_⟩
      intro a ha' b hb
      simp only [List.mem_singleton] at hb; subst hb
      rintro ⟨e1, e2⟩
      have hr : pr p a ∈ T.R (toLower a.1) p.user := hI.own p List.mem_cons_self hg a ha'
      rw [e1] at hr
      exact hfresh _ hr e2
    · exact hI.nodup h (List.mem_cons_of_mem _ hh') hgr
  · intro h hh hgr hk
    rcases List.mem_cons.mp hh with rfl | hh'
    · exact absurd hg hgr
    · exact hI.gmem h (List.mem_cons_of_mem _ hh') hgr hk
  · intro n g hget hne
    obtain ⟨h1, h2, h3⟩ := hI.groute n g hget hne
    exact ⟨(hreg _).mpr (Or.inl h1), h2, h3⟩
  · intro n g hget m hm
    obtain ⟨h, hh, e1, e2, e3, e4, e5⟩ := hI.gholder n g hget m hm
    rcases List.mem_cons.mp hh with rfl | hh'
    · have := (hI.groute n g hget (members_ne_nil hm)).2.2
      rw [← e3] at this
      exact absurd hg this
    · exact ⟨h, List.mem_cons_of_mem _ hh', e1, e2, e3, e4, e5⟩
  · intro r hr ho
    rcases (hreg r).mp hr with hr0 | hr0
    · exact hI.gowned r hr0 ho
    · subst hr0; simp only at ho; omega

/-- one `closeFuncs` entry / `Listener.Close` of a non-group proxy: its oldest pair is given back -/
theorem inv_release_plain {T : Tab} {p : Holder} {hs : List Holder} {k : Str × Str} {ks : List (Str × Str)}
    (hI : InvL T ({ p with keys := k :: ks } :: hs)) (hg : p.group = []) :
    InvL { T with R := del T.R k.1 k.2 p.user } ({ p with keys := ks } :: hs) := by
  have hreg := reg_del T.R k.1 k.2 p.user
  have hids := List.pairwise_cons.mp hI.ids
  have hq : Reg T.R (pr { p with keys := k :: ks } k) :=
    hI.own _ List.mem_cons_self hg k List.mem_cons_self
  have hnd := List.pairwise_cons.mp (hI.nodup _ List.mem_cons_self hg)
  refine ⟨inv_del hI.rinv _ _ _, List.pairwise_cons.mpr ⟨hids.1, hids.2⟩, ?_, ?_, ?_, ?_, ?_, ?_,
    hI.gnames, ?_, hI.gids, hI.ginj⟩
  · intro h hh hgr k' hk'
    rcases List.mem_cons.mp hh with rfl | hh'
    · refine (hreg _).mpr ⟨hI.own _ List.mem_cons_self hg k' (List.mem_cons_of_mem _ hk'), ?_⟩
      rintro ⟨e1, _, e2⟩
      exact hnd.1 k' hk' ⟨e1.symm, e2.symm⟩
    · have hr := hI.own h (List.mem_cons_of_mem _ hh') hgr k' hk'
      refine (hreg _).mpr ⟨hr, ?_⟩
      rintro ⟨e1, e2, e3⟩
      have := congrArg Route.payload (reg_unique hI.rinv hr hq e1 e2 e3)
      dsimp only [pr] at this
      have e : p.id = h.id := by omega
      exact hids.1 h hh' e
  · intro r hr he
    obtain ⟨hr0, hnk⟩ := (hreg r).mp hr
    obtain ⟨h, hh, hgr, k', hk', hrk⟩ := hI.owned r hr0 he
    rcases List.mem_cons.mp hh with rfl | hh'
    · rcases List.mem_cons.mp hk' with rfl | hk''
      · subst hrk; exact absurd ⟨rfl, rfl, rfl⟩ hnk
      · exact ⟨_, List.mem_cons_self, hg, k', hk'', hrk⟩
    · exact ⟨h, List.mem_cons_of_mem _ hh', hgr, k', hk', hrk⟩
  · intro h hh hgr
    rcases List.mem_cons.mp hh with rfl | hh'
    · exact hnd.2
    · exact hI.nodup h (List.mem_cons_of_mem _ hh') hgr
  · intro h hh hgr hk
    rcases List.mem_cons.mp hh with rfl | hh'
    · exact absurd hg hgr
    · exact hI.gmem h (List.mem_cons_of_mem _ hh') hgr hk
  · intro n g hget hne
    obtain ⟨h1, h2, h3⟩ := hI.groute n g hget hne
    refine ⟨(hreg _).mpr ⟨h1, ?_⟩, h2, h3⟩
    rintro ⟨e1, e2, e3⟩
    have := congrArg Route.payload (reg_unique hI.rinv h1 hq e1 e2 e3)
    dsimp only [pr, gr] at this
    omega
  · intro n g hget m hm
    obtain ⟨h, hh, e1, e2, e3, e4, e5⟩ := hI.gholder n g hget m hm
    rcases List.mem_cons.mp hh with rfl | hh'
    · have := (hI.groute n g hget (members_ne_nil hm)).2.2
      rw [← e3] at this
      exact absurd hg this
    · exact ⟨h, List.mem_cons_of_mem _ hh', e1, e2, e3, e4, e5⟩
  · intro r hr ho
    exact hI.gowned r ((hreg r).mp hr).1 ho

/-! ### the group controller -/

theorem ginj_set_some {G : Groups} {pg : Str} {g g1 : Group} (hget : G.get pg = some g)
    (hgid : g1.gid = g.gid)
    (hinj : ∀ n n' a b, G.get n = some a → G.get n' = some b → a.gid = b.gid → n = n') :
    ∀ n n' a b, (G.set pg (some g1)).get n = some a → (G.set pg (some g1)).get n' = some b →
      a.gid = b.gid → n = n' := by
  intro n n' a b ha hb e
  by_cases e1 : n = pg <;> by_cases e2 : n' = pg
  · rw [e1, e2]
  · rw [e1, get_set_same] at ha
    rw [get_set_other _ _ _ _ e2] at hb
    have ha' : g1 = a := Option.some.inj ha
    rw [e1]
    exact hinj pg n' g b hget hb (by rw [← hgid, ha']; exact e)
  · rw [e2, get_set_same] at hb
    rw [get_set_other _ _ _ _ e1] at ha
    have hb' : g1 = b := Option.some.inj hb
    rw [e2]
    exact hinj n pg a g ha hget (by rw [← hgid, hb']; exact e)
  · rw [get_set_other _ _ _ _ e1] at ha
    rw [get_set_other _ _ _ _ e2] at hb
    exact hinj n n' a b ha hb e

theorem ginj_set_none {G : Groups} {pg : Str}
    (hinj : ∀ n n' a b, G.get n = some a → G.get n' = some b → a.gid = b.gid → n = n') :
    ∀ n n' a b, (G.set pg none).get n = some a → (G.set pg none).get n' = some b →
      a.gid = b.gid → n = n' := by
  intro n n' a b ha hb e
  by_cases e1 : n = pg
  · rw [e1, get_set_same] at ha; cases ha
  · by_cases e2 : n' = pg
    · rw [e2, get_set_same] at hb; cases hb
    · rw [get_set_other _ _ _ _ e1] at ha
      rw [get_set_other _ _ _ _ e2] at hb
      exact hinj n n' a b ha hb e

theorem ensure_R (T : Tab) (group : Str) : (ensureGroup T group).R = T.R := by
  unfold ensureGroup; split <;> rfl

theorem ensure_get (T : Tab) (group : Str) : ∃ g, (ensureGroup T group).G.get group = some g := by
  unfold ensureGroup
  split
  · rename_i g hg; exact ⟨g, hg⟩
  · exact ⟨_, get_set_same _ _ _⟩

/-- `NewHTTPGroup` stored for a name that had none: nothing observable changes -/
theorem inv_ensure {T : Tab} {hs : List Holder} (hI : InvL T hs) (group : Str) :
    InvL (ensureGroup T group) hs := by
  unfold ensureGroup
  split
  · exact hI
  · rename_i hnone
    have hne : ∀ n g, T.G.get n = some g → n ≠ group := by
      intro n g hg e; rw [e, hnone] at hg; cases hg
    refine ⟨hI.rinv, hI.ids, hI.own, hI.owned, hI.nodup, ?_, ?_, ?_, ?_, ?_, ?_, ?_⟩
    · intro h hh hgr hk
      obtain ⟨g, hg, hm⟩ := hI.gmem h hh hgr hk
      exact ⟨g, by rw [get_set_other _ _ _ _ (hne _ _ hg)]; exact hg, hm⟩
    · intro n g hg hm
      by_cases e : n = group
      · rw [e, get_set_same] at hg
        have := Option.some.inj hg; subst this; exact absurd rfl hm
      · rw [get_set_other _ _ _ _ e] at hg; exact hI.groute n g hg hm
    · intro n g hg m hm
      by_cases e : n = group
      · rw [e, get_set_same] at hg
        have := Option.some.inj hg; subst this; cases hm
      · rw [get_set_other _ _ _ _ e] at hg; exact hI.gholder n g hg m hm
    · intro n g hg
      by_cases e : n = group
      · rw [e, get_set_same] at hg
        have := Option.some.inj hg; subst this; exact List.Pairwise.nil
      · rw [get_set_other _ _ _ _ e] at hg; exact hI.gnames n g hg
    · intro r hr ho
      obtain ⟨n, g, hg, hm, hrg⟩ := hI.gowned r hr ho
      exact ⟨n, g, by rw [get_set_other _ _ _ _ (hne _ _ hg)]; exact hg, hm, hrg⟩
    · intro n g hg
      by_cases e : n = group
      · rw [e, get_set_same] at hg
        have := Option.some.inj hg; subst this; exact Nat.lt_succ_self _
      · rw [get_set_other _ _ _ _ e] at hg
        exact Nat.lt_succ_of_lt (hI.gids n g hg)
    · intro n n' a b ha hb e
      by_cases e1 : n = group <;> by_cases e2 : n' = group
      · rw [e1, e2]
      · rw [e1, get_set_same] at ha
        rw [get_set_other _ _ _ _ e2] at hb
        have := Option.some.inj ha; subst this
        have := hI.gids n' b hb
        dsimp only at e; omega
      · rw [e2, get_set_same] at hb
        rw [get_set_other _ _ _ _ e1] at ha
        have := Option.some.inj hb; subst this
        have := hI.gids n a ha
        dsimp only at e; omega
      · rw [get_set_other _ _ _ _ e1] at ha
        rw [get_set_other _ _ _ _ e2] at hb
        exact hI.ginj n n' a b ha hb e

/-- `HTTPGroup.Register`, "the first proxy in this group": the group's route is added -/
theorem inv_group_first {T : Tab} {p : Holder} {hs : List Holder} {g : Group} {gkey d l : Str}
    {R' : Routers} (hI : InvL T (p :: hs)) (hgr : p.group ≠ []) (hget : T.G.get p.group = some g)
    (hmem : g.members = []) (ha : add T.R d l p.user (2 * g.gid + 1) = (R', .ok)) (hk : p.keys = []) :
    InvL { T with R := R',
                  G := T.G.set p.group (some { g with group := p.group, key := gkey, domain := d,
                                                      location := l, user := p.user,
                                                      members := [(p.name, p.id)] }) }
      ({ p with keys := p.keys ++ [(d, l)] } :: hs) := by
  have hreg := reg_add ha
  have hids := List.pairwise_cons.mp hI.ids
  refine ⟨inv_add_ok hI.rinv ha, List.pairwise_cons.mpr ⟨hids.1, hids.2⟩, ?_, ?_, ?_, ?_, ?_, ?_,
    ?_, ?_, ?_, ginj_set_some hget rfl hI.ginj⟩
  · intro h hh hg0 k hk'
    rcases List.mem_cons.mp hh with rfl | hh'
    · exact absurd hg0 hgr
    · exact (hreg _).mpr (Or.inl (hI.own h (List.mem_cons_of_mem _ hh') hg0 k hk'))
  · intro r hr he
    rcases (hreg r).mp hr with hr0 | hr0
    · obtain ⟨h, hh, hg0, k, hk', hrk⟩ := hI.owned r hr0 he
      rcases List.mem_cons.mp hh with rfl | hh'
      · exact absurd hg0 hgr
      · exact ⟨h, List.mem_cons_of_mem _ hh', hg0, k, hk', hrk⟩
    · subst hr0; dsimp only at he; omega
  · intro h hh hg0
    rcases List.mem_cons.mp hh with rfl | hh'
    · exact absurd hg0 hgr
    · exact hI.nodup h (List.mem_cons_of_mem _ hh') hg0
  · intro h hh hgr' hk'
    rcases List.mem_cons.mp hh with rfl | hh'
    · exact ⟨_, get_set_same _ _ _, by simp⟩
    · obtain ⟨g', hget', hm'⟩ := hI.gmem h (List.mem_cons_of_mem _ hh') hgr' hk'
      by_cases e : h.group = p.group
      · rw [e, hget] at hget'
        have := Option.some.inj hget'; subst this
        rw [hmem] at hm'; cases hm'
      · exact ⟨g', by rw [get_set_other _ _ _ _ e]; exact hget', hm'⟩
  · intro n g' hget' hne'
    by_cases e : n = p.group
    · rw [e, get_set_same] at hget'
      have := Option.some.inj hget'; subst this
      exact ⟨(hreg _).mpr (Or.inr rfl), e.symm, by rw [e]; exact hgr⟩
    · rw [get_set_other _ _ _ _ e] at hget'
      obtain ⟨h1, h2, h3⟩ := hI.groute n g' hget' hne'
      exact ⟨(hreg _).mpr (Or.inl h1), h2, h3⟩
  · intro n g' hget' m hm
    by_cases e : n = p.group
    · rw [e, get_set_same] at hget'
      have := Option.some.inj hget'; subst this
      simp only [List.mem_singleton] at hm; subst hm
      exact ⟨_, List.mem_cons_self, rfl, rfl, e.symm, by simp [hk], rfl⟩
    · rw [get_set_other _ _ _ _ e] at hget'
      obtain ⟨h, hh, e1, e2, e3, e4, e5⟩ := hI.gholder n g' hget' m hm
      rcases List.mem_cons.mp hh with rfl | hh'
      · exact absurd e3.symm e
      · exact ⟨h, List.mem_cons_of_mem _ hh', e1, e2, e3, e4, e5⟩
  · intro n g' hget'
    by_cases e : n = p.group
    · rw [e, get_set_same] at hget'
      have := Option.some.inj hget'; subst this
      exact List.pairwise_singleton _ _
    · rw [get_set_other _ _ _ _ e] at hget'; exact hI.gnames n g' hget'
  · intro r hr ho
    rcases (hreg r).mp hr with hr0 | hr0
    · obtain ⟨n, g', hget', hne', hrg⟩ := hI.gowned r hr0 ho
      have e : n ≠ p.group := by
        intro e; rw [e, hget] at hget'
        have := Option.some.inj hget'; subst this; exact hne' hmem
      exact ⟨n, g', by rw [get_set_other _ _ _ _ e]; exact hget', hne', hrg⟩
    · exact ⟨p.group, _, get_set_same _ _ _, by simp, hr0⟩
  · intro n g' hget'
    by_cases e : n = p.group
    · rw [e, get_set_same] at hget'
      have := Option.some.inj hget'; subst this
      exact hI.gids _ g hget
    · rw [get_set_other _ _ _ _ e] at hget'; exact hI.gids n g' hget'

/-- `HTTPGroup.Register`, a further proxy joins a group that already has members -/
theorem inv_group_join {T : Tab} {p : Holder} {hs : List Holder} {g : Group} {d l : Str}
    (hI : InvL T (p :: hs)) (hgr : p.group ≠ []) (hget : T.G.get p.group = some g)
    (hne : g.members ≠ [])
    (hpar : ¬ (g.group ≠ p.group ∨ g.domain ≠ d ∨ g.location ≠ l ∨ g.user ≠ p.user))
    (hnm : ¬ (g.members.any (fun m => m.1 = p.name)) = true) (hk : p.keys = []) :
    InvL { T with G := T.G.set p.group (some { g with members := g.members ++ [(p.name, p.id)] }) }
      ({ p with keys := p.keys ++ [(d, l)] } :: hs) := by
  have hids := List.pairwise_cons.mp hI.ids
  have hp : g.group = p.group ∧ g.domain = d ∧ g.location = l ∧ g.user = p.user := by
    simpa [not_or] using hpar
  obtain ⟨p1, p2, p3, p4⟩ := hp
  have hnm' : ∀ m ∈ g.members, m.1 ≠ p.name := by
    intro m hm e; apply hnm
    simp only [List.any_eq_true, decide_eq_true_eq]; exact ⟨m, hm, e⟩
  obtain ⟨hgreg, _, _⟩ := hI.groute _ g hget hne
  refine ⟨hI.rinv, List.pairwise_cons.mpr ⟨hids.1, hids.2⟩, ?_, ?_, ?_, ?_, ?_, ?_,
    ?_, ?_, ?_, ginj_set_some hget rfl hI.ginj⟩
  · intro h hh hg0 k hk'
    rcases List.mem_cons.mp hh with rfl | hh'
    · exact absurd hg0 hgr
    · exact hI.own h (List.mem_cons_of_mem _ hh') hg0 k hk'
  · intro r hr he
    obtain ⟨h, hh, hg0, k, hk', hrk⟩ := hI.owned r hr he
    rcases List.mem_cons.mp hh with rfl | hh'
    · exact absurd hg0 hgr
    · exact ⟨h, List.mem_cons_of_mem _ hh', hg0, k, hk', hrk⟩
  · intro h hh hg0
    rcases List.mem_cons.mp hh with rfl | hh'
    · exact absurd hg0 hgr
    · exact hI.nodup h (List.mem_cons_of_mem _ hh') hg0
  · intro h hh hgr' hk'
    rcases List.mem_cons.mp hh with rfl | hh'
    · exact ⟨_, get_set_same _ _ _, by simp⟩
    · obtain ⟨g', hget', hm'⟩ := hI.gmem h (List.mem_cons_of_mem _ hh') hgr' hk'
      by_cases e : h.group = p.group
      · rw [e, hget] at hget'
        have := Option.some.inj hget'; subst this
        exact ⟨_, by rw [e]; exact get_set_same _ _ _, List.mem_append_left _ hm'⟩
      · exact ⟨g', by rw [get_set_other _ _ _ _ e]; exact hget', hm'⟩
  · intro n g' hget' hne'
    by_cases e : n = p.group
    · rw [e, get_set_same] at hget'
      have := Option.some.inj hget'; subst this
      exact ⟨hgreg, by rw [e]; exact p1, by rw [e]; exact hgr⟩
    · rw [get_set_other _ _ _ _ e] at hget'
      exact hI.groute n g' hget' hne'
  · intro n g' hget' m hm
    by_cases e : n = p.group
    · rw [e, get_set_same] at hget'
      have := Option.some.inj hget'; subst this
      rcases List.mem_append.mp hm with hm' | hm'
      · obtain ⟨h, hh, e1, e2, e3, e4, e5⟩ := hI.gholder _ g hget m hm'
        rcases List.mem_cons.mp hh with rfl | hh'
        · exact absurd e2.symm (hnm' m hm')
        · exact ⟨h, List.mem_cons_of_mem _ hh', e1, e2, by rw [e]; exact e3, e4, e5⟩
      · simp only [List.mem_singleton] at hm'; subst hm'
        exact ⟨_, List.mem_cons_self, rfl, rfl, e.symm, by simp [hk, p2, p3], p4.symm⟩
    · rw [get_set_other _ _ _ _ e] at hget'
      obtain ⟨h, hh, e1, e2, e3, e4, e5⟩ := hI.gholder n g' hget' m hm
      rcases List.mem_cons.mp hh with rfl | hh'
      · exact absurd e3.symm e
      · exact ⟨h, List.mem_cons_of_mem _ hh', e1, e2, e3, e4, e5⟩
  · intro n g' hget'
    by_cases e : n = p.group
    · rw [e, get_set_same] at hget'
      have := Option.some.inj hget'; subst this
      refine List.pairwise_append.mpr ⟨hI.gnames _ g hget, List.pairwise_singleton _ _, ?_⟩
      intro a ha b hb
      simp only [List.mem_singleton] at hb; subst hb
      exact hnm' a ha
    · rw [get_set_other _ _ _ _ e] at hget'; exact hI.gnames n g' hget'
  · intro r hr ho
    obtain ⟨n, g', hget', hne', hrg⟩ := hI.gowned r hr ho
    by_cases e : n = p.group
    · rw [e, hget] at hget'
      have := Option.some.inj hget'; subst this
      exact ⟨p.group, _, get_set_same _ _ _, by simp, hrg⟩
    · exact ⟨n, g', by rw [get_set_other _ _ _ _ e]; exact hget', hne', hrg⟩
  · intro n g' hget'
    by_cases e : n = p.group
    · rw [e, get_set_same] at hget'
      have := Option.some.inj hget'; subst this
      exact hI.gids _ g hget
    · rw [get_set_other _ _ _ _ e] at hget'; exact hI.gids n g' hget'

/-- `HTTPGroupController.UnRegister` for a proxy that is a member of its group -/
theorem inv_release_group {T : Tab} {p : Holder} {hs : List Holder} {k : Str × Str}
    {ks : List (Str × Str)} (hI : InvL T ({ p with keys := k :: ks } :: hs)) (hgr : p.group ≠ []) :
    InvL (groupUnRegister T p.name p.group) ({ p with keys := ks } :: hs) := by
  have hids := List.pairwise_cons.mp hI.ids
  obtain ⟨g, hget, hm⟩ := hI.gmem _ List.mem_cons_self hgr (List.cons_ne_nil k ks)
  dsimp only at hget hm
  have hgne := members_ne_nil hm
  obtain ⟨hgreg, hgg, _⟩ := hI.groute _ g hget hgne
  -- the holder is the one recorded for this member, so it holds exactly the group's pair
  have hks : ks = [] := by
    obtain ⟨h, hh, e1, _, _, e4, _⟩ := hI.gholder _ g hget _ hm
    have : h = { p with keys := k :: ks } := id_unique hI.ids hh List.mem_cons_self e1
    rw [this] at e4
    dsimp only at e4
    have := congrArg List.length e4
    simp only [List.length_cons, List.length_nil] at this
    exact List.eq_nil_of_length_eq_zero (by omega)
  -- another member of the same group never carries this proxy's name
  have hother : ∀ h ∈ hs, ∀ i, (h.name, i) ∈ g.members → h.id = i → h.name ≠ p.name := by
    intro h hh i hmi hi e
    have : (h.name, i) = (p.name, p.id) :=
      unique_of_pairwise (·.1) (hI.gnames _ g hget) hmi hm e
    have hid : i = p.id := congrArg Prod.snd this
    exact hids.1 h hh (by dsimp only; omega)
  unfold groupUnRegister
  rw [hget]
  dsimp only
  split
  · -- the last member leaves: the group's route is removed, the group deleted
    rename_i hms
    have hall : ∀ m ∈ g.members, m.1 = p.name := by
      intro m hm'
      have := List.filter_eq_nil_iff.mp hms m hm'
      simpa using this
    have hreg := reg_del T.R g.domain g.location g.user
    refine ⟨inv_del hI.rinv _ _ _, List.pairwise_cons.mpr ⟨hids.1, hids.2⟩, ?_, ?_, ?_, ?_, ?_, ?_,
      ?_, ?_, ?_, ginj_set_none hI.ginj⟩
    · intro h hh hg0 k' hk'
      rcases List.mem_cons.mp hh with rfl | hh'
      · exact absurd hg0 hgr
      · have hr := hI.own h (List.mem_cons_of_mem _ hh') hg0 k' hk'
        refine (hreg _).mpr ⟨hr, ?_⟩
        rintro ⟨e1, e2, e3⟩
        have := congrArg Route.payload (reg_unique hI.rinv hr hgreg e1 e2 e3)
        dsimp only [pr, gr] at this
        omega
    · intro r hr he
      obtain ⟨h, hh, hg0, k', hk', hrk⟩ := hI.owned r ((hreg r).mp hr).1 he
      rcases List.mem_cons.mp hh with rfl | hh'
      · exact absurd hg0 hgr
      · exact ⟨h, List.mem_cons_of_mem _ hh', hg0, k', hk', hrk⟩
    · intro h hh hg0
      rcases List.mem_cons.mp hh with rfl | hh'
      · exact absurd hg0 hgr
      · exact hI.nodup h (List.mem_cons_of_mem _ hh') hg0
    · intro h hh hgr' hk'
      rcases List.mem_cons.mp hh with rfl | hh'
      · exact absurd hks hk'
      · obtain ⟨g', hget', hm'⟩ := hI.gmem h (List.mem_cons_of_mem _ hh') hgr' hk'
        by_cases e : h.group = p.group
        · rw [e, hget] at hget'
          have := Option.some.inj hget'; subst this
          exact absurd (hall _ hm') (hother h hh' h.id hm' rfl)
        · exact ⟨g', by rw [get_set_other _ _ _ _ e]; exact hget', hm'⟩
    · intro n g' hget' hne'
      by_cases e : n = p.group
      · rw [e, get_set_same] at hget'; cases hget'
      · rw [get_set_other _ _ _ _ e] at hget'
        obtain ⟨h1, h2, h3⟩ := hI.groute n g' hget' hne'
        refine ⟨(hreg _).mpr ⟨h1, ?_⟩, h2, h3⟩
        rintro ⟨e1, e2, e3⟩
        have := congrArg Route.payload (reg_unique hI.rinv h1 hgreg e1 e2 e3)
        dsimp only [gr] at this
        exact e (hI.ginj n p.group g' g hget' hget (by omega))
    · intro n g' hget' m hm'
      by_cases e : n = p.group
      · rw [e, get_set_same] at hget'; cases hget'
      · rw [get_set_other _ _ _ _ e] at hget'
        obtain ⟨h, hh, e1, e2, e3, e4, e5⟩ := hI.gholder n g' hget' m hm'
        rcases List.mem_cons.mp hh with rfl | hh'
        · exact absurd e3.symm e
        · exact ⟨h, List.mem_cons_of_mem _ hh', e1, e2, e3, e4, e5⟩
    · intro n g' hget'
      by_cases e : n = p.group
      · rw [e, get_set_same] at hget'; cases hget'
      · rw [get_set_other _ _ _ _ e] at hget'; exact hI.gnames n g' hget'
    · intro r hr ho
      obtain ⟨hr0, hnk⟩ := (hreg r).mp hr
      obtain ⟨n, g', hget', hne', hrg⟩ := hI.gowned r hr0 ho
      have e : n ≠ p.group := by
        intro e; rw [e, hget] at hget'
        have := Option.some.inj hget'; subst this
        subst hrg; exact hnk ⟨rfl, rfl, rfl⟩
      exact ⟨n, g', by rw [get_set_other _ _ _ _ e]; exact hget', hne', hrg⟩
    · intro n g' hget'
      by_cases e : n = p.group
      · rw [e, get_set_same] at hget'; cases hget'
      · rw [get_set_other _ _ _ _ e] at hget'; exact hI.gids n g' hget'
  · -- other members stay: only the membership changes
    rename_i hms
    refine ⟨hI.rinv, List.pairwise_cons.mpr ⟨hids.1, hids.2⟩, ?_, ?_, ?_, ?_, ?_, ?_,
      ?_, ?_, ?_, ginj_set_some hget rfl hI.ginj⟩
    · intro h hh hg0 k' hk'
      rcases List.mem_cons.mp hh with rfl | hh'
      · exact absurd hg0 hgr
      · exact hI.own h (List.mem_cons_of_mem _ hh') hg0 k' hk'
    · intro r hr he
      obtain ⟨h, hh, hg0, k', hk', hrk⟩ := hI.owned r hr he
      rcases List.mem_cons.mp hh with rfl | hh'
      · exact absurd hg0 hgr
      · exact ⟨h, List.mem_cons_of_mem _ hh', hg0, k', hk', hrk⟩
    · intro h hh hg0
      rcases List.mem_cons.mp hh with rfl | hh'
      · exact absurd hg0 hgr
      · exact hI.nodup h (List.mem_cons_of_mem _ hh') hg0
    · intro h hh hgr' hk'
      rcases List.mem_cons.mp hh with rfl | hh'
      · exact absurd hks hk'
      · obtain ⟨g', hget', hm'⟩ := hI.gmem h (List.mem_cons_of_mem _ hh') hgr' hk'
        by_cases e : h.group = p.group
        · rw [e, hget] at hget'
          have := Option.some.inj hget'; subst this
          refine ⟨_, by rw [e]; exact get_set_same _ _ _, ?_⟩
          refine List.mem_filter.mpr ⟨hm', ?_⟩
          simpa using hother h hh' h.id hm' rfl
        · exact ⟨g', by rw [get_set_other _ _ _ _ e]; exact hget', hm'⟩
    · intro n g' hget' hne'
      by_cases e : n = p.group
      · rw [e, get_set_same] at hget'
        have := Option.some.inj hget'; subst this
        exact ⟨hgreg, by rw [e]; exact hgg, by rw [e]; exact hgr⟩
      · rw [get_set_other _ _ _ _ e] at hget'
        exact hI.groute n g' hget' hne'
    · intro n g' hget' m hm'
      by_cases e : n = p.group
      · rw [e, get_set_same] at hget'
        have := Option.some.inj hget'; subst this
        obtain ⟨hm1, hm2⟩ := List.mem_filter.mp hm'
        have hm2' : m.1 ≠ p.name := by simpa using hm2
        obtain ⟨h, hh, e1, e2, e3, e4, e5⟩ := hI.gholder _ g hget m hm1
        rcases List.mem_cons.mp hh with rfl | hh'
        · exact absurd e2.symm hm2'
        · exact ⟨h, List.mem_cons_of_mem _ hh', e1, e2, by rw [e]; exact e3, e4, e5⟩
      · rw [get_set_other _ _ _ _ e] at hget'
        obtain ⟨h, hh, e1, e2, e3, e4, e5⟩ := hI.gholder n g' hget' m hm'
        rcases List.mem_cons.mp hh with rfl | hh'
        · exact absurd e3.symm e
        · exact ⟨h, List.mem_cons_of_mem _ hh', e1, e2, e3, e4, e5⟩
    · intro n g' hget'
      by_cases e : n = p.group
      · rw [e, get_set_same] at hget'
        have := Option.some.inj hget'; subst this
        exact List.Pairwise.filter _ (hI.gnames _ g hget)
      · rw [get_set_other _ _ _ _ e] at hget'; exact hI.gnames n g' hget'
    · intro r hr ho
      obtain ⟨n, g', hget', hne', hrg⟩ := hI.gowned r hr ho
      by_cases e : n = p.group
      · rw [e, hget] at hget'
        have := Option.some.inj hget'; subst this
        exact ⟨p.group, _, get_set_same _ _ _, hms, hrg⟩
      · exact ⟨n, g', by rw [get_set_other _ _ _ _ e]; exact hget', hne', hrg⟩
    · intro n g' hget'
      by_cases e : n = p.group
      · rw [e, get_set_same] at hget'
        have := Option.some.inj hget'; subst this
        exact hI.gids _ g hget
      · rw [get_set_other _ _ _ _ e] at hget'; exact hI.gids n g' hget'

/-! ### `Run` and `Close` as sequences of single steps -/

theorem groupJoin_cases {T T' : Tab} {g : Group} {name group key d l u : Str} {id : Nat}
    {r : Option Err} (h : groupJoin T g name id group key d l u = (T', r)) :
    ((∃ e, r = some e) ∧ T' = T) ∨
    (r = none ∧ g.members = [] ∧ ∃ R', add T.R d l u (2 * g.gid + 1) = (R', .ok) ∧
      T' = { T with R := R',
                    G := T.G.set group (some { g with group := group, key := key, domain := d,
                                                      location := l, user := u,
                                                      members := [(name, id)] }) }) ∨
    (r = none ∧ g.members ≠ [] ∧
      ¬ (g.group ≠ group ∨ g.domain ≠ d ∨ g.location ≠ l ∨ g.user ≠ u) ∧
      ¬ (g.members.any (fun m => m.1 = name)) = true ∧
      T' = { T with G := T.G.set group (some { g with members := g.members ++ [(name, id)] }) }) := by
  unfold groupJoin at h
  split at h
  · rename_i hmem
    split at h
    · simp only [Prod.mk.injEq] at h; obtain ⟨rfl, rfl⟩ := h
      exact Or.inl ⟨⟨_, rfl⟩, rfl⟩
    · rename_i R' ha
      simp only [Prod.mk.injEq] at h; obtain ⟨rfl, rfl⟩ := h
      exact Or.inr (Or.inl ⟨rfl, hmem, R', ha, rfl⟩)
  · rename_i hmem
    split at h
    · simp only [Prod.mk.injEq] at h; obtain ⟨rfl, rfl⟩ := h
      exact Or.inl ⟨⟨_, rfl⟩, rfl⟩
    · rename_i hpar
      split at h
      · simp only [Prod.mk.injEq] at h; obtain ⟨rfl, rfl⟩ := h
        exact Or.inl ⟨⟨_, rfl⟩, rfl⟩
      · split at h
        · simp only [Prod.mk.injEq] at h; obtain ⟨rfl, rfl⟩ := h
          exact Or.inl ⟨⟨_, rfl⟩, rfl⟩
        · rename_i hany
          simp only [Prod.mk.injEq] at h; obtain ⟨rfl, rfl⟩ := h
          exact Or.inr (Or.inr ⟨rfl, hmem, hpar, hany, rfl⟩)

/-- one iteration of the loops of `Run`: after a success the proxy holds one more pair, after a
    refusal it holds what it held -/
theorem inv_regOne {T T' : Tab} {p : Holder} {hs : List Holder} {gkey d l : Str} {r : Option Err}
    (hI : InvL T (p :: hs)) (h : regOne T p gkey d l = (T', r)) :
    (r = none → InvL T' ({ p with keys := p.keys ++ [(d, l)] } :: hs)) ∧
    (r ≠ none → InvL T' (p :: hs)) := by
  unfold regOne at h
  split at h
  · rename_i hgr
    unfold groupRegister at h
    dsimp only at h
    have hI0 := inv_ensure hI p.group
    obtain ⟨g, hget⟩ := ensure_get T p.group
    rw [hget] at h
    dsimp only at h
    rcases groupJoin_cases h with ⟨⟨e, rfl⟩, rfl⟩ | ⟨rfl, hmem, R', ha, rfl⟩ | ⟨rfl, hne, hpar, hany, rfl⟩
    · exact ⟨fun h => (by cases h), fun _ => hI0⟩
    · refine ⟨fun _ => ?_, fun h => absurd rfl h⟩
      have hk : p.keys = [] := by
        apply Decidable.byContradiction
        intro hk
        obtain ⟨g', hget', hm⟩ := hI0.gmem p List.mem_cons_self hgr hk
        rw [hget] at hget'
        have := Option.some.inj hget'; subst this
        rw [hmem] at hm; cases hm
      exact inv_group_first hI0 hgr hget hmem ha hk
    · refine ⟨fun _ => ?_, fun h => absurd rfl h⟩
      have hk : p.keys = [] := by
        apply Decidable.byContradiction
        intro hk
        obtain ⟨g', hget', hm⟩ := hI0.gmem p List.mem_cons_self hgr hk
        rw [hget] at hget'
        have := Option.some.inj hget'; subst this
        apply hany
        simp only [List.any_eq_true, decide_eq_true_eq]
        exact ⟨_, hm, rfl⟩
      exact inv_group_join hI0 hgr hget hne hpar hany hk
  · rename_i hgr
    have hg : p.group = [] := Decidable.not_not.mp hgr
    split at h
    · rename_i R' ha
      simp only [Prod.mk.injEq] at h; obtain ⟨rfl, rfl⟩ := h
      exact ⟨fun _ => inv_claim_plain hI hg ha, fun h => absurd rfl h⟩
    · simp only [Prod.mk.injEq] at h; obtain ⟨rfl, rfl⟩ := h
      exact ⟨fun h => (by cases h), fun _ => hI⟩

/-- the loops of `Run` -/
theorem inv_claim {gkey : Str} {hs : List Holder} (keys : List (Str × Str)) :
    ∀ (T : Tab) (p : Holder), InvL T (p :: hs) →
      InvL (claim T p gkey keys).1 ((claim T p gkey keys).2.1 :: hs) ∧
      (claim T p gkey keys).2.1.id = p.id ∧
      ((claim T p gkey keys).2.2 = none → (claim T p gkey keys).2.1 = { p with keys := p.keys ++ keys }) := by
  induction keys with
  | nil => intro T p hI; exact ⟨hI, rfl, fun _ => by simp [claim]⟩
  | cons k rest ih =>
    intro T p hI
    obtain ⟨d, l⟩ := k
    unfold claim
    cases hr : regOne T p gkey d l with
    | mk T' r =>
      have hstep := inv_regOne hI hr
      cases r with
      | none =>
        dsimp only
        obtain ⟨h1, h2, h3⟩ := ih T' { p with keys := p.keys ++ [(d, l)] } (hstep.1 rfl)
        refine ⟨h1, h2, fun hn => ?_⟩
        rw [h3 hn]; simp
      | some e =>
        dsimp only
        exact ⟨hstep.2 (by simp), rfl, fun h => by cases h⟩

/-- `Close`: the proxy gives back everything it holds -/
theorem inv_releaseKeys {hs : List Holder} (p : Holder) (ks : List (Str × Str)) :
    ∀ (T : Tab), InvL T ({ p with keys := ks } :: hs) →
      InvL (releaseKeys T p ks) ({ p with keys := [] } :: hs) := by
  induction ks with
  | nil => intro T hI; exact hI
  | cons k rest ih =>
    intro T hI
    obtain ⟨d, l⟩ := k
    unfold releaseKeys
    apply ih
    unfold unregOne
    split
    · rename_i hgr; exact inv_release_group hI hgr
    · rename_i hgr
      exact inv_release_plain hI (Decidable.not_not.mp hgr)

theorem inv_release {T : Tab} {p : Holder} {hs : List Holder} (hI : InvL T (p :: hs)) :
    InvL (release T p) ({ p with keys := [] } :: hs) :=
  inv_releaseKeys p p.keys T hI

/-- a proxy that holds nothing may be forgotten … -/
theorem inv_drop {T : Tab} {p : Holder} {hs : List Holder} (hI : InvL T (p :: hs)) (hk : p.keys = []) :
    InvL T hs := by
  have hids := List.pairwise_cons.mp hI.ids
  refine ⟨hI.rinv, hids.2, fun h hh => hI.own h (List.mem_cons_of_mem _ hh), ?_,
    fun h hh => hI.nodup h (List.mem_cons_of_mem _ hh),
    fun h hh => hI.gmem h (List.mem_cons_of_mem _ hh), hI.groute, ?_, hI.gnames, hI.gowned,
    hI.gids, hI.ginj⟩
  · intro r hr he
    obtain ⟨h, hh, hg0, k, hk', hrk⟩ := hI.owned r hr he
    rcases List.mem_cons.mp hh with rfl | hh'
    · rw [hk] at hk'; cases hk'
    · exact ⟨h, hh', hg0, k, hk', hrk⟩
  · intro n g hget m hm
    obtain ⟨h, hh, e1, e2, e3, e4, e5⟩ := hI.gholder n g hget m hm
    rcases List.mem_cons.mp hh with rfl | hh'
    · rw [hk] at e4; cases e4
    · exact ⟨h, hh', e1, e2, e3, e4, e5⟩

/-- … and a new proxy instance that holds nothing yet may be introduced -/
theorem inv_intro {T : Tab} {p : Holder} {hs : List Holder} (hI : InvL T hs) (hk : p.keys = [])
    (hfresh : ∀ h ∈ hs, p.id ≠ h.id) : InvL T (p :: hs) := by
  refine ⟨hI.rinv, List.pairwise_cons.mpr ⟨hfresh, hI.ids⟩, ?_, ?_, ?_, ?_, hI.groute, ?_,
    hI.gnames, hI.gowned, hI.gids, hI.ginj⟩
  · intro h hh hg0 k hk'
    rcases List.mem_cons.mp hh with rfl | hh'
    · rw [hk] at hk'; cases hk'
    · exact hI.own h hh' hg0 k hk'
  · intro r hr he
    obtain ⟨h, hh, rest⟩ := hI.owned r hr he
    exact ⟨h, List.mem_cons_of_mem _ hh, rest⟩
  · intro h hh hg0
    rcases List.mem_cons.mp hh with rfl | hh'
    · rw [hk]; exact List.Pairwise.nil
    · exact hI.nodup h hh' hg0
  · intro h hh hgr hk'
    rcases List.mem_cons.mp hh with rfl | hh'
    · exact absurd hk hk'
    · exact hI.gmem h hh' hgr hk'
  · intro n g hget m hm
    obtain ⟨h, hh, rest⟩ := hI.gholder n g hget m hm
    exact ⟨h, List.mem_cons_of_mem _ hh, rest⟩

/-- `NewProxy` + `Run` (with its rollback) keeps the invariant -/
theorem inv_run (sh : Str) {S : St} (hI : InvL S.tab S.hs) (id : Nat) (c : Cfg) :
    InvL (run sh S id c).1.tab (run sh S id c).1.hs := by
  unfold run
  split
  · exact hI
  · rename_i hfresh
    have hfresh' : ∀ h ∈ S.hs, (holderOf id c []).id ≠ h.id := by
      intro h hh e
      apply hfresh
      simp only [List.any_eq_true, decide_eq_true_eq]
      exact ⟨h, hh, e.symm⟩
    have h0 := inv_intro (p := holderOf id c []) hI rfl hfresh'
    obtain ⟨h1, _, _⟩ := inv_claim (gkey := c.groupKey) (triples sh c) S.tab (holderOf id c []) h0
    split
    · rename_i T' p hc
      rw [hc] at h1; exact h1
    · rename_i T' p e hc
      rw [hc] at h1
      exact inv_drop (inv_release h1) rfl

/-- `Close` keeps the invariant -/
theorem inv_close {S : St} (hI : InvL S.tab S.hs) (id : Nat) :
    InvL (close S id).tab (close S id).hs := by
  unfold close
  split
  · exact hI
  · rename_i p hf
    have hp : p ∈ S.hs := List.mem_of_find?_eq_some hf
    have hpid : p.id = id := by simpa using List.find?_some hf
    -- the same proxies, `p` first
    have hI' : InvL S.tab (p :: S.hs.filter (fun h => h.id ≠ id)) := by
      have hsub : ∀ h, h ∈ S.hs.filter (fun h => h.id ≠ id) → h ∈ S.hs :=
        fun h hh => (List.mem_filter.mp hh).1
      have hback : ∀ h ∈ S.hs, h ∈ p :: S.hs.filter (fun h => h.id ≠ id) := by
        intro h hh
        by_cases e : h.id = id
        · have : h = p := id_unique hI.ids hh hp (by rw [e, hpid])
          rw [this]; exact List.mem_cons_self
        · exact List.mem_cons_of_mem _ (List.mem_filter.mpr ⟨hh, by simpa using e⟩)
      have hall : ∀ h ∈ p :: S.hs.filter (fun h => h.id ≠ id), h ∈ S.hs := by
        intro h hh
        rcases List.mem_cons.mp hh with rfl | hh'
        · exact hp
        · exact hsub h hh'
      refine ⟨hI.rinv, List.pairwise_cons.mpr ⟨?_, List.Pairwise.filter _ hI.ids⟩,
        fun h hh => hI.own h (hall h hh), ?_, fun h hh => hI.nodup h (hall h hh),
        fun h hh => hI.gmem h (hall h hh), hI.groute, ?_, hI.gnames, hI.gowned, hI.gids, hI.ginj⟩
      · intro h hh e
        have := (List.mem_filter.mp hh).2
        simp only [ne_eq, decide_not, Bool.not_eq_eq_eq_not, Bool.not_true, decide_eq_false_iff_not] at this
        exact this (by rw [← e, hpid])
      · intro r hr he
        obtain ⟨h, hh, rest⟩ := hI.owned r hr he
        exact ⟨h, hback h hh, rest⟩
      · intro n g hget m hm
        obtain ⟨h, hh, rest⟩ := hI.gholder n g hget m hm
        exact ⟨h, hback h hh, rest⟩
    exact inv_drop (inv_release hI') rfl

end VhostReg
end Frp
