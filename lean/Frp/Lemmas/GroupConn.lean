import Frp.Lemmas.Group
/-
  Invariants of the group transition system about USER CONNECTIONS (Frp/Model/Group.lean):
  what the worker holds, what sits in the hand-off channel, what was closed, what nobody holds.
  They need only `fx.closeOnFail` (9437e84), not the lock discipline.
-/
namespace Frp
namespace Group
open Str

theorem obj_setObj (s : St) (gid j : Nat) (o' : Obj) :
    (s.setObj gid o').obj j = if j = gid ∧ gid < s.objs.length then o' else s.obj j := by
  simp only [St.obj, St.setObj, List.getElem?_set]
  by_cases h : gid = j
  · subst h
    by_cases hl : gid < s.objs.length
    · simp [hl]
    · simp [hl]
  · have h' : ¬ (j = gid ∧ gid < s.objs.length) := fun e => h e.1.symm
    simp [h, h']

theorem obj_append_default (l : List Obj) (j : Nat) :
    (l ++ [({} : Obj)])[j]?.getD {} = l[j]?.getD {} := by
  rcases Nat.lt_trichotomy j l.length with hlt | heq | hgt
  · rw [List.getElem?_append_left hlt]
  · subst heq; simp
  · rw [List.getElem?_eq_none (by simp; omega), List.getElem?_eq_none (by omega)]

theorem mem_of_lookup {l : List (Nat × Nat)} {c g : Nat} (h : l.lookup c = some g) : (c, g) ∈ l := by
  induction l with
  | nil => cases h
  | cons x t ih =>
    obtain ⟨k, v⟩ := x
    simp only [List.lookup_cons] at h
    split at h
    · rename_i hb
      have : c = k := by simpa using hb
      cases h; subst this; exact List.mem_cons_self
    · exact List.mem_cons_of_mem _ (ih h)

/-- the worker's hands, the channel and the closed/abandoned connections -/
structure CInv (s : St) : Prop where
  /-- no connection is open in nobody's hands -/
  noLimbo : s.limbo = []
  /-- a hand-off channel never holds more than its capacity -/
  bounded : ∀ gid, (s.obj gid).queue.length ≤ s.cap
  /-- a connection waiting for its hand-off belongs to a tcp/tcpmux group whose listener is open or
      whose channel has been closed (so the send either finds a member or fails and closes it) -/
  held : ∀ c gid, (c, gid) ∈ s.inflight →
    s.kind ≠ .http ∧ ((s.obj gid).lnOpen = true ∨ (s.obj gid).chClosed = true)

theorem cinv_init (k : Kind) (allow : List Nat) : CInv (init k allow) :=
  ⟨rfl, by intro gid; simp [init, St.obj], by intro c gid h; simp [init] at h⟩

theorem cinv_congr {s s' : St} (h : CInv s) (h1 : s'.limbo = s.limbo) (h2 : s'.cap = s.cap)
    (h3 : s'.kind = s.kind) (h4 : ∀ j, s'.obj j = s.obj j)
    (h5 : ∀ x, x ∈ s'.inflight → x ∈ s.inflight) : CInv s' :=
  ⟨by rw [h1]; exact h.noLimbo, by intro j; rw [h4, h2]; exact h.bounded j,
   by intro c gid hm; rw [h3, h4]; exact h.held c gid (h5 _ hm)⟩

theorem cinv_setObj {s : St} {gid : Nat} {o' : Obj} (h : CInv s) (hq : o'.queue.length ≤ s.cap)
    (hf : ((s.obj gid).lnOpen = true ∨ (s.obj gid).chClosed = true) →
          (o'.lnOpen = true ∨ o'.chClosed = true)) : CInv (s.setObj gid o') := by
  refine ⟨h.noLimbo, ?_, ?_⟩
  · intro j
    rw [obj_setObj]
    split
    · exact hq
    · exact h.bounded j
  · intro c j hm
    obtain ⟨hk, hfl⟩ := h.held c j hm
    refine ⟨hk, ?_⟩
    rw [obj_setObj]
    split
    · rename_i hj; rw [hj.1] at hfl; exact hf hfl
    · exact hfl

/-- creating the endpoint touches only `ext` / `leaked` -/
theorem createEp_frame2 {fx : Fix} {s s1 : St} {p : Params} {orc : Oracle} {res : Except Err (Nat × EpKey)}
    (h : createEp fx s p orc = some (s1, res)) :
    s1.limbo = s.limbo ∧ s1.cap = s.cap ∧ s1.inflight = s.inflight ∧ s1.dropped = s.dropped ∧
      s1.delivered = s.delivered ∧ s1.seen = s.seen := by
  unfold createEp at h
  cases p <;> simp only at h <;> (repeat' split at h) <;> (try cases h) <;>
    (first
      | done
      | (refine ⟨?_, ?_, ?_, ?_, ?_, ?_⟩ <;> (first | rfl | (split <;> rfl))))

theorem cinv_enter {fx : Fix} {s s' : St} {m g key : Str} {p : Params} {orc : Oracle} {gid : Nat} {r : Res}
    (hi : CInv s) (hs : enter fx s m g key p orc gid = some (s', r)) : CInv s' := by
  unfold enter at hs
  simp only at hs
  split at hs
  · split at hs
    · cases hs
    · rename_i s1 e hce
      cases hs
      obtain ⟨_, b, _, _, _, k, _⟩ := createEp_frame hce
      obtain ⟨l, c, i, _⟩ := createEp_frame2 hce
      exact cinv_congr hi l c k (by intro j; simp [St.obj, b]) (by intro x hx; rw [i] at hx; exact hx)
    · rename_i s1 rp k hce
      cases hs
      obtain ⟨_, b, _, _, _, kk, _⟩ := createEp_frame hce
      obtain ⟨l, c, i, _⟩ := createEp_frame2 hce
      have h1 : CInv s1 :=
        cinv_congr hi l c kk (by intro j; simp [St.obj, b]) (by intro x hx; rw [i] at hx; exact hx)
      refine cinv_setObj h1 ?_ (fun _ => Or.inl rfl)
      show (s.obj gid).queue.length ≤ s1.cap
      rw [c]; exact hi.bounded gid
  · split at hs
    · cases hs; exact hi
    · split at hs
      · cases hs; exact hi
      · cases hs
        exact cinv_setObj hi (hi.bounded gid) (fun h => h)

/-- **every label preserves the connection invariant** (any lock discipline, any capacity) -/
theorem cinv_step {fx : Fix} (hf : fx.closeOnFail = true) {s s' : St} {l : Label} {r : Res}
    (hi : CInv s) (hs : step fx s l = some (s', r)) : CInv s' := by
  cases l with
  | lookup m g =>
    simp only [step] at hs
    split at hs
    · cases hs
    · split at hs
      · cases hs; exact cinv_congr hi rfl rfl rfl (fun _ => rfl) (fun _ h => h)
      · cases hs
        exact cinv_congr hi rfl rfl rfl (fun j => obj_append_default s.objs j) (fun _ h => h)
  | enter m key p orc =>
    simp only [step] at hs
    split at hs
    · cases hs
    · split at hs
      · cases hs
      · refine cinv_enter ?_ hs
        exact cinv_congr hi rfl rfl rfl (fun _ => rfl) (fun _ h => h)
  | leaveL m gid =>
    simp only [step] at hs
    split at hs
    · cases hs
    · split at hs
      · cases hs
      · split at hs
        · cases hs; exact cinv_setObj hi (hi.bounded gid) (fun h => h)
        · split at hs
          · cases hs; exact cinv_congr hi rfl rfl rfl (fun _ => rfl) (fun _ h => h)
          · cases hs
            exact cinv_congr (cinv_setObj (o' := { s.obj gid with members := [], chClosed := true, lnOpen := false })
              hi (hi.bounded gid) (fun _ => Or.inr rfl)) rfl rfl rfl (fun _ => rfl) (fun _ h => h)
  | leaveG m g =>
    simp only [step] at hs
    split at hs
    · cases hs
    · rename_i hcond
      have hk : s.kind = .http := by
        false_or_by_contra; rename_i hne; exact hcond (Or.inr (Or.inl hne))
      have hnone : ∀ x, x ∈ s.inflight → False := by
        intro x hx; exact (hi.held x.1 x.2 hx).1 hk
      split at hs
      · cases hs; exact hi
      · split at hs
        · cases hs
          refine ⟨hi.noLimbo, ?_, fun c j hm => (hnone _ hm).elim⟩
          intro j; rw [obj_setObj]; split
          · exact hi.bounded _
          · exact hi.bounded j
        · cases hs
          refine ⟨hi.noLimbo, ?_, fun c j hm => (hnone _ hm).elim⟩
          intro j
          show ((s.setObj _ _).obj j).queue.length ≤ s.cap
          rw [obj_setObj]; split
          · exact hi.bounded _
          · exact hi.bounded j
  | leaveEdit m gid =>
    simp only [step] at hs
    split at hs
    · cases hs
    · split at hs
      · cases hs
      · split at hs
        · cases hs; exact cinv_setObj hi (hi.bounded gid) (fun h => h)
        · split at hs
          · cases hs; exact cinv_congr hi rfl rfl rfl (fun _ => rfl) (fun _ h => h)
          · cases hs
            by_cases hk : s.kind = .http
            · have hnone : ∀ x, x ∈ s.inflight → False := by
                intro x hx; exact (hi.held x.1 x.2 hx).1 hk
              refine ⟨hi.noLimbo, ?_, fun c j hm => (hnone _ hm).elim⟩
              intro j
              show ((s.setObj _ _).obj j).queue.length ≤ s.cap
              rw [obj_setObj]; split
              · exact hi.bounded _
              · exact hi.bounded j
            · have h1 := cinv_setObj (gid := gid) (o' := { s.obj gid with members := [], chClosed := (if s.kind = .http then (s.obj gid).chClosed else true), lnOpen := false })
                hi (hi.bounded gid) (fun _ => Or.inr (by simp [hk]))
              exact cinv_congr h1 rfl rfl rfl (fun _ => rfl) (fun _ h => h)
  | leaveDel m =>
    simp only [step] at hs
    split at hs
    · cases hs
    · split at hs
      · cases hs
      · split at hs
        · cases hs
        · cases hs; exact cinv_congr hi rfl rfl rfl (fun _ => rfl) (fun _ h => h)
  | accept c gid =>
    simp only [step] at hs
    split at hs
    · cases hs
    · rename_i hcond
      cases hs
      refine ⟨hi.noLimbo, hi.bounded, ?_⟩
      intro c' j hm
      rcases List.mem_cons.1 hm with he | hm'
      · cases he
        refine ⟨fun hk => hcond (Or.inr (Or.inl hk)), Or.inl ?_⟩
        cases hl : (s.obj gid).lnOpen with
        | true => exact hl
        | false => exact (hcond (Or.inr (Or.inr (Or.inl hl)))).elim
      · exact hi.held c' j hm'
  | handoff c m =>
    simp only [step] at hs
    split at hs
    · cases hs
    · split at hs
      · cases hs
      · rename_i gid _
        have h0 : CInv { s with inflight := s.inflight.filter (fun x => !(x.1 == c)) } :=
          cinv_congr hi rfl rfl rfl (fun _ => rfl) (fun x hx => (List.mem_filter.1 hx).1)
        split at hs
        · have h1 := cinv_setObj (o' := { s.obj gid with workerDead := true }) h0 (hi.bounded gid) (fun h => h)
          try simp only [hf, if_true] at hs
          cases hs
          exact cinv_congr h1 rfl rfl rfl (fun _ => rfl) (fun _ h => h)
        · split at hs
          · cases hs; exact cinv_congr h0 rfl rfl rfl (fun _ => rfl) (fun _ h => h)
          · cases hs
  | send c =>
    simp only [step] at hs
    split at hs
    · cases hs
    · split at hs
      · cases hs
      · rename_i gid _
        have h0 : CInv { s with inflight := s.inflight.filter (fun x => !(x.1 == c)) } :=
          cinv_congr hi rfl rfl rfl (fun _ => rfl) (fun x hx => (List.mem_filter.1 hx).1)
        split at hs
        · have h1 := cinv_setObj (o' := { s.obj gid with workerDead := true }) h0 (hi.bounded gid) (fun h => h)
          try simp only [hf, if_true] at hs
          cases hs
          exact cinv_congr h1 rfl rfl rfl (fun _ => rfl) (fun _ h => h)
        · split at hs
          · rename_i hlt
            cases hs
            refine cinv_setObj (o' := { s.obj gid with queue := (s.obj gid).queue ++ [c] }) h0 ?_ (fun h => h)
            show ((s.obj gid).queue ++ [c]).length ≤ s.cap
            simp only [List.length_append, List.length_singleton]; omega
          · cases hs
  | recv m gid =>
    simp only [step] at hs
    split at hs
    · cases hs
    · split at hs
      · cases hs
      · rename_i c q hq
        split at hs
        · cases hs
          refine cinv_congr (cinv_setObj (o' := { s.obj gid with queue := q }) hi ?_ (fun h => h))
            rfl rfl rfl (fun _ => rfl) (fun _ h => h)
          have := hi.bounded gid
          rw [hq] at this
          simp only [List.length_cons] at this
          show q.length ≤ s.cap
          omega
        · cases hs
  | request gid =>
    simp only [step] at hs
    split at hs
    · cases hs
    · split at hs <;>
        (cases hs
         exact cinv_setObj (o' := { s.obj gid with index := (s.obj gid).index + 1 }) hi (hi.bounded gid) (fun h => h))
  | squat k =>
    simp only [step] at hs
    split at hs
    · cases hs
    · cases hs; exact cinv_congr hi rfl rfl rfl (fun _ => rfl) (fun _ h => h)
  | unsquat k =>
    simp only [step] at hs
    split at hs
    · cases hs
    · cases hs; exact cinv_congr hi rfl rfl rfl (fun _ => rfl) (fun _ h => h)

theorem cinv_run {fx : Fix} (hf : fx.closeOnFail = true) (ls : List Label) :
    ∀ {s s' : St}, CInv s → run fx s ls = some s' → CInv s' := by
  induction ls with
  | nil => intro s s' hi h; simp [run] at h; subst h; exact hi
  | cons l ls ih =>
    intro s s' hi h
    simp only [run] at h
    split at h
    · cases h
    · rename_i s1 r hstep
      exact ih (cinv_step hf hi hstep) h

theorem enter_cap {fx : Fix} {s s' : St} {m g key : Str} {p : Params} {orc : Oracle} {gid : Nat} {r : Res}
    (hs : enter fx s m g key p orc gid = some (s', r)) : s'.cap = s.cap := by
  unfold enter at hs
  simp only at hs
  split at hs
  · split at hs
    · cases hs
    · rename_i hce; cases hs; exact (createEp_frame2 hce).2.1
    · rename_i hce; cases hs; exact (createEp_frame2 hce).2.1
  · split at hs
    · cases hs; rfl
    · split at hs <;> (cases hs; rfl)

/-- no label changes the channel capacity -/
theorem step_cap {fx : Fix} {s s' : St} {l : Label} {r : Res} (hs : step fx s l = some (s', r)) :
    s'.cap = s.cap := by
  cases l with
  | enter m key p orc =>
    simp only [step] at hs
    split at hs
    · cases hs
    · split at hs
      · cases hs
      · have := enter_cap hs; exact this
  | lookup m g => simp only [step] at hs; (repeat' split at hs) <;> (cases hs; try rfl)
  | leaveL m gid => simp only [step] at hs; (repeat' split at hs) <;> (cases hs; try rfl)
  | leaveG m g => simp only [step] at hs; (repeat' split at hs) <;> (cases hs; try rfl)
  | leaveEdit m gid => simp only [step] at hs; (repeat' split at hs) <;> (cases hs; try rfl)
  | leaveDel m => simp only [step] at hs; (repeat' split at hs) <;> (cases hs; try rfl)
  | accept c gid => simp only [step] at hs; (repeat' split at hs) <;> (cases hs; try rfl)
  | handoff c m => simp only [step] at hs; (repeat' split at hs) <;> (cases hs; try rfl)
  | send c => simp only [step] at hs; (repeat' split at hs) <;> (cases hs; try rfl)
  | recv m gid => simp only [step] at hs; (repeat' split at hs) <;> (cases hs; try rfl)
  | request gid => simp only [step] at hs; (repeat' split at hs) <;> (cases hs; try rfl)
  | squat k => simp only [step] at hs; (repeat' split at hs) <;> (cases hs; try rfl)
  | unsquat k => simp only [step] at hs; (repeat' split at hs) <;> (cases hs; try rfl)

theorem run_cap {fx : Fix} (ls : List Label) : ∀ {s s' : St}, run fx s ls = some s' → s'.cap = s.cap := by
  induction ls with
  | nil => intro s s' h; simp [run] at h; subst h; rfl
  | cons l ls ih =>
    intro s s' h
    simp only [run] at h
    split at h
    · cases h
    · rename_i s1 r hstep
      rw [ih h, step_cap hstep]

end Group
end Frp
