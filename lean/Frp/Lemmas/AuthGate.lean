import Frp.Model.AuthGate
/-! Helper lemmas for C04 (core only). -/
namespace Frp
namespace AuthGate

def ctls (srv : Srv) : List ConnId := srv.sessions.map (·.ctl)
def pooled (srv : Srv) : List ConnId := srv.sessions.flatMap (·.pool)
def AllCfg (srv : Srv) : Prop := ∀ s ∈ srv.sessions, s.vk = .cfg

theorem lookup_mem {srv : Srv} {rid : RunId} {s : Session} (h : lookup srv rid = some s) :
    s ∈ srv.sessions ∧ s.runId = rid := by
  unfold lookup at h
  exact ⟨List.mem_of_find?_eq_some h, by simpa using List.find?_some h⟩

theorem byCtl_mem {srv : Srv} {c : ConnId} {s : Session} (h : byCtl srv c = some s) :
    s ∈ srv.sessions ∧ s.ctl = c := by
  unfold byCtl at h
  exact ⟨List.mem_of_find?_eq_some h, by simpa using List.find?_some h⟩

/-- an update that keeps `ctl` keeps the list of control connections -/
theorem ctls_updSession (srv : Srv) (rid : RunId) (f : Session → Session) (hf : ∀ x, (f x).ctl = x.ctl) :
    ctls (updSession srv rid f) = ctls srv := by
  simp only [ctls, updSession, List.map_map]
  apply List.map_congr_left
  intro s _
  simp only [Function.comp]
  split
  · exact hf s
  · rfl

theorem mem_ctls_updSession {srv : Srv} {rid : RunId} {f : Session → Session} {c : ConnId}
    (h : c ∈ ctls (updSession srv rid f)) (hf : ∀ x, (f x).ctl = x.ctl) : c ∈ ctls srv := by
  rw [ctls_updSession srv rid f hf] at h; exact h

theorem subjects_updSession (srv : Srv) (rid : RunId) (f : Session → Session) :
    (updSession srv rid f).subjects = srv.subjects := rfl

theorem mem_updSession {srv : Srv} {rid : RunId} {f : Session → Session} {t : Session}
    (h : t ∈ (updSession srv rid f).sessions) :
    ∃ s ∈ srv.sessions, t = if s.runId = rid then f s else s := by
  simp only [updSession, List.mem_map] at h
  obtain ⟨s, hs, e⟩ := h
  exact ⟨s, hs, e.symm⟩

theorem allCfg_updSession {srv : Srv} {rid : RunId} {f : Session → Session}
    (hf : ∀ x, (f x).vk = x.vk) (h : AllCfg srv) : AllCfg (updSession srv rid f) := by
  intro t ht
  obtain ⟨s, hs, e⟩ := mem_updSession ht
  subst e
  split
  · rw [hf]; exact h s hs
  · exact h s hs

/-- sessions with another run id are literally kept by an update -/
theorem other_mem_updSession {srv : Srv} {rid : RunId} {f : Session → Session} {s : Session}
    (hs : s ∈ srv.sessions) (hne : s.runId ≠ rid) : s ∈ (updSession srv rid f).sessions := by
  simp only [updSession, List.mem_map]
  exact ⟨s, hs, by simp [hne]⟩

theorem pooled_updSession_mem {srv : Srv} {rid : RunId} {c d : ConnId}
    (h : d ∈ pooled (updSession srv rid (fun x => { x with pool := x.pool ++ [c] }))) :
    d ∈ pooled srv ∨ d = c := by
  simp only [pooled, List.mem_flatMap] at h ⊢
  obtain ⟨t, ht, hd⟩ := h
  obtain ⟨s, hs, e⟩ := mem_updSession ht
  subst e
  split at hd
  · simp only [List.mem_append, List.mem_singleton] at hd
    rcases hd with hd | hd
    · exact Or.inl ⟨s, hs, hd⟩
    · exact Or.inr hd
  · exact Or.inl ⟨s, hs, hd⟩

theorem pooled_updSession_same (srv : Srv) (rid : RunId) (f : Session → Session)
    (hf : ∀ x, (f x).pool = x.pool) : pooled (updSession srv rid f) = pooled srv := by
  simp only [pooled, updSession, List.flatMap_map]
  congr 1
  funext s
  split
  · exact hf s
  · rfl

end AuthGate
end Frp
