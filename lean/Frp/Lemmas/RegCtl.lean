import Frp.Model.RegCtl
/-
  Lemmas about the RegisterControl chain model (Frp/Model/RegCtl.lean).
-/
namespace Frp
namespace RegCtl

/-! ### `upd` -/

theorem getElem?_upd (l : List Ctl) (k i : Nat) (f : Ctl → Ctl) :
    (upd l k f)[i]? = if i = k then (l[i]?).map f else l[i]? := by
  induction l generalizing k i with
  | nil => simp [upd]
  | cons c rest ih =>
    cases k with
    | zero => cases i <;> simp [upd]
    | succ k =>
      cases i with
      | zero => simp [upd]
      | succ i => simp [upd, ih]

theorem length_upd (l : List Ctl) (k : Nat) (f : Ctl → Ctl) : (upd l k f).length = l.length := by
  induction l generalizing k with
  | nil => simp [upd]
  | cons c rest ih =>
    cases k with
    | zero => simp [upd]
    | succ k => simp [upd, ih]

theorem getElem?_upd_self (l : List Ctl) (k : Nat) (f : Ctl → Ctl) :
    (upd l k f)[k]? = (l[k]?).map f := by
  rw [getElem?_upd]; simp

theorem getElem?_upd_ne (l : List Ctl) (k i : Nat) (f : Ctl → Ctl) (h : i ≠ k) :
    (upd l k f)[i]? = l[i]? := by
  rw [getElem?_upd]; simp [h]

theorem upd_forall {P : Nat → Ctl → Prop} (l : List Ctl) (k : Nat) (f : Ctl → Ctl)
    (h : ∀ i c, l[i]? = some c → P i c)
    (hf : ∀ c, l[k]? = some c → P k c → P k (f c)) :
    ∀ i c, (upd l k f)[i]? = some c → P i c := by
  intro i c hc
  by_cases e : i = k
  · subst e
    rw [getElem?_upd_self] at hc
    cases h0 : l[i]? with
    | none => rw [h0] at hc; cases hc
    | some c0 =>
      rw [h0] at hc
      injection hc with hc
      subst hc
      exact hf c0 h0 (h _ _ h0)
  · rw [getElem?_upd_ne _ _ _ _ e] at hc
    exact h i c hc

/-! ### the invariant -/

/-- what holds of control `k` in every reachable state (`t` = startAlways) -/
def CtlOk (t : Bool) (k : Nat) (c : Ctl) : Prop :=
  (∀ j, c.stat = .waiting (some j) → j < k) ∧
  (t = true → c.stat ≠ .abandoned ∧ ((c.stat = .started ∨ c.stat = .closed) → c.answered = true))

def Inv (t : Bool) (s : St) : Prop :=
  (∀ j, s.cur = some j → j < s.ctls.length) ∧ ∀ k c, s.ctls[k]? = some c → CtlOk t k c

theorem ctlOk_closeConn {t : Bool} {k : Nat} {c : Ctl} (h : CtlOk t k c) : CtlOk t k (closeConn c) := h

theorem ctlOk_start (t : Bool) (k : Nat) (c : Ctl) : CtlOk t k (start c) := by
  simp [CtlOk, start]

theorem ctlOk_abandon (k : Nat) (c : Ctl) : CtlOk false k (abandon c) := by
  simp [CtlOk, abandon]

theorem ctlOk_finish {t : Bool} {k : Nat} {c : Ctl} (h : CtlOk t k c) (hs : c.stat = .started) :
    CtlOk t k (finish c) := by
  refine ⟨?_, ?_⟩
  · intro j hj; simp [finish] at hj
  · intro ht
    have h2 := (h.2 ht).2 (Or.inl hs)
    simp [finish, h2]

theorem inv_upd {t : Bool} {s : St} {k : Nat} {f : Ctl → Ctl} (h : Inv t s)
    (hf : ∀ c, s.ctls[k]? = some c → CtlOk t k c → CtlOk t k (f c)) :
    Inv t { s with ctls := upd s.ctls k f } := by
  refine ⟨?_, ?_⟩
  · intro j hj
    simp only [length_upd]
    exact h.1 j hj
  · exact upd_forall _ _ _ h.2 hf

theorem inv_init (t : Bool) : Inv t {} := by
  refine ⟨?_, ?_⟩
  · intro j hj; cases hj
  · intro k c hc; simp at hc

theorem inv_login (b : Bool) (s : St) (h : Inv b s) : Inv b (step b s .login) := by
  cases hcur : s.cur with
  | none =>
    have e : step b s .login = { ctls := s.ctls ++ [{ stat := .waiting none }], cur := some s.ctls.length } := by
      simp only [step, hcur]
    rw [e]
    refine ⟨?_, ?_⟩
    · intro j hj
      simp at hj
      simp; omega
    · intro k c hc
      by_cases hk : k < s.ctls.length
      · rw [List.getElem?_append_left hk] at hc
        exact h.2 k c hc
      · rw [List.getElem?_append_right (by omega)] at hc
        cases hkk : k - s.ctls.length with
        | zero =>
          rw [hkk] at hc
          simp at hc
          subst hc
          simp [CtlOk]
        | succ m => rw [hkk] at hc; simp at hc
  | some j0 =>
    have e : step b s .login =
        { ctls := upd s.ctls j0 closeConn ++ [{ stat := .waiting (some j0) }], cur := some s.ctls.length } := by
      simp only [step, hcur]
    rw [e]
    have hj0 : j0 < s.ctls.length := h.1 j0 hcur
    have hu : ∀ k c, (upd s.ctls j0 closeConn)[k]? = some c → CtlOk b k c :=
      upd_forall _ _ _ h.2 (fun c _ hc => ctlOk_closeConn hc)
    refine ⟨?_, ?_⟩
    · intro j hj
      simp at hj
      simp [length_upd]; omega
    · intro k c hc
      by_cases hk : k < (upd s.ctls j0 closeConn).length
      · rw [List.getElem?_append_left hk] at hc
        exact hu k c hc
      · rw [List.getElem?_append_right (by omega)] at hc
        cases hkk : k - (upd s.ctls j0 closeConn).length with
        | zero =>
          rw [hkk] at hc
          simp at hc
          subst hc
          rw [length_upd] at hk hkk
          simp [CtlOk]
          omega
        | succ m => rw [hkk] at hc; simp at hc

theorem inv_proceed (b : Bool) (s : St) (k : Nat) (h : Inv b s) : Inv b (step b s (.proceed k)) := by
  simp only [step]
  split
  · exact inv_upd h (fun c _ _ => ctlOk_start _ _ _)
  · split
    · split
      · exact inv_upd h (fun c _ _ => ctlOk_start _ _ _)
      · rename_i hb
        cases b with
        | true => simp at hb
        | false => exact inv_upd h (fun c _ _ => ctlOk_abandon _ _)
    · exact h
  · exact h

theorem inv_drop (b : Bool) (s : St) (k : Nat) (h : Inv b s) : Inv b (step b s (.drop k)) := by
  simp only [step]
  exact inv_upd h (fun c _ hc => ctlOk_closeConn hc)

theorem inv_exit (b : Bool) (s : St) (k : Nat) (h : Inv b s) : Inv b (step b s (.exit k)) := by
  simp only [step]
  split
  · rename_i c hc
    split
    · rename_i hst
      refine inv_upd h (fun c' hc' hok => ?_)
      rw [hc] at hc'
      injection hc' with hc'
      subst hc'
      exact ctlOk_finish hok hst.1
    · exact h
  · exact h

theorem inv_del (b : Bool) (s : St) (k : Nat) (h : Inv b s) : Inv b (step b s (.del k)) := by
  simp only [step]
  split
  · refine ⟨?_, h.2⟩
    intro j hj; cases hj
  · exact h

theorem inv_step (b : Bool) (s : St) (l : Label) (h : Inv b s) : Inv b (step b s l) := by
  cases l with
  | login => exact inv_login b s h
  | proceed k => exact inv_proceed b s k h
  | drop k => exact inv_drop b s k h
  | exit k => exact inv_exit b s k h
  | del k => exact inv_del b s k h

theorem run_nil (b : Bool) (s : St) : run b s [] = s := rfl

theorem run_cons (b : Bool) (s : St) (l : Label) (ls : List Label) :
    run b s (l :: ls) = run b (step b s l) ls := rfl

theorem run_append (b : Bool) (s : St) (l1 l2 : List Label) :
    run b s (l1 ++ l2) = run b (run b s l1) l2 := by
  simp [run, List.foldl_append]

theorem inv_run (b : Bool) (ls : List Label) (s : St) (h : Inv b s) : Inv b (run b s ls) := by
  induction ls generalizing s with
  | nil => exact h
  | cons l ls ih => rw [run_cons]; exact ih _ (inv_step b s l h)

theorem inv_reach (b : Bool) (ls : List Label) : Inv b (run b {} ls) := inv_run b ls {} (inv_init b)

/-- a control only ever waits on an OLDER control -/
theorem waits_on_older (b : Bool) (ls : List Label) (k j : Nat) (c : Ctl) :
    (run b {} ls).ctls[k]? = some c → c.stat = .waiting (some j) → j < k := by
  intro hc hs
  exact ((inv_reach b ls).2 k c hc).1 j hs

theorem startAlways_never_abandons (ls : List Label) (k : Nat) (c : Ctl) :
    (run true {} ls).ctls[k]? = some c → c.stat ≠ .abandoned := by
  intro hc
  exact (((inv_reach true ls).2 k c hc).2 rfl).1

/-! ### draining -/

/-- answered and closed -/
def Done (c : Ctl) : Prop := c.stat = .closed ∧ c.answered = true

/-- a non-login step with index `k` rewrites at most control `k` -/
theorem step_ctls_shape (b : Bool) (s : St) (l : Label) (k : Nat)
    (hl : l = .proceed k ∨ l = .drop k ∨ l = .exit k ∨ l = .del k) :
    (step b s l).ctls = s.ctls ∨ ∃ f, (step b s l).ctls = upd s.ctls k f := by
  rcases hl with rfl | rfl | rfl | rfl
  · simp only [step]
    split
    · exact Or.inr ⟨_, rfl⟩
    · split
      · split
        · exact Or.inr ⟨_, rfl⟩
        · exact Or.inr ⟨_, rfl⟩
      · exact Or.inl rfl
    · exact Or.inl rfl
  · exact Or.inr ⟨_, rfl⟩
  · simp only [step]
    split
    · split
      · exact Or.inr ⟨_, rfl⟩
      · exact Or.inl rfl
    · exact Or.inl rfl
  · simp only [step]
    split
    · exact Or.inl rfl
    · exact Or.inl rfl

theorem step_other (b : Bool) (s : St) (l : Label) (k i : Nat)
    (hl : l = .proceed k ∨ l = .drop k ∨ l = .exit k ∨ l = .del k) (hi : i ≠ k) :
    (step b s l).ctls[i]? = s.ctls[i]? := by
  rcases step_ctls_shape b s l k hl with e | ⟨f, e⟩
  · rw [e]
  · rw [e, getElem?_upd_ne _ _ _ _ hi]

theorem step_length (b : Bool) (s : St) (l : Label) (k : Nat)
    (hl : l = .proceed k ∨ l = .drop k ∨ l = .exit k ∨ l = .del k) :
    (step b s l).ctls.length = s.ctls.length := by
  rcases step_ctls_shape b s l k hl with e | ⟨f, e⟩
  · rw [e]
  · rw [e, length_upd]

theorem statOf_of_get {s : St} {k : Nat} {c : Ctl} (h : s.ctls[k]? = some c) : statOf s k = some c.stat := by
  simp [statOf, h]

/-- `proceed k` when every older control is closed: control `k` is started (or was already past that) -/
theorem proceed_at (s : St) (k : Nat) (c : Ctl) (hc : s.ctls[k]? = some c) (hok : CtlOk true k c)
    (hold : ∀ i c', i < k → s.ctls[i]? = some c' → Done c') :
    ∃ c', (step true s (.proceed k)).ctls[k]? = some c' ∧
      (c'.stat = .started ∨ c'.stat = .closed) ∧ c'.answered = true := by
  have hst := statOf_of_get hc
  cases hcs : c.stat with
  | waiting on =>
    rw [hcs] at hst
    cases on with
    | none =>
      refine ⟨start c, ?_, Or.inl rfl, rfl⟩
      simp only [step, hst]
      rw [getElem?_upd_self, hc]; rfl
    | some j =>
      have hj : j < k := hok.1 j hcs
      have hklen : k < s.ctls.length := by
        cases hlt : decide (k < s.ctls.length) with
        | true => exact of_decide_eq_true hlt
        | false =>
          have : s.ctls.length ≤ k := Nat.le_of_not_lt (of_decide_eq_false hlt)
          rw [List.getElem?_eq_none this] at hc; cases hc
      have hjget : s.ctls[j]? = some s.ctls[j] := List.getElem?_eq_getElem (by omega)
      have hjd := hold j _ hj hjget
      have hjs : statOf s j = some .closed := by rw [statOf_of_get hjget, hjd.1]
      refine ⟨start c, ?_, Or.inl rfl, rfl⟩
      simp only [step, hst, hjs]
      simp only [Bool.true_or, if_true]
      rw [getElem?_upd_self, hc]; rfl
  | started =>
    rw [hcs] at hst
    refine ⟨c, ?_, Or.inl hcs, (hok.2 rfl).2 (Or.inl hcs)⟩
    simp only [step, hst]
    exact hc
  | closed =>
    rw [hcs] at hst
    refine ⟨c, ?_, Or.inr hcs, (hok.2 rfl).2 (Or.inr hcs)⟩
    simp only [step, hst]
    exact hc
  | abandoned => exact absurd hcs (hok.2 rfl).1

theorem drop_at (b : Bool) (s : St) (k : Nat) (c : Ctl) (hc : s.ctls[k]? = some c) :
    (step b s (.drop k)).ctls[k]? = some (closeConn c) := by
  simp only [step]
  rw [getElem?_upd_self, hc]; rfl

theorem exit_at (b : Bool) (s : St) (k : Nat) (c : Ctl) (hc : s.ctls[k]? = some c)
    (hconn : c.connOpen = false) (hs : c.stat = .started ∨ c.stat = .closed) (ha : c.answered = true) :
    ∃ c', (step b s (.exit k)).ctls[k]? = some c' ∧ Done c' := by
  rcases hs with hs | hs
  · refine ⟨finish c, ?_, rfl, ha⟩
    simp only [step, hc]
    rw [if_pos ⟨hs, hconn⟩]
    simp only []
    rw [getElem?_upd_self, hc]; rfl
  · refine ⟨c, ?_, hs, ha⟩
    simp only [step, hc]
    rw [if_neg (by rw [hs]; intro h; cases h.1)]
    exact hc

theorem del_ctls (b : Bool) (s : St) (k : Nat) : (step b s (.del k)).ctls = s.ctls := by
  simp only [step]
  split <;> rfl

/-- one block of the drain schedule -/
def block (k : Nat) : List Label := [.proceed k, .drop k, .exit k, .del k]

theorem block_spec (s : St) (k : Nat) (hinv : Inv true s) (hk : k < s.ctls.length)
    (hold : ∀ i c', i < k → s.ctls[i]? = some c' → Done c') :
    Inv true (run true s (block k)) ∧
    (run true s (block k)).ctls.length = s.ctls.length ∧
    (∀ i, i ≠ k → (run true s (block k)).ctls[i]? = s.ctls[i]?) ∧
    ∃ c', (run true s (block k)).ctls[k]? = some c' ∧ Done c' := by
  have hget : s.ctls[k]? = some s.ctls[k] := List.getElem?_eq_getElem hk
  have e : run true s (block k) =
      step true (step true (step true (step true s (.proceed k)) (.drop k)) (.exit k)) (.del k) := rfl
  rw [e]
  refine ⟨?_, ?_, ?_, ?_⟩
  · exact inv_step _ _ _ (inv_step _ _ _ (inv_step _ _ _ (inv_step _ _ _ hinv)))
  · rw [step_length _ _ _ k (Or.inr (Or.inr (Or.inr rfl))), step_length _ _ _ k (Or.inr (Or.inr (Or.inl rfl))),
      step_length _ _ _ k (Or.inr (Or.inl rfl)), step_length _ _ _ k (Or.inl rfl)]
  · intro i hi
    rw [step_other _ _ _ k i (Or.inr (Or.inr (Or.inr rfl))) hi,
      step_other _ _ _ k i (Or.inr (Or.inr (Or.inl rfl))) hi,
      step_other _ _ _ k i (Or.inr (Or.inl rfl)) hi, step_other _ _ _ k i (Or.inl rfl) hi]
  · rcases proceed_at s k _ hget (hinv.2 k _ hget) hold with ⟨c1, h1, hs1, ha1⟩
    have h2 := drop_at true _ k c1 h1
    rcases exit_at true _ k _ h2 rfl hs1 ha1 with ⟨c3, h3, hd3⟩
    refine ⟨c3, ?_, hd3⟩
    rw [del_ctls]
    exact h3

theorem drainFrom_succ (k n : Nat) : drainFrom k (n + 1) = block k ++ drainFrom (k + 1) n := rfl

theorem drain_spec (n : Nat) : ∀ (k : Nat) (s : St), Inv true s → k + n = s.ctls.length →
    (∀ (i : Nat) (c' : Ctl), i < k → s.ctls[i]? = some c' → Done c') →
    ∀ (i : Nat) (c' : Ctl), (run true s (drainFrom k n)).ctls[i]? = some c' → Done c' := by
  induction n with
  | zero =>
    intro k s _ hlen hold i c' hc
    have hi : i < s.ctls.length := by
      cases hlt : decide (i < s.ctls.length) with
      | true => exact of_decide_eq_true hlt
      | false =>
        have : s.ctls.length ≤ i := Nat.le_of_not_lt (of_decide_eq_false hlt)
        have hc' : s.ctls[i]? = some c' := hc
        rw [List.getElem?_eq_none this] at hc'; cases hc'
    exact hold i c' (by omega) hc
  | succ n ih =>
    intro k s hinv hlen hold
    rw [drainFrom_succ, run_append]
    rcases block_spec s k hinv (by omega) hold with ⟨hinv', hlen', hoth, c', hk', hd'⟩
    refine ih (k + 1) _ hinv' (by omega) ?_
    intro i c'' hi hc''
    by_cases e : i = k
    · subst e
      rw [hk'] at hc''
      injection hc'' with hc''
      subst hc''
      exact hd'
    · rw [hoth i e] at hc''
      exact hold i c'' (by omega) hc''

theorem settled_of_done (s : St) (h : ∀ (i : Nat) (c : Ctl), s.ctls[i]? = some c → Done c) : settled s = true := by
  simp only [settled, List.all_eq_true]
  intro c hc
  rcases List.mem_iff_getElem?.1 hc with ⟨i, hi⟩
  have hd := h i c hi
  simp [hd.1, hd.2]

/-- from every reachable state of the code as it is, the drain continuation leaves every login answered and
    every control closed -/
theorem relogin_never_wedged (ls : List Label) :
    settled (run true (run true {} ls) (drain (run true {} ls))) = true := by
  apply settled_of_done
  exact drain_spec _ 0 _ (inv_reach true ls) (by simp) (fun i c' hi _ => absurd hi (Nat.not_lt_zero i))

/-! ### the wedge of the other variant -/

def wedgeWitness : List Label := [.login, .proceed 0, .login, .login, .exit 0, .proceed 1]

theorem wedgeWitness_state :
    (run false {} wedgeWitness).ctls.map Ctl.stat = [.closed, .abandoned, .waiting (some 1)] := by decide

/-- what holds of control `k` for ever after the witness prefix -/
def WOk (k : Nat) (c : Ctl) : Prop :=
  (k = 0 → c.stat = .closed) ∧ (k = 1 → c.stat = .abandoned) ∧
  (2 ≤ k → c.stat = .waiting (some (k - 1)) ∧ c.answered = false)

def Wedged (s : St) : Prop :=
  3 ≤ s.ctls.length ∧ s.cur = some (s.ctls.length - 1) ∧ ∀ k c, s.ctls[k]? = some c → WOk k c

theorem wOk_closeConn {k : Nat} {c : Ctl} (h : WOk k c) : WOk k (closeConn c) := h

theorem wedged_upd_closeConn {s : St} (k : Nat) (h : Wedged s) :
    Wedged { s with ctls := upd s.ctls k closeConn } := by
  refine ⟨?_, ?_, ?_⟩
  · simp only [length_upd]; exact h.1
  · simp only [length_upd]; exact h.2.1
  · exact upd_forall _ _ _ h.2.2 (fun c _ hc => wOk_closeConn hc)

theorem wedged_statOf {s : St} (h : Wedged s) (k : Nat) (st : Stat) (hst : statOf s k = some st) :
    (k = 0 ∧ st = .closed) ∨ (k = 1 ∧ st = .abandoned) ∨ (2 ≤ k ∧ st = .waiting (some (k - 1))) := by
  unfold statOf at hst
  cases hc : s.ctls[k]? with
  | none => rw [hc] at hst; cases hst
  | some c =>
    rw [hc] at hst
    injection hst with hst
    have hw := h.2.2 k c hc
    subst hst
    cases k with
    | zero => exact Or.inl ⟨rfl, hw.1 rfl⟩
    | succ k =>
      cases k with
      | zero => exact Or.inr (Or.inl ⟨rfl, hw.2.1 rfl⟩)
      | succ k => exact Or.inr (Or.inr ⟨by omega, (hw.2.2 (by omega)).1⟩)

theorem wedged_not_closed {s : St} (h : Wedged s) (k : Nat) (hk : 1 ≤ k) : statOf s k ≠ some .closed := by
  intro hst
  rcases wedged_statOf h k _ hst with ⟨h0, _⟩ | ⟨_, h1⟩ | ⟨_, h2⟩
  · omega
  · cases h1
  · cases h2

theorem wedged_login (s : St) (h : Wedged s) : Wedged (step false s .login) := by
  have hcur := h.2.1
  have e : step false s .login =
      { ctls := upd s.ctls (s.ctls.length - 1) closeConn ++ [{ stat := .waiting (some (s.ctls.length - 1)) }],
        cur := some s.ctls.length } := by
    simp only [step, hcur]
  rw [e]
  have h3 := h.1
  have hu := (wedged_upd_closeConn (s.ctls.length - 1) h).2.2
  refine ⟨?_, ?_, ?_⟩
  · simp [length_upd]; omega
  · simp [length_upd]
  · intro k c hc
    by_cases hk : k < (upd s.ctls (s.ctls.length - 1) closeConn).length
    · rw [List.getElem?_append_left hk] at hc
      exact hu k c hc
    · rw [List.getElem?_append_right (by omega)] at hc
      cases hkk : k - (upd s.ctls (s.ctls.length - 1) closeConn).length with
      | zero =>
        rw [hkk] at hc
        simp at hc
        subst hc
        rw [length_upd] at hk hkk
        have hke : k = s.ctls.length := by omega
        subst hke
        refine ⟨by omega, by omega, fun _ => ⟨rfl, rfl⟩⟩
      | succ m => rw [hkk] at hc; simp at hc

theorem wedged_proceed (s : St) (k : Nat) (h : Wedged s) : step false s (.proceed k) = s := by
  simp only [step]
  split
  · rename_i hst
    rcases wedged_statOf h k _ hst with ⟨_, h0⟩ | ⟨_, h1⟩ | ⟨_, h2⟩
    · cases h0
    · cases h1
    · cases h2
  · rename_i j hst
    rcases wedged_statOf h k _ hst with ⟨_, h0⟩ | ⟨_, h1⟩ | ⟨hk, h2⟩
    · cases h0
    · cases h1
    · injection h2 with h2
      injection h2 with h2
      rw [if_neg (wedged_not_closed h j (by omega))]
  · rfl

theorem wedged_exit (s : St) (k : Nat) (h : Wedged s) : step false s (.exit k) = s := by
  simp only [step]
  split
  · rename_i c hc
    rw [if_neg]
    intro hs
    rcases wedged_statOf h k _ (statOf_of_get hc) with ⟨_, h0⟩ | ⟨_, h1⟩ | ⟨_, h2⟩
    · rw [hs.1] at h0; cases h0
    · rw [hs.1] at h1; cases h1
    · rw [hs.1] at h2; cases h2
  · rfl

theorem wedged_del (s : St) (k : Nat) (h : Wedged s) : step false s (.del k) = s := by
  simp only [step]
  rw [if_neg]
  intro hs
  have h3 := h.1
  have hcur := h.2.1
  rw [hs.2] at hcur
  injection hcur with hcur
  exact wedged_not_closed h k (by omega) hs.1

theorem wedged_step (s : St) (l : Label) (h : Wedged s) : Wedged (step false s l) := by
  cases l with
  | login => exact wedged_login s h
  | proceed k => rw [wedged_proceed s k h]; exact h
  | drop k => exact wedged_upd_closeConn k h
  | exit k => rw [wedged_exit s k h]; exact h
  | del k => rw [wedged_del s k h]; exact h

theorem wedged_run (ls : List Label) (s : St) (h : Wedged s) : Wedged (run false s ls) := by
  induction ls generalizing s with
  | nil => exact h
  | cons l ls ih => rw [run_cons]; exact ih _ (wedged_step s l h)

theorem wedged_witness : Wedged (run false {} wedgeWitness) := by
  refine ⟨by decide, by decide, ?_⟩
  intro k c hc
  have e : (run false {} wedgeWitness).ctls =
      [⟨.closed, false, true⟩, ⟨.abandoned, false, false⟩, ⟨.waiting (some 1), true, false⟩] := by decide
  rw [e] at hc
  cases k with
  | zero => simp at hc; subst hc; simp [WOk]
  | succ k =>
    cases k with
    | zero => simp at hc; subst hc; simp [WOk]
    | succ k =>
      cases k with
      | zero => simp at hc; subst hc; simp [WOk]
      | succ k => simp at hc

/-- with startAlways = false, after three overlapping logins the run id is wedged for ever -/
theorem superseded_skip_wedges (ls : List Label) (k : Nat) (c : Ctl) :
    2 ≤ k → (run false {} (wedgeWitness ++ ls)).ctls[k]? = some c → c.answered = false := by
  intro hk hc
  rw [run_append] at hc
  exact (((wedged_run ls _ wedged_witness).2.2 k c hc).2.2 hk).2

/-! ### the relogin schedule: nobody hangs up, every goroutine gets to run -/

/-- every control that is not the current one has had its connection closed (Replaced) or is closed; the current
    control is the newest one -/
def J (s : St) : Prop :=
  (∀ (i : Nat) (c : Ctl), s.ctls[i]? = some c → s.cur ≠ some i → c.connOpen = false ∨ c.stat = .closed) ∧
  (∀ i, s.cur = some i → i + 1 = s.ctls.length)

theorem j_upd {s : St} {k : Nat} {f : Ctl → Ctl} (h : J s)
    (hf : ∀ c, s.ctls[k]? = some c → (c.connOpen = false ∨ c.stat = .closed) →
      ((f c).connOpen = false ∨ (f c).stat = .closed)) :
    J { s with ctls := upd s.ctls k f } := by
  refine ⟨?_, ?_⟩
  · exact upd_forall (P := fun i c => s.cur ≠ some i → c.connOpen = false ∨ c.stat = .closed) _ _ _ h.1
      (fun c hc hp hne => hf c hc (hp hne))
  · intro i hi
    simp only [length_upd]
    exact h.2 i hi

theorem j_upd_waiting {s : St} {k : Nat} {f : Ctl → Ctl} {on : Option Nat} (h : J s)
    (hst : statOf s k = some (.waiting on)) (hf : ∀ c, (f c).connOpen = c.connOpen) :
    J { s with ctls := upd s.ctls k f } := by
  refine j_upd h (fun c hc hp => ?_)
  have e := statOf_of_get hc
  rw [hst] at e
  injection e with e
  rcases hp with hp | hp
  · exact Or.inl (by rw [hf]; exact hp)
  · rw [hp] at e; cases e

theorem j_init : J {} := by
  refine ⟨?_, ?_⟩
  · intro i c hc; simp at hc
  · intro i hi; cases hi

theorem j_login (b : Bool) (s : St) (h : J s) : J (step b s .login) := by
  cases hcur : s.cur with
  | none =>
    have e : step b s .login = { ctls := s.ctls ++ [{ stat := .waiting none }], cur := some s.ctls.length } := by
      simp only [step, hcur]
    rw [e]
    refine ⟨?_, ?_⟩
    · intro i c hc hne
      by_cases hi : i < s.ctls.length
      · rw [List.getElem?_append_left hi] at hc
        exact h.1 i c hc (by rw [hcur]; intro e'; cases e')
      · rw [List.getElem?_append_right (by omega)] at hc
        cases hkk : i - s.ctls.length with
        | zero =>
          have hie : s.ctls.length = i := by omega
          exact absurd (by rw [hie]) hne
        | succ m => rw [hkk] at hc; simp at hc
    · intro i hi
      simp at hi
      simp; omega
  | some j0 =>
    have e : step b s .login =
        { ctls := upd s.ctls j0 closeConn ++ [{ stat := .waiting (some j0) }], cur := some s.ctls.length } := by
      simp only [step, hcur]
    rw [e]
    refine ⟨?_, ?_⟩
    · intro i c hc hne
      by_cases hi : i < (upd s.ctls j0 closeConn).length
      · rw [List.getElem?_append_left hi] at hc
        by_cases hij : i = j0
        · subst hij
          rw [getElem?_upd_self] at hc
          cases h0 : s.ctls[i]? with
          | none => rw [h0] at hc; cases hc
          | some c0 =>
            rw [h0] at hc
            injection hc with hc
            subst hc
            exact Or.inl rfl
        · rw [getElem?_upd_ne _ _ _ _ hij] at hc
          exact h.1 i c hc (by rw [hcur]; intro e'; injection e' with e'; exact hij e'.symm)
      · rw [List.getElem?_append_right (by omega)] at hc
        cases hkk : i - (upd s.ctls j0 closeConn).length with
        | zero =>
          rw [length_upd] at hi hkk
          have hie : s.ctls.length = i := by omega
          exact absurd (by rw [hie]) hne
        | succ m => rw [hkk] at hc; simp at hc
    · intro i hi
      simp at hi
      simp [length_upd]; omega

theorem j_proceed (b : Bool) (s : St) (k : Nat) (h : J s) : J (step b s (.proceed k)) := by
  simp only [step]
  split
  · rename_i hst
    exact j_upd_waiting h hst (fun _ => rfl)
  · rename_i hst
    split
    · split
      · exact j_upd_waiting h hst (fun _ => rfl)
      · exact j_upd_waiting h hst (fun _ => rfl)
    · exact h
  · exact h

theorem j_drop (b : Bool) (s : St) (k : Nat) (h : J s) : J (step b s (.drop k)) := by
  simp only [step]
  exact j_upd h (fun _ _ _ => Or.inl rfl)

theorem j_exit (b : Bool) (s : St) (k : Nat) (h : J s) : J (step b s (.exit k)) := by
  simp only [step]
  split
  · split
    · exact j_upd h (fun _ _ _ => Or.inr rfl)
    · exact h
  · exact h

theorem j_del (b : Bool) (s : St) (k : Nat) (h : J s) : J (step b s (.del k)) := by
  simp only [step]
  split
  · rename_i hcond
    refine ⟨?_, ?_⟩
    · intro i c hc _
      have hc : s.ctls[i]? = some c := hc
      by_cases hik : i = k
      · subst hik
        have e := statOf_of_get hc
        rw [hcond.1] at e
        injection e with e
        exact Or.inr e.symm
      · exact h.1 i c hc (by rw [hcond.2]; intro e'; injection e' with e'; exact hik e'.symm)
    · intro i hi; cases hi
  · exact h

theorem j_step (b : Bool) (s : St) (l : Label) (h : J s) : J (step b s l) := by
  cases l with
  | login => exact j_login b s h
  | proceed k => exact j_proceed b s k h
  | drop k => exact j_drop b s k h
  | exit k => exact j_exit b s k h
  | del k => exact j_del b s k h

theorem j_run (b : Bool) (ls : List Label) (s : St) (h : J s) : J (run b s ls) := by
  induction ls generalizing s with
  | nil => exact h
  | cons l ls ih => rw [run_cons]; exact ih _ (j_step b s l h)

theorem j_reach (b : Bool) (ls : List Label) : J (run b {} ls) := j_run b ls {} j_init

theorem proceed_cur (b : Bool) (s : St) (k : Nat) : (step b s (.proceed k)).cur = s.cur := by
  simp only [step]
  split
  · rfl
  · split
    · split <;> rfl
    · rfl
  · rfl

theorem exit_at2 (b : Bool) (s : St) (k : Nat) (c : Ctl) (hc : s.ctls[k]? = some c)
    (hs : c.stat = .started ∨ c.stat = .closed) (ha : c.answered = true) :
    ∃ c', (step b s (.exit k)).ctls[k]? = some c' ∧ c'.answered = true ∧
      ((c.connOpen = false ∨ c.stat = .closed) → Done c') := by
  by_cases hcond : c.stat = .started ∧ c.connOpen = false
  · refine ⟨finish c, ?_, ha, fun _ => ⟨rfl, ha⟩⟩
    simp only [step, hc]
    rw [if_pos hcond]
    simp only []
    rw [getElem?_upd_self, hc]; rfl
  · refine ⟨c, ?_, ha, ?_⟩
    · simp only [step, hc]
      rw [if_neg hcond]
      exact hc
    · intro h
      rcases h with h | h
      · rcases hs with hs | hs
        · exact absurd ⟨hs, h⟩ hcond
        · exact ⟨hs, ha⟩
      · exact ⟨h, ha⟩

/-- one block of the settle schedule -/
def sblock (k : Nat) : List Label := [.proceed k, .exit k, .del k]

theorem sblock_spec (s : St) (k : Nat) (hinv : Inv true s) (hj : J s) (hk : k < s.ctls.length)
    (hold : ∀ (i : Nat) (c' : Ctl), i < k → s.ctls[i]? = some c' → Done c') :
    Inv true (run true s (sblock k)) ∧ J (run true s (sblock k)) ∧
    (run true s (sblock k)).ctls.length = s.ctls.length ∧
    (∀ i, i ≠ k → (run true s (sblock k)).ctls[i]? = s.ctls[i]?) ∧
    ∃ c', (run true s (sblock k)).ctls[k]? = some c' ∧ c'.answered = true ∧ (s.cur ≠ some k → Done c') := by
  have hget : s.ctls[k]? = some s.ctls[k] := List.getElem?_eq_getElem hk
  have e : run true s (sblock k) =
      step true (step true (step true s (.proceed k)) (.exit k)) (.del k) := rfl
  rw [e]
  refine ⟨?_, ?_, ?_, ?_, ?_⟩
  · exact inv_step _ _ _ (inv_step _ _ _ (inv_step _ _ _ hinv))
  · exact j_step _ _ _ (j_step _ _ _ (j_step _ _ _ hj))
  · rw [step_length _ _ _ k (Or.inr (Or.inr (Or.inr rfl))), step_length _ _ _ k (Or.inr (Or.inr (Or.inl rfl))),
      step_length _ _ _ k (Or.inl rfl)]
  · intro i hi
    rw [step_other _ _ _ k i (Or.inr (Or.inr (Or.inr rfl))) hi,
      step_other _ _ _ k i (Or.inr (Or.inr (Or.inl rfl))) hi, step_other _ _ _ k i (Or.inl rfl) hi]
  · rcases proceed_at s k _ hget (hinv.2 k _ hget) hold with ⟨c1, h1, hs1, ha1⟩
    rcases exit_at2 true _ k c1 h1 hs1 ha1 with ⟨c2, h2, ha2, hd2⟩
    refine ⟨c2, ?_, ha2, ?_⟩
    · rw [del_ctls]
      exact h2
    · intro hne
      apply hd2
      have hj1 := j_step true s (.proceed k) hj
      exact hj1.1 k c1 h1 (by rw [proceed_cur]; exact hne)

theorem settleFrom_succ (k n : Nat) : settleFrom k (n + 1) = sblock k ++ settleFrom (k + 1) n := rfl

theorem settle_spec (n : Nat) : ∀ (k : Nat) (s : St), Inv true s → J s → k + n = s.ctls.length →
    (∀ (i : Nat) (c' : Ctl), i < k → s.ctls[i]? = some c' → Done c') →
    ∀ (i : Nat) (c' : Ctl), (run true s (settleFrom k n)).ctls[i]? = some c' → c'.answered = true := by
  induction n with
  | zero =>
    intro k s _ _ hlen hold i c' hc
    have hi : i < s.ctls.length := by
      cases hlt : decide (i < s.ctls.length) with
      | true => exact of_decide_eq_true hlt
      | false =>
        have : s.ctls.length ≤ i := Nat.le_of_not_lt (of_decide_eq_false hlt)
        have hc' : s.ctls[i]? = some c' := hc
        rw [List.getElem?_eq_none this] at hc'; cases hc'
    exact (hold i c' (by omega) hc).2
  | succ n ih =>
    intro k s hinv hj hlen hold
    rw [settleFrom_succ, run_append]
    rcases sblock_spec s k hinv hj (by omega) hold with ⟨hinv', hj', hlen', hoth, c', hk', ha', hd'⟩
    by_cases hcur : s.cur = some k
    · have hn : n = 0 := by have := hj.2 k hcur; omega
      subst hn
      intro i c'' hc''
      have hc2 : (run true s (sblock k)).ctls[i]? = some c'' := hc''
      by_cases e : i = k
      · subst e
        rw [hk'] at hc2
        injection hc2 with hc2
        subst hc2
        exact ha'
      · rw [hoth i e] at hc2
        have hi : i < s.ctls.length := by
          cases hlt : decide (i < s.ctls.length) with
          | true => exact of_decide_eq_true hlt
          | false =>
            have : s.ctls.length ≤ i := Nat.le_of_not_lt (of_decide_eq_false hlt)
            rw [List.getElem?_eq_none this] at hc2; cases hc2
        exact (hold i c'' (by omega) hc2).2
    · refine ih (k + 1) _ hinv' hj' (by omega) ?_
      intro i c'' hi hc''
      by_cases e : i = k
      · subst e
        rw [hk'] at hc''
        injection hc'' with hc''
        subst hc''
        exact hd' hcur
      · rw [hoth i e] at hc''
        exact hold i c'' (by omega) hc''

/-- without anybody hanging up, every login of every reachable state is answered once the goroutines run -/
theorem settle_answers_all (ls : List Label) (i : Nat) (c : Ctl) :
    (run true (run true {} ls) (settleFrom 0 (run true {} ls).ctls.length)).ctls[i]? = some c →
    c.answered = true :=
  settle_spec _ 0 _ (inv_reach true ls) (j_reach true ls) (by simp)
    (fun i c' hi _ => absurd hi (Nat.not_lt_zero i)) i c

theorem login_length (b : Bool) (s : St) : (step b s .login).ctls.length = s.ctls.length + 1 := by
  simp only [step]
  cases s.cur <;> simp [length_upd]

theorem run_logins_length (b : Bool) (n : Nat) (s : St) :
    (run b s (List.replicate n .login)).ctls.length = s.ctls.length + n := by
  induction n generalizing s with
  | zero => rfl
  | succ n ih =>
    rw [List.replicate_succ, run_cons, ih, login_length]; omega

theorem run_releaseOf_length (b : Bool) (i : Nat) (s : St) :
    (run b s (releaseOf i)).ctls.length = s.ctls.length := by
  unfold releaseOf
  split
  · have e : run b s [.exit 0, .del 0] = step b (step b s (.exit 0)) (.del 0) := rfl
    rw [e, step_length _ _ _ 0 (Or.inr (Or.inr (Or.inr rfl))), step_length _ _ _ 0 (Or.inr (Or.inr (Or.inl rfl)))]
  · have e : run b s [.proceed i] = step b s (.proceed i) := rfl
    rw [e, step_length _ _ _ i (Or.inl rfl)]

theorem run_releases_length (b : Bool) (order : List Nat) (s : St) :
    (run b s (releases order)).ctls.length = s.ctls.length := by
  induction order generalizing s with
  | nil => rfl
  | cons i rest ih =>
    have e : releases (i :: rest) = releaseOf i ++ releases rest := rfl
    rw [e, run_append, ih, run_releaseOf_length]

theorem relogin_prefix_length (b : Bool) (k : Nat) (order : List Nat) :
    (run b {} ([.login, .proceed 0] ++ List.replicate k .login ++ releases order)).ctls.length = k + 1 := by
  rw [run_append, run_append, run_releases_length, run_logins_length]
  have e : run b {} [.login, .proceed 0] = step b (step b {} .login) (.proceed 0) := rfl
  rw [e, step_length _ _ _ 0 (Or.inl rfl), login_length]
  simp; omega

theorem lastAnswered_of_all (s : St) (h : ∀ (i : Nat) (c : Ctl), s.ctls[i]? = some c → c.answered = true) :
    lastAnswered s = true := by
  unfold lastAnswered
  cases hl : s.ctls.getLast? with
  | none => rfl
  | some c =>
    rw [List.getLast?_eq_getElem?] at hl
    exact h _ c hl

/-- code as it is: whatever the number of overlapping logins and whatever the release order, the last login gets
    its LoginResp -/
theorem relogin_schedule_answered (k : Nat) (order : List Nat) :
    lastAnswered (run true {} (reloginSchedule k order)) = true := by
  apply lastAnswered_of_all
  intro i c hc
  unfold reloginSchedule at hc
  rw [run_append] at hc
  have hlen := relogin_prefix_length true k order
  rw [← hlen] at hc
  exact settle_answers_all _ i c hc

theorem relogin_schedule_examples :
    lastAnswered (run true {} (reloginSchedule 2 [0, 2, 1])) = true ∧
    lastAnswered (run true {} (reloginSchedule 3 [3, 2, 1, 0])) = true ∧
    lastAnswered (run false {} (reloginSchedule 1 [0, 1])) = true ∧
    lastAnswered (run false {} (reloginSchedule 2 [0, 2, 1])) = false ∧
    lastAnswered (run false {} (reloginSchedule 2 [1, 2, 0])) = false ∧
    lastAnswered (run false {} (reloginSchedule 4 [4, 3, 0, 2, 1])) = false := by decide

/-! ### the relogin schedule of the other variant: two or more overlapping logins wedge the run id -/

/-- control 1 never gets started, every later control waits on its predecessor, unanswered (control 0 is free) -/
def W2Ok (k : Nat) (c : Ctl) : Prop :=
  (k = 1 → c.stat = .waiting (some 0) ∨ c.stat = .abandoned) ∧
  (2 ≤ k → c.stat = .waiting (some (k - 1)) ∧ c.answered = false)

def W2 (s : St) : Prop :=
  3 ≤ s.ctls.length ∧ s.cur = some (s.ctls.length - 1) ∧
  ∀ (k : Nat) (c : Ctl), s.ctls[k]? = some c → W2Ok k c

theorem w2_upd {s : St} (k : Nat) (f : Ctl → Ctl) (h : W2 s)
    (hf : ∀ c, s.ctls[k]? = some c → W2Ok k c → W2Ok k (f c)) :
    W2 { s with ctls := upd s.ctls k f } := by
  refine ⟨?_, ?_, ?_⟩
  · simp only [length_upd]; exact h.1
  · simp only [length_upd]; exact h.2.1
  · exact upd_forall _ _ _ h.2.2 hf

theorem w2_upd0 {s : St} (f : Ctl → Ctl) (h : W2 s) : W2 { s with ctls := upd s.ctls 0 f } :=
  w2_upd 0 f h (fun _ _ _ => ⟨fun e => (by cases e), fun e => (by omega)⟩)

theorem w2_statOf {s : St} (h : W2 s) (k : Nat) (st : Stat) (hst : statOf s k = some st) :
    k = 0 ∨ (k = 1 ∧ (st = .waiting (some 0) ∨ st = .abandoned)) ∨ (2 ≤ k ∧ st = .waiting (some (k - 1))) := by
  unfold statOf at hst
  cases hc : s.ctls[k]? with
  | none => rw [hc] at hst; cases hst
  | some c =>
    rw [hc] at hst
    injection hst with hst
    have hw := h.2.2 k c hc
    subst hst
    cases k with
    | zero => exact Or.inl rfl
    | succ k =>
      cases k with
      | zero => exact Or.inr (Or.inl ⟨rfl, hw.1 rfl⟩)
      | succ k => exact Or.inr (Or.inr ⟨by omega, (hw.2 (by omega)).1⟩)

theorem w2_not_closed {s : St} (h : W2 s) (k : Nat) (hk : 1 ≤ k) : statOf s k ≠ some .closed := by
  intro hst
  rcases w2_statOf h k _ hst with h0 | ⟨_, (h1 | h1)⟩ | ⟨_, h2⟩
  · omega
  · cases h1
  · cases h1
  · cases h2

theorem w2_not_started {s : St} (h : W2 s) (k : Nat) (hk : 1 ≤ k) : statOf s k ≠ some .started := by
  intro hst
  rcases w2_statOf h k _ hst with h0 | ⟨_, (h1 | h1)⟩ | ⟨_, h2⟩
  · omega
  · cases h1
  · cases h1
  · cases h2

theorem w2_login (s : St) (h : W2 s) : W2 (step false s .login) := by
  have hcur := h.2.1
  have e : step false s .login =
      { ctls := upd s.ctls (s.ctls.length - 1) closeConn ++ [{ stat := .waiting (some (s.ctls.length - 1)) }],
        cur := some s.ctls.length } := by
    simp only [step, hcur]
  rw [e]
  have h3 := h.1
  have hu := (w2_upd (s.ctls.length - 1) closeConn h (fun _ _ hc => hc)).2.2
  refine ⟨?_, ?_, ?_⟩
  · simp [length_upd]; omega
  · simp [length_upd]
  · intro k c hc
    by_cases hk : k < (upd s.ctls (s.ctls.length - 1) closeConn).length
    · rw [List.getElem?_append_left hk] at hc
      exact hu k c hc
    · rw [List.getElem?_append_right (by omega)] at hc
      cases hkk : k - (upd s.ctls (s.ctls.length - 1) closeConn).length with
      | zero =>
        rw [hkk] at hc
        simp at hc
        subst hc
        rw [length_upd] at hk hkk
        have hke : k = s.ctls.length := by omega
        subst hke
        refine ⟨by omega, fun _ => ⟨rfl, rfl⟩⟩
      | succ m => rw [hkk] at hc; simp at hc

theorem w2_proceed (s : St) (k : Nat) (h : W2 s) : W2 (step false s (.proceed k)) := by
  have h3 := h.1
  have hcur := h.2.1
  simp only [step]
  split
  · rename_i hst
    rcases w2_statOf h k _ hst with h0 | ⟨_, (h1 | h1)⟩ | ⟨_, h2⟩
    · subst h0; exact w2_upd0 _ h
    · cases h1
    · cases h1
    · cases h2
  · rename_i j hst
    split
    · rename_i hcl
      rcases w2_statOf h k _ hst with h0 | ⟨hk1, _⟩ | ⟨hk, h2⟩
      · subst h0
        split
        · exact w2_upd0 _ h
        · exact w2_upd0 _ h
      · subst hk1
        split
        · rename_i hb
          rw [hcur] at hb
          simp at hb
          omega
        · exact w2_upd 1 abandon h (fun _ _ _ => ⟨fun _ => Or.inr rfl, fun e => by omega⟩)
      · injection h2 with h2
        injection h2 with h2
        exact absurd hcl (w2_not_closed h j (by omega))
    · exact h
  · exact h

theorem w2_exit (s : St) (k : Nat) (h : W2 s) : W2 (step false s (.exit k)) := by
  simp only [step]
  split
  · rename_i c hc
    split
    · rename_i hs
      cases k with
      | zero => exact w2_upd0 _ h
      | succ k =>
        have e := statOf_of_get hc
        rw [hs.1] at e
        exact absurd e (w2_not_started h (k + 1) (by omega))
    · exact h
  · exact h

theorem w2_del (s : St) (k : Nat) (h : W2 s) : W2 (step false s (.del k)) := by
  simp only [step]
  split
  · rename_i hs
    have h3 := h.1
    have hcur := h.2.1
    rw [hs.2] at hcur
    injection hcur with hcur
    exact absurd hs.1 (w2_not_closed h k (by omega))
  · exact h

theorem w2_step (s : St) (l : Label) (h : W2 s) : W2 (step false s l) := by
  cases l with
  | login => exact w2_login s h
  | proceed k => exact w2_proceed s k h
  | drop k => exact w2_upd k closeConn h (fun _ _ hc => hc)
  | exit k => exact w2_exit s k h
  | del k => exact w2_del s k h

theorem w2_run (ls : List Label) (s : St) (h : W2 s) : W2 (run false s ls) := by
  induction ls generalizing s with
  | nil => exact h
  | cons l ls ih => rw [run_cons]; exact ih _ (w2_step s l h)

theorem w2_base : W2 (run false {} [.login, .proceed 0, .login, .login]) := by
  refine ⟨by decide, by decide, ?_⟩
  intro k c hc
  have e : (run false {} [.login, .proceed 0, .login, .login]).ctls =
      [⟨.started, false, true⟩, ⟨.waiting (some 0), false, false⟩, ⟨.waiting (some 1), true, false⟩] := by decide
  rw [e] at hc
  cases k with
  | zero => simp at hc; subst hc; simp [W2Ok]
  | succ k =>
    cases k with
    | zero => simp at hc; subst hc; simp [W2Ok]
    | succ k =>
      cases k with
      | zero => simp at hc; subst hc; simp [W2Ok]
      | succ k => simp at hc

theorem lastAnswered_w2 (s : St) (h : W2 s) : lastAnswered s = false := by
  have h3 := h.1
  have hget : s.ctls[s.ctls.length - 1]? = some s.ctls[s.ctls.length - 1] :=
    List.getElem?_eq_getElem (by omega)
  have hw := h.2.2 _ _ hget
  unfold lastAnswered
  rw [List.getLast?_eq_getElem?, hget]
  exact (hw.2 (by omega)).2

/-- startAlways = false: with two or more overlapping logins the last one is never answered, whatever the
    release order -/
theorem relogin_schedule_wedged (k : Nat) (order : List Nat) :
    2 ≤ k → lastAnswered (run false {} (reloginSchedule k order)) = false := by
  intro hk
  apply lastAnswered_w2
  obtain ⟨m, rfl⟩ : ∃ m, k = m + 2 := ⟨k - 2, by omega⟩
  have e : reloginSchedule (m + 2) order =
      [.login, .proceed 0, .login, .login] ++
        (List.replicate m .login ++ releases order ++ settleFrom 0 (m + 2 + 1)) := by
    simp [reloginSchedule, List.replicate_succ]
  rw [e, run_append]
  exact w2_run _ _ w2_base

end RegCtl
end Frp
