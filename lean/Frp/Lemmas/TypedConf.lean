import Frp.Model.TypedConf
/-
  The closed form of a run of independent Complete steps (helper lemmas for C18).
-/
namespace Frp
namespace TypedConf
open Gen.TypedConf ProxyMsg

theorem target_mem_reads (s : VStep) : target s ∈ reads s := by
  cases s <;> simp [reads, target]

theorem get_applyV (user : Str) (c : Rec Str) (s : VStep) (k : Str) :
    (applyV user c s).get k = if k = target s then (newVal user c s).getD (c.get k) else c.get k := by
  simp only [applyV]
  cases h : newVal user c s with
  | none => simp
  | some v => rw [Rec.get_set]; simp

theorem newVal_congr (user : Str) (c c' : Rec Str) (s : VStep)
    (h : ∀ r ∈ reads s, c.get r = c'.get r) : newVal user c s = newVal user c' s := by
  cases s with
  | emptyOrStr f d => simp only [newVal, h f (by simp [reads, target])]
  | emptyOrInt f d => simp only [newVal, h f (by simp [reads, target])]
  | userPrefix f => simp only [newVal, h f (by simp [reads, target])]
  | qualify f g => simp only [newVal, h f (by simp [reads]), h g (by simp [reads])]
  | userPrefixIfSet f => simp only [newVal, h f (by simp [reads, target])]

/-- each field ends up with what its own step computes from the configuration as loaded -/
theorem runSteps_closed (user : Str) (steps : List VStep) (c : Rec Str) (k : Str) (h : Indep steps) :
    (runSteps user steps c).get k = closedForm user steps c k := by
  induction steps generalizing c with
  | nil => rfl
  | cons s rest ih =>
    obtain ⟨h1, h2⟩ := h
    simp only [runSteps, List.foldl] at ih ⊢
    rw [ih (applyV user c s) h2]
    simp only [closedForm, List.find?]
    by_cases hk : target s = k
    · -- no later step has this target
      have hnone : rest.find? (fun s' => target s' = k) = none := by
        apply List.find?_eq_none.mpr
        intro s' hs' heq
        simp only [decide_eq_true_eq] at heq
        exact h1 s' hs' (by rw [hk, ← heq]; exact target_mem_reads s')
      simp only [hnone, hk, decide_true]
      rw [get_applyV]; simp [hk]
    · simp only [hk, decide_false]
      cases hf : rest.find? (fun s' => target s' = k) with
      | none => simp only []; rw [get_applyV]; simp [Ne.symm hk]
      | some s' =>
        have hs' : s' ∈ rest := List.mem_of_find?_eq_some hf
        have hcongr : newVal user (applyV user c s) s' = newVal user c s' := by
          apply newVal_congr
          intro r hr
          rw [get_applyV]
          have : r ≠ target s := fun e => h1 s' hs' (e ▸ hr)
          simp [this]
        simp only []
        rw [hcongr, get_applyV]; simp [Ne.symm hk]

end TypedConf
end Frp
