import Frp.Model.TypedConf
/-
  The closed form of a run of independent Complete steps (helper lemmas for C18).
-/
namespace Frp
namespace TypedConf
open Gen.TypedConf ProxyMsg

theorem target_mem_reads (s : VStep) : target s ∈ reads s := by
  cases s <;> simp [reads, target]

theorem get_applyV (user : Str) (c : Rec Str) (s : VStep) (k : Str) :
    (applyV user c s).get k = if k = target s then (newVal user c s).getD (c.get k) else c.get k := by
  simp only [applyV]
  cases h : newVal user c s with
  | none => simp
  | some v => rw [Rec.get_set]; simp

theorem newVal_congr (user : Str) (c c' : Rec Str) (s : VStep)
    (h : ∀ r ∈ reads s, c.get r = c'.get r) : newVal user c s = newVal user c' s := by
  cases s with
  | emptyOrStr f d => simp only [newVal, h f (by simp [reads, target])]
  | emptyOrInt f d => simp only [newVal, h f (by simp [reads, target])]
  | userPrefix f => simp only [newVal, h f (by simp [reads, target])]
  | qualify f g => simp only [newVal, h f (by simp [reads]), h g (by simp [reads])]
  | userPrefixIfSet f => simp only [newVal, h f (by simp [reads, target])]

/-- each field ends up with what its own step computes from the configuration as loaded -/
theorem runSteps_closed (user : Str) (steps : List VStep) (c : Rec Str) (k : Str) (h : Indep steps) :
    (runSteps user steps c).get k = closedForm user steps c k := by
  induction steps generalizing c with
  | nil => rfl
  | cons s rest ih =>
    obtain ⟨h1, h2⟩ := h
    simp only [runSteps, List.foldl] at ih ⊢
    rw [ih (applyV user c s) h2]
    simp only [closedForm, List.find?]
    by_cases hk : target s = k
    · -- no later step has this target
      have hnone : rest.find? (fun s' => target s' = k) = none := by
        apply List.find?_eq_none.mpr
        intro s' hs' heq
        simp only [decide_eq_true_eq] at heq
        exact h1 s' hs' (by rw [hk, ← heq]; exact target_mem_reads s')
      simp only [hnone, hk, decide_true]
      rw [get_applyV]; simp [hk]
    · simp only [hk, decide_false]
      cases hf : rest.find? (fun s' => target s' = k) with
      | none => simp only []; rw [get_applyV]; simp [Ne.symm hk]
      | some s' =>
        have hs' : s' ∈ rest := List.mem_of_find?_eq_some hf
        have hcongr : newVal user (applyV user c s) s' = newVal user c s' := by
          apply newVal_congr
          intro r hr
          rw [get_applyV]
          have : r ≠ target s := fun e => h1 s' hs' (e ▸ hr)
          simp [this]
        simp only []
        rw [hcongr, get_applyV]; simp [Ne.symm hk]

/-- a step applied again, with an empty user, to a record whose target field already holds what the step
    computed (and whose qualifying field, if the step has one, is as loaded and empty) changes nothing -/
theorem newVal_stable (user : Str) (c d : Rec Str) (s : VStep)
    (hd : d.get (target s) = (newVal user c s).getD (c.get (target s)))
    (hq : ∀ f g, s = .qualify f g → d.get g = c.get g ∧ asStr (c.get g) = []) :
    (newVal [] d s).getD (d.get (target s)) = d.get (target s) := by
  cases s with
  | emptyOrStr f dflt =>
    simp only [target, newVal] at hd ⊢
    by_cases h : asStr (c.get f) = []
    · simp only [h, if_true, Option.getD_some] at hd
      rw [hd]; simp only [asStr]
      by_cases h2 : dflt = []
      · simp [h2]
      · simp [h2]
    · simp only [h, if_false, Option.getD_none] at hd
      rw [hd]; simp [h]
  | emptyOrInt f dflt =>
    simp only [target, newVal] at hd ⊢
    by_cases h : asInt (c.get f) = 0
    · simp only [h, if_true, Option.getD_some] at hd
      rw [hd]; simp only [asInt]
      by_cases h2 : dflt = 0
      · simp [h2]
      · simp [h2]
    · simp only [h, if_false, Option.getD_none] at hd
      rw [hd]; simp [h]
  | userPrefix f =>
    simp only [target, newVal, Option.getD_some] at hd ⊢
    rw [hd]; simp [asStr, namePrefix]
  | qualify f g =>
    obtain ⟨hg1, hg2⟩ := hq f g rfl
    simp only [target, newVal, hg2, ne_eq, not_true_eq_false, if_false, Option.getD_some] at hd
    simp only [target, newVal, hg1, hg2, ne_eq, not_true_eq_false, if_false, Option.getD_some]
    rw [hd]; simp [asStr, namePrefix]
  | userPrefixIfSet f =>
    simp only [target, newVal] at hd ⊢
    by_cases h : asStr (c.get f) = []
    · simp only [h, ne_eq, not_true_eq_false, if_false, Option.getD_none] at hd
      rw [hd]; simp [h]
    · simp only [h, ne_eq, not_false_eq_true, if_true, Option.getD_some] at hd
      have e : namePrefix ([] : Str) = [] := rfl
      have ite_getD : ∀ (p : Prop) [Decidable p] (v : Value), (if p then some v else none).getD v = v := by
        intro p _ v; split <;> rfl
      rw [hd]; simp only [asStr, e, List.nil_append]
      exact ite_getD _ _

/-- applying the steps once more (with an empty user) to a completed record is the identity, as long as no
    step qualifies its field by a non-empty one -/
theorem closedForm_idem (user : Str) (steps : List VStep) (c d : Rec Str) (k : Str)
    (hd : ∀ k, d.get k = closedForm user steps c k)
    (hq : ∀ s ∈ steps, ∀ f g, s = .qualify f g → (∀ s' ∈ steps, target s' ≠ g) ∧ asStr (c.get g) = []) :
    closedForm [] steps d k = d.get k := by
  unfold closedForm
  cases hf : steps.find? (fun s => target s = k) with
  | none => rfl
  | some s =>
    have hs : s ∈ steps := List.mem_of_find?_eq_some hf
    have ht : target s = k := by simpa using List.find?_some hf
    subst ht
    apply newVal_stable user c d s
    · rw [hd, closedForm, hf]
    · intro f g e
      obtain ⟨h1, h2⟩ := hq s hs f g e
      refine ⟨?_, h2⟩
      rw [hd, closedForm, List.find?_eq_none.mpr]
      intro s' hs'; simpa using h1 s' hs'

end TypedConf
end Frp
