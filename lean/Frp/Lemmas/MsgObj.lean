import Frp.Model.MsgObj
/-! Round-trip lemmas for the level-generic object model (core Lean only). -/
namespace Frp
namespace MsgObj

variable {α : Type}

def names (fs : List FieldS) : List Str := fs.map (·.json)

/-- only names of the schema are written -/
theorem lookup_toMembers_none (subJ : String → α → J) (k : Str) :
    ∀ (fs : List FieldS) (vs : List (ValF α)), k ∉ names fs → (toMembersF subJ fs vs).lookup k = none := by
  intro fs
  induction fs with
  | nil => intro vs _; cases vs <;> simp [toMembersF]
  | cons f fs ih =>
    intro vs hk
    cases vs with
    | nil => simp [toMembersF]
    | cons v vs =>
      simp only [names, List.map_cons, List.mem_cons, not_or] at hk
      simp only [toMembersF]
      split
      · exact ih vs hk.2
      · rw [List.lookup_cons]
        have : (k == f.json) = false := by simpa using hk.1
        rw [this]
        exact ih vs hk.2

@[simp] theorem unStr_str (s : Str) : unStr (.str s) = s := rfl

theorem unStr_map (l : List Str) : List.map (unStr ∘ J.str) l = l := by
  induction l with
  | nil => rfl
  | cons a l ih => simp only [List.map_cons, Function.comp, unStr]; exact congrArg _ ih

theorem unStr_map_kv (m : List (Str × Str)) :
    List.map ((fun kv : Str × J => (kv.1, unStr kv.2)) ∘ (fun kv : Str × Str => (kv.1, J.str kv.2))) m = m := by
  induction m with
  | nil => rfl
  | cons a l ih => simp only [List.map_cons, Function.comp, unStr]; exact congrArg _ ih

theorem udp_roundtrip (a : UDP) : udpFromJ [(kIP, .str a.ip), (kPort, .num a.port), (kZone, .str a.zone)] = a := by
  simp [udpFromJ, List.lookup, kIP, kPort, kZone, unStr, unNum]

/-- one field: writing it (or dropping it) and reading the result back gives the normalised value -/
theorem field_roundtrip (subJ : String → α → J) (subV : String → J → α) (zeroSub : String → α)
    (normSub : String → α → α) (subTyped : String → α → Bool)
    (hsub : ∀ n a, subTyped n a = true → ∃ ms, subJ n a = .obj ms ∧ subV n (.obj ms) = normSub n a)
    (f : FieldS) (v : ValF α) (ht : typedF subTyped f.kind v = true) :
    decodeOpt subV zeroSub f (if f.omitE && isEmpty v then none else some (toJF subJ f.kind v))
      = normF normSub f v := by
  cases v with
  | str s =>
    cases hk : f.kind <;> simp [hk, typedF] at ht
    cases ho : f.omitE <;> cases s <;> simp [decodeOpt, isEmpty, toJF, fromJF, zeroF, normF, unStr, hk, ho]
  | bool b =>
    cases hk : f.kind <;> simp [hk, typedF] at ht
    cases ho : f.omitE <;> cases b <;> simp [decodeOpt, isEmpty, toJF, fromJF, zeroF, normF, hk, ho]
  | int i =>
    cases hk : f.kind <;> simp [hk, typedF] at ht
    cases ho : f.omitE
    · simp [decodeOpt, isEmpty, toJF, fromJF, zeroF, normF, unNum, hk, ho]
    · by_cases hi : i = 0
      · subst hi; simp [decodeOpt, isEmpty, toJF, fromJF, zeroF, normF, hk, ho]
      · simp [decodeOpt, isEmpty, toJF, fromJF, zeroF, normF, unNum, hk, hi, ho]
  | strs o =>
    cases hk : f.kind <;> simp [hk, typedF] at ht
    cases o with
    | none => cases ho : f.omitE <;> simp [decodeOpt, isEmpty, toJF, fromJF, zeroF, normF, hk, ho]
    | some l =>
      cases ho : f.omitE <;> cases hl : l <;>
        simp [decodeOpt, isEmpty, toJF, fromJF, zeroF, normF, hk, ho, unStr_map, unStr_str]
  | smap o =>
    cases hk : f.kind <;> simp [hk, typedF] at ht
    cases o with
    | none => cases ho : f.omitE <;> simp [decodeOpt, isEmpty, toJF, fromJF, zeroF, normF, hk, ho]
    | some l =>
      cases ho : f.omitE <;> cases hl : l <;>
        simp [decodeOpt, isEmpty, toJF, fromJF, zeroF, normF, hk, ho, unStr_map_kv, unStr_str]
  | udp o =>
    cases hk : f.kind <;> simp [hk, typedF] at ht
    cases o with
    | none => cases ho : f.omitE <;> simp [decodeOpt, isEmpty, toJF, fromJF, zeroF, normF, hk, ho]
    | some a =>
      cases ho : f.omitE <;>
        simp [decodeOpt, isEmpty, toJF, fromJF, zeroF, normF, hk, ho, udpToJ, udp_roundtrip]
  | sub a =>
    cases hk : f.kind <;> simp [hk, typedF] at ht
    rename_i n
    obtain ⟨ms, h1, h2⟩ := hsub n a ht
    cases ho : f.omitE <;> simp [decodeOpt, isEmpty, toJF, fromJF, normF, hk, ho, h1, h2]
  | subs o =>
    cases hk : f.kind <;> simp [hk, typedF] at ht
    rename_i n
    cases o with
    | none => cases ho : f.omitE <;> simp [decodeOpt, isEmpty, toJF, fromJF, zeroF, normF, hk, ho]
    | some l =>
      have ht' : ∀ a ∈ l, subTyped n a = true := by simpa [typedF, List.all_eq_true] using ht
      have hmap : List.map (subV n ∘ subJ n) l = l.map (normSub n) := by
        apply List.map_congr_left
        intro a ha
        obtain ⟨ms, h1, h2⟩ := hsub n a (ht' a ha)
        simp [Function.comp, h1, h2]
      by_cases hl : l = []
      · subst hl
        cases ho : f.omitE <;> simp [decodeOpt, isEmpty, toJF, fromJF, zeroF, normF, hk, ho]
      · have hl' : l.isEmpty = false := by cases l <;> simp_all
        cases ho : f.omitE <;>
          simp [decodeOpt, isEmpty, toJF, fromJF, zeroF, normF, hk, ho, hl', hmap]

/-- a whole struct: decoding what was written gives the normalised value -/
theorem members_roundtrip_aux (subJ : String → α → J) (subV : String → J → α) (zeroSub : String → α)
    (normSub : String → α → α) (subTyped : String → α → Bool)
    (hsub : ∀ n a, subTyped n a = true → ∃ ms, subJ n a = .obj ms ∧ subV n (.obj ms) = normSub n a) :
    ∀ (fs : List FieldS) (vs : List (ValF α)) (ms : List (Str × J)),
      typedMembers subTyped fs vs = true → (names fs).Nodup →
      (∀ k, k ∈ names fs → ms.lookup k = (toMembersF subJ fs vs).lookup k) →
      fs.map (fun f => decodeOpt subV zeroSub f (ms.lookup f.json)) = normMembersF normSub fs vs := by
  intro fs
  induction fs with
  | nil => intro vs ms _ _ _; cases vs <;> simp [normMembersF]
  | cons f fs ih =>
    intro vs ms ht hnd hag
    cases vs with
    | nil => simp [typedMembers] at ht
    | cons v vs =>
      simp only [typedMembers, Bool.and_eq_true] at ht
      simp only [names, List.map_cons, List.nodup_cons] at hnd
      have hfr := field_roundtrip subJ subV zeroSub normSub subTyped hsub f v ht.1
      have hhead : ms.lookup f.json = (if f.omitE && isEmpty v then none else some (toJF subJ f.kind v)) := by
        rw [hag f.json (by simp [names])]
        simp only [toMembersF]
        split
        · exact lookup_toMembers_none subJ f.json fs vs hnd.1
        · simp [List.lookup_cons]
      simp only [List.map_cons, normMembersF]
      rw [hhead, hfr]
      congr 1
      apply ih vs ms ht.2 hnd.2
      intro k hk
      rw [hag k (by simp only [names, List.map_cons, List.mem_cons]; exact Or.inr hk)]
      simp only [toMembersF]
      split
      · rfl
      · rw [List.lookup_cons]
        have hne : (k == f.json) = false := by
          have : k ≠ f.json := fun h => hnd.1 (h ▸ hk)
          simpa using this
        rw [hne]

theorem members_roundtrip (subJ : String → α → J) (subV : String → J → α) (zeroSub : String → α)
    (normSub : String → α → α) (subTyped : String → α → Bool)
    (hsub : ∀ n a, subTyped n a = true → ∃ ms, subJ n a = .obj ms ∧ subV n (.obj ms) = normSub n a)
    (fs : List FieldS) (vs : List (ValF α))
    (ht : typedMembers subTyped fs vs = true) (hnd : (names fs).Nodup) :
    fromMembersF subV zeroSub fs (toMembersF subJ fs vs) = normMembersF normSub fs vs := by
  unfold fromMembersF
  exact members_roundtrip_aux subJ subV zeroSub normSub subTyped hsub fs vs _ ht hnd (fun _ _ => rfl)

/-- every struct of the schema has pairwise distinct JSON names -/
def Schema.NamesNodup (sch : Schema) : Prop := ∀ n, (names (sch.fieldsOf n)).Nodup

theorem mem_of_lookup_str {β : Type} {l : List (String × β)} {k : String} {b : β}
    (h : l.lookup k = some b) : (k, b) ∈ l := by
  induction l with
  | nil => simp [List.lookup] at h
  | cons p tl ih =>
    obtain ⟨a, c⟩ := p
    simp only [List.lookup] at h
    split at h
    · rename_i heq
      simp only [beq_iff_eq] at heq
      injection h with h
      subst heq; subst h
      exact List.mem_cons_self
    · exact List.mem_cons_of_mem _ (ih h)

/-- it suffices to check the rows of the table -/
theorem Schema.namesNodup_of_rows (sch : Schema) (h : ∀ r ∈ sch.rows, (names r.2).Nodup) : sch.NamesNodup := by
  intro n
  unfold Schema.fieldsOf
  cases hl : sch.rows.lookup n with
  | none => simp [names]
  | some fs => exact h (n, fs) (mem_of_lookup_str hl)

theorem roundtrip0 (sch : Schema) (hnd : sch.NamesNodup) (n : String) (m : Struct0)
    (ht : typed0 sch n m = true) : fromObj0 sch n (toObj0 sch n m) = norm0 sch n m := by
  unfold fromObj0 toObj0 norm0
  simp only [objOf]
  exact members_roundtrip _ _ _ _ (fun _ _ => false) (fun _ _ h => by simp at h) _ m ht (hnd n)

theorem roundtrip1 (sch : Schema) (hnd : sch.NamesNodup) (n : String) (m : Struct1)
    (ht : typed1 sch n m = true) : fromObj1 sch n (toObj1 sch n m) = norm1 sch n m := by
  unfold fromObj1 toObj1 norm1
  simp only [objOf]
  refine members_roundtrip _ _ _ _ (typed0 sch) ?_ _ m ht (hnd n)
  intro n' a h
  exact ⟨_, rfl, by have := roundtrip0 sch hnd n' a h; simpa [toObj0] using this⟩

theorem roundtrip2 (sch : Schema) (hnd : sch.NamesNodup) (n : String) (m : Struct2)
    (ht : typed2 sch n m = true) : fromObj2 sch n (toObj2 sch n m) = norm2 sch n m := by
  unfold fromObj2 toObj2 norm2
  simp only [objOf]
  refine members_roundtrip _ _ _ _ (typed1 sch) ?_ _ m ht (hnd n)
  intro n' a h
  exact ⟨_, rfl, by have := roundtrip1 sch hnd n' a h; simpa [toObj1] using this⟩

end MsgObj
end Frp
