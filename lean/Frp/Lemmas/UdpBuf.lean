import Frp.Model.UdpBuf
/-
  Lemmas about the read loop with an explicit read buffer (core Lean only).  The property statements are in
  Frp/Props/C03.lean §9.
-/
namespace Frp
namespace UdpBuf
open Udp

/-- what stands at the front of the buffer right after `ReadFromUDP` is the datagram (cut to the buffer) -/
theorem readInto_take (bs : Nat) (buf p : Str) :
    (readInto bs buf p).take (rd bs p).length = rd bs p := by
  unfold readInto
  exact List.take_left' rfl

/-- the packet a read stands for -/
def nowOf (bs : Nat) (a : Addr) (p : Str) : Packet := packetOf (rd bs p) none (some a)

theorem step_read (byRef : Bool) (s : St) (a : Addr) (p : Str) :
    step byRef s (.read a p) =
      if s.q.length < s.cap then
        { s with buf := readInto s.bufSize s.buf p,
                 q := s.q ++ [{ pl := if byRef then .slice (rd s.bufSize p).length else .owned (nowOf s.bufSize a p).content,
                                raddr := some a }],
                 accepted := s.accepted ++ [nowOf s.bufSize a p] }
      else { s with buf := readInto s.bufSize s.buf p, dropped := s.dropped ++ [nowOf s.bufSize a p] } := by
  simp only [step, nowOf, readInto_take]

/-- every message in the queue owns its bytes -/
def AllOwned (q : List QMsg) : Prop := ∀ m ∈ q, ∃ c, m.pl = .owned c

theorem materialise_owned {m : QMsg} (h : ∃ c, m.pl = .owned c) (b b' : Str) :
    materialise b m = materialise b' m := by
  obtain ⟨c, hc⟩ := h
  simp only [materialise, hc]

theorem map_materialise_owned {q : List QMsg} (h : AllOwned q) (b b' : Str) :
    q.map (materialise b) = q.map (materialise b') :=
  List.map_congr_left (fun m hm => materialise_owned (h m hm) b b')

/-- invariant of the code as it is (`byRef = false`) -/
structure Inv (s : St) : Prop where
  owned : AllOwned s.q
  cons : s.wire ++ s.q.map (materialise s.buf) = s.accepted

theorem inv_init (bs cap : Nat) : Inv (init bs cap) := ⟨fun _ h => by simp [init] at h, rfl⟩

theorem inv_step {s : St} (h : Inv s) (l : Label) : Inv (step false s l) := by
  cases l with
  | read a p =>
    rw [step_read]
    split
    · refine ⟨?_, ?_⟩
      · intro m hm
        simp only [List.mem_append, List.mem_singleton] at hm
        rcases hm with hm | hm
        · exact h.owned m hm
        · exact ⟨_, by rw [hm]; rfl⟩
      · show s.wire ++ (s.q ++ [_]).map (materialise (readInto s.bufSize s.buf p)) = s.accepted ++ [_]
        rw [List.map_append, map_materialise_owned h.owned _ s.buf, ← List.append_assoc, h.cons]
        simp [materialise, nowOf, packetOf]
    · refine ⟨h.owned, ?_⟩
      show s.wire ++ s.q.map (materialise (readInto s.bufSize s.buf p)) = s.accepted
      rw [map_materialise_owned h.owned _ s.buf, h.cons]
  | send =>
    simp only [step]
    split
    · exact h
    · rename_i m rest hq
      have hc := h.cons
      rw [hq] at hc
      refine ⟨fun x hx => h.owned x (by rw [hq]; exact List.mem_cons_of_mem _ hx), ?_⟩
      show (s.wire ++ [materialise s.buf m]) ++ rest.map (materialise s.buf) = s.accepted
      rw [← hc]; simp

theorem inv_run {s : St} (h : Inv s) (ls : List Label) : Inv (run false s ls) := by
  induction ls generalizing s with
  | nil => exact h
  | cons l ls ih => exact ih (inv_step h l)

theorem run_append (byRef : Bool) (s : St) (a b : List Label) :
    run byRef s (a ++ b) = run byRef (run byRef s a) b := by
  simp [run, List.foldl_append]

/-- the queue only loses elements at its head and gains at its tail: an element that is still queued after more
    steps … is the same element (used for `queued_owns_bytes`) — here: bufSize and cap never change -/
theorem step_params (byRef : Bool) (s : St) (l : Label) :
    (step byRef s l).bufSize = s.bufSize ∧ (step byRef s l).cap = s.cap := by
  cases l with
  | read a p => rw [step_read]; split <;> exact ⟨rfl, rfl⟩
  | send => simp only [step]; split <;> exact ⟨rfl, rfl⟩

/-! ### by reference: request / reply traffic does not show the difference -/

/-- the state after one read and the send behind it, starting from an empty queue -/
def afterPing (s : St) (d : Addr × Str) : St :=
  { s with buf := readInto s.bufSize s.buf d.2, q := [],
           wire := s.wire ++ [nowOf s.bufSize d.1 d.2], accepted := s.accepted ++ [nowOf s.bufSize d.1 d.2] }

theorem byref_pingpong (ds : List (Addr × Str)) :
    ∀ s : St, s.q = [] → 0 < s.cap →
      (run true s (pingPong ds)).q = [] ∧
      (run true s (pingPong ds)).wire = s.wire ++ ds.map (fun d => nowOf s.bufSize d.1 d.2) ∧
      (run true s (pingPong ds)).accepted = s.accepted ++ ds.map (fun d => nowOf s.bufSize d.1 d.2) := by
  induction ds with
  | nil => intro s hq _; exact ⟨hq, by simp [pingPong, run], by simp [pingPong, run]⟩
  | cons d ds ih =>
    intro s hq hc
    have e : pingPong (d :: ds) = [.read d.1 d.2, .send] ++ pingPong ds := by simp [pingPong]
    rw [e, run_append]
    have h1 : run true s [.read d.1 d.2, .send] = afterPing s d := by
      simp only [run, List.foldl_cons, List.foldl_nil, afterPing]
      rw [step_read]
      simp only [hq, List.length_nil, hc, if_true, List.nil_append, step, materialise, readInto_take, nowOf]
    rw [h1]
    obtain ⟨a1, a2, a3⟩ := ih (afterPing s d) rfl hc
    refine ⟨a1, ?_, ?_⟩
    · rw [a2]; simp [afterPing]
    · rw [a3]; simp [afterPing]

/-! ### a burst: all reads first, then all sends -/

/-- the state after a read that found room -/
def afterRead (byRef : Bool) (s : St) (a : Addr) (p : Str) : St :=
  { s with buf := readInto s.bufSize s.buf p,
           q := s.q ++ [{ pl := if byRef then .slice (rd s.bufSize p).length else .owned (nowOf s.bufSize a p).content,
                          raddr := some a }],
           accepted := s.accepted ++ [nowOf s.bufSize a p] }

theorem step_read_room (byRef : Bool) (s : St) (a : Addr) (p : Str) (h : s.q.length < s.cap) :
    step byRef s (.read a p) = afterRead byRef s a p := by
  rw [step_read]; simp only [h, if_true, afterRead]

theorem reads_room (byRef : Bool) (ds : List (Addr × Str)) :
    ∀ s : St, s.q.length + ds.length ≤ s.cap →
      (run byRef s (ds.map (fun d => .read d.1 d.2))).q.length = s.q.length + ds.length ∧
      (run byRef s (ds.map (fun d => .read d.1 d.2))).accepted = s.accepted ++ ds.map (fun d => nowOf s.bufSize d.1 d.2) ∧
      (run byRef s (ds.map (fun d => .read d.1 d.2))).wire = s.wire := by
  induction ds with
  | nil => intro s _; simp [run]
  | cons d ds ih =>
    intro s h
    simp only [List.length_cons] at h
    have hlt : s.q.length < s.cap := by omega
    have hrun : run byRef s ((d :: ds).map (fun d => Label.read d.1 d.2)) =
        run byRef (afterRead byRef s d.1 d.2) (ds.map (fun d => Label.read d.1 d.2)) := by
      simp only [List.map_cons, run, List.foldl_cons, step_read_room byRef s d.1 d.2 hlt]
    rw [hrun]
    have hlen : (afterRead byRef s d.1 d.2).q.length = s.q.length + 1 := by simp [afterRead]
    obtain ⟨a1, a2, a3⟩ := ih (afterRead byRef s d.1 d.2) (by rw [hlen]; show _ ≤ s.cap; omega)
    refine ⟨?_, ?_, a3⟩
    · rw [a1, hlen, List.length_cons]; omega
    · rw [a2]; simp [afterRead]

theorem sends_drain (byRef : Bool) (n : Nat) :
    ∀ s : St, (run byRef s (List.replicate n .send)).q.length = s.q.length - n := by
  induction n with
  | zero => intro s; simp [run]
  | succ n ih =>
    intro s
    simp only [List.replicate_succ, run, List.foldl_cons]
    have := ih (step byRef s .send)
    rw [show run byRef = fun s ls => ls.foldl (step byRef) s from rfl] at this
    rw [this]
    simp only [step]
    split
    · rename_i hq; simp [hq]
    · rename_i m rest hq; simp only [hq, List.length_cons]; omega

/-! ### the code as it is refines the value semantics of `Udp.stepUserSend` -/

/-- the explicit-buffer machine (copying) and the forwarding machine of `Model/Udp` hold the same queue -/
structure Sim (s : St) (t : Udp.St) : Prop where
  owned : AllOwned s.q
  q : s.q.map (materialise s.buf) = t.sSend
  cap : s.cap = t.cap
  bs : s.bufSize = t.sbs

theorem sim_read {s : St} {t : Udp.St} (h : Sim s t) (a : Addr) (p : Str) (hb : isBytes p = true) :
    Sim (step false s (.read a p)) (Udp.step t (.userSend a p)) := by
  have hl : s.q.length = t.sSend.length := by rw [← h.q, List.length_map]
  have hcap := h.cap
  rw [step_read]
  simp only [Udp.step, stepUserSend, hb, Bool.not_true, Bool.false_eq_true, if_false]
  by_cases hc : s.q.length < s.cap
  · have hc' : t.sSend.length < t.cap := by omega
    simp only [hc, hc', if_true]
    refine ⟨?_, ?_, h.cap, h.bs⟩
    · intro m hm
      simp only [List.mem_append, List.mem_singleton] at hm
      rcases hm with hm | hm
      · exact h.owned m hm
      · exact ⟨_, by rw [hm]⟩
    · show (s.q ++ [_]).map (materialise (readInto s.bufSize s.buf p)) = t.sSend ++ [_]
      rw [List.map_append, map_materialise_owned h.owned _ s.buf, h.q, ← h.bs]
      simp [materialise, nowOf, packetOf]
  · have hc' : ¬ t.sSend.length < t.cap := by omega
    simp only [hc, hc', if_false]
    refine ⟨h.owned, ?_, h.cap, h.bs⟩
    show s.q.map (materialise (readInto s.bufSize s.buf p)) = t.sSend
    rw [map_materialise_owned h.owned _ s.buf, h.q]

theorem sim_reads (ds : List (Addr × Str)) (hb : ∀ d ∈ ds, isBytes d.2 = true) :
    ∀ (s : St) (t : Udp.St), Sim s t →
      Sim (run false s (ds.map (fun d => .read d.1 d.2))) (Udp.run t (ds.map (fun d => .userSend d.1 d.2))) := by
  induction ds with
  | nil => intro s t h; exact h
  | cons d ds ih =>
    intro s t h
    simp only [List.map_cons, run, Udp.run, List.foldl_cons]
    exact ih (fun x hx => hb x (List.mem_cons_of_mem _ hx)) _ _ (sim_read h d.1 d.2 (hb d List.mem_cons_self))

end UdpBuf
end Frp
