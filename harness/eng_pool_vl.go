// Engine "pool" (C11), accept paths that hand user connections over through a channel:
//
//  1. the real netpkg.InternalListener, every method call an op of its own (all interleavings of
//     PutConn / Accept / Close at call granularity; the harness IS the accept loop):
//
//     vlnew                               fresh listener                                       -
//     vlput <c>                           PutConn(server end of a pipe)                        q | full | err
//     vlaccept                            one Accept()                                         got:<c> | exit:<stranded ids> | block
//     vlclose                             Close()                                              -
//
//  2. a real server-side stcp proxy (proxy.NewProxy + Run) on a real visitor.Manager; visitor connections
//     enter through Manager.NewConn exactly as RegisterVisitorConn delivers them.  The proxy's own accept
//     goroutine can be stalled between two Accept calls without any hook: it logs RemoteAddr() of the
//     connection it has just accepted, and a connection created with <stall>=1 answers RemoteAddr() only
//     when the harness lets it.  Connections arriving meanwhile stay queued in the listener.
//
//     vpreset                             fresh visitor manager                                -
//     vpnew <p> <mode>                    stcp proxy; mode 0: no work connection (session      ok | err
//     .                                   ending), 1: a fresh one per call
//     vpconn <p> <c> <stall> <auth>       Manager.NewConn                                      B:<n|N> | C | Q | full | stalled | err | stuck
//     vprelease <p>                       un-stall the accept goroutine                        b=<n>;c=<n>;open=<ids>
//     vpclose <p>                         pxy.Close(), then un-stall                           b=<n>;c=<n>;open=<ids>
//
//  3. a real group.TCPGroupCtl (load-balancing group) whose member accept loop is the harness:
//
//     gpreset                             fresh ports.Manager + TCPGroupCtl                    -
//     gplisten <m>                        join group g as member m                             ok | err
//     gpconn <c>                          a user dials the group's port                        ok | refused
//     gpaccept <m>                        one Accept() of member m                             got:<c> | lclosed | none
//     gpclose <m>                         member m leaves; the last one: its accept loop runs  open=<ids>
//     .                                   to its end, then a census
package main

import (
	"context"
	"errors"
	"fmt"
	"net"
	"sort"
	"strconv"
	"strings"
	"sync"
	"sync/atomic"
	"time"

	v1 "github.com/fatedier/frp/pkg/config/v1"
	"github.com/fatedier/frp/pkg/msg"
	plugin "github.com/fatedier/frp/pkg/plugin/server"
	netpkg "github.com/fatedier/frp/pkg/util/net"
	"github.com/fatedier/frp/pkg/util/util"
	"github.com/fatedier/frp/server/controller"
	"github.com/fatedier/frp/server/group"
	"github.com/fatedier/frp/server/ports"
	"github.com/fatedier/frp/server/proxy"
	"github.com/fatedier/frp/server/visitor"
)

// poolVConn is the server end of a visitor connection (a pipe); the harness keeps the peer end.
type poolVConn struct {
	net.Conn
	id      string
	port    int
	peer    net.Conn
	closed  atomic.Bool // Close() was called on the server end
	peerEOF atomic.Bool
	bridged atomic.Bool
	nameOK  atomic.Bool
	gate    chan struct{}
	entered chan struct{}
	once    sync.Once
	taken   bool // returned by Accept (level 1)
	putOK   bool
}

func (c *poolVConn) Close() error {
	c.closed.Store(true)
	return c.Conn.Close()
}

func (c *poolVConn) RemoteAddr() net.Addr {
	if c.entered != nil {
		c.once.Do(func() { close(c.entered) })
	}
	if c.gate != nil {
		<-c.gate
	}
	return &net.TCPAddr{IP: net.IPv4(127, 0, 0, 1), Port: c.port}
}

func (c *poolVConn) LocalAddr() net.Addr {
	return &net.TCPAddr{IP: net.IPv4(127, 0, 0, 1), Port: 7000}
}

func poolNewVConn(id string, port int, stall bool) *poolVConn {
	a, b := net.Pipe()
	c := &poolVConn{Conn: a, id: id, port: port, peer: b}
	if stall {
		c.gate, c.entered = make(chan struct{}), make(chan struct{})
	}
	go func() {
		buf := make([]byte, 256)
		for {
			if _, err := b.Read(buf); err != nil {
				c.peerEOF.Store(true)
				return
			}
		}
	}()
	return c
}

type poolVProxy struct {
	name    string
	pxy     proxy.Proxy
	mode    int
	stalled *poolVConn
	pending []*poolVConn // accepted by NewConn, outcome not yet reported
	closed  bool
}

type poolVL struct {
	l      *netpkg.InternalListener
	conns  map[string]*poolVConn
	order  []string
	exited bool

	rc      *controller.ResourceController
	pxys    map[string]*poolVProxy
	all     []*poolVConn
	mu      sync.Mutex
	byPort  map[int]*poolVConn
	nport   int
	workEnd []net.Conn

	gp *poolGP
}

var poolVl = &poolVL{}

func (v *poolVL) stopVP() {
	for _, p := range v.pxys {
		if p.stalled != nil {
			close(p.stalled.gate)
			p.stalled = nil
		}
		if !p.closed {
			p.pxy.Close()
		}
	}
	for _, c := range v.all {
		c.Conn.Close()
		c.peer.Close()
	}
	for _, w := range v.workEnd {
		w.Close()
	}
	v.pxys, v.all, v.workEnd, v.rc = nil, nil, nil, nil
}

func poolIDLess(a, b string) bool {
	if len(a) != len(b) {
		return len(a) < len(b)
	}
	return a < b
}

func (v *poolVL) census(p *poolVProxy) string {
	pend := p.pending
	p.pending = nil
	settled := func(c *poolVConn) bool { return c.bridged.Load() || c.closed.Load() || c.peerEOF.Load() }
	poolUntil(1500*time.Millisecond, func() bool {
		for _, c := range pend {
			if !settled(c) {
				return false
			}
		}
		return true
	})
	b, cl := 0, 0
	var open []string
	for _, c := range pend {
		switch {
		case c.bridged.Load():
			b++
		case c.closed.Load() || c.peerEOF.Load():
			cl++
		default:
			open = append(open, c.id)
		}
	}
	sort.Slice(open, func(i, j int) bool { return poolIDLess(open[i], open[j]) })
	return fmt.Sprintf("b=%d;c=%d;open=%s", b, cl, strings.Join(open, ","))
}

func poolVlExec(tok []string) string {
	v := poolVl
	// an op without its reset (shrunk replays) works on a fresh instance, as the model does
	if strings.HasPrefix(tok[0], "vl") && tok[0] != "vlnew" && v.l == nil {
		poolVlExec([]string{"vlnew"})
	}
	if strings.HasPrefix(tok[0], "vp") && tok[0] != "vpreset" && v.rc == nil {
		poolVlExec([]string{"vpreset"})
	}
	if strings.HasPrefix(tok[0], "gp") && tok[0] != "gpreset" && v.gp == nil {
		poolVlExec([]string{"gpreset"})
	}
	switch tok[0] {
	case "vlnew":
		for _, c := range v.conns {
			c.Conn.Close()
			c.peer.Close()
		}
		v.l, v.conns, v.order, v.exited = netpkg.NewInternalListener(), map[string]*poolVConn{}, nil, false
		return "-"
	case "vlput":
		if v.l == nil {
			return "nolsn"
		}
		c := poolNewVConn(tok[1], 40000, false)
		v.conns[tok[1]] = c
		v.order = append(v.order, tok[1])
		if err := v.l.PutConn(c); err != nil {
			c.Close() // the caller of NewConn (handleConnection) closes a refused connection
			return "err"
		}
		if c.closed.Load() {
			return "full"
		}
		c.putOK = true
		return "q"
	case "vlaccept":
		if v.l == nil {
			return "nolsn"
		}
		if v.exited {
			return "noloop"
		}
		type acc struct {
			c   net.Conn
			err error
		}
		ch := make(chan acc, 1)
		go func() {
			c, err := v.l.Accept()
			ch <- acc{c, err}
		}()
		select {
		case a := <-ch:
			if a.err != nil {
				v.exited = true
				var stranded []string
				for _, id := range v.order {
					if c := v.conns[id]; c.putOK && !c.taken && !c.closed.Load() {
						stranded = append(stranded, id)
					}
				}
				return "exit:" + strings.Join(stranded, ",")
			}
			if c, ok := a.c.(*poolVConn); ok {
				c.taken = true
				return "got:" + c.id
			}
			return "got:?"
		case <-time.After(500 * time.Millisecond):
			v.exited = true // the goroutine stays behind: this listener is not used any further
			return "block"
		}
	case "vlclose":
		if v.l == nil {
			return "nolsn"
		}
		v.l.Close()
		return "-"

	case "vpreset":
		v.stopVP()
		v.rc = &controller.ResourceController{VisitorManager: visitor.NewManager(), PluginManager: plugin.NewManager()}
		v.pxys, v.byPort, v.nport = map[string]*poolVProxy{}, map[int]*poolVConn{}, 41000
		return "-"
	case "vpnew":
		if v.rc == nil {
			return "norc"
		}
		name, mode := "vp-"+tok[1], atoi(tok[2])
		if p := v.pxys[tok[1]]; p != nil && !p.closed {
			return "err"
		}
		cfg := &v1.ServerConfig{}
		cfg.Complete()
		cfg.UserConnTimeout = 1
		pc := &v1.STCPProxyConfig{}
		pc.Name, pc.Type, pc.Secretkey, pc.AllowUsers = name, "stcp", "sk-"+tok[1], []string{"*"}
		p := &poolVProxy{name: name, mode: mode}
		fn := func() (net.Conn, error) {
			if p.mode == 0 {
				return nil, errors.New("control is already closed")
			}
			a, b := net.Pipe()
			v.mu.Lock()
			v.workEnd = append(v.workEnd, a, b)
			v.mu.Unlock()
			go func() {
				m, err := msg.ReadMsg(b)
				if err != nil {
					return
				}
				if sw, ok := m.(*msg.StartWorkConn); ok {
					v.mu.Lock()
					c := v.byPort[int(sw.SrcPort)]
					v.mu.Unlock()
					if c != nil {
						c.nameOK.Store(sw.ProxyName == name)
						c.bridged.Store(true)
					}
				}
				buf := make([]byte, 256)
				for {
					if _, err := b.Read(buf); err != nil {
						return
					}
				}
			}()
			return a, nil
		}
		pxy, err := proxy.NewProxy(context.Background(), &proxy.Options{
			UserInfo: plugin.UserInfo{User: "u"}, LoginMsg: &msg.Login{User: "u", RunID: "vp-run"}, PoolCount: 1,
			ResourceController: v.rc, GetWorkConnFn: fn, Configurer: pc, ServerCfg: cfg,
		})
		if err != nil {
			return "err"
		}
		if _, err := pxy.Run(); err != nil {
			return "err"
		}
		p.pxy = pxy
		v.pxys[tok[1]] = p
		return "ok"
	case "vpconn":
		if v.rc == nil {
			return "norc"
		}
		p := v.pxys[tok[1]]
		stall, auth := tok[3] == "1", tok[4] == "1"
		v.nport++
		c := poolNewVConn(tok[2], v.nport, stall && p != nil && p.stalled == nil && !p.closed)
		v.mu.Lock()
		v.byPort[c.port] = c
		v.mu.Unlock()
		v.all = append(v.all, c)
		ts := time.Now().Unix()
		sk := "sk-" + tok[1]
		if !auth {
			sk = "other"
		}
		if err := v.rc.VisitorManager.NewConn("vp-"+tok[1], c, ts, util.GetAuthKey(sk, ts), false, false, "someone"); err != nil {
			c.Close()
			return "err"
		}
		if p == nil {
			return "accepted?"
		}
		if p.stalled != nil {
			if c.closed.Load() {
				return "full"
			}
			p.pending = append(p.pending, c)
			return "Q"
		}
		if c.gate != nil {
			select {
			case <-c.entered:
				p.stalled = c
				p.pending = append(p.pending, c)
				return "stalled"
			case <-time.After(poolWait):
				close(c.gate)
				return "nostall"
			}
		}
		res := "stuck"
		poolUntil(poolWait, func() bool {
			if c.bridged.Load() {
				res = "B:" + map[bool]string{true: "n", false: "N"}[c.nameOK.Load()]
				return true
			}
			if c.closed.Load() || c.peerEOF.Load() {
				res = "C"
				return true
			}
			return false
		})
		return res
	case "vprelease", "vpclose":
		p := v.pxys[tok[1]]
		if p == nil {
			return "nopxy"
		}
		if tok[0] == "vpclose" {
			if p.closed {
				return "nopxy"
			}
			p.closed = true
			p.pxy.Close()
		}
		if p.stalled != nil {
			close(p.stalled.gate)
			p.stalled = nil
		}
		return v.census(p)
	}
	return poolGpExec(v, tok)
}

// ---------------------------------------------------------------- load-balancing group

type poolGPConn struct {
	id    string
	c     net.Conn
	laddr string
	eof   atomic.Bool
	got   bool
}

type poolGP struct {
	ctl   *group.TCPGroupCtl
	port  int
	lns   map[string]net.Listener
	conns map[string]*poolGPConn
	order []string
}

func (g *poolGP) stop() {
	for _, l := range g.lns {
		l.Close()
	}
	for _, c := range g.conns {
		c.c.Close()
	}
}

func poolGpExec(v *poolVL, tok []string) string {
	if tok[0] == "gpreset" {
		if v.gp != nil {
			v.gp.stop()
		}
		v.gp = &poolGP{ctl: group.NewTCPGroupCtl(ports.NewManager("tcp", "127.0.0.1", nil)),
			lns: map[string]net.Listener{}, conns: map[string]*poolGPConn{}}
		return "-"
	}
	g := v.gp
	if g == nil {
		return "nogp"
	}
	accept1 := func(l net.Listener, d time.Duration) (string, bool) {
		type acc struct {
			c   net.Conn
			err error
		}
		ch := make(chan acc, 1)
		go func() {
			c, err := l.Accept()
			ch <- acc{c, err}
		}()
		select {
		case a := <-ch:
			if a.err != nil {
				return "lclosed", false
			}
			for _, id := range g.order {
				if mc := g.conns[id]; mc.laddr == a.c.RemoteAddr().String() {
					mc.got = true
					a.c.Close() // the member's handler at least closes what it is given
					return "got:" + id, true
				}
			}
			a.c.Close()
			return "got:?", true
		case <-time.After(d):
			return "none", false
		}
	}
	switch tok[0] {
	case "gplisten":
		if _, ok := g.lns[tok[1]]; ok {
			return "err"
		}
		l, port, err := g.ctl.Listen("gp-"+tok[1], "g", "k", "127.0.0.1", 0)
		if err != nil {
			return "err"
		}
		g.port = port
		g.lns[tok[1]] = l
		return "ok"
	case "gpconn":
		if g.port == 0 {
			return "refused"
		}
		c, err := net.DialTimeout("tcp", net.JoinHostPort("127.0.0.1", strconv.Itoa(g.port)), poolWait)
		if err != nil {
			return "refused"
		}
		mc := &poolGPConn{id: tok[1], c: c, laddr: c.LocalAddr().String()}
		g.conns[tok[1]] = mc
		g.order = append(g.order, tok[1])
		go func() {
			buf := make([]byte, 64)
			for {
				if _, err := c.Read(buf); err != nil {
					mc.eof.Store(true)
					return
				}
			}
		}()
		if len(g.lns) == 0 {
			// nobody listens (the port may still accept for an instant while the group goes away)
			if poolUntil(poolWait, func() bool { return mc.eof.Load() }) {
				return "refused"
			}
			return "ok"
		}
		time.Sleep(2 * time.Millisecond) // kernel accept queue -> group worker
		return "ok"
	case "gpaccept":
		l := g.lns[tok[1]]
		if l == nil {
			return "nolsn"
		}
		r, _ := accept1(l, 600*time.Millisecond)
		return r
	case "gpclose":
		l := g.lns[tok[1]]
		if l == nil {
			return "nolsn"
		}
		delete(g.lns, tok[1])
		l.Close()
		if len(g.lns) > 0 {
			return "open="
		}
		// the last member's accept loop runs on until Accept fails, as startCommonTCPListenersHandler does
		for i := 0; i < 64; i++ {
			if _, ok := accept1(l, 300*time.Millisecond); !ok {
				break
			}
		}
		var pend []*poolGPConn
		for _, id := range g.order {
			if mc := g.conns[id]; !mc.got && !mc.eof.Load() {
				pend = append(pend, mc)
			}
		}
		poolUntil(1500*time.Millisecond, func() bool {
			for _, mc := range pend {
				if !mc.eof.Load() {
					return false
				}
			}
			return true
		})
		var open []string
		for _, mc := range pend {
			if !mc.eof.Load() {
				open = append(open, mc.id)
			}
		}
		g.port = 0
		return "open=" + strings.Join(open, ",")
	}
	return "badop"
}
