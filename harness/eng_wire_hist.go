package main

// Engine "wire" (C05), fourth part: HISTORIES of the TLS files on disk, and websocket peers with arbitrary upgrade
// requests.
//
// (1) frps while its certFile / keyFile / trustedCaFile are REPLACED on disk (renewal by the same CA, a certificate of
// another CA, another CA file, unparsable content, files removed, only one file of the pair replaced).  Several rigs
// (r=<id>) live side by side until `reset`; every rig has a directory of its own with its own copies of the files:
//
//	hstart r=<id> force=<0|1> sca=<0|1|2> scert=<0|1|2>   a real frps (tcp muxed plain / tls / websocket, kcp, quic) whose
//	                                                     trustedCaFile holds CA<sca> and whose certFile/keyFile hold a
//	                                                     certificate issued just now by CA<scert> (0: not configured)
//	    => up=1 | up=0
//	hrepl r=<id> what=<cert|ca> to=<1|2|bad|gone|half>     the file(s) are replaced (written beside + renamed, a strictly
//	                                                     newer modification time): 1|2 = issued just now by / the
//	                                                     certificate of that CA, bad = no PEM block, gone = removed,
//	                                                     half = only certFile replaced (key of the old pair)
//	    => -
//	hwait r=<id> ms=<n>                                  returns once n ms (at most 6000) have passed since the rig's last
//	                                                     hstart / hrepl (no sleep when they already have)
//	    => -
//	hprobe r=<id> proto=<tcp|ws|quic> tls=<0|1> custom=<0|1> ccert=<0|1|2> tok=<0|1>
//	                                                     the real client.NewConnector (no server verification) + a Login
//	    => up=1 | up=0 | up=0:loginerr                    (as op `cert`)
//
// (2) frpc's login attempts while ITS TLS files appear / disappear between attempts, through a recording relay:
//
//	lstart r=<id> tls=<0|1> custom=<0|1> mux=<0|1> ca=<none|ok|empty|gone> pair=<none|ok|bad|gone>
//	                                                     a relay in front of a real frps (not forcing, CA1 certificate
//	                                                     for 127.0.0.1) and a directory with the client's trustedCaFile
//	                                                     / certFile+keyFile in the given state (none: not configured)
//	    => -
//	lfile r=<id> what=<ca|pair> to=<ok|empty|bad|gone>    the file(s) change on disk
//	    => -
//	ltry r=<id>                                          ONE login attempt the way client.Service makes it: a fresh
//	                                                     client.NewConnector(ctx, cfg), Open, Connect, msg.Login (user =
//	                                                     a fresh crypto/rand marker), wait for the answer
//	    => conn=<connections the relay accepted during the attempt>;up=<0|1>;clear=<0|1>;seen=<0|1>
//	       clear: some connection of this attempt carried client bytes that are not a TLS record stream
//	       (optionally after the 0x17 byte); seen: the marker is readable in the capture
//	lsvc tls=1 custom=<0|1> mux=<0|1> what=<ca|pair>      a real client.Service (loginFailExit = false, one tcp proxy) started
//	                                                     while the file is MISSING; the file appears 150 ms later; the
//	                                                     op returns when the proxy runs (at most 4 s)
//	    => up=<0|1>;clear=<0|1>;seen=<0|1>
//
// (3) websocket peers with arbitrary upgrade requests:
//
//	wsraw force=<0|1> b=<n> hdr=<hex of "Name: value" lines>   a peer without TLS upgrades "GET /~!frp" on the bind port of
//	                                                     a real frps (tcpMux off) with those extra request headers and
//	                                                     sends byte b + the rest of a valid Login frame
//	    => resp=<type byte|none|timeout> | resp=noupgrade

import (
	"bytes"
	"context"
	crand "crypto/rand"
	"encoding/binary"
	"encoding/hex"
	"fmt"
	"io"
	"math/rand"
	"net"
	"net/http"
	"os"
	"path/filepath"
	"strconv"
	"strings"
	"time"

	"golang.org/x/net/websocket"

	"github.com/fatedier/frp/client"
	"github.com/fatedier/frp/pkg/auth"
	v1 "github.com/fatedier/frp/pkg/config/v1"
	"github.com/fatedier/frp/pkg/msg"
)

// ---------------------------------------------------------------- (1) server-side file histories

type wireHRig struct {
	dir                       string
	srv                       *wireSrv
	caFile, certFile, keyFile string
	lastEvent                 time.Time
	serial                    int64
}

var wireHRigs = map[string]*wireHRig{}
var wireHSerial int64 = 5000

func wireHClose() {
	for k, r := range wireHRigs {
		if r.srv != nil {
			r.srv.stop()
			_ = r.srv.svr.Close()
		}
		_ = os.RemoveAll(r.dir)
		delete(wireHRigs, k)
	}
	for k, r := range wireLRigs {
		r.relay.close()
		_ = os.RemoveAll(r.dir)
		delete(wireLRigs, k)
	}
}

// write `data` beside `path` and rename it into place; the modification time is strictly later than the one of
// the file it replaces (and than `after`)
func wireReplaceFile(path string, data []byte, after time.Time) {
	var prev time.Time
	if fi, err := os.Stat(path); err == nil {
		prev = fi.ModTime()
	}
	if after.After(prev) {
		prev = after
	}
	tmp := path + ".new"
	if err := os.WriteFile(tmp, data, 0o600); err != nil {
		panic(err)
	}
	mt := time.Now()
	if !mt.After(prev.Add(5 * time.Millisecond)) {
		mt = prev.Add(10 * time.Millisecond)
	}
	if err := os.Chtimes(tmp, mt, mt); err != nil {
		panic(err)
	}
	if err := os.Rename(tmp, path); err != nil {
		panic(err)
	}
}

// a server certificate issued now by CA <ca> (1|2) for frps.test / 127.0.0.1: PEM of certificate and key
func wireIssueServerPair(ca int) ([]byte, []byte) {
	pki := wireGetPKI()
	dir, err := os.MkdirTemp("", "c05issue")
	if err != nil {
		panic(err)
	}
	defer os.RemoveAll(dir)
	wireHSerial++
	cp, kp := wireMakeServerLeaf(dir, "srv", wireHSerial, pki.caCert[ca-1], pki.caKey[ca-1], []string{"frps.test"}, []net.IP{net.IPv4(127, 0, 0, 1)})
	c, _ := os.ReadFile(cp)
	k, _ := os.ReadFile(kp)
	return c, k
}

func wireCAPem(ca int) []byte {
	pki := wireGetPKI()
	b, err := os.ReadFile([]string{pki.ca1, pki.ca2}[ca-1])
	if err != nil {
		panic(err)
	}
	return b
}

var wireNoPEM = []byte("this file is being written\n")

func wireHStart(kv map[string]string) string {
	id := kv["r"]
	if old, ok := wireHRigs[id]; ok {
		old.srv.stop()
		_ = old.srv.svr.Close()
		_ = os.RemoveAll(old.dir)
		delete(wireHRigs, id)
	}
	sca, scert := atoi(kv["sca"]), atoi(kv["scert"])
	if sca < 0 || sca > 2 || scert < 0 || scert > 2 {
		return "badop"
	}
	dir, err := os.MkdirTemp("", "c05hist")
	if err != nil {
		panic(err)
	}
	r := &wireHRig{dir: dir}
	if sca != 0 {
		r.caFile = filepath.Join(dir, "ca.crt")
		wireReplaceFile(r.caFile, wireCAPem(sca), time.Time{})
	}
	if scert != 0 {
		r.certFile, r.keyFile = filepath.Join(dir, "server.crt"), filepath.Join(dir, "server.key")
		c, k := wireIssueServerPair(scert)
		wireReplaceFile(r.certFile, c, time.Time{})
		wireReplaceFile(r.keyFile, k, time.Time{})
	}
	srv, err := wireStartServerFiles(wireB(kv["force"]), r.caFile, r.certFile, r.keyFile, true, wireCertToken, 0)
	if err != nil {
		_ = os.RemoveAll(dir)
		return "up=0"
	}
	r.srv = srv
	r.lastEvent = time.Now()
	wireHRigs[id] = r
	return "up=1"
}

func wireHRepl(kv map[string]string) string {
	r := wireHRigs[kv["r"]]
	if r == nil {
		return "norig"
	}
	to := kv["to"]
	switch kv["what"] {
	case "cert":
		if r.certFile == "" {
			return "-" // no certificate files configured: nothing to renew
		}
		switch to {
		case "1", "2":
			c, k := wireIssueServerPair(atoi(to))
			wireReplaceFile(r.certFile, c, r.lastEvent)
			wireReplaceFile(r.keyFile, k, r.lastEvent)
		case "half":
			c, _ := wireIssueServerPair(1)
			wireReplaceFile(r.certFile, c, r.lastEvent)
		case "bad":
			wireReplaceFile(r.certFile, wireNoPEM, r.lastEvent)
			wireReplaceFile(r.keyFile, wireNoPEM, r.lastEvent)
		case "gone":
			_ = os.Remove(r.certFile)
			_ = os.Remove(r.keyFile)
		default:
			return "badop"
		}
	case "ca":
		if r.caFile == "" {
			return "-"
		}
		switch to {
		case "1", "2":
			wireReplaceFile(r.caFile, wireCAPem(atoi(to)), r.lastEvent)
		case "bad":
			wireReplaceFile(r.caFile, wireNoPEM, r.lastEvent)
		case "gone":
			_ = os.Remove(r.caFile)
		default:
			return "badop"
		}
	default:
		return "badop"
	}
	r.lastEvent = time.Now()
	return "-"
}

func wireHWait(kv map[string]string) string {
	r := wireHRigs[kv["r"]]
	if r == nil {
		return "norig"
	}
	ms := atoi(kv["ms"])
	if ms > 6000 {
		ms = 6000
	}
	if d := time.Until(r.lastEvent.Add(time.Duration(ms) * time.Millisecond)); d > 0 {
		time.Sleep(d)
	}
	return "-"
}

func wireHProbe(kv map[string]string) string {
	r := wireHRigs[kv["r"]]
	if r == nil {
		return "norig"
	}
	switch kv["proto"] {
	case "tcp", "ws", "quic":
	default:
		return "badproto"
	}
	kv2 := map[string]string{"tls": kv["tls"], "custom": kv["custom"], "cca": "0", "sn": "0", "ccert": kv["ccert"],
		"proto": kv["proto"], "tok": kv["tok"]}
	return wireCertAgainst(r.srv, kv2)
}

// the class: a server configuration (mostly with a trusted CA and configured certificate files), probes of every
// kind, then 1-3 rounds of [replacement(s) of the certificate pair and / or the CA file, an optional wait, probes];
// the long wait (>= 5 s, one per sequence) sits in a rig that is started first and probed last, so that the time
// passes while the other rigs are exercised
func wireGenHist(rng *rand.Rand, n int, emit func(string)) (tail func()) {
	protos := []string{"tcp", "ws", "quic"}
	probes := func(id string, k int) {
		// always: a peer with the certificate of each CA, a TLS peer without certificate, a peer without TLS
		base := []string{"tls=1 ccert=1", "tls=1 ccert=0", "tls=1 ccert=2", "tls=0 ccert=0"}
		for i := 0; i < k; i++ {
			b := base[i%len(base)]
			if i >= len(base) {
				b = fmt.Sprintf("tls=%d ccert=%d", wireBit(rng.Intn(5) != 0), rng.Intn(3))
			}
			emit(fmt.Sprintf("hprobe r=%s proto=%s %s custom=%d tok=%d", id, protos[rng.Intn(len(protos))], b, rng.Intn(2), wireBit(rng.Intn(6) != 0)))
		}
	}
	repl := func(id string) {
		switch rng.Intn(10) {
		case 0, 1, 2, 3:
			emit(fmt.Sprintf("hrepl r=%s what=cert to=1", id)) // renewal by the same CA
		case 4:
			emit(fmt.Sprintf("hrepl r=%s what=cert to=%s", id, pick(rng, []string{"2", "bad", "gone", "half"})))
		case 5, 6:
			emit(fmt.Sprintf("hrepl r=%s what=ca to=%s", id, pick(rng, []string{"1", "2", "2", "bad", "gone"})))
		default:
			emit(fmt.Sprintf("hrepl r=%s what=cert to=%s", id, pick(rng, []string{"1", "1", "2"})))
			emit(fmt.Sprintf("hrepl r=%s what=ca to=%s", id, pick(rng, []string{"1", "2", "gone"})))
		}
	}
	start := func(id string, long bool) {
		sca, scert := 1, 1
		if !long {
			if rng.Intn(4) == 0 {
				sca = pick(rng, []int{0, 2})
			}
			if rng.Intn(5) == 0 {
				scert = pick(rng, []int{0, 2})
			}
		}
		emit(fmt.Sprintf("hstart r=%s force=%d sca=%d scert=%d", id, rng.Intn(2), sca, scert))
	}
	// the rig with the long wait: started and renewed first ...
	start("L", true)
	probes("L", 4)
	emit("hrepl r=L what=cert to=1")
	probes("L", 3)
	// ... the others in between ...
	rigs := n / 300
	if rigs < 4 {
		rigs = 4
	}
	for h := 0; h < rigs; h++ {
		id := fmt.Sprintf("h%d", h)
		start(id, false)
		probes(id, 4)
		rounds := 1 + rng.Intn(3)
		for k := 0; k < rounds; k++ {
			repl(id)
			if rng.Intn(2) == 0 {
				emit(fmt.Sprintf("hwait r=%s ms=%d", id, pick(rng, []int{1, 20, 120, 300})))
			}
			probes(id, 4+rng.Intn(3))
		}
	}
	// ... and probed once the files have been on disk for more than five seconds, twice (a reload that is
	// triggered by a handshake serves later handshakes); the caller emits this part after the other rigs of the
	// sequence so that most of the time has passed by then
	return func() {
		emit(fmt.Sprintf("hwait r=L ms=%d", 5100+rng.Intn(500)))
		probes("L", 6)
		if rng.Intn(2) == 0 {
			emit(fmt.Sprintf("hrepl r=L what=%s", pick(rng, []string{"ca to=2", "cert to=2", "cert to=bad", "ca to=gone"})))
		}
		probes("L", 5)
	}
}

// ---------------------------------------------------------------- (2) client-side login attempts

type wireLRig struct {
	dir                       string
	relay                     *wireRelay
	srv                       *wireSrv
	tlsOn, custom, mux        bool
	caFile, certFile, keyFile string
}

var wireLRigs = map[string]*wireLRig{}

func wireLSetFile(r *wireLRig, what, to string) bool {
	pki := wireGetPKI()
	cp := func(dst, src string) {
		b, err := os.ReadFile(src)
		if err != nil {
			panic(err)
		}
		wireReplaceFile(dst, b, time.Time{})
	}
	switch what {
	case "ca":
		if r.caFile == "" {
			return true
		}
		switch to {
		case "ok":
			cp(r.caFile, pki.ca1)
		case "empty", "bad":
			wireReplaceFile(r.caFile, wireNoPEM, time.Time{})
		case "gone":
			_ = os.Remove(r.caFile)
		default:
			return false
		}
	case "pair":
		if r.certFile == "" {
			return true
		}
		switch to {
		case "ok":
			cp(r.certFile, pki.cli1Cert)
			cp(r.keyFile, pki.cli1Key)
		case "bad", "empty":
			wireReplaceFile(r.certFile, wireNoPEM, time.Time{})
			cp(r.keyFile, pki.cli1Key)
		case "gone":
			_ = os.Remove(r.certFile)
			_ = os.Remove(r.keyFile)
		default:
			return false
		}
	default:
		return false
	}
	return true
}

func wireLNew(kv map[string]string) *wireLRig {
	dir, err := os.MkdirTemp("", "c05login")
	if err != nil {
		panic(err)
	}
	r := &wireLRig{dir: dir, tlsOn: wireB(kv["tls"]), custom: wireB(kv["custom"]), mux: wireB(kv["mux"])}
	r.srv = wireCachedServerSan(false, false, "11", r.mux)
	r.relay = wireNewRelay(net.JoinHostPort("127.0.0.1", strconv.Itoa(r.srv.port)))
	return r
}

func wireLStart(kv map[string]string) string {
	id := kv["r"]
	if old, ok := wireLRigs[id]; ok {
		old.relay.close()
		_ = os.RemoveAll(old.dir)
		delete(wireLRigs, id)
	}
	r := wireLNew(kv)
	if kv["ca"] != "none" {
		r.caFile = filepath.Join(r.dir, "ca.crt")
		if !wireLSetFile(r, "ca", kv["ca"]) {
			return "badop"
		}
	}
	if kv["pair"] != "none" {
		r.certFile, r.keyFile = filepath.Join(r.dir, "client.crt"), filepath.Join(r.dir, "client.key")
		if !wireLSetFile(r, "pair", kv["pair"]) {
			return "badop"
		}
	}
	wireLRigs[id] = r
	return "-"
}

func wireLFile(kv map[string]string) string {
	r := wireLRigs[kv["r"]]
	if r == nil {
		return "norig"
	}
	if !wireLSetFile(r, kv["what"], kv["to"]) {
		return "badop"
	}
	return "-"
}

func (r *wireLRig) common(user string) *v1.ClientCommonConfig {
	ccfg := &v1.ClientCommonConfig{}
	ccfg.ServerAddr = "127.0.0.1"
	ccfg.ServerPort = r.relay.port()
	ccfg.User = user
	ccfg.Auth.Token = wireCertToken
	en, dis, mux := r.tlsOn, !r.custom, r.mux
	ccfg.Transport.TLS.Enable = &en
	ccfg.Transport.TLS.DisableCustomTLSFirstByte = &dis
	ccfg.Transport.TCPMux = &mux
	ccfg.Transport.TLS.TrustedCaFile = r.caFile
	ccfg.Transport.TLS.CertFile, ccfg.Transport.TLS.KeyFile = r.certFile, r.keyFile
	f := false
	ccfg.LoginFailExit = &f
	ccfg.Complete()
	return ccfg
}

// is b a stream of TLS records (optionally after frp's 0x17 byte)?  Every record: type 20..23, version 3.x, length.
func wireIsTLSStream(b []byte) bool {
	if len(b) > 0 && b[0] == 0x17 && len(b) > 1 && b[1] == 0x16 {
		b = b[1:]
	} else if len(b) == 1 && b[0] == 0x17 {
		return true
	}
	for len(b) > 0 {
		if len(b) < 5 {
			return b[0] >= 20 && b[0] <= 23
		}
		if b[0] < 20 || b[0] > 23 || b[1] != 3 {
			return false
		}
		n := int(binary.BigEndian.Uint16(b[3:5]))
		if len(b) < 5+n {
			return true
		}
		b = b[5+n:]
	}
	return true
}

// what the relay saw on the connections it accepted from index `from` on
func (r *wireRelay) since(from int, marker string) (conns int, clear, seen bool) {
	r.mu.Lock()
	defer r.mu.Unlock()
	m := []byte(marker)
	for _, s := range r.streams[from:] {
		conns++
		if !wireIsTLSStream(s.c2s.Bytes()) {
			clear = true
		}
		if bytes.Contains(s.c2s.Bytes(), m) || bytes.Contains(s.s2c.Bytes(), m) {
			seen = true
		}
	}
	return
}

func (r *wireRelay) nStreams() int {
	r.mu.Lock()
	defer r.mu.Unlock()
	return len(r.streams)
}

func (r *wireRelay) settleTotal() {
	last := -1
	for i := 0; i < 40; i++ {
		t := r.total()
		if t == last {
			return
		}
		last = t
		time.Sleep(10 * time.Millisecond)
	}
}

func wireLTry(kv map[string]string) string {
	r := wireLRigs[kv["r"]]
	if r == nil {
		return "norig"
	}
	marker := wireMarker("L")
	from := r.relay.nStreams()
	up := 0
	func() {
		ctx, cancel := context.WithCancel(context.Background())
		defer cancel()
		cn := client.NewConnector(ctx, r.common(marker))
		defer cn.Close()
		if err := cn.Open(); err != nil {
			return
		}
		conn, err := cn.Connect()
		if err != nil {
			return
		}
		defer conn.Close()
		l := &msg.Login{Version: "0.61.0", Timestamp: time.Now().Unix(), User: marker}
		_ = auth.NewTokenAuth(nil, wireCertToken).SetLogin(l)
		_ = conn.SetDeadline(time.Now().Add(3 * time.Second))
		if err := msg.WriteMsg(conn, l); err != nil {
			return
		}
		var resp msg.LoginResp
		if err := msg.ReadMsgInto(conn, &resp); err == nil && resp.Error == "" {
			up = 1
		}
	}()
	r.relay.settleTotal()
	conns, clear, seen := r.relay.since(from, marker)
	return fmt.Sprintf("conn=%d;up=%d;clear=%d;seen=%d", conns, up, wireBit(clear), wireBit(seen))
}

// a real client.Service that starts while one of its TLS files is missing (loginFailExit = false): the first login
// attempt fails, the file appears, a later attempt of the service's own retry loop succeeds
func wireLSvc(kv map[string]string) string {
	r := wireLNew(kv)
	defer func() { r.relay.close(); _ = os.RemoveAll(r.dir) }()
	what := kv["what"]
	switch what {
	case "ca":
		r.caFile = filepath.Join(r.dir, "ca.crt")
	case "pair":
		r.certFile, r.keyFile = filepath.Join(r.dir, "client.crt"), filepath.Join(r.dir, "client.key")
	default:
		return "badop"
	}
	marker := wireMarker("U")
	backend, bport := wireEchoBackend()
	defer backend.Close()
	ccfg := r.common(marker)
	tcp := &v1.TCPProxyConfig{}
	tcp.Name, tcp.Type = "c05l", "tcp"
	tcp.LocalIP, tcp.LocalPort = "127.0.0.1", bport
	tcp.RemotePort = freeTCPPort()
	tcp.Complete(marker)
	cli, err := client.NewService(client.ServiceOptions{Common: ccfg, ProxyCfgs: []v1.ProxyConfigurer{tcp}})
	if err != nil {
		panic(err)
	}
	runErr := make(chan error, 1)
	go func() { runErr <- cli.Run(context.Background()) }()
	defer cli.Close()
	time.Sleep(150 * time.Millisecond)
	wireLSetFile(r, what, "ok")
	up := 0
	deadline := time.Now().Add(4 * time.Second)
wait:
	for time.Now().Before(deadline) {
		select {
		case <-runErr:
			break wait
		default:
		}
		if st, ok := cli.StatusExporter().GetProxyStatus(tcp.Name); ok && st.Phase == "running" {
			up = 1
			break
		}
		time.Sleep(10 * time.Millisecond)
	}
	pay := wireMarker("Y")
	if up == 1 && !wireRoundTripWithin(tcp.RemotePort, pay, 2*time.Second) {
		up = 0
	}
	r.relay.settleTotal()
	_, clear, seen := r.relay.since(0, marker)
	if r.relay.contains(pay) {
		seen = true
	}
	return fmt.Sprintf("up=%d;clear=%d;seen=%d", up, wireBit(clear), wireBit(seen))
}

// the class: a client configuration (TLS mostly on; with a trusted CA and / or a certificate pair), the files in any
// state at the first attempt (often missing or unparsable: the volume is not mounted yet, the file is mid-rotation),
// then 2-5 rounds of [file change, 1-2 login attempts]
func wireGenLogin(rng *rand.Rand, n int, emit func(string)) {
	rigs := n / 150
	if rigs < 8 {
		rigs = 8
	}
	caStates := []string{"ok", "gone", "gone", "empty"}
	pairStates := []string{"ok", "gone", "bad"}
	for h := 0; h < rigs; h++ {
		id := fmt.Sprintf("l%d", h)
		ca, pair := "none", "none"
		switch rng.Intn(4) {
		case 0:
			ca = pick(rng, caStates)
		case 1:
			pair = pick(rng, pairStates)
		default:
			ca, pair = pick(rng, caStates), pick(rng, pairStates)
		}
		if h%2 == 0 && ca != "none" {
			ca = "gone" // the start-up fault
		}
		emit(fmt.Sprintf("lstart r=%s tls=%d custom=%d mux=%d ca=%s pair=%s", id, wireBit(rng.Intn(8) != 0), rng.Intn(2), rng.Intn(2), ca, pair))
		emit("ltry r=" + id)
		if rng.Intn(3) == 0 {
			emit("ltry r=" + id)
		}
		rounds := 2 + rng.Intn(4)
		for k := 0; k < rounds; k++ {
			if rng.Intn(2) == 0 && ca != "none" || pair == "none" {
				if ca != "none" {
					emit(fmt.Sprintf("lfile r=%s what=ca to=%s", id, pick(rng, caStates)))
				}
			} else {
				emit(fmt.Sprintf("lfile r=%s what=pair to=%s", id, pick(rng, pairStates)))
			}
			emit("ltry r=" + id)
			if rng.Intn(4) == 0 {
				emit("ltry r=" + id)
			}
		}
	}
	emit(fmt.Sprintf("lsvc tls=1 custom=%d mux=%d what=%s", rng.Intn(2), rng.Intn(2), pick(rng, []string{"ca", "ca", "pair"})))
}

// ---------------------------------------------------------------- (3) websocket peers with arbitrary upgrade requests

// request headers a reverse proxy / TLS terminator in front of frps would add (and a peer can forge), by kind
var (
	wireWsSchemeHdrs = []string{"X-Forwarded-Proto", "X-Forwarded-Protocol", "X-Forwarded-Scheme", "X-Url-Scheme", "X-Scheme",
		"Cloudfront-Forwarded-Proto", "X-Forwarded-Proto-Version"}
	wireWsSchemeVals = []string{"https", "HTTPS", " https ", "wss", "http", "ws", "https, http", "h2"}
	wireWsFlagHdrs   = []string{"X-Forwarded-Ssl", "Front-End-Https", "X-Forwarded-Tls", "X-Arr-Ssl", "X-Tls", "X-Frp-Tls", "X-Https", "Https"}
	wireWsFlagVals   = []string{"on", "ON", "1", "true", "yes"}
	wireWsFwdVals    = []string{"proto=https", "for=127.0.0.1;proto=https;by=10.0.0.1", "for=\"[::1]\";PROTO=HTTPS", "proto=http"}
	wireWsOtherHdrs  = []string{"X-Forwarded-For", "X-Forwarded-Host", "X-Forwarded-Port", "X-Real-Ip", "X-Forwarded-Client-Cert",
		"X-Ssl-Client-Verify", "X-Client-Verify", "Ssl-Client-Verify", "X-Ssl-Client-Dn", "Upgrade-Insecure-Requests", "Via", "Cf-Visitor",
		"Authorization", "X-Frp-Internal"}
	wireWsOtherVals = []string{"127.0.0.1", "frps.test", "443", "SUCCESS", "NONE", "1", "{\"scheme\":\"https\"}", "1.1 terminator",
		"Subject=\"CN=cli1\"", "CN=cli1", "Bearer " + wireCertToken, "TLSv1.3"}
)

// the class: every (header that states the scheme / a TLS flag / RFC 7239 Forwarded) x (every value of its kind) alone
// against a forcing frps with a well-formed Login behind it (exhaustive), then generated mixes of 1-3 headers of any
// kind (names also in lower / upper case), other first bytes, forcing and non-forcing servers
func wireGenWsRaw(rng *rand.Rand, n int, emit func(string)) {
	one := func(force, b int, lines []string) {
		emit(fmt.Sprintf("wsraw force=%d b=%d hdr=%s", force, b, hx(strings.Join(lines, "\n"))))
	}
	one(1, 0x6f, nil)
	one(0, 0x6f, nil)
	for _, h := range wireWsSchemeHdrs {
		for _, v := range wireWsSchemeVals {
			one(1, 0x6f, []string{h + ": " + v})
		}
	}
	for _, h := range wireWsFlagHdrs {
		for _, v := range wireWsFlagVals {
			one(1, 0x6f, []string{h + ": " + v})
		}
	}
	for _, v := range wireWsFwdVals {
		one(1, 0x6f, []string{"Forwarded: " + v})
	}
	anyLine := func() string {
		var name, val string
		switch rng.Intn(4) {
		case 0:
			name, val = pick(rng, wireWsSchemeHdrs), pick(rng, wireWsSchemeVals)
		case 1:
			name, val = pick(rng, wireWsFlagHdrs), pick(rng, wireWsFlagVals)
		case 2:
			name, val = "Forwarded", pick(rng, wireWsFwdVals)
		default:
			name, val = pick(rng, wireWsOtherHdrs), pick(rng, wireWsOtherVals)
		}
		if rng.Intn(6) == 0 {
			name = pick(rng, []func(string) string{strings.ToLower, strings.ToUpper})(name)
		}
		if rng.Intn(10) == 0 {
			val = pick(rng, wireWsOtherVals)
		}
		return name + ": " + val
	}
	k := n / 40
	if k < 60 {
		k = 60
	}
	for i := 0; i < k; i++ {
		var lines []string
		for j := 0; j < 1+rng.Intn(3); j++ {
			lines = append(lines, anyLine())
		}
		b := 0x6f
		if rng.Intn(5) == 0 {
			b = pick(rng, []int{0x76, 0x77, 0x00, 0x47, 0x31})
		}
		one(wireBit(rng.Intn(5) != 0), b, lines)
	}
}

func wireWsRaw(kv map[string]string) string {
	s := wireCachedServer(wireB(kv["force"]), false, false, false)
	b := atoi(kv["b"])
	l := &msg.Login{Version: "0.61.0", Timestamp: time.Now().Unix(), PoolCount: 0}
	_ = auth.NewTokenAuth(nil, wireCertToken).SetLogin(l)
	var buf bytes.Buffer
	if err := msg.WriteMsg(&buf, l); err != nil {
		panic(err)
	}
	frame := buf.Bytes()
	frame[0] = byte(b)
	addr := net.JoinHostPort("127.0.0.1", strconv.Itoa(s.port))
	c, err := net.DialTimeout("tcp", addr, 3*time.Second)
	if err != nil {
		return "dialerr"
	}
	defer c.Close()
	cfg, err := websocket.NewConfig("ws://"+addr+netpkgWebsocketPath, "http://"+addr)
	if err != nil {
		panic(err)
	}
	cfg.Header = http.Header{}
	for _, ln := range strings.Split(unhx(kv["hdr"]), "\n") {
		if i := strings.Index(ln, ": "); i > 0 {
			cfg.Header[ln[:i]] = append(cfg.Header[ln[:i]], ln[i+2:]) // the name exactly as generated
		}
	}
	_ = c.SetDeadline(time.Now().Add(3 * time.Second))
	ws, err := websocket.NewClient(cfg, c)
	if err != nil {
		return "resp=noupgrade"
	}
	ws.PayloadType = websocket.BinaryFrame
	if _, err := ws.Write(frame); err != nil {
		return "resp=none"
	}
	_ = c.SetReadDeadline(time.Now().Add(3 * time.Second))
	hdr := make([]byte, 9)
	if _, err := io.ReadFull(ws, hdr); err != nil {
		if ne, ok := err.(net.Error); ok && ne.Timeout() {
			return "resp=timeout"
		}
		return "resp=none"
	}
	nb := binary.BigEndian.Uint64(hdr[1:])
	if nb > 10240 {
		return "resp=none"
	}
	body := make([]byte, nb)
	if _, err := io.ReadFull(ws, body); err != nil {
		return "resp=none"
	}
	if len(body) == 0 || body[0] != '{' {
		return "resp=none"
	}
	return fmt.Sprintf("resp=%d", hdr[0])
}

const netpkgWebsocketPath = "/~!frp"

var _ = hex.EncodeToString
var _ = crand.Reader
