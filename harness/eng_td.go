// Engine "td" (C14): does a real frpc get through the teardown of a lost session and log in again?
//
//	tdstart ID N HC CUTS      real frpc (client.NewService, tcpMux off, heartbeats 1 s / 3 s) with N tcp proxies against a
//	                          scripted raw server that accepts every login, answers every NewProxy and every Ping, and cuts
//	                          the control connection CUTS[k] ms after the k-th login (CUTS = a/b/c).
//	                          HC = 0: plain proxies; 1: every proxy has a tcp health check on a port that answers;
//	                          2: … on a port nobody listens on (check goroutine: 500 ms sleep, then its 3 s rounds)
//	tdwait ID                 => n=N hc=HC L<gap>:<regs>,…[,stuck]   one entry per login that arrived: ms since the previous
//	                          connection was cut (since the start for the first), NewProxy messages received on it until
//	                          its cut (for the last login: within 900 ms); `stuck` = no login within tdLoginWait after a
//	                          cut: Control.worker() never closed doneCh, keepControllerWorking never logs in again
//
// What is decided on the Lean side: after every cut the next login must arrive (the session's teardown finished) within
// the re-login bound of the back-off model; the model of the teardown (Frp/Model/Teardown.lean, parameters from the
// source) must predict the same.
package main

import (
	"context"
	"fmt"
	"math/rand"
	"net"
	"strings"
	"sync"
	"time"

	"github.com/fatedier/frp/client"
	v1 "github.com/fatedier/frp/pkg/config/v1"
	"github.com/fatedier/frp/pkg/msg"
	netpkg "github.com/fatedier/frp/pkg/util/net"
	"github.com/fatedier/frp/pkg/util/version"
)

// a login that has not arrived this long after a cut will not come (the back-off asks for at most ~1.1 s here)
const tdLoginWait = 3 * time.Second

type tdEngine struct {
	mu   sync.Mutex
	jobs map[string]chan string
}

var tdeng = &tdEngine{jobs: map[string]chan string{}}

var (
	tdLiveOnce sync.Once
	tdLivePort int
)

// a local port that accepts (and drops) connections: the health checks of HC = 1 succeed
func tdLive() int {
	tdLiveOnce.Do(func() {
		l, err := net.Listen("tcp", "127.0.0.1:0")
		if err != nil {
			panic(err)
		}
		tdLivePort = l.Addr().(*net.TCPAddr).Port
		go func() {
			for {
				c, err := l.Accept()
				if err != nil {
					return
				}
				c.Close()
			}
		}()
	})
	return tdLivePort
}

func tdProxies(n, hc int) []v1.ProxyConfigurer {
	out := []v1.ProxyConfigurer{}
	local := 9
	switch hc {
	case 1:
		local = tdLive()
	case 2:
		local = freePort()
	}
	for i := 0; i < n; i++ {
		c := &v1.TCPProxyConfig{}
		c.Name = fmt.Sprintf("p%03d", i)
		c.Type = "tcp"
		c.LocalIP = "127.0.0.1"
		c.LocalPort = local
		c.RemotePort = 31000 + i
		if hc > 0 {
			c.HealthCheck.Type = "tcp"
			c.HealthCheck.TimeoutSeconds = 1
			c.HealthCheck.IntervalSeconds = 1
		}
		c.Complete("")
		out = append(out, c)
	}
	return out
}

func runTd(n, hc int, cuts []int) string {
	l, err := net.Listen("tcp", "127.0.0.1:0")
	if err != nil {
		return "infra-listen"
	}
	defer l.Close()
	cfg := &v1.ClientCommonConfig{}
	cfg.ServerAddr = "127.0.0.1"
	cfg.ServerPort = l.Addr().(*net.TCPAddr).Port
	cfg.Auth.Token = waitToken
	f := false
	cfg.Transport.TCPMux = &f
	cfg.Transport.HeartbeatInterval = 1
	cfg.Transport.HeartbeatTimeout = 3
	cfg.Transport.TLS.Enable = &f
	cfg.LoginFailExit = &f
	cfg.Complete()
	svc, err := client.NewService(client.ServiceOptions{Common: cfg, ProxyCfgs: tdProxies(n, hc)})
	if err != nil {
		return "infra-newservice"
	}
	ctx, cancel := context.WithCancel(context.Background())
	go func() { _ = svc.Run(ctx) }()
	// a wedged teardown holds the proxy manager's lock: Close() would wait for it for ever
	defer func() { cancel(); go svc.Close() }()

	arrivals := make(chan cwArrival, 8)
	stop := make(chan struct{})
	defer close(stop)
	go func() {
		for {
			conn, err := l.Accept()
			if err != nil {
				return
			}
			go func() {
				_ = conn.SetReadDeadline(time.Now().Add(5 * time.Second))
				m, err := msg.ReadMsg(conn)
				_ = conn.SetReadDeadline(time.Time{})
				if _, isLogin := m.(*msg.Login); err != nil || !isLogin {
					conn.Close()
					return
				}
				select {
				case arrivals <- cwArrival{conn, time.Now()}:
				case <-stop:
					conn.Close()
				}
			}()
		}
	}()

	var out []string
	prevEnd := time.Now()
	for k := 0; k <= len(cuts); k++ {
		var a cwArrival
		select {
		case a = <-arrivals:
		case <-time.After(tdLoginWait):
		}
		if a.conn == nil {
			out = append(out, "stuck")
			break
		}
		gap := a.at.Sub(prevEnd).Milliseconds()
		if gap < 0 {
			gap = 0
		}
		conn := a.conn
		_ = msg.WriteMsg(conn, &msg.LoginResp{Version: version.Full(), RunID: "verifrun"})
		tLogin := time.Now()
		rw, err := netpkg.NewCryptoReadWriter(conn, []byte(waitToken))
		if err != nil {
			conn.Close()
			return "infra-crypto"
		}
		var mu sync.Mutex
		regs := 0
		readDone := make(chan struct{})
		go func() {
			defer close(readDone)
			for {
				m, err := msg.ReadMsg(rw)
				if err != nil {
					return
				}
				switch mm := m.(type) {
				case *msg.Ping:
					_ = msg.WriteMsg(rw, &msg.Pong{})
				case *msg.NewProxy:
					mu.Lock()
					regs++
					mu.Unlock()
					_ = msg.WriteMsg(rw, &msg.NewProxyResp{ProxyName: mm.ProxyName, RemoteAddr: fmt.Sprintf(":%d", mm.RemotePort)})
				}
			}
		}()
		life := 900 * time.Millisecond // the last session: long enough for every check goroutine's first round
		if k < len(cuts) {
			life = time.Duration(cuts[k]) * time.Millisecond
		}
		select {
		case <-readDone: // the client left on its own
		case <-time.After(time.Until(tLogin.Add(life))):
		}
		prevEnd = time.Now()
		conn.Close()
		<-readDone
		mu.Lock()
		out = append(out, fmt.Sprintf("L%d:%d", gap, regs))
		mu.Unlock()
	}
	return fmt.Sprintf("n=%d hc=%d %s", n, hc, strings.Join(out, ","))
}

func (w *tdEngine) exec(tok []string) string {
	quietOnce.Do(quietFrp)
	switch tok[0] {
	case "reset":
		return "-"
	case "tdstart":
		id, n, hc := tok[1], atoi(tok[2]), atoi(tok[3])
		var cuts []int
		for _, c := range strings.Split(tok[4], "/") {
			cuts = append(cuts, atoi(c))
		}
		ch := make(chan string, 1)
		w.mu.Lock()
		w.jobs[id] = ch
		w.mu.Unlock()
		go func() {
			defer func() {
				if r := recover(); r != nil {
					ch <- "PANIC:" + hx(fmt.Sprint(r))
				}
			}()
			ch <- runTd(n, hc, cuts)
		}()
		return "started"
	case "tdwait":
		w.mu.Lock()
		ch := w.jobs[tok[1]]
		delete(w.jobs, tok[1])
		w.mu.Unlock()
		if ch == nil {
			return "unknown"
		}
		select {
		case r := <-ch:
			return r
		case <-time.After(60 * time.Second):
			return "hang"
		}
	}
	return "badop"
}

// genTd: n = number of op lines (two per scenario).  Classes (rotating, details random):
//
//	0  few plain proxies, cuts at any moment
//	1  health-checked proxies on a live port: cuts spread over every phase of the check goroutine -- during its initial
//	   500 ms sleep, around its first round (the health notification arrives at once), in its select
//	2  the same with a dead local port (the check goroutine's other branch)
//	3  MANY proxies (more than the dispatcher's send channel holds), cut once they are registered
//	4  a number of proxies around the capacity of the send channel, cut late (the channel is drained by then)
func genTd(rng *rand.Rand, n int, emit func(string)) {
	emit("reset")
	k := (n - 1) / 2
	if k < 5 {
		k = 5
	}
	var waits []string
	for i := 0; i < k; i++ {
		N, hc := 1+rng.Intn(6), 0
		var cuts []string
		phaseCut := func() int {
			switch rng.Intn(4) {
			case 0:
				return 20 + rng.Intn(400) // asleep before its first round
			case 1:
				return 470 + rng.Intn(80) // waking up / first round
			case 2:
				return 560 + rng.Intn(500) // in its select
			default:
				return 20 + rng.Intn(1200)
			}
		}
		switch i % 5 {
		case 0:
			for j, m := 0, 1+rng.Intn(3); j < m; j++ {
				cuts = append(cuts, fmt.Sprint(20+rng.Intn(900)))
			}
		case 1, 2:
			hc = i % 5
			cuts = append(cuts, fmt.Sprint(20+rng.Intn(400))) // every run has a loss right after a login
			for j, m := 0, 1+rng.Intn(2); j < m; j++ {
				cuts = append(cuts, fmt.Sprint(phaseCut()))
			}
			rng.Shuffle(len(cuts), func(a, b int) { cuts[a], cuts[b] = cuts[b], cuts[a] })
		case 3:
			N = 101 + rng.Intn(80)
			cuts = append(cuts, fmt.Sprint(500+rng.Intn(400)))
			if rng.Intn(2) == 0 {
				cuts = append(cuts, fmt.Sprint(400+rng.Intn(400)))
			}
		default:
			N = 40 + rng.Intn(60)
			cuts = append(cuts, fmt.Sprint(600+rng.Intn(300)))
		}
		id := fmt.Sprintf("t%d", i)
		emit(fmt.Sprintf("tdstart %s %d %d %s", id, N, hc, strings.Join(cuts, "/")))
		waits = append(waits, "tdwait "+id)
	}
	for _, w := range waits {
		emit(w)
	}
}

func init() {
	register(&Engine{Name: "td", Gen: genTd, Exec: tdeng.exec})
}
