package main

// Engine "stack" (C01), io.Reader / io.Writer CONTRACT ops: every wrapper frp puts on the byte path, driven over
// SCRIPTED sources and sinks that use the whole contract — (n > 0, EOF) (how a quic stream ends), (n > 0, other error),
// (0, nil), one byte at a time, more than the buffer holds; sinks with short counts + error, full counts + error, and
// (outside the contract) short counts without error.
//
//	rsrc st=<layer>+<layer>+… plen=<len(p)> segs=<len>:<0|E|X>,… r=<rate | 0> seed=
//	   layers, innermost first: lim<burst> (libio.WrapReadWriteCloser(limit.NewReader, limit.NewWriter) inside
//	   WrapReadWriteCloserToConn, the way frp builds it) | stats (StatsConn) | cn (CloseNotifyConn) | ctx (ContextConn) |
//	   rwc (WrapReadWriteCloserToConn over golib ReadWriteCloser).  The source answers Read with the scripted segments:
//	   the error of a segment comes WITH its last byte; errors are sticky; after the script: (0, EOF).  An io.Copy-like
//	   caller drains the top of the stack with a plen-byte buffer.
//	   => rd=<n of every Read a/b/…>;req=<tokens per Read a/b/… | ->;end=<eof|src|wait|other|max>;cat=<0|1>;cnt=<StatsConn total | ->
//	wsnk st=… w=<len,len,…> sink=<take>:<0|E|L>,… r= seed=
//	   successive Write calls (stopping at the first error) through the stack into a scripted sink: the i-th sink write
//	   takes min(take, len) bytes; E = returns an error with it; a short count returns an error (contract) unless L
//	   => c=<n>:<0|wait|sink|other>:<offered a/b/…>:<sink counts a/b!/… (! = with error)>:<tokens a/b/… | ->|…;cat=<0|1>;cnt=<StatsConn total | ->
//	tail side=<srv|cli> enc= comp= lim= n=<payload> ch=<write chunking> cut=<a.b.c…> fin=<E|e|X|x> seed=
//	   the REAL server / client half-tunnel (as in srv / cli) over a scripted WORK CONNECTION: the wire bytes of the
//	   payload (real golib layers in the model-predicted order) are handed to frps / frpc in pieces of the cut sizes
//	   (cyclic; 0 = a (0, nil) read); fin: E = the last piece comes together with EOF, e = EOF on its own read,
//	   X / x = the same with a non-EOF error.  What the user (srv) / the backend (cli) receives:
//	   => got=<bytes>;eof=<0|1>;pre=<received bytes are a prefix of the payload 0|1>
import (
	"bytes"
	"context"
	"errors"
	"fmt"
	"io"
	"math/rand"
	"net"
	"strconv"
	"strings"
	"sync"
	"sync/atomic"
	"time"

	libio "github.com/fatedier/golib/io"

	"github.com/fatedier/frp/pkg/msg"
	"github.com/fatedier/frp/pkg/util/limit"
	netpkg "github.com/fatedier/frp/pkg/util/net"
)

var stkErrSrc = errors.New("scripted source error")

type stkSeg struct {
	data []byte
	err  error
}

type stkSinkResp struct {
	take int
	err  bool
	lax  bool
}

// a net.Conn whose Read answers from a script and whose Write goes to a (scripted) recording sink
type stkScriptConn struct {
	mu     sync.Mutex
	segs   []stkSeg
	sticky error
	closed bool
	closes int32
	gate   chan struct{} // if set: the first Read waits (bounded) until something has been written to the connection
	gateO  sync.Once

	sink    []stkSinkResp // remaining scripted answers; exhausted: accept everything
	got     []byte        // bytes the sink accepted
	sizes   []int         // len(p) of every Write during the current call of the op
	counts  []string      // what each of them returned
	sinkErr bool
	tokens  []int
	used    func() int
	refill  func()
}

func (c *stkScriptConn) Read(p []byte) (int, error) {
	if c.gate != nil {
		select {
		case <-c.gate:
		case <-time.After(2 * time.Second):
			c.openGate()
		}
	}
	c.mu.Lock()
	defer c.mu.Unlock()
	if c.closed {
		return 0, net.ErrClosed
	}
	if c.sticky != nil {
		return 0, c.sticky
	}
	if len(c.segs) == 0 {
		c.sticky = io.EOF
		return 0, io.EOF
	}
	s := &c.segs[0]
	if len(s.data) <= len(p) {
		n := copy(p, s.data)
		err := s.err
		c.segs = c.segs[1:]
		if err != nil {
			c.sticky = err
		}
		return n, err
	}
	n := copy(p, s.data)
	s.data = s.data[n:]
	return n, nil
}

func (c *stkScriptConn) openGate() {
	if c.gate != nil {
		c.gateO.Do(func() { close(c.gate) })
	}
}

func (c *stkScriptConn) Write(p []byte) (int, error) {
	defer c.openGate()
	c.mu.Lock()
	defer c.mu.Unlock()
	if c.closed {
		return 0, net.ErrClosed
	}
	c.sizes = append(c.sizes, len(p))
	if c.used != nil {
		c.tokens = append(c.tokens, c.used())
		c.refill()
	}
	n, fail := len(p), false
	if len(c.sink) > 0 {
		r := c.sink[0]
		c.sink = c.sink[1:]
		if r.take < n {
			n = r.take
		}
		fail = r.err || (n < len(p) && !r.lax)
	}
	c.got = append(c.got, p[:n]...)
	if fail {
		c.counts = append(c.counts, strconv.Itoa(n)+"!")
		c.sinkErr = true
		return n, stkErrSinkFull
	}
	c.counts = append(c.counts, strconv.Itoa(n))
	return n, nil
}

func (c *stkScriptConn) Close() error {
	atomic.AddInt32(&c.closes, 1)
	c.mu.Lock()
	c.closed = true
	c.mu.Unlock()
	return nil
}

func (c *stkScriptConn) LocalAddr() net.Addr  { return &net.TCPAddr{IP: net.IPv4(127, 0, 0, 1), Port: 7} }
func (c *stkScriptConn) RemoteAddr() net.Addr { return &net.TCPAddr{IP: net.IPv4(127, 0, 0, 1), Port: 9} }
func (c *stkScriptConn) SetDeadline(time.Time) error      { return nil }
func (c *stkScriptConn) SetReadDeadline(time.Time) error  { return nil }
func (c *stkScriptConn) SetWriteDeadline(time.Time) error { return nil }

// the wrappers, innermost first, built the way frp builds them; at most one limiter
func stkBuildStack(layers []string, base *stkScriptConn, r int) (top net.Conn, used func() int, refill func(), tot *[2]int64, hasStats bool, ok bool) {
	tot = &[2]int64{}
	var cur net.Conn = base
	for _, ly := range layers {
		inner := cur
		switch {
		case strings.HasPrefix(ly, "lim"):
			b := atoi(ly[3:])
			if b < 1 || used != nil || refill != nil {
				return nil, nil, nil, nil, false, false
			}
			lm, u, rf := stkFiniteLimiter(b, r)
			used, refill = u, rf
			rwc := libio.WrapReadWriteCloser(limit.NewReader(inner, lm), limit.NewWriter(inner, lm), func() error { return inner.Close() })
			cur = netpkg.WrapReadWriteCloserToConn(rwc, base)
		case ly == "stats":
			hasStats = true
			cur = netpkg.WrapStatsConn(inner, func(rd, wr int64) { tot[0], tot[1] = rd, wr })
		case ly == "cn":
			cur = netpkg.WrapCloseNotifyConn(inner, func() {})
		case ly == "ctx":
			cur = netpkg.NewContextConn(context.Background(), inner)
		case ly == "rwc":
			cur = netpkg.WrapReadWriteCloserToConn(libio.WrapReadWriteCloser(inner, inner, func() error { return inner.Close() }), base)
		default:
			return nil, nil, nil, nil, false, false
		}
	}
	return cur, used, refill, tot, hasStats, true
}

func stkErrClass(err error) string {
	switch {
	case err == nil:
		return "0"
	case err == io.EOF:
		return "eof"
	case err == stkErrSrc:
		return "src"
	case err == stkErrSinkFull:
		return "sink"
	case strings.Contains(err.Error(), "exceeds limiter's burst"):
		return "wait"
	}
	return "other"
}

func stkParseSegs(spec string, seed int64) (segs []stkSeg, delivered []byte, ok bool) {
	rng := rand.New(rand.NewSource(seed))
	ended := false
	for _, f := range strings.Split(spec, ",") {
		if f == "" {
			continue
		}
		g := strings.Split(f, ":")
		if len(g) != 2 {
			return nil, nil, false
		}
		d := make([]byte, atoi(g[0]))
		rng.Read(d)
		var err error
		switch g[1] {
		case "0":
		case "E":
			err = io.EOF
		case "X":
			err = stkErrSrc
		default:
			return nil, nil, false
		}
		segs = append(segs, stkSeg{data: d, err: err})
		if !ended {
			delivered = append(delivered, d...)
		}
		if err != nil {
			ended = true
		}
	}
	return segs, delivered, true
}

func stkRsrc(kv map[string]string) string {
	plen, r, seed := atoi(kv["plen"]), atoi(kv["r"]), int64(atoi(kv["seed"]))
	if plen < 1 {
		return "badarg"
	}
	segs, delivered, ok := stkParseSegs(kv["segs"], seed)
	if !ok {
		return "badsegs"
	}
	return stkGuard(3*time.Second, func() string {
		base := &stkScriptConn{segs: segs}
		top, used, refill, tot, hasStats, ok := stkBuildStack(strings.Split(kv["st"], "+"), base, r)
		if !ok {
			return "badstack"
		}
		max := 3
		for _, s := range segs {
			max += len(s.data) + 1
		}
		buf := make([]byte, plen)
		var got []byte
		var ns, tokens []string
		end := "max"
		for i := 0; i < max; i++ {
			k, err := top.Read(buf)
			got = append(got, buf[:k]...)
			ns = append(ns, strconv.Itoa(k))
			if used != nil {
				tokens = append(tokens, strconv.Itoa(used()))
				refill()
			}
			if err != nil {
				end = stkErrClass(err)
				break
			}
		}
		_ = top.Close()
		req, cnt := "-", "-"
		if used != nil {
			req = strings.Join(tokens, "/")
		}
		if hasStats {
			cnt = strconv.FormatInt(tot[0], 10)
		}
		return fmt.Sprintf("rd=%s;req=%s;end=%s;cat=%d;cnt=%s", strings.Join(ns, "/"), req, end, stkBit(bytes.Equal(got, delivered)), cnt)
	})
}

func stkWsnk(kv map[string]string) string {
	r, seed := atoi(kv["r"]), int64(atoi(kv["seed"]))
	var sink []stkSinkResp
	for _, f := range strings.Split(kv["sink"], ",") {
		if f == "" {
			continue
		}
		g := strings.Split(f, ":")
		if len(g) != 2 {
			return "badsink"
		}
		sink = append(sink, stkSinkResp{take: atoi(g[0]), err: g[1] == "E", lax: g[1] == "L"})
	}
	return stkGuard(3*time.Second, func() string {
		base := &stkScriptConn{sink: sink}
		top, used, refill, tot, hasStats, ok := stkBuildStack(strings.Split(kv["st"], "+"), base, r)
		if !ok {
			return "badstack"
		}
		base.used, base.refill = used, refill
		var all []byte
		var calls []string
		total := 0
		for i, ls := range strings.Split(kv["w"], ",") {
			p := stkPayload(atoi(ls), "rand", seed+int64(i), false)
			all = append(all, p...)
			base.sizes, base.counts, base.tokens, base.sinkErr = nil, nil, nil, false
			n, err := top.Write(p)
			total += n
			tk := "-"
			if used != nil {
				if t := used(); t != 0 { // tokens taken after the last sink write of this call
					base.tokens = append(base.tokens, t)
				}
				refill()
				tk = stkSlash(base.tokens)
			}
			calls = append(calls, fmt.Sprintf("%d:%s:%s:%s:%s", n, stkErrClass(err), stkSlash(base.sizes), strings.Join(base.counts, "/"), tk))
			if err != nil {
				break
			}
		}
		_ = top.Close()
		cat := total <= len(all) && bytes.Equal(base.got, all[:total])
		cnt := "-"
		if hasStats {
			cnt = strconv.FormatInt(tot[1], 10)
		}
		return fmt.Sprintf("c=%s;cat=%d;cnt=%s", strings.Join(calls, "|"), stkBit(cat), cnt)
	})
}

// ---------------------------------------------------------------- half-tunnels over a scripted work connection

type stkBufRWC struct{ b *bytes.Buffer }

func (w stkBufRWC) Read([]byte) (int, error)    { return 0, io.EOF }
func (w stkBufRWC) Write(p []byte) (int, error) { return w.b.Write(p) }
func (w stkBufRWC) Close() error                { return nil }

// the wire bytes of `payload` (written in the chunking ch) cut into the pieces frps / frpc will read
func stkTailScript(payload []byte, enc, comp bool, ch int, cut string, fin string, seed int64) ([]stkSeg, bool) {
	var wire bytes.Buffer
	mw := stkMirror(stkBufRWC{&wire}, enc, comp, stkToken)
	if err := stkWriteChunked(mw, payload, ch, seed); err != nil {
		return nil, false
	}
	var cuts []int
	for _, f := range strings.Split(cut, ".") {
		cuts = append(cuts, atoi(f))
	}
	pos := false
	for _, c := range cuts {
		pos = pos || c > 0
	}
	if !pos {
		return nil, false
	}
	w := wire.Bytes()
	var segs []stkSeg
	for i := 0; len(w) > 0; i++ {
		k := cuts[i%len(cuts)]
		if k > len(w) {
			k = len(w)
		}
		segs = append(segs, stkSeg{data: append([]byte(nil), w[:k]...)})
		w = w[k:]
	}
	var ferr error = io.EOF
	if fin == "X" || fin == "x" {
		ferr = stkErrSrc
	}
	// the last piece that carries bytes takes the error with it (E / X), or the error comes on its own read (e / x)
	last := -1
	for i := range segs {
		if len(segs[i].data) > 0 {
			last = i
		}
	}
	if (fin == "E" || fin == "X") && last >= 0 {
		segs = segs[:last+1]
		segs[last].err = ferr
	} else {
		segs = append(segs, stkSeg{err: ferr})
	}
	return segs, true
}

func stkTailOp(kv map[string]string) string {
	enc, comp, lim := kv["enc"] == "1", kv["comp"] == "1", kv["lim"] == "1"
	n, ch, seed := atoi(kv["n"]), atoi(kv["ch"]), int64(atoi(kv["seed"]))
	payload := stkPayload(n, "mixed", seed, true)
	segs, ok := stkTailScript(payload, enc, comp, ch, kv["cut"], kv["fin"], seed)
	if !ok {
		return "badarg"
	}
	sc := &stkScriptConn{segs: segs}
	var got []byte
	eof := false
	switch kv["side"] {
	case "srv":
		s := stkGetSrv(enc, comp, lim)
		s.mu.Lock()
		s.script = sc
		s.mu.Unlock()
		user, err := net.Dial("tcp", net.JoinHostPort("127.0.0.1", strconv.Itoa(s.port)))
		if err != nil {
			return "dial"
		}
		defer user.Close()
		select {
		case <-s.peers:
		case <-time.After(3 * time.Second):
			return "nowork"
		}
		_ = user.SetReadDeadline(time.Now().Add(2 * time.Second))
		buf := make([]byte, 32*1024)
		for {
			k, err := user.Read(buf)
			got = append(got, buf[:k]...)
			if err != nil {
				ne, isNet := err.(net.Error)
				eof = !(isNet && ne.Timeout())
				break
			}
		}
		sc.Close()
	case "cli":
		c := stkGetCli(enc, comp, lim, "none")
		for len(c.backend.newC) > 0 {
			<-c.backend.newC
		}
		m := &msg.StartWorkConn{ProxyName: c.name, SrcAddr: "10.1.2.3", SrcPort: 4711, DstAddr: "192.0.2.7", DstPort: 7000}
		// the backend greets with its tag. The property speaks about a peer that is ONLY READING when the writer leaves:
		// the stream starts once frpc has taken the greeting off the backend's socket and forwarded it (a connection closed
		// with unread input is reset by the kernel, and a reset discards what the backend has not read yet)
		sc.gate = make(chan struct{})
		go c.pxy.InWorkConn(sc, m)
		var bc *stkBConn
		select {
		case bc = <-c.backend.newC:
		case <-time.After(3 * time.Second):
			sc.Close()
			return "nobackend"
		}
		eof = stkWaitCh(bc.eof, 2*time.Second)
		got = c.backend.received(bc)
		sc.Close()
		bc.c.Close()
	default:
		return "badside"
	}
	pre := len(got) <= len(payload) && bytes.Equal(got, payload[:len(got)])
	return fmt.Sprintf("got=%d;eof=%d;pre=%d", len(got), stkBit(eof), stkBit(pre))
}

// ---------------------------------------------------------------- generators

var stkPassLayers = []string{"stats", "cn", "ctx", "rwc"}

// 1..3 wrappers, innermost first, mostly with a limiter; returns the stack and its burst (0 = none)
func stkGenLayers(rng *rand.Rand) (string, int) {
	k := 1 + rng.Intn(3)
	b := 0
	if rng.Intn(4) > 0 {
		b = stkGenBurst(rng)
		if b > 4096 {
			b = 1 + b%4096
		}
	}
	at := rng.Intn(k)
	var ls []string
	for i := 0; i < k; i++ {
		if i == at && b > 0 {
			ls = append(ls, "lim"+strconv.Itoa(b))
		} else {
			ls = append(ls, pick(rng, stkPassLayers))
		}
	}
	return strings.Join(ls, "+"), b
}

func stkGenRsrc(rng *rand.Rand) string {
	st, b := stkGenLayers(rng)
	base := b
	if base == 0 {
		base = 1 + rng.Intn(512)
	}
	plen := 1 + rng.Intn(4*base)
	switch rng.Intn(4) {
	case 0:
		plen = 1 + rng.Intn(base)
	case 1:
		plen = pick(rng, []int{base, base + 1, 2 * base, 16384, 32768})
	}
	step := plen
	if b > 0 && b < step {
		step = b
	}
	// segment lengths: nothing, one byte, below / at / above what one Read can take
	segLen := func() int {
		switch rng.Intn(7) {
		case 0:
			return 0
		case 1:
			return 1
		case 2:
			return step + rng.Intn(3) - 1
		case 3:
			return step + 1 + rng.Intn(3*step)
		case 4:
			return plen + rng.Intn(3)
		}
		return 1 + rng.Intn(step)
	}
	var segs []string
	for i, k := 0, rng.Intn(6); i < k; i++ {
		n := segLen()
		if n < 0 {
			n = 0
		}
		segs = append(segs, fmt.Sprintf("%d:0", n))
		if rng.Intn(5) == 0 { // (0, nil) reads, repeatedly
			for j := rng.Intn(3); j >= 0; j-- {
				segs = append(segs, "0:0")
			}
		}
	}
	// how the source ends: bytes together with EOF / with another error, the error on its own, or the script just ends
	switch rng.Intn(8) {
	case 0, 1, 2:
		segs = append(segs, fmt.Sprintf("%d:E", 1+segLen()))
	case 3, 4:
		segs = append(segs, fmt.Sprintf("%d:X", 1+segLen()))
	case 5:
		segs = append(segs, "0:X")
	case 6:
		segs = append(segs, "0:E")
	}
	total := 0
	for _, s := range segs {
		total += atoi(strings.Split(s, ":")[0])
	}
	return fmt.Sprintf("rsrc st=%s plen=%d segs=%s r=%d seed=%d", st, plen, strings.Join(segs, ","), stkGenRate(rng, total), rng.Intn(100000))
}

func stkGenWsnk(rng *rand.Rand) string {
	st, b := stkGenLayers(rng)
	base := b
	if base == 0 {
		base = 1 + rng.Intn(512)
	}
	k := 1 + rng.Intn(4)
	var ws []string
	total := 0
	for i := 0; i < k; i++ {
		n := 1 + stkGenLen(rng, base)
		total += n
		ws = append(ws, strconv.Itoa(n))
	}
	// the sink: mostly full counts; now and then a short count / an error / (rarely) a short count without an error
	var sink []string
	for i, m := 0, rng.Intn(6); i < m; i++ {
		take := 100000000
		if rng.Intn(3) == 0 {
			take = rng.Intn(base + 1)
		}
		flag := "0"
		switch rng.Intn(10) {
		case 0, 1:
			flag = "E"
		case 2:
			if rng.Intn(2) == 0 {
				flag = "L"
			}
		}
		sink = append(sink, fmt.Sprintf("%d:%s", take, flag))
	}
	return fmt.Sprintf("wsnk st=%s w=%s sink=%s r=%d seed=%d", st, strings.Join(ws, ","), strings.Join(sink, ","), stkGenRate(rng, total), rng.Intn(100000))
}

func stkGenTail(rng *rand.Rand, side string, enc, comp, lim int, fin string) string {
	n := pick(rng, []int{1, 5, 31, 300, 700, 4096, 5000, 20000, 70000, 1 + rng.Intn(40000)})
	var cut []string
	switch rng.Intn(4) {
	case 0: // everything in one read (the whole stream comes with the end)
		cut = []string{"1000000"}
	case 1: // one byte at a time at first, then big pieces
		cut = []string{"1", "1", "0", "1", "1", "1", "1", "1", "1", "1", "1", "1", "1", "1", "1", "1", "1", "1", "1", "1", "1", "1", "16384", "40000", "40000", "40000"}
	default:
		for i, k := 0, 1+rng.Intn(5); i < k; i++ {
			cut = append(cut, strconv.Itoa(pick(rng, []int{0, 1, 2, 17, 100, 1000, 4096, 16384, 16385, 32768, 1 + rng.Intn(20000)})))
		}
		cut = append(cut, strconv.Itoa(1+rng.Intn(30000)))
	}
	return fmt.Sprintf("tail side=%s enc=%d comp=%d lim=%d n=%d ch=%d cut=%s fin=%s seed=%d", side, enc, comp, lim, n,
		pick(rng, []int{0, 7, 1000, -1}), strings.Join(cut, "."), fin, rng.Intn(100000))
}
