// Engine "crash" (C16), second part: the peer speaks on WORK connections and VISITOR connections, and work
// connections race a session's teardown.  Everything here runs in the sacrificial child (see eng_crash.go).
//
// frps reads a work connection in three ways: not at all (pooled), as a byte stream joined with a user or
// visitor connection (tcp, stcp, sudp, xtcp-less classes — through the decrypt / decompress wrappers when the
// proxy asked for them), or frame by frame (udp proxy: server/proxy/udp.go workConnReaderFn, consumed by
// pkg/proto/udp ForwardUserConn).  Visitor connections are byte streams for frps, but what a visitor sends
// ends up on the work connection of the proxy OWNER: for an sudp proxy the owner's frpc parses it as UDPPacket
// frames (client/proxy/sudp.go, pkg/proto/udp Forwarder).  All of these readers run without recover.
package main

import (
	"encoding/base64"
	"fmt"
	"io"
	"math"
	"math/rand"
	"net"
	"strconv"
	"strings"
	"sync"
	"time"

	"github.com/fatedier/frp/pkg/msg"
	"github.com/fatedier/frp/pkg/util/util"
)

const (
	crashSk       = "c16sk"
	crashRealSTCP = "c16wstcp"
	crashRealSUDP = "c16wsudp"
)

var crashWorkTypes = []string{"tcp", "udp", "stcp", "sudp", "xtcp", "rstcp", "rsudp"}

func crashUDPEcho() int {
	pc, err := net.ListenPacket("udp4", "127.0.0.1:0")
	if err != nil {
		panic(err)
	}
	go func() {
		buf := make([]byte, 65536)
		for {
			n, from, err := pc.ReadFrom(buf)
			if err != nil {
				return
			}
			_, _ = pc.WriteTo(buf[:n], from)
		}
	}()
	return pc.LocalAddr().(*net.UDPAddr).Port
}

// ---------------------------------------------------------------- frames a peer can put on a work connection

// one JSON value for a `*net.UDPAddr` field: absent (""), null, zero, plausible, out of range, wrong JSON types
func crashAddrJSON(r *rand.Rand, wellTyped bool) string {
	ok := []string{"", "", "null", "{}", `{"IP":"","Port":0,"Zone":""}`, `{"IP":"1.2.3.4","Port":5,"Zone":""}`,
		`{"IP":"127.0.0.1","Port":9,"Zone":""}`, `{"IP":"::1","Port":70000,"Zone":"eth0"}`, `{"Port":-1}`,
		`{"IP":null,"Port":65535}`, `{"IP":"255.255.255.255","Port":1}`, `{"IP":"0.0.0.0","Port":0}`,
		`{"IP":"fe80::1","Port":53,"Zone":"` + crashLong[:300] + `"}`}
	bad := []string{`"1.2.3.4:5"`, `5`, `[]`, `{"IP":"x"}`, `{"IP":5}`, `{"Port":"9"}`, `{"Port":1e99}`, `{"Zone":7}`, `true`}
	if wellTyped || r.Intn(4) != 0 {
		return ok[r.Intn(len(ok))]
	}
	return bad[r.Intn(len(bad))]
}

func crashContentJSON(r *rand.Rand, wellTyped bool) string {
	switch x := r.Intn(10); {
	case x < 4:
		return `"` + base64.StdEncoding.EncodeToString([]byte("c16-payload-"+strconv.Itoa(r.Intn(100)))) + `"`
	case x == 4:
		return `""`
	case x == 5:
		return "" // absent
	case x == 6:
		return `"!!!not*base64"`
	case x == 7:
		b := make([]byte, 1200+r.Intn(3000))
		r.Read(b)
		return `"` + base64.StdEncoding.EncodeToString(b) + `"`
	case x == 8:
		return `"QUJD"`
	default:
		if wellTyped {
			return `"QQ=="`
		}
		return []string{`12`, `null`, `["a"]`, `{"x":1}`}[r.Intn(4)]
	}
}

// a UDPPacket frame with every combination of absent / null / zero / garbage fields
func crashUDPFrame(r *rand.Rand, wellTyped bool) []byte {
	var parts []string
	if c := crashContentJSON(r, wellTyped); c != "" {
		parts = append(parts, `"c":`+c)
	}
	if l := crashAddrJSON(r, wellTyped); l != "" {
		parts = append(parts, `"l":`+l)
	}
	if a := crashAddrJSON(r, wellTyped); a != "" {
		parts = append(parts, `"r":`+a)
	}
	if r.Intn(8) == 0 {
		parts = append(parts, `"unknown_field":{"a":[1,2,3]}`)
	}
	r.Shuffle(len(parts), func(i, j int) { parts[i], parts[j] = parts[j], parts[i] })
	return crashFrame('u', []byte("{"+strings.Join(parts, ",")+"}"), math.MinInt64)
}

func crashMsgFrame(m msg.Message) []byte {
	var b strings.Builder
	if err := msg.WriteMsg(&b, m); err != nil {
		return nil
	}
	return []byte(b.String())
}

// n frames for a work / visitor connection.  Phase 1 (about two thirds): frames ReadMsg accepts — UDPPacket
// variants, Ping, every other registered type; then `marker` (if any); phase 2: what ends the reader —
// wrong-typed fields, unknown type bytes, bad lengths, arbitrary JSON, raw bytes.
func crashWorkFrames(w *crashWorld, r *rand.Rand, n int, marker []byte) [][]byte {
	var out [][]byte
	n1 := n * 2 / 3
	for i := 0; i < n1; i++ {
		switch x := r.Intn(10); {
		case x < 6:
			out = append(out, crashUDPFrame(r, true))
		case x < 8:
			out = append(out, crashMsgFrame(&msg.Ping{}))
		default:
			if fr := crashMsgFrame(w.makeMsg(crashTypes[r.Intn(len(crashTypes))], r)); fr != nil && len(fr) < 10000 {
				out = append(out, fr)
			}
		}
	}
	if marker != nil {
		out = append(out, marker)
	}
	for i := n1; i < n; i++ {
		switch r.Intn(6) {
		case 0:
			out = append(out, crashUDPFrame(r, false))
		case 1:
			out = append(out, crashFrame('u', []byte(crashJSON(r)), math.MinInt64))
		case 2:
			out = append(out, crashFrame(byte(r.Intn(256)), []byte(crashJSON(r)), math.MinInt64))
		case 3:
			out = append(out, crashFrame('u', []byte(`{"c":"QQ=="}`), []int64{-1, 0, 10241, math.MaxInt64, 5}[r.Intn(5)]))
		case 4:
			b := make([]byte, 1+r.Intn(300))
			r.Read(b)
			out = append(out, b)
		default:
			out = append(out, crashUDPFrame(r, true))
		}
	}
	return out
}

// ---------------------------------------------------------------- work and visitor connections

// a NewWorkConn for the run id on a fresh stream
func (w *crashWorld) offerWork(runID string) (net.Conn, error) {
	c, err := w.open()
	if err != nil {
		return nil, err
	}
	ts := time.Now().Unix()
	_ = c.SetWriteDeadline(time.Now().Add(2 * time.Second))
	if err := msg.WriteMsg(c, &msg.NewWorkConn{RunID: runID, PrivilegeKey: peerKeyTok(crashToken, ts), Timestamp: ts}); err != nil {
		c.Close()
		return nil, err
	}
	crashCount("workOffered")
	return c, nil
}

// a visitor connection to proxy `name` on a fresh stream; nil if frps refused it
func (w *crashWorld) visitor(runID, name string, enc, comp bool) net.Conn {
	c, err := w.open()
	if err != nil {
		return nil
	}
	ts := time.Now().Unix()
	_ = c.SetDeadline(time.Now().Add(2 * time.Second))
	if err := msg.WriteMsg(c, &msg.NewVisitorConn{RunID: runID, ProxyName: name, SignKey: util.GetAuthKey(crashSk, ts), Timestamp: ts,
		UseEncryption: enc, UseCompression: comp}); err != nil {
		c.Close()
		return nil
	}
	var resp msg.NewVisitorConnResp
	if err := msg.ReadMsgInto(c, &resp); err != nil || resp.Error != "" {
		crashCount("visitorRefused")
		c.Close()
		return nil
	}
	_ = c.SetDeadline(time.Time{})
	crashCount("visitorOK")
	return c
}

func crashWriteAll(c net.Conn, frames [][]byte) {
	for _, fr := range frames {
		_ = c.SetWriteDeadline(time.Now().Add(time.Second))
		if _, err := c.Write(fr); err != nil {
			return
		}
		crashCount("workFrames")
	}
}

func (w *crashWorld) ctlSend(pc *crashConn, m msg.Message) error {
	pc.wmu.Lock()
	defer pc.wmu.Unlock()
	_ = pc.c.SetWriteDeadline(time.Now().Add(2 * time.Second))
	return msg.WriteMsg(pc.rw, m)
}

// register one proxy on the session and wait for the answer to THIS name
func (w *crashWorld) registerWait(pc *crashConn, np *msg.NewProxy, d time.Duration) *msg.NewProxyResp {
	if err := w.ctlSend(pc, np); err != nil {
		return nil
	}
	deadline := time.After(d)
	for {
		select {
		case resp := <-pc.proxyResp:
			if resp.ProxyName == np.ProxyName {
				return resp
			}
		case <-deadline:
			return nil
		}
	}
}

func crashPortOf(remoteAddr string) int {
	i := strings.LastIndex(remoteAddr, ":")
	if i < 0 {
		return 0
	}
	p, _ := strconv.Atoi(remoteAddr[i+1:])
	return p
}

// op wconn: see the header of eng_crash.go
func (w *crashWorld) wconn(cid, ptype string, variant int64) string {
	r := rand.New(rand.NewSource(variant))
	// a fresh session (the previous one of this cid ends: its teardown overlaps with what follows): no stale pooled
	// connection of an earlier op stands in front of the ones offered here, the op is reproducible on its own
	w.login(cid, r.Intn(3), true, 0)
	pc := w.get(cid)
	real := strings.HasPrefix(ptype, "r")
	name := fmt.Sprintf("w%s-%s", cid, ptype)
	if ptype == "rstcp" {
		name = crashRealSTCP
	} else if ptype == "rsudp" {
		name = crashRealSUDP
	}
	odd := variant%4 == 3 // a minority of proxies asks for encryption / compression on the work connection
	var resp *msg.NewProxyResp
	if !real {
		np := &msg.NewProxy{ProxyName: name, ProxyType: ptype, RemotePort: 0, Sk: crashSk, AllowUsers: []string{"*"},
			UseEncryption: odd && r.Intn(2) == 0, UseCompression: odd && r.Intn(2) == 0}
		for attempt := 0; attempt < 2 && resp == nil; attempt++ {
			if pc != nil && pc.established {
				resp = w.registerWait(pc, np, 600*time.Millisecond)
			}
			if resp == nil { // the session was closed by an earlier malformed frame: a fresh one
				w.login(cid, r.Intn(3), true, 0)
				pc = w.get(cid)
			}
		}
		if resp == nil || pc == nil {
			return "noregister"
		}
		defer func() { _ = w.ctlSend(pc, &msg.CloseProxy{ProxyName: name}) }()
	}
	if pc == nil || !pc.established {
		return "nologin"
	}

	// offer work connections; a reader per connection waits for StartWorkConn
	var works []net.Conn
	started := make(chan net.Conn, 16)
	waitStart := func(c net.Conn) {
		_ = c.SetReadDeadline(time.Now().Add(1500 * time.Millisecond))
		var sw msg.StartWorkConn
		if err := msg.ReadMsgInto(c, &sw); err == nil {
			crashCount("workStarted")
			_ = c.SetReadDeadline(time.Time{})
			started <- c
			_, _ = io.Copy(io.Discard, c)
		}
	}
	for len(pc.reqWork) > 0 { // requests of earlier ops
		<-pc.reqWork
	}
	if !real {
		for i := 0; i < 1+r.Intn(2); i++ {
			c, err := w.offerWork(pc.runID)
			if err != nil {
				continue
			}
			works = append(works, c)
			go waitStart(c)
		}
	}
	defer func() {
		for _, c := range works {
			c.Close()
		}
	}()

	// make frps take a work connection
	var marker []byte
	var userUDP net.PacketConn
	var visitorConn net.Conn
	switch ptype {
	case "tcp":
		if resp.Error == "" {
			if uc, err := net.DialTimeout("tcp", "127.0.0.1:"+strconv.Itoa(crashPortOf(resp.RemoteAddr)), time.Second); err == nil {
				_, _ = uc.Write([]byte("c16-user-bytes"))
				crashDrain(uc)
				defer uc.Close()
			}
		}
	case "udp":
		if resp.Error == "" {
			if up, err := net.ListenPacket("udp4", "127.0.0.1:0"); err == nil {
				userUDP = up
				defer up.Close()
				port := crashPortOf(resp.RemoteAddr)
				_, _ = up.WriteTo([]byte("c16-user-datagram"), &net.UDPAddr{IP: net.IPv4(127, 0, 0, 1), Port: port})
				// the marker: a well-formed reply addressed to the user socket — it arrives after everything in front of it
				marker = crashMsgFrame(udpPacketOf([]byte("c16-marker"), nil, up.LocalAddr().(*net.UDPAddr))) // eng_udp.go
			}
		}
	case "stcp", "sudp", "rstcp", "rsudp":
		visitorConn = w.visitor(pc.runID, name, r.Intn(4) == 0, r.Intn(4) == 0)
		if visitorConn != nil {
			crashDrain(visitorConn)
			defer visitorConn.Close()
		}
	case "xtcp":
		ts := time.Now().Unix()
		_ = w.ctlSend(pc, &msg.NatHoleVisitor{TransactionID: "t" + strconv.FormatInt(variant, 10), ProxyName: name, Protocol: "quic",
			SignKey: util.GetAuthKey(crashSk, ts), Timestamp: ts, MappedAddrs: []string{"1.2.3.4:5"}})
	}

	// speak on the work connection frps took (or, if it took none in time, on the first) and on the others
	var taken net.Conn
	if len(works) > 0 {
		// udp: UDPProxy.Run waits 500 ms before it asks for a work connection; the other classes take one at once —
		// or never (registration / visitor / nat-hole request refused): then the frames go to the pooled connection
		wait := 300 * time.Millisecond
		if ptype == "udp" && resp.Error == "" {
			wait = 1200 * time.Millisecond
		} else if visitorConn == nil && ptype != "tcp" && ptype != "xtcp" {
			wait = 0
		}
		deadline := time.After(wait)
	waitTaken:
		for extra := 0; ; {
			select {
			case taken = <-started:
				break waitTaken
			case <-pc.reqWork:
				// frps asks for more (a stale pooled connection of an earlier op was in front of ours): answer
				if extra < 6 {
					extra++
					if c, err := w.offerWork(pc.runID); err == nil {
						works = append(works, c)
						go waitStart(c)
					}
				}
			case <-deadline:
				taken = works[0]
				break waitTaken
			}
		}
	}
	if odd {
		marker = nil // the reader sits behind the decrypt / decompress wrappers: no frame of ours is readable
	}
	n := 6 + r.Intn(14)
	if taken != nil {
		frames := crashWorkFrames(w, r, n, marker)
		cut := len(frames)
		if marker != nil {
			for i, fr := range frames {
				if &fr[0] == &marker[0] {
					cut = i + 1
				}
			}
		}
		crashWriteAll(taken, frames[:cut])
		if marker != nil && userUDP != nil {
			// event-driven: the consumer of readCh handled every packet in front of the marker
			buf := make([]byte, 2048)
			deadline := time.Now().Add(1500 * time.Millisecond)
			for {
				_ = userUDP.SetReadDeadline(deadline)
				k, _, err := userUDP.ReadFrom(buf)
				if err != nil {
					break
				}
				if string(buf[:k]) == "c16-marker" {
					crashCount("udpMarker")
					break
				}
			}
		}
		crashWriteAll(taken, frames[cut:])
	}
	for _, c := range works {
		if c != taken {
			crashWriteAll(c, crashWorkFrames(w, r, 4+r.Intn(6), nil))
		}
	}
	if visitorConn != nil {
		crashWriteAll(visitorConn, crashWorkFrames(w, r, n, nil))
		time.Sleep(30 * time.Millisecond) // relayed to the owner's work connection
	}
	return "sent"
}

// op wstorm: nconn peers at once; each logs in, registers proxies of the work-connection classes, answers every
// ReqWorkConn with a NewWorkConn on which it speaks, plays user / visitor, and half of them drop the control
// connection while work connections are still being offered
func (w *crashWorld) wstorm(seed int64, nconn, nmsg int) {
	var wg sync.WaitGroup
	for i := 0; i < nconn; i++ {
		wg.Add(1)
		go func(i int) {
			defer wg.Done()
			r := rand.New(rand.NewSource(seed*4099 + int64(i)))
			cid := fmt.Sprintf("ws%d-%d", seed, i)
			if w.login(cid, r.Intn(4), true, 0) != "ok" {
				return
			}
			pc := w.get(cid)
			if pc == nil {
				return
			}
			stop := make(chan struct{})
			var rwg sync.WaitGroup
			var cmu sync.Mutex
			var conns []net.Conn
			keep := func(c net.Conn) {
				cmu.Lock()
				conns = append(conns, c)
				cmu.Unlock()
			}
			// the responder: one NewWorkConn per ReqWorkConn (and a few unasked), then frames
			rwg.Add(1)
			go func() {
				defer rwg.Done()
				rr := rand.New(rand.NewSource(seed*8191 + int64(i)))
				for k := 0; k < 40; k++ {
					select {
					case <-stop:
						return
					case <-pc.reqWork:
					case <-time.After(time.Duration(40+rr.Intn(120)) * time.Millisecond):
					}
					c, err := w.offerWork(pc.runID)
					if err != nil {
						continue
					}
					keep(c)
					frames := crashWorkFrames(w, rr, 1+rr.Intn(nmsg), nil)
					if rr.Intn(2) == 0 { // wait for StartWorkConn first
						rwg.Add(1)
						go func() {
							defer rwg.Done()
							_ = c.SetReadDeadline(time.Now().Add(400 * time.Millisecond))
							var sw msg.StartWorkConn
							if err := msg.ReadMsgInto(c, &sw); err == nil {
								crashCount("workStarted")
							}
							_ = c.SetReadDeadline(time.Time{})
							crashWriteAll(c, frames)
						}()
					} else {
						crashWriteAll(c, frames)
					}
				}
			}()
			// registrations and the traffic that makes frps take work connections
			type reg struct {
				name, typ string
				port      int
			}
			var regs []reg
			for k := 0; k < 1+r.Intn(3); k++ {
				typ := crashWorkTypes[r.Intn(5)]
				name := fmt.Sprintf("%s-%d-%s", cid, k, typ)
				np := &msg.NewProxy{ProxyName: name, ProxyType: typ, RemotePort: 0, Sk: crashSk, AllowUsers: []string{"*"},
					UseEncryption: r.Intn(6) == 0, UseCompression: r.Intn(6) == 0}
				if resp := w.registerWait(pc, np, 2*time.Second); resp != nil && resp.Error == "" {
					regs = append(regs, reg{name, typ, crashPortOf(resp.RemoteAddr)})
				}
			}
			dropAt := -1
			if r.Intn(2) == 0 {
				dropAt = r.Intn(7)
			}
			for k := 0; k < 7; k++ {
				if k == dropAt {
					w.drop(cid) // work connections keep arriving for a run id whose session is going away
				}
				if len(regs) > 0 {
					g := regs[r.Intn(len(regs))]
					switch g.typ {
					case "tcp":
						if uc, err := net.DialTimeout("tcp", "127.0.0.1:"+strconv.Itoa(g.port), 300*time.Millisecond); err == nil {
							_, _ = uc.Write([]byte("user"))
							keep(uc)
						}
					case "udp":
						if up, err := net.Dial("udp4", "127.0.0.1:"+strconv.Itoa(g.port)); err == nil {
							_, _ = up.Write([]byte("user-datagram"))
							keep(up)
						}
					case "stcp", "sudp":
						if vc := w.visitor(pc.runID, g.name, r.Intn(4) == 0, r.Intn(4) == 0); vc != nil {
							keep(vc)
							crashWriteAll(vc, crashWorkFrames(w, r, 1+r.Intn(nmsg), nil))
						}
					case "xtcp":
						ts := time.Now().Unix()
						_ = w.ctlSend(pc, &msg.NatHoleVisitor{TransactionID: crashStr(r), ProxyName: g.name, SignKey: util.GetAuthKey(crashSk, ts),
							Timestamp: ts, MappedAddrs: crashAddrs(r), AssistedAddrs: crashAddrs(r)})
					}
				}
				if r.Intn(3) == 0 { // a visitor of the real frpc's proxies
					if vc := w.visitor(pc.runID, []string{crashRealSTCP, crashRealSUDP}[r.Intn(2)], r.Intn(4) == 0, r.Intn(4) == 0); vc != nil {
						keep(vc)
						crashWriteAll(vc, crashWorkFrames(w, r, 1+r.Intn(nmsg), nil))
					}
				}
				time.Sleep(time.Duration(70+r.Intn(40)) * time.Millisecond) // 7 rounds: past the 500 ms of UDPProxy.Run
			}
			close(stop)
			rwg.Wait()
			w.drop(cid)
			cmu.Lock()
			for _, c := range conns {
				c.Close()
			}
			cmu.Unlock()
		}(i)
	}
	wg.Wait()
}

// ---------------------------------------------------------------- teardown against work connections

type crashGate struct {
	point    string
	isParked chan struct{}
	release  chan struct{}
}

// verifhook handler of the child: only what a `tear` / `relogin` / `gleave` op armed parks — sessions by their
// Login.Hostname, group registrations by the proxy or group name (every armed key starts with "c16gate-")
func (w *crashWorld) gateHook(point string, keys []string) {
	var g *crashGate
	for _, k := range keys {
		if !strings.HasPrefix(k, "c16gate-") {
			continue
		}
		w.gmu.Lock()
		if x := w.gates[k]; x != nil && x.point == point {
			delete(w.gates, k)
			g = x
		}
		w.gmu.Unlock()
		if g != nil {
			break
		}
	}
	if g != nil {
		close(g.isParked)
		<-g.release
	}
}

// has frps answered the offer by closing the connection?  (a pooled connection stays silent)
func crashClosedWithin(c net.Conn, d time.Duration) bool {
	_ = c.SetReadDeadline(time.Now().Add(d))
	buf := make([]byte, 512)
	for {
		_, err := c.Read(buf)
		if err != nil {
			ne, ok := err.(net.Error)
			return !(ok && ne.Timeout())
		}
	}
}

func (w *crashWorld) sessionGone(runID string, d time.Duration) bool {
	deadline := time.Now().Add(d)
	for {
		byRun, _ := w.svr.VerifSessDump()
		if _, ok := byRun[runID]; !ok {
			return true
		}
		if time.Now().After(deadline) {
			return false
		}
		time.Sleep(3 * time.Millisecond)
	}
}

func (w *crashWorld) tear(cid, gate string, nwork, nproxy int) string {
	w.gmu.Lock()
	w.tearSeq++
	host := fmt.Sprintf("c16gate-%s-%d", cid, w.tearSeq)
	w.gmu.Unlock()
	if r := w.loginHost(cid, 1, true, 0, host); r != "ok" {
		return "login-" + r
	}
	pc := w.get(cid)
	for i := 0; i < nproxy; i++ {
		// proxies widen the window between close(workConnCh) and close(doneCh): the worker closes them one by one
		typ := []string{"stcp", "xtcp", "sudp"}[i%3]
		_ = w.registerWait(pc, &msg.NewProxy{ProxyName: fmt.Sprintf("t%s-%d", host, i), ProxyType: typ, Sk: crashSk}, time.Second)
	}
	runID := pc.runID
	answer := func(c net.Conn, d time.Duration) {
		if crashClosedWithin(c, d) {
			crashCount("tearOfferClosed")
		} else {
			crashCount("tearOfferPooled")
		}
		c.Close()
	}
	if gate == "none" {
		// a free race: offers hammer the run id while the control connection drops
		stop := make(chan struct{})
		var wg sync.WaitGroup
		for i := 0; i < nwork; i++ {
			wg.Add(1)
			go func() {
				defer wg.Done()
				for {
					select {
					case <-stop:
						return
					default:
					}
					if c, err := w.offerWork(runID); err == nil {
						answer(c, 5*time.Millisecond)
					}
				}
			}()
		}
		time.Sleep(10 * time.Millisecond)
		w.drop(cid)
		w.sessionGone(runID, 2*time.Second)
		time.Sleep(10 * time.Millisecond)
		close(stop)
		wg.Wait()
		return "done"
	}
	point := "worker." + gate
	if gate == "beforeDel" {
		point = "ctl.beforeDel"
	}
	g := &crashGate{point: point, isParked: make(chan struct{}), release: make(chan struct{})}
	w.gmu.Lock()
	w.gates[host] = g
	w.gmu.Unlock()
	w.drop(cid)
	select {
	case <-g.isParked:
		crashCount("tearParked")
	case <-time.After(2 * time.Second):
		w.gmu.Lock()
		delete(w.gates, host)
		w.gmu.Unlock()
		close(g.release)
		return "noparked"
	}
	// the worker stands at the gate: offers for the run id are handled NOW
	var offered []net.Conn
	for i := 0; i < nwork; i++ {
		if c, err := w.offerWork(runID); err == nil {
			offered = append(offered, c)
		}
	}
	var wg sync.WaitGroup
	for _, c := range offered {
		wg.Add(1)
		go func(c net.Conn) {
			defer wg.Done()
			// refused offers are closed at once; pooled ones (gate dispDone: the pool is still open) stay silent
			answer(c, 150*time.Millisecond)
		}(c)
	}
	wg.Wait()
	close(g.release)
	if !w.sessionGone(runID, 2*time.Second) {
		return "notgone"
	}
	if c, err := w.offerWork(runID); err == nil { // after the removal: no such run id
		answer(c, 300*time.Millisecond)
	}
	return "done"
}
