package main

// Engine "httpe2e" (C02, end-to-end leg): a real frps (vhost HTTP port) and a real frpc in this process
// (loopback), one pair per transport configuration, each carrying a lattice of http proxies over
// useEncryption x useCompression x bandwidthLimit {none, small/server, small/client, large/server,
// large/client}, plus http2http-plugin proxies.  Every proxy has ITS OWN recording raw HTTP/1.1 backend
// (answers carry X-Be: <proxy key>), so a mis-routed request shows.  The user speaks raw HTTP/1.1 on a
// persistent connection to the vhost port (keep-alive sequences; frps' Transport keeps the work
// connections of a proxy idle between requests, so cipher / compression / limiter state spans exchanges).
//
//	hx cfg=<mux><tls><pool> kind=<plain|h2h> enc=<0|1> comp=<0|1> lim=<none|srvS|cliS|srvL|cliL>
//	   m=<GET|POST|PUT> p=<hex path?query> up=<-|cl|ch>:<tok> upw=<w> dn=<-|cl|ch|eof>:<tok> dnw=<w> st=<code> keep=<0|1>
//	      tok = <pat>.<seed>.<len>.<fnv32a>   bytes = he2eBytes(pat, seed, len), pat = r(andom) | z(eros) | m(ixed runs)
//	      w   = 0: header block and body in ONE Write | k>0: header block, then k-byte Writes | -1: random sizes
//	      small = 8KB (burst 8192 < the 16 KiB / 32 KiB copy buffers that feed the limiter), large = 1MB
//	  => be=<key of the backend that got the request|->;m=<method>;t=<hex target>;up=<len.hash|->;ufr=<cl|ch|no>;
//	     st=<code>;tag=<X-Be of the answer|->;down=<len.hash>;dfr=<cl|ch|eof|no>;end=<ok|cut|timeout>
//	     [;sent=<hex>;got=<hex>] [;rsent=<hex>;rgot=<hex>]       (bodies of at most 24 bytes travel in full)
//	  or err=<connect|write|timeout>      nothing at all came back, twice
//
// CONCURRENT rounds (eng_http_e2e_conc.go): op `hc` carries 2-8 simultaneous users, each on its own connection
// (vhost HTTP port, or TLS to the vhost HTTPS port for the https2* plugins), through proxies with every client
// plugin of the property (http2http, http2https, https2http, https2https) and the plain path.
//
// Timing: no upper bound is ever checked.  An op whose only symptom is a timeout is executed once more,
// alone, on a fresh connection with twice the patience before it is reported; a truncated or different
// body, a wrong status or a wrong backend is a result and is never retried.
import (
	"bufio"
	"bytes"
	"context"
	"crypto/tls"
	"errors"
	"fmt"
	"hash/fnv"
	"io"
	stdlog "log"
	"math/rand"
	"net"
	"net/http"
	"net/http/httputil"
	"os"
	"sort"
	"strconv"
	"strings"
	"sync"
	"time"

	"github.com/fatedier/frp/client"
	"github.com/fatedier/frp/pkg/config/types"
	v1 "github.com/fatedier/frp/pkg/config/v1"
	frplog "github.com/fatedier/frp/pkg/util/log"
	"github.com/fatedier/frp/server"
)

func init() {
	register(&Engine{Name: "httpe2e", Gen: he2eGen, Exec: he2eExec})
}

const (
	he2eSmall      = "8KB"
	he2eSmallBurst = 8 * 1024
	he2eLarge      = "1MB"
	he2eLargeBurst = 1024 * 1024
)

var he2eLims = []string{"none", "srvS", "cliS", "srvL", "cliL"}

type he2eSpec struct {
	id     string // X-Op of the attempt this answer belongs to
	status int
	kind   string // "-", cl, ch, eof
	body   []byte
	w      int
	keep   bool
	seed   int64
	// fault ops (eng_http_e2e_fault.go): 'd' the backend dies after faultAt bytes of its answer body, 'q' after faultAt
	// wire bytes of the request body (no answer), 'w' it stops after faultAt bytes and the WORK CONNECTION is killed,
	// 'u' the user dies after faultAt bytes of its request body
	fault     byte
	faultAt   int
	wrote     chan struct{} // 'w': closed when the faultAt bytes are written
	wroteOnce sync.Once
	// long-lived exchanges (op hl): "ch" / "eof": header block + first half of the body, the rest after release;
	// "poll": nothing before release
	stream  string
	release chan struct{} // closed by the op when the held exchanges may end (waited for with a bound)
}

type he2eSeen struct {
	key    string
	op     string
	method string
	target string
	fr     string
	body   []byte
	whole  bool // the request body arrived completely
}

type he2eProxy struct {
	key    string
	domain string
	ln     net.Listener
	utls   bool // https-type proxy: the user speaks TLS (SNI = domain) on the vhost HTTPS port
}

type he2ePair struct {
	svr     *server.Service
	cli     *client.Service
	vport   int
	sport   int        // vhost HTTPS port
	relay   *he2eRelay // no tcpMux: frpc reaches frps through this relay (work connections can be killed)
	proxies map[string]*he2eProxy
	keys    []string
	user    net.Conn
	ubr     *bufio.Reader
}

var (
	he2ePairs  = map[string]*he2ePair{}
	he2eMu     sync.Mutex
	he2eCur    *he2eSpec
	he2eSeenCh = make(chan *he2eSeen, 256)
	he2eOpSeq  int
)

func he2eKey(kind string, enc, comp bool, lim string) string {
	return fmt.Sprintf("%s/%d/%d/%s", kind, stkBit(enc), stkBit(comp), lim)
}

// ---- payloads ----

func he2eBytes(pat string, seed, n int) []byte {
	p := make([]byte, n)
	r := rand.New(rand.NewSource(int64(seed)*7919 + 13))
	switch pat {
	case "z":
	case "m":
		for i := 0; i < n; {
			run := 1 + r.Intn(3000)
			if r.Intn(2) == 0 {
				for j := 0; j < run && i < n; j++ {
					p[i] = byte(r.Intn(256))
					i++
				}
			} else {
				i += run
			}
		}
	default:
		r.Read(p)
	}
	return p
}

func he2eHash(b []byte) string {
	h := fnv.New32a()
	h.Write(b)
	return fmt.Sprintf("%d.%d", len(b), h.Sum32())
}

func he2eTok(pat string, seed, n int) string {
	return fmt.Sprintf("%s.%d.%s", pat, seed, he2eHash(he2eBytes(pat, seed, n)))
}

// "<kind>:<pat>.<seed>.<len>.<hash>" | "-"
func he2eBodySpec(t string) (string, []byte) {
	if t == "-" || t == "" {
		return "-", nil
	}
	p := strings.SplitN(t, ":", 2)
	f := strings.Split(p[1], ".")
	return p[0], he2eBytes(f[0], atoi(f[1]), atoi(f[2]))
}

// ---- the recording backend ----

func he2eBackend(key string, ln net.Listener) {
	for {
		c, err := ln.Accept()
		if err != nil {
			return
		}
		go he2eServe(key, c)
	}
}

// body framed as kind, written after the header block hdr in the write pattern w
func he2eWriteMsg(c io.Writer, hdr []byte, kind string, body []byte, w int, seed int64) error {
	frame := func(b []byte) []byte {
		if kind != "ch" {
			return b
		}
		if len(b) == 0 {
			return nil
		}
		return append(append([]byte(fmt.Sprintf("%x\r\n", len(b))), b...), '\r', '\n')
	}
	last := []byte(nil)
	if kind == "ch" {
		last = []byte("0\r\n\r\n")
	}
	if w == 0 || len(body) == 0 {
		buf := append(append(append([]byte(nil), hdr...), frame(body)...), last...)
		_, err := c.Write(buf)
		return err
	}
	if _, err := c.Write(hdr); err != nil {
		return err
	}
	r := rand.New(rand.NewSource(seed ^ 0x2e2e))
	for len(body) > 0 {
		k := w
		if w < 0 {
			k = 1 + r.Intn(20000)
			if r.Intn(4) == 0 {
				k = 1 + r.Intn(9)
			}
		}
		if k > len(body) {
			k = len(body)
		}
		if _, err := c.Write(frame(body[:k])); err != nil {
			return err
		}
		body = body[k:]
	}
	if last != nil {
		if _, err := c.Write(last); err != nil {
			return err
		}
	}
	return nil
}

func he2eServe(key string, c net.Conn) {
	defer c.Close()
	br := bufio.NewReaderSize(c, 64*1024)
	for {
		line, err := br.ReadString('\n')
		if err != nil {
			return
		}
		p := strings.SplitN(strings.TrimRight(line, "\r\n"), " ", 3)
		if len(p) != 3 {
			return
		}
		seen := &he2eSeen{key: key, method: p[0], target: p[1], fr: "no"}
		cl, chunked := -1, false
		for {
			l, err := br.ReadString('\n')
			if err != nil {
				return
			}
			l = strings.TrimRight(l, "\r\n")
			if l == "" {
				break
			}
			i := strings.IndexByte(l, ':')
			if i < 0 {
				return
			}
			k, v := strings.ToLower(l[:i]), strings.TrimSpace(l[i+1:])
			switch k {
			case "content-length":
				cl, _ = strconv.Atoi(v)
			case "transfer-encoding":
				chunked = strings.EqualFold(v, "chunked")
			case "x-op":
				seen.op = v
			}
		}
		seen.whole = true
		if fs := he2eFaultSpec(seen.op); fs != nil && fs.fault == 'q' && (chunked || cl >= 0) {
			// this backend dies while the request body is still coming in
			seen.fr, seen.whole = "cl", false
			if chunked {
				seen.fr = "ch"
			}
			_ = c.SetReadDeadline(time.Now().Add(2 * time.Second))
			b := make([]byte, fs.faultAt)
			n, _ := io.ReadFull(br, b)
			seen.body = b[:n]
			select {
			case he2eSeenCh <- seen:
			default:
			}
			return
		}
		switch {
		case chunked:
			seen.fr = "ch"
			var buf bytes.Buffer
			_, err := io.Copy(&buf, httputil.NewChunkedReader(br))
			seen.body = buf.Bytes()
			if err == nil {
				_, err = br.ReadString('\n') // end of the (empty) trailer section
			}
			seen.whole = err == nil
		case cl >= 0:
			seen.fr = "cl"
			b := make([]byte, cl)
			n, err := io.ReadFull(br, b)
			seen.body, seen.whole = b[:n], err == nil
		}
		he2eMu.Lock()
		spec, rnd := he2eCur, he2eRnd
		he2eMu.Unlock()
		if rs := rnd.arrived(seen); rs != nil {
			// an exchange of the concurrent round in progress: recorded (BEFORE the answer is written), then
			// held until every held exchange of the round has reached its backend (bounded)
			spec = rs
		} else {
			select {
			case he2eSeenCh <- seen: // recorded BEFORE the answer is written
			default:
			}
		}
		if !seen.whole || spec == nil || spec.id != seen.op {
			return
		}
		if spec.fault == 'd' || spec.fault == 'w' || spec.stream != "" {
			he2eServeSpecial(c, key, seen, spec)
			return
		}
		if seen.fr != "no" {
			// A request with a body is answered a moment after its last byte, not in the same instant: net/http's
			// server closes the request body as soon as the proxy handler writes the answer's header, and a
			// Transport that has not yet finished its last (probing) Read of that body then fails with
			// "invalid Read on closed Body" and closes the connection the answer is coming from (frps' and the
			// plugins' httputil.ReverseProxy without full duplex; seen as a truncated answer once in 50-100
			// runs on a loaded machine).  A scheduling artefact of the standard library, not a result.
			time.Sleep(3 * time.Millisecond)
		}
		var h bytes.Buffer
		fmt.Fprintf(&h, "HTTP/1.1 %d %s\r\nX-Be: %s\r\nX-Echo: %s\r\nContent-Type: application/octet-stream\r\n", spec.status, http.StatusText(spec.status), key, seen.op)
		keep := spec.keep && spec.kind != "eof"
		switch spec.kind {
		case "cl":
			fmt.Fprintf(&h, "Content-Length: %d\r\n", len(spec.body))
		case "ch":
			h.WriteString("Transfer-Encoding: chunked\r\n")
		case "eof":
		default:
			h.WriteString("Content-Length: 0\r\n")
		}
		if !keep {
			h.WriteString("Connection: close\r\n")
		}
		h.WriteString("\r\n")
		kind := spec.kind
		if kind == "-" {
			kind = "cl"
		}
		if err := he2eWriteMsg(c, h.Bytes(), kind, spec.body, spec.w, spec.seed); err != nil || !keep {
			return
		}
	}
}

// ---- the frps + frpc pair ----

func he2eGetPair(cfg string) *he2ePair {
	if p, ok := he2ePairs[cfg]; ok {
		return p
	}
	stdlog.SetOutput(io.Discard) // net/http servers of the client plugins log through the standard logger
	if lv := os.Getenv("C02_LOG"); lv != "" {
		frplog.InitLogger("console", lv, 0, true)
	}
	why := ""
	for try := 0; try < 4; try++ {
		p, w := he2eStartPair(cfg)
		if p != nil {
			he2ePairs[cfg] = p
			return p
		}
		why = w
	}
	panic("httpe2e pair " + cfg + " did not come up:" + why)
}

func he2eTransport(t *v1.ProxyTransport, enc, comp bool, lim string) {
	t.UseEncryption, t.UseCompression = enc, comp
	if lim == "none" {
		return
	}
	quantity := he2eSmall
	if strings.HasSuffix(lim, "L") {
		quantity = he2eLarge
	}
	q, err := types.NewBandwidthQuantity(quantity)
	if err != nil {
		panic(err)
	}
	t.BandwidthLimit = q
	t.BandwidthLimitMode = types.BandwidthLimitModeClient
	if strings.HasPrefix(lim, "srv") {
		t.BandwidthLimitMode = types.BandwidthLimitModeServer
	}
}

// one attempt; a loopback port picked in advance may have been taken meanwhile (infrastructure, retried)
func he2eStartPair(cfg string) (*he2ePair, string) {
	mux, tlsOn, pool := cfg[0] == '1', cfg[1] == '1', int(cfg[2]-'0')
	p := &he2ePair{proxies: map[string]*he2eProxy{}}
	scfg := &v1.ServerConfig{}
	scfg.BindAddr = "127.0.0.1"
	scfg.BindPort = freeTCPPort()
	scfg.ProxyBindAddr = "127.0.0.1"
	scfg.VhostHTTPPort = freeTCPPort()
	scfg.VhostHTTPSPort = freeTCPPort()
	scfg.Auth.Token = "c02-token"
	scfg.Transport.TCPMux = &mux
	scfg.Complete()
	svr, err := server.NewService(scfg)
	if err != nil {
		return nil, " frps: " + err.Error()
	}
	go svr.Run(context.Background())
	p.svr, p.vport, p.sport = svr, scfg.VhostHTTPPort, scfg.VhostHTTPSPort

	ccfg := &v1.ClientCommonConfig{}
	ccfg.ServerAddr = "127.0.0.1"
	ccfg.ServerPort = scfg.BindPort
	if !mux {
		p.relay = he2eNewRelay(scfg.BindPort)
		ccfg.ServerPort = p.relay.port()
	}
	ccfg.Auth.Token = "c02-token"
	ccfg.Transport.TLS.Enable = &tlsOn
	ccfg.Transport.TCPMux = &mux
	ccfg.Transport.PoolCount = pool
	f := false
	ccfg.LoginFailExit = &f
	ccfg.Complete()

	var pcs []v1.ProxyConfigurer
	add := func(kind string, enc, comp bool, lim string) {
		ln, err := net.Listen("tcp", "127.0.0.1:0")
		if err != nil {
			panic(err)
		}
		px := &he2eProxy{key: he2eKey(kind, enc, comp, lim), ln: ln, utls: kind == "s2h" || kind == "s2s"}
		px.domain = fmt.Sprintf("%s-%d%d-%s.c02.test", kind, stkBit(enc), stkBit(comp), strings.ToLower(lim))
		if kind == "h2s" || kind == "s2s" {
			ln = tls.NewListener(ln, he2eTLSServer()) // the local service of the *2https plugins speaks TLS
		}
		go he2eBackend(px.key, ln)
		p.proxies[px.key] = px
		p.keys = append(p.keys, px.key)
		crt, keyf := he2eCertFiles()
		if px.utls {
			// https proxy (routed by SNI on the vhost HTTPS port), TLS terminated by the client plugin
			c := &v1.HTTPSProxyConfig{}
			c.Name, c.Type = px.key, "https"
			c.CustomDomains = []string{px.domain}
			if kind == "s2h" {
				c.Plugin.Type = "https2http"
				c.Plugin.ClientPluginOptions = &v1.HTTPS2HTTPPluginOptions{Type: "https2http", LocalAddr: px.ln.Addr().String(), CrtPath: crt, KeyPath: keyf}
			} else {
				c.Plugin.Type = "https2https"
				c.Plugin.ClientPluginOptions = &v1.HTTPS2HTTPSPluginOptions{Type: "https2https", LocalAddr: px.ln.Addr().String(), CrtPath: crt, KeyPath: keyf}
			}
			he2eTransport(&c.Transport, enc, comp, lim)
			c.Complete("")
			pcs = append(pcs, c)
			return
		}
		c := &v1.HTTPProxyConfig{}
		c.Name, c.Type = px.key, "http"
		c.CustomDomains = []string{px.domain}
		switch kind {
		case "h2h":
			c.Plugin.Type = "http2http"
			c.Plugin.ClientPluginOptions = &v1.HTTP2HTTPPluginOptions{Type: "http2http", LocalAddr: px.ln.Addr().String()}
		case "h2s":
			c.Plugin.Type = "http2https"
			c.Plugin.ClientPluginOptions = &v1.HTTP2HTTPSPluginOptions{Type: "http2https", LocalAddr: px.ln.Addr().String()}
		default:
			c.LocalIP, c.LocalPort = "127.0.0.1", px.ln.Addr().(*net.TCPAddr).Port
		}
		he2eTransport(&c.Transport, enc, comp, lim)
		c.Complete("")
		pcs = append(pcs, c)
	}
	for _, enc := range []bool{false, true} {
		for _, comp := range []bool{false, true} {
			for _, lim := range he2eLims {
				add("plain", enc, comp, lim)
			}
		}
	}
	for _, ec := range []bool{false, true} {
		add("h2h", ec, ec, "cliS")
	}
	// every client plugin of the property x useEncryption x useCompression (concurrent rounds, op hc)
	for _, kind := range he2ePlugKinds {
		for _, enc := range []bool{false, true} {
			for _, comp := range []bool{false, true} {
				add(kind, enc, comp, "none")
			}
		}
	}
	sort.Strings(p.keys)
	cli, err := client.NewService(client.ServiceOptions{Common: ccfg, ProxyCfgs: pcs})
	if err != nil {
		panic(err)
	}
	go func() { _ = cli.Run(context.Background()) }()
	p.cli = cli
	deadline := time.Now().Add(8 * time.Second)
	for {
		n := 0
		for _, k := range p.keys {
			if st, ok := cli.StatusExporter().GetProxyStatus(k); ok && st.Phase == "running" {
				n++
			}
		}
		if n == len(p.keys) {
			return p, ""
		}
		if time.Now().After(deadline) {
			why := ""
			for _, k := range p.keys {
				if st, ok := cli.StatusExporter().GetProxyStatus(k); !ok || st.Phase != "running" {
					why += fmt.Sprintf(" %s:%v", k, st)
				}
			}
			cli.Close()
			_ = svr.Close()
			if p.relay != nil {
				p.relay.ln.Close()
			}
			for _, px := range p.proxies {
				px.ln.Close()
			}
			return nil, why
		}
		time.Sleep(10 * time.Millisecond)
	}
}

// ---- one exchange ----

func (p *he2ePair) dropUser() {
	if p.user != nil {
		p.user.Close()
		p.user, p.ubr = nil, nil
	}
}

func (p *he2ePair) userConn() error {
	if p.user != nil {
		return nil
	}
	c, err := net.DialTimeout("tcp", net.JoinHostPort("127.0.0.1", strconv.Itoa(p.vport)), 3*time.Second)
	if err != nil {
		return err
	}
	p.user, p.ubr = c, bufio.NewReaderSize(c, 64*1024)
	return nil
}

func he2eIsTimeout(err error) bool {
	var ne net.Error
	return errors.As(err, &ne) && ne.Timeout()
}

func he2eDrainSeen() {
	for {
		select {
		case <-he2eSeenCh:
		default:
			return
		}
	}
}

// the record of attempt id: present at once when an answer of the backend came back (it records
// first); otherwise waited for briefly (a request that died on the way shows up when its connection
// is closed)
func he2eTakeSeen(id string, d time.Duration) *he2eSeen {
	var dl <-chan time.Time
	for {
		select { // what is there already comes first
		case s := <-he2eSeenCh:
			if s.op == id {
				return s
			}
			continue
		default:
		}
		if d <= 0 {
			return nil
		}
		if dl == nil {
			dl = time.After(d)
		}
		select {
		case s := <-he2eSeenCh:
			if s.op == id {
				return s
			}
		case <-dl:
			return nil
		}
	}
}

type he2eRes struct {
	err  string // connect | write | timeout : nothing came back
	text string
}

func he2eOnce(p *he2ePair, px *he2eProxy, kv map[string]string, attempt int) he2eRes {
	he2eOpSeq++
	id := fmt.Sprintf("%d.%d", he2eOpSeq, attempt)
	method, target := kv["m"], unhx(kv["p"])
	ukind, ubody := he2eBodySpec(kv["up"])
	spec := &he2eSpec{id: id, status: atoi(kv["st"]), w: atoi(kv["dnw"]), keep: kv["keep"] == "1", seed: int64(he2eOpSeq)}
	spec.kind, spec.body = he2eBodySpec(kv["dn"])
	he2eMu.Lock()
	he2eCur = spec
	he2eMu.Unlock()
	he2eDrainSeen()

	// time the limiter alone needs for this exchange, doubled, plus patience that grows with the attempt
	patience := time.Duration(6*(attempt+1)) * time.Second
	if lim := kv["lim"]; lim != "none" {
		rate := he2eSmallBurst
		if strings.HasSuffix(lim, "L") {
			rate = he2eLargeBurst
		}
		patience += 2 * time.Duration(len(ubody)+len(spec.body)) * time.Second / time.Duration(rate)
	}
	fresh := p.user == nil
	if err := p.userConn(); err != nil {
		return he2eRes{err: "connect"}
	}
	_ = p.user.SetDeadline(time.Now().Add(patience))
	var h bytes.Buffer
	fmt.Fprintf(&h, "%s %s HTTP/1.1\r\nHost: %s\r\nX-Op: %s\r\nUser-Agent: he2e\r\n", method, target, px.domain, id)
	switch ukind {
	case "cl":
		fmt.Fprintf(&h, "Content-Length: %d\r\n", len(ubody))
	case "ch":
		h.WriteString("Transfer-Encoding: chunked\r\n")
	}
	h.WriteString("\r\n")
	werr := make(chan error, 1)
	go func(c net.Conn) { werr <- he2eWriteMsg(c, h.Bytes(), ukind, ubody, atoi(kv["upw"]), int64(he2eOpSeq)) }(p.user)
	resp, err := http.ReadResponse(p.ubr, &http.Request{Method: method})
	if err != nil {
		to := he2eIsTimeout(err)
		p.dropUser()
		<-werr
		if to {
			return he2eRes{err: "timeout"}
		}
		// the connection ended without an answer: was the request seen by a backend at all?
		s := he2eTakeSeen(id, 300*time.Millisecond)
		if s == nil && !fresh {
			return he2eRes{err: "stale"} // a persistent connection the server had closed meanwhile
		}
		return he2eRes{text: he2eFmt(px, s, nil, nil, "cut", ubody, spec)}
	}
	rb, rerr := io.ReadAll(resp.Body)
	resp.Body.Close()
	end := "ok"
	if rerr != nil {
		end = "cut"
		if he2eIsTimeout(rerr) {
			end = "timeout"
		}
	}
	if rerr != nil || resp.Close || resp.Header.Get("X-Be") == "" {
		// (an answer that is not the backend's: frps may not read the rest of the upload — stop sending it)
		p.dropUser()
	}
	<-werr
	var s *he2eSeen
	if resp.Header.Get("X-Be") != "" {
		s = he2eTakeSeen(id, 0)
	}
	if s == nil {
		s = he2eTakeSeen(id, 300*time.Millisecond)
	}
	if end == "timeout" {
		return he2eRes{err: "timeout", text: he2eFmt(px, s, resp, rb, end, ubody, spec)}
	}
	return he2eRes{text: he2eFmt(px, s, resp, rb, end, ubody, spec)}
}

func he2eFmt(px *he2eProxy, s *he2eSeen, resp *http.Response, rb []byte, end string, ubody []byte, spec *he2eSpec) string {
	var sb strings.Builder
	if s != nil {
		up := "-"
		if s.fr != "no" {
			up = he2eHash(s.body)
		}
		fmt.Fprintf(&sb, "be=%s;m=%s;t=%s;up=%s;ufr=%s", s.key, s.method, hx(s.target), up, s.fr)
	} else {
		sb.WriteString("be=-;m=-;t=-;up=-;ufr=no")
	}
	if resp != nil {
		fr := "no"
		switch {
		case len(resp.TransferEncoding) > 0:
			fr = "ch"
		case resp.ContentLength >= 0:
			fr = "cl"
		case resp.Close:
			fr = "eof"
		}
		tag := resp.Header.Get("X-Be")
		if tag == "" {
			tag = "-"
		}
		fmt.Fprintf(&sb, ";st=%d;tag=%s;down=%s;dfr=%s;end=%s", resp.StatusCode, tag, he2eHash(rb), fr, end)
	} else {
		fmt.Fprintf(&sb, ";st=0;tag=-;down=0.0;dfr=no;end=%s", end)
	}
	if s != nil && len(ubody) > 0 && len(ubody) <= 24 && len(s.body) <= 24 {
		fmt.Fprintf(&sb, ";sent=%s;got=%s", hx(string(ubody)), hx(string(s.body)))
	}
	if resp != nil && len(spec.body) > 0 && len(spec.body) <= 24 && len(rb) <= 24 {
		fmt.Fprintf(&sb, ";rsent=%s;rgot=%s", hx(string(spec.body)), hx(string(rb)))
	}
	return sb.String()
}

func he2eHx(kv map[string]string) string {
	p := he2eGetPair(kv["cfg"])
	px := p.proxies[he2eKey(kv["kind"], kv["enc"] == "1", kv["comp"] == "1", kv["lim"])]
	if px == nil {
		return "noproxy"
	}
	r := he2eOnce(p, px, kv, 0)
	if r.err != "" {
		// nothing but a timeout / a dead persistent connection (loaded machine?): once more, alone, on a
		// fresh connection with more patience — a systematic fault shows again
		p.dropUser()
		if os.Getenv("C02_DEBUG") != "" {
			fmt.Fprintf(os.Stderr, "httpe2e retry after %s: %v\n", r.err, kv)
		}
		r = he2eOnce(p, px, kv, 1)
	}
	if r.text != "" {
		return r.text
	}
	p.dropUser()
	return "err=" + r.err
}

func he2eExec(tok []string) string {
	kv := stkKV(tok)
	switch tok[0] {
	case "reset":
		return "-"
	case "hx":
		return he2eHx(kv)
	case "hc":
		return he2eHc(kv)
	case "hf":
		return he2eHf(kv)
	case "hl":
		return he2eHl(kv)
	}
	return "badop"
}

// ---- generator ----

func he2eGen(rng *rand.Rand, n int, emit func(string)) {
	emit("reset")
	paths := []string{"/", "/a/b%20c?x=1&y=2", "/blob?size=1", "/~u/-_.!$&'()*+,=", "/a%2Fb"}
	budget := 90000 + n*2500 // bytes that may go through the small (8 KB/s) limiters in this run
	op := func(cfg, kind string, enc, comp int, lim, m, upk string, upn, upw int, dnk string, dnn, dnw int, pat string, keep int) {
		if strings.HasSuffix(lim, "S") {
			budget -= upn + dnn
		}
		up, dn := "-", "-"
		if upk != "-" {
			up = upk + ":" + he2eTok(pat, rng.Intn(100000), upn)
		}
		if dnk != "-" {
			dn = dnk + ":" + he2eTok(pat, rng.Intn(100000), dnn)
		}
		emit(fmt.Sprintf("hx cfg=%s kind=%s enc=%d comp=%d lim=%s m=%s p=%s up=%s upw=%d dn=%s dnw=%d st=%d keep=%d",
			cfg, kind, enc, comp, lim, m, hx(pick(rng, paths)), up, upw, dn, dnw, pick(rng, []int{200, 200, 200, 201, 404, 500}), keep))
	}
	above := func(burst int) int { // a body that needs more than one burst: 1.2 .. 2.6 bursts
		return burst + burst/5 + rng.Intn(burst*7/5)
	}
	// every run: each limiter side with a body above the burst arriving in one piece, both framings
	// (the region where limit.Writer has to split a write), on proxies that differ in enc / comp
	op("111", "plain", 0, 0, "cliS", "GET", "-", 0, 0, "cl", above(he2eSmallBurst), 0, "r", 1)
	op("111", "plain", 1, 1, "cliS", "GET", "-", 0, 0, "ch", above(he2eSmallBurst), 0, "r", 1)
	op("111", "plain", 0, 1, "srvS", "POST", "cl", above(he2eSmallBurst)+4096, 0, "cl", 10, 0, "r", 1)
	op("111", "plain", 1, 0, "srvS", "PUT", "ch", above(he2eSmallBurst)+4096, 0, "-", 0, 0, "r", 0)
	op("111", "h2h", 1, 1, "cliS", "GET", "-", 0, 0, "cl", above(he2eSmallBurst), 0, "r", 1)
	op("111", "plain", 1, 1, "cliL", "POST", "cl", 300, 0, "eof", he2eLargeBurst+1+rng.Intn(200000), 0, "m", 0)
	op("000", "plain", 1, 1, "srvL", "POST", "ch", he2eLargeBurst+1+rng.Intn(200000), -1, "cl", 1, 0, "m", 1)
	op("000", "plain", 1, 1, "none", "POST", "cl", 300000, 0, "ch", 300000, 0, "z", 1)
	// concurrent rounds: first every kind (plain path, four plugins) with compression on / off on ONE proxy
	he2eGenRounds(rng, 10, true, emit)
	// faults mid-exchange and long-lived rounds (eng_http_e2e_fault.go; an RNG of their own): first one answer fault and
	// one round of 17-24 held streams per kind, a killed work connection, then mixed into the stream below
	frng := sideRng(0xe2e)
	allKinds := append([]string{"plain"}, he2ePlugKinds...)
	for i, kind := range allKinds {
		he2eGenFault(frng, kind, 'd', emit)
		he2eGenLong(frng, kind, 17+frng.Intn(8), []string{"ch", "eof", "ch", "poll", "ch"}[i], emit)
	}
	he2eGenFault(frng, "plain", 'w', emit)
	he2eGenFault(frng, pick(frng, he2ePlugKinds[:2]), 'w', emit)
	smallSizes := []int{0, 1, 24, 100, 4000, he2eSmallBurst - 1, he2eSmallBurst, he2eSmallBurst + 1}
	sizes := []int{0, 1, 2, 17, 24, 1000, 4095, 4096, 16383, 16384, 16385, 32769, 65537, 200000}
	for i := 0; i < n; i++ {
		cfg := pick(rng, []string{"111", "111", "111", "000"})
		kind, enc, comp := "plain", rng.Intn(2), rng.Intn(2)
		lim := pick(rng, []string{"none", "none", "srvS", "cliS", "srvS", "cliS", "srvL", "cliL"})
		if rng.Intn(6) == 0 {
			kind, comp, lim = "h2h", enc, pick(rng, []string{"none", "cliS"})
		}
		m := pick(rng, []string{"GET", "GET", "POST", "PUT"})
		size := func(big bool) int {
			if strings.HasSuffix(lim, "S") {
				if big && budget > 3*he2eSmallBurst && rng.Intn(3) != 0 {
					return above(he2eSmallBurst)
				}
				if budget < he2eSmallBurst+1 {
					return pick(rng, smallSizes[:4])
				}
				return pick(rng, smallSizes)
			}
			if big && rng.Intn(3) == 0 {
				return rng.Intn(120000)
			}
			return pick(rng, sizes)
		}
		// one direction carries the large body, the other a small one
		upBig := m != "GET" && rng.Intn(2) == 0
		upk, upn := "-", 0
		if m != "GET" {
			upk = pick(rng, []string{"cl", "cl", "ch"})
			upn = size(upBig)
			if !upBig && upn > 100 {
				upn = rng.Intn(100)
			}
		}
		dnk := pick(rng, []string{"cl", "cl", "ch", "ch", "eof", "-"})
		dnn := 0
		if dnk != "-" {
			dnn = size(!upBig)
			if upBig && dnn > 100 {
				dnn = rng.Intn(100)
			}
		}
		keep := 1
		if rng.Intn(5) == 0 {
			keep = 0
		}
		w := func() int { return pick(rng, []int{0, 0, 0, 1000, 4096, 16384, -1}) }
		op(cfg, kind, enc, comp, lim, m, upk, upn, w(), dnk, dnn, w(), pick(rng, []string{"r", "r", "z", "m"}), keep)
		if i%2 == 1 {
			he2eGenRounds(rng, 1, false, emit)
		}
		if i%3 == 0 {
			he2eGenFault(frng, pick(frng, allKinds), []byte("dddduuqqw")[frng.Intn(9)], emit)
		}
		if i%10 == 5 {
			he2eGenLong(frng, pick(frng, allKinds), pick(frng, []int{3, 9, 16, 17, 20, 24}), pick(frng, []string{"ch", "ch", "eof", "poll"}), emit)
		}
	}
}
