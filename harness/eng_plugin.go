package main

import (
	"context"
	"encoding/json"
	"errors"
	"fmt"
	"io"
	"math/rand"
	"net"
	"net/http"
	"net/http/httptest"
	"os"
	"regexp"
	"runtime"
	"runtime/pprof"
	"strconv"
	"strings"
	"sync"
	"time"

	"github.com/samber/lo"

	v1 "github.com/fatedier/frp/pkg/config/v1"
	plugin "github.com/fatedier/frp/pkg/plugin/server"
	frplog "github.com/fatedier/frp/pkg/util/log"
)

// Engine "plugin" (C15): the real plugin.Manager with
//   - stub Plugin implementations (kinds acc, accC, app, setb, zero, rej, rejmod, err, nil, rejsuf, errsuf)
//   - real httpPlugin instances (plugin.NewHTTPPluginOptions) talking to one scripted HTTP server
//     (kinds h…: hacc happ hpart haccC hct hrej hrejU hempty hnull hcnull hcnullU hcstr hbadfield
//     hmal htrunc hs<code> hreset hrefused hrejsuf herrsuf; hxlat <t> <v>: the content member `a` equal to the ticket t
//     becomes v, anything else is rejected; hsub <t> <v>: t becomes v, anything else passes unchanged)
//
// the scripted HTTP server can be put into HOLD mode (`J` steps of `hist`, eng_plugin_par.go): a request is put on record
// when it arrives and answered only when the scenario releases it, with the script its plugin has at that moment.
//
// every registered plugin is wrapped in a recorder that notes (id, content seen) per Handle call.
//
//	reset                                  => -
//	reg <id> <ops> <kind> <x1> <x2>        => -
//	call <Op> <a> <b>                      => <res> | <consulted>
//	site <user> <proxy> <e|s>              => see eng_plugin_site.go (one proxy through every gated call site)
//	sess <user> <script>                   => see eng_plugin_sess.go (one session, several proxies, close notifications)
//	hist <script>                          => see eng_plugin_hist.go (a history: several sessions, re-logins, behaviour flips, repeated gated ops)
//
// Visible content members (a, b) per op:
//
//	Login: Login.User, ClientAddress          NewProxy: NewProxy.ProxyName, User.User
//	CloseProxy: CloseProxy.ProxyName, User.User   Ping: credentials of the Ping, User.User
//	NewWorkConn: credentials of the NewWorkConn, User.User NewUserConn: ProxyName, RemoteAddr
//
// credentials = PrivilegeKey and Timestamp as ONE string (credStr): the key alone when the timestamp is 0, else
// <key>@<timestamp>; what pkg/auth checks is a function of exactly this pair.
type plugSeen struct {
	id   int
	a, b string
}

type plugScript struct {
	kind   string
	x1, x2 string
	id     int
}

type plugState struct {
	mgr       *plugin.Manager
	mu        sync.Mutex
	consulted []plugSeen
	curOp     string
	scripts   map[string]*plugScript // by URL path
	nreg      int
	httpRegs  []v1.HTTPPluginOptions // every h… registration, in order (for `site`)
	siteBad   string                 // why `site` cannot run on this chain ("" = it can)
	wire      []plugWire             // requests seen by the scripted HTTP server
	wireGen   int                    // bumped whenever wire is reset
	hold      *holdState             // non-nil: every request is recorded, then held until released
}

type plugWire struct {
	op   string
	id   int
	a, b string
	r0   bool // the scripted server answered "reject" with an empty reject_reason
	// whose occurrence this request belongs to: the remote address of the user connection (NewUserConn), the
	// client address (Login), the run id of the session (Ping, NewProxy, NewWorkConn, CloseProxy)
	key string
	// NewWorkConn: the run id of the message is not the run id of the session it is offered under
	ridBad bool
}

// one request the scripted server is holding back (hold mode: the plugin takes its time to answer)
type heldReq struct {
	idx int // index into plugState.wire
	w   plugWire
	rel chan struct{}
}

type holdState struct {
	ev  chan *heldReq // arrivals
	off chan struct{} // closed when the hold ends: whatever is still held is answered
}

func wireKey(content any) (string, bool) {
	switch c := content.(type) {
	case plugin.LoginContent:
		return c.ClientAddress, false
	case plugin.NewProxyContent:
		return c.User.RunID, false
	case plugin.CloseProxyContent:
		return c.User.RunID, false
	case plugin.PingContent:
		return c.User.RunID, false
	case plugin.NewWorkConnContent:
		return c.User.RunID, c.NewWorkConn.RunID != c.User.RunID
	case plugin.NewUserConnContent:
		return c.RemoteAddr, false
	}
	return "", false
}

var plugPathSeq int // never reset: a late request of an earlier Service must not hit a new script

var (
	pst         *plugState
	plugSrv     *httptest.Server
	plugSrvOnce sync.Once
	plugDead    string
)

// ---- credentials (privilege key + timestamp) as one visible member

func credStr(key string, ts int64) string {
	if ts == 0 {
		return key
	}
	return key + "@" + strconv.FormatInt(ts, 10)
}

// inverse of credStr: a trailing @<positive decimal without leading zero, fitting int64> is the timestamp
func credSplit(a string) (string, int64) {
	i := strings.LastIndexByte(a, '@')
	if i < 0 || i+1 >= len(a) || a[i+1] < '1' || a[i+1] > '9' {
		return a, 0
	}
	for _, ch := range a[i+1:] {
		if ch < '0' || ch > '9' {
			return a, 0
		}
	}
	ts, err := strconv.ParseInt(a[i+1:], 10, 64)
	if err != nil {
		return a, 0
	}
	return a[:i], ts
}

// ---- content access

func getAB(content any) (string, string) {
	switch c := content.(type) {
	case plugin.LoginContent:
		return c.Login.User, c.ClientAddress
	case *plugin.LoginContent:
		return c.Login.User, c.ClientAddress
	case plugin.NewProxyContent:
		return c.NewProxy.ProxyName, c.User.User
	case *plugin.NewProxyContent:
		return c.NewProxy.ProxyName, c.User.User
	case plugin.CloseProxyContent:
		return c.CloseProxy.ProxyName, c.User.User
	case *plugin.CloseProxyContent:
		return c.CloseProxy.ProxyName, c.User.User
	case plugin.PingContent:
		return credStr(c.Ping.PrivilegeKey, c.Ping.Timestamp), c.User.User
	case *plugin.PingContent:
		return credStr(c.Ping.PrivilegeKey, c.Ping.Timestamp), c.User.User
	case plugin.NewWorkConnContent:
		return credStr(c.NewWorkConn.PrivilegeKey, c.NewWorkConn.Timestamp), c.User.User
	case *plugin.NewWorkConnContent:
		return credStr(c.NewWorkConn.PrivilegeKey, c.NewWorkConn.Timestamp), c.User.User
	case plugin.NewUserConnContent:
		return c.ProxyName, c.RemoteAddr
	case *plugin.NewUserConnContent:
		return c.ProxyName, c.RemoteAddr
	}
	panic(fmt.Sprintf("unknown content type %T", content))
}

// withAB returns a pointer to a copy of content (a value) with the visible members replaced.
func withAB(content any, a, b string) any {
	switch c := content.(type) {
	case plugin.LoginContent:
		c.Login.User, c.ClientAddress = a, b
		return &c
	case plugin.NewProxyContent:
		c.NewProxy.ProxyName, c.User.User = a, b
		return &c
	case plugin.CloseProxyContent:
		c.CloseProxy.ProxyName, c.User.User = a, b
		return &c
	case plugin.PingContent:
		c.Ping.PrivilegeKey, c.Ping.Timestamp = credSplit(a)
		c.User.User = b
		return &c
	case plugin.NewWorkConnContent:
		c.NewWorkConn.PrivilegeKey, c.NewWorkConn.Timestamp = credSplit(a)
		c.User.User = b
		return &c
	case plugin.NewUserConnContent:
		c.ProxyName, c.RemoteAddr = a, b
		return &c
	}
	panic(fmt.Sprintf("unknown content type %T", content))
}

func zeroOf(content any) any {
	switch content.(type) {
	case plugin.LoginContent:
		return &plugin.LoginContent{}
	case plugin.NewProxyContent:
		return &plugin.NewProxyContent{}
	case plugin.CloseProxyContent:
		return &plugin.CloseProxyContent{}
	case plugin.PingContent:
		return &plugin.PingContent{}
	case plugin.NewWorkConnContent:
		return &plugin.NewWorkConnContent{}
	case plugin.NewUserConnContent:
		return &plugin.NewUserConnContent{}
	}
	panic("zeroOf")
}

// ---- stub plugin

type stubPlugin struct {
	name string
	ops  []string
	plugScript
}

func (s *stubPlugin) Name() string { return s.name }
func (s *stubPlugin) IsSupport(op string) bool {
	for _, o := range s.ops {
		if o == op {
			return true
		}
	}
	return false
}

func (s *stubPlugin) Handle(_ context.Context, _ string, content any) (*plugin.Response, any, error) {
	a, b := getAB(content)
	switch s.kind {
	case "acc":
		return &plugin.Response{Unchange: true}, nil, nil
	case "accC":
		return &plugin.Response{Unchange: true}, withAB(content, a+s.x1, b), nil
	case "app":
		return &plugin.Response{}, withAB(content, a+s.x1, b), nil
	case "setb":
		return &plugin.Response{}, withAB(content, a, s.x1), nil
	case "zero":
		return &plugin.Response{}, zeroOf(content), nil
	case "rej":
		return &plugin.Response{Reject: true, RejectReason: s.x1, Unchange: true}, nil, nil
	case "rejmod":
		return &plugin.Response{Reject: true, RejectReason: s.x1}, withAB(content, a+s.x2, b), nil
	case "err":
		return nil, nil, errors.New("boom")
	case "nil":
		return &plugin.Response{}, nil, nil
	case "rejsuf":
		if strings.HasSuffix(a, s.x1) {
			return &plugin.Response{Reject: true, RejectReason: s.x2, Unchange: true}, nil, nil
		}
		return &plugin.Response{Unchange: true}, nil, nil
	case "errsuf":
		if strings.HasSuffix(a, s.x1) {
			return nil, nil, errors.New("boom")
		}
		return &plugin.Response{Unchange: true}, nil, nil
	}
	panic("stub kind " + s.kind)
}

// ---- recorder around any plugin

type recPlugin struct {
	id    int
	inner plugin.Plugin
}

func (r *recPlugin) Name() string             { return r.inner.Name() }
func (r *recPlugin) IsSupport(op string) bool { return r.inner.IsSupport(op) }
func (r *recPlugin) Handle(ctx context.Context, op string, content any) (*plugin.Response, any, error) {
	a, b := getAB(content)
	id := r.id
	if op != pst.curOp {
		id += 100000 // the manager method passed another op than its own
	}
	pst.mu.Lock()
	pst.consulted = append(pst.consulted, plugSeen{id, a, b})
	pst.mu.Unlock()
	return r.inner.Handle(ctx, op, content)
}

// ---- the scripted HTTP server behind the real httpPlugin

func reqContent(op string, raw json.RawMessage) (any, error) {
	switch op {
	case plugin.OpLogin:
		var c plugin.LoginContent
		err := json.Unmarshal(raw, &c)
		return c, err
	case plugin.OpNewProxy:
		var c plugin.NewProxyContent
		err := json.Unmarshal(raw, &c)
		return c, err
	case plugin.OpCloseProxy:
		var c plugin.CloseProxyContent
		err := json.Unmarshal(raw, &c)
		return c, err
	case plugin.OpPing:
		var c plugin.PingContent
		err := json.Unmarshal(raw, &c)
		return c, err
	case plugin.OpNewWorkConn:
		var c plugin.NewWorkConnContent
		err := json.Unmarshal(raw, &c)
		return c, err
	case plugin.OpNewUserConn:
		var c plugin.NewUserConnContent
		err := json.Unmarshal(raw, &c)
		return c, err
	}
	return nil, fmt.Errorf("op %q", op)
}

func partialJSON(op, a string) string {
	key := map[string]string{
		plugin.OpLogin: "user", plugin.OpNewProxy: "proxy_name", plugin.OpCloseProxy: "proxy_name",
		plugin.OpPing: "privilege_key", plugin.OpNewWorkConn: "privilege_key", plugin.OpNewUserConn: "proxy_name",
	}[op]
	if op == plugin.OpPing || op == plugin.OpNewWorkConn {
		k, ts := credSplit(a)
		v, _ := json.Marshal(k)
		return fmt.Sprintf(`{%q:%s,"timestamp":%d}`, key, v, ts)
	}
	v, _ := json.Marshal(a)
	return fmt.Sprintf(`{%q:%s}`, key, v)
}

func plugHTTPHandler(w http.ResponseWriter, r *http.Request) {
	pst := pst // a request of an earlier chain that is answered late must not touch the state of a later one
	pst.mu.Lock()
	sc := pst.scripts[r.URL.Path]
	pst.mu.Unlock()
	body, _ := io.ReadAll(r.Body)
	var req struct {
		Version string          `json:"version"`
		Op      string          `json:"op"`
		Content json.RawMessage `json:"content"`
	}
	if sc == nil || json.Unmarshal(body, &req) != nil || req.Op != r.URL.Query().Get("op") {
		w.WriteHeader(599) // harness trouble: shows up as a divergence
		return
	}
	content, err := reqContent(req.Op, req.Content)
	if err != nil {
		w.WriteHeader(598)
		return
	}
	a, b := getAB(content)
	key, ridBad := wireKey(content)
	pst.mu.Lock()
	idx, gen, hold := len(pst.wire), pst.wireGen, pst.hold
	we := plugWire{op: req.Op, id: sc.id, a: a, b: b, key: key, ridBad: ridBad}
	pst.wire = append(pst.wire, we)
	pst.mu.Unlock()
	if hold != nil {
		// the request is on record; the answer is given when the scenario says so, by the script of THAT moment
		hr := &heldReq{idx: idx, w: we, rel: make(chan struct{})}
		select {
		case hold.ev <- hr:
			select {
			case <-hr.rel:
			case <-hold.off:
			case <-time.After(10 * time.Second):
			}
		case <-hold.off:
		}
		pst.mu.Lock()
		if cur := pst.scripts[r.URL.Path]; cur != nil {
			sc = cur
		}
		pst.mu.Unlock()
	}
	r0 := (sc.kind == "hrej" || sc.kind == "hrejU") && sc.x1 == "" ||
		sc.kind == "hrejsuf" && sc.x2 == "" && strings.HasSuffix(a, sc.x1)
	if r0 {
		pst.mu.Lock()
		if pst.wireGen == gen && idx < len(pst.wire) {
			pst.wire[idx].r0 = true
		}
		pst.mu.Unlock()
	}
	js := func(v any) string { buf, _ := json.Marshal(v); return string(buf) }
	reply := func(s string) {
		w.Header().Set("Content-Type", "application/json")
		_, _ = io.WriteString(w, s)
	}
	hijackClose := func(pre string) {
		conn, _, err := w.(http.Hijacker).Hijack()
		if err != nil {
			return
		}
		if pre != "" {
			_, _ = io.WriteString(conn, pre)
		}
		conn.Close()
	}
	switch {
	case sc.kind == "hacc":
		reply(`{"reject":false,"unchange":true}`)
	case sc.kind == "happ":
		reply(`{"reject":false,"unchange":false,"content":` + js(withAB(content, a+sc.x1, b)) + `}`)
	case sc.kind == "hct":
		w.Header().Set("Content-Type", "text/plain")
		_, _ = io.WriteString(w, `{"reject":false,"unchange":false,"content":`+js(withAB(content, a+sc.x1, b))+`}`)
	case sc.kind == "hpart":
		reply(`{"unchange":false,"content":` + partialJSON(req.Op, a+sc.x1) + `}`)
	case sc.kind == "haccC":
		reply(`{"unchange":true,"content":` + js(withAB(content, a+sc.x1, b)) + `}`)
	case sc.kind == "hrej":
		reply(`{"reject":true,"reject_reason":` + js(sc.x1) + `}`)
	case sc.kind == "hrejU":
		reply(`{"reject":true,"reject_reason":` + js(sc.x1) + `,"unchange":true}`)
	case sc.kind == "hempty":
		reply(`{}`)
	case sc.kind == "hnull":
		reply(`null`)
	case sc.kind == "hcnull":
		reply(`{"reject":false,"unchange":false,"content":null}`)
	case sc.kind == "hcnullU":
		reply(`{"reject":false,"unchange":true,"content":null}`)
	case sc.kind == "hcstr":
		reply(`{"reject":false,"unchange":true,"content":"a string"}`)
	case sc.kind == "hbadfield":
		reply(`{"reject":"no","unchange":true}`)
	case sc.kind == "hmal":
		reply(sc.x1)
	case sc.kind == "htrunc":
		hijackClose("HTTP/1.1 200 OK\r\nContent-Type: application/json\r\nContent-Length: 100\r\n\r\n{\"unchange\":true")
	case sc.kind == "hreset":
		hijackClose("")
	case sc.kind == "hrejsuf":
		if strings.HasSuffix(a, sc.x1) {
			reply(`{"reject":true,"reject_reason":` + js(sc.x2) + `}`)
		} else {
			reply(`{"reject":false,"unchange":true}`)
		}
	case sc.kind == "hxlat": // a translator: the ticket x1 becomes x2, anything else is turned away
		if a == sc.x1 {
			reply(`{"reject":false,"unchange":false,"content":` + js(withAB(content, sc.x2, b)) + `}`)
		} else {
			reply(`{"reject":true,"reject_reason":"no ticket"}`)
		}
	case sc.kind == "hsub": // x1 becomes x2, anything else passes as it is
		if a == sc.x1 {
			reply(`{"reject":false,"unchange":false,"content":` + js(withAB(content, sc.x2, b)) + `}`)
		} else {
			reply(`{"reject":false,"unchange":true}`)
		}
	case sc.kind == "herrsuf": // fails for some contents only (a transient / content dependent failure)
		w.Header().Set("Content-Type", "application/json")
		if strings.HasSuffix(a, sc.x1) {
			w.WriteHeader(500)
		}
		_, _ = io.WriteString(w, `{"reject":false,"unchange":true}`)
	case strings.HasPrefix(sc.kind, "hs"):
		code, _ := strconv.Atoi(sc.kind[2:])
		w.Header().Set("Content-Type", "application/json")
		w.WriteHeader(code)
		_, _ = io.WriteString(w, `{"reject":false,"unchange":true}`)
	default:
		w.WriteHeader(597)
	}
}

func plugReset() {
	plugSrvOnce.Do(func() {
		// frp's console logger writes to stdout, where the trace goes: a recovered panic the server logs (a work
		// connection that registers while its session ends) must not tear the trace apart
		frplog.InitLogger(os.DevNull, "error", 0, true)
		plugSrv = httptest.NewServer(http.HandlerFunc(plugHTTPHandler))
		l, err := net.Listen("tcp", "127.0.0.1:0")
		if err != nil {
			panic(err)
		}
		plugDead = l.Addr().String()
		l.Close()
	})
	pst = &plugState{mgr: plugin.NewManager(), scripts: map[string]*plugScript{}}
}

var plugErrName = regexp.MustCompile(`\[s(\d+)\]: `)

func plugCons() string {
	if len(pst.consulted) == 0 {
		return "-"
	}
	parts := make([]string, len(pst.consulted))
	for i, s := range pst.consulted {
		parts[i] = fmt.Sprintf("%d:%s:%s", s.id, hx(s.a), hx(s.b))
	}
	return strings.Join(parts, ",")
}

func plugCall(op, a, b string) (res string) {
	pst.consulted = nil
	pst.curOp = op
	defer func() {
		if r := recover(); r != nil {
			res = "panic | " + plugCons()
		}
	}()
	gatedRes := func(ret any, err error) string {
		if err != nil {
			return "err " + hx(err.Error()) + " | " + plugCons()
		}
		ra, rb := getAB(ret)
		return "ok " + hx(ra) + " " + hx(rb) + " | " + plugCons()
	}
	switch op {
	case plugin.OpLogin:
		c := &plugin.LoginContent{ClientAddress: b}
		c.Login.User = a
		r, err := pst.mgr.Login(c)
		return gatedRes(r, err)
	case plugin.OpNewProxy:
		c := &plugin.NewProxyContent{User: plugin.UserInfo{User: b}}
		c.NewProxy.ProxyName = a
		r, err := pst.mgr.NewProxy(c)
		return gatedRes(r, err)
	case plugin.OpPing:
		c := &plugin.PingContent{User: plugin.UserInfo{User: b}}
		c.Ping.PrivilegeKey, c.Ping.Timestamp = credSplit(a)
		r, err := pst.mgr.Ping(c)
		return gatedRes(r, err)
	case plugin.OpNewWorkConn:
		c := &plugin.NewWorkConnContent{User: plugin.UserInfo{User: b}}
		c.NewWorkConn.PrivilegeKey, c.NewWorkConn.Timestamp = credSplit(a)
		r, err := pst.mgr.NewWorkConn(c)
		return gatedRes(r, err)
	case plugin.OpNewUserConn:
		c := &plugin.NewUserConnContent{ProxyName: a, RemoteAddr: b}
		r, err := pst.mgr.NewUserConn(c)
		return gatedRes(r, err)
	case plugin.OpCloseProxy:
		c := &plugin.CloseProxyContent{User: plugin.UserInfo{User: b}}
		c.CloseProxy.ProxyName = a
		err := pst.mgr.CloseProxy(c)
		if err == nil {
			return "ok | " + plugCons()
		}
		ids := []string{}
		for _, m := range plugErrName.FindAllStringSubmatch(err.Error(), -1) {
			ids = append(ids, m[1])
		}
		return "errs " + strings.Join(ids, ",") + " | " + plugCons()
	}
	return "bad-op"
}

// VERIF_PLUG_PROF=<file>: every 5000 ops the number of goroutines and the heap in use go to stderr and a heap
// profile is written to <file> (diagnosis of what a long run accumulates)
var plugOps4Prof int

func plugProf() {
	f := os.Getenv("VERIF_PLUG_PROF")
	if f == "" {
		return
	}
	plugOps4Prof++
	if plugOps4Prof%5000 != 0 {
		return
	}
	runtime.GC()
	var ms runtime.MemStats
	runtime.ReadMemStats(&ms)
	fmt.Fprintf(os.Stderr, "ops=%d goroutines=%d heapInuse=%dMB sys=%dMB\n", plugOps4Prof, runtime.NumGoroutine(), ms.HeapInuse>>20, ms.Sys>>20)
	if w, err := os.Create(f); err == nil {
		_ = pprof.WriteHeapProfile(w)
		w.Close()
	}
	if w, err := os.Create(f + ".goroutines"); err == nil {
		_ = pprof.Lookup("goroutine").WriteTo(w, 1)
		w.Close()
	}
}

func plugExec(tok []string) string {
	if pst == nil {
		plugReset()
	}
	plugProf()
	switch tok[0] {
	case "reset":
		plugReset()
		return "-"
	case "reg":
		id := atoi(tok[1])
		ops := []string{}
		if tok[2] != "-" {
			ops = strings.Split(tok[2], ",")
		}
		kind, x1, x2 := tok[3], unhx(tok[4]), unhx(tok[5])
		name := "s" + strconv.Itoa(id)
		var inner plugin.Plugin
		if strings.HasPrefix(kind, "h") {
			pst.nreg++
			plugPathSeq++
			path := "/p" + strconv.Itoa(plugPathSeq)
			pst.mu.Lock()
			pst.scripts[path] = &plugScript{kind, x1, x2, id}
			pst.mu.Unlock()
			addr := plugSrv.URL // "http://127.0.0.1:port"
			if pst.nreg%2 == 0 {
				addr = strings.TrimPrefix(addr, "http://") // NewHTTPPluginOptions adds the scheme
			}
			if kind == "hrefused" {
				addr = plugDead
			}
			opt := v1.HTTPPluginOptions{Name: name, Addr: addr, Path: path, Ops: ops}
			pst.httpRegs = append(pst.httpRegs, opt)
			if kind == "hrefused" || kind == "hcnull" {
				// hrefused: never reaches the recorder; hcnull: the panic kills the process at the call sites
				pst.siteBad = "skip " + kind
			}
			inner = plugin.NewHTTPPluginOptions(opt)
		} else {
			if pst.siteBad == "" {
				pst.siteBad = "skip stub"
			}
			inner = &stubPlugin{name: name, ops: ops, plugScript: plugScript{kind, x1, x2, id}}
		}
		pst.mgr.Register(&recPlugin{id: id, inner: inner})
		return "-"
	case "call":
		return plugCall(tok[1], unhx(tok[2]), unhx(tok[3]))
	case "site":
		if pst.siteBad != "" {
			return pst.siteBad
		}
		return siteRun(unhx(tok[1]), unhx(tok[2]), tok[3] == "e")
	case "sess":
		if pst.siteBad != "" {
			return pst.siteBad
		}
		return sessRun(unhx(tok[1]), tok[2])
	case "hist":
		if pst.siteBad != "" {
			return pst.siteBad
		}
		return histRun(tok[1])
	}
	return "bad-op"
}

// ---- generator

var (
	plugOps      = []string{"Login", "NewProxy", "CloseProxy", "Ping", "NewWorkConn", "NewUserConn"}
	plugTags     = []string{"+1", "+2", "X", "é", "<&>", "\"q\\", ""}
	plugAs       = []string{"", "u", "alice", "p", "p+1", "né", "a b", "x:y,z|w", " "}
	plugBs       = []string{"", "bob", "10.0.0.1:5", "ü"}
	plugReasons  = []string{"no", "", "denied: x", "send Login request to plugin error", "é!"}
	plugStubK    = []string{"acc", "acc", "acc", "acc", "acc", "acc", "app", "app", "app", "app", "app", "app", "setb", "accC", "setb", "zero", "rej", "rejmod", "err", "nil", "rejsuf", "rejsuf", "errsuf"}
	plugHTTPK    = []string{"hacc", "hacc", "hacc", "hacc", "hacc", "hacc", "happ", "happ", "happ", "happ", "happ", "happ", "happ", "happ", "hct", "hpart", "haccC", "hct", "hpart", "haccC", "hrej", "hrejU", "hempty", "hnull", "hcnull", "hcnullU", "hcstr", "hbadfield", "hmal", "htrunc", "hs500", "hs404", "hs201", "hs204", "hs302", "hs403", "hreset", "hrefused", "hrejsuf", "hrejsuf", "herrsuf", "herrsuf", "hxlat", "hsub", "hsub"}
	plugMalBody  = []string{"", "{", "not json", `{"unchange":true} trailing`, `[1,2]`, `"str"`, `123`, `{"unchange":tru}`, "nul", "\ufeff{}", `{"reject":false,"unchange":true`, `{"content":{"user":1}}x`}
	plugRawBytes = []string{"\xff\xfe", "\x00", "a\xc3", "\xed\xa0\x80", "\x7f\x80"}
)

func plugGenReg(rng *rand.Rand, id int, httpOK bool, raw bool, httpOnly bool, emit func(string)) []string {
	// op subset
	ops := []string{}
	switch rng.Intn(10) {
	case 0: // everything
		ops = append(ops, plugOps...)
	case 1: // nothing / only junk
		if rng.Intn(2) == 0 {
			ops = append(ops, pick(rng, []string{"login", "Bogus", "PING", "NewProxy2"}))
		}
	default:
		for _, o := range plugOps {
			if rng.Intn(100) < 60 {
				ops = append(ops, o)
			}
		}
		if rng.Intn(8) == 0 {
			ops = append(ops, pick(rng, []string{"login", "Bogus", "Login"})) // junk or a duplicate
		}
		rng.Shuffle(len(ops), func(i, j int) { ops[i], ops[j] = ops[j], ops[i] })
	}
	opsTok := "-"
	if len(ops) > 0 {
		opsTok = strings.Join(ops, ",")
	}
	var kind string
	if httpOnly {
		kind = pick(rng, plugHTTPK)
		if rng.Intn(2) == 0 { // keep most call-site scenarios going beyond the login
			kind = pick(rng, []string{"hacc", "happ", "happ", "hct", "haccC", "hrejsuf", "hcnullU", "herrsuf"})
		}
		for kind == "hrefused" || kind == "hcnull" {
			kind = pick(rng, plugHTTPK)
		}
	} else if httpOK && rng.Intn(100) < 45 {
		kind = pick(rng, plugHTTPK)
	} else {
		kind = pick(rng, plugStubK)
	}
	x1, x2 := "", ""
	tag := func() string {
		if raw && rng.Intn(2) == 0 {
			return pick(rng, plugRawBytes)
		}
		return pick(rng, plugTags)
	}
	switch kind {
	case "accC", "app", "happ", "hct", "hpart", "haccC":
		x1 = tag()
	case "setb":
		x1 = pick(rng, plugBs)
	case "rej", "hrej", "hrejU":
		x1 = pick(rng, plugReasons)
	case "rejmod":
		x1, x2 = pick(rng, plugReasons), tag()
	case "rejsuf", "hrejsuf":
		x1, x2 = tag(), pick(rng, plugReasons)
	case "errsuf":
		x1 = tag()
	case "herrsuf":
		x1 = tag()
		if rng.Intn(2) == 0 {
			x1 = pick(rng, []string{"p", "b", "q", "1", "e"}) // endings of the names the scenarios use
		}
	case "hmal":
		x1 = pick(rng, plugMalBody)
	case "hxlat", "hsub": // the contents the calls and scenarios use, so that the translation applies now and then
		x1 = pick(rng, append(append([]string{}, plugAs...), "web", "q", "bob"))
		x2 = pick(rng, plugAs) + tag()
	}
	emit(fmt.Sprintf("reg %d %s %s %s %s", id, opsTok, kind, hx(x1), hx(x2)))
	return ops
}

// script of a `sess` scenario (eng_plugin_sess.go): 0…6 steps over a small pool of proxy names, so that
// sessions end with 0…5 live proxies, names collide, proxies are closed explicitly (by the literal
// name or by the name the server answered), closed twice, closed without being there, and registered
// again after a close.
func plugGenScript(rng *rand.Rand) string {
	names := []string{"p", "web", "p+1", "né", "q"}
	k := rng.Intn(7)
	steps := []string{}
	for i := 0; i < k; i++ {
		switch r := rng.Intn(100); {
		case r < 62 || i == 0:
			steps = append(steps, "n"+hx(pick(rng, names)))
		case r < 75:
			steps = append(steps, "c"+hx(pick(rng, names)))
		default:
			steps = append(steps, "k"+strconv.Itoa(rng.Intn(i)))
		}
	}
	if len(steps) == 0 {
		return "-"
	}
	return strings.Join(steps, ",")
}

// a chain of 1…3 real httpPlugins that all consent, at least one of them registered for Ping, and a
// heartbeat history on it (plugGenBeat): real time, a few of them per run
func plugGenBeatBlock(rng *rand.Rand, e func(string)) {
	e("reset")
	k := 1 + rng.Intn(3)
	must := rng.Intn(k)
	pingIDs := []int{}
	for id := 1; id <= k; id++ {
		ops := []string{}
		for _, o := range plugOps {
			if (o == "Ping" && (id-1 == must || rng.Intn(2) == 0)) || (o != "Ping" && rng.Intn(100) < 40) {
				ops = append(ops, o)
			}
		}
		if lo.Contains(ops, "Ping") {
			pingIDs = append(pingIDs, id)
		}
		rng.Shuffle(len(ops), func(i, j int) { ops[i], ops[j] = ops[j], ops[i] })
		kind, x1 := pick(rng, []string{"hacc", "hacc", "happ", "haccC"}), ""
		if kind != "hacc" {
			x1 = pick(rng, plugTags)
		}
		opsTok := "-"
		if len(ops) > 0 {
			opsTok = strings.Join(ops, ",")
		}
		e(fmt.Sprintf("reg %d %s %s %s %s", id, opsTok, kind, hx(x1), hx("")))
	}
	e("hist " + plugGenBeat(rng, pingIDs))
}

func plugGen(rng *rand.Rand, n int, emit func(string)) {
	lines := 0
	e := func(s string) { emit(s); lines++ }
	beats := 0
	for lines < n {
		// three heartbeat histories per quick run, spread over it
		if n >= 1000 && beats < 3 && lines >= (2*beats+1)*n/6 {
			beats++
			plugGenBeatBlock(rng, e)
		}
		e("reset")
		raw := rng.Intn(8) == 0 // malformed stream: arbitrary bytes, stubs only (JSON would mangle them)
		httpOK := !raw && rng.Intn(5) != 0
		httpOnly := httpOK && rng.Intn(3) == 0 // chains the call-site scenario (`site`) can run on
		k := rng.Intn(7)                       // 0…6 plugins
		id := 0
		opsOf := map[int][]string{} // per id the operations it was registered for
		for i := 0; i < k; i++ {
			id++
			opsOf[id] = append(opsOf[id], plugGenReg(rng, id, httpOK, raw, httpOnly, e)...)
			if rng.Intn(15) == 0 { // the same id registered twice (another behaviour)
				opsOf[id] = append(opsOf[id], plugGenReg(rng, id, httpOK, raw, httpOnly, e)...)
			}
		}
		calls := 4 + rng.Intn(8)
		for i := 0; i < calls; i++ {
			a, b := pick(rng, plugAs), pick(rng, plugBs)
			if raw && rng.Intn(2) == 0 {
				a = pick(rng, plugRawBytes)
			}
			if rng.Intn(3) == 0 {
				a += pick(rng, plugTags)
			}
			e("call " + pick(rng, plugOps) + " " + hx(a) + " " + hx(b))
			if httpOnly && rng.Intn(3) == 0 {
				e("site " + hx(pick(rng, []string{"", "u", "alice", "né"})) + " " + hx(pick(rng, []string{"p", "web", "p+1", "né"})) + " " + pick(rng, []string{"e", "s"}))
			}
			if httpOnly && rng.Intn(3) == 0 {
				e("sess " + hx(pick(rng, []string{"", "u", "alice", "né"})) + " " + plugGenScript(rng))
			}
			if httpOnly && rng.Intn(4) == 0 {
				e("hist " + plugGenHist(rng, id, opsOf))
			}
			if rng.Intn(10) == 0 && id < 8 { // late registration
				id++
				opsOf[id] = append(opsOf[id], plugGenReg(rng, id, httpOK, raw, httpOnly, e)...)
			}
		}
	}
}

func init() { register(&Engine{Name: "plugin", Gen: plugGen, Exec: plugExec}) }
