package main

import (
	"bufio"
	"bytes"
	"encoding/base64"
	"fmt"
	"io"
	"net"
	"net/http"
	"strconv"
	"time"

	"golang.org/x/net/http2"
	"golang.org/x/net/http2/hpack"
)

// :status of one complete header block (a fresh decoder: the first block of a connection)
func httpEngH2Status(block []byte) int {
	fs, err := hpack.NewDecoder(4096, nil).DecodeFull(block)
	if err != nil {
		return 0
	}
	for _, f := range fs {
		if f.Name == ":status" {
			return atoi(f.Value)
		}
	}
	return 0
}

// op of engine "http":
//
//	h2c <host> <path> <routeUser|-> <method> <body tok|-> <status> <rbody tok>
//	   => be=<id> rt=<id> ow=.. c=<n><n|r> st=<code> pr=h2 up=<len.hash|-> down=<len.hash>     a backend answered
//	   |  be=<id|-> rt=<id|-> st=<code> pr=<h1|h2> b=<page|len.hash|->                          nobody / not the backend's answer
//
// An HTTP/1.1 request that asks for the h2c upgrade (RFC 7540 section 3.2: `Connection: Upgrade,
// HTTP2-Settings`, `Upgrade: h2c`, `HTTP2-Settings`) on a fresh user connection.  The vhost handler is
// wrapped in h2c.NewHandler (pkg/util/vhost/http.go), which takes the connection over (Hijack), answers
// 101 and serves the request as stream 1 of an HTTP/2 connection; the reverse proxy forwards it to the
// backend over HTTP/1.1 as any other request.  pr = the protocol the answer arrived in.
//
//	fh2c <host> <path> <routeUser|-> <status> <cl|ch|eof>:<rbody tok> d<k>      (fault op, see eng_http_fault.go)
//	   => be=<id> rt=<id> ow=.. c=.. st=<code> pr=h2 n=<bytes of DATA frames> pre=<1|0> end=<ok|cut>
//	      end = ok: the stream ended with END_STREAM | cut: RST_STREAM / GOAWAY / the connection ended
func (st *httpEngState) doH2C(tok []string) string {
	fault := tok[0] == "fh2c"
	if fault {
		// same wire protocol, GET without a body; the backend dies after k bytes of its answer body
		tok = []string{"h2c", tok[1], tok[2], tok[3], "GET", "-", tok[4], tok[5], tok[6]}
	}
	host, path, method := unhx(tok[1]), unhx(tok[2]), tok[4]
	user := ""
	if tok[3] != "-" {
		user = unhx(tok[3])
	}
	var body []byte
	if tok[5] != "-" {
		body = httpEngTokBytes(tok[5])
	}
	spec := &httpEngRespSpec{status: atoi(tok[6]), kind: "cl", keep: false}
	if fault {
		spec.kind, spec.body = httpEngBodySpec(tok[7])
		spec.fault, spec.faultAt = httpEngFaultOf(tok[8])
	} else {
		spec.body = httpEngTokBytes(tok[7])
	}
	st.mu.Lock()
	st.spec = spec
	before := st.connSeq
	st.mu.Unlock()
	st.drainSeen()
	c, err := net.DialTimeout("tcp", st.addr, 2*time.Second)
	if err != nil {
		return "dialerr"
	}
	defer c.Close()
	_ = c.SetDeadline(time.Now().Add(8 * time.Second))
	if fault {
		_ = c.SetDeadline(time.Now().Add(3 * time.Second))
	}
	// SETTINGS_INITIAL_WINDOW_SIZE (4) = 2^30
	settings := []byte{0, 4, 0x40, 0, 0, 0}
	var w bytes.Buffer
	fmt.Fprintf(&w, "%s %s HTTP/1.1\r\nHost: %s\r\nConnection: Upgrade, HTTP2-Settings\r\nUpgrade: h2c\r\nHTTP2-Settings: %s\r\n",
		method, path, host, base64.RawURLEncoding.EncodeToString(settings))
	if user != "" {
		fmt.Fprintf(&w, "Authorization: %s\r\n", httpEngBasic(user))
	}
	if tok[5] != "-" {
		fmt.Fprintf(&w, "Content-Length: %d\r\n", len(body))
	}
	w.WriteString("\r\n")
	w.Write(body)
	if _, err := c.Write(w.Bytes()); err != nil {
		return "writeerr"
	}
	br := bufio.NewReader(c)
	resp, err := http.ReadResponse(br, &http.Request{Method: method})
	if err != nil {
		return "readerr"
	}
	rt := st.currentRoute(host, path, user)
	hitOf := func() string {
		st.mu.Lock()
		defer st.mu.Unlock()
		if be, ok := st.hit[spec]; ok {
			return strconv.Itoa(be)
		}
		return "-"
	}
	note := func(b []byte) string {
		if bytes.Equal(b, st.page) {
			return "page"
		}
		return httpEngBodyNote(b, len(b) > 0)
	}
	if resp.StatusCode != 101 {
		b, _ := io.ReadAll(resp.Body)
		if seen := st.takeSeen(0); seen != nil {
			// no protocol switch, yet the backend's answer: reported like an h2 answer with pr=h1
			return fmt.Sprintf("be=%d rt=%s ow=%s c=%s st=%d pr=h1 up=%s down=%s", seen.be, rt, st.ownerNote(seen.be, rt), st.connNote(before, seen),
				resp.StatusCode, httpEngBodyNote(seen.body, seen.fr != "no"), httpEngHash(b))
		}
		return fmt.Sprintf("be=%s rt=%s st=%d pr=h1 b=%s", hitOf(), rt, resp.StatusCode, note(b))
	}
	// the client connection preface, generous flow-control windows
	if _, err := io.WriteString(c, http2.ClientPreface); err != nil {
		return "writeerr"
	}
	fr := http2.NewFramer(c, br)
	fr.ReadMetaHeaders = nil
	_ = fr.WriteSettings(http2.Setting{ID: http2.SettingInitialWindowSize, Val: 1 << 30})
	_ = fr.WriteWindowUpdate(0, 1<<30)
	status, got, done := 0, []byte(nil), false
	var hdrBlock []byte
	end := "ok"
	for !done {
		f, err := fr.ReadFrame()
		if err != nil && fault {
			end, done = "cut", true
			break
		}
		if err != nil {
			return fmt.Sprintf("be=%s rt=%s st=%d pr=h2 b=cut", hitOf(), rt, status)
		}
		switch f := f.(type) {
		case *http2.SettingsFrame:
			if !f.IsAck() {
				_ = fr.WriteSettingsAck()
			}
		case *http2.HeadersFrame:
			hdrBlock = append(hdrBlock, f.HeaderBlockFragment()...)
			if f.HeadersEnded() && status == 0 {
				status = httpEngH2Status(hdrBlock)
			}
			done = f.StreamEnded()
		case *http2.ContinuationFrame:
			hdrBlock = append(hdrBlock, f.HeaderBlockFragment()...)
			if f.HeadersEnded() && status == 0 {
				status = httpEngH2Status(hdrBlock)
			}
		case *http2.DataFrame:
			got = append(got, f.Data()...)
			done = f.StreamEnded()
		case *http2.RSTStreamFrame, *http2.GoAwayFrame:
			if fault {
				end, done = "cut", true
				break
			}
			return fmt.Sprintf("be=%s rt=%s st=%d pr=h2 b=cut", hitOf(), rt, status)
		}
	}
	seen := st.takeSeen(0)
	if fault && seen != nil {
		return fmt.Sprintf("be=%d rt=%s ow=%s c=%s st=%d pr=h2 n=%d pre=%d end=%s", seen.be, rt, st.ownerNote(seen.be, rt), st.connNote(before, seen),
			status, len(got), btoi(bytes.HasPrefix(spec.body, got)), end)
	}
	if fault && end == "cut" {
		return fmt.Sprintf("be=%s rt=%s st=%d pr=h2 b=cut", hitOf(), rt, status)
	}
	if seen == nil {
		return fmt.Sprintf("be=%s rt=%s st=%d pr=h2 b=%s", hitOf(), rt, status, note(got))
	}
	return fmt.Sprintf("be=%d rt=%s ow=%s c=%s st=%d pr=h2 up=%s down=%s", seen.be, rt, st.ownerNote(seen.be, rt), st.connNote(before, seen),
		status, httpEngBodyNote(seen.body, seen.fr != "no"), httpEngHash(got))
}
