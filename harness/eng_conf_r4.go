package main

// Round 4 additions to engine "conf" (C18): the COMMON validators block by block.
//
//	svalv <via> k=v …     => ok | <tag>,<tag>… | loaderr      ValidateServerConfig
//	ccval <via> k=v …     => ok | <tag>,<tag>… | loaderr      ValidateClientCommonConfig
//	    the k=v list is one logical server / client-common definition (Go field paths; `WebServer.TLS=b1` says
//	    the webServer.tls section is present).  via says how it reaches the real validator:
//	      mem                  struct built in memory, validated as it is (no Complete)
//	      toml | yaml | json   written to disk, loaded by the real LoadServerConfig / LoadClientConfig (which
//	                           complete it), then validated — what `frps -c`, `frps verify`, `frpc verify` do
//	      flag | flagr         argv (in the given / the reversed order) on a command carrying the real
//	                           Register*Flags, Complete, then validated — what cmd/frps/root.go does without -c
//	    The blocks of a definition (auth method, additional scopes, log level, web server TLS pair, web server
//	    port, the port fields, heartbeat pair, transport protocol) are generated independently of each other:
//	    every block is absent / valid / invalid on its own, so "port out of range × tls present / absent /
//	    incomplete × other blocks" occurs in every run.

import (
	"math/rand"
	"reflect"
	"strconv"
	"strings"

	"github.com/fatedier/frp/pkg/config"
	v1 "github.com/fatedier/frp/pkg/config/v1"
	"github.com/fatedier/frp/pkg/config/v1/validation"
)

func commonErrTags(err error) string {
	if err == nil {
		return "ok"
	}
	tags := []string{}
	for _, line := range strings.Split(err.Error(), "\n") {
		switch {
		case strings.HasPrefix(line, "invalid auth method"):
			tags = append(tags, "auth")
		case strings.HasPrefix(line, "invalid auth additional scopes"):
			tags = append(tags, "scopes")
		case strings.HasPrefix(line, "invalid log level"):
			tags = append(tags, "log")
		case strings.HasPrefix(line, "tls.certFile"):
			tags = append(tags, "cert")
		case strings.HasPrefix(line, "tls.keyFile"):
			tags = append(tags, "key")
		case strings.HasPrefix(line, "invalid transport.heartbeatTimeout"):
			tags = append(tags, "heartbeat")
		case strings.HasPrefix(line, "invalid transport.protocol"):
			tags = append(tags, "protocol")
		case strings.Contains(line, ": port number "):
			tags = append(tags, "port:"+line[:strings.Index(line, ":")])
		default:
			tags = append(tags, "other")
		}
	}
	return strings.Join(tags, ",")
}

// commonDocTree: the definition as a document tree of root type t (field paths → json key paths)
func commonDocTree(t reflect.Type, keys, vals []string) []kv {
	tree := []kv{}
	tlsPresent := false
	have := map[string]bool{}
	for i, k := range keys {
		if k == "WebServer.TLS" {
			tlsPresent = vals[i] != "z"
			continue
		}
		have[k] = true
	}
	for i, k := range keys {
		if k == "WebServer.TLS" {
			continue
		}
		v := docValue(vals[i])
		if strings.HasPrefix(k, "WebServer.TLS.") {
			if !tlsPresent {
				continue
			}
			if v == nil {
				v = "" // the key is written: the section is present in every format
			}
		}
		if v == nil {
			continue
		}
		setTree(&tree, jsonKeyPath(t, k), v)
	}
	if tlsPresent {
		for _, k := range []string{"WebServer.TLS.CertFile", "WebServer.TLS.KeyFile"} {
			if !have[k] {
				setTree(&tree, jsonKeyPath(t, k), "")
			}
		}
	}
	return tree
}

// commonMem: the definition set field by field on the struct behind root
func commonMem(root any, keys, vals []string) {
	rv := reflect.ValueOf(root).Elem()
	ws := rv.FieldByName("WebServer").Addr().Interface().(*v1.WebServerConfig)
	for i, k := range keys {
		switch k {
		case "Auth.Method":
			rv.FieldByName("Auth").FieldByName("Method").SetString(docString(vals[i]))
		case "Auth.AdditionalScopes":
			f := rv.FieldByName("Auth").FieldByName("AdditionalScopes")
			for _, s := range docValue(vals[i]).([]string) {
				f.Set(reflect.Append(f, reflect.ValueOf(v1.AuthScope(s))))
			}
		case "WebServer.TLS":
			if vals[i] != "z" {
				ws.TLS = &v1.TLSConfig{}
			}
		case "WebServer.TLS.CertFile":
			if ws.TLS != nil {
				ws.TLS.CertFile = docString(vals[i])
			}
		case "WebServer.TLS.KeyFile":
			if ws.TLS != nil {
				ws.TLS.KeyFile = docString(vals[i])
			}
		default:
			decInto(fieldByPath(rv, k), vals[i])
		}
	}
}

var svalvFlagOf = map[string]string{"WebServer.Port": "dashboard_port", "BindPort": "bind_port", "KCPBindPort": "kcp_bind_port",
	"QUICBindPort": "quic_bind_port", "VhostHTTPPort": "vhost_http_port", "VhostHTTPSPort": "vhost_https_port",
	"Log.Level": "log_level", "WebServer.TLS": "dashboard_tls_mode", "WebServer.TLS.CertFile": "dashboard_tls_cert_file",
	"WebServer.TLS.KeyFile": "dashboard_tls_key_file"}

var ccvalFlagOf = map[string]string{"Log.Level": "log_level", "Transport.Protocol": "protocol"}

// commonArgv: "--flag=value" for every mentioned key; false when a key has no flag
func commonArgv(names map[string]string, keys, vals []string, reversed bool) ([]string, bool) {
	argv := []string{}
	for i, k := range keys {
		name, ok := names[k]
		if !ok {
			return nil, false
		}
		if vals[i] == "z" {
			continue
		}
		txt, ok := flagText(vals[i])
		if !ok {
			return nil, false
		}
		argv = append(argv, "--"+name+"="+txt)
	}
	if reversed {
		for i, j := 0, len(argv)-1; i < j; i, j = i+1, j-1 {
			argv[i], argv[j] = argv[j], argv[i]
		}
	}
	return argv, true
}

func confSValV(tok []string) string {
	via := tok[1]
	keys, vals := splitKV(tok[2:])
	var c *v1.ServerConfig
	switch via {
	case "mem":
		c = &v1.ServerConfig{}
		commonMem(c, keys, vals)
	case "toml", "yaml", "json":
		tree := commonDocTree(reflect.TypeOf(v1.ServerConfig{}), keys, vals)
		got, _, err := config.LoadServerConfig(writeTmp("svalv/frps."+via, renderDoc(tree, via)), true)
		if err != nil {
			return "loaderr"
		}
		c = got
	case "flag", "flagr":
		argv, ok := commonArgv(svalvFlagOf, keys, vals, via == "flagr")
		if !ok {
			return "err:noflag"
		}
		fc := buildFlagCmd("s", false)
		if err := fc.cmd.ParseFlags(argv); err != nil {
			return "loaderr"
		}
		fc.server.Complete() // cmd/frps/root.go
		c = fc.server
	default:
		panic("svalv via " + via)
	}
	_, err := validation.ValidateServerConfig(c)
	return commonErrTags(err)
}

func confCCVal(tok []string) string {
	via := tok[1]
	keys, vals := splitKV(tok[2:])
	var c *v1.ClientCommonConfig
	switch via {
	case "mem":
		c = &v1.ClientCommonConfig{}
		commonMem(c, keys, vals)
	case "toml", "yaml", "json":
		tree := commonDocTree(reflect.TypeOf(v1.ClientCommonConfig{}), keys, vals)
		got, _, _, _, err := config.LoadClientConfig(writeTmp("ccval/frpc."+via, renderDoc(tree, via)), true)
		if err != nil {
			return "loaderr"
		}
		c = got
	case "flag", "flagr":
		argv, ok := commonArgv(ccvalFlagOf, keys, vals, via == "flagr")
		if !ok {
			return "err:noflag"
		}
		fc := buildFlagCmd("p:tcp", false)
		if err := fc.cmd.ParseFlags(argv); err != nil {
			return "loaderr"
		}
		fc.client.Complete() // cmd/frpc/sub/proxy.go
		c = fc.client
	default:
		panic("ccval via " + via)
	}
	_, err := validation.ValidateClientCommonConfig(c)
	return commonErrTags(err)
}

// ---------------------------------------------------------------- generators: one block at a time

func encS(s string) string {
	if s == "" {
		return "z"
	}
	return "s" + hx(s)[1:]
}

func encI(n int64) string {
	if n == 0 {
		return "z"
	}
	return "i" + itoa64(n)
}

// genPortBlock: absent | in range (incl. both ends) | out of range
func genPortBlock(rng *rand.Rand, pInvalid int) int64 {
	switch r := rng.Intn(100); {
	case r < pInvalid:
		return pick(rng, []int64{65536, -1, 70000, -65535, 1 << 20, 100000, -7500})
	case r < pInvalid+35:
		return pick(rng, []int64{1, 80, 443, 7400, 7500, 65535, int64(1 + rng.Intn(65535))})
	}
	return 0
}

// genWebBlocks: the two blocks of validateWebServerConfig, chosen independently
func genWebBlocks(rng *rand.Rand, flagsOnly bool) []string {
	out := []string{}
	if p := genPortBlock(rng, 30); p != 0 {
		out = append(out, "WebServer.Port="+encI(p))
	}
	switch r := rng.Intn(100); {
	case r < 35: // complete pair
		out = append(out, "WebServer.TLS=b1", "WebServer.TLS.CertFile="+encS(pick(rng, []string{"c.pem", "/etc/frp/dash.crt"})),
			"WebServer.TLS.KeyFile="+encS(pick(rng, []string{"k.pem", "/etc/frp/dash.key"})))
	case r < 60: // section present, pair incomplete
		out = append(out, "WebServer.TLS=b1")
		switch rng.Intn(3) {
		case 0:
			out = append(out, "WebServer.TLS.CertFile="+encS("c.pem"))
		case 1:
			out = append(out, "WebServer.TLS.KeyFile="+encS("k.pem"))
		}
	}
	_ = flagsOnly
	return out
}

func genLogBlock(rng *rand.Rand) []string {
	switch r := rng.Intn(8); {
	case r == 0:
		return []string{"Log.Level=" + encS(pick(rng, []string{"verbose", "INFO", "fatal", " info"}))}
	case r < 5:
		return []string{"Log.Level=" + encS(pick(rng, []string{"trace", "debug", "info", "warn", "error"}))}
	}
	return nil
}

func genAuthBlocks(rng *rand.Rand) []string {
	out := []string{}
	switch r := rng.Intn(8); {
	case r == 0:
		out = append(out, "Auth.Method="+encS(pick(rng, []string{"jwt", "Token", "none"})))
	case r < 4:
		out = append(out, "Auth.Method="+encS(pick(rng, []string{"token", "oidc"})))
	}
	switch r := rng.Intn(8); {
	case r == 0:
		out = append(out, "Auth.AdditionalScopes="+pick(rng, []string{"L1:" + hx("Other")[1:], "L2:" + hx("HeartBeats")[1:] + "," + hx("heartbeats")[1:]}))
	case r < 3:
		out = append(out, "Auth.AdditionalScopes="+pick(rng, []string{"L1:" + hx("HeartBeats")[1:], "L2:" + hx("HeartBeats")[1:] + "," + hx("NewWorkConns")[1:]}))
	}
	return out
}

func genSValV(rng *rand.Rand) string {
	via := pick(rng, []string{"mem", "toml", "yaml", "json", "flag", "flagr"})
	flags := strings.HasPrefix(via, "flag")
	out := []string{"svalv", via}
	if !flags {
		out = append(out, genAuthBlocks(rng)...)
	}
	out = append(out, genLogBlock(rng)...)
	out = append(out, genWebBlocks(rng, flags)...)
	ports := []string{"BindPort", "KCPBindPort", "QUICBindPort", "VhostHTTPPort", "VhostHTTPSPort"}
	if !flags {
		ports = append(ports, "TCPMuxHTTPConnectPort")
	}
	for _, k := range ports {
		if p := genPortBlock(rng, 8); p != 0 {
			out = append(out, k+"="+encI(p))
		}
	}
	return strings.Join(out, " ")
}

func genCCVal(rng *rand.Rand) string {
	via := pick(rng, []string{"mem", "toml", "yaml", "json", "toml", "yaml", "json", "flag"})
	out := []string{"ccval", via}
	if via == "flag" {
		out = append(out, genLogBlock(rng)...)
	} else {
		out = append(out, genAuthBlocks(rng)...)
		out = append(out, genLogBlock(rng)...)
		out = append(out, genWebBlocks(rng, false)...)
		switch r := rng.Intn(8); {
		case r == 0: // timeout below the interval
			iv := int64(10 + rng.Intn(100))
			out = append(out, "Transport.HeartbeatInterval="+encI(iv), "Transport.HeartbeatTimeout="+encI(1+rng.Int63n(iv-1)))
		case r < 3:
			iv := int64(1 + rng.Intn(100))
			out = append(out, "Transport.HeartbeatInterval="+encI(iv), "Transport.HeartbeatTimeout="+encI(iv+rng.Int63n(3)*iv))
		case r < 5:
			out = append(out, pick(rng, []string{"Transport.HeartbeatInterval", "Transport.HeartbeatTimeout"})+"="+encI(pick(rng, []int64{-1, 30, 90})))
		}
	}
	switch r := rng.Intn(8); {
	case r == 0:
		out = append(out, "Transport.Protocol="+encS(pick(rng, []string{"udp", "TCP", "ws", "http"})))
	case r < 5:
		out = append(out, "Transport.Protocol="+encS(pick(rng, []string{"tcp", "kcp", "quic", "websocket", "wss"})))
	}
	return strings.Join(out, " ")
}

var _ = strconv.Itoa
