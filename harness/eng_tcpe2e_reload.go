package main

// Engine "e2e" (C01), ops `reload` and `ppc`: a dedicated real frps + frpc pair whose proxies are RE-CONFIGURED while they
// run (client.Service.UpdateAllConfigurer -> proxy.Manager.UpdateAll, what `frpc reload` does), and users that arrive
// TOGETHER at one proxy that declares a proxy-protocol header.
//
// The universe: proxies rl-0 … rl-3 (0..2 tcp, 3 tcpmux/httpconnect) and backends 0 … 4.  Every backend listens on a
// loopback TCP port AND on a unix socket; it answers every connection with one line that says WHO it is and what
// it was told about the user:  "<backend> <t|u> <header version 0|1|2> <header source> <header destination> <line the user sent>".
//
//	reload cfg=<mux><tls><pool> steps=<step>/<step>/… seed=
//	   step  = - (nothing configured) | <entry>+<entry>+…       (a name given twice: the LAST entry is the configuration)
//	   entry = <p>.<b>.<r>.<v>.<e>.<u>   proxy p forwards to backend b; r = which of its two public endpoints (remotePort /
//	           customDomain: a field frps sees); v = transport.proxyProtocolVersion none/v1/v2; e = useEncryption +
//	           useCompression (frps sees them); u = 1: through the unix_domain_socket plugin instead of localIP:localPort
//	   every step is loaded into the RUNNING frpc; then a NEW user connects to every proxy (at the endpoint the step
//	   configures; an unconfigured proxy at its endpoint 0) and notes who answers
//	   => s=<per proxy 0..3: <backend><t|u>.<header version>.<header names this user 1|0|n(o header)> | - refused | ? silence>,…/…
//	ppc cfg= px=<entry> k=<users> rounds=<n> ips=<distinct source addresses> seed=
//	   the pair is loaded with that one proxy (v = 1|2); then `rounds` times k users dial it AT THE SAME INSTANT from
//	   their own source address (127.0.0.2+i%ips, kernel-chosen port), each sends its line and reads the answer while all
//	   k connections stay open (so no two of them share an address)
//	   => r=<per user: <backend><t|u>.<header version>.<index of the user the header's source names | x>.<dst ok 1|0>.<own line echoed 1|0>>,…/…
import (
	"bufio"
	"context"
	"fmt"
	"math/rand"
	"net"
	"os"
	"path/filepath"
	"strconv"
	"strings"
	"sync"
	"time"

	pp "github.com/pires/go-proxyproto"

	"github.com/fatedier/frp/client"
	v1 "github.com/fatedier/frp/pkg/config/v1"
	"github.com/fatedier/frp/server"
)

const (
	te2eRlProxies  = 4
	te2eRlBackends = 5
)

type te2eRlEntry struct {
	p, b, r, v, e, u int
}

func (e te2eRlEntry) String() string {
	return fmt.Sprintf("%d.%d.%d.%d.%d.%d", e.p, e.b, e.r, e.v, e.e, e.u)
}

func te2eRlParseEntry(s string) (te2eRlEntry, bool) {
	f := strings.Split(s, ".")
	if len(f) != 6 {
		return te2eRlEntry{}, false
	}
	var n [6]int
	for i := range f {
		k, err := strconv.Atoi(f[i])
		if err != nil || k < 0 {
			return te2eRlEntry{}, false
		}
		n[i] = k
	}
	e := te2eRlEntry{n[0], n[1], n[2], n[3], n[4], n[5]}
	if e.p >= te2eRlProxies || e.b >= te2eRlBackends || e.r > 1 || e.v > 2 || e.e > 1 || e.u > 1 {
		return e, false
	}
	return e, true
}

func te2eRlParseStep(s string) ([]te2eRlEntry, bool) {
	if s == "-" {
		return nil, true
	}
	var es []te2eRlEntry
	for _, x := range strings.Split(s, "+") {
		e, ok := te2eRlParseEntry(x)
		if !ok {
			return nil, false
		}
		es = append(es, e)
	}
	return es, true
}

// ---------------------------------------------------------------- the backends

type te2eRlBackend struct {
	idx  int
	tcp  net.Listener
	unix net.Listener
	path string
}

func te2eRlNewBackend(idx int, dir string) (*te2eRlBackend, error) {
	b := &te2eRlBackend{idx: idx, path: filepath.Join(dir, fmt.Sprintf("b%d.sock", idx))}
	var err error
	if b.tcp, err = net.Listen("tcp", "127.0.0.1:0"); err != nil {
		return nil, err
	}
	if b.unix, err = net.Listen("unix", b.path); err != nil {
		b.tcp.Close()
		return nil, err
	}
	go b.accept(b.tcp, "t")
	go b.accept(b.unix, "u")
	return b, nil
}

func (b *te2eRlBackend) port() int { return b.tcp.Addr().(*net.TCPAddr).Port }

func (b *te2eRlBackend) accept(ln net.Listener, kind string) {
	for {
		c, err := ln.Accept()
		if err != nil {
			return
		}
		go b.serve(c, kind)
	}
}

// the user's line never starts with 'P' or '\r' (the first byte of a v1 / v2 header)
func (b *te2eRlBackend) serve(c net.Conn, kind string) {
	defer c.Close()
	_ = c.SetDeadline(time.Now().Add(20 * time.Second))
	rd := bufio.NewReader(c)
	ver, src, dst := 0, "-", "-"
	h, err := pp.Read(rd)
	switch {
	case err == nil && h != nil:
		ver = int(h.Version)
		if h.SourceAddr != nil {
			src = h.SourceAddr.String()
		}
		if h.DestinationAddr != nil {
			dst = h.DestinationAddr.String()
		}
	case err == pp.ErrNoProxyProtocol:
	default:
		ver = 9 // something that looks like a header and is none
	}
	line, err := rd.ReadString('\n')
	if err != nil {
		return
	}
	if _, err := fmt.Fprintf(c, "%d %s %d %s %s %s", b.idx, kind, ver, src, dst, line); err != nil {
		return
	}
	// stay until the user leaves
	buf := make([]byte, 256)
	for {
		if _, err := rd.Read(buf); err != nil {
			return
		}
	}
}

// ---------------------------------------------------------------- the pair

type te2eRlPair struct {
	svr      *server.Service
	cli      *client.Service
	backends []*te2eRlBackend
	ports    [te2eRlProxies][2]int // tcp proxies: the two remote ports
	muxPort  int
}

var te2eRlPairs = map[string]*te2eRlPair{}

func te2eRlName(p int) string { return fmt.Sprintf("rl-%d", p) }

func te2eRlDomain(p, r int) string { return fmt.Sprintf("rl%d%c.reload.test", p, 'a'+r) }

func te2eRlIsMux(p int) bool { return p == te2eRlProxies-1 }

func te2eGetRl(cfg string) (*te2eRlPair, string) {
	if p, ok := te2eRlPairs[cfg]; ok {
		return p, ""
	}
	why := ""
	for try := 0; try < 3; try++ {
		p, w := te2eStartRl(cfg)
		if p != nil {
			te2eRlPairs[cfg] = p
			return p, ""
		}
		why = w
	}
	return nil, why
}

func te2eStartRl(cfg string) (*te2eRlPair, string) {
	if len(cfg) < 3 {
		return nil, " badcfg"
	}
	mux, tlsOn, pool := cfg[0] == '1', cfg[1] == '1', int(cfg[2]-'0')
	p := &te2eRlPair{}
	dir, err := os.MkdirTemp("", "c01rl")
	if err != nil {
		return nil, " tmp:" + err.Error()
	}
	for i := 0; i < te2eRlBackends; i++ {
		b, err := te2eRlNewBackend(i, dir)
		if err != nil {
			return nil, " backend:" + err.Error()
		}
		p.backends = append(p.backends, b)
	}
	scfg := &v1.ServerConfig{}
	scfg.BindAddr = "127.0.0.1"
	scfg.BindPort = te2ePort()
	scfg.ProxyBindAddr = "127.0.0.1"
	scfg.TCPMuxHTTPConnectPort = te2ePort()
	scfg.Auth.Token = stkToken
	scfg.Transport.TCPMux = &mux
	scfg.Complete()
	for i := 0; i < te2eRlProxies; i++ {
		p.ports[i] = [2]int{te2ePort(), te2ePort()}
	}
	svr, err := server.NewService(scfg)
	if err != nil {
		return nil, " frps:" + err.Error()
	}
	go svr.Run(context.Background())
	p.svr, p.muxPort = svr, scfg.TCPMuxHTTPConnectPort
	ccfg := &v1.ClientCommonConfig{}
	ccfg.ServerAddr = "127.0.0.1"
	ccfg.ServerPort = scfg.BindPort
	ccfg.Auth.Token = stkToken
	ccfg.Transport.TLS.Enable = &tlsOn
	ccfg.Transport.TCPMux = &mux
	ccfg.Transport.PoolCount = pool
	f := false
	ccfg.LoginFailExit = &f
	ccfg.Complete()
	cli, err := client.NewService(client.ServiceOptions{Common: ccfg, ProxyCfgs: nil})
	if err != nil {
		_ = svr.Close()
		return nil, " frpc:" + err.Error()
	}
	go func() { _ = cli.Run(context.Background()) }()
	p.cli = cli
	dl := time.Now().Add(4 * time.Second)
	for {
		ids, _ := svr.VerifSessDump()
		if len(ids) == 1 {
			return p, ""
		}
		if time.Now().After(dl) {
			cli.Close()
			_ = svr.Close()
			return nil, " nologin"
		}
		time.Sleep(5 * time.Millisecond)
	}
}

// a FRESH configurer for the entry (frpc's loader builds new objects on every reload)
func (p *te2eRlPair) configurer(e te2eRlEntry) v1.ProxyConfigurer {
	base := func(b *v1.ProxyBaseConfig, typ string) {
		b.Name, b.Type = te2eRlName(e.p), typ
		if e.u == 1 {
			b.Plugin.Type = v1.PluginUnixDomainSocket
			b.Plugin.ClientPluginOptions = &v1.UnixDomainSocketPluginOptions{Type: v1.PluginUnixDomainSocket, UnixPath: p.backends[e.b].path}
		} else {
			b.LocalIP, b.LocalPort = "127.0.0.1", p.backends[e.b].port()
		}
		b.Transport.UseEncryption, b.Transport.UseCompression = e.e == 1, e.e == 1
		b.Transport.ProxyProtocolVersion = []string{"", "v1", "v2"}[e.v]
	}
	if te2eRlIsMux(e.p) {
		c := &v1.TCPMuxProxyConfig{}
		base(&c.ProxyBaseConfig, "tcpmux")
		c.CustomDomains = []string{te2eRlDomain(e.p, e.r)}
		c.Multiplexer = "httpconnect"
		c.Complete("")
		return c
	}
	c := &v1.TCPProxyConfig{}
	base(&c.ProxyBaseConfig, "tcp")
	c.RemotePort = p.ports[e.p][e.r]
	c.Complete("")
	return c
}

// lo.KeyBy: the last entry of a name is the configuration
func te2eRlLast(step []te2eRlEntry) map[int]te2eRlEntry {
	m := map[int]te2eRlEntry{}
	for _, e := range step {
		m[e.p] = e
	}
	return m
}

// load the step into the running frpc and wait (bounded) until both ends have settled
func (p *te2eRlPair) apply(step []te2eRlEntry) bool {
	var pcs []v1.ProxyConfigurer
	for _, e := range step {
		pcs = append(pcs, p.configurer(e))
	}
	if err := p.cli.UpdateAllConfigurer(pcs, nil); err != nil {
		return false
	}
	want := te2eRlLast(step)
	dl := time.Now().Add(3 * time.Second)
	for {
		ok := true
		_, names := p.svr.VerifSessDump()
		for i := 0; i < te2eRlProxies; i++ {
			_, w := want[i]
			st, has := p.cli.StatusExporter().GetProxyStatus(te2eRlName(i))
			_, reg := names[te2eRlName(i)]
			if w != reg || w != has || (w && st.Phase != "running") {
				ok = false
				break
			}
		}
		if ok {
			return true
		}
		if time.Now().After(dl) {
			return false
		}
		time.Sleep(2 * time.Millisecond)
	}
}

type te2eRlAnswer struct {
	status    string // "" answered | "-" refused | "?" silence
	backend   int
	kind      string
	ver       int
	src, dst  string
	lineOK    bool
	localAddr string
	dialled   int
}

// one user of proxy pi at endpoint r: connect (from laddr, if given), say `line`, read the backend's answer. The
// connection is handed back open (the caller closes it).
func (p *te2eRlPair) user(pi, r int, laddr *net.TCPAddr, line string, wait time.Duration) (te2eRlAnswer, net.Conn) {
	port := p.muxPort
	if !te2eRlIsMux(pi) {
		port = p.ports[pi][r]
	}
	a := te2eRlAnswer{status: "?", dialled: port}
	d := net.Dialer{Timeout: wait, LocalAddr: nil}
	if laddr != nil {
		d.LocalAddr = laddr
	}
	c, err := d.Dial("tcp", net.JoinHostPort("127.0.0.1", strconv.Itoa(port)))
	if err != nil {
		if ne, ok := err.(net.Error); !ok || !ne.Timeout() {
			a.status = "-"
		}
		return a, nil
	}
	a.localAddr = c.LocalAddr().String()
	_ = c.SetDeadline(time.Now().Add(wait))
	br := bufio.NewReader(c)
	refusedOr := func(err error) string {
		if ne, ok := err.(net.Error); ok && ne.Timeout() {
			return "?"
		}
		return "-"
	}
	if te2eRlIsMux(pi) {
		dom := te2eRlDomain(pi, r)
		if _, err := fmt.Fprintf(c, "CONNECT %s:80 HTTP/1.1\r\nHost: %s:80\r\n\r\n", dom, dom); err != nil {
			a.status = refusedOr(err)
			return a, c
		}
		var reply []byte
		for !strings.HasSuffix(string(reply), "\r\n\r\n") {
			b, err := br.ReadByte()
			if err != nil {
				a.status = refusedOr(err)
				return a, c
			}
			reply = append(reply, b)
		}
		if !strings.HasPrefix(string(reply), "HTTP/1.1 200") {
			a.status = "-"
			return a, c
		}
	}
	if _, err := c.Write([]byte(line + "\n")); err != nil {
		a.status = refusedOr(err)
		return a, c
	}
	ans, err := br.ReadString('\n')
	if err != nil {
		// a tcp proxy whose work connection / backend is not there: frps closes the user connection
		a.status = refusedOr(err)
		return a, c
	}
	f := strings.SplitN(strings.TrimSuffix(ans, "\n"), " ", 6)
	if len(f) != 6 {
		return a, c
	}
	a.status, a.backend, a.kind, a.ver, a.src, a.dst, a.lineOK = "", atoiOr(f[0], -1), f[1], atoiOr(f[2], -1), f[3], f[4], f[5] == line
	return a, c
}

func te2eRlProbeString(a te2eRlAnswer) string {
	if a.status != "" {
		return a.status
	}
	named := "n"
	if a.ver != 0 {
		named = "0"
		_, dp, _ := net.SplitHostPort(a.dst)
		if a.src == a.localAddr && dp == strconv.Itoa(a.dialled) && a.lineOK {
			named = "1"
		}
	} else if !a.lineOK {
		named = "0"
	}
	return fmt.Sprintf("%d%s.%d.%s", a.backend, a.kind, a.ver, named)
}

func te2eReload(kv map[string]string) string {
	p, why := te2eGetRl(kv["cfg"])
	if p == nil {
		return "err=nopair" + strings.ReplaceAll(why, " ", "_")
	}
	seed := atoi(kv["seed"])
	var out []string
	for si, ss := range strings.Split(kv["steps"], "/") {
		step, ok := te2eRlParseStep(ss)
		if !ok {
			return "err=badstep"
		}
		if !p.apply(step) && !p.apply(step) {
			return "err=nosync"
		}
		want := te2eRlLast(step)
		res := make([]string, te2eRlProxies)
		var wg sync.WaitGroup
		for i := 0; i < te2eRlProxies; i++ {
			wg.Add(1)
			go func(i int) {
				defer wg.Done()
				line := fmt.Sprintf("u%d-%d-%d", seed, si, i)
				for try := 0; try < 2; try++ {
					a, c := p.user(i, want[i].r, nil, line, 2*time.Second)
					if c != nil {
						c.Close()
					}
					res[i] = te2eRlProbeString(a)
					if res[i] != "?" {
						break // nothing at all within the bound (loaded machine?): once more
					}
				}
			}(i)
		}
		wg.Wait()
		out = append(out, strings.Join(res, ","))
	}
	return "s=" + strings.Join(out, "/")
}

func te2ePPC(kv map[string]string) string {
	p, why := te2eGetRl(kv["cfg"])
	if p == nil {
		return "err=nopair" + strings.ReplaceAll(why, " ", "_")
	}
	e, ok := te2eRlParseEntry(kv["px"])
	k, rounds, ips, seed := atoi(kv["k"]), atoi(kv["rounds"]), atoi(kv["ips"]), atoi(kv["seed"])
	if !ok || k < 1 || k > 64 || rounds < 1 || rounds > 16 || ips < 1 || ips > 8 {
		return "err=badarg"
	}
	// always through a reload of its own: an earlier op may have left the very same entry running
	if !p.apply(nil) && !p.apply(nil) {
		return "err=nosync"
	}
	if !p.apply([]te2eRlEntry{e}) && !p.apply([]te2eRlEntry{e}) {
		return "err=nosync"
	}
	var out []string
	for rd := 0; rd < rounds; rd++ {
		ans := make([]te2eRlAnswer, k)
		conns := make([]net.Conn, k)
		start := make(chan struct{})
		var wg sync.WaitGroup
		for i := 0; i < k; i++ {
			wg.Add(1)
			go func(i int) {
				defer wg.Done()
				laddr := &net.TCPAddr{IP: net.IPv4(127, 0, 0, byte(2+i%ips))}
				<-start
				ans[i], conns[i] = p.user(e.p, e.r, laddr, fmt.Sprintf("u%d-%d-%d", seed, rd, i), 3*time.Second)
			}(i)
		}
		close(start)
		wg.Wait()
		res := make([]string, k)
		for i, a := range ans {
			if a.status != "" {
				res[i] = a.status
				continue
			}
			owner := "x"
			for j := range ans {
				if ans[j].localAddr != "" && ans[j].localAddr == a.src {
					owner = strconv.Itoa(j)
				}
			}
			_, dp, _ := net.SplitHostPort(a.dst)
			res[i] = fmt.Sprintf("%d%s.%d.%s.%d.%d", a.backend, a.kind, a.ver, owner, stkBit(dp == strconv.Itoa(a.dialled)), stkBit(a.lineOK))
		}
		for _, c := range conns {
			if c != nil {
				c.Close()
			}
		}
		out = append(out, strings.Join(res, ","))
	}
	return "r=" + strings.Join(out, "/")
}

// ---------------------------------------------------------------- generators

func te2eRlGenEntry(rng *rand.Rand, p int) te2eRlEntry {
	return te2eRlEntry{p: p, b: rng.Intn(te2eRlBackends), r: rng.Intn(2), v: pick(rng, []int{0, 0, 1, 2}), e: stkBit(rng.Intn(4) == 0), u: stkBit(rng.Intn(6) == 0)}
}

// reload histories: the first step configures most proxies; every later step is derived from the one before by one of
// the change classes (on one or several proxies at once)
func te2eGenReload(rng *rand.Rand, cfg string) string {
	cur := map[int]te2eRlEntry{}
	for p := 0; p < te2eRlProxies; p++ {
		if rng.Intn(5) > 0 {
			cur[p] = te2eRlGenEntry(rng, p)
		}
	}
	render := func(dupOf int) string {
		var es []string
		for _, p := range rng.Perm(te2eRlProxies) {
			if e, ok := cur[p]; ok {
				if p == dupOf {
					// the name twice, the earlier entry pointing somewhere else
					o := e
					o.b, o.v = (e.b+1+rng.Intn(te2eRlBackends-1))%te2eRlBackends, rng.Intn(3)
					es = append(es, o.String())
				}
				es = append(es, e.String())
			}
		}
		if len(es) == 0 {
			return "-"
		}
		return strings.Join(es, "+")
	}
	steps := []string{render(-1)}
	for k := 1 + rng.Intn(4); k > 0; k-- {
		dup := -1
		var present []int
		for p := 0; p < te2eRlProxies; p++ {
			if _, ok := cur[p]; ok {
				present = append(present, p)
			}
		}
		one := func() int { return present[rng.Intn(len(present))] }
		cls := rng.Intn(10)
		if len(present) == 0 {
			cls = 7
		}
		switch cls {
		case 0: // local only: another backend
			for n := 1 + rng.Intn(2); n > 0; n-- {
				e := cur[one()]
				e.b = (e.b + 1 + rng.Intn(te2eRlBackends-1)) % te2eRlBackends
				cur[e.p] = e
			}
		case 1: // local only: proxy-protocol version
			e := cur[one()]
			e.v = (e.v + 1 + rng.Intn(2)) % 3
			cur[e.p] = e
		case 2: // local only: localIP:localPort <-> plugin
			e := cur[one()]
			e.u = 1 - e.u
			if rng.Intn(2) == 0 {
				e.b = rng.Intn(te2eRlBackends)
			}
			cur[e.p] = e
		case 3: // two proxies swap their backends (and whatever else is local)
			if len(present) >= 2 {
				i := rng.Perm(len(present))
				a, b := cur[present[i[0]]], cur[present[i[1]]]
				a.b, b.b = b.b, a.b
				a.v, b.v = b.v, a.v
				a.u, b.u = b.u, a.u
				cur[a.p], cur[b.p] = a, b
			}
		case 4: // a field frps sees
			e := cur[one()]
			if rng.Intn(2) == 0 {
				e.r = 1 - e.r
			} else {
				e.e = 1 - e.e
			}
			cur[e.p] = e
		case 5: // local and remote fields together
			e := cur[one()]
			e.r, e.b = 1-e.r, (e.b+1+rng.Intn(te2eRlBackends-1))%te2eRlBackends
			cur[e.p] = e
		case 6: // nothing changes (fresh objects, equal content)
		case 7: // a proxy comes (back)
			p := rng.Intn(te2eRlProxies)
			cur[p] = te2eRlGenEntry(rng, p)
		case 8: // a proxy goes
			delete(cur, one())
		default: // a name configured twice
			dup = one()
		}
		steps = append(steps, render(dup))
	}
	return fmt.Sprintf("reload cfg=%s steps=%s seed=%d", cfg, strings.Join(steps, "/"), rng.Intn(100000))
}

func te2eGenPPC(rng *rand.Rand, cfg string) string {
	e := te2eRlGenEntry(rng, rng.Intn(te2eRlProxies))
	e.v = 1 + rng.Intn(2)
	return fmt.Sprintf("ppc cfg=%s px=%s k=%d rounds=%d ips=%d seed=%d", cfg, e.String(), pick(rng, []int{2, 3, 6, 12, 24}),
		1+rng.Intn(3), 1+rng.Intn(4), rng.Intn(100000))
}
