package main

import (
	"bytes"
	"encoding/base64"
	"encoding/binary"
	"encoding/json"
	"fmt"
	"math/rand"
	"net"
	"os"
	"reflect"
	"sort"
	"strconv"
	"strings"
	"sync"
	"time"

	"github.com/fatedier/frp/pkg/msg"
	"github.com/fatedier/frp/pkg/proto/udp"
	frplog "github.com/fatedier/frp/pkg/util/log"
)

// Engine "udp" (property C03).
//
//	b64 <bytes>                          => <content>:<rt>      content text of udp.NewUDPPacket(...) as msg.WriteMsg puts it on the wire, rt=1 iff GetContent gives the bytes back
//	dec <string>                         => <bytes> | err        udp.GetContent of a UDPPacket whose content text is s
//	frame ps=<ps> <bytes> <laddr> <raddr> => len=<bodyLen>;h=<hash(frame)>;rd=ok|toolong|err;rt=0|1
//	        msg.WriteMsg(NewUDPPacket(bytes,l,r)) then msg.ReadMsg of those bytes.  addr = nil | a:<iptext>:<port>:<zone>
//	        ps = the udpPacketSize under which such a payload can occur (len(bytes) <= ps)
//	tunnel ps=<ps> k=<k> d=<u.len.seed,...>
//	        real udp.ForwardUserConn + udp.Forwarder, loopback sockets, channels joined through
//	        real msg.WriteMsg / ReadMsgInto / ReadMsg over a net.Pipe (as the two UDPProxy types do)
//	        => B=<u.seq.len.hash,...>;U0=<...>;...;socks=<n>;mixed=<0|1>;ferr=<n>
//	tunnel ps=<ps> k=<k> d=<...> g=<n>   (also e2e / e2es)
//	        the same in BURSTS: the users send n datagrams back to back (no pause, whoever they come from), the
//	        backend keeps its answers until the whole burst has arrived and then sends them back to back; the next
//	        burst starts when everything has come back.  Every datagram and every answer is compared by content.
//	e2e …   see eng_udp_e2e.go;  sudp …   see eng_udp_sudp.go
//
// payload of datagram #seq of user u with (len, seed): ['Q', u, seq>>8, seq&255] ++ lcg(seed) bytes;
// the backend answers ['A', u, seqhi, seqlo] ++ (b+1 mod 256 for the rest).
func init() {
	register(&Engine{Name: "udp", Gen: udpGen, Exec: udpExec})
}

func vhash(b []byte) uint64 {
	h := uint64(7)
	for _, x := range b {
		h = (h*1000003 + uint64(x) + 1) % 4294967291
	}
	return h
}

func lcgBytes(seed, n int) []byte {
	x := uint64(seed) % 2147483648
	out := make([]byte, n)
	for i := range out {
		x = (x*1103515245 + 12345) % 2147483648
		out[i] = byte((x >> 16) & 0xff)
	}
	return out
}

func tunnelPayload(u, seq, ln, seed int) []byte {
	p := []byte{'Q', byte(u), byte(seq >> 8), byte(seq & 255)}
	return append(p, lcgBytes(seed, ln-4)...)
}

func tunnelReply(p []byte) []byte {
	r := make([]byte, len(p))
	copy(r, p)
	if len(r) > 0 {
		r[0] = 'A'
	}
	for i := 4; i < len(r); i++ {
		r[i] = r[i] + 1
	}
	return r
}

func parseAddrTok(t string) (*net.UDPAddr, bool) {
	if t == "nil" {
		return nil, true
	}
	f := strings.Split(t, ":")
	if len(f) != 4 || f[0] != "a" {
		panic("bad addr token " + t)
	}
	ipt := unhx(f[1])
	var ip net.IP
	if ipt != "" {
		ip = net.ParseIP(ipt)
		if ip == nil || ip.String() != ipt {
			return nil, false
		}
	}
	return &net.UDPAddr{IP: ip, Port: atoi(f[2]), Zone: unhx(f[3])}, true
}

func addrTok(a *net.UDPAddr) string {
	if a == nil {
		return "nil"
	}
	ipt := ""
	if len(a.IP) > 0 {
		ipt = a.IP.String()
	}
	return "a:" + hx(ipt) + ":" + strconv.Itoa(a.Port) + ":" + hx(a.Zone)
}

func addrEq(a, b *net.UDPAddr) bool {
	if a == nil || b == nil {
		return a == b
	}
	return a.String() == b.String()
}

// ---------------------------------------------------------------- representation-independent access to UDPPacket
//
// The harness never names the type of msg.UDPPacket.Content: packets are built with udp.NewUDPPacket and read with
// udp.GetContent (the two functions the property is anchored in); where a packet with an ARBITRARY content text is
// needed (malformed base64, a marker of another engine) it is either put on the wire as a frame written by hand
// (udpRawFrame: what a peer that speaks the protocol could send) or built through reflection (udpRawPacket).  A
// change of the field's representation is then a behaviour the ops observe, not a build break of the harness.

// udpWireObj is the JSON object of a UDPPacket as it travels (pkg/msg/msg.go tags; all omitempty)
type udpWireObj struct {
	C string       `json:"c,omitempty"`
	L *net.UDPAddr `json:"l,omitempty"`
	R *net.UDPAddr `json:"r,omitempty"`
}

// udpRawFrame: the frame 'u' | int64 big-endian length | {"c":content,"l":…,"r":…} — byte for byte what msg.WriteMsg
// produces for a UDPPacket whose content text is `content`
func udpRawFrame(content string, l, r *net.UDPAddr) []byte {
	body, err := json.Marshal(udpWireObj{C: content, L: l, R: r})
	if err != nil {
		panic(err)
	}
	out := make([]byte, 9, 9+len(body))
	out[0] = 'u'
	binary.BigEndian.PutUint64(out[1:9], uint64(len(body)))
	return append(out, body...)
}

// udpRawPacket: an in-memory UDPPacket whose content text (the value of "c" on the wire) is `content`.  ok = false
// when the representation of the field cannot hold that text (e.g. a []byte field and a text that is not base64).
func udpRawPacket(content string, l, r *net.UDPAddr) (m *msg.UDPPacket, ok bool) {
	m = &msg.UDPPacket{LocalAddr: l, RemoteAddr: r}
	f := reflect.ValueOf(m).Elem().FieldByName("Content")
	switch {
	case f.Kind() == reflect.String:
		f.SetString(content)
		return m, true
	case f.Kind() == reflect.Slice && f.Type().Elem().Kind() == reflect.Uint8:
		b, err := base64.StdEncoding.DecodeString(content)
		if err != nil {
			return m, false
		}
		f.SetBytes(b)
		return m, true
	}
	return m, false
}

// udpPacketOf: udp.NewUDPPacket for the engines that do not import pkg/proto/udp
func udpPacketOf(b []byte, l, r *net.UDPAddr) *msg.UDPPacket { return udp.NewUDPPacket(b, l, r) }

// udpWireContent: the content text of m as it appears on the wire (through the real msg.WriteMsg)
func udpWireContent(m *msg.UDPPacket) string {
	var buf bytes.Buffer
	if err := msg.WriteMsg(&buf, m); err != nil || buf.Len() < 9 {
		return "!werr"
	}
	var o udpWireObj
	if err := json.Unmarshal(buf.Bytes()[9:], &o); err != nil {
		return "!jerr"
	}
	return o.C
}

var udpQuiet sync.Once

// Re-running an op in which something is missing forgives a datagram lost by the kernel (or sent in the instant a
// connection went away): such a loss does not repeat.  When re-runs keep coming back with something missing the loss is
// the implementation's, the verdict is settled, and re-running every further op only costs time: after three futile
// re-runs in a process no op is re-run any more.
var udpFutileReruns = 0

func udpRerunWorthIt(missing bool) bool { return missing && udpFutileReruns < 3 }

func udpRerunDone(stillMissing bool) {
	if stillMissing {
		udpFutileReruns++
	}
	if os.Getenv("VERIF_UDP_DEBUG") != "" {
		fmt.Fprintf(os.Stderr, "udp: op re-run, still missing=%v (futile so far %d)\n", stillMissing, udpFutileReruns)
	}
}

func udpExec(tok []string) string {
	// frp's console logger writes to stdout, where the trace goes: error-level lines of the real code
	// (e.g. "sudp work write error" when a sender meets the connection closed under it) are not results
	udpQuiet.Do(func() { frplog.InitLogger(os.DevNull, "error", 0, true) })
	switch tok[0] {
	case "reset":
		udpFutileReruns = 0
		return "-"
	case "b64":
		b := []byte(unhx(tok[1]))
		m := udp.NewUDPPacket(b, nil, nil)
		back, err := udp.GetContent(m)
		rt := "0"
		if err == nil && bytes.Equal(back, b) {
			rt = "1"
		}
		return hx(udpWireContent(m)) + ":" + rt
	case "dec":
		m, ok := udpRawPacket(unhx(tok[1]), nil, nil)
		if !ok {
			return "err"
		}
		b, err := udp.GetContent(m)
		if err != nil {
			return "err"
		}
		return hx(string(b))
	case "frame":
		b := []byte(unhx(tok[2]))
		l, ok1 := parseAddrTok(tok[3])
		r, ok2 := parseAddrTok(tok[4])
		if !ok1 || !ok2 {
			return "noncanon"
		}
		m := udp.NewUDPPacket(b, l, r)
		var buf bytes.Buffer
		if err := msg.WriteMsg(&buf, m); err != nil {
			return "werr"
		}
		fr := buf.Bytes()
		res := fmt.Sprintf("len=%d;h=%d;", len(fr)-9, vhash(fr))
		got, err := msg.ReadMsg(bytes.NewReader(fr))
		if err != nil {
			if strings.Contains(err.Error(), "exceed the limit") {
				return res + "rd=toolong;rt=0"
			}
			return res + "rd=err;rt=0"
		}
		rt := "0"
		if g, ok := got.(*msg.UDPPacket); ok {
			c, e := udp.GetContent(g)
			if e == nil && bytes.Equal(c, b) && addrEq(g.LocalAddr, l) && addrEq(g.RemoteAddr, r) {
				rt = "1"
			}
		}
		return res + "rd=ok;rt=" + rt
	case "e2e", "e2es":
		return e2eExec(tok)
	case "sudp":
		return sudpExec(tok)
	case "spx":
		return spxExec(tok)
	case "cpx":
		return cpxExec(tok)
	case "upx":
		return upxExec(tok)
	case "e2ev":
		return e2evExec(tok)
	case "batch":
		return batchExec(tok)
	case "tunnel":
		ps := atoi(strings.TrimPrefix(tok[1], "ps="))
		k := atoi(strings.TrimPrefix(tok[2], "k="))
		var ds [][3]int
		dl := strings.TrimPrefix(tok[3], "d=")
		if dl != "" {
			for _, e := range strings.Split(dl, ",") {
				f := strings.Split(e, ".")
				ds = append(ds, [3]int{atoi(f[0]), atoi(f[1]), atoi(f[2])})
			}
		}
		// a datagram legitimately lost by the kernel must not alarm: when something is missing
		// (and nothing is wrong) the same op is run again and the fuller result reported
		g := 0
		if len(tok) > 4 {
			g = atoi(strings.TrimPrefix(tok[4], "g="))
		}
		res, missing := runTunnel(ps, k, ds, g)
		tries := 2
		if g > 0 {
			tries = 1
		}
		for try := 0; udpRerunWorthIt(missing) && try < tries; try++ {
			res, missing = runTunnel(ps, k, ds, g)
			udpRerunDone(missing)
		}
		return res
	}
	return "badop"
}

func safeSendPkt(ch chan *msg.UDPPacket, m *msg.UDPPacket) (ok bool) {
	defer func() {
		if recover() != nil {
			ok = false
		}
	}()
	ch <- m
	return true
}

type tentry struct{ u, seq, ln int; h uint64 }

func entryOf(p []byte) tentry {
	e := tentry{u: -1, seq: -1, ln: len(p), h: vhash(p)}
	if len(p) >= 4 {
		e.u, e.seq = int(p[1]), int(p[2])<<8|int(p[3])
	}
	return e
}

func fmtEntries(es []tentry) string {
	sort.Slice(es, func(i, j int) bool {
		a, b := es[i], es[j]
		if a.u != b.u {
			return a.u < b.u
		}
		if a.seq != b.seq {
			return a.seq < b.seq
		}
		if a.ln != b.ln {
			return a.ln < b.ln
		}
		return a.h < b.h
	})
	ss := make([]string, len(es))
	for i, e := range es {
		ss[i] = fmt.Sprintf("%d.%d.%d.%d", e.u, e.seq, e.ln, e.h)
	}
	return strings.Join(ss, ",")
}

// tunnelHeld is an answer the backend keeps until the burst is complete
type tunnelHeld struct {
	reply []byte
	to    *net.UDPAddr
}

// burstWait: until cnt() >= want, or nothing has moved for `stall`
func burstWait(cnt func() int, want int, stall time.Duration) bool {
	last, lastT := -1, time.Now()
	for {
		c := cnt()
		if c >= want {
			return true
		}
		if c != last {
			last, lastT = c, time.Now()
		} else if time.Since(lastT) > stall {
			return false
		}
		time.Sleep(200 * time.Microsecond)
	}
}

func runTunnel(ps, k int, ds [][3]int, g int) (string, bool) {
	lo := &net.UDPAddr{IP: net.IPv4(127, 0, 0, 1)}
	srvConn, err := net.ListenUDP("udp", lo)
	if err != nil {
		panic(err)
	}
	backend, err := net.ListenUDP("udp", lo)
	if err != nil {
		panic(err)
	}
	_ = srvConn.SetReadBuffer(4 << 20)
	_ = backend.SetReadBuffer(4 << 20)
	var mu sync.Mutex
	var bLog []tentry
	srcUser := map[int]int{} // backend-side: source port -> embedded user of first datagram
	srcPorts := map[int]*net.UDPAddr{}
	mixed := 0
	progress := 0
	var held []tunnelHeld
	go func() {
		buf := make([]byte, 70000)
		for {
			n, from, err := backend.ReadFromUDP(buf)
			if err != nil {
				return
			}
			p := append([]byte(nil), buf[:n]...)
			e := entryOf(p)
			mu.Lock()
			bLog = append(bLog, e)
			if u0, ok := srcUser[from.Port]; ok {
				if u0 != e.u {
					mixed = 1
				}
			} else {
				srcUser[from.Port] = e.u
				srcPorts[from.Port] = from
			}
			progress++
			if g > 0 {
				held = append(held, tunnelHeld{tunnelReply(p), from})
			}
			mu.Unlock()
			if g == 0 {
				_, _ = backend.WriteToUDP(tunnelReply(p), from)
			}
		}
	}()

	srvSend := make(chan *msg.UDPPacket, 1024)
	srvRead := make(chan *msg.UDPPacket, 1024)
	cliRead := make(chan *msg.UDPPacket, 1024)
	cliSend := make(chan msg.Message, 1024)
	pa, pb := net.Pipe() // pa = server end of the work connection, pb = client end
	ferr := 0
	// server workConnSenderFn
	go func() {
		for m := range srvSend {
			if msg.WriteMsg(pa, m) != nil {
				return
			}
		}
	}()
	// client workConnReaderFn
	go func() {
		for {
			var m msg.UDPPacket
			if err := msg.ReadMsgInto(pb, &m); err != nil {
				if strings.Contains(err.Error(), "exceed the limit") {
					mu.Lock()
					ferr++
					mu.Unlock()
				}
				return // as the real reader: returns, connection stays open
			}
			if !safeSendPkt(cliRead, &m) {
				return
			}
		}
	}()
	// client workConnSenderFn
	go func() {
		for m := range cliSend {
			if msg.WriteMsg(pb, m) != nil {
				return
			}
		}
	}()
	// server workConnReaderFn
	go func() {
		for {
			raw, err := msg.ReadMsg(pa)
			if err != nil {
				if strings.Contains(err.Error(), "exceed the limit") {
					mu.Lock()
					ferr++
					mu.Unlock()
				}
				pa.Close()
				return
			}
			if m, ok := raw.(*msg.UDPPacket); ok {
				if !safeSendPkt(srvRead, m) {
					return
				}
			}
		}
	}()
	fwdDone := make(chan struct{})
	go func() {
		udp.ForwardUserConn(srvConn, srvRead, srvSend, ps)
		close(fwdDone)
	}()
	udp.Forwarder(backend.LocalAddr().(*net.UDPAddr), cliRead, cliSend, ps)

	users := make([]*net.UDPConn, k)
	uLog := make([][]tentry, k)
	var wg sync.WaitGroup
	for i := 0; i < k; i++ {
		c, err := net.DialUDP("udp", nil, srvConn.LocalAddr().(*net.UDPAddr))
		if err != nil {
			panic(err)
		}
		_ = c.SetReadBuffer(4 << 20)
		users[i] = c
		wg.Add(1)
		go func(i int, c *net.UDPConn) {
			defer wg.Done()
			buf := make([]byte, 70000)
			for {
				n, err := c.Read(buf)
				if err != nil {
					return
				}
				e := entryOf(buf[:n])
				mu.Lock()
				uLog[i] = append(uLog[i], e)
				progress++
				mu.Unlock()
			}
		}(i, c)
	}
	if g > 0 {
		count := func() int { mu.Lock(); defer mu.Unlock(); return progress }
		done := 0
		stall := 250 * time.Millisecond // once something has failed to come the verdict is settled: do not wait long again
		for lo := 0; lo < len(ds); lo += g {
			hi := min(lo+g, len(ds))
			for i := lo; i < hi; i++ { // the burst: back to back
				d := ds[i]
				_, _ = users[d[0]].Write(tunnelPayload(d[0], i, d[1], d[2]))
			}
			if !burstWait(count, done+(hi-lo), stall) {
				stall = 40 * time.Millisecond
			}
			mu.Lock()
			h := held
			held = nil
			done = progress
			mu.Unlock()
			for _, x := range h { // the answers of the burst: back to back
				_, _ = backend.WriteToUDP(x.reply, x.to)
			}
			if !burstWait(count, done+len(h), stall) {
				stall = 40 * time.Millisecond
			}
			done = count()
		}
	} else {
		for i, d := range ds {
			_, _ = users[d[0]].Write(tunnelPayload(d[0], i, d[1], d[2]))
			if i%8 == 7 {
				time.Sleep(300 * time.Microsecond)
			}
		}
	}
	// quiescence: everything expected has arrived, or no progress for 250 ms
	want := 2 * len(ds)
	last, lastT := -1, time.Now()
	for {
		mu.Lock()
		p := progress
		mu.Unlock()
		if p >= want {
			time.Sleep(5 * time.Millisecond) // let a duplicate show up
			break
		}
		if p != last {
			last, lastT = p, time.Now()
		} else if time.Since(lastT) > 250*time.Millisecond || (g > 0 && time.Since(lastT) > 40*time.Millisecond) {
			break
		}
		time.Sleep(2 * time.Millisecond)
	}
	// teardown
	srvConn.Close()
	<-fwdDone
	close(srvRead)
	close(srvSend)
	close(cliRead)
	for _, c := range users {
		c.Close()
	}
	wg.Wait()
	mu.Lock()
	out := "B=" + fmtEntries(bLog)
	total := len(bLog)
	for i := 0; i < k; i++ {
		out += fmt.Sprintf(";U%d=%s", i, fmtEntries(uLog[i]))
		total += len(uLog[i])
	}
	out += fmt.Sprintf(";socks=%d;mixed=%d;ferr=%d", len(srcUser), mixed, ferr)
	ports := srcPorts
	nferr := ferr
	mu.Unlock()
	// make the per-socket reader goroutines of the Forwarder leave: their send on the closed
	// channel panics (recovered by the real code) and they close their sockets
	func() {
		defer func() { _ = recover() }()
		close(cliSend)
	}()
	for _, a := range ports {
		_, _ = backend.WriteToUDP([]byte{0}, a)
	}
	time.Sleep(time.Millisecond)
	backend.Close()
	pa.Close()
	pb.Close()
	return out, total < want && nferr == 0
}

// ---------------------------------------------------------------- generator

func randBytes(rng *rand.Rand, n int) []byte {
	b := make([]byte, n)
	switch rng.Intn(6) {
	case 0: // all zero / all 0xff: exercise the padding bits
		v := byte(0)
		if rng.Intn(2) == 0 {
			v = 0xff
		}
		for i := range b {
			b[i] = v
		}
	default:
		rng.Read(b)
	}
	return b
}

var genIPs = []string{"127.0.0.1", "0.0.0.0", "10.1.2.3", "255.255.255.255", "192.168.100.200", "1.1.1.1",
	"::1", "::", "fe80::1", "2001:db8::8a2e:370:7334", "2001:db8:1111:2222:3333:4444:5555:6666",
	"ffff:ffff:ffff:ffff:ffff:ffff:ffff:ffff", ""}
var genZones = []string{"", "", "", "eth0", "lo", "enp0s31f6", "wlp0s20f3abcde"}
var genPorts = []int{0, 1, 7, 53, 80, 999, 1000, 9999, 10000, 65535, 40000, 12345}

func genAddr(rng *rand.Rand, allowNil bool) string {
	if allowNil && rng.Intn(4) == 0 {
		return "nil"
	}
	ip := pick(rng, genIPs)
	zone := ""
	if strings.Contains(ip, ":") {
		zone = pick(rng, genZones)
	}
	return "a:" + hx(ip) + ":" + strconv.Itoa(pick(rng, genPorts)) + ":" + hx(zone)
}

const b64alpha = "ABCDEFGHIJKLMNOPQRSTUVWXYZabcdefghijklmnopqrstuvwxyz0123456789+/"

func genMalformed(rng *rand.Rand) string {
	switch rng.Intn(4) {
	case 0: // short strings over a small alphabet: every padding shape is hit
		al := "AQ/+=\n\rZg-_ .9"
		n := rng.Intn(10)
		var sb strings.Builder
		for i := 0; i < n; i++ {
			sb.WriteByte(al[rng.Intn(len(al))])
		}
		return sb.String()
	case 1: // alphabet-only, arbitrary length (unpadded tails)
		n := rng.Intn(40)
		var sb strings.Builder
		for i := 0; i < n; i++ {
			sb.WriteByte(b64alpha[rng.Intn(64)])
		}
		for i := rng.Intn(4); i > 0; i-- {
			sb.WriteByte('=')
		}
		return sb.String()
	default: // valid encoding, then mutated
		m := udp.NewUDPPacket(randBytes(rng, rng.Intn(30)), nil, nil)
		s := []byte(udpWireContent(m))
		for j := rng.Intn(3); j > 0 && len(s) > 0; j-- {
			i := rng.Intn(len(s))
			switch rng.Intn(7) {
			case 0:
				s = append(s[:i], append([]byte{'\n'}, s[i:]...)...)
			case 1:
				s = append(s[:i], append([]byte{'\r', '\n'}, s[i:]...)...)
			case 2:
				s[i] = '='
			case 3:
				s = s[:i]
			case 4:
				s[i] = byte(rng.Intn(256))
			case 5:
				s = append(s, b64alpha[rng.Intn(64)])
			case 6:
				s[i] = "-_ .,"[rng.Intn(5)]
			}
		}
		return string(s)
	}
}

func genTunnel(rng *rand.Rand, ps, k, nd, maxLen int, emit func(string)) {
	ds := make([]string, nd)
	for i := range ds {
		ln := 4 + rng.Intn(maxLen-3)
		switch rng.Intn(10) {
		case 0:
			ln = 4
		case 1:
			ln = maxLen
		case 2:
			if maxLen >= ps { // a little longer than the packet size: cut to ps by the read buffer
				ln = ps + 1 + rng.Intn(8)
			}
		}
		ds[i] = fmt.Sprintf("%d.%d.%d", rng.Intn(k), ln, rng.Intn(1<<30))
	}
	emit(fmt.Sprintf("tunnel ps=%d k=%d d=%s", ps, k, strings.Join(ds, ",")))
}

// burstShape: a burst size between 20 and 100 and a payload bound that keeps one burst inside the default socket
// buffer of the sockets frp opens (the kernel accounts ~768 bytes for a small datagram, payload + ~800 for a large
// one; 208 KiB by default): a burst is back-to-back traffic, not overload
func burstShape(rng *rand.Rand, ps int) (g, maxLen int) {
	g = 20 + rng.Intn(81)
	maxLen = 110000/g - 800
	if maxLen > ps {
		maxLen = ps
	}
	if maxLen < 16 {
		maxLen = 16
	}
	return
}

// genBurstDs: nb bursts of g datagrams with distinct payloads; within a burst the senders are one user, the users in
// turn, or arbitrary; lengths vary from datagram to datagram (a shorter one behind a longer one and vice versa), with
// runs of equal lengths and the extremes 4 / maxLen in between
func genBurstDs(rng *rand.Rand, k, nb, g, maxLen int) string {
	ds := make([]string, 0, nb*g)
	for b := 0; b < nb; b++ {
		mode := rng.Intn(3)
		u0 := rng.Intn(k)
		ln := 4 + rng.Intn(maxLen-3)
		for i := 0; i < g; i++ {
			u := u0
			switch mode {
			case 1:
				u = (u0 + i) % k
			case 2:
				u = rng.Intn(k)
			}
			switch rng.Intn(8) {
			case 0:
				ln = 4
			case 1:
				ln = maxLen
			case 2, 3: // keep the length of the previous datagram
			default:
				ln = 4 + rng.Intn(maxLen-3)
			}
			ds = append(ds, fmt.Sprintf("%d.%d.%d", u, ln, rng.Intn(1<<30)))
		}
	}
	return strings.Join(ds, ",")
}

func udpGen(rng *rand.Rand, n int, emit func(string)) {
	emit("reset")
	// (00) bursts first (a failure is then found in a short prefix): back-to-back datagrams on the public / visitor
	// port and back-to-back answers from the backend, on the restated pump, through real frps + frpc (all four
	// encryption x compression settings), through a real sudp visitor + frps + sudp proxy
	for i := 0; i < n/600+4; i++ {
		ps := pick(rng, []int{1500, 1500, 1500, 64, 4096, 7605})
		g, maxLen := burstShape(rng, ps)
		k := 1 + rng.Intn(4)
		emit(fmt.Sprintf("tunnel ps=%d k=%d d=%s g=%d", ps, k, genBurstDs(rng, k, 1+rng.Intn(3), g, maxLen), g))
	}
	for i := 0; i < n/3000+1; i++ {
		for ec := 0; ec < 4; ec++ {
			g, maxLen := burstShape(rng, 1500)
			k := 1 + rng.Intn(4)
			emit(fmt.Sprintf("e2e ps=1500 enc=%d comp=%d k=%d d=%s g=%d", ec>>1, ec&1, k, genBurstDs(rng, k, 1+rng.Intn(3), g, maxLen), g))
		}
		for _, ec := range []int{0, 3} {
			g, maxLen := burstShape(rng, 1500)
			k := 1 + rng.Intn(4)
			emit(fmt.Sprintf("e2es ps=1500 enc=%d comp=%d k=%d d=%s g=%d", ec>>1, ec&1, k, genBurstDs(rng, k, 1+rng.Intn(2), g, maxLen), g))
		}
	}
	// (01) the client side of a udp proxy fed a typed stream: every message type of the protocol between the datagrams
	upxGen(rng, n, emit)
	// (0) first, so that a failure is found in a short prefix: batches of decoded payloads that are all kept, the
	// client side of a sudp proxy with several work connections alive at once (scripted, and behind real visitors + frps)
	pxGen(rng, n, emit)
	// (a) codec: every length 0..2048 once (scaled down for small n), then random sizes up to 64 KiB
	top := 2048
	if n < 4000 {
		top = n / 2
	}
	for ln := 0; ln <= top; ln++ {
		emit("b64 " + hx(string(randBytes(rng, ln))))
	}
	for i := 0; i < n/150+4; i++ {
		emit("b64 " + hx(string(randBytes(rng, 2049+rng.Intn(65536-2049)))))
	}
	for i := 0; i < n/3; i++ {
		emit("dec " + hx(genMalformed(rng)))
	}
	// frames: payload sizes around the 10240 limit under several configured packet sizes
	pss := []int{1500, 1500, 4096, 7605, 7606, 7680, 9000, 65535}
	for i := 0; i < n/5; i++ {
		ps := pick(rng, pss)
		var ln int
		switch rng.Intn(6) {
		case 0:
			ln = rng.Intn(4)
		case 1:
			ln = ps
		case 2, 3:
			ln = 7590 + rng.Intn(100)
		default:
			ln = rng.Intn(ps + 1)
		}
		if ln > ps {
			ln = ps
		}
		l := "nil"
		if rng.Intn(8) == 0 {
			l = genAddr(rng, false)
		}
		emit(fmt.Sprintf("frame ps=%d %s %s %s", ps, hx(string(randBytes(rng, ln))), l, genAddr(rng, true)))
	}
	// (b) tunnel runs at light load
	nt := n/100 + 3
	for i := 0; i < nt; i++ {
		k := 1 + rng.Intn(6)
		switch rng.Intn(8) {
		case 0:
			genTunnel(rng, 64, k, 40+rng.Intn(80), 64, emit)
		case 1:
			genTunnel(rng, 4096, k, 30+rng.Intn(60), 4096, emit)
		case 2:
			genTunnel(rng, 7605, k, 20+rng.Intn(30), 7605, emit)
		case 3:
			genTunnel(rng, 1500, 1, 30+rng.Intn(100), 200, emit)
		default:
			genTunnel(rng, 1500, k, 40+rng.Intn(160), 1500, emit)
		}
	}
	// the same traffic through a real frps + frpc pair (one pair per encryption x compression setting, and a fifth with
	// the largest packet size that always fits)
	e2eGen := func(ps int, enc, comp int, k, nd, maxLen int) {
		genTunnel(rng, ps, k, nd, maxLen, func(l string) {
			emit(strings.Replace(l, fmt.Sprintf("tunnel ps=%d ", ps), fmt.Sprintf("e2e ps=%d enc=%d comp=%d ", ps, enc, comp), 1))
		})
	}
	for i := 0; i < n/1500+1; i++ {
		e2eGen(1500, 0, 0, 1+rng.Intn(5), 30+rng.Intn(100), 1500)
		e2eGen(1500, 1, 1, 1+rng.Intn(5), 30+rng.Intn(100), 1500)
		e2eGen(1500, 1, 0, 1+rng.Intn(5), 30+rng.Intn(100), 1500)
		e2eGen(1500, 0, 1, 1+rng.Intn(5), 30+rng.Intn(100), 1500)
		e2eGen(7605, 1, 0, 1+rng.Intn(3), 10+rng.Intn(20), 7605)
	}
	// the configuration-limit case end to end: packet size 9000, the third datagram has 8000 bytes
	emit(fmt.Sprintf("e2e ps=9000 enc=0 comp=0 k=2 d=0.100.%d,1.200.%d,0.8000.%d,1.300.%d,0.120.%d,1.50.%d",
		rng.Intn(1<<30), rng.Intn(1<<30), rng.Intn(1<<30), rng.Intn(1<<30), rng.Intn(1<<30), rng.Intn(1<<30)))
	// the configuration-limit case (DESIGN §7 item 15): packet size 9000, one 8000-byte datagram
	// in the middle of small ones
	emit(fmt.Sprintf("tunnel ps=9000 k=2 d=0.100.%d,1.200.%d,0.8000.%d,1.300.%d,0.120.%d,1.50.%d",
		rng.Intn(1<<30), rng.Intn(1<<30), rng.Intn(1<<30), rng.Intn(1<<30), rng.Intn(1<<30), rng.Intn(1<<30)))
	// (c) the sudp visitor (client/visitor/sudp.go) against a scripted peer, with connection loss
	sudpGen(rng, n, emit)
	// (d) sudp end to end: real visitor + frps + sudp proxy (two pairs: plain, encrypted+compressed)
	e2esGen := func(ps int, enc, comp int, k, nd, maxLen int) {
		genTunnel(rng, ps, k, nd, maxLen, func(l string) {
			emit(strings.Replace(l, fmt.Sprintf("tunnel ps=%d ", ps), fmt.Sprintf("e2es ps=%d enc=%d comp=%d ", ps, enc, comp), 1))
		})
	}
	for i := 0; i < n/3000+1; i++ {
		e2esGen(1500, 0, 0, 1+rng.Intn(5), 30+rng.Intn(100), 1500)
		e2esGen(1500, 1, 1, 1+rng.Intn(5), 30+rng.Intn(100), 1500)
	}
	// (e) the server side of a udp proxy (server/proxy/udp.go) inside a real frps, the harness playing frpc:
	// replacement of the work connection while idle and under traffic
	spxGen(rng, n, emit)
}
