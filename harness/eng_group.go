package main

import (
	"bufio"
	"bytes"
	"context"
	"encoding/base64"
	"fmt"
	"io"
	"math/rand"
	"net"
	"net/http"
	"net/http/httptest"
	"net/url"
	"os"
	"os/exec"
	"reflect"
	"runtime"
	"sort"
	"strconv"
	"strings"
	"sync"
	"sync/atomic"
	"time"
	"unsafe"

	"github.com/fatedier/frp/pkg/config/types"
	"github.com/fatedier/frp/pkg/util/tcpmux"
	"github.com/fatedier/frp/pkg/util/verifhook"
	"github.com/fatedier/frp/pkg/util/vhost"
	"github.com/fatedier/frp/server/group"
	"github.com/fatedier/frp/server/ports"
)

// Engine "group" (property C13): the real TCPGroupCtl (real ports.Manager on a loopback port block,
// real sockets), HTTPGroupController (real vhost.Routers + HTTPReverseProxy.CreateConnection) and
// TCPMuxGroupCtl (real tcpmux.HTTPConnectTCPMuxer on a loopback listener, real CONNECT requests).
//
//	reset <tcp|http|mux>
//	join <m> <g> <key> <p1> <p2> <p3> <p4> <mode>   => ok:<r>:<=|actual> (tcp) | ok | err:<class> | busy
//	     mode 0 = plain, 1 = grab (below), 2 = HELD: the member joins but its proxy does not call Accept
//	     until `resume` (the goroutine that would sit in TCPGroupListener.Accept is not scheduled yet)
//	     tcp : p1 = bind addr, p2 = port (0 = server chooses, k = base+k)        grab=1: another process
//	     http: p1 = domain, p2 = location, p3 = routeByHTTPUser                  binds the port between
//	     mux : p1 = domain, p2 = routeByHTTPUser, p3 = username, p4 = password   Acquire and net.Listen
//	leave <m>                                       => - | nomember | crash (only inside sched: the child dies)
//	conn <a> <b> <c>                                => to:<m> | refused | stuck | closed | squat | noroute | nomember | unauth | held | busy
//	     (held = every live member of that endpoint is held: not attempted; use dial)
//	dial <id> <a> <b> <c>                           => c | refused | noroute | unauth | squat | busy | dupid
//	     a user connection that is opened and KEPT: arrival is decoupled from pick-up.  It is resolved
//	     later: delivered to a member, closed by frps, or never (stranded).
//	resume <m>                                      => - | noop      a held member starts its accept loop
//	     join/enter/leave/resume/dial append `|<id>=to:<m>,<id>=closed,…`: the kept connections that
//	     were resolved by the end of the op (waiting up to 2 s for those that must be: a member of the
//	     endpoint is accepting, or the endpoint has no live member left; `<id>=stuck` = it had to be and
//	     is still open after the 2 s — reported once, then the user gives up)
//	     tcp : a = port k (dial 127.0.0.1:base+k)    http: domain location user    mux: domain user password
//	connE <a> <b> <c>                               => to:<m> | noroute | squat | badop   http only: the same request through the real
//	     HTTPReverseProxy.ServeHTTP (Rewrite → chooseEndpoint, transport → createConnByEndpoint)
//	squat <a> <b> <c> / unsquat <a> <b> <c>         => ok | busy | -
//	view                                            => used ports / routes held, canonical
//	lookup <m> <g> <key> <p1..p4> <grab>            => parked | busy | nogate      (join goroutine parked between lookup and join)
//	enter <m>                                       => result of the parked join | nopend
//	sched <kind> <op;op;…>   (inner tokens joined by ',')   => r1;r2;…[;crash]     run in a SACRIFICIAL CHILD PROCESS
//
// Inside `sched` only — joins AND leaves as separately scheduled steps.  Every join / leave started this way
// runs on a goroutine of its own ("thread"); an op returns when every thread has finished, is parked at a gate,
// or is blocked on a mutex (goroutine state from runtime.Stack) — never on a timer:
//
//	hold <g>        the harness takes the GROUP lock of the object stored under g (reflect: ctl.groups[g].mu):
//	                a leave is thereby paused after its table lookup, before its group edit   => held | nogroup | nofield | busy
//	unhold          gives it back; returns when everything has settled again                   => -
//	leaveA <m>      the leave of m, asynchronous          => - (finished) | waiting (blocked on a lock) | nomember
//	leaveW <m>      its end                               => - | wedged | premature (a hold / a parked join is in the way) | noasync
//	lookup …        as before; now also                   => waiting (blocked on a lock BEFORE the gate)
//	enter <m>       as before; now                        => … | wedged | premature (hold active)
//	wedged = the op's thread is not finished although no hold and no gate is left: nothing this process can still
//	do will ever let it finish (all threads blocked on mutexes, or no progress for 2 s).  The child ends there.
//	tcp: port token `@<m>` = the real port last reported to member m (the operator pins the port frps had chosen)
const groupK = 10

type groupMember struct {
	name, g string
	ln      net.Listener      // tcp / mux
	route   vhost.RouteConfig // http
	done    chan struct{}     // the member's accept loop has returned (nil: never started)
	manual  bool              // held: joined, accept loop not started
	key     string            // endpoint this member's listener sits on (harness bookkeeping)
	user    string            // mux: credentials of the listener
	pass    string
}

// a user connection that is kept open after the dial
type groupDial struct {
	id       int
	c        net.Conn
	key      string        // endpoint it reached
	res      string        // "" = unresolved | to:<m> | closed | squat | unauth
	done     chan struct{} // closed when resolved
	doomed   bool          // its endpoint lost its last live member: frps must close it
	reported bool
}

type groupPending struct {
	m, g   string
	gate   chan struct{}
	done   chan string
	atGate atomic.Bool // the join goroutine has reached the gate (set by the hook handler just before it blocks)
	open   atomic.Bool // the gate has been opened (op `enter`)
	th     *groupThread
}

// a join or leave running on a goroutine of its own
type groupThread struct {
	key  string // "J"+m | "L"+m
	goid string
	pd   *groupPending // joins: the gate they may be parked at
	done chan struct{}
	res  string
}

func (p *groupPending) parked() bool { return p.atGate.Load() && !p.open.Load() }

type groupLocker interface {
	TryLock() bool
	Unlock()
}

type groupWorld struct {
	kind    string
	base    int
	pm      *ports.Manager
	tcpCtl  *group.TCPGroupCtl
	routers *vhost.Routers
	httpCtl *group.HTTPGroupController
	rp      *vhost.HTTPReverseProxy
	muxLn   net.Listener
	muxer   *tcpmux.HTTPConnectTCPMuxer
	muxCtl  *group.TCPMuxGroupCtl
	members map[string]*groupMember
	pending map[string]*groupPending // by member
	pendGrp map[string]string        // group -> member with a parked join
	squats  map[string]io.Closer
	mu      sync.Mutex
	armed   map[string]*groupPending // gate key -> pending join to park
	grab    map[string]int           // proxy name -> port to bind at the acquire gate
	parkedC chan string
	dials   map[int]*groupDial
	threads  map[string]*groupThread
	hold     groupLocker    // group lock held by the harness (op `hold`)
	lastPort map[string]int // tcp: member -> the real port its last accepted join reported
}

var groupW *groupWorld
var groupHasGates = -1 // -1 unknown, 0 no, 1 yes

type groupTagConn struct {
	net.Conn
	tag string
}

// a block of groupK free ports BELOW the kernel's ephemeral range (so that no outgoing connection of
// this or another process can sit on one of them) and away from the blocks the other engines use
func groupPickBase() int {
	for tries := 0; tries < 500; tries++ {
		b := 10000 + portsRng.Intn(9000)
		ok := true
		for i := 0; i < groupK; i++ {
			if !portFree(b + i) {
				ok = false
				break
			}
		}
		if ok {
			return b
		}
	}
	panic("no free port block")
}

func groupClose() {
	w := groupW
	if w == nil {
		return
	}
	verifhook.Set(nil)
	if w.hold != nil {
		w.hold.Unlock()
		w.hold = nil
	}
	for _, p := range w.pending {
		close(p.gate)
		select {
		case <-p.done:
		case <-time.After(2 * time.Second):
		}
	}
	for _, m := range w.members {
		func() {
			defer func() { recover() }()
			if w.kind == "http" {
				w.httpCtl.UnRegister(m.name, m.g, m.route)
			} else {
				m.ln.Close()
			}
		}()
	}
	for _, s := range w.squats {
		s.Close()
	}
	for _, d := range w.dials {
		d.c.Close()
	}
	if w.muxLn != nil {
		w.muxLn.Close()
	}
	groupW = nil
}

func groupGateKey(kind, m, g, domain string) string {
	if kind == "mux" {
		return "tcpmuxgroup.listen.lookedup|" + g + "|" + domain
	}
	if kind == "http" {
		return "httpgroup.register.lookedup|" + m
	}
	return "tcpgroup.listen.lookedup|" + m
}

func groupReset(kind string) {
	groupClose()
	w := &groupWorld{kind: kind, members: map[string]*groupMember{}, pending: map[string]*groupPending{},
		pendGrp: map[string]string{}, squats: map[string]io.Closer{}, armed: map[string]*groupPending{},
		grab: map[string]int{}, parkedC: make(chan string, 16), dials: map[int]*groupDial{},
		threads: map[string]*groupThread{}, lastPort: map[string]int{}}
	switch kind {
	case "tcp":
		w.base = groupPickBase()
		w.pm = ports.NewManager("tcp", "127.0.0.1", []types.PortsRange{{Start: w.base + 1, End: w.base + 8}})
		w.tcpCtl = group.NewTCPGroupCtl(w.pm)
	case "http":
		w.routers = vhost.NewRouters()
		w.httpCtl = group.NewHTTPGroupController(w.routers)
		w.rp = vhost.NewHTTPReverseProxy(vhost.HTTPReverseProxyOptions{}, w.routers)
	case "mux":
		l, err := net.Listen("tcp", "127.0.0.1:0")
		if err != nil {
			panic(err)
		}
		w.muxLn = l
		w.muxer, _ = tcpmux.NewHTTPConnectTCPMuxer(l, false, 2*time.Second)
		w.muxCtl = group.NewTCPMuxGroupCtl(w.muxer)
	default:
		panic("kind")
	}
	groupW = w
	verifhook.Set(func(point string, keys []string) {
		key := point + "|" + strings.Join(keys, "|")
		w.mu.Lock()
		if point == "tcpgroup.listen.acquired" && len(keys) == 1 {
			if p, ok := w.grab[keys[0]]; ok {
				delete(w.grab, keys[0])
				if l, err := net.Listen("tcp", "127.0.0.1:"+strconv.Itoa(p)); err == nil {
					groupSquatServe(l)
					w.squats["p"+strconv.Itoa(p)] = l
				}
			}
		}
		p := w.armed[key]
		delete(w.armed, key)
		w.mu.Unlock()
		if p != nil {
			p.atGate.Store(true)
			<-p.gate
		}
	})
}

// ---- threads: joins and leaves as separately scheduled steps

func groupGoID() string {
	buf := make([]byte, 64)
	f := strings.Fields(string(buf[:runtime.Stack(buf, false)]))
	if len(f) > 1 {
		return f[1]
	}
	return "?"
}

// goroutine id -> wait state ("" = running / runnable / in a syscall)
func groupGoStates() map[string]string {
	buf := make([]byte, 1<<18)
	n := runtime.Stack(buf, true)
	for n == len(buf) {
		buf = make([]byte, 2*len(buf))
		n = runtime.Stack(buf, true)
	}
	m := map[string]string{}
	for _, g := range strings.Split(string(buf[:n]), "\n\n") {
		if !strings.HasPrefix(g, "goroutine ") {
			continue
		}
		i, j := strings.Index(g, "["), strings.Index(g, "]")
		if i < 0 || j < i {
			continue
		}
		st := g[i+1 : j]
		if k := strings.Index(st, ","); k >= 0 {
			st = st[:k]
		}
		m[strings.Fields(g)[1]] = st
	}
	return m
}

func groupMutexWait(st string) bool {
	return strings.HasPrefix(st, "sync.Mutex") || strings.HasPrefix(st, "sync.RWMutex") || st == "semacquire"
}

func (w *groupWorld) spawn(key string, pd *groupPending, body func() string) *groupThread {
	t := &groupThread{key: key, pd: pd, done: make(chan struct{})}
	ready := make(chan struct{})
	go func() {
		t.goid = groupGoID()
		close(ready)
		t.res = body()
		close(t.done)
	}()
	<-ready
	w.mu.Lock()
	w.threads[key] = t
	w.mu.Unlock()
	return t
}

func (t *groupThread) finished() bool {
	select {
	case <-t.done:
		return true
	default:
		return false
	}
}

// allSettled: every thread has finished, is parked at its gate, or is blocked on a mutex — in ONE snapshot of the
// goroutine states, so that no running thread is about to release what another one waits for
func (w *groupWorld) allSettled() bool {
	w.mu.Lock()
	ts := make([]*groupThread, 0, len(w.threads))
	for _, t := range w.threads {
		ts = append(ts, t)
	}
	w.mu.Unlock()
	var st map[string]string
	for _, t := range ts {
		if t.finished() || (t.pd != nil && t.pd.parked()) {
			continue
		}
		if st == nil {
			st = groupGoStates()
		}
		if !groupMutexWait(st[t.goid]) {
			return false
		}
	}
	return true
}

// waitSettled: done | gate | blocked | timeout — event-driven (polls the goroutine states every 200 µs), bounded by 2 s
func (w *groupWorld) waitSettled(t *groupThread) string {
	deadline := time.Now().Add(2 * time.Second)
	for {
		if t != nil && t.finished() {
			return "done"
		}
		if t != nil && t.pd != nil && t.pd.parked() {
			return "gate"
		}
		if w.allSettled() {
			// confirm: a thread between two locks is "running" for an instant only; look twice
			time.Sleep(300 * time.Microsecond)
			if w.allSettled() {
				if t != nil && t.finished() {
					return "done"
				}
				if t != nil && t.pd != nil && t.pd.parked() {
					return "gate"
				}
				return "blocked"
			}
		}
		if time.Now().After(deadline) {
			return "timeout"
		}
		time.Sleep(200 * time.Microsecond)
	}
}

// the mutex of the group object stored under name g, reached by reflection (fields `groups` / `mu`)
func (w *groupWorld) groupLock(g string) (groupLocker, string) {
	var ctl any
	switch w.kind {
	case "tcp":
		ctl = w.tcpCtl
	case "http":
		ctl = w.httpCtl
	default:
		ctl = w.muxCtl
	}
	gs := reflect.ValueOf(ctl).Elem().FieldByName("groups")
	if !gs.IsValid() || gs.Kind() != reflect.Map {
		return nil, "nofield"
	}
	gv := gs.MapIndex(reflect.ValueOf(g))
	if !gv.IsValid() || gv.Kind() != reflect.Pointer || gv.IsNil() {
		return nil, "nogroup"
	}
	mu := gv.Elem().FieldByName("mu")
	if !mu.IsValid() || !mu.CanAddr() {
		return nil, "nofield"
	}
	switch mu.Type().String() {
	case "sync.Mutex":
		return (*sync.Mutex)(unsafe.Pointer(mu.UnsafeAddr())), ""
	case "sync.RWMutex":
		return (*sync.RWMutex)(unsafe.Pointer(mu.UnsafeAddr())), ""
	}
	return nil, "nofield"
}

// is a hold or a gated join in the way of the threads that are still running?
func (w *groupWorld) obstructed() bool {
	w.mu.Lock()
	defer w.mu.Unlock()
	return w.hold != nil || len(w.pending) > 0
}

// the real leave of member mb (books already updated)
func (w *groupWorld) realLeave(mb *groupMember) string {
	if w.kind == "http" {
		w.httpCtl.UnRegister(mb.name, mb.g, mb.route)
		return "-"
	}
	mb.ln.Close()
	// "live" ends when Close has returned AND the proxy's accept loop has seen it
	if mb.done != nil {
		select {
		case <-mb.done:
		case <-time.After(2 * time.Second):
			return "loopalive"
		}
	}
	return "-"
}

// books of a leave: the member is gone from the harness's list; its endpoint may have lost its last live member
func (w *groupWorld) bookLeave(m string) *groupMember {
	w.mu.Lock()
	defer w.mu.Unlock()
	mb := w.members[m]
	delete(w.members, m)
	if mb != nil && w.kind != "http" && len(w.membersAt(mb.key)) == 0 {
		// the endpoint has no live member left: whatever is still waiting there must be closed by frps
		for _, d := range w.dials {
			if d.key == mb.key && d.res == "" {
				d.doomed = true
			}
		}
	}
	return mb
}

func groupSquatServe(l net.Listener) {
	go func() {
		for {
			c, err := l.Accept()
			if err != nil {
				return
			}
			c.Write([]byte("SQUAT\n"))
			c.Close()
		}
	}()
}

func groupErrClass(err error) string {
	switch err {
	case group.ErrGroupAuthFailed:
		return "err:authFailed"
	case group.ErrGroupParamsInvalid:
		return "err:paramsInvalid"
	case group.ErrGroupDifferentPort:
		return "err:differentPort"
	case group.ErrProxyRepeated:
		return "err:repeated"
	case vhost.ErrRouterConfigConflict:
		return "err:conflict"
	case ports.ErrPortAlreadyUsed, ports.ErrPortNotAllowed, ports.ErrPortUnAvailable, ports.ErrNoAvailablePort:
		return "err:acquire"
	}
	if _, ok := err.(*net.OpError); ok {
		return "err:listen"
	}
	return "err:other:" + hx(err.Error())
}

// the member's accept loop: what startCommonTCPListenersHandler does, reduced to "who got it"
func groupServeMember(name string, ln net.Listener) chan struct{} {
	done := make(chan struct{})
	go func() {
		defer close(done)
		for {
			c, err := ln.Accept()
			if err != nil {
				return
			}
			c.Write([]byte(name + "\n"))
			c.Close()
		}
	}()
	return done
}

// doJoin runs the real join; called on the op goroutine (big step) or on its own goroutine (gated)
func (w *groupWorld) doJoin(m, g, key string, p [4]string, manual bool) string {
	serve := func(ln net.Listener) chan struct{} {
		if manual {
			return nil
		}
		return groupServeMember(m, ln)
	}
	switch w.kind {
	case "tcp":
		port, okp := w.tcpPort(p[1])
		if !okp {
			return "noref"
		}
		ln, realPort, err := w.tcpCtl.Listen(m, g, key, p[0], port)
		if err != nil {
			return groupErrClass(err)
		}
		w.mu.Lock()
		w.lastPort[m] = realPort
		ek := "p?"
		if ta, ok := ln.Addr().(*net.TCPAddr); ok {
			ek = "p" + strconv.Itoa(ta.Port)
		}
		w.members[m] = &groupMember{name: m, g: g, ln: ln, done: serve(ln), manual: manual, key: ek}
		w.mu.Unlock()
		act := "="
		if ta, ok := ln.Addr().(*net.TCPAddr); !ok || ta.Port != realPort {
			act = strconv.Itoa(ta.Port)
		}
		return fmt.Sprintf("ok:%d:%s", realPort-w.base, act)
	case "http":
		rc := vhost.RouteConfig{Domain: p[0], Location: p[1], RouteByHTTPUser: p[2],
			CreateConnFn: func(string) (net.Conn, error) { return groupHTTPBackend(m), nil }}
		err := w.httpCtl.Register(m, g, key, rc)
		if err != nil {
			return groupErrClass(err)
		}
		w.mu.Lock()
		w.members[m] = &groupMember{name: m, g: g, route: rc}
		w.mu.Unlock()
		return "ok"
	default:
		rc := vhost.RouteConfig{Domain: p[0], RouteByHTTPUser: p[1], Username: p[2], Password: p[3]}
		ln, err := w.muxCtl.Listen(context.Background(), "httpconnect", g, key, rc)
		if err != nil {
			return groupErrClass(err)
		}
		w.mu.Lock()
		w.members[m] = &groupMember{name: m, g: g, ln: ln, done: serve(ln), manual: manual,
			key: strings.ToLower(p[0]) + "|" + p[1], user: p[2], pass: p[3]}
		w.mu.Unlock()
		return "ok"
	}
}

// tcp port token: 0 = server chooses, k = base+k, @<m> = the real port last reported to member m
func (w *groupWorld) tcpPort(t string) (int, bool) {
	if strings.HasPrefix(t, "@") {
		w.mu.Lock()
		defer w.mu.Unlock()
		p, ok := w.lastPort[unhx(t[1:])]
		return p, ok
	}
	port := atoi(t)
	if port != 0 {
		port += w.base
	}
	return port, true
}

func (w *groupWorld) busyName(m, g string) bool {
	w.mu.Lock()
	defer w.mu.Unlock()
	mb, a := w.members[m]
	if a && w.kind == "http" && mb.g == g {
		a = false // a second Register of a live name in ITS group must be answered by the group itself (ErrProxyRepeated)
	}
	_, b := w.pending[m]
	_, c := w.pendGrp[g]
	return a || b || c
}

func groupParams(tok []string) (m, g, key string, p [4]string, grab bool, manual bool) {
	m, g, key = unhx(tok[1]), unhx(tok[2]), unhx(tok[3])
	for i := 0; i < 4; i++ {
		if strings.HasPrefix(tok[4+i], "x") {
			p[i] = unhx(tok[4+i])
		} else {
			p[i] = tok[4+i]
		}
	}
	grab = tok[8] == "1"
	manual = tok[8] == "2"
	return
}

func (w *groupWorld) armGrab(m string, p [4]string, grab bool) {
	if grab && w.kind == "tcp" && !strings.HasPrefix(p[1], "@") && atoi(p[1]) != 0 {
		w.mu.Lock()
		w.grab[m] = w.base + atoi(p[1])
		w.mu.Unlock()
	}
}

func groupReadTag(c net.Conn, br *bufio.Reader) string {
	c.SetReadDeadline(time.Now().Add(250 * time.Millisecond))
	line, err := br.ReadString('\n')
	if err != nil {
		if ne, ok := err.(net.Error); ok && ne.Timeout() {
			return "stuck"
		}
		return "closed"
	}
	line = strings.TrimSpace(line)
	if strings.HasPrefix(line, "HTTP/1.1 407") {
		// Muxer.handle sends the 200 of its success hook BEFORE checking the credentials, then the 407
		return "unauth"
	}
	if line == "SQUAT" {
		return "squat"
	}
	return "to:" + hx(line)
}

func (w *groupWorld) conn(a, b, c string) string {
	if w.kind == "tcp" && strings.HasPrefix(a, "@") {
		p, ok := w.tcpPort(a)
		if !ok {
			return "noref"
		}
		a = strconv.Itoa(p - w.base)
	}
	if w.kind != "http" {
		w.mu.Lock()
		busy := w.kind == "mux" && w.unresolved() > 0
		key := ""
		if w.kind == "tcp" {
			key = "p" + strconv.Itoa(w.base+atoi(a))
		} else {
			key = w.muxKey(a, b)
		}
		ms := w.membersAt(key)
		held := len(ms) > 0
		for _, mb := range ms {
			if !mb.manual {
				held = false
			}
		}
		w.mu.Unlock()
		if busy {
			return "busy"
		}
		if held {
			return "held"
		}
	}
	switch w.kind {
	case "tcp":
		cn, err := net.DialTimeout("tcp", "127.0.0.1:"+strconv.Itoa(w.base+atoi(a)), time.Second)
		if err != nil {
			return "refused"
		}
		defer cn.Close()
		return groupReadTag(cn, bufio.NewReader(cn))
	case "http":
		cn, err := w.rp.CreateConnection(&vhost.RequestRouteInfo{Host: strings.ToLower(a), URL: b, HTTPUser: c, RemoteAddr: "1.2.3.4:5"}, false)
		if err != nil {
			if strings.Contains(err.Error(), "no CreateConnFunc") {
				return "nomember"
			}
			return "noroute"
		}
		t := cn.(*groupTagConn).tag
		cn.Close()
		if t == "SQUAT" {
			return "squat"
		}
		return "to:" + hx(t)
	default:
		cn, err := net.DialTimeout("tcp", w.muxLn.Addr().String(), time.Second)
		if err != nil {
			return "refused"
		}
		defer cn.Close()
		host := strings.ToLower(a)
		req := "CONNECT " + host + ":80 HTTP/1.1\r\nHost: " + host + ":80\r\n"
		if b != "" || c != "" {
			req += "Proxy-Authorization: Basic " + base64.StdEncoding.EncodeToString([]byte(b+":"+c)) + "\r\n"
		}
		cn.Write([]byte(req + "\r\n"))
		br := bufio.NewReader(cn)
		cn.SetReadDeadline(time.Now().Add(time.Second))
		resp, err := http.ReadResponse(br, nil)
		if err != nil {
			return "closed"
		}
		switch resp.StatusCode {
		case 200:
			return groupReadTag(cn, br)
		case 407:
			return "unauth"
		default:
			return "noroute"
		}
	}
}

// ---- kept connections (dial) and the harness's own view of who could take them.  All under w.mu.

func (w *groupWorld) membersAt(key string) []*groupMember {
	var r []*groupMember
	for _, mb := range w.members {
		if mb.key == key {
			r = append(r, mb)
		}
	}
	return r
}

func (w *groupWorld) unresolved() int {
	n := 0
	for _, d := range w.dials {
		if d.res == "" {
			n++
		}
	}
	return n
}

// getListener without wildcards: the route of (domain, user) if somebody holds it, else (domain, "")
func (w *groupWorld) muxKey(domain, user string) string {
	k := strings.ToLower(domain) + "|" + user
	if user == "" || len(w.membersAt(k)) > 0 {
		return k
	}
	for sk := range w.squats {
		f := strings.Split(sk, "|")
		if len(f) == 4 && f[0] == "mux" && strings.ToLower(f[1])+"|"+f[2] == k {
			return k
		}
	}
	return strings.ToLower(domain) + "|"
}

func (w *groupWorld) watch(d *groupDial, br *bufio.Reader) {
	go func() {
		line, err := br.ReadString('\n')
		res := "closed"
		if err == nil {
			line = strings.TrimSpace(line)
			switch {
			case line == "SQUAT":
				res = "squat"
			case strings.HasPrefix(line, "HTTP/1.1 407"):
				res = "unauth"
			default:
				res = "to:" + hx(line)
			}
		}
		w.mu.Lock()
		d.res = res
		w.mu.Unlock()
		close(d.done)
	}()
}

func (w *groupWorld) dial(id int, a, b, c string) string {
	w.mu.Lock()
	_, dup := w.dials[id]
	busy := w.kind == "mux" && w.unresolved() > 0
	w.mu.Unlock()
	if dup {
		return "dupid"
	}
	d := &groupDial{id: id, done: make(chan struct{})}
	var br *bufio.Reader
	switch w.kind {
	case "tcp":
		cn, err := net.DialTimeout("tcp", "127.0.0.1:"+strconv.Itoa(w.base+atoi(a)), time.Second)
		if err != nil {
			d.c, d.res, d.reported = groupNoConn{}, "refused", true
			close(d.done)
			w.mu.Lock()
			w.dials[id] = d
			w.mu.Unlock()
			return "refused"
		}
		d.c, d.key = cn, "p"+strconv.Itoa(w.base+atoi(a))
		br = bufio.NewReader(cn)
	case "mux":
		// one kept connection at a time: a second one would wait inside vhost.Muxer.handle, not in the
		// group (the group's worker takes one connection and blocks in its send)
		if busy {
			return "busy"
		}
		cn, err := net.DialTimeout("tcp", w.muxLn.Addr().String(), time.Second)
		st := "refused"
		if err == nil {
			host := strings.ToLower(a)
			req := "CONNECT " + host + ":80 HTTP/1.1\r\nHost: " + host + ":80\r\n"
			if b != "" || c != "" {
				req += "Proxy-Authorization: Basic " + base64.StdEncoding.EncodeToString([]byte(b+":"+c)) + "\r\n"
			}
			cn.Write([]byte(req + "\r\n"))
			br = bufio.NewReader(cn)
			cn.SetReadDeadline(time.Now().Add(time.Second))
			resp, rerr := http.ReadResponse(br, nil)
			cn.SetReadDeadline(time.Time{})
			switch {
			case rerr != nil:
				st = "closed"
			case resp.StatusCode == 200:
				st = ""
			case resp.StatusCode == 407:
				st = "unauth"
			default:
				st = "noroute"
			}
			if st != "" {
				cn.Close()
			}
		}
		if st != "" {
			d.c, d.res, d.reported = groupNoConn{}, st, true
			close(d.done)
			w.mu.Lock()
			w.dials[id] = d
			w.mu.Unlock()
			return st
		}
		d.c = cn
		w.mu.Lock()
		d.key = w.muxKey(a, b)
		w.mu.Unlock()
		// Muxer.handle has answered 200 and is about to hand the connection to the group's worker
		time.Sleep(20 * time.Millisecond)
	default:
		return "badop"
	}
	w.mu.Lock()
	ms := w.membersAt(d.key)
	if len(ms) == 0 {
		d.doomed = true // a squatter answers, or nobody does
	}
	for _, mb := range ms {
		if w.kind == "mux" && mb.user != "" && (mb.user != b || mb.pass != c) {
			d.doomed = true // the 407 follows the 200
		}
	}
	w.dials[id] = d
	w.mu.Unlock()
	w.watch(d, br)
	// squat / unauth are answers to the dial itself
	w.await(d, time.Now().Add(2*time.Second))
	w.mu.Lock()
	defer w.mu.Unlock()
	if d.res == "squat" || d.res == "unauth" {
		d.reported = true
		return d.res
	}
	return "c"
}

type groupNoConn struct{ net.Conn }

func (groupNoConn) Close() error { return nil }

// await waits for d's resolution if the harness's own bookkeeping says it has to come; true = it had
// to come and did not
func (w *groupWorld) await(d *groupDial, deadline time.Time) bool {
	w.mu.Lock()
	must := d.res == "" && d.doomed
	if d.res == "" && !must {
		for _, mb := range w.membersAt(d.key) {
			if !mb.manual {
				must = true
			}
		}
	}
	w.mu.Unlock()
	if must {
		select {
		case <-d.done:
		case <-time.After(time.Until(deadline)):
			return true
		}
	}
	return false
}

// settle: the kept connections resolved by now, "<id>=<res>,…" in id order
func (w *groupWorld) settle() string {
	w.mu.Lock()
	ids := []int{}
	for id, d := range w.dials {
		if !d.reported {
			ids = append(ids, id)
		}
	}
	w.mu.Unlock()
	if len(ids) == 0 {
		return ""
	}
	sort.Ints(ids)
	deadline := time.Now().Add(2 * time.Second)
	late := map[int]bool{}
	for _, id := range ids {
		late[id] = w.await(w.dials[id], deadline)
	}
	parts := []string{}
	w.mu.Lock()
	for _, id := range ids {
		d := w.dials[id]
		if d.res != "" {
			d.reported = true
			d.c.Close()
			parts = append(parts, strconv.Itoa(id)+"="+d.res)
		} else if late[id] {
			// still open 2 s after the moment somebody had to take or close it: said once, then dropped
			d.reported = true
			d.c.Close()
			parts = append(parts, strconv.Itoa(id)+"=stuck")
		}
	}
	w.mu.Unlock()
	return strings.Join(parts, ",")
}

func (w *groupWorld) squat(a, b, c string, on bool) string {
	key := w.kind + "|" + a + "|" + b + "|" + c
	if !on {
		s, ok := w.squats[key]
		if !ok {
			if w.kind == "tcp" {
				// a port grabbed at the acquire gate is filed under "p<port>"
				if s, ok = w.squats["p"+strconv.Itoa(w.base+atoi(a))]; ok {
					s.Close()
					delete(w.squats, "p"+strconv.Itoa(w.base+atoi(a)))
				}
			}
			return "-"
		}
		s.Close()
		delete(w.squats, key)
		return "-"
	}
	switch w.kind {
	case "tcp":
		if _, ok := w.squats["p"+strconv.Itoa(w.base+atoi(a))]; ok {
			return "busy"
		}
		l, err := net.Listen("tcp", "127.0.0.1:"+strconv.Itoa(w.base+atoi(a)))
		if err != nil {
			return "busy"
		}
		groupSquatServe(l)
		w.squats[key] = l
	case "http":
		rc := vhost.RouteConfig{Domain: a, Location: b, RouteByHTTPUser: c,
			CreateConnFn: func(string) (net.Conn, error) { return groupHTTPBackend("SQUAT"), nil }}
		if err := w.rp.Register(rc); err != nil {
			return "busy"
		}
		w.squats[key] = groupCloser(func() { w.rp.UnRegister(rc) })
	default:
		l, err := w.muxer.Listen(context.Background(), &vhost.RouteConfig{Domain: a, RouteByHTTPUser: b})
		if err != nil {
			return "busy"
		}
		groupSquatServe(l)
		w.squats[key] = l
	}
	return "ok"
}

// groupHTTPBackend: the work connection of http member `tag`: one end of a pipe whose other end
// answers one HTTP request naming the member (so the real ServeHTTP path can be driven through it)
func groupHTTPBackend(tag string) net.Conn {
	cl, sv := net.Pipe()
	go func() {
		defer sv.Close()
		req, err := http.ReadRequest(bufio.NewReader(sv))
		if err != nil {
			return
		}
		if req.Body != nil {
			io.Copy(io.Discard, req.Body)
		}
		fmt.Fprintf(sv, "HTTP/1.1 200 OK\r\nX-Member: %s\r\nContent-Length: 0\r\nConnection: close\r\n\r\n", hx(tag))
	}()
	return &groupTagConn{Conn: cl, tag: tag}
}

// connE: an http request through the real HTTPReverseProxy.ServeHTTP — Rewrite calls the group's
// chooseEndpoint, the transport dials with CreateConnection(…, byEndpoint = true) → createConnByEndpoint
func (w *groupWorld) connE(a, b, c string) string {
	req := &http.Request{Method: "GET", URL: &url.URL{Path: b}, Host: strings.ToLower(a), Header: http.Header{},
		Proto: "HTTP/1.1", ProtoMajor: 1, ProtoMinor: 1, RemoteAddr: "1.2.3.4:5"}
	if c != "" {
		req.SetBasicAuth(c, "x")
	}
	ctx, cancel := context.WithTimeout(context.Background(), 3*time.Second)
	defer cancel()
	rec := httptest.NewRecorder()
	w.rp.ServeHTTP(rec, req.WithContext(ctx))
	if rec.Code != 200 {
		return "noroute"
	}
	t := rec.Header().Get("X-Member")
	if t == hx("SQUAT") {
		return "squat"
	}
	return "to:" + t
}

type groupCloser func()

func (f groupCloser) Close() error { f(); return nil }

func (w *groupWorld) view() string {
	switch w.kind {
	case "tcp":
		_, used, _ := w.pm.VerifDump()
		ps := []int{}
		for p := range used {
			ps = append(ps, p-w.base)
		}
		sort.Ints(ps)
		parts := []string{}
		for _, p := range ps {
			parts = append(parts, strconv.Itoa(p))
		}
		return "used=" + strings.Join(parts, ",") + w.viewOpen()
	case "http":
		rs := []string{}
		for _, r := range w.routers.VerifDump() {
			rs = append(rs, hx(r[0])+"/"+hx(r[2])+"/"+hx(r[1]))
		}
		sort.Strings(rs)
		return "routes=" + strings.Join(rs, ",")
	}
	return "-" + w.viewOpen()
}

func (w *groupWorld) viewOpen() string {
	w.mu.Lock()
	defer w.mu.Unlock()
	ids := []int{}
	for id, d := range w.dials {
		if !d.reported {
			ids = append(ids, id)
		}
	}
	if len(ids) == 0 {
		return ""
	}
	sort.Ints(ids)
	parts := []string{}
	for _, id := range ids {
		parts = append(parts, strconv.Itoa(id))
	}
	return " open=" + strings.Join(parts, ",")
}

// groupProbeGates: does the linked frp tree carry the lookup/join gates (hooks/C13.patch)?
func groupProbeGates() bool {
	if groupHasGates >= 0 {
		return groupHasGates == 1
	}
	seen := false
	verifhook.Set(func(point string, keys []string) {
		if point == "httpgroup.register.lookedup" {
			seen = true
		}
	})
	ctl := group.NewHTTPGroupController(vhost.NewRouters())
	_ = ctl.Register("probe", "probe", "k", vhost.RouteConfig{Domain: "probe.example"})
	verifhook.Set(nil)
	groupHasGates = 0
	if seen {
		groupHasGates = 1
	}
	return seen
}

func groupExec(tok []string) string {
	if tok[0] == "reset" {
		gates := groupProbeGates()
		groupReset(tok[1])
		_ = gates
		return "-"
	}
	if tok[0] == "sched" {
		return groupSched(tok[1], tok[2])
	}
	w := groupW
	if w == nil {
		return "noworld"
	}
	// With the one-lock repair (hooks/C13-fix-group-race.patch) a parked join holds the controller lock:
	// joins and leaves of others wait for it.  Report that instead of hanging.
	w.mu.Lock()
	npend := len(w.pending)
	w.mu.Unlock()
	if npend > 0 && (tok[0] == "join" || tok[0] == "leave") {
		ch := make(chan string, 1)
		go func() { ch <- groupExecOp(w, tok) }()
		select {
		case r := <-ch:
			return groupSettled(w, tok, r)
		case <-time.After(500 * time.Millisecond):
			return "blocked"
		}
	}
	return groupSettled(w, tok, groupExecOp(w, tok))
}

func groupSettled(w *groupWorld, tok []string, r string) string {
	if w.kind == "http" {
		return r
	}
	switch tok[0] {
	case "join", "enter", "leave", "resume", "dial":
		if suf := w.settle(); suf != "" {
			return r + "|" + suf
		}
	}
	return r
}

func groupExecOp(w *groupWorld, tok []string) string {
	switch tok[0] {
	case "join":
		m, g, key, p, grab, manual := groupParams(tok)
		if w.busyName(m, g) {
			return "busy"
		}
		w.armGrab(m, p, grab)
		r := w.doJoin(m, g, key, p, manual && w.kind != "http")
		w.mu.Lock()
		delete(w.grab, m) // Acquire failed before the gate: the grab must not fire on a later join
		w.mu.Unlock()
		return r
	case "lookup":
		if !groupProbeGates() {
			return "nogate"
		}
		m, g, key, p, grab, manual := groupParams(tok)
		if w.busyName(m, g) {
			return "busy"
		}
		w.armGrab(m, p, grab)
		pd := &groupPending{m: m, g: g, gate: make(chan struct{}), done: make(chan string, 1)}
		w.mu.Lock()
		w.pending[m] = pd
		w.pendGrp[g] = m
		w.armed[groupGateKey(w.kind, m, g, p[0])] = pd
		w.mu.Unlock()
		pd.th = w.spawn("J"+m, pd, func() string {
			r := w.doJoin(m, g, key, p, manual && w.kind != "http")
			pd.done <- r
			return r
		})
		switch w.waitSettled(pd.th) {
		case "gate":
			return "parked"
		case "done":
			return "notparked:" + pd.th.res
		case "blocked":
			return "waiting"
		}
		return "timeout"
	case "enter":
		m := unhx(tok[1])
		w.mu.Lock()
		pd := w.pending[m]
		delete(w.pending, m)
		for g, mm := range w.pendGrp {
			if mm == m {
				delete(w.pendGrp, g)
			}
		}
		w.mu.Unlock()
		if pd == nil {
			return "nopend"
		}
		w.mu.Lock()
		others := len(w.pending)
		w.mu.Unlock()
		if w.hold != nil || others > 0 {
			// the join may be queued behind a leave that the hold keeps waiting (or behind another parked join):
			// not a wedge of frps
			w.mu.Lock()
			w.pending[m] = pd
			w.pendGrp[pd.g] = m
			w.mu.Unlock()
			return "premature"
		}
		pd.open.Store(true)
		close(pd.gate)
		if pd.th == nil {
			select {
			case r := <-pd.done:
				return r
			case <-time.After(3 * time.Second):
				return "timeout"
			}
		}
		if w.waitSettled(pd.th) == "done" {
			return pd.th.res
		}
		return "wedged"
	case "leave":
		mb := w.bookLeave(unhx(tok[1]))
		if mb == nil {
			return "nomember"
		}
		return w.realLeave(mb)
	case "hold":
		if w.hold != nil {
			return "busy"
		}
		l, why := w.groupLock(unhx(tok[1]))
		if l == nil {
			return why
		}
		if !l.TryLock() {
			return "busy"
		}
		w.hold = l
		return "held"
	case "unhold":
		if w.hold == nil {
			return "noop"
		}
		w.hold.Unlock()
		w.hold = nil
		w.waitSettled(nil)
		return "-"
	case "leaveA":
		m := unhx(tok[1])
		w.mu.Lock()
		_, dup := w.threads["L"+m]
		w.mu.Unlock()
		if dup {
			return "dup"
		}
		mb := w.bookLeave(m)
		if mb == nil {
			return "nomember"
		}
		t := w.spawn("L"+m, nil, func() string { return w.realLeave(mb) })
		switch w.waitSettled(t) {
		case "done":
			w.mu.Lock()
			delete(w.threads, "L"+m)
			w.mu.Unlock()
			return t.res
		case "blocked":
			return "waiting"
		}
		return "unsettled"
	case "leaveW":
		m := unhx(tok[1])
		w.mu.Lock()
		t := w.threads["L"+m]
		w.mu.Unlock()
		if t == nil {
			return "noasync"
		}
		if !t.finished() && w.obstructed() {
			return "premature"
		}
		if w.waitSettled(t) == "done" {
			w.mu.Lock()
			delete(w.threads, "L"+m)
			w.mu.Unlock()
			return t.res
		}
		return "wedged"
	case "resume":
		m := unhx(tok[1])
		w.mu.Lock()
		mb := w.members[m]
		if mb == nil || !mb.manual || w.kind == "http" {
			w.mu.Unlock()
			return "noop"
		}
		mb.manual = false
		mb.done = groupServeMember(mb.name, mb.ln)
		w.mu.Unlock()
		return "-"
	case "dial":
		return w.dial(atoi(tok[1]), groupTok(tok[2]), groupTok(tok[3]), groupTok(tok[4]))
	case "conn":
		return w.conn(groupTok(tok[1]), groupTok(tok[2]), groupTok(tok[3]))
	case "connE":
		if w.kind != "http" {
			return "badop"
		}
		return w.connE(groupTok(tok[1]), groupTok(tok[2]), groupTok(tok[3]))
	case "squat":
		return w.squat(groupTok(tok[1]), groupTok(tok[2]), groupTok(tok[3]), true)
	case "unsquat":
		return w.squat(groupTok(tok[1]), groupTok(tok[2]), groupTok(tok[3]), false)
	case "view":
		return w.view()
	}
	return "badop"
}

func groupTok(t string) string {
	if strings.HasPrefix(t, "x") {
		return unhx(t)
	}
	return t
}

// ---------------------------------------------------------------- sacrificial child

// groupSched re-executes this binary with VERIF_GROUP_CHILD set; the child runs the inner ops on the
// real code WITHOUT any recover, so an unrecovered panic kills the child exactly as it would kill frps.
func groupSched(kind, enc string) string {
	var in bytes.Buffer
	in.WriteString("reset " + kind + "\n")
	for _, op := range strings.Split(enc, ";") {
		in.WriteString(strings.ReplaceAll(op, ",", " ") + "\n")
	}
	cmd := exec.Command(os.Args[0], "group", "child")
	cmd.Env = append(os.Environ(), "VERIF_GROUP_CHILD=1")
	cmd.Stdin = &in
	var out, errb bytes.Buffer
	cmd.Stdout = &out
	cmd.Stderr = &errb
	done := make(chan error, 1)
	if err := cmd.Start(); err != nil {
		return "spawnfail"
	}
	go func() { done <- cmd.Wait() }()
	var err error
	select {
	case err = <-done:
	case <-time.After(20 * time.Second):
		cmd.Process.Kill()
		<-done
		return "hang"
	}
	res := []string{}
	for _, l := range strings.Split(strings.TrimSpace(out.String()), "\n") {
		if l != "" {
			res = append(res, l)
		}
	}
	if len(res) > 0 {
		res = res[1:] // the reset
	}
	if err != nil {
		why := "crash"
		if !strings.Contains(errb.String(), "panic:") && !strings.Contains(errb.String(), "fatal error:") {
			why = "died:" + hx(errb.String()[max(0, len(errb.String())-80):])
		}
		res = append(res, why)
	}
	return strings.Join(res, ";")
}

func groupChildMain() {
	sc := bufio.NewScanner(os.Stdin)
	sc.Buffer(make([]byte, 1<<20), 1<<24)
	for sc.Scan() {
		line := strings.TrimSpace(sc.Text())
		if line == "" {
			continue
		}
		r := groupExec(strings.Fields(line)) // no recover: a panic ends the process
		fmt.Println(r)
		if strings.HasPrefix(r, "wedged") {
			os.Exit(0) // nothing this process does can finish that op any more: the parent starts a fresh child
		}
	}
	os.Exit(0)
}

// ---------------------------------------------------------------- generators

var groupNames = []string{"m1", "m2", "m3", "m4", "m5", "m6", "m7", "m8"}
var groupGroups = []string{"g1", "g1", "g2", "g2", "G1"}
var groupKeys = []string{"k", "k", "k", "k", "k", "K", ""}

func groupGenParams(rng *rand.Rand, kind, g string, variant int) [4]string {
	// variant 0 = the group's usual endpoint, others = near misses
	gi := map[string]int{"g1": 0, "g2": 1, "G1": 2}[g]
	switch kind {
	case "tcp":
		addr, port := "127.0.0.1", []string{"3", "0", "5"}[gi]
		switch variant {
		case 1:
			port = strconv.Itoa(1 + rng.Intn(9))
		case 2:
			addr = "0.0.0.0"
		case 3:
			port = "0"
		}
		return [4]string{hx(addr), port, "x", "x"}
	case "http":
		d, l, u := []string{"a.com", "b.com", "a.com"}[gi], []string{"/a", "", "/b"}[gi], []string{"", "", "u1"}[gi]
		switch variant {
		case 1:
			d = pick(rng, []string{"b.com", "A.com", "a.com"})
		case 2:
			l = pick(rng, []string{"/b", "", "/a"})
		case 3:
			u = pick(rng, []string{"u1", ""})
		}
		return [4]string{hx(d), hx(l), hx(u), "x"}
	default:
		d, u, n, pw := []string{"a.com", "b.com", "a.com"}[gi], []string{"", "", "u1"}[gi], []string{"", "u1", "u1"}[gi], []string{"", "pw", "pw"}[gi]
		switch variant {
		case 1:
			d = pick(rng, []string{"b.com", "A.com", "a.com"})
		case 2:
			u = pick(rng, []string{"u1", ""})
		case 3:
			n, pw = pick(rng, []string{"u1", ""}), pick(rng, []string{"pw", "pw2"})
		}
		return [4]string{hx(d), hx(u), hx(n), hx(pw)}
	}
}

var groupFresh int

func groupGenJoin(rng *rand.Rand, kind, op, m string, held bool) string {
	g := pick(rng, groupGroups)
	key := pick(rng, groupKeys)
	v := 0
	if rng.Intn(4) == 0 {
		v = rng.Intn(4)
	}
	p := groupGenParams(rng, kind, g, v)
	grab := "0"
	if kind == "tcp" && rng.Intn(12) == 0 {
		grab = "1"
	}
	if held && grab == "0" {
		grab = "2"
	}
	if kind == "tcp" && p[1] == "0" {
		// a name that never held a port: ports.Manager's reserved-port path (C09's business) stays out of the way
		groupFresh++
		m = fmt.Sprintf("z%d", groupFresh)
	}
	return fmt.Sprintf("%s %s %s %s %s %s %s %s %s", op, hx(m), hx(g), hx(key), p[0], p[1], p[2], p[3], grab)
}

func groupGenConn(rng *rand.Rand, kind string) string {
	switch kind {
	case "tcp":
		return fmt.Sprintf("conn %d x x", []int{3, 3, 5, 1 + rng.Intn(9)}[rng.Intn(4)])
	case "http":
		return fmt.Sprintf("%s %s %s %s", pick(rng, []string{"conn", "connE"}), hx(pick(rng, []string{"a.com", "a.com", "b.com", "A.com"})),
			hx(pick(rng, []string{"/a", "/a", "/b", ""})), hx(pick(rng, []string{"", "", "u1"})))
	default:
		return fmt.Sprintf("conn %s %s %s", hx(pick(rng, []string{"a.com", "a.com", "b.com"})),
			hx(pick(rng, []string{"", "", "u1"})), hx(pick(rng, []string{"", "pw", "pw2"})))
	}
}

func groupGenSquat(rng *rand.Rand, kind, op string) string {
	switch kind {
	case "tcp":
		return fmt.Sprintf("%s %d x x", op, []int{3, 5, 1 + rng.Intn(8)}[rng.Intn(3)])
	case "http":
		return fmt.Sprintf("%s %s %s %s", op, hx(pick(rng, []string{"a.com", "b.com"})), hx(pick(rng, []string{"/a", "/b"})), hx(""))
	default:
		return fmt.Sprintf("%s %s %s x", op, hx(pick(rng, []string{"a.com", "b.com"})), hx(pick(rng, []string{"", "u1"})))
	}
}

// the witness of §7/9 and neighbours, as inner op lists
func groupWitness(kind string) []string {
	j := func(op, m string) string {
		p := map[string][4]string{"tcp": {hx("127.0.0.1"), "3", "x", "x"}, "http": {hx("a.com"), hx("/a"), hx(""), "x"},
			"mux": {hx("a.com"), hx(""), hx(""), hx("")}}[kind]
		return strings.Join([]string{op, hx(m), hx("g1"), hx("k"), p[0], p[1], p[2], p[3], "0"}, ",")
	}
	c := map[string]string{"tcp": "conn,3,x,x", "http": "conn," + hx("a.com") + "," + hx("/a") + "," + hx(""),
		"mux": "conn," + hx("a.com") + "," + hx("") + "," + hx("")}[kind]
	return []string{
		// lookup(m2,g) · leave(m1) · enter(m2) · leave(m2)   (the leave is started while the join is parked; where the
		// join holds the controller lock it can only finish after `enter`)
		strings.Join([]string{j("join", "m1"), j("lookup", "m2"), "leaveA," + hx("m1"), "enter," + hx("m2"), "leaveW," + hx("m1"), "leave," + hx("m2")}, ";"),
		// same with a user connection to the revived group, and a third member looking for the group
		strings.Join([]string{j("join", "m1"), j("lookup", "m2"), "leaveA," + hx("m1"), "enter," + hx("m2"), "leaveW," + hx("m1"), c, c, j("join", "m3"), "view", "leave," + hx("m2"), c, j("join", "m4"), c}, ";"),
		// harmless orders
		strings.Join([]string{j("join", "m1"), j("lookup", "m2"), "enter," + hx("m2"), "leave," + hx("m1"), c, "leave," + hx("m2"), c, j("join", "m3"), c}, ";"),
	}
}

func groupGen(rng *rand.Rand, n int, emit func(string)) {
	kinds := []string{"tcp", "http", "mux"}
	emitted := 0
	e := func(s string) { emit(s); emitted++ }
	// 1. the witnesses, per kind, in the sacrificial child
	for _, k := range kinds {
		for _, wn := range groupWitness(k) {
			e("sched " + k + " " + wn)
		}
	}
	// 2. random gated schedules in the child (about 4 % of the budget, each ≤ 14 inner ops)
	nSched := n / 25
	for i := 0; i < nSched; i++ {
		k := kinds[i%3]
		ops := []string{}
		pend := ""
		var async []string // leaves started while the join is parked: collected after its `enter`
		enter := func() {
			ops = append(ops, "enter,"+hx(pend))
			pend = ""
			for _, m := range async {
				ops = append(ops, "leaveW,"+hx(m))
			}
			async = nil
		}
		for j := 0; j < 6+rng.Intn(8); j++ {
			m := pick(rng, groupNames[:3])
			switch r := rng.Intn(10); {
			case r < 2 && pend == "":
				ops = append(ops, strings.ReplaceAll(groupGenJoinFixed(rng, k, "join", m), " ", ","))
			case r < 4 && pend == "":
				ops = append(ops, strings.ReplaceAll(groupGenJoinFixed(rng, k, "lookup", m), " ", ","))
				pend = m
			case r < 6 && pend != "":
				enter()
			case r < 8 && pend == "":
				ops = append(ops, "leave,"+hx(m))
			case r < 8:
				dup := false
				for _, a := range async {
					dup = dup || a == m
				}
				if !dup {
					ops = append(ops, "leaveA,"+hx(m))
					async = append(async, m)
				}
			case len(async) > 0:
				// a member whose leave is under way has closed its listener but is still listed: what a connection
				// arriving now does is decided only when the leave ends — not asked here
				ops = append(ops, "view")
			default:
				ops = append(ops, strings.ReplaceAll(groupGenConn(rng, k), " ", ","))
			}
		}
		if pend != "" {
			enter()
		}
		e("sched " + k + " " + strings.Join(ops, ";"))
	}
	// 2b. join × leave overlaps with BOTH sides scheduled in sections (about 3 % of the budget): the join is
	// parked between lookup and group section, the leaves are started while it is parked — or the leaves are
	// paused between table lookup and group edit (hold) and the join is started then; one / some / all members
	// leave, the joiner is right or a near miss; afterwards the group is probed: a correct join, connections,
	// the ports / routes held, everybody leaves, ports / routes again, immediate re-creation
	for i := 0; i < n/30; i++ {
		e(groupGenOverlap(rng, kinds[i%3]))
	}
	// 3. sequential histories on the in-process controllers
	for emitted < n {
		k := kinds[rng.Intn(3)]
		e("reset " + k)
		in := map[string]bool{}
		dialID := 0
		for j := 0; j < 40+rng.Intn(60) && emitted < n; j++ {
			var outs, ins []string
			for _, m := range groupNames {
				if !in[m] {
					outs = append(outs, m)
				}
			}
			for m := range in {
				ins = append(ins, m)
			}
			sort.Strings(ins)
			r := rng.Intn(25)
			if k == "http" && r >= 20 {
				r = 11 + rng.Intn(9)
			}
			switch {
			case r < 6:
				m := pick(rng, groupNames)
				if len(outs) > 0 && rng.Intn(8) != 0 {
					m = pick(rng, outs)
				}
				line := groupGenJoin(rng, k, "join", m, k != "http" && rng.Intn(6) == 0)
				e(line)
				in[unhx(strings.Fields(line)[1])] = true
			case r == 20 || r == 23:
				// a user connection that is kept: whoever is (or is not) accepting at that endpoint
				dialID++
				id := dialID
				if rng.Intn(30) == 0 {
					id = 1 + rng.Intn(dialID)
				}
				e(strings.Replace(groupGenConn(rng, k), "conn", fmt.Sprintf("dial %d", id), 1))
			case r == 21:
				m := pick(rng, groupNames)
				if len(ins) > 0 {
					m = pick(rng, ins)
				}
				e("resume " + hx(m))
			case r == 22 || r == 24:
				groupGenEpisode(rng, k, e, in, &dialID)
			case r < 11:
				m := pick(rng, groupNames)
				if len(ins) > 0 && rng.Intn(8) != 0 {
					m = pick(rng, ins)
				}
				e("leave " + hx(m))
				delete(in, m)
			case r < 17:
				e(groupGenConn(rng, k))
			case r < 18:
				e(groupGenSquat(rng, k, "squat"))
			case r < 19:
				e(groupGenSquat(rng, k, "unsquat"))
			default:
				if k == "tcp" && rng.Intn(2) == 0 {
					groupGenPin(rng, e)
				} else {
					e("view")
				}
			}
		}
	}
}

// a schedule in which one join and one or more leaves of the same group overlap, both sides in sections
func groupGenOverlap(rng *rand.Rand, kind string) string {
	var ops []string
	add := func(s string) { ops = append(ops, strings.ReplaceAll(s, " ", ",")) }
	right := func(op, m string) string {
		p := groupGenParams(rng, kind, "g1", 0)
		return fmt.Sprintf("%s %s %s %s %s %s %s %s 0", op, hx(m), hx("g1"), hx("k"), p[0], p[1], p[2], p[3])
	}
	fresh := 0
	next := func() string { fresh++; return fmt.Sprintf("m%d", fresh) }
	var cur []string
	for i := 0; i < 1+rng.Intn(2); i++ {
		m := next()
		add(right("join", m))
		cur = append(cur, m)
	}
	for round := 0; round < 1+rng.Intn(2); round++ {
		// who leaves: all (the last leave) half of the time, else a random non-empty subset
		rng.Shuffle(len(cur), func(i, j int) { cur[i], cur[j] = cur[j], cur[i] })
		nl := len(cur)
		if rng.Intn(2) == 0 && len(cur) > 0 {
			nl = 1 + rng.Intn(len(cur))
		}
		leavers, stay := cur[:nl], cur[nl:]
		j := next()
		jl := groupGenJoinFixed(rng, kind, "lookup", j)
		if rng.Intn(3) > 0 {
			jl = right("lookup", j)
		}
		if rng.Intn(2) == 0 {
			// the join first: parked between lookup and group section; the leaves arrive meanwhile
			add(jl)
			for _, m := range leavers {
				add("leaveA " + hx(m))
			}
			add("enter " + hx(j))
		} else {
			// the leaves first: paused between table lookup and group edit; the join arrives meanwhile
			add("hold " + hx("g1"))
			for _, m := range leavers {
				add("leaveA " + hx(m))
			}
			add(jl)
			add("unhold")
			add("enter " + hx(j))
		}
		for _, m := range leavers {
			add("leaveW " + hx(m))
		}
		cur = append(append([]string{}, stay...), j)
		// probe: a correct join must be accepted, a connection delivered to a live member
		if rng.Intn(3) > 0 {
			m := next()
			add(right("join", m))
			cur = append(cur, m)
		}
		add(groupGenConn(rng, kind))
		if rng.Intn(2) == 0 {
			add("view")
		}
	}
	// everybody leaves: the endpoint goes; then it is created again at once
	p := groupGenParams(rng, kind, "g1", 0)
	c := map[string]string{"tcp": "conn " + p[1] + " x x", "http": "conn " + p[0] + " " + p[1] + " " + p[2],
		"mux": "conn " + p[0] + " " + p[1] + " " + p[3]}[kind]
	add(c)
	for _, m := range cur {
		add("leave " + hx(m))
	}
	add("view")
	add(c)
	add(right("join", next()))
	add(c)
	if rng.Intn(2) == 0 {
		add("view")
	}
	return "sched " + kind + " " + strings.Join(ops, ";")
}

// tcp, server-chosen port: a group is created with remotePort = 0 (possibly joined by a second member, which
// must get the same port), dissolves, and the REAL port it had is asked for explicitly (`@m`): the port manager's
// used set must not keep it (view), the explicit acquisition must succeed and connections must arrive
func groupGenPin(rng *rand.Rand, e func(string)) {
	groupFresh++
	g := fmt.Sprintf("gp%d", groupFresh)
	var ms []string
	for i := 0; i < 1+rng.Intn(2); i++ {
		groupFresh++
		m := fmt.Sprintf("z%d", groupFresh)
		ms = append(ms, m)
		e(fmt.Sprintf("join %s %s %s %s 0 x x 0", hx(m), hx(g), hx("k"), hx("127.0.0.1")))
	}
	e("conn @" + hx(ms[0]) + " x x")
	if rng.Intn(2) == 0 {
		e("view")
	}
	rng.Shuffle(len(ms), func(i, j int) { ms[i], ms[j] = ms[j], ms[i] })
	for _, m := range ms {
		e("leave " + hx(m))
	}
	e("view")
	e("conn @" + hx(ms[0]) + " x x")
	groupFresh++
	m := fmt.Sprintf("z%d", groupFresh)
	g2 := g
	if rng.Intn(2) == 0 {
		g2 = g + "b" // the same group again, or another group that wants exactly that port
	}
	e(fmt.Sprintf("join %s %s %s %s @%s x x 0", hx(m), hx(g2), hx("k"), hx("127.0.0.1"), hx(ms[0])))
	e("conn @" + hx(ms[0]) + " x x")
	e("leave " + hx(m))
	if rng.Intn(2) == 0 {
		e("view")
	}
}

// an episode of "arrival decoupled from pick-up": members of ONE group join (mostly held), user
// connections arrive and are kept, then the members resume / leave / are joined by others in a random
// order with further arrivals in between; finally the group is used again (re-creation).  Every kept
// connection must end delivered to a live member or closed.
func groupGenEpisode(rng *rand.Rand, kind string, e func(string), in map[string]bool, dialID *int) {
	g := pick(rng, []string{"g1", "G1"})
	if kind == "mux" {
		g = pick(rng, []string{"g1", "g2", "G1"})
	}
	p := groupGenParams(rng, kind, g, 0)
	join := func(m, mode string) {
		key := "k"
		if rng.Intn(10) == 0 {
			key = "K"
		}
		e(fmt.Sprintf("join %s %s %s %s %s %s %s %s", hx(m), hx(g), hx(key), p[0], p[1], p[2], p[3], mode))
		in[m] = true
	}
	dial := func() string {
		*dialID++
		if kind == "tcp" {
			port := p[1]
			if rng.Intn(8) == 0 {
				port = strconv.Itoa(1 + rng.Intn(9))
			}
			return fmt.Sprintf("dial %d %s x x", *dialID, port)
		}
		user := p[2]
		if user == "x" {
			user = p[1]
		}
		return fmt.Sprintf("dial %d %s %s %s", *dialID, p[0], user, p[3])
	}
	var outs []string
	for _, m := range groupNames {
		if !in[m] {
			outs = append(outs, m)
		}
	}
	if len(outs) == 0 {
		outs = append(outs, groupNames...)
	}
	rng.Shuffle(len(outs), func(i, j int) { outs[i], outs[j] = outs[j], outs[i] })
	names := outs[:min(len(outs), 1+rng.Intn(3))]
	for _, m := range names {
		mode := "2"
		if rng.Intn(6) == 0 {
			mode = "0"
		}
		join(m, mode)
	}
	nd := 1 + rng.Intn(4)
	first := 1 + rng.Intn(nd)
	for i := 0; i < first; i++ {
		e(dial())
	}
	acts := []string{}
	for i := first; i < nd; i++ {
		acts = append(acts, dial())
	}
	for _, m := range names {
		switch rng.Intn(6) {
		case 0, 1, 2:
			acts = append(acts, "leave "+hx(m))
		case 3:
			acts = append(acts, "resume "+hx(m))
		case 4:
			acts = append(acts, "resume "+hx(m), "leave "+hx(m))
		}
	}
	if rng.Intn(3) == 0 {
		acts = append(acts, "view")
	}
	late := ""
	if rng.Intn(3) == 0 && len(outs) > len(names) {
		late = outs[len(names)]
		acts = append(acts, "latejoin")
	}
	rng.Shuffle(len(acts), func(i, j int) { acts[i], acts[j] = acts[j], acts[i] })
	left := map[string]bool{}
	for _, a := range acts {
		if a == "latejoin" {
			join(late, pick(rng, []string{"0", "2"}))
			continue
		}
		e(a)
		if strings.HasPrefix(a, "leave ") {
			left[unhx(a[6:])] = true
		}
	}
	if rng.Intn(2) == 0 {
		for _, m := range append(append([]string{}, names...), late) {
			if m != "" && !left[m] {
				e("leave " + hx(m))
				left[m] = true
			}
		}
	}
	for m := range left {
		delete(in, m)
	}
	// the endpoint again, at once
	if rng.Intn(2) == 0 {
		for _, m := range groupNames {
			if !in[m] {
				join(m, "0")
				break
			}
		}
	}
	e(strings.Replace(dial(), "dial "+strconv.Itoa(*dialID), "conn", 1))
}

// joins for schedules: one group, mostly the right key and the same endpoint (so that races matter)
func groupGenJoinFixed(rng *rand.Rand, kind, op, m string) string {
	key := "k"
	if rng.Intn(8) == 0 {
		key = "K"
	}
	v := 0
	if rng.Intn(8) == 0 {
		v = 1 + rng.Intn(3)
	}
	p := groupGenParams(rng, kind, "g1", v)
	if kind == "tcp" && p[1] == "0" {
		p[1] = "3" // server-chosen ports are exercised by the sequential histories (known finding C13-tcp-group-port0-listen)
	}
	return fmt.Sprintf("%s %s %s %s %s %s %s %s 0", op, hx(m), hx("g1"), hx(key), p[0], p[1], p[2], p[3])
}

func init() {
	if os.Getenv("VERIF_GROUP_CHILD") != "" && len(os.Args) >= 3 && os.Args[1] == "group" && os.Args[2] == "child" {
		groupChildMain()
	}
	register(&Engine{Name: "group", Gen: groupGen, Exec: groupExec})
}
