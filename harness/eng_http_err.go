package main

// Engine "http", ERROR-PATH EXCHANGES AGAINST A REQUEST BODY THAT IS STILL IN FLIGHT (C02: "If the backend is
// unreachable … the user gets the not-found page … in bounded time instead of a hang", "bodies of any size and framing").
//
//	ereq <host> <path> <routeUser|-> <method> <framing cl|ch> <total> <sent> <ends 0|1> <expect 0|1>
//	      The user announces a body (cl: Content-Length = total; ch: chunked), writes `sent` bytes of it right after
//	      the header block and then waits for the answer.  ends=1: those bytes complete the body (cl: sent = total;
//	      ch: terminating chunk); ends=0: the rest is withheld — the upload is still going on when the answer has to
//	      come (an open chunked stream never ends).  expect=1: the header block carries Expect: 100-continue and the
//	      body bytes are written only if a 100 Continue arrives.
//	   => be=<id|-> rt=<id|-> ! st=<code|0> b=<page|len.hash|-> ans=<ok|none|cut> c100=<0|1>
//	      ans = ok: a final status line was there within the bound (2 s, a read deadline — the wait is event driven),
//	      none: nothing came within the bound, cut: the connection ended without a status line.
//
// Meant for hosts without a route and routes whose CreateConnFn fails (the generator aims at those; the Lean engine
// decides from its route table and skips an op that reaches a backend).  Every op uses a fresh user connection and
// closes it at the end, so a handler that waits for the body is released.

import (
	"bufio"
	"bytes"
	"fmt"
	"io"
	"math/rand"
	"net"
	"net/http"
	"sort"
	"strings"
	"time"
)

const httpErrBound = 2 * time.Second

func (st *httpEngState) doErr(tok []string) string {
	host, path, method := unhx(tok[1]), unhx(tok[2]), tok[4]
	user := ""
	if tok[3] != "-" {
		user = unhx(tok[3])
	}
	framing, total, sent, ends, expect := tok[5], atoi(tok[6]), atoi(tok[7]), tok[8] == "1", tok[9] == "1"
	spec := &httpEngRespSpec{status: 200, kind: "-", keep: false}
	st.mu.Lock()
	st.spec = spec
	st.mu.Unlock()
	st.drainSeen()
	c, err := net.DialTimeout("tcp", st.addr, 2*time.Second)
	if err != nil {
		return "dialerr"
	}
	defer c.Close()
	var h bytes.Buffer
	fmt.Fprintf(&h, "%s %s HTTP/1.1\r\nHost: %s\r\n", method, path, host)
	if user != "" {
		fmt.Fprintf(&h, "Authorization: %s\r\n", httpEngBasic(user))
	}
	hasBody := framing == "ch" || total > 0
	if framing == "ch" {
		h.WriteString("Transfer-Encoding: chunked\r\n")
	} else if hasBody || method != "GET" {
		fmt.Fprintf(&h, "Content-Length: %d\r\n", total)
	}
	if expect && hasBody {
		h.WriteString("Expect: 100-continue\r\n")
	}
	h.WriteString("\r\n")
	var wire bytes.Buffer
	if hasBody {
		b := bytes.Repeat([]byte{'b'}, sent)
		if framing == "ch" {
			for len(b) > 0 {
				n := 32 * 1024
				if n > len(b) {
					n = len(b)
				}
				fmt.Fprintf(&wire, "%x\r\n", n)
				wire.Write(b[:n])
				wire.WriteString("\r\n")
				b = b[n:]
			}
			if ends {
				wire.WriteString("0\r\n\r\n")
			}
		} else {
			wire.Write(b)
		}
	}
	_ = c.SetWriteDeadline(time.Now().Add(2*httpErrBound + time.Second))
	if _, err := c.Write(h.Bytes()); err != nil {
		return "writeerr"
	}
	sendBody := func() { go func() { _, _ = c.Write(wire.Bytes()) }() } // the proxy may stop reading: not a result
	if !(expect && hasBody) {
		sendBody()
	}
	br := bufio.NewReader(c)
	stc, ans, c100 := 0, "cut", 0
	var rb []byte
	for round := 0; round < 2; round++ {
		_ = c.SetReadDeadline(time.Now().Add(httpErrBound))
		resp, err := http.ReadResponse(br, &http.Request{Method: method})
		if err != nil {
			if he2eIsTimeout(err) {
				ans = "none"
			}
			break
		}
		if resp.StatusCode == 100 && round == 0 {
			c100 = 1
			sendBody()
			continue
		}
		stc, ans = resp.StatusCode, "ok"
		rb, _ = io.ReadAll(resp.Body)
		resp.Body.Close()
		break
	}
	rt := st.currentRoute(host, path, user)
	be := "-"
	if seen := st.takeSeen(0); seen != nil {
		be = fmt.Sprint(seen.be)
	}
	bn := httpEngBodyNote(rb, len(rb) > 0)
	if bytes.Equal(rb, st.page) {
		bn = "page"
	}
	return fmt.Sprintf("be=%s rt=%s ! st=%d b=%s ans=%s c100=%d", be, rt, stc, bn, ans, c100)
}

// ---- generator: error path (no route / dial error) x body shape (none, small, Content-Length of which at least
// 256 KiB are still to come, chunked stream that stays open, complete large body, Expect: 100-continue) ----

type httpGenErrState struct {
	r        *rand.Rand
	downHost string // a route of the generator's own whose CreateConnFn fails ("" = not registered in this world)
	nextID   int
}

func (g *httpGenErrState) reset() { g.downHost = "" }

func (g *httpGenErrState) op(routes map[string]httpGenRoute, gone []httpGenRoute, emit func(string)) {
	r := g.r
	ks := make([]string, 0, len(routes))
	for k := range routes {
		ks = append(ks, k)
	}
	sort.Strings(ks)
	host, path, user := "", pick(r, []string{"/", "/", "/up", "/a/b%20c"}), "-"
	switch x := r.Intn(10); {
	case x < 3:
		if g.downHost == "" {
			g.nextID++
			g.downHost = fmt.Sprintf("down%d.example.net", g.nextID)
			emit(fmt.Sprintf("reg %d %s %s %s %s - - unreach", 5000+g.nextID, hx(g.downHost), hx(""), hx(""), hx("")))
		}
		host = g.downHost
	case x < 6 && len(gone) > 0: // a route that went away
		rt := gone[r.Intn(len(gone))]
		host = concreteHost(r, rt.domain)
		if rt.usr != "" {
			user = hx(rt.usr)
		}
	case x < 7 && len(ks) > 0: // a registered domain under a host the table does not cover
		host = "no-such." + strings.TrimPrefix(concreteHost(r, routes[ks[r.Intn(len(ks))]].domain), "*.") + ".invalid"
	default:
		host = pick(r, []string{"nobody.example.net", "nobody.example.net:8080", "Unrouted.Example.ORG"})
	}
	// a host some registered route covers would reach a backend: take the dial-error route instead
	down := host == g.downHost
	if !down {
		lh := strings.ToLower(host)
		if i := strings.IndexByte(lh, ':'); i >= 0 {
			lh = lh[:i]
		}
		for _, k := range ks {
			d := strings.ToLower(routes[k].domain)
			if routes[k].usr != "" && user == "-" {
				continue // a route for one HTTP user is not taken by a request without credentials
			}
			if routes[k].loc != "" && !strings.HasPrefix(path, routes[k].loc) {
				continue
			}
			if d == "*" || d == lh || (strings.HasPrefix(d, "*.") && strings.HasSuffix(lh, d[1:])) {
				if g.downHost == "" {
					g.nextID++
					g.downHost = fmt.Sprintf("down%d.example.net", g.nextID)
					emit(fmt.Sprintf("reg %d %s %s %s %s - - unreach", 5000+g.nextID, hx(g.downHost), hx(""), hx(""), hx("")))
				}
				host, user, down = g.downHost, "-", true
				break
			}
		}
	}
	const K = 256 * 1024
	method := pick(r, []string{"POST", "POST", "PUT"})
	framing, total, sent, ends, expect := "cl", 0, 0, 1, 0
	switch r.Intn(9) {
	case 0: // no body at all
		if r.Intn(2) == 0 {
			method = "GET"
		}
	case 1: // small, complete
		framing = pick(r, []string{"cl", "ch"})
		total = 1 + r.Intn(3000)
		sent = total
	case 2, 3: // Content-Length of which >= 256 KiB are still to come: nothing / one byte / a part / almost all sent
		total = K + r.Intn(8<<20)
		sent = pick(r, []int{0, 1, r.Intn(64 * 1024), total - K, r.Intn(total - K + 1)})
		ends = 0
	case 4, 5: // a chunked stream that goes on: more than 256 KiB are out, the end is not in sight
		framing = "ch"
		sent = K + 1 + pick(r, []int{0, 1, r.Intn(64 * 1024), r.Intn(300 * 1024)})
		total, ends = sent, 0
	case 6: // large and complete
		framing = pick(r, []string{"cl", "ch"})
		total = K + r.Intn(400*1024)
		sent = total
	default: // Expect: 100-continue: the body waits for the server's word
		expect = 1
		framing = pick(r, []string{"cl", "ch"})
		total = pick(r, []int{1 + r.Intn(3000), K + 1 + r.Intn(4<<20)})
		if down {
			// after a failed dial net/http's close of the body waits for bytes a user that waits for 100 Continue never
			// sends (Frp/Model/HttpErr.lean closeReply): only announced lengths above 256 KiB are answered at once
			framing, total = "cl", K+1+r.Intn(4<<20)
		}
		sent = pick(r, []int{total, total, r.Intn(total + 1)})
		if framing == "ch" {
			total = sent
		}
		if sent < total || (framing == "ch" && r.Intn(2) == 0) {
			ends = 0
		}
	}
	emit(fmt.Sprintf("ereq %s %s %s %s %s %d %d %d %d", hx(host), hx(path), user, method, framing, total, sent, ends, expect))
}
