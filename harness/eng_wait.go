// Engine "wait" (C14): drives the real reconnect back-off and the real heartbeat watchdogs.
//
//	new D FN FD JN JD MAX INIT FRC FRD FJN FJD FRW   wait.NewFastBackoffManager(opts)            => ok
//	bo P E                                           mgr.Backoff(P | last delay if "-", E==1)    => TB TA D   (ns since `new`)
//	sleep MS                                         real sleep (to cross FastRetryWindow)       => -
//	until <12 opts> SCRIPT                           wait.BackoffUntil(f, recording(mgr), true, stop); f follows SCRIPT
//	                                                 (e=error s=success d=done x=close stop)     => recs P:E:D:GAP,...
//	wdstart ID T SCOPE SCRIPT                        real frps (server.NewService, heartbeatTimeout=T s, tcpMux off,
//	                                                 auth scope HeartBeats iff SCOPE=1) + scripted raw client:
//	                                                 login, then pings v<ms>/i<ms> (valid / wrong key), then silence
//	wdwait ID                                        => closed C sent=v:t,i:t,.. pok=N perr=M | open H sent=…
//	cwstart ID I T SCRIPT                            real frpc (client.NewService, heartbeatInterval=I, heartbeatTimeout=T,
//	                                                 tcpMux off) against a scripted raw server; SCRIPT items:
//	                                                 p<k> answer k pings then fall silent | b<k> answer k pings, then a Pong
//	                                                 with error | r refuse the login | then the next connection
//	cwwait ID                                        => per connection: kind:dt,... (ms)
//
// All durations are integer ns (ms for the watchdog scenarios); nothing here is compared literally:
// the Lean side checks that every observed delay / closure time lies in the model's interval.
package main

import (
	"context"
	"fmt"
	"io"
	"math/rand"
	"net"
	"strconv"
	"strings"
	"sync"
	"time"

	golog "github.com/fatedier/golib/log"

	"github.com/fatedier/frp/client"
	v1 "github.com/fatedier/frp/pkg/config/v1"
	frplog "github.com/fatedier/frp/pkg/util/log"
	"github.com/fatedier/frp/pkg/msg"
	netpkg "github.com/fatedier/frp/pkg/util/net"
	"github.com/fatedier/frp/pkg/util/util"
	"github.com/fatedier/frp/pkg/util/version"
	"github.com/fatedier/frp/pkg/util/wait"
	"github.com/fatedier/frp/server"
)

const waitToken = "verif-c14-token"

type waitEngine struct {
	mgr   wait.BackoffManager
	t0    time.Time
	last  time.Duration
	mu    sync.Mutex
	jobs  map[string]chan string
	srvs  map[string]int // "T/scope" -> port of a running frps
}

var weng = &waitEngine{jobs: map[string]chan string{}, srvs: map[string]int{}}

func parseOpts(tok []string) wait.FastBackoffOptions {
	v := make([]int64, 12)
	for i := range v {
		n, err := strconv.ParseInt(tok[i], 10, 64)
		if err != nil {
			panic(err)
		}
		v[i] = n
	}
	ratio := func(n, d int64) float64 {
		if n == 0 {
			return 0
		}
		return float64(n) / float64(d)
	}
	return wait.FastBackoffOptions{
		Duration:           time.Duration(v[0]),
		Factor:             ratio(v[1], v[2]),
		Jitter:             ratio(v[3], v[4]),
		MaxDuration:        time.Duration(v[5]),
		InitDurationIfFail: time.Duration(v[6]),
		FastRetryCount:     int(v[7]),
		FastRetryDelay:     time.Duration(v[8]),
		FastRetryJitter:    ratio(v[9], v[10]),
		FastRetryWindow:    time.Duration(v[11]),
	}
}

// ---- BackoffUntil with a recording manager

type recCall struct {
	prev time.Duration
	err  bool
	d    time.Duration
	ret  time.Time
}

type recMgr struct {
	inner wait.BackoffManager
	calls []recCall
}

func (r *recMgr) Backoff(prev time.Duration, err bool) time.Duration {
	d := r.inner.Backoff(prev, err)
	r.calls = append(r.calls, recCall{prev, err, d, time.Now()})
	return d
}

func runUntil(opts wait.FastBackoffOptions, script string) string {
	rm := &recMgr{inner: wait.NewFastBackoffManager(opts)}
	stop := make(chan struct{})
	var fStarts []time.Time
	i := 0
	f := func() (bool, error) {
		fStarts = append(fStarts, time.Now())
		if i >= len(script) {
			return true, nil
		}
		c := script[i]
		i++
		switch c {
		case 'e':
			return false, fmt.Errorf("scripted")
		case 's':
			return false, nil
		case 'x':
			close(stop)
			return false, nil
		default: // 'd'
			return true, nil
		}
	}
	done := make(chan struct{})
	var end time.Time
	go func() {
		wait.BackoffUntil(f, rm, true, stop)
		end = time.Now()
		close(done)
	}()
	select {
	case <-done:
	case <-time.After(20 * time.Second):
		return "hang"
	}
	// record k (k>=1) is followed by f-start k (0-based f index k); record 0 (ticker) by f-start 0
	var sb strings.Builder
	for k, c := range rm.calls {
		gap := "-"
		if k < len(fStarts) {
			gap = strconv.FormatInt(int64(fStarts[k].Sub(c.ret)), 10)
		} else if k == len(rm.calls)-1 {
			// no further f call: time until the loop returned (stop channel)
			gap = "x" + strconv.FormatInt(int64(end.Sub(c.ret)), 10)
		}
		if k > 0 {
			sb.WriteByte(',')
		}
		e := 0
		if c.err {
			e = 1
		}
		fmt.Fprintf(&sb, "%d:%d:%d:%s", int64(c.prev), e, int64(c.d), gap)
	}
	return fmt.Sprintf("f=%d %s", len(fStarts), sb.String())
}

// ---- server-side watchdog: real frps + scripted raw client

func freePort() int {
	l, err := net.Listen("tcp", "127.0.0.1:0")
	if err != nil {
		panic(err)
	}
	p := l.Addr().(*net.TCPAddr).Port
	l.Close()
	return p
}

func (w *waitEngine) serverFor(T int, scope bool) int {
	w.mu.Lock()
	defer w.mu.Unlock()
	key := fmt.Sprintf("%d/%v", T, scope)
	if p, ok := w.srvs[key]; ok {
		return p
	}
	var lastErr error
	for try := 0; try < 5; try++ {
		cfg := &v1.ServerConfig{}
		cfg.BindAddr = "127.0.0.1"
		cfg.BindPort = freePort()
		cfg.Auth.Token = waitToken
		if scope {
			cfg.Auth.AdditionalScopes = []v1.AuthScope{v1.AuthScopeHeartBeats}
		}
		f := false
		cfg.Transport.TCPMux = &f
		cfg.Transport.HeartbeatTimeout = int64(T)
		cfg.Complete()
		svr, err := server.NewService(cfg)
		if err != nil {
			lastErr = err
			continue
		}
		go svr.Run(context.Background())
		w.srvs[key] = cfg.BindPort
		return cfg.BindPort
	}
	panic(lastErr)
}

type wdItem struct {
	valid bool
	ms    int
}

func parseWdScript(s string) []wdItem {
	var items []wdItem
	if s == "-" || s == "" {
		return items
	}
	for _, p := range strings.Split(s, ",") {
		items = append(items, wdItem{p[0] == 'v', atoi(p[1:])})
	}
	return items
}

func runWd(port, T int, scope bool, items []wdItem) string {
	conn, err := net.DialTimeout("tcp", fmt.Sprintf("127.0.0.1:%d", port), 3*time.Second)
	if err != nil {
		return "infra-dial"
	}
	defer conn.Close()
	now := time.Now().Unix()
	if err := msg.WriteMsg(conn, &msg.Login{
		Version: version.Full(), Timestamp: now, PrivilegeKey: util.GetAuthKey(waitToken, now),
	}); err != nil {
		return "infra-login-write"
	}
	_ = conn.SetReadDeadline(time.Now().Add(5 * time.Second))
	m, err := msg.ReadMsg(conn)
	if err != nil {
		return "infra-login-read"
	}
	if lr, ok := m.(*msg.LoginResp); !ok || lr.Error != "" {
		return "login-refused"
	}
	_ = conn.SetReadDeadline(time.Time{})
	t0 := time.Now()
	rw, err := netpkg.NewCryptoReadWriter(conn, []byte(waitToken))
	if err != nil {
		return "infra-crypto"
	}
	var mu sync.Mutex
	pok, perr := 0, 0
	closedAt := time.Duration(-1)
	closed := make(chan struct{})
	go func() {
		for {
			m, err := msg.ReadMsg(rw)
			if err != nil {
				mu.Lock()
				closedAt = time.Since(t0)
				mu.Unlock()
				close(closed)
				return
			}
			if p, ok := m.(*msg.Pong); ok {
				mu.Lock()
				if p.Error == "" {
					pok++
				} else {
					perr++
				}
				mu.Unlock()
			}
		}
	}()
	var sent []string
	lastValid := time.Duration(0)
	isClosed := func() bool {
		select {
		case <-closed:
			return true
		default:
			return false
		}
	}
loop:
	for _, it := range items {
		select {
		case <-closed:
			break loop
		case <-time.After(time.Duration(it.ms) * time.Millisecond):
		}
		if isClosed() {
			break
		}
		p := &msg.Ping{}
		ts := time.Now().Unix()
		p.Timestamp = ts
		if it.valid {
			p.PrivilegeKey = util.GetAuthKey(waitToken, ts)
		} else {
			p.PrivilegeKey = "bad" + util.GetAuthKey(waitToken, ts)
		}
		at := time.Since(t0)
		if err := msg.WriteMsg(rw, p); err != nil {
			break
		}
		k := "i"
		if it.valid {
			k = "v"
		}
		if it.valid || !scope {
			lastValid = at
		}
		sent = append(sent, fmt.Sprintf("%s:%d", k, at.Microseconds()))
	}
	horizon := lastValid + time.Duration(T)*time.Second + 2500*time.Millisecond
	select {
	case <-closed:
	case <-time.After(horizon - time.Since(t0)):
	}
	// let the last pongs arrive
	mu.Lock()
	defer mu.Unlock()
	ss := strings.Join(sent, ",")
	if ss == "" {
		ss = "-"
	}
	if closedAt >= 0 {
		return fmt.Sprintf("closed %d sent=%s pok=%d perr=%d", closedAt.Microseconds(), ss, pok, perr)
	}
	return fmt.Sprintf("open %d sent=%s pok=%d perr=%d", time.Since(t0).Microseconds(), ss, pok, perr)
}

// ---- client-side watchdog and re-login: real frpc + scripted raw server

// one scripted connection: what the fake server does with it
//
//	p<k>: accept the login, answer k pings, then stay silent  -> observe when frpc closes
//	b<k>: accept the login, answer k pings, answer the next with Pong{Error}
//	r   : refuse the login (LoginResp.Error) and close
func runCw(I, T int, script []string) string {
	l, err := net.Listen("tcp", "127.0.0.1:0")
	if err != nil {
		return "infra-listen"
	}
	defer l.Close()
	port := l.Addr().(*net.TCPAddr).Port

	cfg := &v1.ClientCommonConfig{}
	cfg.ServerAddr = "127.0.0.1"
	cfg.ServerPort = port
	cfg.Auth.Token = waitToken
	f := false
	cfg.Transport.TCPMux = &f
	cfg.Transport.HeartbeatInterval = int64(I)
	cfg.Transport.HeartbeatTimeout = int64(T)
	cfg.Transport.TLS.Enable = &f
	cfg.LoginFailExit = &f
	cfg.Complete()
	svc, err := client.NewService(client.ServiceOptions{Common: cfg})
	if err != nil {
		return "infra-newservice"
	}
	ctx, cancel := context.WithCancel(context.Background())
	defer cancel()
	go func() { _ = svc.Run(ctx) }()
	defer svc.Close()

	var out []string
	prevEnd := time.Now() // end of the previous connection (close observed / refusal sent)
	for _, item := range script {
		_ = l.(*net.TCPListener).SetDeadline(time.Now().Add(30 * time.Second))
		conn, err := l.Accept()
		if err != nil {
			out = append(out, "noconnect")
			break
		}
		_ = conn.SetReadDeadline(time.Now().Add(5 * time.Second))
		m, err := msg.ReadMsg(conn)
		if err != nil {
			conn.Close()
			out = append(out, "nologin")
			break
		}
		if _, ok := m.(*msg.Login); !ok {
			conn.Close()
			out = append(out, "notlogin")
			break
		}
		gap := time.Since(prevEnd).Milliseconds()
		_ = conn.SetReadDeadline(time.Time{})
		if item == "r" {
			_ = msg.WriteMsg(conn, &msg.LoginResp{Version: version.Full(), Error: "refused by script"})
			prevEnd = time.Now()
			conn.Close()
			out = append(out, fmt.Sprintf("r:%d", gap))
			continue
		}
		k := atoi(item[1:])
		_ = msg.WriteMsg(conn, &msg.LoginResp{Version: version.Full(), RunID: "verifrun"})
		tLogin := time.Now()
		rw, err := netpkg.NewCryptoReadWriter(conn, []byte(waitToken))
		if err != nil {
			conn.Close()
			out = append(out, "infra-crypto")
			break
		}
		lastPong := tLogin // the client sets lastPong at NewControl, just after the login
		answered, pings := 0, 0
		var pingGaps []string
		lastPingAt := tLogin
		errSentAt := time.Time{}
		for {
			_ = conn.SetReadDeadline(time.Now().Add(time.Duration(T)*time.Second + 4*time.Second))
			m, err := msg.ReadMsg(rw)
			if err != nil {
				break
			}
			if _, ok := m.(*msg.Ping); !ok {
				continue
			}
			pings++
			pingGaps = append(pingGaps, strconv.FormatInt(time.Since(lastPingAt).Milliseconds(), 10))
			lastPingAt = time.Now()
			if answered < k {
				answered++
				lastPong = time.Now()
				_ = msg.WriteMsg(rw, &msg.Pong{})
			} else if item[0] == 'b' && errSentAt.IsZero() {
				errSentAt = time.Now()
				_ = msg.WriteMsg(rw, &msg.Pong{Error: "scripted pong error"})
			}
		}
		end := time.Now()
		conn.Close()
		pg := strings.Join(pingGaps, "/")
		if pg == "" {
			pg = "-"
		}
		if item[0] == 'b' && !errSentAt.IsZero() {
			out = append(out, fmt.Sprintf("b:%d:%d:%s", gap, end.Sub(errSentAt).Milliseconds(), pg))
		} else {
			out = append(out, fmt.Sprintf("p:%d:%d:%s", gap, end.Sub(lastPong).Milliseconds(), pg))
		}
		prevEnd = end
	}
	return strings.Join(out, ",")
}

var quietOnce sync.Once

func (w *waitEngine) exec(tok []string) string {
	// the harness' stdout/stderr carry the trace: frp's own logging must not leak into it
	quietOnce.Do(func() { frplog.Logger = frplog.Logger.WithOptions(golog.WithOutput(io.Discard)) })
	switch tok[0] {
	case "reset":
		w.mgr = nil
		return "-"
	case "new":
		w.mgr = wait.NewFastBackoffManager(parseOpts(tok[1:13]))
		w.t0 = time.Now()
		w.last = 0
		return "ok"
	case "bo":
		if w.mgr == nil {
			return "nomgr"
		}
		prev := w.last
		if tok[1] != "-" {
			n, _ := strconv.ParseInt(tok[1], 10, 64)
			prev = time.Duration(n)
		}
		tb := time.Since(w.t0)
		d := w.mgr.Backoff(prev, tok[2] == "1")
		ta := time.Since(w.t0)
		w.last = d
		if d < 0 || d > 1<<53 {
			// MaxDuration = 0 lets the delay grow without bound: beyond float64 exactness / int64 range
			return "overflow"
		}
		return fmt.Sprintf("%d %d %d", int64(tb), int64(ta), int64(d))
	case "sleep":
		time.Sleep(time.Duration(atoi(tok[1])) * time.Millisecond)
		return "-"
	case "until":
		return runUntil(parseOpts(tok[1:13]), tok[13])
	case "wdstart":
		id, T, scope := tok[1], atoi(tok[2]), tok[3] == "1"
		items := parseWdScript(tok[4])
		port := w.serverFor(T, scope)
		ch := make(chan string, 1)
		w.mu.Lock()
		w.jobs[id] = ch
		w.mu.Unlock()
		go func() {
			defer func() {
				if r := recover(); r != nil {
					ch <- "PANIC:" + hx(fmt.Sprint(r))
				}
			}()
			ch <- runWd(port, T, scope, items)
		}()
		return "started"
	case "cwstart":
		id, I, T := tok[1], atoi(tok[2]), atoi(tok[3])
		script := strings.Split(tok[4], ",")
		ch := make(chan string, 1)
		w.mu.Lock()
		w.jobs[id] = ch
		w.mu.Unlock()
		go func() {
			defer func() {
				if r := recover(); r != nil {
					ch <- "PANIC:" + hx(fmt.Sprint(r))
				}
			}()
			ch <- runCw(I, T, script)
		}()
		return "started"
	case "wdwait", "cwwait":
		w.mu.Lock()
		ch := w.jobs[tok[1]]
		delete(w.jobs, tok[1])
		w.mu.Unlock()
		if ch == nil {
			return "unknown"
		}
		select {
		case r := <-ch:
			return r
		case <-time.After(120 * time.Second):
			return "hang"
		}
	}
	return "badop"
}

// ---- generator

var (
	dyadicFactors = [][2]int64{{2, 1}, {2, 1}, {3, 2}, {1, 1}, {5, 2}, {4, 1}, {0, 1}, {5, 4}}
	jitters       = [][2]int64{{1, 10}, {1, 2}, {1, 4}, {0, 1}, {1, 8}, {1, 1}}
)

func genOpts(rng *rand.Rand, unit int64, malformed bool) []int64 {
	// unit: ns per "tick" (1e6 for the until loops, larger for pure Backoff calls)
	dur := (1 + rng.Int63n(4)) * unit
	fac := pick(rng, dyadicFactors)
	jit := pick(rng, jitters)
	max := []int64{0, 5 * unit, 8 * unit, 20 * unit, dur}[rng.Intn(5)]
	init := []int64{0, 0, unit, 3 * unit}[rng.Intn(4)]
	frc := []int64{0, 0, 1, 2, 3, 3, 5}[rng.Intn(7)]
	frd := []int64{unit / 5, unit / 2, unit, 2 * unit}[rng.Intn(4)]
	fj := pick(rng, jitters)
	frw := []int64{5, 10, 20, 60}[rng.Intn(4)] * unit
	if malformed {
		// outside the property's stated domain (WF): factor < 1, zero durations, zero fast delay
		switch rng.Intn(4) {
		case 0:
			fac = [2]int64{1, 2}
		case 1:
			dur = 0
		case 2:
			frd = 0
		case 3:
			fac = [2]int64{3, 4}
			init = 1
		}
	}
	return []int64{dur, fac[0], fac[1], jit[0], jit[1], max, init, frc, frd, fj[0], fj[1], frw}
}

func optsStr(v []int64) string {
	s := make([]string, len(v))
	for i, x := range v {
		s[i] = strconv.FormatInt(x, 10)
	}
	return strings.Join(s, " ")
}

// the three option sets frp itself uses
var realOpts = [][]int64{
	{1e9, 2, 1, 1, 10, 20e9, 0, 3, 200e6, 1, 2, 60e9}, // keepControllerWorking
	{1e9, 2, 1, 1, 10, 20e9, 0, 0, 0, 0, 1, 0},        // loopLoginUntilSuccess(20s)
	{1e9, 2, 1, 1, 10, 10e9, 0, 0, 0, 0, 1, 0},        // loopLoginUntilSuccess(10s)
	{30e9, 2, 1, 1, 10, 30e9, 1e9, 0, 0, 0, 1, 0},     // heartbeat sender, interval 30
}

func genWait(rng *rand.Rand, n int, emit func(string)) {
	emit("reset")
	// background scenarios first (they run while the back-off ops execute)
	nwd := 4 + n/400
	ncw := 1 + n/4000
	var waits []string
	for i := 0; i < nwd; i++ {
		T := 1 + rng.Intn(2)
		scope := rng.Intn(3) != 0
		var items []string
		k := rng.Intn(5)
		for j := 0; j < k; j++ {
			kind := "v"
			if rng.Intn(3) == 0 {
				kind = "i"
			}
			gap := 50 + rng.Intn(T*1000*7/10)
			if kind == "i" {
				gap = 30 + rng.Intn(300)
			}
			if rng.Intn(12) == 0 {
				gap = T*1000 + 1300 + rng.Intn(300) // deliberate silence in the middle of the script
			}
			items = append(items, fmt.Sprintf("%s%d", kind, gap))
		}
		// a tail of invalid pings during the final silence (must not keep the session alive when scope is on)
		if rng.Intn(2) == 0 {
			for j := 0; j < 2+rng.Intn(4); j++ {
				items = append(items, fmt.Sprintf("i%d", 200+rng.Intn(400)))
			}
		}
		sc := strings.Join(items, ",")
		if sc == "" {
			sc = "-"
		}
		id := fmt.Sprintf("w%d", i)
		emit(fmt.Sprintf("wdstart %s %d %d %s", id, T, map[bool]int{false: 0, true: 1}[scope], sc))
		waits = append(waits, "wdwait "+id)
	}
	for i := 0; i < ncw; i++ {
		T := 2 + rng.Intn(2)
		var items []string
		switch rng.Intn(3) {
		case 0:
			items = []string{fmt.Sprintf("p%d", rng.Intn(3)), "r", "p0"}
		case 1:
			items = []string{fmt.Sprintf("b%d", rng.Intn(3)), fmt.Sprintf("p%d", 1+rng.Intn(2))}
		default:
			items = []string{"r", fmt.Sprintf("p%d", rng.Intn(2)), "b0"}
		}
		id := fmt.Sprintf("c%d", i)
		emit(fmt.Sprintf("cwstart %s 1 %d %s", id, T, strings.Join(items, ",")))
		waits = append(waits, "cwwait "+id)
	}
	budget := n - len(waits)*2 - 1
	sleeps := 0
	for budget > 0 {
		r := rng.Intn(100)
		switch {
		case r < 18:
			// BackoffUntil on millisecond-scale options
			v := genOpts(rng, 1e6, false)
			if v[5] == 0 {
				v[5] = 8e6 // keep the loop short
			}
			var sb strings.Builder
			k := 2 + rng.Intn(6)
			for j := 0; j < k; j++ {
				if rng.Intn(4) == 0 {
					sb.WriteByte('s')
				} else {
					sb.WriteByte('e')
				}
			}
			if rng.Intn(3) == 0 {
				sb.WriteByte('x')
			} else {
				sb.WriteByte('d')
			}
			emit(fmt.Sprintf("until %s %s", optsStr(v), sb.String()))
			budget--
		default:
			// a manager and a run of calls
			var v []int64
			switch {
			case r < 30:
				v = append([]int64{}, realOpts[rng.Intn(len(realOpts))]...)
				if v[11] > 0 && rng.Intn(2) == 0 {
					v[11] = 12e6 // shrink the 1-minute window so that it is crossed with real sleeps
				}
			case r < 38:
				v = genOpts(rng, 1e6, true)
			default:
				v = genOpts(rng, 1e6, false)
			}
			emit("new " + optsStr(v))
			budget--
			k := 5 + rng.Intn(40)
			errBias := rng.Intn(100)
			for j := 0; j < k && budget > 0; j++ {
				e := 0
				if rng.Intn(100) < 40+errBias/2 {
					e = 1
				}
				p := "-"
				if rng.Intn(25) == 0 {
					p = strconv.FormatInt([]int64{0, 1, 1000, 1e6, 3e6, 1e9, 1e12}[rng.Intn(7)], 10)
				}
				emit(fmt.Sprintf("bo %s %d", p, e))
				budget--
				if v[7] > 0 && v[11] > 0 && v[11] <= 60e6 && sleeps < 40+n/20 && rng.Intn(6) == 0 {
					// cross (or not) the fast-retry window: stay clear of the boundary
					ms := int(v[11]/1e6) + 3 + rng.Intn(4)
					if rng.Intn(3) == 0 {
						ms = 1 + int(v[11]/1e6)/4
					}
					emit(fmt.Sprintf("sleep %d", ms))
					sleeps++
					budget--
				}
			}
		}
	}
	for _, wline := range waits {
		emit(wline)
	}
}

func init() {
	register(&Engine{Name: "wait", Gen: genWait, Exec: weng.exec})
}
