// Engine "wait" (C14): drives the real reconnect back-off and the real heartbeat watchdogs.
//
//	new D FN FD JN JD MAX INIT FRC FRD FJN FJD FRW   wait.NewFastBackoffManager(opts)            => ok
//	bo P E                                           mgr.Backoff(P | last delay if "-", E==1)    => TB TA D   (ns since `new`)
//	sleep MS                                         real sleep (to cross FastRetryWindow)       => -
//	until <12 opts> SCRIPT                           wait.BackoffUntil(f, recording(mgr), true, stop); f follows SCRIPT
//	                                                 (e=error s=success d=done x=close stop)     => recs P:E:D:GAP,...
//	wdstart ID T SCOPE SCRIPT                        real frps (server.NewService, heartbeatTimeout=T s, tcpMux off,
//	                                                 auth scope HeartBeats iff SCOPE=1, an HTTP server plugin on NewProxy)
//	                                                 + scripted raw client: login, then items
//	                                                   v<ms>/i<ms>  ping with valid / wrong key after ms
//	                                                   j<ms>  ping with a valid key that the Ping plugin rejects
//	                                                   c<ms>  CloseProxy of a name nobody registered
//	                                                   e<ms>  NewProxy of an unsupported type (answered with an error)
//	                                                   h<ms>  NatHoleReport for an unknown session
//	                                                   n<ms>/<ph>/<hold>  NewProxy (tcp, own remote port) after ms; its
//	                                                      registration is held for <hold> ms at phase p (server plugin),
//	                                                      c / r / a (gates reg.checked / reg.ran / reg.added)
//	                                                   x<ms>  cut the connection after ms (last item)
//	                                                   u<ms>/<k>  k user connections to the remote port of the proxy
//	                                                      registered last: the scripted client answers every ReqWorkConn
//	                                                      with a work connection and echoes on it (LIVE traffic: the
//	                                                      connections stay bridged when the peer falls silent / is cut;
//	                                                      the silent peer keeps every socket open)
//	                                                   C<ms>  CloseProxy of the proxy registered last (its users stay connected)
//	                                                 then silence.  An optional 6th token `mux` runs the scenario with tcpMux on
//	                                                 (scripted yamux client, work connections = streams).  After the session ended (and the held registration
//	                                                 returned) + 600 ms a fresh session registers the same names/ports.
//	wdwait ID                                        => closed|cut C sent=v:t,i:t,c:t,.. pok=N perr=M px=j:resp:rereg,.. | open H …
//	                                                 with u items two more fields: lv=K/B/O (user connections opened / bridged =
//	                                                 echo seen / still open when the tables were read) tb=C/N (600 ms after the
//	                                                 close: the session's run id is still in the control manager 0|1 / how many
//	                                                 of its proxy names are still in the proxy manager; Service.VerifSessDump)
//	                                                 (sent: every message written, kind:µs; n = a NewProxy, stamped when its
//	                                                 hold ends)
//	cwstart ID I T SET SCRIPT                        real frpc (client.NewService with proxy set SET, heartbeatInterval=I,
//	                                                 heartbeatTimeout=T, tcpMux off) against a scripted raw server; SCRIPT
//	                                                 items: p<k> answer k pings then fall silent | b<k> answer k pings, then
//	                                                 a Pong with error | r refuse the login | c<ms> answer all pings, cut the
//	                                                 connection after ms; each item may carry reloads
//	                                                 (Service.UpdateAllConfigurer): @<ms>:<set> while connected, ms after the
//	                                                 login; @o<ms>:<set> ms after this connection ended / was refused and
//	                                                 before the next login is answered.  <set> = 0 | a1+b2+… (name+variant).
//	                                                 A p/b/c item may carry a work-connection schedule (ms after the login):
//	                                                 /q<ms> send ReqWorkConn | /s<ms> send StartWorkConn on the oldest idle
//	                                                 work connection (a user connected) | /z<ms> close the oldest idle work
//	                                                 connection | /w<ms> send NewProxyResp for a name the client never
//	                                                 announced | /h<ms> send NatHoleResp for an unknown transaction.
//	                                                 Work connections nobody uses stay idle in the scripted
//	                                                 server's pool until the control connection ends.
//	cwwait ID                                        => per connection: kind:gap:close:pinggaps:regs;regs… (ms; regs = the
//	                                                 proxies registered on this connection 350 ms after the login and
//	                                                 after each reload, ~ = connection ended before); with a work-connection
//	                                                 schedule a 6th field N/END/ev;ev… : N NewWorkConn arrived, the connection
//	                                                 ended END ms after the login, ev = q<t> | s<t>.<w> | z<t>.<w> | w<t> | h<t>
//	                                                 as executed
//
// All durations are integer ns (ms for the watchdog scenarios); nothing here is compared literally:
// the Lean side checks that every observed delay / closure time lies in the model's interval.
package main

import (
	"context"
	"encoding/json"
	"fmt"
	"io"
	"math/rand"
	"net"
	"net/http"
	"os"
	"sort"
	"strconv"
	"strings"
	"sync"
	"time"

	golog "github.com/fatedier/golib/log"

	"github.com/fatedier/frp/client"
	v1 "github.com/fatedier/frp/pkg/config/v1"
	frplog "github.com/fatedier/frp/pkg/util/log"
	"github.com/fatedier/frp/pkg/msg"
	netpkg "github.com/fatedier/frp/pkg/util/net"
	"github.com/fatedier/frp/pkg/util/util"
	"github.com/fatedier/frp/pkg/util/verifhook"
	"github.com/fatedier/frp/pkg/util/version"
	"github.com/fatedier/frp/pkg/util/wait"
	"github.com/fatedier/frp/server"
)

const waitToken = "verif-c14-token"

// pings whose Timestamp is below this are rejected by the scripted Ping plugin (their key is valid)
const wdRejectStampMax = 1000000

type waitEngine struct {
	mgr   wait.BackoffManager
	t0    time.Time
	last  time.Duration
	mu    sync.Mutex
	jobs  map[string]chan string
	srvs  map[string]*wdServer // "T/scope/mux" -> a running frps
}

type wdServer struct {
	port int
	svc  *server.Service
}

var weng = &waitEngine{jobs: map[string]chan string{}, srvs: map[string]*wdServer{}}

func parseOpts(tok []string) wait.FastBackoffOptions {
	v := make([]int64, 12)
	for i := range v {
		n, err := strconv.ParseInt(tok[i], 10, 64)
		if err != nil {
			panic(err)
		}
		v[i] = n
	}
	ratio := func(n, d int64) float64 {
		if n == 0 {
			return 0
		}
		return float64(n) / float64(d)
	}
	return wait.FastBackoffOptions{
		Duration:           time.Duration(v[0]),
		Factor:             ratio(v[1], v[2]),
		Jitter:             ratio(v[3], v[4]),
		MaxDuration:        time.Duration(v[5]),
		InitDurationIfFail: time.Duration(v[6]),
		FastRetryCount:     int(v[7]),
		FastRetryDelay:     time.Duration(v[8]),
		FastRetryJitter:    ratio(v[9], v[10]),
		FastRetryWindow:    time.Duration(v[11]),
	}
}

// ---- BackoffUntil with a recording manager

type recCall struct {
	prev time.Duration
	err  bool
	d    time.Duration
	ret  time.Time
}

type recMgr struct {
	inner wait.BackoffManager
	calls []recCall
}

func (r *recMgr) Backoff(prev time.Duration, err bool) time.Duration {
	d := r.inner.Backoff(prev, err)
	r.calls = append(r.calls, recCall{prev, err, d, time.Now()})
	return d
}

func runUntil(opts wait.FastBackoffOptions, script string) string {
	rm := &recMgr{inner: wait.NewFastBackoffManager(opts)}
	stop := make(chan struct{})
	var fStarts []time.Time
	i := 0
	f := func() (bool, error) {
		fStarts = append(fStarts, time.Now())
		if i >= len(script) {
			return true, nil
		}
		c := script[i]
		i++
		switch c {
		case 'e':
			return false, fmt.Errorf("scripted")
		case 's':
			return false, nil
		case 'x':
			close(stop)
			return false, nil
		default: // 'd'
			return true, nil
		}
	}
	done := make(chan struct{})
	var end time.Time
	go func() {
		wait.BackoffUntil(f, rm, true, stop)
		end = time.Now()
		close(done)
	}()
	select {
	case <-done:
	case <-time.After(20 * time.Second):
		return "hang"
	}
	// record k (k>=1) is followed by f-start k (0-based f index k); record 0 (ticker) by f-start 0
	var sb strings.Builder
	for k, c := range rm.calls {
		gap := "-"
		if k < len(fStarts) {
			gap = strconv.FormatInt(int64(fStarts[k].Sub(c.ret)), 10)
		} else if k == len(rm.calls)-1 {
			// no further f call: time until the loop returned (stop channel)
			gap = "x" + strconv.FormatInt(int64(end.Sub(c.ret)), 10)
		}
		if k > 0 {
			sb.WriteByte(',')
		}
		e := 0
		if c.err {
			e = 1
		}
		fmt.Fprintf(&sb, "%d:%d:%d:%s", int64(c.prev), e, int64(c.d), gap)
	}
	return fmt.Sprintf("f=%d %s", len(fStarts), sb.String())
}

// ---- server-side watchdog: real frps + scripted raw client

func freePort() int {
	l, err := net.Listen("tcp", "127.0.0.1:0")
	if err != nil {
		panic(err)
	}
	p := l.Addr().(*net.TCPAddr).Port
	l.Close()
	return p
}

// ---- holding a registration at a chosen point: server plugin latency, or a gate inside RegisterProxy

type wdHold struct {
	point string // "plug" | "reg.checked" | "reg.ran" | "reg.added"
	dur   time.Duration
}

var (
	wdHoldMu   sync.Mutex
	wdHolds    = map[string]wdHold{} // proxy name -> hold (used once: the re-registration is not held)
	wdPlugOnce sync.Once
	wdPlugAddr string
	wdPortCtr  int
)

func wdTakeHold(name, point string) time.Duration {
	wdHoldMu.Lock()
	defer wdHoldMu.Unlock()
	h, ok := wdHolds[name]
	if !ok || h.point != point {
		return 0
	}
	delete(wdHolds, name)
	return h.dur
}

// one HTTP server plugin (op NewProxy) shared by all frps instances of this process: answers
// "unchanged", after the latency scripted for that proxy name
func wdPlugin() string {
	wdPlugOnce.Do(func() {
		l, err := net.Listen("tcp", "127.0.0.1:0")
		if err != nil {
			panic(err)
		}
		wdPlugAddr = l.Addr().String()
		mux := http.NewServeMux()
		mux.HandleFunc("/h", func(rw http.ResponseWriter, r *http.Request) {
			var req struct {
				Content struct {
					ProxyName string `json:"proxy_name"`
					Timestamp int64  `json:"timestamp"`
				} `json:"content"`
			}
			body, _ := io.ReadAll(r.Body)
			_ = json.Unmarshal(body, &req)
			if r.URL.Query().Get("op") == "Ping" {
				// a ping stamped with a small number is one the scripted client wants rejected
				rw.Header().Set("Content-Type", "application/json")
				if req.Content.Timestamp > 0 && req.Content.Timestamp < wdRejectStampMax {
					_, _ = rw.Write([]byte(`{"reject":true,"reject_reason":"scripted rejection"}`))
				} else {
					_, _ = rw.Write([]byte(`{"reject":false,"unchange":true}`))
				}
				return
			}
			if d := wdTakeHold(req.Content.ProxyName, "plug"); d > 0 {
				time.Sleep(d)
			}
			rw.Header().Set("Content-Type", "application/json")
			_, _ = rw.Write([]byte(`{"reject":false,"unchange":true}`))
		})
		go func() { _ = http.Serve(l, mux) }()
		verifhook.Set(func(point string, keys []string) {
			if len(keys) >= 3 && strings.HasPrefix(point, "reg.") {
				if d := wdTakeHold(keys[2], point); d > 0 {
					time.Sleep(d)
				}
			}
		})
	})
	return wdPlugAddr
}

// a remote port outside the ephemeral range that is free right now
func wdPort() int {
	wdHoldMu.Lock()
	defer wdHoldMu.Unlock()
	for try := 0; try < 200; try++ {
		wdPortCtr++
		p := 11000 + (os.Getpid()*131+wdPortCtr*7)%18000
		l, err := net.Listen("tcp", fmt.Sprintf("127.0.0.1:%d", p))
		if err != nil {
			continue
		}
		l.Close()
		return p
	}
	panic("no free port")
}

func (w *waitEngine) serverFor(T int, scope, mux bool) *wdServer {
	plug := wdPlugin()
	w.mu.Lock()
	defer w.mu.Unlock()
	key := fmt.Sprintf("%d/%v/%v", T, scope, mux)
	if p, ok := w.srvs[key]; ok {
		return p
	}
	var lastErr error
	for try := 0; try < 5; try++ {
		cfg := &v1.ServerConfig{}
		cfg.BindAddr = "127.0.0.1"
		cfg.BindPort = freePort()
		cfg.ProxyBindAddr = "127.0.0.1"
		cfg.Auth.Token = waitToken
		if scope {
			cfg.Auth.AdditionalScopes = []v1.AuthScope{v1.AuthScopeHeartBeats}
		}
		f := mux
		cfg.Transport.TCPMux = &f
		cfg.Transport.HeartbeatTimeout = int64(T)
		cfg.HTTPPlugins = []v1.HTTPPluginOptions{{Name: "verif-c14", Addr: plug, Path: "/h", Ops: []string{"NewProxy", "Ping"}}}
		cfg.Complete()
		svr, err := server.NewService(cfg)
		if err != nil {
			lastErr = err
			continue
		}
		go svr.Run(context.Background())
		w.srvs[key] = &wdServer{cfg.BindPort, svr}
		return w.srvs[key]
	}
	panic(lastErr)
}

type wdItem struct {
	kind  byte // 'v' valid ping, 'i' wrong-key ping, 'j' plugin-rejected ping, 'n' NewProxy, 'c' CloseProxy (unknown name),
	// 'e' NewProxy (unsupported type), 'h' NatHoleReport (unknown session), 'x' cut
	ms    int
	phase byte // n: 'p' plugin, 'c' reg.checked, 'r' reg.ran, 'a' reg.added
	hold  int  // n: ms the registration is held at `phase`; u: number of user connections
}

func parseWdScript(s string) []wdItem {
	var items []wdItem
	if s == "-" || s == "" {
		return items
	}
	for _, p := range strings.Split(s, ",") {
		it := wdItem{kind: p[0]}
		if p[0] == 'n' {
			f := strings.Split(p[1:], "/")
			it.ms, it.phase, it.hold = atoi(f[0]), f[1][0], atoi(f[2])
		} else if p[0] == 'u' {
			f := strings.Split(p[1:], "/")
			it.ms, it.hold = atoi(f[0]), atoi(f[1])
		} else {
			it.ms = atoi(p[1:])
		}
		items = append(items, it)
	}
	return items
}

var wdPoints = map[byte]string{'p': "plug", 'c': "reg.checked", 'r': "reg.ran", 'a': "reg.added"}

type wdPx struct {
	name    string
	port    int
	holdEnd time.Time
}

func runWd(id string, srv *wdServer, T int, scope, mux bool, items []wdItem) string {
	port := srv.port
	sess, e := wdLoginX(port, mux, id)
	if e != "" {
		return e
	}
	defer sess.closeAll()
	rw := sess.rw
	t0 := time.Now()
	var mu sync.Mutex
	pok, perr := 0, 0
	resp := map[string]string{}
	closedAt := time.Duration(-1)
	closed := make(chan struct{})
	go func() {
		for {
			m, err := msg.ReadMsg(rw)
			if err != nil {
				mu.Lock()
				closedAt = time.Since(t0)
				mu.Unlock()
				close(closed)
				return
			}
			mu.Lock()
			switch p := m.(type) {
			case *msg.Pong:
				if p.Error == "" {
					pok++
				} else {
					perr++
				}
			case *msg.NewProxyResp:
				if p.Error == "" {
					resp[p.ProxyName] = "ok"
				} else {
					resp[p.ProxyName] = "err"
				}
			case *msg.ReqWorkConn:
				go sess.answerReqWorkConn()
			}
			mu.Unlock()
		}
	}()
	var sent []string
	var pxs []wdPx
	var users []net.Conn
	live, bridged := false, 0
	defer func() {
		for _, u := range users {
			u.Close()
		}
	}()
	lastValid := time.Duration(0)
	isClosed := func() bool {
		select {
		case <-closed:
			return true
		default:
			return false
		}
	}
	cut := false
loop:
	for _, it := range items {
		select {
		case <-closed:
			break loop
		case <-time.After(time.Duration(it.ms) * time.Millisecond):
		}
		if isClosed() {
			break
		}
		switch it.kind {
		case 'x':
			cut = true
			mu.Lock()
			closedAt = time.Since(t0)
			mu.Unlock()
			sess.fallSilent()
			sess.cut()
			<-closed
			break loop
		case 'u':
			// users of the tunnel: each connection is bridged to a work connection of this peer and stays
			live = true
			if len(pxs) == 0 {
				break
			}
			px := pxs[len(pxs)-1]
			// the registration must have been answered (at most 1 s: event driven)
			for w := 0; w < 100; w++ {
				mu.Lock()
				r := resp[px.name]
				mu.Unlock()
				if r != "" || isClosed() {
					break
				}
				time.Sleep(10 * time.Millisecond)
			}
			for j := 0; j < it.hold; j++ {
				c, ok := wdUserConn(px.port, fmt.Sprintf("%s-%d", id, len(users)))
				if c != nil {
					users = append(users, c)
				}
				if ok {
					bridged++
				}
			}
		case 'n':
			px := wdPx{name: fmt.Sprintf("%sn%d", id, len(pxs)), port: wdPort()}
			if it.hold > 0 {
				wdHoldMu.Lock()
				wdHolds[px.name] = wdHold{wdPoints[it.phase], time.Duration(it.hold) * time.Millisecond}
				wdHoldMu.Unlock()
			}
			px.holdEnd = time.Now().Add(time.Duration(it.hold) * time.Millisecond)
			if err := msg.WriteMsg(rw, &msg.NewProxy{ProxyName: px.name, ProxyType: "tcp", RemotePort: px.port}); err != nil {
				break loop
			}
			pxs = append(pxs, px)
			sent = append(sent, fmt.Sprintf("n:%d", (time.Since(t0) + time.Duration(it.hold)*time.Millisecond).Microseconds()))
		case 'c', 'e', 'h', 'C':
			// other traffic of a peer that is otherwise silent: none of it is a heartbeat
			var m msg.Message
			switch it.kind {
			case 'C':
				if len(pxs) == 0 {
					continue
				}
				m = &msg.CloseProxy{ProxyName: pxs[len(pxs)-1].name}
			case 'c':
				m = &msg.CloseProxy{ProxyName: fmt.Sprintf("%s-nobody-%d", id, len(sent))}
			case 'e':
				m = &msg.NewProxy{ProxyName: fmt.Sprintf("%s-bogus-%d", id, len(sent)), ProxyType: "nosuchtype"}
			default:
				m = &msg.NatHoleReport{Sid: fmt.Sprintf("%s-nosid-%d", id, len(sent)), Success: false}
			}
			at := time.Since(t0)
			if err := msg.WriteMsg(rw, m); err != nil {
				break loop
			}
			sent = append(sent, fmt.Sprintf("%c:%d", it.kind, at.Microseconds()))
		default:
			p := &msg.Ping{}
			ts := time.Now().Unix()
			if it.kind == 'j' {
				ts = int64(1 + len(sent)) // the scripted Ping plugin rejects small stamps; the key below matches the stamp
			}
			p.Timestamp = ts
			if it.kind == 'v' || it.kind == 'j' {
				p.PrivilegeKey = util.GetAuthKey(waitToken, ts)
			} else {
				p.PrivilegeKey = "bad" + util.GetAuthKey(waitToken, ts)
			}
			at := time.Since(t0)
			if err := msg.WriteMsg(rw, p); err != nil {
				break loop
			}
			if it.kind == 'v' || (it.kind == 'i' && !scope) {
				lastValid = at
			}
			sent = append(sent, fmt.Sprintf("%c:%d", it.kind, at.Microseconds()))
		}
	}
	// from here on the peer is silent: it answers nothing and keeps every socket it has
	sess.fallSilent()
	horizon := lastValid + time.Duration(T)*time.Second + 2500*time.Millisecond
	select {
	case <-closed:
	case <-time.After(horizon - time.Since(t0)):
	}
	mu.Lock()
	ss := strings.Join(sent, ",")
	if ss == "" {
		ss = "-"
	}
	cAt, open := closedAt, closedAt < 0
	if open {
		cAt = time.Since(t0)
	}
	np, ne := pok, perr
	first := map[string]string{}
	for k, v := range resp {
		first[k] = v
	}
	mu.Unlock()
	// the session is over (or should be): once every held registration has returned and the server had
	// 600 ms to finish its teardown, a fresh session must be able to register the same names and ports
	px := "-"
	liveRes := ""
	if len(pxs) > 0 && !open {
		settle := time.Now()
		for _, p := range pxs {
			if p.holdEnd.After(settle) {
				settle = p.holdEnd
			}
		}
		time.Sleep(time.Until(settle.Add(600 * time.Millisecond)))
		if live {
			// the server's own tables (the walk of worker() must not have waited for the user connections), and
			// what became of the user connections
			byRun, names := srv.svc.VerifSessDump()
			inCtl, inPx := 0, 0
			if _, ok := byRun[sess.runID]; ok {
				inCtl = 1
			}
			for _, p := range pxs {
				if names[p.name] == id {
					inPx++
				}
			}
			stillOpen := 0
			for _, u := range users {
				if wdStillOpen(u) {
					stillOpen++
				}
			}
			liveRes = fmt.Sprintf(" lv=%d/%d/%d tb=%d/%d", len(users), bridged, stillOpen, inCtl, inPx)
		}
		var out []string
		var conn2 net.Conn
		var rw2 io.ReadWriter
		sess2, e2 := wdLoginX(port, mux, id+"-re")
		if sess2 != nil {
			conn2, rw2 = sess2.conn, sess2.rw
			defer sess2.closeAll()
		}
		for j, p := range pxs {
			r1 := first[p.name]
			if r1 == "" {
				r1 = "none"
			}
			rr := "infra"
			if e2 == "" {
				rr = "held"
				if err := msg.WriteMsg(rw2, &msg.NewProxy{ProxyName: p.name, ProxyType: "tcp", RemotePort: p.port}); err == nil {
					_ = conn2.SetReadDeadline(time.Now().Add(3 * time.Second))
					for {
						m, err := msg.ReadMsg(rw2)
						if err != nil {
							rr = "noresp"
							break
						}
						if r, ok := m.(*msg.NewProxyResp); ok && r.ProxyName == p.name {
							if r.Error == "" {
								rr = "ok"
							}
							break
						}
					}
				}
			}
			out = append(out, fmt.Sprintf("%d:%s:%s", j, r1, rr))
		}
		px = strings.Join(out, ",")
	} else if live {
		liveRes = fmt.Sprintf(" lv=%d/%d/- tb=-/-", len(users), bridged)
	}
	kind := "closed"
	if open {
		kind = "open"
	} else if cut {
		kind = "cut"
	}
	return fmt.Sprintf("%s %d sent=%s pok=%d perr=%d px=%s%s", kind, cAt.Microseconds(), ss, np, ne, px, liveRes)
}

// ---- client-side watchdog and re-login: real frpc + scripted raw server

// one scripted connection: what the fake server does with it
//
//	p<k>: accept the login, answer k pings, then stay silent  -> observe when frpc closes
//	b<k>: accept the login, answer k pings, answer the next with Pong{Error}
//	c<ms>: accept the login, answer every ping, cut the connection after ms
//	r   : refuse the login (LoginResp.Error) and close
//
// reloads: @<ms>:<set> while connected, @o<ms>:<set> after the connection ended (before the next login is answered)
type cwReload struct {
	outage bool
	ms     int
	set    string
}

// work-connection schedule of one scripted connection: q = ReqWorkConn, s = StartWorkConn on / z = close of the
// oldest idle work connection; ms after the login
type cwWork struct {
	kind byte
	ms   int
}

type cwItem struct {
	kind    byte
	arg     int
	reloads []cwReload
	work    []cwWork
}

func parseCwItem(s string) cwItem {
	parts := strings.Split(s, "@")
	head := strings.Split(parts[0], "/")
	it := cwItem{kind: head[0][0]}
	if len(head[0]) > 1 {
		it.arg = atoi(head[0][1:])
	}
	for _, w := range head[1:] {
		it.work = append(it.work, cwWork{w[0], atoi(w[1:])})
	}
	for _, r := range parts[1:] {
		f := strings.SplitN(r, ":", 2)
		rl := cwReload{set: f[1]}
		if f[0][0] == 'o' {
			rl.outage = true
			rl.ms = atoi(f[0][1:])
		} else {
			rl.ms = atoi(f[0])
		}
		it.reloads = append(it.reloads, rl)
	}
	return it
}

// "a1+b2" -> tcp proxies named a, b whose remote port encodes the variant; "0" = none
func cwSet(set string) []v1.ProxyConfigurer {
	out := []v1.ProxyConfigurer{}
	if set == "0" || set == "" {
		return out
	}
	for _, e := range strings.Split(set, "+") {
		c := &v1.TCPProxyConfig{}
		c.Name = e[:1]
		c.Type = "tcp"
		c.LocalIP = "127.0.0.1"
		c.LocalPort = 9
		c.RemotePort = 30000 + int(e[0]-'a')*10 + atoi(e[1:])
		c.Complete("")
		out = append(out, c)
	}
	return out
}

func cwRegs(reg map[string]int) string {
	if len(reg) == 0 {
		return "0"
	}
	var l []string
	for n, v := range reg {
		l = append(l, fmt.Sprintf("%s%d", n, v))
	}
	sort.Strings(l)
	return strings.Join(l, "+")
}

const cwSettle = 350 * time.Millisecond

type cwArrival struct {
	conn net.Conn
	at   time.Time
}

func runCw(I, T int, set0 string, script []string) string {
	l, err := net.Listen("tcp", "127.0.0.1:0")
	if err != nil {
		return "infra-listen"
	}
	defer l.Close()
	port := l.Addr().(*net.TCPAddr).Port

	cfg := &v1.ClientCommonConfig{}
	cfg.ServerAddr = "127.0.0.1"
	cfg.ServerPort = port
	cfg.Auth.Token = waitToken
	f := false
	cfg.Transport.TCPMux = &f
	cfg.Transport.HeartbeatInterval = int64(I)
	cfg.Transport.HeartbeatTimeout = int64(T)
	cfg.Transport.TLS.Enable = &f
	cfg.LoginFailExit = &f
	cfg.Complete()
	svc, err := client.NewService(client.ServiceOptions{Common: cfg, ProxyCfgs: cwSet(set0)})
	if err != nil {
		return "infra-newservice"
	}
	ctx, cancel := context.WithCancel(context.Background())
	defer cancel()
	go func() { _ = svc.Run(ctx) }()
	defer svc.Close()

	// logins are time-stamped when they arrive, whatever the script is doing at that moment
	arrivals := make(chan cwArrival, 16)
	works := make(chan cwArrival, 64) // work connections (first message NewWorkConn), whatever session they belong to
	stop := make(chan struct{})       // the scenario is over: late connections are dropped
	defer close(stop)
	go func() {
		for {
			conn, err := l.Accept()
			if err != nil {
				return
			}
			go func() {
				_ = conn.SetReadDeadline(time.Now().Add(5 * time.Second))
				m, err := msg.ReadMsg(conn)
				if err != nil {
					conn.Close()
					return
				}
				_ = conn.SetReadDeadline(time.Time{})
				switch m.(type) {
				case *msg.Login:
					select {
					case arrivals <- cwArrival{conn, time.Now()}:
					case <-stop:
						conn.Close()
					}
				case *msg.NewWorkConn:
					select {
					case works <- cwArrival{conn, time.Now()}:
					default:
						conn.Close()
					}
				default:
					conn.Close()
				}
			}()
		}
	}()

	var out []string
	prevEnd := time.Now() // end of the previous connection (close observed / refusal sent)
	for _, raw := range script {
		item := parseCwItem(raw)
		var a cwArrival
		loginWait := time.After(30 * time.Second)
	login:
		for {
			select {
			case a = <-arrivals:
				break login
			case w := <-works:
				w.conn.Close() // a work connection of a session that is over
			case <-loginWait:
				break login
			}
		}
		if a.conn == nil {
			out = append(out, "noconnect")
			break
		}
		conn := a.conn
		gap := a.at.Sub(prevEnd).Milliseconds()
		if gap < 0 {
			gap = 0
		}
		if item.kind == 'r' {
			_ = msg.WriteMsg(conn, &msg.LoginResp{Version: version.Full(), Error: "refused by script"})
			prevEnd = time.Now()
			conn.Close()
			out = append(out, fmt.Sprintf("r:%d", gap))
		} else {
			k := item.arg
			_ = msg.WriteMsg(conn, &msg.LoginResp{Version: version.Full(), RunID: "verifrun"})
			tLogin := time.Now()
			rw, err := netpkg.NewCryptoReadWriter(conn, []byte(waitToken))
			if err != nil {
				conn.Close()
				out = append(out, "infra-crypto")
				break
			}
			msgs := make(chan msg.Message, 64)
			go func() {
				defer close(msgs)
				for {
					_ = conn.SetReadDeadline(time.Now().Add(time.Duration(T)*time.Second + 4*time.Second))
					m, err := msg.ReadMsg(rw)
					if err != nil {
						return
					}
					msgs <- m
				}
			}()
			// timeline of this connection: reloads, the check points after the login and after each reload, the cut
			type action struct {
				at   time.Duration
				what byte // 'R' reload, 'S' snapshot, 'X' cut, 'q' ReqWorkConn, 's' StartWorkConn, 'z' close a work connection
				set  string
				idx  int
			}
			acts := []action{{cwSettle, 'S', "", 0}}
			snaps := []string{"~"}
			for _, rl := range item.reloads {
				if !rl.outage {
					d := time.Duration(rl.ms) * time.Millisecond
					acts = append(acts, action{d, 'R', rl.set, 0}, action{d + cwSettle, 'S', "", len(snaps)})
					snaps = append(snaps, "~")
				}
			}
			if item.kind == 'c' {
				acts = append(acts, action{time.Duration(item.arg) * time.Millisecond, 'X', "", 0})
			}
			for _, wk := range item.work {
				acts = append(acts, action{time.Duration(wk.ms) * time.Millisecond, wk.kind, "", 0})
			}
			sort.SliceStable(acts, func(i, j int) bool { return acts[i].at < acts[j].at })
			reg := map[string]int{}
			lastPong := tLogin // the client sets lastPong at NewControl, just after the login
			answered := 0
			var pingGaps []string
			lastPingAt := tLogin
			errSentAt := time.Time{}
			cutAt := time.Time{}
			// the scripted server's pool: work connections in arrival order
			type cwPooled struct {
				conn net.Conn
				idx  int
			}
			var idle []cwPooled
			var taken []net.Conn
			nWork := 0
			var workEvs []string
		conn:
			for {
				var timer <-chan time.Time
				if len(acts) > 0 {
					timer = time.After(time.Until(tLogin.Add(acts[0].at)))
				}
				select {
				case m, ok := <-msgs:
					if !ok {
						break conn
					}
					switch mm := m.(type) {
					case *msg.Ping:
						pingGaps = append(pingGaps, strconv.FormatInt(time.Since(lastPingAt).Milliseconds(), 10))
						lastPingAt = time.Now()
						if item.kind == 'c' || answered < k {
							answered++
							lastPong = time.Now()
							_ = msg.WriteMsg(rw, &msg.Pong{})
						} else if item.kind == 'b' && errSentAt.IsZero() {
							errSentAt = time.Now()
							_ = msg.WriteMsg(rw, &msg.Pong{Error: "scripted pong error"})
						}
					case *msg.NewProxy:
						reg[mm.ProxyName] = mm.RemotePort % 10
						_ = msg.WriteMsg(rw, &msg.NewProxyResp{ProxyName: mm.ProxyName, RemoteAddr: fmt.Sprintf(":%d", mm.RemotePort)})
					case *msg.CloseProxy:
						delete(reg, mm.ProxyName)
					}
				case w := <-works:
					idle = append(idle, cwPooled{w.conn, nWork})
					nWork++
				case <-timer:
					a := acts[0]
					acts = acts[1:]
					switch a.what {
					case 'R':
						_ = svc.UpdateAllConfigurer(cwSet(a.set), nil)
					case 'S':
						snaps[a.idx] = cwRegs(reg)
					case 'q':
						if msg.WriteMsg(rw, &msg.ReqWorkConn{}) == nil {
							workEvs = append(workEvs, fmt.Sprintf("q%d", time.Since(tLogin).Milliseconds()))
						}
					case 'w':
						if msg.WriteMsg(rw, &msg.NewProxyResp{ProxyName: fmt.Sprintf("nobody-%d", len(workEvs)), RemoteAddr: ":1"}) == nil {
							workEvs = append(workEvs, fmt.Sprintf("w%d", time.Since(tLogin).Milliseconds()))
						}
					case 'h':
						if msg.WriteMsg(rw, &msg.NatHoleResp{TransactionID: fmt.Sprintf("nobody-%d", len(workEvs)), Sid: "nosid"}) == nil {
							workEvs = append(workEvs, fmt.Sprintf("h%d", time.Since(tLogin).Milliseconds()))
						}
					case 's', 'z':
						if len(idle) > 0 {
							wc := idle[0]
							idle = idle[1:]
							workEvs = append(workEvs, fmt.Sprintf("%c%d.%d", a.what, time.Since(tLogin).Milliseconds(), wc.idx))
							if a.what == 's' {
								// a user connected: the client hands the connection to the proxy (or closes it)
								_ = msg.WriteMsg(wc.conn, &msg.StartWorkConn{ProxyName: "a"})
								taken = append(taken, wc.conn)
								go func() { _, _ = io.Copy(io.Discard, wc.conn) }()
							} else {
								wc.conn.Close()
							}
						}
					case 'X':
						cutAt = time.Now()
						conn.Close()
						for range msgs {
						}
						break conn
					}
				}
			}
			end := time.Now()
			conn.Close()
			for _, wc := range idle {
				wc.conn.Close()
			}
			for _, wc := range taken {
				wc.Close()
			}
			pg := strings.Join(pingGaps, "/")
			if pg == "" {
				pg = "-"
			}
			sn := strings.Join(snaps, ";")
			switch {
			case item.kind == 'c' && !cutAt.IsZero():
				end = cutAt
				out = append(out, fmt.Sprintf("c:%d:0:%s:%s", gap, pg, sn))
			case item.kind == 'b' && !errSentAt.IsZero():
				out = append(out, fmt.Sprintf("b:%d:%d:%s:%s", gap, end.Sub(errSentAt).Milliseconds(), pg, sn))
			default:
				out = append(out, fmt.Sprintf("p:%d:%d:%s:%s", gap, end.Sub(lastPong).Milliseconds(), pg, sn))
			}
			if len(item.work) > 0 {
				evs := strings.Join(workEvs, ";")
				if evs == "" {
					evs = "-"
				}
				out[len(out)-1] += fmt.Sprintf(":%d/%d/%s", nWork, end.Sub(tLogin).Milliseconds(), evs)
			}
			prevEnd = end
		}
		// reloads during the outage: the next login may already be waiting for its answer
		for _, rl := range item.reloads {
			if rl.outage {
				time.Sleep(time.Duration(rl.ms) * time.Millisecond)
				_ = svc.UpdateAllConfigurer(cwSet(rl.set), nil)
			}
		}
	}
	return strings.Join(out, ",")
}

var quietOnce sync.Once

func quietFrp() { frplog.Logger = frplog.Logger.WithOptions(golog.WithOutput(io.Discard)) }

func (w *waitEngine) exec(tok []string) string {
	// the harness' stdout/stderr carry the trace: frp's own logging must not leak into it
	quietOnce.Do(quietFrp)
	switch tok[0] {
	case "reset":
		w.mgr = nil
		return "-"
	case "new":
		w.mgr = wait.NewFastBackoffManager(parseOpts(tok[1:13]))
		w.t0 = time.Now()
		w.last = 0
		return "ok"
	case "bo":
		if w.mgr == nil {
			return "nomgr"
		}
		prev := w.last
		if tok[1] != "-" {
			n, _ := strconv.ParseInt(tok[1], 10, 64)
			prev = time.Duration(n)
		}
		tb := time.Since(w.t0)
		d := w.mgr.Backoff(prev, tok[2] == "1")
		ta := time.Since(w.t0)
		w.last = d
		if d < 0 || d > 1<<53 {
			// MaxDuration = 0 lets the delay grow without bound: beyond float64 exactness / int64 range
			return "overflow"
		}
		return fmt.Sprintf("%d %d %d", int64(tb), int64(ta), int64(d))
	case "sleep":
		time.Sleep(time.Duration(atoi(tok[1])) * time.Millisecond)
		return "-"
	case "until":
		return runUntil(parseOpts(tok[1:13]), tok[13])
	case "wdstart":
		id, T, scope := tok[1], atoi(tok[2]), tok[3] == "1"
		items := parseWdScript(tok[4])
		mux := len(tok) > 5 && tok[5] == "mux"
		srv := w.serverFor(T, scope, mux)
		ch := make(chan string, 1)
		w.mu.Lock()
		w.jobs[id] = ch
		w.mu.Unlock()
		go func() {
			defer func() {
				if r := recover(); r != nil {
					ch <- "PANIC:" + hx(fmt.Sprint(r))
				}
			}()
			ch <- runWd(id, srv, T, scope, mux, items)
		}()
		return "started"
	case "cwstart":
		id, I, T, set0 := tok[1], atoi(tok[2]), atoi(tok[3]), tok[4]
		script := strings.Split(tok[5], ",")
		ch := make(chan string, 1)
		w.mu.Lock()
		w.jobs[id] = ch
		w.mu.Unlock()
		go func() {
			defer func() {
				if r := recover(); r != nil {
					ch <- "PANIC:" + hx(fmt.Sprint(r))
				}
			}()
			ch <- runCw(I, T, set0, script)
		}()
		return "started"
	case "hbcfg":
		return hbCfgOp(tok)
	case "hbstart":
		if len(tok) < 7 {
			return "badop"
		}
		id, format, wr, k := tok[1], tok[2], hbWritten{tok[3], tok[4], tok[5]}, atoi(tok[6])
		ch := make(chan string, 1)
		w.mu.Lock()
		w.jobs[id] = ch
		w.mu.Unlock()
		go func() {
			defer func() {
				if r := recover(); r != nil {
					ch <- "PANIC:" + hx(fmt.Sprint(r))
				}
			}()
			ch <- runHb(format, wr, k)
		}()
		return "started"
	case "wdwait", "cwwait", "hbwait":
		w.mu.Lock()
		ch := w.jobs[tok[1]]
		delete(w.jobs, tok[1])
		w.mu.Unlock()
		if ch == nil {
			return "unknown"
		}
		select {
		case r := <-ch:
			return r
		case <-time.After(120 * time.Second):
			return "hang"
		}
	}
	return "badop"
}

// ---- generator

var (
	dyadicFactors = [][2]int64{{2, 1}, {2, 1}, {3, 2}, {1, 1}, {5, 2}, {4, 1}, {0, 1}, {5, 4}}
	jitters       = [][2]int64{{1, 10}, {1, 2}, {1, 4}, {0, 1}, {1, 8}, {1, 1}}
)

func genOpts(rng *rand.Rand, unit int64, malformed bool) []int64 {
	// unit: ns per "tick" (1e6 for the until loops, larger for pure Backoff calls)
	dur := (1 + rng.Int63n(4)) * unit
	fac := pick(rng, dyadicFactors)
	jit := pick(rng, jitters)
	max := []int64{0, 5 * unit, 8 * unit, 20 * unit, dur}[rng.Intn(5)]
	init := []int64{0, 0, unit, 3 * unit}[rng.Intn(4)]
	frc := []int64{0, 0, 1, 2, 3, 3, 5}[rng.Intn(7)]
	frd := []int64{unit / 5, unit / 2, unit, 2 * unit}[rng.Intn(4)]
	fj := pick(rng, jitters)
	frw := []int64{5, 10, 20, 60}[rng.Intn(4)] * unit
	if malformed {
		// outside the property's stated domain (WF): factor < 1, zero durations, zero fast delay
		switch rng.Intn(4) {
		case 0:
			fac = [2]int64{1, 2}
		case 1:
			dur = 0
		case 2:
			frd = 0
		case 3:
			fac = [2]int64{3, 4}
			init = 1
		}
	}
	return []int64{dur, fac[0], fac[1], jit[0], jit[1], max, init, frc, frd, fj[0], fj[1], frw}
}

func optsStr(v []int64) string {
	s := make([]string, len(v))
	for i, x := range v {
		s[i] = strconv.FormatInt(x, 10)
	}
	return strings.Join(s, " ")
}

// the three option sets frp itself uses
var realOpts = [][]int64{
	{1e9, 2, 1, 1, 10, 20e9, 0, 3, 200e6, 1, 2, 60e9}, // keepControllerWorking
	{1e9, 2, 1, 1, 10, 20e9, 0, 0, 0, 0, 1, 0},        // loopLoginUntilSuccess(20s)
	{1e9, 2, 1, 1, 10, 10e9, 0, 0, 0, 0, 1, 0},        // loopLoginUntilSuccess(10s)
	{30e9, 2, 1, 1, 10, 30e9, 1e9, 0, 0, 0, 1, 0},     // heartbeat sender, interval 30
}

func genWait(rng *rand.Rand, n int, emit func(string)) {
	emit("reset")
	// background scenarios first (they run while the back-off ops execute)
	nwd := 4 + n/400
	ncw := 2 + n/1500
	var waits []string
	for i := 0; i < nwd; i++ {
		T := 1 + rng.Intn(2)
		scope := rng.Intn(3) != 0
		var items []string
		// registrations: the peer may fall silent / be cut at any moment of a session, in particular while
		// one of its NewProxy is anywhere between "read from the wire" and "in ctl.proxies"
		withReg := i%2 == 0 // every run covers every class below: the classes rotate, the details are random
		k := rng.Intn(5)
		for j := 0; j < k; j++ {
			kind := "v"
			if rng.Intn(3) == 0 {
				kind = []string{"i", "i", "j", "c"}[rng.Intn(4)]
			}
			gap := 50 + rng.Intn(T*1000*7/10)
			if kind != "v" {
				gap = 30 + rng.Intn(300)
			}
			if rng.Intn(12) == 0 {
				gap = T*1000 + 1300 + rng.Intn(300) // deliberate silence in the middle of the script
			}
			items = append(items, fmt.Sprintf("%s%d", kind, gap))
			if withReg && rng.Intn(3) == 0 {
				// a registration that completes at once, somewhere among the pings
				items = append(items, fmt.Sprintf("n%d/%c/0", 20+rng.Intn(150), "pcra"[rng.Intn(4)]))
			}
		}
		held := false
		if withReg && (i/2)%5 != 4 {
			// last thing the peer does: a registration held at one of the four points, then silence or a cut,
			// ending the connection before / while / after the registration is in flight
			held = true
			ph := "pcra"[rng.Intn(4)]
			switch (i / 2) % 5 {
			case 0: // silence; the watchdog fires while the registration is still in flight
				items = append(items, fmt.Sprintf("n%d/%c/%d", 30+rng.Intn(200), ph, T*1000+1200+rng.Intn(700)))
			case 1: // silence; the registration returns before the watchdog fires
				items = append(items, fmt.Sprintf("n%d/%c/%d", 30+rng.Intn(200), ph, 100+rng.Intn(400)))
			case 2: // cut while in flight
				items = append(items, fmt.Sprintf("n%d/%c/%d", 30+rng.Intn(200), ph, 400+rng.Intn(500)),
					fmt.Sprintf("x%d", 60+rng.Intn(250)))
			default: // cut after it returned
				items = append(items, fmt.Sprintf("n%d/%c/%d", 30+rng.Intn(200), ph, 50+rng.Intn(150)),
					fmt.Sprintf("x%d", 350+rng.Intn(250)))
			}
		} else if withReg && rng.Intn(2) == 0 {
			items = append(items, fmt.Sprintf("n%d/p/0", 20+rng.Intn(150)), fmt.Sprintf("x%d", 100+rng.Intn(400)))
			held = true
		}
		// what the peer still sends after its last valid heartbeat must not keep the session alive:
		if !held && i%4 == 1 {
			// a BUSY dead peer: for longer than the detection bound (timeout + checker period + slack) it keeps
			// sending other traffic at a spacing below the timeout -- rejected pings (wrong key / refused by the
			// Ping plugin), CloseProxy of names nobody registered, NewProxy that fail, NewProxy that succeed,
			// NatHoleReport -- and no valid heartbeat.  Only a verified Ping may move the clock.
			if (i/4)%3 == 2 {
				T = 3
			}
			var kinds string
			switch (i / 4) % 4 {
			case 0:
				kinds = "c"
			case 1:
				kinds = "ji"
			case 2:
				kinds = "ehn"
			default:
				kinds = "cjiehn"
			}
			regs := 0
			for total := 0; total < T*1000+1700; {
				gap := 150 + rng.Intn(T*1000*6/10-100)
				total += gap
				k := kinds[rng.Intn(len(kinds))]
				if k == 'i' && !scope {
					k = 'j' // without the HeartBeats scope a wrong key is not looked at: only the plugin rejects
				}
				if k == 'n' && regs >= 2 {
					k = 'e'
				}
				if k == 'n' {
					regs++
					items = append(items, fmt.Sprintf("n%d/p/0", gap))
				} else {
					items = append(items, fmt.Sprintf("%c%d", k, gap))
				}
			}
		} else if !held && rng.Intn(2) == 0 {
			// a short tail of invalid pings during the final silence
			for j := 0; j < 2+rng.Intn(4); j++ {
				items = append(items, fmt.Sprintf("%c%d", "ij"[rng.Intn(2)], 200+rng.Intn(400)))
			}
		}
		sc := strings.Join(items, ",")
		if sc == "" {
			sc = "-"
		}
		id := fmt.Sprintf("w%d", i)
		emit(fmt.Sprintf("wdstart %s %d %d %s", id, T, map[bool]int{false: 0, true: 1}[scope], sc))
		waits = append(waits, "wdwait "+id)
	}
	// proxy sets: subsets of four names in two variants; now and then a name twice (lo.KeyBy: the last wins)
	genSet := func() string {
		var e []string
		for _, nm := range "abcd" {
			if rng.Intn(5) < 2 {
				e = append(e, fmt.Sprintf("%c%d", nm, 1+rng.Intn(2)))
			}
		}
		if len(e) > 0 && rng.Intn(6) == 0 {
			e = append(e, fmt.Sprintf("%c%d", e[0][0], 1+rng.Intn(2)))
		}
		if len(e) == 0 {
			return "0"
		}
		return strings.Join(e, "+")
	}
	for i := 0; i < ncw; i++ {
		T := 2 + rng.Intn(2)
		var items []string
		switch i % 5 {
		case 0:
			items = []string{fmt.Sprintf("p%d", rng.Intn(3)), "r", "p0"}
		case 2:
			items = []string{fmt.Sprintf("b%d", rng.Intn(3)), fmt.Sprintf("p%d", 1+rng.Intn(2))}
		case 4:
			items = []string{"r", fmt.Sprintf("p%d", rng.Intn(2)), "b0"}
		default:
			// connection losses, refused logins and silent servers in any order (at most two refusals: each
			// costs a doubling back-off), ended by a connection that lives long enough to be inspected
			k := 2 + rng.Intn(3)
			refusals := 0
			for j := 0; j < k; j++ {
				switch r := rng.Intn(10); {
				case r < 5:
					items = append(items, fmt.Sprintf("c%d", 500+rng.Intn(1000)))
				case r < 8 && refusals < 2:
					items = append(items, "r")
					refusals++
				case r < 9:
					items = append(items, "p0")
				default:
					items = append(items, fmt.Sprintf("b%d", rng.Intn(2)))
				}
			}
			items = append(items, fmt.Sprintf("c%d", 500+rng.Intn(300)))
		}
		// configuration reloads at any moment: while connected, and during an outage (after a connection ended
		// or a login was refused, before the next login is answered)
		forced := -1
		if i%5 == 1 || i%5 == 3 {
			forced = rng.Intn(len(items) - 1) // at least one reload during an outage
		}
		for j := range items {
			base := items[j]
			if (base[0] == 'c' && atoi(base[1:]) >= 1000 || base[0] == 'p') && rng.Intn(3) == 0 {
				items[j] += fmt.Sprintf("@%d:%s", 400+rng.Intn(150), genSet())
			}
			if j < len(items)-1 && (rng.Intn(2) == 0 || j == forced) {
				items[j] += fmt.Sprintf("@o%d:%s", rng.Intn(400), genSet())
				if rng.Intn(4) == 0 {
					items[j] += fmt.Sprintf("@o%d:%s", rng.Intn(200), genSet())
				}
			}
		}
		id := fmt.Sprintf("c%d", i)
		emit(fmt.Sprintf("cwstart %s 1 %d %s %s", id, T, genSet(), strings.Join(items, ",")))
		waits = append(waits, "cwwait "+id)
	}
	// idle work connections: the scripted server asks for work connections (as frps does on login with
	// transport.poolCount > 0 and after every user connection), uses / closes some of them at any moment and lets
	// the others sit idle in its pool, while it keeps answering pings -- for longer than the detection bound
	// (heartbeatTimeout + checker period + slack), so that a client that stops reading Pongs would be seen closing
	nwk := 3 + n/1700
	for i := 0; i < nwk; i++ {
		T := 2
		if rng.Intn(4) == 0 {
			T = 3
		}
		idle := T*1000 + 1700 + rng.Intn(500)
		var items []string
		burst := func(at, k int) string { // k requests within a few ms of each other
			w := ""
			for j := 0; j < k; j++ {
				w += fmt.Sprintf("/q%d", at+rng.Intn(8))
			}
			return w
		}
		switch i % 5 {
		case 4:
			// a BUSY silent server: it answers k pings and then no more, but for longer than the detection bound it
			// keeps sending other control messages at a spacing below the timeout -- ReqWorkConn (user connections
			// still arrive at its ports), NewProxyResp, NatHoleResp.  Only a Pong without error may move the clock.
			k := rng.Intn(3)
			kinds := []string{"q", "qw", "wh", "qwh"}[(i/5)%4]
			w := ""
			for at := 100 + rng.Intn(200); at < k*1000+T*1000+1900; at += 250 + rng.Intn(T*1000*5/10) {
				w += fmt.Sprintf("/%c%d", kinds[rng.Intn(len(kinds))], at)
			}
			items = []string{fmt.Sprintf("p%d%s", k, w), fmt.Sprintf("c%d", 500+rng.Intn(300))}
		case 0: // the pool is filled on login and nobody connects
			at := 20 + rng.Intn(250)
			items = []string{fmt.Sprintf("c%d%s", at+idle, burst(at, 1+rng.Intn(3)))}
			if rng.Intn(2) == 0 { // ... and again on the session after the cut
				at2 := 20 + rng.Intn(100)
				items = append(items, fmt.Sprintf("c%d%s", at2+600+rng.Intn(300), burst(at2, 1+rng.Intn(2))))
			}
		case 1: // one request, a user connects (or the server drops the connection), the replacement request, then idle
			at := 30 + rng.Intn(300)
			use := at + 200 + rng.Intn(700)
			re := use + 5 + rng.Intn(60)
			items = []string{fmt.Sprintf("c%d/q%d/%c%d/q%d", re+idle, at, "sz"[rng.Intn(2)], use, re)}
		case 2: // requests, uses and closes at random moments of a long session; reloads in between
			total := idle + 300 + rng.Intn(1500)
			w := ""
			for j, k := 0, 1+rng.Intn(4); j < k; j++ {
				w += fmt.Sprintf("/q%d", 10+rng.Intn(total-500))
			}
			for j, k := 0, rng.Intn(4); j < k; j++ {
				w += fmt.Sprintf("/%c%d", "sz"[rng.Intn(2)], 100+rng.Intn(total-500))
			}
			it := fmt.Sprintf("c%d%s", total, w)
			if rng.Intn(2) == 0 {
				it += fmt.Sprintf("@%d:%s", 400+rng.Intn(total-1000), genSet())
			}
			items = []string{it}
		default: // the server falls silent (or answers with an error) while work connections are idle: still detected in time
			at := 20 + rng.Intn(200)
			k := rng.Intn(3)
			if rng.Intn(3) == 0 {
				items = []string{fmt.Sprintf("b%d%s", 1+k, burst(at, 1+rng.Intn(2)))}
			} else {
				items = []string{fmt.Sprintf("p%d%s", k, burst(at, 1+rng.Intn(3)))}
			}
			items = append(items, fmt.Sprintf("c%d/q%d", 500+rng.Intn(300), 20+rng.Intn(80)))
		}
		id := fmt.Sprintf("k%d", i)
		emit(fmt.Sprintf("cwstart %s 1 %d %s %s", id, T, genSet(), strings.Join(items, ",")))
		waits = append(waits, "cwwait "+id)
	}
	// LIVE TRAFFIC at the moment of death: the session has user connections bridged to work connections when its peer
	// falls silent (and keeps every socket open) or the control connection is cut; tcpMux off and on; one or two
	// proxies, users on the one registered last (the other one is idle); the tear-down must release names, ports and
	// table entries within the usual bound without waiting for those connections
	nlv := 4 + n/2500
	for i := 0; i < nlv; i++ {
		T := 1 + rng.Intn(2)
		scope := rng.Intn(2) == 0
		mux := i%4 >= 2
		cut := i%2 == 1
		var items []string
		ping := func() { items = append(items, fmt.Sprintf("v%d", 60+rng.Intn(T*1000*4/10))) }
		for j, k := 0, rng.Intn(3); j < k; j++ {
			ping()
		}
		nreg := 1 + rng.Intn(2)
		for r := 0; r < nreg; r++ {
			items = append(items, fmt.Sprintf("n%d/%c/0", 20+rng.Intn(120), "pcra"[rng.Intn(4)]))
			if r == nreg-1 || rng.Intn(2) == 0 {
				items = append(items, fmt.Sprintf("u%d/%d", 40+rng.Intn(200), 1+rng.Intn(3)))
			}
			if rng.Intn(2) == 0 {
				ping()
			}
		}
		if rng.Intn(3) == 0 {
			// the proxy is closed by its owner while its users are connected; the peer goes on with valid heartbeats:
			// the read loop must not be held up by that (the session lives until the heartbeats stop)
			items = append(items, fmt.Sprintf("C%d", 30+rng.Intn(150)))
			ping()
			ping()
		}
		for j, k := 0, rng.Intn(3); j < k; j++ {
			ping()
		}
		if cut {
			items = append(items, fmt.Sprintf("x%d", 60+rng.Intn(400)))
		}
		id := fmt.Sprintf("l%d", i)
		line := fmt.Sprintf("wdstart %s %d %d %s", id, T, map[bool]int{false: 0, true: 1}[scope], strings.Join(items, ","))
		if mux {
			line += " mux"
		}
		emit(line)
		waits = append(waits, "wdwait "+id)
	}
	// the heartbeat settings AS WRITTEN in a configuration text, through the real loader: real frpc against a server
	// that answers K pings and falls silent.  The classes rotate: timeout = interval | between one and two intervals |
	// two intervals and more | switched off by a negative value | nothing written (tcpMux on / not written: no
	// application heartbeat; tcpMux off: 30 / 90) | written values with tcpMux on | timeout below the interval (refused)
	hbFormats := []string{"toml", "json", "yaml", "ini"}
	hbMuxes := []string{"off", "on", "unset"}
	nhb := 7 + n/2500
	for i := 0; i < nhb; i++ {
		mux, I, T, K := "off", "-", "-", rng.Intn(2)
		pick2 := func(l [][2]int) {
			e := l[rng.Intn(len(l))]
			I, T = strconv.Itoa(e[0]), strconv.Itoa(e[1])
		}
		switch i % 7 {
		case 0:
			pick2([][2]int{{2, 2}, {3, 3}, {1, 1}})
			mux = hbMuxes[rng.Intn(2)]
		case 1:
			pick2([][2]int{{3, 4}, {3, 5}, {2, 3}, {3, 4}})
		case 2:
			pick2([][2]int{{1, 2}, {1, 3}, {2, 4}})
			K = rng.Intn(3)
		case 3:
			e := [][2]int{{2, -1}, {-1, 2}, {-1, -1}, {1, -5}}[rng.Intn(4)]
			I, T = strconv.Itoa(e[0]), strconv.Itoa(e[1])
			mux = hbMuxes[rng.Intn(3)]
		case 4:
			mux = hbMuxes[1+rng.Intn(2)]
			if rng.Intn(3) == 0 { // tcpMux off, only one of the two written
				mux = "off"
				if rng.Intn(2) == 0 {
					I = "2"
				} else {
					T = "2"
				}
			}
		case 5:
			mux = "off"
			if rng.Intn(2) == 0 {
				I, T = "0", "0" // written zeros: the defaults apply
			}
		default:
			if rng.Intn(2) == 0 {
				pick2([][2]int{{2, 2}, {3, 4}, {2, 3}, {1, 2}})
				mux = hbMuxes[1+rng.Intn(2)]
			} else {
				pick2([][2]int{{3, 2}, {2, 1}, {3, 1}})
				mux = hbMuxes[rng.Intn(3)]
			}
		}
		id := fmt.Sprintf("h%d", i)
		emit(fmt.Sprintf("hbstart %s %s %s %s %s %d", id, hbFormats[rng.Intn(4)], mux, I, T, K))
		waits = append(waits, "hbwait "+id)
	}
	budget := n - len(waits)*2 - 1
	sleeps := 0
	// the same lattice without the clock: what the loader + Complete + the validation make of a written interval /
	// timeout (relations: below, equal, between one and two times, two times and above; negative; not written), for
	// frpc and frps, every format, every tcpMux setting
	hbVals := []int{1, 2, 3, 5, 7, 10, 12, 13, 20, 30, 40, 45, 59, 60, 61, 89, 90, 91, 100, 120, 200, 3600}
	for j, k := 0, 40+n/60; j < k && budget > 0; j++ {
		fm, mx := hbFormats[rng.Intn(4)], hbMuxes[rng.Intn(3)]
		wr := func(v int) string {
			switch r := rng.Intn(10); {
			case r == 0:
				return "-"
			case r == 1:
				return strconv.Itoa(-1 - rng.Intn(3))
			case r == 2:
				return "0" // a written zero is "not written": the default applies
			}
			return strconv.Itoa(v)
		}
		if rng.Intn(4) == 0 {
			emit(fmt.Sprintf("hbcfg s %s %s %s", fm, mx, wr(hbVals[rng.Intn(len(hbVals))])))
		} else {
			I := hbVals[rng.Intn(len(hbVals))]
			var T int
			switch rng.Intn(6) {
			case 0:
				T = I - 1 - rng.Intn(I)/2
				if T < 1 {
					T = 1
				}
			case 1:
				T = I
			case 2:
				T = I + 1 + rng.Intn(I)
				if T >= 2*I {
					T = 2*I - 1
				}
			case 3:
				T = 2 * I
			case 4:
				T = 2*I + 1 + rng.Intn(2*I)
			default:
				T = hbVals[rng.Intn(len(hbVals))]
			}
			emit(fmt.Sprintf("hbcfg c %s %s %s %s", fm, mx, wr(I), wr(T)))
		}
		budget--
	}
	for budget > 0 {
		r := rng.Intn(100)
		switch {
		case r < 18:
			// BackoffUntil on millisecond-scale options
			v := genOpts(rng, 1e6, false)
			if v[5] == 0 {
				v[5] = 8e6 // keep the loop short
			}
			var sb strings.Builder
			k := 2 + rng.Intn(6)
			for j := 0; j < k; j++ {
				if rng.Intn(4) == 0 {
					sb.WriteByte('s')
				} else {
					sb.WriteByte('e')
				}
			}
			if rng.Intn(3) == 0 {
				sb.WriteByte('x')
			} else {
				sb.WriteByte('d')
			}
			emit(fmt.Sprintf("until %s %s", optsStr(v), sb.String()))
			budget--
		default:
			// a manager and a run of calls
			var v []int64
			switch {
			case r < 30:
				v = append([]int64{}, realOpts[rng.Intn(len(realOpts))]...)
				if v[11] > 0 && rng.Intn(2) == 0 {
					v[11] = 12e6 // shrink the 1-minute window so that it is crossed with real sleeps
				}
			case r < 38:
				v = genOpts(rng, 1e6, true)
			default:
				v = genOpts(rng, 1e6, false)
			}
			emit("new " + optsStr(v))
			budget--
			k := 5 + rng.Intn(40)
			errBias := rng.Intn(100)
			for j := 0; j < k && budget > 0; j++ {
				e := 0
				if rng.Intn(100) < 40+errBias/2 {
					e = 1
				}
				p := "-"
				if rng.Intn(25) == 0 {
					p = strconv.FormatInt([]int64{0, 1, 1000, 1e6, 3e6, 1e9, 1e12}[rng.Intn(7)], 10)
				}
				emit(fmt.Sprintf("bo %s %d", p, e))
				budget--
				if v[7] > 0 && v[11] > 0 && v[11] <= 60e6 && sleeps < 40+n/20 && rng.Intn(6) == 0 {
					// cross (or not) the fast-retry window: stay clear of the boundary
					ms := int(v[11]/1e6) + 3 + rng.Intn(4)
					if rng.Intn(3) == 0 {
						ms = 1 + int(v[11]/1e6)/4
					}
					emit(fmt.Sprintf("sleep %d", ms))
					sleeps++
					budget--
				}
			}
		}
	}
	for _, wline := range waits {
		emit(wline)
	}
}

func init() {
	register(&Engine{Name: "wait", Gen: genWait, Exec: weng.exec})
}
