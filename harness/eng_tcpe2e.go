package main

// Engine "e2e" (C01): a real frps and a real frpc in this process (loopback), one pair per transport
// configuration (tcpMux, TLS, pool size), each carrying a lattice of tcp / stcp(+visitor) / https /
// tcpmux proxies over all encryption × compression × limiter-side × proxy-protocol combinations.
// Every proxy has ITS OWN tagged backend (reply = tag, then echo), so a cross-wired connection shows.
//
//	xfer cfg=<mux><tls><pool> type=<tcp|stcp|https|tcpmux> enc= comp= lim=<none|srv|cli> pp=<0|1>
//	     n=<bytes> ch=<chunking> pat=<rand|zero|mixed> mode=<echo|oneway> seed=
//	   => up=<0|1>;down=<0|1>;tag=<0|1>;eof=<0|1>;pp=<1|0|na>[;sent=<hex>;got=<hex>]
//	multi cfg= px=<i,i,…> n= seed=          simultaneous connections to distinct proxies of the lattice
//	   => ok=<k>;xw=<cross-wired>;bad=<other failures>
//	bw cfg= side=<srv|cli> n=<bytes>        256 KB/s limit, one-way, receive times sampled at the backend
//	   => total=<bytes>;s=<ms:bytes,…>
//	slow cfg= enc= comp= lim= dir=<down|up> n=<bytes> after=<bytes | fin> pace=<ms> pause=<ms> seed=
//	     a reader that is slow (sleeps `pace` ms after every read of <= 32 KiB) and stops reading for `pause` ms —
//	     once it has `after` bytes, or (fin, down only) at the moment the WRITING side of the tunnel is done: the backend
//	     has written everything and half-closed, frpc has forwarded it all into the tunnel, closed, and hung up on the
//	     backend. down: the backend writes n bytes in one Write, the USER is the reader; up: the user writes and
//	     closes, the BACKEND is the reader. The reader must still get the complete stream and then EOF.
//	   => got=<bytes>;eof=<0|1>;eq=<0|1>
//	cfg = <tcpMux><tls><pool>[<t|q|k|w>]: control transport tcp (default) / quic / kcp / websocket
//	sbw cfg= q=<side>.<up|down>.<limit KB>.<enc><comp>.<bytes>,… seed=
//	     SMALL limits (8KB plain, 12KB encrypted, 64KB encrypted+compressed; burst below / above the 16..32 KiB
//	     pieces Join copies) enforced by frpc or frps, payloads of several bursts; the transfers of one op run
//	     simultaneously on distinct proxies.
//	     up: the user writes, closes once the backend has everything (upc: the moment it has written everything), the
//	     backend must get everything and then EOF; down: the BACKEND writes the
//	     payload in one Write and closes while the user only reads, the user must get everything and then EOF
//	   => r=<bytes received>:<eof 0|1>:<bytes equal 0|1>:<ms.bytes/ms.bytes/…>|…
import (
	"bufio"
	"bytes"
	"context"
	"fmt"
	"math/rand"
	"net"
	"os"
	"sort"
	"strconv"
	"strings"
	"sync"
	"time"

	"github.com/fatedier/frp/client"
	"github.com/fatedier/frp/pkg/config/types"
	v1 "github.com/fatedier/frp/pkg/config/v1"
	"github.com/fatedier/frp/server"
)

func init() {
	register(&Engine{Name: "e2e", Gen: te2eGen, Exec: te2eExec})
}

type te2eProxy struct {
	key     string
	typ     string
	enc     bool
	comp    bool
	lim     string
	pp      bool
	port    int    // where the user connects (tcp remote port / visitor bind port / vhost port)
	domain  string // https / tcpmux
	backend *stkBackend
}

type te2ePair struct {
	svr     *server.Service
	cli     *client.Service
	proxies map[string]*te2eProxy
	keys    []string
}

var te2ePairs = map[string]*te2ePair{}

// the small-limit proxies: bandwidthLimit (KB), encryption, compression
var te2eSmallLimits = []struct {
	kb        int
	enc, comp bool
}{{8, false, false}, {12, true, false}, {64, true, true}}

func te2eSmallKey(side string, kb int, enc, comp bool) string {
	return fmt.Sprintf("sbw/%s/%d/%d%d", side, kb, stkBit(enc), stkBit(comp))
}

func te2eKey(typ string, enc, comp bool, lim string, pp bool) string {
	return fmt.Sprintf("%s/%d/%d/%s/%d", typ, stkBit(enc), stkBit(comp), lim, stkBit(pp))
}

func te2eTransport(t *v1.ProxyTransport, enc, comp bool, lim, quantity string, pp bool) {
	t.UseEncryption, t.UseCompression = enc, comp
	if pp {
		t.ProxyProtocolVersion = "v2"
	}
	if lim != "none" {
		q, err := types.NewBandwidthQuantity(quantity)
		if err != nil {
			panic(err)
		}
		t.BandwidthLimit = q
		t.BandwidthLimitMode = types.BandwidthLimitModeClient
		if lim == "srv" {
			t.BandwidthLimitMode = types.BandwidthLimitModeServer
		}
	}
}

// Ports that are handed to frps / to a visitor AFTER they were picked must not come from the kernel's ephemeral range:
// between the pick and the bind, frps (remotePort = 0 proxies) or any outgoing connection of this process may be given
// the very same port (seen as: a user of an stcp visitor port is answered by some tcp proxy's backend; frps cannot
// listen). Ports below the ephemeral range, probed free, starting at a per-process offset.
var te2eNextPort = 0

func te2ePort() int {
	lo, hi := 10000, 32000
	if b, err := os.ReadFile("/proc/sys/net/ipv4/ip_local_port_range"); err == nil {
		if f := strings.Fields(string(b)); len(f) == 2 && atoiOr(f[0], 0) > lo+2000 {
			hi = atoiOr(f[0], hi) - 100
		}
	}
	if te2eNextPort == 0 {
		te2eNextPort = lo + (os.Getpid()*131)%(hi-lo)
	}
	for i := 0; i < hi-lo; i++ {
		p := te2eNextPort
		te2eNextPort++
		if te2eNextPort >= hi {
			te2eNextPort = lo
		}
		l, err := net.Listen("tcp", net.JoinHostPort("127.0.0.1", strconv.Itoa(p)))
		if err != nil {
			continue
		}
		l.Close()
		return p
	}
	return freeTCPPort()
}

func atoiOr(s string, d int) int {
	if n, err := strconv.Atoi(s); err == nil {
		return n
	}
	return d
}

func te2eGetPair(cfg string) *te2ePair {
	if p, ok := te2ePairs[cfg]; ok {
		return p
	}
	why := ""
	for try := 0; try < 4; try++ {
		p, w := te2eStartPair(cfg)
		if p != nil {
			te2ePairs[cfg] = p
			return p
		}
		why = w
	}
	panic("e2e pair " + cfg + " did not come up:" + why)
}

// one attempt; a loopback port picked in advance may have been taken meanwhile (infrastructure, retried)
func te2eStartPair(cfg string) (*te2ePair, string) {
	mux, tlsOn, pool := cfg[0] == '1', cfg[1] == '1', int(cfg[2]-'0')
	proto := byte('t')
	if len(cfg) > 3 {
		proto = cfg[3]
	}
	p := &te2ePair{proxies: map[string]*te2eProxy{}}
	scfg := &v1.ServerConfig{}
	scfg.BindAddr = "127.0.0.1"
	scfg.BindPort = te2ePort()
	scfg.ProxyBindAddr = "127.0.0.1"
	scfg.VhostHTTPSPort = te2ePort()
	scfg.TCPMuxHTTPConnectPort = te2ePort()
	scfg.Auth.Token = stkToken
	scfg.Transport.TCPMux = &mux
	switch proto {
	case 'q':
		scfg.QUICBindPort = freeUDPPort()
	case 'k':
		scfg.KCPBindPort = freeUDPPort()
	}
	scfg.Complete()
	svr, err := server.NewService(scfg)
	if err != nil {
		// a port picked above was taken meanwhile (e.g. as the source port of some connection of another pair)
		return nil, " frps:" + err.Error()
	}
	go svr.Run(context.Background())
	p.svr = svr

	ccfg := &v1.ClientCommonConfig{}
	ccfg.ServerAddr = "127.0.0.1"
	ccfg.ServerPort = scfg.BindPort
	ccfg.Auth.Token = stkToken
	ccfg.Transport.TLS.Enable = &tlsOn
	ccfg.Transport.TCPMux = &mux
	ccfg.Transport.PoolCount = pool
	switch proto {
	case 'q':
		ccfg.Transport.Protocol = "quic"
		ccfg.ServerPort = scfg.QUICBindPort
	case 'k':
		ccfg.Transport.Protocol = "kcp"
		ccfg.ServerPort = scfg.KCPBindPort
	case 'w':
		ccfg.Transport.Protocol = "websocket"
	}
	f := false
	ccfg.LoginFailExit = &f
	ccfg.Complete()

	var pcs []v1.ProxyConfigurer
	var vcs []v1.VisitorConfigurer
	bools := []bool{false, true}
	add := func(px *te2eProxy) {
		px.backend = stkNewBackend(px.key, px.pp)
		p.proxies[px.key] = px
		p.keys = append(p.keys, px.key)
	}
	for _, enc := range bools {
		for _, comp := range bools {
			for _, lim := range []string{"none", "srv", "cli"} {
				for _, ppOn := range bools {
					px := &te2eProxy{key: te2eKey("tcp", enc, comp, lim, ppOn), typ: "tcp", enc: enc, comp: comp, lim: lim, pp: ppOn}
					add(px)
					c := &v1.TCPProxyConfig{}
					c.Name, c.Type = px.key, "tcp"
					c.LocalIP, c.LocalPort = "127.0.0.1", px.backend.port()
					c.RemotePort = px.port
					te2eTransport(&c.Transport, enc, comp, lim, "50MB", ppOn)
					c.Complete("")
					pcs = append(pcs, c)
				}
				// stcp: the visitor's own options are the proxy's, swapped (the two legs are independent)
				px := &te2eProxy{key: te2eKey("stcp", enc, comp, lim, false), typ: "stcp", enc: enc, comp: comp, lim: lim, port: te2ePort()}
				add(px)
				c := &v1.STCPProxyConfig{}
				c.Name, c.Type = px.key, "stcp"
				c.LocalIP, c.LocalPort = "127.0.0.1", px.backend.port()
				c.Secretkey = "sk-" + px.key
				te2eTransport(&c.Transport, enc, comp, lim, "50MB", false)
				c.Complete("")
				pcs = append(pcs, c)
				v := &v1.STCPVisitorConfig{}
				v.Name, v.Type = "v-"+px.key, "stcp"
				v.ServerName = px.key
				v.SecretKey = c.Secretkey
				v.BindAddr, v.BindPort = "127.0.0.1", px.port
				v.Transport.UseEncryption, v.Transport.UseCompression = comp, enc
				v.Complete(ccfg)
				vcs = append(vcs, v)
				if lim == "srv" {
					continue
				}
				hx := &te2eProxy{key: te2eKey("https", enc, comp, lim, false), typ: "https", enc: enc, comp: comp, lim: lim, port: scfg.VhostHTTPSPort}
				hx.domain = fmt.Sprintf("h%d%d%s.c01.test", stkBit(enc), stkBit(comp), lim)
				add(hx)
				hc := &v1.HTTPSProxyConfig{}
				hc.Name, hc.Type = hx.key, "https"
				hc.LocalIP, hc.LocalPort = "127.0.0.1", hx.backend.port()
				hc.CustomDomains = []string{hx.domain}
				te2eTransport(&hc.Transport, enc, comp, lim, "50MB", false)
				hc.Complete("")
				pcs = append(pcs, hc)
				if lim == "cli" {
					continue
				}
				mx := &te2eProxy{key: te2eKey("tcpmux", enc, comp, lim, false), typ: "tcpmux", enc: enc, comp: comp, lim: lim, port: scfg.TCPMuxHTTPConnectPort}
				mx.domain = fmt.Sprintf("m%d%d.c01.test", stkBit(enc), stkBit(comp))
				add(mx)
				mc := &v1.TCPMuxProxyConfig{}
				mc.Name, mc.Type = mx.key, "tcpmux"
				mc.LocalIP, mc.LocalPort = "127.0.0.1", mx.backend.port()
				mc.CustomDomains = []string{mx.domain}
				mc.Multiplexer = "httpconnect"
				te2eTransport(&mc.Transport, enc, comp, lim, "50MB", false)
				mc.Complete("")
				pcs = append(pcs, mc)
			}
		}
	}
	for _, side := range []string{"srv", "cli"} {
		px := &te2eProxy{key: "bw/" + side, typ: "tcp", lim: side}
		add(px)
		c := &v1.TCPProxyConfig{}
		c.Name, c.Type = px.key, "tcp"
		c.LocalIP, c.LocalPort = "127.0.0.1", px.backend.port()
		c.RemotePort = px.port
		te2eTransport(&c.Transport, false, false, side, "256KB", false)
		c.Complete("")
		pcs = append(pcs, c)
	}
	for _, side := range []string{"srv", "cli"} {
		for _, sl := range te2eSmallLimits {
			kb := sl.kb
			px := &te2eProxy{key: te2eSmallKey(side, kb, sl.enc, sl.comp), typ: "tcp", lim: side, enc: sl.enc, comp: sl.comp}
			add(px)
			c := &v1.TCPProxyConfig{}
			c.Name, c.Type = px.key, "tcp"
			c.LocalIP, c.LocalPort = "127.0.0.1", px.backend.port()
			c.RemotePort = px.port
			te2eTransport(&c.Transport, px.enc, px.comp, side, fmt.Sprintf("%dKB", kb), false)
			c.Complete("")
			pcs = append(pcs, c)
		}
	}
	sort.Strings(p.keys)
	cli, err := client.NewService(client.ServiceOptions{Common: ccfg, ProxyCfgs: pcs, VisitorCfgs: vcs})
	if err != nil {
		panic(err)
	}
	go func() { _ = cli.Run(context.Background()) }()
	p.cli = cli
	deadline := time.Now().Add(6 * time.Second)
	for {
		n := 0
		for _, k := range p.keys {
			if st, ok := cli.StatusExporter().GetProxyStatus(k); ok && st.Phase == "running" {
				n++
				if px := p.proxies[k]; px.typ == "tcp" {
					_, ps, _ := net.SplitHostPort(st.RemoteAddr)
					px.port = atoi(ps)
				}
			}
		}
		if n == len(p.keys) {
			return p, ""
		}
		if time.Now().After(deadline) {
			why := ""
			for _, k := range p.keys {
				if st, ok := cli.StatusExporter().GetProxyStatus(k); !ok || st.Phase != "running" {
					why += fmt.Sprintf(" %s:%v", k, st)
				}
			}
			cli.Close()
			_ = svr.Close()
			return nil, why
		}
		time.Sleep(10 * time.Millisecond)
	}
}

// connect as a user of the proxy; returns the connection positioned after any protocol preamble the
// proxy type needs, plus the bytes that preamble contributes to what the backend must see
func te2eConnect(px *te2eProxy) (net.Conn, *bufio.Reader, []byte, error) {
	c, err := net.DialTimeout("tcp", net.JoinHostPort("127.0.0.1", strconv.Itoa(px.port)), 3*time.Second)
	if err != nil {
		return nil, nil, nil, err
	}
	br := bufio.NewReaderSize(c, 64*1024)
	switch px.typ {
	case "https":
		// the ClientHello is consumed by the SNI sniffer and must be replayed to the backend
		return c, br, stkClientHello(px.domain), nil
	case "tcpmux":
		req := fmt.Sprintf("CONNECT %s:80 HTTP/1.1\r\nHost: %s:80\r\n\r\n", px.domain, px.domain)
		if _, err := c.Write([]byte(req)); err != nil {
			c.Close()
			return nil, nil, nil, err
		}
		_ = c.SetReadDeadline(time.Now().Add(3 * time.Second))
		var reply []byte
		for !bytes.HasSuffix(reply, []byte("\r\n\r\n")) {
			b, err := br.ReadByte()
			if err != nil {
				c.Close()
				return nil, nil, nil, fmt.Errorf("connect reply: %v", err)
			}
			reply = append(reply, b)
		}
		_ = c.SetReadDeadline(time.Time{})
		if !bytes.HasPrefix(reply, []byte("HTTP/1.1 200")) {
			c.Close()
			return nil, nil, nil, fmt.Errorf("connect refused")
		}
	}
	return c, br, nil, nil
}

type te2eRes struct {
	up, down, tag, eof bool
	pp                 string
	sent, got          []byte
	err                string
}

func te2eTransfer(px *te2eProxy, n, ch int, pat string, oneway bool, seed int64, eofWait time.Duration) te2eRes {
	return te2eTransferT(px, n, ch, pat, oneway, seed, eofWait, 4*time.Second)
}

func te2eDebug(format string, a ...any) {
	if os.Getenv("C01_DEBUG") != "" {
		fmt.Fprintf(os.Stderr, format+"\n", a...)
	}
}

// ioWait bounds the wait for the backend's tag and for the echo (one deadline on the user's socket)
func te2eTransferT(px *te2eProxy, n, ch int, pat string, oneway bool, seed int64, eofWait, ioWait time.Duration) te2eRes {
	res := te2eRes{pp: "na"}
	for len(px.backend.newC) > 0 { // leftovers of an earlier failed op
		<-px.backend.newC
	}
	c, br, pre, err := te2eConnect(px)
	if err != nil {
		res.err = "connect"
		return res
	}
	defer c.Close()
	payload := stkPayload(n, pat, seed, oneway)
	if px.typ == "https" {
		payload = append(append([]byte(nil), pre...), payload...)
		if n > 0 {
			payload[len(pre)] = 'E'
		}
	}
	werr := make(chan error, 1)
	started := false
	if px.typ == "https" || !oneway {
		// the backend speaks first (tag) only after frpc dialled it; https needs the hello to route at all
		started = true
		go func() { werr <- stkWriteChunked(c, payload, ch, seed) }()
	}
	tagLen := 1 + len(px.backend.tag)
	_ = c.SetReadDeadline(time.Now().Add(ioWait))
	tagBuf := make([]byte, tagLen)
	if _, err := readFull(br, tagBuf); err != nil {
		res.err = "notag"
		if started {
			c.Close()
			<-werr
		}
		return res
	}
	res.tag = string(tagBuf[1:]) == px.backend.tag
	var bc *stkBConn
	select {
	case bc = <-px.backend.newC:
	case <-time.After(2 * time.Second):
		// a reply arrived but this proxy's backend saw no connection: name the tag that did arrive
		res.err = "nobackend:tag=" + hx(string(tagBuf[1:]))
		return res
	}
	if !started {
		go func() { werr <- stkWriteChunked(c, payload, ch, seed) }()
	}
	if oneway {
		<-werr
		res.down = true
	} else {
		back := make([]byte, len(payload))
		k, _ := readFull(br, back)
		<-werr
		res.down = k == len(payload) && bytes.Equal(back, payload)
	}
	// the user leaves
	c.Close()
	res.eof = stkWaitCh(bc.eof, eofWait)
	got := stkRecvN(px.backend, bc, len(payload), 3*time.Second)
	res.up = bytes.Equal(got, payload)
	res.sent, res.got = payload, got
	if px.pp {
		ua := c.LocalAddr().(*net.TCPAddr)
		res.pp = "0"
		if bc.hdr != nil {
			if s, ok := bc.hdr.SourceAddr.(*net.TCPAddr); ok && s.IP.Equal(ua.IP) && s.Port == ua.Port {
				res.pp = "1"
			}
		}
	}
	if !res.eof {
		bc.c.Close() // release the tunnel the defect keeps open
	}
	return res
}

func readFull(br *bufio.Reader, buf []byte) (int, error) {
	n := 0
	for n < len(buf) {
		k, err := br.Read(buf[n:])
		n += k
		if err != nil {
			return n, err
		}
	}
	return n, nil
}

func te2eXfer(kv map[string]string) string {
	p := te2eGetPair(kv["cfg"])
	px := p.proxies[te2eKey(kv["type"], kv["enc"] == "1", kv["comp"] == "1", kv["lim"], kv["pp"] == "1")]
	if px == nil {
		return "noproxy"
	}
	n := atoi(kv["n"])
	oneway, seed := kv["mode"] == "oneway", int64(atoi(kv["seed"]))
	r := te2eTransfer(px, n, atoi(kv["ch"]), kv["pat"], oneway, seed, 2*time.Second)
	if r.err != "" || (r.tag && !(r.up && r.down && r.eof)) {
		// no tagged reply at all, or a timeout inside the transfer (loaded machine?): once more before
		// reporting it — a systematic fault shows again; a wrong tag (cross-wiring) is never retried
		r = te2eTransferT(px, n, atoi(kv["ch"]), kv["pat"], oneway, seed, 4*time.Second, 8*time.Second)
	}
	if r.err != "" {
		return "err=" + r.err
	}
	out := fmt.Sprintf("up=%d;down=%d;tag=%d;eof=%d;pp=%s", stkBit(r.up), stkBit(r.down), stkBit(r.tag), stkBit(r.eof), r.pp)
	if len(r.sent) <= 24 && px.typ != "https" {
		out += fmt.Sprintf(";sent=%s;got=%s", hx(string(r.sent)), hx(string(r.got)))
	}
	return out
}

func te2eMulti(kv map[string]string) string {
	p := te2eGetPair(kv["cfg"])
	n, seed := atoi(kv["n"]), int64(atoi(kv["seed"]))
	var wg sync.WaitGroup
	var mu sync.Mutex
	ok, xw, bad := 0, 0, 0
	type again struct {
		j  int
		px *te2eProxy
	}
	var retry []again
	classify := func(j int, px *te2eProxy, r te2eRes, final bool) {
		mu.Lock()
		defer mu.Unlock()
		switch {
		case r.err == "" && r.up && r.down && r.tag:
			ok++
		case r.err == "" && !r.tag:
			xw++
		case !final:
			// anything but a clean transfer or a wrong tag (loaded machine? a timeout inside the
			// transfer): once more, alone — a systematic fault shows again, cross-wiring is never retried
			retry = append(retry, again{j, px})
		default:
			bad++
			if os.Getenv("C01_DEBUG") != "" {
				fmt.Fprintf(os.Stderr, "multi bad: %s err=%q up=%v down=%v tag=%v sent=%d got=%d\n", px.key, r.err, r.up, r.down, r.tag, len(r.sent), len(r.got))
			}
		}
	}
	for j, is := range strings.Split(kv["px"], ",") {
		px := p.proxies[p.keys[atoi(is)%len(p.keys)]]
		wg.Add(1)
		go func(j int, px *te2eProxy) {
			defer wg.Done()
			classify(j, px, te2eTransfer(px, n+j, -1, "mixed", false, seed+int64(j), 50*time.Millisecond), false)
		}(j, px)
	}
	wg.Wait()
	for _, a := range retry {
		classify(a.j, a.px, te2eTransfer(a.px, n+a.j, -1, "mixed", false, seed+int64(a.j), 50*time.Millisecond), true)
	}
	return fmt.Sprintf("ok=%d;xw=%d;bad=%d", ok, xw, bad)
}

func te2eBW(kv map[string]string) string {
	p := te2eGetPair(kv["cfg"])
	px := p.proxies["bw/"+kv["side"]]
	n := atoi(kv["n"])
	for len(px.backend.newC) > 0 {
		<-px.backend.newC
	}
	c, br, _, err := te2eConnect(px)
	if err != nil {
		return "err=connect"
	}
	defer c.Close()
	tagBuf := make([]byte, 1+len(px.backend.tag))
	_ = c.SetReadDeadline(time.Now().Add(5 * time.Second))
	if _, err := readFull(br, tagBuf); err != nil {
		return "err=notag"
	}
	bc := <-px.backend.newC
	payload := stkPayload(n, "rand", int64(n), true)
	if err := stkWriteChunked(c, payload, 32*1024, 1); err != nil {
		return "err=write"
	}
	dl := time.Now().Add(20 * time.Second)
	for time.Now().Before(dl) && len(px.backend.received(bc)) < n {
		time.Sleep(5 * time.Millisecond)
	}
	c.Close()
	bc.c.Close()
	px.backend.mu.Lock()
	defer px.backend.mu.Unlock()
	// at most ~40 samples: cumulative bytes at the last read of each 50 ms slot
	var s []string
	lastSlot := int64(-1)
	for i := range bc.at {
		slot := bc.at[i] / 50
		if i+1 < len(bc.at) && bc.at[i+1]/50 == slot {
			continue
		}
		if slot != lastSlot {
			s = append(s, fmt.Sprintf("%d:%d", bc.at[i], bc.cum[i]))
			lastSlot = slot
		}
	}
	return fmt.Sprintf("total=%d;s=%s", bc.recv.Len(), strings.Join(s, ","))
}

// one transfer through a small-limit proxy; returns "<bytes received>:<eof>:<equal>:<samples>"
func te2eSmallOne(p *te2ePair, el string, seed int64) (string, bool) {
	f := strings.Split(el, ".")
	if len(f) != 5 || len(f[3]) != 2 {
		return "0:0:0:", false
	}
	side, dir, kb, n := f[0], f[1], atoi(f[2]), atoi(f[4])
	px := p.proxies[te2eSmallKey(side, kb, f[3][0] == '1', f[3][1] == '1')]
	if px == nil || n < 1 {
		return "0:0:0:", false
	}
	for len(px.backend.newC) > 0 {
		<-px.backend.newC
	}
	c, br, _, err := te2eConnect(px)
	if err != nil {
		return "0:0:0:", false
	}
	defer c.Close()
	tagBuf := make([]byte, 1+len(px.backend.tag))
	_ = c.SetReadDeadline(time.Now().Add(5 * time.Second))
	if _, err := readFull(br, tagBuf); err != nil {
		return "0:0:0:", false
	}
	var bc *stkBConn
	select {
	case bc = <-px.backend.newC:
	case <-time.After(3 * time.Second):
		return "0:0:0:", false
	}
	defer bc.c.Close()
	// the time the limiter needs for everything beyond the first burst, plus a margin
	budget := time.Duration(float64(n)/float64(kb*1024)*float64(time.Second)) + 4*time.Second
	var at []int64
	var cum []int
	var got []byte
	var want []byte
	eof := false
	if dir == "up" || dir == "upc" {
		want = stkPayload(n, "rand", seed, true)
		werr := make(chan error, 1)
		go func() { werr <- stkWriteChunked(c, want, 32*1024, 1) }()
		left := false
		if dir == "upc" {
			// the user leaves the moment it has written everything: most of the stream is still inside the tunnel, and
			// its end follows the last bytes at once
			select {
			case <-werr:
			case <-time.After(budget):
			}
			c.Close()
			left = true
		}
		dl := time.After(budget)
	wait:
		for {
			if len(px.backend.received(bc)) >= n {
				break
			}
			select {
			case <-bc.eof: // the tunnel was torn down early
				break wait
			case <-dl:
				break wait
			case <-time.After(2 * time.Millisecond):
			}
		}
		// the user has finished writing and leaves: the backend must reach end-of-stream
		if !left {
			select {
			case <-werr:
			case <-time.After(time.Second):
			}
			c.Close()
		}
		eof = stkWaitCh(bc.eof, 2*time.Second)
		px.backend.mu.Lock()
		got = append([]byte(nil), bc.recv.Bytes()...)
		at, cum = append([]int64(nil), bc.at...), append([]int(nil), bc.cum...)
		px.backend.mu.Unlock()
	} else {
		want = stkPayload(n, "rand", seed, false)
		if _, err := c.Write(stkSourceReq(n, seed)); err != nil {
			return "0:0:0:", false
		}
		_ = c.SetReadDeadline(time.Now().Add(budget))
		buf := make([]byte, 32*1024)
		var t0 time.Time
		for {
			k, err := br.Read(buf)
			if k > 0 {
				if t0.IsZero() {
					t0 = time.Now()
				}
				got = append(got, buf[:k]...)
				at = append(at, time.Since(t0).Milliseconds())
				cum = append(cum, len(got))
			}
			if err != nil {
				ne, isNet := err.(net.Error)
				eof = !(isNet && ne.Timeout()) // end-of-stream (or a reset) as opposed to nothing more arriving
				break
			}
		}
	}
	// cumulative bytes at the last read of each 100 ms slot
	var s []string
	for i := range at {
		if i+1 < len(at) && at[i+1]/100 == at[i]/100 {
			continue
		}
		s = append(s, fmt.Sprintf("%d.%d", at[i], cum[i]))
	}
	equal := bytes.Equal(got, want)
	return fmt.Sprintf("%d:%d:%d:%s", len(got), stkBit(eof), stkBit(equal), strings.Join(s, "/")), equal && eof
}

func te2eSmallBW(kv map[string]string) string {
	p := te2eGetPair(kv["cfg"])
	seed := int64(atoi(kv["seed"]))
	els := strings.Split(kv["q"], ",")
	out := make([]string, len(els))
	good := make([]bool, len(els))
	var wg sync.WaitGroup
	for i, el := range els {
		wg.Add(1)
		go func(i int, el string) {
			defer wg.Done()
			out[i], good[i] = te2eSmallOne(p, el, seed+int64(i))
		}(i, el)
	}
	wg.Wait()
	for i, el := range els {
		if !good[i] {
			// incomplete (loaded machine?): once more, alone, before reporting — a systematic fault shows again
			out[i], _ = te2eSmallOne(p, el, seed+int64(i))
		}
	}
	return "r=" + strings.Join(out, "|")
}

// a paused reader: the writer writes everything and closes, the reader stops for `pause` ms after `after` bytes
func te2eSlowOne(kv map[string]string) (string, bool) {
	p := te2eGetPair(kv["cfg"])
	px := p.proxies[te2eKey("tcp", kv["enc"] == "1", kv["comp"] == "1", kv["lim"], false)]
	if px == nil {
		return "noproxy", false
	}
	n, after, pause, seed := atoi(kv["n"]), 0, atoi(kv["pause"]), int64(atoi(kv["seed"]))
	if kv["after"] != "fin" {
		after = atoi(kv["after"])
	}
	for len(px.backend.newC) > 0 {
		<-px.backend.newC
	}
	c, br, _, err := te2eConnect(px)
	if err != nil {
		return "err=connect", false
	}
	defer c.Close()
	tagBuf := make([]byte, 1+len(px.backend.tag))
	_ = c.SetReadDeadline(time.Now().Add(5 * time.Second))
	if _, err := readFull(br, tagBuf); err != nil {
		return "err=notag", false
	}
	var bc *stkBConn
	select {
	case bc = <-px.backend.newC:
	case <-time.After(3 * time.Second):
		return "err=nobackend", false
	}
	defer bc.c.Close()
	pace := time.Duration(atoi(kv["pace"])) * time.Millisecond
	budget := time.Duration(pause)*time.Millisecond + 10*time.Second + pace*time.Duration(n/32768+1)
	var got, want []byte
	eof := false
	if kv["dir"] == "down" {
		want = stkPayload(n, "rand", seed, false)
		if _, err := c.Write(stkSourceReq(n, seed)); err != nil {
			return "err=write", false
		}
		_ = c.SetReadDeadline(time.Now().Add(budget))
		buf := make([]byte, 32*1024)
		paused := false
		for {
			k, err := br.Read(buf)
			got = append(got, buf[:k]...)
			if !paused {
				at := false
				if kv["after"] == "fin" {
					select {
					case <-bc.eof:
						at = true
					default:
					}
				} else {
					at = len(got) >= after
				}
				if at {
					paused = true
					time.Sleep(time.Duration(pause) * time.Millisecond)
				} else if pace > 0 && err == nil {
					time.Sleep(pace)
				}
			}
			if err != nil {
				ne, isNet := err.(net.Error)
				eof = !(isNet && ne.Timeout())
				break
			}
		}
	} else {
		if n < stkSourceReqLen {
			n = stkSourceReqLen
		}
		want = stkPayload(n, "rand", seed, true)
		copy(want, stkPauseReq(after, pause))
		werr := make(chan error, 1)
		go func() { werr <- stkWriteChunked(c, want, 64*1024, 1) }()
		select {
		case <-werr:
		case <-time.After(budget):
		}
		// the user has written everything and leaves
		c.Close()
		eof = stkWaitCh(bc.eof, budget)
		got = px.backend.received(bc)
	}
	equal := bytes.Equal(got, want)
	return fmt.Sprintf("got=%d;eof=%d;eq=%d", len(got), stkBit(eof), stkBit(equal)), equal && eof && len(got) == n
}

func te2eSlow(kv map[string]string) string {
	r, ok := te2eSlowOne(kv)
	if !ok && strings.HasPrefix(r, "err=") {
		r, _ = te2eSlowOne(kv) // the connection could not be set up (loaded machine?): once more
	}
	return r
}

// Time spent in ops that FAILED (a wait that ran into its bound). On a tree where something is systematically broken
// every op may run into its bounds; once a minute has gone that way the remaining ops are not executed any more, so
// that one execution of an op file stays bounded (the runner re-executes and shrinks op files).
var te2eFailSpent time.Duration

func te2eFailed(res string) bool {
	for _, m := range []string{"err=", "up=0", "down=0", "tag=0", "eof=0", "pp=0", "eq=0", "noproxy", "?"} {
		if strings.Contains(res, m) {
			return true
		}
	}
	for _, k := range []string{"xw=", "bad="} {
		if i := strings.Index(res, k); i >= 0 && !strings.HasPrefix(res[i+len(k):], "0") {
			return true
		}
	}
	return false
}

func te2eExec(tok []string) string {
	if te2eFailSpent > 60*time.Second && tok[0] != "reset" {
		return "err=budget"
	}
	t0 := time.Now()
	res := te2eExec1(tok)
	if te2eFailed(res) {
		te2eFailSpent += time.Since(t0)
	}
	return res
}

func te2eExec1(tok []string) string {
	kv := stkKV(tok)
	switch tok[0] {
	case "reset":
		return "-"
	case "xfer":
		return te2eXfer(kv)
	case "multi":
		return te2eMulti(kv)
	case "bw":
		return te2eBW(kv)
	case "sbw":
		return te2eSmallBW(kv)
	case "slow":
		return te2eSlow(kv)
	case "life":
		return te2eLife(kv)
	case "sched":
		return te2eSched(kv)
	case "reload":
		return te2eReload(kv)
	case "ppc":
		return te2ePPC(kv)
	}
	return "badop"
}

func te2eGen(rng *rand.Rand, n int, emit func(string)) {
	emit("reset")
	cfgs := []string{"111", "001", "103", "011"} // <tcpMux><tls><pool>
	sizes := []int{0, 1, 2, 17, 24, 1000, 16383, 16384, 16385, 65537, 200000}
	x := func(cfg, typ string, enc, comp int, lim string, ppv, sz, ch int, pat, mode string) {
		if (ch == 1 || ch == 7) && sz > 20000 {
			ch = 1000
		}
		emit(fmt.Sprintf("xfer cfg=%s type=%s enc=%d comp=%d lim=%s pp=%d n=%d ch=%d pat=%s mode=%s seed=%d",
			cfg, typ, enc, comp, lim, ppv, sz, ch, pat, mode, rng.Intn(100000)))
	}
	// a running frpc is re-configured: every change class once (local only: backend / header version / plugin; two proxies
	// swapping backends; a field frps sees; both; nothing; a proxy goes and comes back; a name twice), then generated histories
	emit(fmt.Sprintf("reload cfg=111 steps=0.0.0.0.0.0+1.1.0.2.0.0+2.2.0.1.1.0+3.3.0.0.0.0/0.1.0.0.0.0+1.0.0.2.0.0+2.2.0.1.1.0+3.3.0.0.0.0/"+
		"0.1.0.1.0.0+1.0.0.2.0.0+2.2.0.1.1.0+3.4.0.2.0.0/0.1.0.1.0.0+1.0.0.2.0.1+2.2.1.1.1.0+3.4.0.2.0.0/0.1.0.1.0.0+1.0.0.2.0.1+2.2.1.1.1.0+3.4.0.2.0.0/"+
		"1.3.1.0.0.0+3.4.0.2.0.0/1.3.1.0.0.0+0.2.0.0.0.0+3.0.1.1.0.0+0.4.1.2.0.0 seed=%d", rng.Intn(100000)))
	emit(te2eGenReload(rng, "001"))
	emit(te2eGenReload(rng, "100"))
	// users that arrive together at one proxy with a declared proxy-protocol header (v2 / v1, dialled / through the plugin)
	emit(fmt.Sprintf("ppc cfg=001 px=0.2.0.2.0.0 k=12 rounds=2 ips=3 seed=%d", rng.Intn(100000)))
	emit(fmt.Sprintf("ppc cfg=111 px=3.1.1.1.1.0 k=6 rounds=2 ips=1 seed=%d", rng.Intn(100000)))
	emit(fmt.Sprintf("ppc cfg=100 px=1.4.0.2.0.1 k=24 rounds=1 ips=4 seed=%d", rng.Intn(100000)))
	// the defect region first (server-side limiter), few cases: each costs the full EOF wait
	x("111", "tcp", 0, 0, "srv", 0, 300, 0, "rand", "oneway")
	x("001", "tcp", 1, 1, "srv", 1, 5000, 7, "mixed", "echo")
	x("111", "stcp", 1, 0, "srv", 0, 24, 1, "rand", "oneway")
	// large payloads: 1 MiB incompressible, 1 MiB zeros, mixed runs
	x("111", "tcp", 1, 1, "cli", 0, 1<<20, -1, "rand", "echo")
	x("001", "tcp", 0, 1, "none", 1, 1<<20, 65536, "zero", "echo")
	x("103", "stcp", 1, 1, "none", 0, 1<<20, -1, "mixed", "oneway")
	x("011", "https", 1, 1, "none", 0, 300000, -1, "mixed", "echo")
	x("111", "tcpmux", 1, 1, "none", 0, 300000, 1000, "zero", "echo")
	emit("bw cfg=111 side=srv n=655360")
	emit("bw cfg=001 side=cli n=655360")
	// small limits, both enforcing sides, both directions: the two ops together use every (side, limit, direction)
	emit(te2eGenSmall(rng, "111", 0))
	emit(te2eGenSmall(rng, "001", 1))
	// the same over the transports whose streams END differently (a quic stream hands its last bytes over TOGETHER with
	// end-of-stream, yamux / websocket on a read of their own): one-way streams that end — the writer closes — of 1 byte up
	// to a little more than a burst (the whole stream, or its tail, arrives with the end), every (enforcing side, limit)
	// in both directions; then the several-burst transfers over quic
	emit(te2eGenSmallTails(rng, "001q", 0))
	emit(te2eGenSmallTails(rng, "001q", 1))
	emit(te2eGenSmallTails(rng, "101w", rng.Intn(2)))
	emit(te2eGenSmallTails(rng, "111", rng.Intn(2)))
	emit(te2eGenSmall(rng, "001q", rng.Intn(2)))
	// a slow, pausing reader behind every kind of control transport; the long pause once, on the datagram-based transport,
	// at the moment the writing side is done (everything still outstanding sits in the buffers along the tunnel and the
	// writing side has closed long before the reader comes back)
	// (a reader slow enough — 32 KiB per 8 ms — that the final hop's socket buffers stay full and the tail really waits inside
	// the tunnel's stream: with a faster reader everything outstanding often fits the kernel buffers of the last hop)
	emit(fmt.Sprintf("slow cfg=001q enc=0 comp=0 lim=none dir=down n=%d after=fin pace=8 pause=3500 seed=%d", 10<<20, rng.Intn(100000)))
	emit(fmt.Sprintf("slow cfg=001q enc=1 comp=0 lim=none dir=up n=%d after=%d pace=0 pause=200 seed=%d", 2<<20, 65536, rng.Intn(100000)))
	emit(fmt.Sprintf("slow cfg=111 enc=0 comp=1 lim=none dir=down n=%d after=fin pace=1 pause=300 seed=%d", 4<<20, rng.Intn(100000)))
	emit(fmt.Sprintf("slow cfg=101w enc=1 comp=1 lim=cli dir=up n=%d after=%d pace=0 pause=300 seed=%d", 1<<20, 0, rng.Intn(100000)))
	// proxy life cycle on the vhost muxers: everything up, then one of the routeByHTTPUser siblings closed, …
	emit(fmt.Sprintf("life cfg=111 steps=1fff/1ffd/1ff9/1fff/0 seed=%d", rng.Intn(100000)))
	emit(te2eGenLife(rng, "001"))
	// back-to-back, then overlapping connections on compressed proxies
	emit(fmt.Sprintf("sched cfg=%s g=tcp.0.1.none.0,tcp.0.1.none.0+tcp.1.1.none.1+stcp.0.1.none.0,tcp.1.1.cli.0+https.0.1.none.0,tcp.0.1.none.0+tcp.0.1.cli.1+stcp.1.1.none.0+tcpmux.0.1.none.0,https.1.1.none.0+tcp.1.1.none.0 n=3000 seed=%d",
		pick(rng, cfgs), rng.Intn(100000)))
	for i := 0; i < n; i++ {
		cfg := pick(rng, cfgs)
		if rng.Intn(14) == 0 {
			emit(te2eGenLife(rng, pick(rng, []string{"111", "001"})))
			continue
		}
		if rng.Intn(8) == 0 {
			emit(te2eGenSched(rng, cfg))
			continue
		}
		if rng.Intn(7) == 0 {
			emit(te2eGenReload(rng, pick(rng, []string{"111", "001", "100"})))
			continue
		}
		if rng.Intn(12) == 0 {
			emit(te2eGenPPC(rng, pick(rng, []string{"111", "001", "100"})))
			continue
		}
		if rng.Intn(12) == 0 {
			cfg = pick(rng, []string{"001q", "101w", "001q", cfg})
		}
		if rng.Intn(15) == 0 {
			sz := pick(rng, []int{17, 5000, 70000, 1 << 20, 3 << 20})
			dir := pick(rng, []string{"down", "up"})
			after := strconv.Itoa(sz*rng.Intn(8)/8 + rng.Intn(2))
			if dir == "down" && rng.Intn(2) == 0 {
				after = "fin"
			}
			emit(fmt.Sprintf("slow cfg=%s enc=%d comp=%d lim=%s dir=%s n=%d after=%s pace=%d pause=%d seed=%d", cfg, rng.Intn(2), rng.Intn(2),
				pick(rng, []string{"none", "cli", "srv"}), dir, sz, after, pick(rng, []int{0, 0, 1, 3}), pick(rng, []int{0, 20, 150, 400}),
				rng.Intn(100000)))
			continue
		}
		if rng.Intn(200) == 0 {
			emit(te2eGenSmall(rng, cfg, rng.Intn(2)))
			continue
		}
		if rng.Intn(40) == 0 {
			emit(te2eGenSmallTails(rng, pick(rng, []string{"001q", "001q", "101w", cfg}), rng.Intn(2)))
			continue
		}
		if rng.Intn(6) == 0 {
			k := 2 + rng.Intn(5)
			var px []string
			for _, j := range rng.Perm(50)[:k] { // distinct proxies
				px = append(px, strconv.Itoa(j))
			}
			emit(fmt.Sprintf("multi cfg=%s px=%s n=%d seed=%d", cfg, strings.Join(px, ","), pick(rng, []int{1, 100, 20000}), rng.Intn(100000)))
			continue
		}
		typ := pick(rng, []string{"tcp", "tcp", "stcp", "https", "tcpmux"})
		enc, comp := rng.Intn(2), rng.Intn(2)
		lim := pick(rng, []string{"none", "cli", "none", "cli"})
		ppv := 0
		switch typ {
		case "tcp":
			ppv = rng.Intn(2)
		case "tcpmux":
			lim = "none"
		}
		mode := pick(rng, []string{"echo", "oneway"})
		if typ == "https" {
			mode = "echo"
		}
		sz := pick(rng, sizes)
		if rng.Intn(3) == 0 {
			sz = rng.Intn(70000)
		}
		x(cfg, typ, enc, comp, lim, ppv, sz, pick(rng, []int{0, 1, 7, 1000, 16384, -1}), pick(rng, []string{"rand", "zero", "mixed"}), mode)
	}
}

// one transfer per small-limit proxy (they run simultaneously), 2 … 3.5 bursts each => at most ~2.5 s of limiter time
func te2eGenSmall(rng *rand.Rand, cfg string, phase int) string {
	var q []string
	i := phase
	for _, side := range []string{"srv", "cli"} {
		for _, sl := range te2eSmallLimits {
			dir := []string{pick(rng, []string{"up", "upc"}), "down"}[i%2]
			i++
			n := sl.kb*1024*2 + rng.Intn(sl.kb*1024*3/2)
			q = append(q, fmt.Sprintf("%s.%s.%d.%d%d.%d", side, dir, sl.kb, stkBit(sl.enc), stkBit(sl.comp), n))
		}
		i++
	}
	return fmt.Sprintf("sbw cfg=%s q=%s seed=%d", cfg, strings.Join(q, ","), rng.Intn(100000))
}

// streams that END through the small-limit proxies: 1 byte … a little more than one burst (at most ~0.2 s of limiter time
// beyond what an earlier op left in the bucket), one per proxy, simultaneously; directions as in te2eGenSmall
func te2eGenSmallTails(rng *rand.Rand, cfg string, phase int) string {
	var q []string
	i := phase
	for _, side := range []string{"srv", "cli"} {
		for _, sl := range te2eSmallLimits {
			dir := []string{"upc", "down"}[i%2]
			i++
			b := sl.kb * 1024
			n := pick(rng, []int{1, 2, 700, 4096, b / 2, b - 1, b, b + 1 + rng.Intn(b/5), 1 + rng.Intn(b)})
			q = append(q, fmt.Sprintf("%s.%s.%d.%d%d.%d", side, dir, sl.kb, stkBit(sl.enc), stkBit(sl.comp), n))
		}
		i++
	}
	return fmt.Sprintf("sbw cfg=%s q=%s seed=%d", cfg, strings.Join(q, ","), rng.Intn(100000))
}
