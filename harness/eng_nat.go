package main

import (
	"context"
	"encoding/hex"
	"fmt"
	"math/rand"
	"net"
	"os"
	"sort"
	"strconv"
	"strings"
	"sync"
	"time"

	"github.com/fatedier/frp/pkg/msg"
	"github.com/fatedier/frp/pkg/nathole"
	"github.com/fatedier/frp/pkg/util/util"
)

// Engine "nat": pkg/nathole — ClassifyNATFeature, getRangePorts (verif export), a real Analyzer
// (GetRecommandBehaviors / ReportSuccess histories) and a real Controller (ListenClient,
// CloseClient, HandleVisitor, HandleClient, HandleReport) with capturing transporters.
// NatHoleTimeout is shortened to 1 s.  Lists are "," joined hx items, "-" = empty list.
//
//	reset
//	classify <addrs> <localIPs>                 => err | <type>,<behavior>,<diff>,<regular>,<public>
//	range <inr|oor> <addrs> <diff> <maxn>       => nil | <from>:<to>
//	rec <key> <cfeat> <vfeat>                   => <mode>,<index>#<cBeh>#<vBeh>#<scores>     (feat = e|h + regular + public)
//	succ <key> <mode> <index>                   => nokey | <scores>
//	listen <name> <sk> <allowUsers>             => ok | repeated
//	close <name>                                => -
//	precheck <name> <user>                      => ok | noexist | notallowed
//	visit <id> <name> <skUsed> <tsUsed> <tsMsg> <user> <proto> <mapped> <assisted> [<sigmut>]
//	                                               SignKey = natMutSig(GetAuthKey(skUsed, tsUsed), sigmut): the right signature for
//	                                               (skUsed, tsUsed) or a prefix / suffix / extension / near miss / junk (see natMutSig)
//	                                            => created | err:noexist | err:auth     (HandleVisitor up to the notify send)
//	notify <name>                               => n<id> | none                          (one receive on the proxy's sidCh)
//	cli <id> <k> <mapped> <assisted>            => ok | late | unknown                   (HandleClient via client transporter k of session id)
//	report <id> <0|1>                           => <u|0|1>#<mode>,<index>#<scores of the session's key>#<same|changed:what>
//	                                               (u = sid not stored, 0 = stored but not analysed, 1 = analysed; last field: everything
//	                                                else a report could touch — sessions, other keys, key count — compared before/after)
//	adump                                       => <keys>:<score lists, sorted>          (the controller's whole analyzer)
//	settle                                      => live=<ids>                            (let every NatHoleTimeout and delayed send elapse, list sessions not stuck)
//	stuck                                       => <ids> | -                             (sessions whose notify send can never be received)
//	resp <id> <inr|oor>                         => V=<resps>#C0=<resps>#C1=<resps>       (everything each transporter of the session received)
//	rangechk <id> <inr|oor>                     => same                                  (judged by the full predicate incl. port ranges)
type capT struct {
	mu   sync.Mutex
	msgs []*msg.NatHoleResp
	ch   chan struct{}
}

func newCapT() *capT { return &capT{ch: make(chan struct{}, 16)} }

func (t *capT) Send(m msg.Message) error {
	t.mu.Lock()
	if r, ok := m.(*msg.NatHoleResp); ok {
		cp := *r
		t.msgs = append(t.msgs, &cp)
	} else {
		t.msgs = append(t.msgs, &msg.NatHoleResp{Error: fmt.Sprintf("not-a-resp %T", m)})
	}
	t.mu.Unlock()
	select {
	case t.ch <- struct{}{}:
	default:
	}
	return nil
}
func (t *capT) Do(context.Context, msg.Message, string, string) (msg.Message, error) {
	return nil, fmt.Errorf("unused")
}
func (t *capT) Dispatch(msg.Message, string) bool                 { return false }
func (t *capT) DispatchWithType(msg.Message, string, string) bool { return false }
func (t *capT) count() int {
	t.mu.Lock()
	defer t.mu.Unlock()
	return len(t.msgs)
}

type natSess struct {
	id       int
	sid      string
	tv       *capT
	tc       [2]*capT
	notified bool
	answered bool
	cliSeen  bool // a NatHoleClient was delivered before the handler reached its select
	at       time.Time
	ch       chan string // the sidCh the handler is (or was) sending on
	name     string
	pmu      sync.Mutex
	pan      string // a panic of this session's HandleVisitor goroutine (server/control.go runs it on a bare goroutine)
}

func (s *natSess) setPanic(v string) {
	s.pmu.Lock()
	if s.pan == "" {
		s.pan = "PANIC:" + hx(v)
	}
	s.pmu.Unlock()
}

func (s *natSess) panicked() string {
	s.pmu.Lock()
	defer s.pmu.Unlock()
	return s.pan
}

func (st *natState) isStuck(s *natSess) bool {
	return !s.notified && st.chans[s.name] != s.ch
}

type natState struct {
	an    *nathole.Analyzer
	ctl   *nathole.Controller
	chans map[string]chan string
	sess  map[int]*natSess
	bySid map[string]*natSess
	last  time.Time
	round time.Time       // first visit since the last settle (NAT_TIMING=1: round length on stderr)
	keys  map[string]bool // analysis keys the controller's analyzer may hold (read back after every analysis)
}

var nst *natState

func natReset() {
	nathole.NatHoleTimeout = 1
	c, _ := nathole.NewController(time.Hour)
	nst = &natState{an: nathole.NewAnalyzer(time.Hour), ctl: c, chans: map[string]chan string{},
		sess: map[int]*natSess{}, bySid: map[string]*natSess{}, last: time.Now(), keys: map[string]bool{}}
}

func unlist(t string) []string {
	if t == "-" {
		return nil
	}
	parts := strings.Split(t, ",")
	out := make([]string, 0, len(parts))
	for _, p := range parts {
		out = append(out, unhx(p))
	}
	return out
}

func mklist(xs []string) string {
	if len(xs) == 0 {
		return "-"
	}
	out := make([]string, 0, len(xs))
	for _, x := range xs {
		out = append(out, hx(x))
	}
	return strings.Join(out, ",")
}

func b01(b bool) string {
	if b {
		return "1"
	}
	return "0"
}

func featOf(t string) *nathole.NatFeature {
	f := &nathole.NatFeature{NatType: nathole.EasyNAT, Behavior: nathole.BehaviorNoChange}
	if t[0] == 'h' {
		f.NatType = nathole.HardNAT
		f.Behavior = nathole.BehaviorPortChanged
	}
	f.RegularPortsChange = t[1] == '1'
	f.PublicNetwork = t[2] == '1'
	return f
}

func roleStr(r string) string {
	switch r {
	case "sender":
		return "S"
	case "receiver":
		return "R"
	case "":
		return "N"
	}
	return "?" + hx(r)
}

func behStr(b nathole.RecommandBehavior) string {
	return fmt.Sprintf("%s,%d,%d,%d,%d,%d", roleStr(b.Role), b.TTL, b.SendDelayMs, b.PortsRangeNumber, b.PortsRandomNumber, b.ListenRandomPorts)
}

func scoresStr(sc [][3]int) string {
	if len(sc) == 0 {
		return "-"
	}
	out := make([]string, 0, len(sc))
	for _, s := range sc {
		out = append(out, fmt.Sprintf("%d.%d.%d", s[0], s[1], s[2]))
	}
	return strings.Join(out, ",")
}

func errClass(e string) string {
	switch {
	case e == "":
		return "none"
	case strings.Contains(e, "doesn't exist"):
		return "noexist"
	case strings.Contains(e, "auth failed"):
		return "auth"
	case strings.Contains(e, "not allowed"):
		return "notallowed"
	case strings.HasPrefix(e, "notify xtcp server"):
		return "notifytimeout"
	case strings.HasPrefix(e, "classify client nat feature error"):
		return "cc"
	case strings.HasPrefix(e, "classify visitor nat feature error"):
		return "cv"
	}
	return "other"
}

func (st *natState) respStr(r *msg.NatHoleResp) string {
	return natRespStr(r, hx(r.TransactionID), func(sid string) string {
		if s, ok := st.bySid[sid]; ok {
			return "s" + strconv.Itoa(s.id)
		}
		return "?"
	})
}

// natRespStr is the canonical form of a NatHoleResp (shared with the punch engine)
func natRespStr(r *msg.NatHoleResp, tid string, sidName func(string) string) string {
	sid := "-"
	if r.Sid != "" {
		sid = sidName(r.Sid)
	}
	ports := "-"
	if len(r.DetectBehavior.CandidatePorts) > 0 {
		ps := []string{}
		for _, p := range r.DetectBehavior.CandidatePorts {
			ps = append(ps, fmt.Sprintf("%d:%d", p.From, p.To))
		}
		ports = strings.Join(ps, "+")
	}
	b := r.DetectBehavior
	return strings.Join([]string{tid, sid, hx(r.Protocol), mklist(r.CandidateAddrs), mklist(r.AssistedAddrs),
		roleStr(b.Role), strconv.Itoa(b.Mode), strconv.Itoa(b.TTL), strconv.Itoa(b.SendDelayMs), strconv.Itoa(b.ReadTimeoutMs),
		ports, strconv.Itoa(b.SendRandomPorts), strconv.Itoa(b.ListenRandomPorts), errClass(r.Error)}, ";")
}

func (st *natState) respsStr(t *capT) string {
	t.mu.Lock()
	defer t.mu.Unlock()
	if len(t.msgs) == 0 {
		return "-"
	}
	out := []string{}
	for _, m := range t.msgs {
		out = append(out, st.respStr(m))
	}
	return strings.Join(out, "|")
}

// awaitFirst waits until the party that is not the sender (or, on an analysis error, both parties)
// has been answered; HandleVisitor delays only the sender's response (by 1 s).
func (st *natState) awaitFirst(s *natSess, before int) string {
	deadline := time.Now().Add(3 * time.Second)
	for time.Now().Before(deadline) {
		if p := s.panicked(); p != "" {
			return p
		}
		n := s.tv.count() + s.tc[0].count() + s.tc[1].count()
		if n > before {
			if key, _, _, ok := st.ctl.VerifSessionInfo(s.sid); ok && key != "" {
				st.keys[key] = true
			}
			isErr := false
			for _, t := range []*capT{s.tv, s.tc[0], s.tc[1]} {
				t.mu.Lock()
				for _, m := range t.msgs {
					if m.Error != "" {
						isErr = true
					}
				}
				t.mu.Unlock()
			}
			if !isErr || n >= before+2 {
				return "ok"
			}
		}
		time.Sleep(20 * time.Microsecond)
	}
	return "noresp"
}

func (st *natState) anyPanic() string {
	ids := []int{}
	for id := range st.sess {
		ids = append(ids, id)
	}
	sort.Ints(ids)
	for _, id := range ids {
		if p := st.sess[id].panicked(); p != "" {
			return p
		}
	}
	return ""
}

// natSnap is everything a NatHoleReport could touch: the stored sessions with what HandleReport reads
// from them, and the analyzer (number of keys, the score list of every key an analysis ever produced
// and of the empty key a not-yet-analysed session carries).
type natSnap struct {
	sess   map[string]string
	count  int
	scores map[string]string
}

func (st *natState) snap() natSnap {
	sn := natSnap{sess: map[string]string{}, scores: map[string]string{}}
	for _, sid := range st.ctl.VerifSessions() {
		if key, mode, index, ok := st.ctl.VerifSessionInfo(sid); ok {
			sn.sess[sid] = fmt.Sprintf("%s,%d,%d", key, mode, index)
		}
	}
	an := st.ctl.VerifAnalyzer()
	sn.count = an.VerifRecordCount()
	one := func(k string) {
		if sc, ok := an.VerifScores(k); ok {
			sn.scores[k] = scoresStr(sc)
		} else {
			sn.scores[k] = "absent"
		}
	}
	one("")
	for k := range st.keys {
		one(k)
	}
	return sn
}

// natFrame compares two snapshots around one HandleReport: "same" when nothing but the score list of
// `own` (the analysis key of the reported, analysed session; "" = none) differs.  Handler goroutines
// only ever delete sessions concurrently (timeouts), so a vanished session is not a change.
func natFrame(a, b natSnap, own string) string {
	for sid, info := range b.sess {
		old, ok := a.sess[sid]
		if !ok {
			return "changed:session-added"
		}
		if old != info {
			return "changed:session-info"
		}
	}
	if a.count != b.count {
		return "changed:record-count"
	}
	for k, v := range a.scores {
		if (own == "" || k != own) && b.scores[k] != v {
			return "changed:other-records"
		}
	}
	return "same"
}

func natExec(tok []string) string {
	if nst == nil {
		natReset()
	}
	st := nst
	switch tok[0] {
	case "reset":
		natReset()
		return "-"
	case "classify":
		f, err := nathole.ClassifyNATFeature(unlist(tok[1]), unlist(tok[2]))
		if err != nil {
			return "err"
		}
		ty := map[string]string{nathole.EasyNAT: "easy", nathole.HardNAT: "hard"}[f.NatType]
		bh := map[string]string{nathole.BehaviorNoChange: "none", nathole.BehaviorIPChanged: "ip",
			nathole.BehaviorPortChanged: "port", nathole.BehaviorBothChanged: "both"}[f.Behavior]
		return fmt.Sprintf("%s,%s,%d,%s,%s", ty, bh, f.PortsDifference, b01(f.RegularPortsChange), b01(f.PublicNetwork))
	case "range":
		rs := nathole.VerifGetRangePorts(unlist(tok[2]), atoi(tok[3]), atoi(tok[4]))
		if len(rs) == 0 {
			return "nil"
		}
		out := []string{}
		for _, r := range rs {
			out = append(out, fmt.Sprintf("%d:%d", r.From, r.To))
		}
		return strings.Join(out, "+")
	case "rec":
		key := unhx(tok[1])
		mode, index, cb, vb := st.an.GetRecommandBehaviors(key, featOf(tok[2]), featOf(tok[3]))
		sc, _ := st.an.VerifScores(key)
		return fmt.Sprintf("%d,%d#%s#%s#%s", mode, index, behStr(cb), behStr(vb), scoresStr(sc))
	case "succ":
		key := unhx(tok[1])
		st.an.ReportSuccess(key, atoi(tok[2]), atoi(tok[3]))
		sc, ok := st.an.VerifScores(key)
		if !ok {
			return "nokey"
		}
		return scoresStr(sc)
	case "listen":
		name := unhx(tok[1])
		ch, err := st.ctl.ListenClient(name, unhx(tok[2]), unlist(tok[3]))
		if err != nil {
			return "repeated"
		}
		st.chans[name] = ch
		return "ok"
	case "close":
		name := unhx(tok[1])
		st.ctl.CloseClient(name)
		delete(st.chans, name) // the owner loop of xtcp.go stops receiving on Close
		return "-"
	case "precheck":
		t := newCapT()
		st.ctl.HandleVisitor(&msg.NatHoleVisitor{TransactionID: "p", ProxyName: unhx(tok[1]), PreCheck: true}, t, unhx(tok[2]))
		if t.count() != 1 {
			return fmt.Sprintf("sent=%d", t.count())
		}
		c := errClass(t.msgs[0].Error)
		if c == "none" {
			return "ok"
		}
		return c
	case "visit":
		id := atoi(tok[1])
		if _, dup := st.sess[id]; dup {
			return "dup-id"
		}
		s := &natSess{id: id, tv: newCapT(), tc: [2]*capT{newCapT(), newCapT()}, name: unhx(tok[2])}
		s.ch = st.chans[s.name]
		tsUsed, _ := strconv.ParseInt(tok[4], 10, 64)
		tsMsg, _ := strconv.ParseInt(tok[5], 10, 64)
		mut := "x"
		if len(tok) > 10 {
			mut = tok[10]
		}
		m := &msg.NatHoleVisitor{
			TransactionID: "tv" + strconv.Itoa(id), ProxyName: unhx(tok[2]),
			SignKey: natMutSig(util.GetAuthKey(unhx(tok[3]), tsUsed), mut), Timestamp: tsMsg,
			Protocol: unhx(tok[7]), MappedAddrs: unlist(tok[8]), AssistedAddrs: unlist(tok[9]),
		}
		before := map[string]bool{}
		for _, x := range st.ctl.VerifSessions() {
			before[x] = true
		}
		st.sess[id] = s
		if st.round.IsZero() {
			st.round = time.Now()
		}
		user := unhx(tok[6])
		go func() {
			// server/control.go runs HandleVisitor on a bare goroutine: a panic there ends frps
			defer func() {
				if r := recover(); r != nil {
					s.setPanic(fmt.Sprint(r))
				}
			}()
			st.ctl.HandleVisitor(m, s.tv, user)
		}()
		deadline := time.Now().Add(3 * time.Second)
		for time.Now().Before(deadline) {
			if p := s.panicked(); p != "" {
				return p
			}
			if s.tv.count() > 0 {
				s.tv.mu.Lock()
				e := errClass(s.tv.msgs[0].Error)
				s.tv.mu.Unlock()
				return "err:" + e
			}
			for _, x := range st.ctl.VerifSessions() {
				if !before[x] {
					s.sid = x
					st.bySid[x] = s
					st.last = time.Now() // the notify send is bounded by NatHoleTimeout from here
					return "created"
				}
			}
			time.Sleep(20 * time.Microsecond)
		}
		return "hang"
	case "notify":
		ch, ok := st.chans[unhx(tok[1])]
		if !ok {
			return "none"
		}
		wait := 10 * time.Millisecond // no handler can be sending on this channel: only a spurious send would show
		before := map[*natSess]int{}
		liveSids := map[string]bool{}
		for _, x := range st.ctl.VerifSessions() {
			liveSids[x] = true
		}
		for _, s := range st.sess {
			if s.sid != "" && s.ch == ch && !s.notified && liveSids[s.sid] {
				wait = 500 * time.Millisecond
				before[s] = s.tv.count() + s.tc[0].count() + s.tc[1].count()
			}
		}
		select {
		case sid := <-ch:
			s, ok := st.bySid[sid]
			if !ok {
				return "n?"
			}
			s.notified = true
			s.at = time.Now()
			st.last = s.at
			if s.cliSeen {
				// notifyCh already holds a token: the handler goes straight to the analysis
				s.answered = true
				if r := st.awaitFirst(s, before[s]); r != "ok" {
					if strings.HasPrefix(r, "PANIC:") {
						return r
					}
					return "n" + strconv.Itoa(s.id) + ":" + r
				}
			}
			return "n" + strconv.Itoa(s.id)
		case <-time.After(wait):
			return "none"
		}
	case "cli":
		id, k := atoi(tok[1]), atoi(tok[2])
		s, ok := st.sess[id]
		if !ok || s.sid == "" {
			st.ctl.HandleClient(&msg.NatHoleClient{TransactionID: "tc" + tok[1], Sid: "nosuchsid" + tok[1],
				MappedAddrs: unlist(tok[3]), AssistedAddrs: unlist(tok[4])}, newCapT())
			return "unknown"
		}
		before := s.tv.count() + s.tc[0].count() + s.tc[1].count()
		live := false
		for _, x := range st.ctl.VerifSessions() {
			if x == s.sid {
				live = true
			}
		}
		st.ctl.HandleClient(&msg.NatHoleClient{TransactionID: "tc" + tok[1], Sid: s.sid,
			MappedAddrs: unlist(tok[3]), AssistedAddrs: unlist(tok[4])}, s.tc[k])
		if !live {
			return "unknown"
		}
		if !s.answered {
			s.cliSeen = true
		}
		if !s.notified || s.answered {
			return "late"
		}
		s.answered = true
		st.last = time.Now()
		return st.awaitFirst(s, before)
	case "report":
		id := atoi(tok[1])
		s, ok := st.sess[id]
		sid := "nosuchsid" + tok[1]
		if ok && s.sid != "" {
			sid = s.sid
		}
		key, mode, index, found := st.ctl.VerifSessionInfo(sid)
		before := st.snap()
		st.ctl.HandleReport(&msg.NatHoleReport{Sid: sid, Success: tok[2] == "1"})
		after := st.snap()
		// u = no such session stored, 0 = stored but not analysed (no analysis key yet: before the owner's
		// NatHoleClient was analysed, or the analysis failed), 1 = analysed
		state, own := "u", ""
		if found {
			state = "0"
			if key != "" {
				state, own = "1", key
			}
		}
		sc, _ := st.ctl.VerifAnalyzer().VerifScores(key)
		if !found {
			sc = nil
		}
		return fmt.Sprintf("%s#%d,%d#%s#%s", state, mode, index, scoresStr(sc), natFrame(before, after, own))
	case "adump":
		// the whole analyzer of the controller: number of keys and every score list (sorted as strings)
		out := []string{}
		for k := range st.keys {
			if sc, ok := st.ctl.VerifAnalyzer().VerifScores(k); ok {
				out = append(out, scoresStr(sc))
			}
		}
		sort.Strings(out)
		n := st.ctl.VerifAnalyzer().VerifRecordCount()
		r := strconv.Itoa(n) + ":" + strings.Join(out, "/")
		if n != len(out) {
			r += "!untracked"
		}
		return r
	case "settle":
		// NatHoleTimeout (1 s) and the 1 s delay before the sender's response both elapse
		if os.Getenv("NAT_TIMING") != "" && !st.round.IsZero() {
			fmt.Fprintf(os.Stderr, "nat round: %d ms before settle\n", time.Since(st.round).Milliseconds())
		}
		st.round = time.Time{}
		if d := time.Until(st.last.Add(1300 * time.Millisecond)); d > 0 {
			time.Sleep(d)
		}
		if p := st.anyPanic(); p != "" {
			return p
		}
		ids := []int{}
		for _, sid := range st.ctl.VerifSessions() {
			if s, ok := st.bySid[sid]; ok {
				if !st.isStuck(s) {
					ids = append(ids, s.id)
				}
			} else {
				ids = append(ids, -1)
			}
		}
		sort.Ints(ids)
		out := []string{}
		for _, i := range ids {
			out = append(out, strconv.Itoa(i))
		}
		if len(out) == 0 {
			return "live=-"
		}
		return "live=" + strings.Join(out, ",")
	case "stuck":
		ids := []int{}
		for _, sid := range st.ctl.VerifSessions() {
			if s, ok := st.bySid[sid]; ok && st.isStuck(s) {
				ids = append(ids, s.id)
			}
		}
		sort.Ints(ids)
		out := []string{}
		for _, i := range ids {
			out = append(out, strconv.Itoa(i))
		}
		if len(out) == 0 {
			return "-"
		}
		return strings.Join(out, ",")
	case "resp", "rangechk":
		s, ok := st.sess[atoi(tok[1])]
		if !ok {
			return "unknown"
		}
		if p := s.panicked(); p != "" {
			return p
		}
		return "V=" + st.respsStr(s.tv) + "#C0=" + st.respsStr(s.tc[0]) + "#C1=" + st.respsStr(s.tc[1])
	}
	return "bad-op"
}

// ---------------------------------------------------------------- generator

var natIPs = []string{"1.2.3.4", "1.2.3.5", "9.9.9.9", "192.168.1.7", "10.0.0.2", "[::1]", "", "host.example"}
var natBasePorts = []int{1, 3, 7, 80, 1000, 40000, 65529, 65532, 65535}
var natBadPorts = []string{"0", "-5", "65536", "70000", "99999", "+80", "0080", "-0"}
var natMalformed = []string{"nocolon", "1.2.3.4:", "1.2.3.4:abc", "[::1]", "[::1]x:80", "1:2:3", "1.2.3.4:8_0",
	"1.2.3.4:99999999999999999999", "[1.2.3.4:80", "1.2.3.4]:80", "[::1]:80:90", "", ":", "[]:5", "1.2.3.4:9223372036854775808",
	"1.2.3.4:-9223372036854775808", "[a[b]:7", "1.2.3.4: 80"}

// natLongAddrs: a list of n (3..6) entries whose first entries decide the NAT type — prefix 0 same address,
// 1 port-only change, 2 IP-only change, 3 IP and port change at entry 1, 4 IP change at entry 1 and port change at
// entry 2 — with entry badPos (if 0 <= badPos < n) replaced by `bad` (natBadEntry): a malformed / unparsable address
// or one with a port outside 1..65535.  Every entry is validated by ClassifyNATFeature, also those after the point where the
// type is already decided.
// natMutSig: the SignKey a visitor SUPPLIES, derived from the right one for (sk, timestamp) — the signature as a
// class of strings, not only "right or computed from other inputs":
//
//	x        as it is                      p<k>  its first k characters (k = 0: empty)    t<k>  without its first k
//	s<hex>   followed by these bytes       d<k>  without character k                      u     in upper case
//	f<k>     character k replaced by another hex digit                                   l<hex> this literal instead
//	g<k>     its first k characters, the rest replaced by 'z' (same length)
func natMutSig(sig, mut string) string {
	if mut == "" {
		return sig
	}
	arg := mut[1:]
	k, _ := strconv.Atoi(arg)
	if k < 0 {
		k = 0
	}
	if k > len(sig) {
		k = len(sig)
	}
	unh := func(h string) string {
		b, err := hex.DecodeString(h)
		if err != nil {
			return ""
		}
		return string(b)
	}
	switch mut[0] {
	case 'p':
		return sig[:k]
	case 't':
		return sig[k:]
	case 's':
		return sig + unh(arg)
	case 'l':
		return unh(arg)
	case 'u':
		return strings.ToUpper(sig)
	case 'd':
		if k < len(sig) {
			return sig[:k] + sig[k+1:]
		}
		return sig
	case 'f':
		if k < len(sig) {
			c := byte('0')
			if sig[k] == '0' {
				c = '1'
			}
			return sig[:k] + string(c) + sig[k+1:]
		}
		return sig
	case 'g':
		return sig[:k] + strings.Repeat("z", len(sig)-k)
	}
	return sig
}

// natSigMut draws a signature mutation: every class, every length / position
func natSigMut(rng *rand.Rand) string {
	switch rng.Intn(12) {
	case 0: // a proper prefix, short ones and "all but the last few" more often than the middle
		return "p" + strconv.Itoa(pick(rng, []int{0, 1, 1, 2, 3, 8, 16, 24, 29, 30, 31, 31, rng.Intn(32), rng.Intn(32)}))
	case 1:
		return "p" + strconv.Itoa(rng.Intn(32))
	case 2: // the right signature followed by something
		return "s" + pick(rng, []string{"00", "30", "20", "0a", "7a", "3030", "00000000", hex.EncodeToString([]byte("0123456789abcdef0123456789abcdef"))})
	case 3:
		return "s" + hex.EncodeToString([]byte{byte(rng.Intn(256))})
	case 4: // a proper suffix
		return "t" + strconv.Itoa(1+rng.Intn(31))
	case 5:
		return "d" + strconv.Itoa(rng.Intn(32))
	case 6, 7: // same length, one character wrong — at every position
		return "f" + strconv.Itoa(pick(rng, []int{0, 31, rng.Intn(32), rng.Intn(32)}))
	case 8: // same length, right up to position k
		return "g" + strconv.Itoa(rng.Intn(32))
	case 9:
		return "u"
	case 10: // something else altogether: no signature, junk of the right / another length, not hex
		return "l" + hex.EncodeToString([]byte(pick(rng, []string{"", " ", "0", "z", "00000000000000000000000000000000",
			"d41d8cd98f00b204e9800998ecf8427e", "zzzzzzzzzzzzzzzzzzzzzzzzzzzzzzzz", "\x00", "*"})))
	}
	return "x"
}

func natLongAddrs(rng *rand.Rand, n, prefix int, ip string, badPos int, bad string) []string {
	p := pick(rng, []int{7, 80, 1000, 4000, 40000, 65520})
	ip2 := ip
	for ip2 == ip {
		ip2 = pick(rng, natIPs[:6])
	}
	step := 1 + rng.Intn(12)
	out := []string{}
	for i := 0; i < n; i++ {
		h, q := ip, p
		switch prefix {
		case 1:
			q = p + i*step%15
			if i == 1 {
				q = p + 1
			}
		case 2:
			if i > 0 {
				h = ip2
			}
		case 3:
			if i > 0 {
				h, q = ip2, p+1+(i-1)*step%15
			}
		case 4:
			if i > 0 {
				h = ip2
			}
			if i > 1 {
				q = p + 1 + (i-2)*step%15
			}
		}
		if i == badPos {
			if strings.HasPrefix(bad, "\x00") {
				out = append(out, h+":"+bad[1:]) // a bad port on the host this position would have had
			} else {
				out = append(out, bad)
			}
		} else {
			out = append(out, h+":"+strconv.Itoa(q))
		}
	}
	return out
}

func natBadEntry(rng *rand.Rand) string {
	if rng.Intn(2) == 0 {
		return "\x00" + pick(rng, natBadPorts) // marker: a port for natLongAddrs to put on the position's host
	}
	return pick(rng, natMalformed)
}

// one mapped-address list; kind: 0 easy, 1 hard regular ports, 2 hard irregular ports, 3 ip changed, 4 both,
// 5 out-of-range port, 6 malformed member, 7 short list, 8 long list (natLongAddrs) with one bad entry anywhere
// (1 in 5: none)
func natAddrs(rng *rand.Rand, kind int, ip string) []string {
	if kind == 8 {
		n := 3 + rng.Intn(4)
		pos := rng.Intn(n)
		if rng.Intn(5) == 0 {
			pos = -1
		}
		if ip == "" || ip == "host.example" {
			ip = "1.2.3.4"
		}
		return natLongAddrs(rng, n, rng.Intn(5), ip, pos, natBadEntry(rng))
	}
	p := pick(rng, natBasePorts)
	ps := strconv.Itoa(p)
	ip2 := pick(rng, natIPs)
	n := 2 + rng.Intn(2)
	out := []string{}
	for i := 0; i < n; i++ {
		switch kind {
		case 0:
			out = append(out, ip+":"+ps)
		case 1:
			out = append(out, ip+":"+strconv.Itoa(p+i*(1+rng.Intn(2))))
		case 2:
			out = append(out, ip+":"+strconv.Itoa(p+i*(6+rng.Intn(30))))
		case 3:
			if i == 0 {
				out = append(out, ip+":"+ps)
			} else {
				out = append(out, ip2+":"+ps)
			}
		case 4:
			if i == 0 {
				out = append(out, ip+":"+ps)
			} else {
				out = append(out, ip2+":"+strconv.Itoa(p+i))
			}
		case 5:
			bp := pick(rng, natBadPorts)
			if rng.Intn(2) == 0 {
				out = append(out, ip+":"+bp)
			} else if i == 0 {
				out = append(out, ip+":"+bp)
			} else {
				// neighbouring out-of-range ports (regular change above 65535 or below 1)
				v, _ := strconv.Atoi(bp)
				out = append(out, ip+":"+strconv.Itoa(v+i))
			}
		case 6:
			if i == rng.Intn(n) || i == n-1 {
				out = append(out, pick(rng, natMalformed))
			} else {
				out = append(out, ip+":"+ps)
			}
		case 7:
			if i == 0 && rng.Intn(2) == 0 {
				out = append(out, ip+":"+ps)
			}
		}
	}
	if kind == 7 && len(out) > 1 {
		out = out[:1]
	}
	return out
}

func natKind(rng *rand.Rand) int {
	r := rng.Intn(112)
	switch {
	case r >= 100:
		return 8
	case r < 30:
		return 0
	case r < 55:
		return 1
	case r < 68:
		return 2
	case r < 76:
		return 3
	case r < 82:
		return 4
	case r < 90:
		return 5
	case r < 96:
		return 6
	}
	return 7
}

func natAssisted(rng *rand.Rand, mapped []string) []string {
	out := []string{}
	switch rng.Intn(5) {
	case 0:
	case 1:
		out = append(out, "192.168.1.7:5000")
	case 2:
		out = append(out, "10.0.0.2:6000", "10.0.0.2:6000", "192.168.1.7:5000")
	case 3:
		if len(mapped) > 0 { // public network: an assisted (local) IP equals a mapped IP
			out = append(out, mapped[0])
		}
	case 4:
		out = append(out, pick(rng, natMalformed), "10.0.0.2:6000")
	}
	return out
}

func natAnyOutOfRange(addrs []string) bool {
	for _, a := range addrs {
		_, p, err := net.SplitHostPort(a)
		if err != nil {
			continue
		}
		v, err := strconv.Atoi(p)
		if err == nil && (v < 1 || v > 65535) {
			return true
		}
	}
	return false
}

func natPortsOutOfRange(addrs []string) bool {
	// mirrors what the Lean engine recomputes from the last address; only a label for known-finding matching
	if len(addrs) == 0 {
		return false
	}
	a := addrs[len(addrs)-1]
	return natAnyOutOfRange([]string{a})
}

// natWalkRound: a fresh controller and, for each of the six feature-pair classes of NewMakeHoleRecords (easy/easy,
// hard/easy with irregular and with regular ports, hard/hard with both / one / no side regular), as many sessions of
// ONE address pair as its score list has rows plus one, none of them credited a success: the key walks down every
// row of every table it may use (mode 0 rows 6..9 with their 5 s / 10 s send delays included), in either
// orientation, and `rangechk` judges the two responses of every one of them (roles, ranges, timing).
func natWalkRound(rng *rand.Rand, e func(string)) {
	e("reset")
	e(fmt.Sprintf("listen %s %s %s", hx("px"), hx("sk"), mklist([]string{"*"})))
	addrs := func(kind byte, ip string, p int) []string {
		a := ip + ":" + strconv.Itoa(p)
		switch kind {
		case 'r':
			return []string{a, ip + ":" + strconv.Itoa(p+1+rng.Intn(4))}
		case 'i':
			return []string{a, ip + ":" + strconv.Itoa(p+8+rng.Intn(40))}
		}
		return []string{a, a}
	}
	classes := []struct {
		a, b byte
		rows int
	}{{'e', 'e', 10}, {'i', 'e', 19}, {'r', 'e', 19}, {'r', 'r', 9}, {'r', 'i', 3}, {'i', 'i', 22}}
	scripts := [][]string{}
	id := 0
	ids := []int{}
	for ci, c := range classes {
		vk, ck := c.a, c.b
		if rng.Intn(2) == 0 {
			vk, ck = ck, vk
		}
		vip, cip := fmt.Sprintf("1.2.3.%d", 10+ci), fmt.Sprintf("9.9.9.%d", 10+ci)
		vp, cp := pick(rng, []int{80, 1000, 40000}), pick(rng, []int{443, 5000, 60000})
		pub := rng.Intn(3) // 1: the visitor is on the public network, 2: the owner is (another order of the mode 0 rows)
		for j := 0; j <= c.rows; j++ {
			vm, cm := addrs(vk, vip, vp), addrs(ck, cip, cp)
			va, ca := []string{"192.168.1.7:5000"}, []string{}
			if pub == 1 {
				va = []string{vm[0]}
			} else if pub == 2 {
				ca = []string{cm[0]}
			}
			sc := []string{
				fmt.Sprintf("visit %d %s %s %d %d %s %s %s %s", id, hx("px"), hx("sk"), 12, 12, hx("alice"), hx("quic"), mklist(vm), mklist(va)),
				"notify " + hx("px"),
				fmt.Sprintf("cli %d 0 %s %s", id, mklist(cm), mklist(ca)),
			}
			if rng.Intn(4) == 0 {
				sc = append(sc, fmt.Sprintf("report %d 0", id)) // a failure report credits nothing
			}
			scripts = append(scripts, sc)
			ids = append(ids, id)
			id++
		}
	}
	// within a class the sessions stay in order (the scripts of one class are consecutive and the window is 2)
	for len(scripts) > 0 {
		w := len(scripts)
		if w > 2 {
			w = 2
		}
		i := rng.Intn(w)
		e(scripts[i][0])
		scripts[i] = scripts[i][1:]
		if len(scripts[i]) == 0 {
			scripts = append(scripts[:i], scripts[i+1:]...)
		}
	}
	e("settle")
	e("stuck")
	for _, id := range ids {
		e(fmt.Sprintf("resp %d inr", id))
		e(fmt.Sprintf("rangechk %d inr", id))
	}
	e("adump")
	e("reset")
}

func natGen(rng *rand.Rand, n int, emit func(string)) {
	emit("reset")
	feats := []string{"e00", "e01", "h00", "h10", "h01", "h11", "e10"}
	keys := []string{"k1", "k2", "k3", "", "k4"}
	names := []string{"px", "py", "pz"}
	sks := []string{"sk", "sk1", "other", ""}
	users := []string{"alice", "bob", ""}
	emitted := 0
	e := func(s string) { emit(s); emitted++ }
	nextID := 0
	rounds := 0
	for emitted < n {
		r := rng.Intn(62)
		if rounds*300 < emitted { // a controller round costs ~1.3 s of wall time: about one per 300 ops
			r = 99
			rounds++
		}
		switch {
		case r < 22 && rng.Intn(4) == 0: // classification, systematic: one bad entry at EVERY position of a long list,
			// for every type-deciding prefix (and the same lists without the bad entry)
			n := 3 + rng.Intn(4)
			ip := pick(rng, natIPs[:4])
			for prefix := 0; prefix < 5; prefix++ {
				for pos := -1; pos < n; pos++ {
					if pos == -1 && rng.Intn(2) == 0 {
						continue
					}
					m := natLongAddrs(rng, n, prefix, ip, pos, natBadEntry(rng))
					e("classify " + mklist(m) + " " + mklist([]string{pick(rng, natIPs[:4])}))
				}
			}
		case r < 22: // classification
			for j := 0; j < 6; j++ {
				m := natAddrs(rng, natKind(rng), pick(rng, natIPs))
				loc := []string{}
				for _, a := range natAssisted(rng, m) {
					if i := strings.LastIndex(a, ":"); i >= 0 {
						loc = append(loc, strings.Trim(a[:i], "[]"))
					}
				}
				e("classify " + mklist(m) + " " + mklist(loc))
			}
		case r < 40: // port ranges
			for j := 0; j < 6; j++ {
				m := natAddrs(rng, natKind(rng), pick(rng, natIPs))
				diff := rng.Intn(8)
				if rng.Intn(10) == 0 {
					diff = 20 + rng.Intn(100)
				}
				maxn := pick(rng, []int{0, 2, 10, 10, 10, 1, 100})
				tag := "inr"
				if natPortsOutOfRange(m) {
					tag = "oor"
				}
				e(fmt.Sprintf("range %s %s %d %d", tag, mklist(m), diff, maxn))
			}
		case r < 62: // analyzer histories on few keys: long runs so that scores go far down and come back
			key := pick(rng, keys)
			cf, vf := pick(rng, feats), pick(rng, feats)
			if rng.Intn(3) > 0 { // keep the features of a key stable most of the time
				cf, vf = feats[len(key)%len(feats)], feats[(len(key)*3+1)%len(feats)]
				if key == "k2" {
					cf, vf = "h10", "e00"
				} else if key == "k3" {
					cf, vf = "h10", "h10"
				} else if key == "k4" {
					cf, vf = "h10", "h00"
				}
			}
			for j := 0; j < 4+rng.Intn(14); j++ {
				if rng.Intn(3) == 0 {
					e(fmt.Sprintf("succ %s %d %d", hx(key), rng.Intn(6), rng.Intn(11)))
				} else {
					e(fmt.Sprintf("rec %s %s %s", hx(key), cf, vf))
				}
			}
			if rng.Intn(12) == 0 {
				e("reset")
			}
		default: // one controller round
			if rounds == 1 || rounds%8 == 0 {
				natWalkRound(rng, e)
				nextID = 0
				continue
			}
			for _, nm := range names {
				switch r := rng.Intn(20); {
				case r < 17:
					allow := pick(rng, []string{"-", mklist([]string{"alice"}), mklist([]string{"*"}), mklist([]string{"bob", "alice"})})
					cfgSk := "sk"
					if rng.Intn(6) == 0 {
						cfgSk = "sk1"
					}
					e(fmt.Sprintf("listen %s %s %s", hx(nm), hx(cfgSk), allow))
				case r < 19:
					e("close " + hx(nm))
				}
			}
			for j := rng.Intn(3); j > 0; j-- {
				e(fmt.Sprintf("precheck %s %s", hx(pick(rng, names)), hx(pick(rng, users))))
			}
			// Sessions of one round: every session is a script "visit, then owner / reporter events in any
			// order" and the scripts are interleaved.  The classes of schedules produced (all are legal inputs of
			// the controller: HandleVisitor, HandleClient and HandleReport run on independent goroutines of
			// two or three controls):
			//   - report before the owner was notified / between notify and NatHoleClient / after the responses
			//     / after an error response (analysis failed, session kept) / for a session that timed out /
			//     twice / with Success false / for ids that never existed or are not created yet
			//   - NatHoleClient before the notify was received, never, twice through the same control with
			//     other addresses, again through another control (before or after the analysis)
			//   - the proxy closed (and re-opened) between lookup and notify
			// A focus address pair per round makes the same analysis key recur, so that controller-level
			// histories (scores going down by recommendations and up by reports) get deep.
			k := 8 + rng.Intn(20)
			ids := []int{}
			oor := map[int]bool{}
			type pairT struct {
				vk, ck   int
				vip, cip string
			}
			focus := pairT{rng.Intn(3), rng.Intn(3), pick(rng, natIPs[:2]), pick(rng, natIPs[2:4])}
			scripts := [][]string{}
			for j := 0; j < k; j++ {
				id := nextID
				nextID++
				ids = append(ids, id)
				nm := pick(rng, names)
				sk := pick(rng, sks)
				if rng.Intn(4) > 0 {
					sk = "sk"
				}
				ts := int64(pick(rng, []int{1, 12, 1700000000, 0, -3}))
				tsUsed := ts
				switch rng.Intn(12) {
				case 0:
					tsUsed = ts + 1
				case 1: // concatenation ambiguity of GetAuthKey: ("sk1", 2) vs ("sk", 12)
					sk, tsUsed, ts = "sk1", 2, 12
				}
				pr := pairT{natKind(rng), natKind(rng), pick(rng, natIPs[:2]), pick(rng, natIPs[2:4])}
				if rng.Intn(3) > 0 {
					pr.vk = rng.Intn(3)
				}
				if rng.Intn(3) > 0 {
					pr.ck = rng.Intn(3)
				}
				if rng.Intn(2) == 0 {
					pr = focus
				}
				vm := natAddrs(rng, pr.vk, pr.vip)
				oor[id] = natAnyOutOfRange(vm)
				// the SignKey supplied: the right one for (sk, tsUsed) or — a third of the visits — a string derived
				// from it (prefix, suffix, extension, one character off, other case, junk); then secret and timestamp
				// are mostly the proxy's, so that the derived string is the only reason to refuse
				mut := "x"
				if rng.Intn(3) == 0 {
					mut = natSigMut(rng)
					if rng.Intn(5) > 0 {
						sk, tsUsed = "sk", ts
					}
				}
				sc := []string{fmt.Sprintf("visit %d %s %s %d %d %s %s %s %s %s", id, hx(nm), hx(sk), tsUsed, ts, hx(pick(rng, users)),
					hx(pick(rng, []string{"quic", "kcp", ""})), mklist(vm), mklist(natAssisted(rng, vm)), mut)}
				// owner-side events after the visit
				ev := []string{}
				switch rng.Intn(10) {
				case 0: // the proxy closes between lookup and notify: nobody will ever receive
					ev = append(ev, "close "+hx(nm))
					if rng.Intn(5) > 0 { // … and comes back (new sidCh)
						ev = append(ev, fmt.Sprintf("listen %s %s %s", hx(nm), hx("sk"), mklist([]string{"*"})))
					}
				case 1: // not received yet
				default:
					ev = append(ev, "notify "+hx(nm))
				}
				ncli := pick(rng, []int{0, 1, 1, 1, 1, 1, 1, 2, 2, 3})
				firstCli := true
				for c := 0; c < ncli; c++ {
					cm := natAddrs(rng, pr.ck, pr.cip)
					if !firstCli && rng.Intn(2) == 0 { // a repeated NatHoleClient need not repeat the addresses
						cm = natAddrs(rng, natKind(rng), pick(rng, natIPs[2:4]))
					}
					if firstCli {
						oor[id] = oor[id] || natAnyOutOfRange(cm)
					}
					tr := 0
					if !firstCli && rng.Intn(2) == 0 {
						tr = 1
					}
					line := fmt.Sprintf("cli %d %d %s %s", id, tr, mklist(cm), mklist(natAssisted(rng, cm)))
					if firstCli && rng.Intn(12) == 0 && len(ev) > 0 {
						// the NatHoleClient overtakes the notify (the token waits in notifyCh)
						ev = append([]string{line}, ev...)
					} else {
						ev = append(ev, line)
					}
					firstCli = false
				}
				// reports: any number, anywhere after the visit
				for r := pick(rng, []int{0, 0, 1, 1, 1, 2, 2, 3}); r > 0; r-- {
					succ := 1
					if rng.Intn(4) == 0 {
						succ = 0
					}
					at := rng.Intn(len(ev) + 1)
					ev = append(ev[:at], append([]string{fmt.Sprintf("report %d %d", id, succ)}, ev[at:]...)...)
				}
				scripts = append(scripts, append(sc, ev...))
			}
			// unknown ids: never created, or not created yet (the id of a later round)
			extra := []string{}
			if rng.Intn(3) == 0 {
				extra = append(extra, fmt.Sprintf("cli %d 0 - -", nextID+1000))
			}
			if rng.Intn(2) == 0 {
				extra = append(extra, fmt.Sprintf("report %d %d", nextID+rng.Intn(3), rng.Intn(2)))
			}
			if rng.Intn(3) == 0 {
				extra = append(extra, fmt.Sprintf("report %d 1", nextID+1000))
			}
			if rng.Intn(4) == 0 {
				extra = append(extra, "notify "+hx(pick(rng, names)))
			}
			if len(extra) > 0 {
				scripts = append(scripts, extra)
			}
			// interleave: the next event comes from one of the (up to) four oldest unfinished scripts
			for len(scripts) > 0 {
				w := len(scripts)
				if w > 4 {
					w = 4
				}
				i := rng.Intn(w)
				e(scripts[i][0])
				scripts[i] = scripts[i][1:]
				if len(scripts[i]) == 0 {
					scripts = append(scripts[:i], scripts[i+1:]...)
				}
			}
			if rng.Intn(2) == 0 {
				e("adump")
			}
			e("settle")
			e("stuck")
			for _, id := range ids {
				tag := "inr"
				if oor[id] {
					tag = "oor"
				}
				e(fmt.Sprintf("resp %d %s", id, tag))
				e(fmt.Sprintf("rangechk %d %s", id, tag))
				// late events: reports (once, twice) and a late NatHoleClient for a completed, failed or expired session
				for r := pick(rng, []int{0, 0, 0, 1, 1, 2}); r > 0; r-- {
					e(fmt.Sprintf("report %d %d", id, pick(rng, []int{1, 1, 1, 0})))
				}
				if rng.Intn(12) == 0 {
					e(fmt.Sprintf("cli %d %d - -", id, rng.Intn(2)))
					e(fmt.Sprintf("resp %d %s", id, tag))
				}
			}
			e("adump")
			if rng.Intn(10) == 0 {
				e("reset")
				nextID = 0
			}
		}
	}
}

func init() { register(&Engine{Name: "nat", Gen: natGen, Exec: natExec}) }
