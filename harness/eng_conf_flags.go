package main

// Command-line flag part of engine "conf" (C18).
//
//	fl <group> <ssh> <form>:<name>:<hexvalue> …   => ok Field=val … | err
//	    group = p:<proxy type> | v:<visitor type> | s
//	    a cobra command is built exactly as cmd/frpc/sub/proxy.go (client common + proxy flags; the
//	    visitor sub-command below it) or cmd/frps/root.go (server flags) build theirs, with the REAL
//	    config.Register*Flags and config.WordSepNormalizeFunc; argv is parsed with cmd.ParseFlags; the
//	    result lists the fields of the bound structs (client common fields under "Client.")
//	    form: e  --name=value | s  --name value | b  --name | h  -x=value | g  -x value
//	usg <group> <ssh>                             => name|short|type|hexdefault,…   (sorted by name)
//	    what the registered command itself reports (pflag VisitAll after the usage text was rendered)
//	dfl <group>                                   => same | differ Field,…
//	    defaults: empty argv + Complete against an empty document loaded from disk (which completes)

import (
	"io"
	"math/rand"
	"os"
	"path/filepath"
	"reflect"
	"sort"
	"strings"

	"github.com/spf13/cobra"
	"github.com/spf13/pflag"

	"github.com/fatedier/frp/pkg/config"
	"github.com/fatedier/frp/pkg/config/types"
	v1 "github.com/fatedier/frp/pkg/config/v1"
)

var clientFlagFields = []string{"ServerAddr", "ServerPort", "Transport.Protocol", "Log.Level", "Log.To", "Log.MaxDays",
	"Log.DisablePrintColor", "Transport.TLS.ServerName", "DNSServer", "Transport.TLS.Enable", "User", "Auth.Token"}

var visitorFlagFields = []string{"Name", "Transport.UseEncryption", "Transport.UseCompression", "SecretKey", "ServerName",
	"ServerUser", "BindAddr", "BindPort"}

var serverFlagFields = []string{"BindAddr", "BindPort", "KCPBindPort", "QUICBindPort", "ProxyBindAddr", "VhostHTTPPort",
	"VhostHTTPSPort", "VhostHTTPTimeout", "WebServer.Addr", "WebServer.Port", "WebServer.User", "WebServer.Password",
	"EnablePrometheus", "Log.To", "Log.Level", "Log.MaxDays", "Log.DisablePrintColor", "Auth.Token", "SubDomainHost",
	"AllowPorts", "MaxPortsPerClient", "Transport.TLS.Force", "WebServer.TLS.CertFile", "WebServer.TLS.KeyFile"}

// proxyFlagFields: every modelled field of the type except Type, plus the backend port
func proxyFlagFields(t string) []string {
	out := []string{}
	for _, f := range confFields(t) {
		if f != "Type" {
			out = append(out, f)
		}
	}
	return append(out, "LocalPort")
}

// fieldByPathSafe follows pointers; an invalid Value means "below a nil pointer"
func fieldByPathSafe(v reflect.Value, path string) reflect.Value {
	for _, p := range strings.Split(path, ".") {
		for v.Kind() == reflect.Ptr {
			if v.IsNil() {
				return reflect.Value{}
			}
			v = v.Elem()
		}
		v = v.FieldByName(p)
		if !v.IsValid() {
			panic("no field " + path)
		}
	}
	return v
}

var portsRangeSliceType = reflect.TypeOf([]types.PortsRange{})

// encAny: encValue extended to the kinds that occur in the common / server structs
func encAny(v reflect.Value) string {
	if !v.IsValid() {
		return "z"
	}
	if v.Type() == portsRangeSliceType {
		s := types.PortsRangeSlice(v.Interface().([]types.PortsRange)).String()
		if s == "" {
			return "z"
		}
		return "s" + hx(s)[1:]
	}
	switch v.Kind() {
	case reflect.Ptr:
		if v.IsNil() {
			return "z"
		}
		return encAny(v.Elem())
	case reflect.Int64:
		if v.Int() == 0 {
			return "z"
		}
		return "i" + itoa64(v.Int())
	}
	return encValue(v)
}

func itoa64(n int64) string {
	b, neg := []byte{}, n < 0
	u := uint64(n)
	if neg {
		u = uint64(-n)
	}
	if u == 0 {
		return "0"
	}
	for u > 0 {
		b = append([]byte{byte('0' + u%10)}, b...)
		u /= 10
	}
	if neg {
		return "-" + string(b)
	}
	return string(b)
}

type flagCmd struct {
	cmd     *cobra.Command // the command whose flags are parsed
	proxy   v1.ProxyConfigurer
	visitor v1.VisitorConfigurer
	client  *v1.ClientCommonConfig
	server  *v1.ServerConfig
}

func quiet(c *cobra.Command) *cobra.Command {
	c.SetOut(io.Discard)
	c.SetErr(io.Discard)
	c.SilenceErrors, c.SilenceUsage = true, true
	return c
}

func buildFlagCmd(group string, ssh bool) *flagCmd {
	opts := []config.RegisterFlagOption{}
	if ssh {
		opts = append(opts, config.WithSSHMode())
	}
	fc := &flagCmd{}
	switch {
	case group == "s":
		fc.server = &v1.ServerConfig{}
		fc.cmd = quiet(&cobra.Command{Use: "frps"})
		config.RegisterServerConfigFlags(fc.cmd, fc.server, opts...)
		fc.cmd.SetGlobalNormalizationFunc(config.WordSepNormalizeFunc)
	case strings.HasPrefix(group, "p:"), strings.HasPrefix(group, "v:"):
		t := group[2:]
		fc.proxy = v1.NewProxyConfigurerByType(v1.ProxyType(t))
		if fc.proxy == nil {
			panic("proxy type " + t)
		}
		fc.client = &v1.ClientCommonConfig{}
		parent := quiet(&cobra.Command{Use: t})
		config.RegisterClientCommonConfigFlags(parent, fc.client, opts...)
		config.RegisterProxyFlags(parent, fc.proxy, opts...)
		fc.cmd = parent
		if group[0] == 'v' {
			fc.visitor = v1.NewVisitorConfigurerByType(v1.VisitorType(t))
			if fc.visitor == nil {
				panic("visitor type " + t)
			}
			child := quiet(&cobra.Command{Use: "visitor"})
			config.RegisterVisitorFlags(child, fc.visitor, opts...)
			parent.AddCommand(child)
			fc.cmd = child
		}
		parent.SetGlobalNormalizationFunc(config.WordSepNormalizeFunc)
	default:
		panic("flag group " + group)
	}
	return fc
}

func flagArgv(toks []string) []string {
	argv := []string{}
	for _, t := range toks {
		p := strings.SplitN(t, ":", 3)
		name, val := p[1], unhx("x"+p[2])
		switch p[0] {
		case "e":
			argv = append(argv, "--"+name+"="+val)
		case "s":
			argv = append(argv, "--"+name, val)
		case "b":
			argv = append(argv, "--"+name)
		case "h":
			argv = append(argv, "-"+name+"="+val)
		case "g":
			argv = append(argv, "-"+name, val)
		default:
			panic("flag form " + p[0])
		}
	}
	return argv
}

func (fc *flagCmd) dump(group string) string {
	out := []string{"ok"}
	put := func(prefix string, root any, fields []string) {
		rv := reflect.ValueOf(root).Elem()
		for _, f := range fields {
			out = append(out, prefix+f+"="+encAny(fieldByPathSafe(rv, f)))
		}
	}
	switch group[0] {
	case 's':
		put("", fc.server, serverFlagFields)
	case 'p':
		put("", fc.proxy, proxyFlagFields(group[2:]))
		put("Client.", fc.client, clientFlagFields)
	case 'v':
		put("", fc.visitor, visitorFlagFields)
		put("Client.", fc.client, clientFlagFields)
	}
	return strings.Join(out, " ")
}

func confFl(tok []string) string {
	group, ssh := tok[1], tok[2] == "1"
	fc := buildFlagCmd(group, ssh)
	if err := fc.cmd.ParseFlags(flagArgv(tok[3:])); err != nil {
		return "err"
	}
	return fc.dump(group)
}

func confUsg(tok []string) string {
	group, ssh := tok[1], tok[2] == "1"
	fc := buildFlagCmd(group, ssh)
	if err := fc.cmd.ParseFlags(nil); err != nil {
		return "err"
	}
	_ = fc.cmd.UsageString() // renders every flag: Type() and the default text of each value
	items := []string{}
	fc.cmd.Flags().VisitAll(func(f *pflag.Flag) {
		if f.Name == "help" {
			return
		}
		items = append(items, f.Name+"|"+f.Shorthand+"|"+f.Value.Type()+"|"+hx(f.DefValue)[1:])
	})
	sort.Strings(items)
	return strings.Join(items, ",")
}

// ---------------------------------------------------------------- defaults: flags against files

func diffFields(a, b reflect.Value, path string, out *[]string) {
	if a.Type() != b.Type() {
		*out = append(*out, path)
		return
	}
	switch a.Kind() {
	case reflect.Struct:
		if a.Type() == bwType {
			if !reflect.DeepEqual(a.Interface(), b.Interface()) {
				*out = append(*out, path)
			}
			return
		}
		for i := 0; i < a.NumField(); i++ {
			f := a.Type().Field(i)
			if !f.IsExported() {
				continue
			}
			p := f.Name
			if path != "" {
				p = path + "." + f.Name
			}
			diffFields(a.Field(i), b.Field(i), p, out)
		}
	case reflect.Ptr:
		if a.IsNil() != b.IsNil() {
			*out = append(*out, path)
		} else if !a.IsNil() {
			diffFields(a.Elem(), b.Elem(), path, out)
		}
	case reflect.Slice, reflect.Map:
		// nil and empty are one value here (stated normalisation)
		if a.Len() == 0 && b.Len() == 0 {
			return
		}
		if !reflect.DeepEqual(a.Interface(), b.Interface()) {
			*out = append(*out, path)
		}
	default:
		if !reflect.DeepEqual(a.Interface(), b.Interface()) {
			*out = append(*out, path)
		}
	}
}

func sameOrDiffer(a, b any) string {
	d := []string{}
	diffFields(reflect.ValueOf(a).Elem(), reflect.ValueOf(b).Elem(), "", &d)
	if len(d) == 0 {
		return "same"
	}
	return "differ " + strings.Join(d, ",")
}

var confTmpDir string

func confTmp() string {
	if confTmpDir == "" {
		d, err := os.MkdirTemp("", "frpverif-conf-")
		if err != nil {
			panic(err)
		}
		confTmpDir = d
	}
	return confTmpDir
}

func writeTmp(name, content string) string {
	p := filepath.Join(confTmp(), name)
	if err := os.MkdirAll(filepath.Dir(p), 0o755); err != nil {
		panic(err)
	}
	if err := os.WriteFile(p, []byte(content), 0o644); err != nil {
		panic(err)
	}
	return p
}

func confDfl(tok []string) string {
	group := tok[1]
	fc := buildFlagCmd(group, false)
	if err := fc.cmd.ParseFlags(nil); err != nil {
		return "err"
	}
	switch group[0] {
	case 's':
		doc := "# empty\n"
		if len(tok) > 2 && tok[2] == "bind" {
			// the same bind address on both sides, nothing else
			doc = "bindAddr = \"127.0.0.1\"\n"
			fc = buildFlagCmd(group, false)
			if err := fc.cmd.ParseFlags([]string{"--bind_addr=127.0.0.1"}); err != nil {
				return "err"
			}
		}
		fc.server.Complete() // cmd/frps/root.go: serverCfg.Complete() on the flag-built struct
		loaded, _, err := config.LoadServerConfig(writeTmp("dfl/frps.toml", doc), true)
		if err != nil {
			return "err:load"
		}
		return sameOrDiffer(fc.server, loaded)
	case 'p':
		t := group[2:]
		fc.client.Complete()
		fc.proxy.Complete(fc.client.User)
		fc.proxy.GetBaseConfig().Type = t
		c, ps, _, _, err := config.LoadClientConfig(writeTmp("dfl/frpc.toml", "[[proxies]]\nname = \"\"\ntype = \""+t+"\"\n"), true)
		if err != nil || len(ps) != 1 {
			return "err:load"
		}
		r := sameOrDiffer(fc.client, c)
		if r2 := sameOrDiffer(fc.proxy, ps[0]); r2 != "same" {
			if r == "same" {
				return r2
			}
			return r + ";proxy:" + strings.TrimPrefix(r2, "differ ")
		}
		return r
	case 'v':
		t := group[2:]
		fc.client.Complete()
		fc.visitor.Complete(fc.client)
		fc.visitor.GetBaseConfig().Type = t
		c, _, vs, _, err := config.LoadClientConfig(writeTmp("dfl/frpc.toml", "[[visitors]]\nname = \"\"\ntype = \""+t+"\"\n"), true)
		if err != nil || len(vs) != 1 {
			return "err:load"
		}
		r := sameOrDiffer(fc.client, c)
		if r2 := sameOrDiffer(fc.visitor, vs[0]); r2 != "same" {
			if r == "same" {
				return r2
			}
			return r + ";visitor:" + strings.TrimPrefix(r2, "differ ")
		}
		return r
	}
	panic("dfl group")
}

// ---------------------------------------------------------------- generator

type flagSpec struct{ name, short, kind string }

func specs(s string) []flagSpec {
	out := []flagSpec{}
	for _, e := range strings.Fields(s) {
		p := strings.Split(e, ":")
		out = append(out, flagSpec{p[0], p[1], p[2]})
	}
	return out
}

// the documented flags (kind: s string, i int, b bool, L list, m map, q bandwidth, R port ranges)
var (
	fsProxyBase = specs("proxy_name:n:s metadatas::m annotations::m local_ip:i:s local_port:l:i ue::b uc::b bandwidth_limit_mode::s bandwidth_limit::q")
	fsDomain    = specs("custom_domain:d:L sd::s")
	fsTyped     = map[string][]flagSpec{
		"tcp": specs("remote_port:r:i"), "udp": specs("remote_port:r:i"),
		"http":   append(fsDomain, specs("locations::L http_user::s http_pwd::s host_header_rewrite::s")...),
		"https":  fsDomain,
		"tcpmux": append(fsDomain, specs("mux::s http_user::s http_pwd::s")...),
		"stcp":   specs("sk::s allow_users::L"), "xtcp": specs("sk::s allow_users::L"), "sudp": specs("sk::s allow_users::L"),
	}
	fsVisitor = specs("visitor_name:n:s ue::b uc::b sk::s server_name::s server-user::s bind_addr::s bind_port::i")
	fsClient  = specs("server_addr:s:s server_port:P:i protocol:p:s log_level::s log_file::s log_max_days::i disable_log_color::b tls_server_name::s dns_server::s tls_enable::b user:u:s token:t:s")
	fsServer  = specs("bind_addr::s bind_port:p:i kcp_bind_port::i quic_bind_port::i proxy_bind_addr::s vhost_http_port::i vhost_https_port::i vhost_http_timeout::i dashboard_addr::s dashboard_port::i dashboard_user::s dashboard_pwd::s enable_prometheus::b log_file::s log_level::s log_max_days::i disable_log_color::b token:t:s subdomain_host::s allow_ports::R max_ports_per_client::i tls_only::b dashboard_tls_cert_file::s dashboard_tls_key_file::s dashboard_tls_mode::F")
)

func groupSpecs(group string) []flagSpec {
	switch group[0] {
	case 's':
		return fsServer
	case 'p':
		return append(append(append([]flagSpec{}, fsProxyBase...), fsTyped[group[2:]]...), fsClient...)
	default:
		return append(append([]flagSpec{}, fsVisitor...), fsClient...)
	}
}

var flagStrings = []string{"", "a", "web", "名前", "client", "server", " x ", "A.b", "p@ss w0rd", "x=y", "a,b", "-dash", "1.2.3.4", "tcp", "quic", "/var/log/f.log", `q"t`}
var flagIntTexts = []string{"0", "1", "80", "6000", "65535", "65536", "-1", "7000", "2147483648", "abc", "", "1.5", "99999999999999999999", "0x10", "010", "1_0", "+7", "-0", "9223372036854775807", "9223372036854775808"}
var flagBoolTexts = []string{"true", "false", "1", "0", "T", "F", "TRUE", "False", "t", "f", "yes", "", "tRue"}
var flagItems = []string{"a", "web", "名", "*", "a.example.com", "x y", "/", "/a b", "", "k=v"}
var flagMaps = []string{"k=v", "k=v,k2=v2", "novalue", "a=b,c", "k=v=w", "k=v,k=w", "=v", "k=", "k=v,,x=y", "b=2,a=1", `k="v"`, "frp.io/x=1,App=2"}

func genFlagValue(rng *rand.Rand, kind string) string {
	switch kind {
	case "s":
		return pick(rng, flagStrings)
	case "i":
		if rng.Intn(4) != 0 {
			return itoa64(int64(rng.Intn(70000)))
		}
		return pick(rng, flagIntTexts)
	case "b", "F":
		if rng.Intn(4) != 0 {
			return pick(rng, flagBoolTexts[:8])
		}
		return pick(rng, flagBoolTexts)
	case "L":
		n := rng.Intn(4)
		items := []string{}
		for i := 0; i < n; i++ {
			items = append(items, pick(rng, flagItems))
		}
		s := strings.Join(items, ",")
		if rng.Intn(25) == 0 {
			s = `"a,b",c`
		}
		return s
	case "m":
		if rng.Intn(3) != 0 {
			return pick(rng, []string{"k=v", "k=v,k2=v2", "b=2,a=1", "frp.io/x=1,App=2", "k=", "名=値"})
		}
		return pick(rng, flagMaps)
	case "q":
		if rng.Intn(4) == 0 {
			return pick(rng, []string{"KB", "-1KB", "1e3KB", "10", "1 MB", "MB"})
		}
		return pick(rng, confBWs)
	case "R":
		return genRangeStr(rng, rng.Intn(5) == 0)
	}
	panic("flag kind " + kind)
}

func respell(rng *rand.Rand, name string) string {
	b := []byte(name)
	for i := range b {
		if (b[i] == '_' || b[i] == '-') && rng.Intn(3) == 0 {
			b[i] = "_-"[rng.Intn(2)]
		}
	}
	return string(b)
}

func genFlagArg(rng *rand.Rand, sp flagSpec, last bool) string {
	val := genFlagValue(rng, sp.kind)
	isBool := sp.kind == "b"
	form, name := "e", respell(rng, sp.name)
	switch k := rng.Intn(20); {
	case k < 9:
	case k < 13:
		if !isBool {
			form = "s"
		}
	case k < 16:
		if sp.short != "" && !isBool {
			form, name = "h", sp.short
		}
	case k < 18:
		if sp.short != "" && !isBool {
			form, name = "g", sp.short
		}
	default:
		if isBool || (last && rng.Intn(4) == 0) {
			form = "b"
		}
	}
	if form == "b" {
		val = ""
	}
	return form + ":" + name + ":" + hx(val)[1:]
}

func genFl(rng *rand.Rand) string {
	var group string
	switch rng.Intn(10) {
	case 0, 1, 2, 3, 4:
		group = "p:" + pick(rng, confTypes)
	case 5, 6:
		group = "v:" + pick(rng, []string{"stcp", "xtcp", "sudp"})
	default:
		group = "s"
	}
	ssh := group[0] == 'p' && rng.Intn(5) == 0
	sp := groupSpecs(group)
	n := 1 + rng.Intn(6)
	chosen := []flagSpec{}
	for i := 0; i < n; i++ {
		c := pick(rng, sp)
		if len(chosen) > 0 && rng.Intn(8) == 0 {
			c = pick(rng, chosen) // the same flag again
		}
		chosen = append(chosen, c)
	}
	if rng.Intn(30) == 0 {
		chosen = append(chosen, flagSpec{pick(rng, []string{"nope", "remote_por", "Remote_Port", "route_by_http_user", "group"}), "", "s"})
	}
	if rng.Intn(40) == 0 {
		chosen = append(chosen, flagSpec{"x", pick(rng, []string{"z", "R", "N"}), "s"})
	}
	out := []string{"fl", group, map[bool]string{false: "0", true: "1"}[ssh]}
	for i, c := range chosen {
		out = append(out, genFlagArg(rng, c, i == len(chosen)-1))
	}
	return strings.Join(out, " ")
}
