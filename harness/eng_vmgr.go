package main

import (
	"context"
	"fmt"
	"io"
	"math/rand"
	"net"
	"reflect"
	"runtime"
	"sort"
	"strings"
	"sync"
	"time"
	"unsafe"

	"github.com/fatedier/frp/client/visitor"
	v1 "github.com/fatedier/frp/pkg/config/v1"
	vplugin "github.com/fatedier/frp/pkg/plugin/visitor"
	frplog "github.com/fatedier/frp/pkg/util/log"
	golog "github.com/fatedier/golib/log"
)

// Engine "vmgr" (C19, visitors): the real client visitor.Manager with real stcp / xtcp / sudp visitors.
//
// Run() of a visitor binds a real loopback socket; the harness owns a small pool of addresses
// (keys 1..5) which it squats (binds itself) and frees, so that Run() fails and succeeds later.
// The keep-alive loop keepVisitorsRunning is the real goroutine; its period vm.checkInterval (10 s,
// no setter) is written once through reflect/unsafe right after NewManager, before the goroutine
// exists.  The manager gets exactly the configured list (also the EMPTY list: nothing of the harness' is
// ever configured).  A pass of the loop is observed through the lock the pass needs: the harness takes
// vm.mu, waits until the keeper goroutine's next tick is blocked in its Lock() (runtime.Stack), lets go
// and waits until the goroutine is back in its select - a complete pass begun after the op's action.
// A keeper goroutine that no longer exists although a list with a visitor has been loaded and Close()
// has not been called is reported as `;nokeeper` (the op then ends without a pass).  Which of two
// waiting visitors got a freed address is the implementation's choice and is checked relationally by
// the model.
//
//	reset
//	vupd <name:variant:port:never>*  => state          (Manager.UpdateAll)
//	squat <port> | free <port>       => ok|taken|notheld ; state
//	tick                             => state          (one more complete pass)
//	close                            => state          (Manager.Close)
//	closerace <port|0>               => ok|notheld ; state   (Manager.Close overtaking an iteration of the loop, see vmgrCloseRace)
//	xfer <name>                      => ok|notfound|closed   (Manager.TransferConn)
//
//	state = cfg=<name:variant:port>,…;run=<name.generation>,…;busy=<port keys that cannot be bound>;held=<port keys the
//	harness holds>[;closed][;nokeeper]     (closed: Close() has been called and no UpdateAll since)
//
// A reload is what apiReload does (eng_c19_load.go): the entries without a harness plugin are written as a
// configuration file that spells out only what the token sets (bindAddr 127.0.0.1, xtcp's protocol /
// maxRetriesAnHour / minRetryInterval / fallbackTimeoutMs … are left to the loader's Complete()) and come
// back from config.LoadClientConfig + validation as fresh objects; entries with a harness plugin (types the
// loader does not know) are built in place, fresh as well.  The variant reported for a stored entry is
// vmgrMutated when the object no longer equals a second load of the same text.
//
// variant = mixed-radix code of every other field of the configuration (vmgrRadix); generation =
// how many visitor objects have been seen under that name (a restart shows as a new generation).

var vmgrRadix = []int{3, 2, 2, 2, 2, 2, 4, 2, 2, 2, 2, 2}

const (
	vfType = iota
	vfEnc
	vfComp
	vfSecret
	vfServerUser
	vfServerName
	vfPlugin
	vfProtocol
	vfMaxRetries
	vfMinRetry
	vfFallbackTo
	vfFallbackTimeout
)

const vmgrInterval = 1500 * time.Microsecond

func vmgrDecode(v int) []int {
	d := make([]int, len(vmgrRadix))
	for i, r := range vmgrRadix {
		d[i] = v % r
		v /= r
	}
	return d
}

func vmgrVariants() int {
	m := 1
	for _, r := range vmgrRadix {
		m *= r
	}
	return m
}

func vmgrEncode(d []int) int {
	v, m := 0, 1
	for i, r := range vmgrRadix {
		v += d[i] * m
		m *= r
	}
	return v
}

// canonical: the xtcp-only fields are 0 unless the type is xtcp
func vmgrCanon(d []int) bool {
	if d[vfType] != 1 {
		for i := vfProtocol; i <= vfFallbackTimeout; i++ {
			if d[i] != 0 {
				return false
			}
		}
	}
	return true
}

type vmgrAddr struct {
	udp  bool
	ip   string
	port int
}

type vmgrState struct {
	cancel  context.CancelFunc
	vm      *visitor.Manager
	mu      *sync.RWMutex
	vis     reflect.Value // vm.visitors (read under mu)
	closed  bool
	addrs   [6]vmgrAddr // key 1..5
	squat   [6]interface{ Close() error }
	gen     map[string]int
	seen    map[uintptr]int
	keep    []any // keeps every visitor object reachable: no address is ever reused
	tokens  map[v1.VisitorConfigurer]string
	started bool
	// the same entry loaded / built a second time, never given to frp
	pristine map[v1.VisitorConfigurer]v1.VisitorConfigurer
	loader   c19Loader
	quiet    bool // Close() has been called and no UpdateAll since
	noKeeper bool // the keeper goroutine has been seen to be gone while it should run
}

const vmgrMutated = 999999999

var (
	vmgrSt       *vmgrState
	vmgrRegOnce  sync.Once
)

type vmgrNoopPlugin struct{}

func (vmgrNoopPlugin) Name() string { return "verif-noop" }
func (vmgrNoopPlugin) Start()       {}
func (vmgrNoopPlugin) Close() error { return nil }

func vmgrRegister() {
	vmgrRegOnce.Do(func() {
		vplugin.Register("verif-noop", func(vplugin.PluginContext, v1.VisitorPluginOptions) (vplugin.Plugin, error) {
			return vmgrNoopPlugin{}, nil
		})
	})
}

func vmgrBind(a vmgrAddr) (interface{ Close() error }, error) {
	if a.udp {
		return net.ListenUDP("udp", &net.UDPAddr{IP: net.ParseIP(a.ip), Port: a.port})
	}
	return net.Listen("tcp", fmt.Sprintf("%s:%d", a.ip, a.port))
}

// a port number outside the ephemeral range on which every address of the pool can be bound right now
func vmgrPickPorts(rng *rand.Rand) (p1, p2 int) {
	free := func(p int) bool {
		for _, a := range []vmgrAddr{{false, "127.0.0.1", p}, {false, "127.0.0.2", p}, {true, "127.0.0.1", p}} {
			l, err := vmgrBind(a)
			if err != nil {
				return false
			}
			l.Close()
		}
		return true
	}
	var out []int
	for tries := 0; len(out) < 2 && tries < 2000; tries++ {
		p := 21000 + rng.Intn(9000)
		if (len(out) == 0 || out[0] != p) && free(p) {
			out = append(out, p)
		}
	}
	if len(out) < 2 {
		panic("no free ports")
	}
	return out[0], out[1]
}

var vmgrPortRng = rand.New(rand.NewSource(time.Now().UnixNano() ^ int64(0x5eed)))

func vmgrField(vm *visitor.Manager, name string) reflect.Value {
	f := reflect.ValueOf(vm).Elem().FieldByName(name)
	return reflect.NewAt(f.Type(), unsafe.Pointer(f.UnsafeAddr())).Elem()
}

func vmgrWaitLoopGone() {
	deadline := time.Now().Add(2 * time.Second)
	buf := make([]byte, 1<<20)
	for time.Now().Before(deadline) {
		n := runtime.Stack(buf, true)
		if !strings.Contains(string(buf[:n]), "visitor.(*Manager).keepVisitorsRunning") {
			return
		}
		time.Sleep(200 * time.Microsecond)
	}
}

func vmgrReset() {
	// the harness' stdout/stderr carry the trace: frp's own logging must not leak into it
	quietOnce.Do(func() { frplog.Logger = frplog.Logger.WithOptions(golog.WithOutput(io.Discard)) })
	vmgrRegister()
	if s := vmgrSt; s != nil {
		s.vm.Close() // also closes visitors started after an earlier Close
		s.cancel()
		s.loader.close()
		for k, l := range s.squat {
			if l != nil {
				l.Close()
				s.squat[k] = nil
			}
		}
		vmgrWaitLoopGone()
	}
	ctx, cancel := context.WithCancel(context.Background())
	common := &v1.ClientCommonConfig{}
	common.Complete()
	s := &vmgrState{cancel: cancel, gen: map[string]int{}, seen: map[uintptr]int{}, tokens: map[v1.VisitorConfigurer]string{},
		pristine: map[v1.VisitorConfigurer]v1.VisitorConfigurer{}}
	s.vm = visitor.NewManager(ctx, "run", common, func() (net.Conn, error) { return nil, fmt.Errorf("no server") }, &capTransporter{}, nil)
	vmgrField(s.vm, "checkInterval").Set(reflect.ValueOf(vmgrInterval))
	s.mu = vmgrField(s.vm, "mu").Addr().Interface().(*sync.RWMutex)
	s.vis = vmgrField(s.vm, "visitors")
	p1, p2 := vmgrPickPorts(vmgrPortRng)
	s.addrs = [6]vmgrAddr{{}, {false, "127.0.0.1", p1}, {false, "127.0.0.1", p2}, {false, "127.0.0.2", p1},
		{true, "127.0.0.1", p1}, {true, "127.0.0.1", p2}}
	vmgrSt = s
}

// raw returns the entry a token stands for as it would be written in a configuration file (nothing
// defaulted), or nil when the token is not well-formed; loadable = the loader knows every type in it
func (s *vmgrState) raw(tok string) (c v1.VisitorConfigurer, key string, loadable bool) {
	var name, variant, port, never int
	if n, _ := fmt.Sscanf(strings.ReplaceAll(tok, ":", " "), "%d %d %d %d", &name, &variant, &port, &never); n != 4 {
		return nil, "", false
	}
	if variant < 0 || variant >= vmgrVariants() || port < 0 || port > 5 {
		return nil, "", false
	}
	d := vmgrDecode(variant)
	if !vmgrCanon(d) {
		return nil, "", false
	}
	isUDP := d[vfType] == 2
	if port != 0 && s.addrs[port].udp != isUDP {
		return nil, "", false
	}
	wantNever := d[vfPlugin] == 3 || (isUDP && port == 0)
	if wantNever != (never == 1) {
		return nil, "", false
	}
	b := v1.VisitorBaseConfig{Name: fmt.Sprintf("v%d", name), BindPort: -1}
	b.Type = []string{"stcp", "xtcp", "sudp"}[d[vfType]]
	b.Transport.UseEncryption = d[vfEnc] == 1
	b.Transport.UseCompression = d[vfComp] == 1
	b.SecretKey = []string{"k", "k2"}[d[vfSecret]]
	b.ServerUser = []string{"", "u"}[d[vfServerUser]]
	b.ServerName = []string{"s1", "s2"}[d[vfServerName]]
	switch d[vfPlugin] {
	case 1:
		b.Plugin = v1.TypedVisitorPluginOptions{Type: "verif-noop", VisitorPluginOptions: &v1.VirtualNetVisitorPluginOptions{Type: "verif-noop", DestinationIP: "10.0.0.1"}}
	case 2:
		b.Plugin = v1.TypedVisitorPluginOptions{Type: "verif-noop", VisitorPluginOptions: &v1.VirtualNetVisitorPluginOptions{Type: "verif-noop", DestinationIP: "10.0.0.2"}}
	case 3:
		b.Plugin = v1.TypedVisitorPluginOptions{Type: "verif-unregistered"}
	}
	if port != 0 {
		b.BindPort = s.addrs[port].port
		if s.addrs[port].ip != "127.0.0.1" {
			b.BindAddr = s.addrs[port].ip // (127.0.0.1 is what Complete() fills in)
		}
	}
	switch d[vfType] {
	case 0:
		c = &v1.STCPVisitorConfig{VisitorBaseConfig: b}
	case 1:
		x := &v1.XTCPVisitorConfig{VisitorBaseConfig: b}
		x.Protocol = []string{"", "kcp"}[d[vfProtocol]]
		x.MaxRetriesAnHour = []int{0, 5}[d[vfMaxRetries]]
		x.MinRetryInterval = []int{0, 30}[d[vfMinRetry]]
		x.FallbackTo = []string{"", "v0"}[d[vfFallbackTo]]
		x.FallbackTimeoutMs = []int{0, 500}[d[vfFallbackTimeout]]
		c = x
	case 2:
		c = &v1.SUDPVisitorConfig{VisitorBaseConfig: b}
	}
	return c, fmt.Sprintf("%d:%d:%d", name, variant, port), d[vfPlugin] == 0
}

// loadList: what a reload hands to the manager (fresh objects), or nil when a token is not well-formed
func (s *vmgrState) loadList(toks []string) ([]v1.VisitorConfigurer, string) {
	out := make([]v1.VisitorConfigurer, len(toks))
	keys := make([]string, len(toks))
	var ents []map[string]any
	var idx []int
	for i, t := range toks {
		c, key, loadable := s.raw(t)
		if c == nil {
			return nil, "badcfg"
		}
		keys[i] = key
		if loadable {
			ents = append(ents, c19Entry(c))
			idx = append(idx, i)
			continue
		}
		// a plugin type only the harness knows: built in place, twice
		c.Complete(&v1.ClientCommonConfig{})
		p, _, _ := s.raw(t)
		p.Complete(&v1.ClientCommonConfig{})
		out[i] = c
		s.pristine[c] = p
	}
	if len(ents) > 0 {
		ld, err := s.loader.load(nil, ents)
		if err != nil {
			return nil, "loaderr;" + hx(err.Error())
		}
		for j, i := range idx {
			out[i] = ld.visitors[j]
			s.pristine[out[i]] = ld.pristineV[j]
		}
	}
	for i, c := range out {
		s.tokens[c] = keys[i]
	}
	return out, ""
}

// vmgrKeeper: the state of the keeper goroutine(s) of this process: absent | select | blocked | other
func vmgrKeeper() string {
	buf := make([]byte, 1<<20)
	n := runtime.Stack(buf, true)
	for n == len(buf) {
		buf = make([]byte, 2*len(buf))
		n = runtime.Stack(buf, true)
	}
	out := "absent"
	for _, g := range strings.Split(string(buf[:n]), "\n\n") {
		if !strings.Contains(g, "keepVisitorsRunning") && !strings.Contains(g, "visitor.(*Manager).UpdateAll.func1") {
			continue
		}
		if strings.Contains(g, "main.vmgrExec") {
			continue // the harness' own goroutine inside UpdateAll
		}
		i, j := strings.Index(g, "["), strings.Index(g, "]")
		if i < 0 || j < i {
			continue
		}
		st := g[i+1 : j]
		switch {
		case strings.HasPrefix(st, "select"):
			out = "select"
		case strings.Contains(st, "Lock") || strings.Contains(st, "semacquire"):
			return "blocked"
		default:
			if out == "absent" {
				out = "other"
			}
		}
	}
	return out
}

// keeperGone: no keeper goroutine, and none appearing during 10 ms and at least 25 looks (a goroutine that was
// just created shows up as soon as it is scheduled)
func vmgrKeeperGone() bool {
	deadline := time.Now().Add(10 * time.Millisecond)
	for polls := 0; polls < 25 || time.Now().Before(deadline); polls++ {
		if vmgrKeeper() != "absent" {
			return false
		}
		time.Sleep(200 * time.Microsecond) // (also lets a goroutine that was just created run)
	}
	return true
}

// waitPass returns after a complete pass of the keep-alive loop that began after the call; keeper = false
// when there is no keeper goroutine (and hence no pass) although there should be one
func (s *vmgrState) waitPass() (passed, keeper bool) {
	if s.closed || !s.started {
		return true, true
	}
	if s.noKeeper || (vmgrKeeper() == "absent" && vmgrKeeperGone()) {
		s.noKeeper = true // (it is started through a sync.Once: it will not come back)
		return true, false
	}
	s.mu.Lock()
	st := ""
	ok := vmgrWaitFor(func() bool { st = vmgrKeeper(); return st == "blocked" || st == "absent" }, 2*time.Second)
	s.mu.Unlock()
	if st == "absent" {
		// it has ended while the harness held the lock: it was not inside a pass
		if vmgrKeeperGone() {
			s.noKeeper = true
			return true, false
		}
		return false, true
	}
	if !ok {
		return false, true
	}
	ok = vmgrWaitFor(func() bool { st = vmgrKeeper(); return st == "select" || st == "absent" }, 2*time.Second)
	if st == "absent" && vmgrKeeperGone() {
		s.noKeeper = true
		return true, false
	}
	return ok, true
}

func (s *vmgrState) stateAfterPass() string {
	p, k := s.waitPass()
	return s.state(p, k)
}

func (s *vmgrState) state(passed, keeper bool) string {
	names, _ := s.vm.VerifDump()
	var cs []string
	for _, n := range names {
		c, _ := s.vm.VerifCfg(n)
		vc := c.(v1.VisitorConfigurer)
		t, ok := s.tokens[vc]
		if !ok {
			t = strings.TrimPrefix(n, "v") + ":?:?"
		} else if !c19Intact(vc, s.pristine[vc]) {
			// something has written into the object the manager compares the next reload with
			f := strings.Split(t, ":")
			t = fmt.Sprintf("%s:%d:%s", f[0], vmgrMutated, f[2])
		}
		cs = append(cs, t)
	}
	sort.Strings(cs)
	var run []string
	s.mu.RLock()
	it := s.vis.MapRange()
	for it.Next() {
		n := it.Key().String()
		obj := it.Value().Elem() // the *XXXVisitor inside the interface
		p := obj.Pointer()
		g, ok := s.seen[p]
		if !ok {
			s.gen[n]++
			g = s.gen[n]
			s.seen[p] = g
			s.keep = append(s.keep, obj.Interface())
		}
		run = append(run, fmt.Sprintf("%s.%d", strings.TrimPrefix(n, "v"), g))
	}
	s.mu.RUnlock()
	sort.Strings(run)
	var busy []string
	for k := 1; k <= 5; k++ {
		l, err := vmgrBind(s.addrs[k])
		if err != nil {
			busy = append(busy, fmt.Sprint(k))
		} else {
			l.Close()
		}
	}
	var held []string
	for k := 1; k <= 5; k++ {
		if s.squat[k] != nil {
			held = append(held, fmt.Sprint(k))
		}
	}
	out := "cfg=" + strings.Join(cs, ",") + ";run=" + strings.Join(run, ",") + ";busy=" + strings.Join(busy, ",") +
		";held=" + strings.Join(held, ",")
	if s.quiet {
		out += ";closed"
	}
	if !keeper {
		out += ";nokeeper"
	}
	if !passed {
		out += "!NOPASS"
	}
	return out
}

// vmgrBlocked: a goroutine with the given frame is waiting for a lock
func vmgrBlocked(frame string) bool {
	buf := make([]byte, 1<<20)
	n := runtime.Stack(buf, true)
	for n == len(buf) {
		buf = make([]byte, 2*len(buf))
		n = runtime.Stack(buf, true)
	}
	for _, g := range strings.Split(string(buf[:n]), "\n\n") {
		if !strings.Contains(g, frame) {
			continue
		}
		i, j := strings.Index(g, "["), strings.Index(g, "]")
		if i >= 0 && j > i && (strings.Contains(g[i:j], "Lock") || strings.Contains(g[i:j], "semacquire")) {
			return true
		}
	}
	return false
}

func vmgrWaitFor(cond func() bool, d time.Duration) bool {
	deadline := time.Now().Add(d)
	for !cond() {
		if time.Now().After(deadline) {
			return false
		}
		time.Sleep(100 * time.Microsecond)
	}
	return true
}

// closeRace: Manager.Close() while an iteration of the keep-alive loop is waiting for vm.mu behind it.
// The harness takes vm.mu (as any reader / UpdateAll could), lets Close() queue up for it, then the
// loop's next iteration (the ticker fires within checkInterval), releases address k if it holds it, and
// lets go: Close() runs, then the iteration — the order in which they asked.  Nothing here touches frp's
// code; the schedule is one the Go runtime may produce whenever the ticker fires while Close() waits for
// or holds the lock.
func (s *vmgrState) closeRace(k int) string {
	r := "ok"
	if k != 0 && s.squat[k] == nil {
		r = "notheld"
	}
	if s.started && !s.closed {
		// right after an iteration: the next one is a whole checkInterval away, Close() gets to the lock first
		// (nothing that stops the world - runtime.Stack - between here and `go Close()`); should the machine be so
		// busy that the iteration gets there first all the same, the model accepts that order too (Engines/Vmgr.lean)
		s.waitPass()
	}
	alive := s.started && !s.closed && !s.noKeeper
	s.mu.Lock()
	done := make(chan struct{})
	go func() { s.vm.Close(); close(done) }()
	queued := vmgrWaitFor(func() bool { return vmgrBlocked("visitor.(*Manager).Close") }, 2*time.Second)
	if queued && alive {
		queued = vmgrWaitFor(func() bool { return vmgrBlocked("visitor.(*Manager).keepVisitorsRunning") }, 2*time.Second)
	}
	if k != 0 && s.squat[k] != nil {
		s.squat[k].Close()
		s.squat[k] = nil
	}
	s.mu.Unlock()
	select {
	case <-done:
	case <-time.After(2 * time.Second):
		queued = false
	}
	s.closed, s.quiet = true, true
	vmgrWaitLoopGone()
	return r + ";" + s.state(queued, true)
}

func vmgrExec(tok []string) string {
	if vmgrSt == nil {
		vmgrReset()
	}
	s := vmgrSt
	switch tok[0] {
	case "reset":
		vmgrReset()
		return "-"
	case "vupd":
		cfgs, bad := s.loadList(tok[1:])
		if bad != "" {
			return bad
		}
		s.vm.UpdateAll(cfgs)
		s.quiet = false
		if !s.closed && len(cfgs) > 0 {
			s.started = true // keepVisitorsRunningOnce has fired
		}
		return s.stateAfterPass()
	case "squat", "free":
		k := atoi(tok[1])
		if k < 1 || k > 5 {
			return "badport"
		}
		r := "ok"
		if tok[0] == "squat" {
			if s.squat[k] != nil {
				r = "taken"
			} else if l, err := vmgrBind(s.addrs[k]); err != nil {
				r = "taken"
			} else {
				s.squat[k] = l
			}
		} else {
			if s.squat[k] == nil {
				r = "notheld"
			} else {
				s.squat[k].Close()
				s.squat[k] = nil
			}
		}
		return r + ";" + s.stateAfterPass()
	case "tick":
		return s.stateAfterPass()
	case "close":
		s.vm.Close()
		s.closed, s.quiet = true, true
		vmgrWaitLoopGone()
		return s.state(true, true)
	case "closerace":
		k := atoi(tok[1])
		if k < 0 || k > 5 {
			return "badport"
		}
		return s.closeRace(k)
	case "xfer":
		a, b := net.Pipe()
		defer a.Close()
		defer b.Close()
		err := s.vm.TransferConn("v"+tok[1], a)
		switch {
		case err == nil:
			return "ok"
		case strings.Contains(err.Error(), "not found"):
			return "notfound"
		case strings.Contains(err.Error(), "closed"):
			return "closed"
		}
		return "err"
	}
	return "badop"
}

// ---------------------------------------------------------------- generator

type vmgrEnt struct {
	name, variant, port int
}

func (e vmgrEnt) never() int {
	d := vmgrDecode(e.variant)
	return b2i(d[vfPlugin] == 3 || (d[vfType] == 2 && e.port == 0))
}

func (e vmgrEnt) tok() string {
	return fmt.Sprintf("%d:%d:%d:%d", e.name, e.variant, e.port, e.never())
}

func vmgrGen(rng *rand.Rand, n int, emit func(string)) {
	emit("reset")
	var cur []vmgrEnt
	squat := map[int]bool{}
	portFor := func(typ int) int {
		if typ == 2 {
			return pick(rng, []int{4, 4, 5, 5, 5, 0})
		}
		return pick(rng, []int{1, 1, 1, 2, 2, 3, 0})
	}
	// a fresh configuration: mostly plain, sometimes every field random
	fresh := func(name int) vmgrEnt {
		d := make([]int, len(vmgrRadix))
		d[vfType] = pick(rng, []int{0, 0, 0, 1, 2, 2})
		if rng.Intn(3) == 0 {
			for i := 1; i < len(vmgrRadix); i++ {
				d[i] = rng.Intn(vmgrRadix[i])
			}
			if d[vfPlugin] == 3 && rng.Intn(3) != 0 {
				d[vfPlugin] = 1
			}
		}
		if d[vfType] != 1 {
			for i := vfProtocol; i <= vfFallbackTimeout; i++ {
				d[i] = 0
			}
		}
		e := vmgrEnt{name, vmgrEncode(d), portFor(d[vfType])}
		// prefer an address that is taken right now: Run() fails at load
		if rng.Intn(3) == 0 {
			for k := range squat {
				if (k >= 4) == (d[vfType] == 2) {
					e.port = k
				}
			}
		}
		return e
	}
	// change exactly one field of e, chosen over every field of its type (the bind address and the
	// bind port are the `port` component, the type is a field like any other)
	changeOne := func(e vmgrEnt) vmgrEnt {
		d := vmgrDecode(e.variant)
		for {
			fields := []int{vfEnc, vfComp, vfSecret, vfServerUser, vfServerName, vfPlugin, -1, -1, vfType}
			if d[vfType] == 1 {
				fields = append(fields, vfProtocol, vfMaxRetries, vfMinRetry, vfFallbackTo, vfFallbackTimeout)
			}
			f := pick(rng, fields)
			switch f {
			case -1:
				np := portFor(d[vfType])
				if np == e.port {
					continue
				}
				e.port = np
			case vfType:
				nt := (d[vfType] + 1 + rng.Intn(2)) % 3
				if (nt == 2) != (d[vfType] == 2) {
					e.port = portFor(nt) // the address family changes with the type
				}
				d[vfType] = nt
				if nt != 1 {
					for i := vfProtocol; i <= vfFallbackTimeout; i++ {
						d[i] = 0
					}
				}
			default:
				d[f] = (d[f] + 1 + rng.Intn(vmgrRadix[f]-1)) % vmgrRadix[f]
			}
			e.variant = vmgrEncode(d)
			return e
		}
	}
	emitUpd := func(next []vmgrEnt) {
		var sb strings.Builder
		sb.WriteString("vupd")
		for _, e := range next {
			sb.WriteString(" " + e.tok())
		}
		cur = next
		emit(sb.String())
	}
	mutate := func() []vmgrEnt {
		next := append([]vmgrEnt(nil), cur...)
		for k := 1 + rng.Intn(2); k > 0; k-- {
			switch r := rng.Intn(12); {
			case r < 3: // add
				next = append(next, fresh(rng.Intn(4)))
			case r < 5: // remove
				if len(next) > 0 {
					i := rng.Intn(len(next))
					next = append(next[:i:i], next[i+1:]...)
				}
			case r < 9: // change one field
				if len(next) > 0 {
					i := rng.Intn(len(next))
					next[i] = changeOne(next[i])
				}
			case r < 10: // reorder
				rng.Shuffle(len(next), func(i, j int) { next[i], next[j] = next[j], next[i] })
			case r < 11: // duplicate a name
				if len(next) > 0 {
					e := next[rng.Intn(len(next))]
					if rng.Intn(2) == 0 {
						e = changeOne(e)
					}
					i := rng.Intn(len(next) + 1)
					next = append(next[:i:i], append([]vmgrEnt{e}, next[i:]...)...)
				}
			default: // identical reload
			}
		}
		return next
	}
	for i := 0; i < n; i++ {
		switch r := rng.Intn(100); {
		case r < 34:
			if len(cur) == 0 || rng.Intn(12) == 0 {
				var next []vmgrEnt
				for k := rng.Intn(4); k > 0; k-- {
					next = append(next, fresh(rng.Intn(4)))
				}
				emitUpd(next)
			} else {
				emitUpd(mutate())
			}
		case r < 50:
			k := 1 + rng.Intn(5)
			if rng.Intn(2) == 0 {
				// an address no configured visitor uses: the next visitor that wants it fails at load
				used := map[int]bool{}
				for _, e := range cur {
					used[e.port] = true
				}
				for tries := 0; tries < 8 && used[k]; tries++ {
					k = 1 + rng.Intn(5)
				}
			} else if len(cur) > 0 && rng.Intn(2) == 0 {
				if p := cur[rng.Intn(len(cur))].port; p != 0 {
					k = p // mostly refused: a running visitor holds it
				}
			}
			squat[k] = true // (it may be refused: the generator's picture is only a bias)
			emit(fmt.Sprintf("squat %d", k))
		case r < 68:
			k := 1 + rng.Intn(5)
			for q := range squat {
				if rng.Intn(2) == 0 {
					k = q
				}
			}
			delete(squat, k)
			emit(fmt.Sprintf("free %d", k))
		case r < 78:
			emit("tick")
		case r < 90:
			emit(fmt.Sprintf("xfer %d", rng.Intn(5)))
		case r < 93:
			// a session ends: Close, then what Service.UpdateAllConfigurer still does with the dead control.
			// Half of the time Close() overtakes an iteration of the loop that is waiting for the lock, and
			// mostly an address some configured visitor is waiting for is released at that moment (or the
			// sibling that holds it is closed by Close() itself)
			if rng.Intn(2) == 0 {
				k := 0
				for _, e := range cur {
					if squat[e.port] && rng.Intn(3) != 0 {
						k = e.port
					}
				}
				if k == 0 && rng.Intn(4) == 0 {
					k = 1 + rng.Intn(5)
				}
				delete(squat, k)
				emit(fmt.Sprintf("closerace %d", k))
			} else {
				emit("close")
			}
			for k := rng.Intn(3); k > 0; k-- {
				if rng.Intn(2) == 0 {
					emitUpd(mutate())
				} else {
					emit(fmt.Sprintf("xfer %d", rng.Intn(4)))
				}
				i++
			}
			emit("reset")
			cur, squat = nil, map[int]bool{}
		case r < 95:
			emit("reset")
			cur, squat = nil, map[int]bool{}
		case r < 98:
			// NOTHING CONFIGURED for a while (the keeper's ticks find an empty table), then entries come back -
			// mostly on an address that is taken at that moment, so that only a later tick can start them
			emitUpd(nil)
			for k := 1 + rng.Intn(3); k > 0; k-- {
				emit("tick")
				i++
			}
			var next []vmgrEnt
			var taken []int
			for k := 1 + rng.Intn(2); k > 0; k-- {
				e := fresh(rng.Intn(4))
				if rng.Intn(4) != 0 && e.never() == 0 {
					d := vmgrDecode(e.variant)
					if d[vfType] == 2 {
						e.port = 4 + rng.Intn(2)
					} else {
						e.port = 1 + rng.Intn(3)
					}
					if !squat[e.port] {
						squat[e.port] = true
						emit(fmt.Sprintf("squat %d", e.port))
						i++
					}
					taken = append(taken, e.port)
				}
				next = append(next, e)
			}
			emitUpd(next)
			for _, p := range taken {
				if squat[p] && rng.Intn(4) != 0 {
					delete(squat, p)
					emit(fmt.Sprintf("free %d", p))
					i++
				}
			}
			if rng.Intn(2) == 0 {
				emit("tick")
			}
		default:
			emitUpd(append([]vmgrEnt(nil), cur...))
		}
	}
	// out-of-domain stream: names nobody configured, addresses nobody holds
	emit("reset")
	for i := 0; i < 6; i++ {
		emit(fmt.Sprintf("xfer %d", rng.Intn(9)))
		emit(fmt.Sprintf("free %d", 1+rng.Intn(5)))
		emit("tick")
	}
}

func init() {
	register(&Engine{Name: "vmgr", Gen: vmgrGen, Exec: vmgrExec})
}
