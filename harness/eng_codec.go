package main

import (
	"bytes"
	"context"
	"encoding/binary"
	"encoding/hex"
	"encoding/json"
	"errors"
	"fmt"
	"io"
	"math"
	"math/rand"
	"net"
	"os"
	"os/exec"
	"reflect"
	"sort"
	"strings"
	"time"

	jsonMsg "github.com/fatedier/golib/msg/json"

	"github.com/fatedier/frp/pkg/config/types"
	v1 "github.com/fatedier/frp/pkg/config/v1"
	"github.com/fatedier/frp/pkg/msg"
	"github.com/fatedier/frp/pkg/util/log"
	netpkg "github.com/fatedier/frp/pkg/util/net"
	"github.com/fatedier/frp/pkg/util/util"
	"github.com/fatedier/frp/pkg/util/version"
	"github.com/fatedier/frp/server"
)

// Engine "codec": the real msg.WriteMsg / msg.ReadMsg / msg.ReadMsgInto (pkg/msg/ctl.go → golib
// msg/json) and the first-message handling of a live server.Service.
//
//	rt <typeByte> <valueSeed> <trailer>   build a value of the message type registered under typeByte
//	     from valueSeed, WriteMsg it, append trailer, ReadMsg it back through a counting reader
//	     => B<json body> F<frame written> <outcome> <consumed> <bodyReq> eq|ne|- O<obj> V<val> W<val>
//	     (O V W: canonical tree texts, see codecCanonJSONText / codecCanonValue; "-" when absent)
//	rd <bytes> <chunk>                    ReadMsg(bytes) through a counting reader delivering at most
//	     <chunk> bytes per Read (0 = as many as asked)
//	     => <outcome> <consumed> <bodyReq>
//	into <bytes> <chunk>                  ReadMsgInto(bytes, &msg.LoginResp{})
//	     => ok|err:<cls> <consumed> <bodyReq>
//	gold <frame>                          a pinned frame of the released protocol: ReadMsg, WriteMsg the result
//	     => same | differs:<frame written> | <outcome>
//	later <bytes>                         a second, correctly logged-in client sends bytes on its control
//	     stream and keeps the connection open; then the first session is pinged
//	     => closed|open  alive|dead
//	first <bytes>                         open a TCP connection to a live frps (tcpMux off), send
//	     bytes as the first thing, half-close; then ping an established, logged-in session
//	     => closed|data+closed|open  alive|dead
//
// outcome = msg:<Struct> | nil | err:<eof|ueof|type|max|neg|fmt|json>
// bodyReq = the largest buffer the reader was asked to fill after the 9 header bytes (= the
// allocation for the body).
// The generator must not depend on the code under test: the type bytes and structs of the released
// protocol are pinned here (same content as lean/Frp/Props/C17Golden.lean).
var codecSample = map[byte]reflect.Type{
	'o': reflect.TypeOf(msg.Login{}), '1': reflect.TypeOf(msg.LoginResp{}),
	'p': reflect.TypeOf(msg.NewProxy{}), '2': reflect.TypeOf(msg.NewProxyResp{}),
	'c': reflect.TypeOf(msg.CloseProxy{}), 'w': reflect.TypeOf(msg.NewWorkConn{}),
	'r': reflect.TypeOf(msg.ReqWorkConn{}), 's': reflect.TypeOf(msg.StartWorkConn{}),
	'v': reflect.TypeOf(msg.NewVisitorConn{}), '3': reflect.TypeOf(msg.NewVisitorConnResp{}),
	'h': reflect.TypeOf(msg.Ping{}), '4': reflect.TypeOf(msg.Pong{}),
	'u': reflect.TypeOf(msg.UDPPacket{}), 'i': reflect.TypeOf(msg.NatHoleVisitor{}),
	'n': reflect.TypeOf(msg.NatHoleClient{}), 'm': reflect.TypeOf(msg.NatHoleResp{}),
	'5': reflect.TypeOf(msg.NatHoleSid{}), '6': reflect.TypeOf(msg.NatHoleReport{}),
}

var codecTypes []byte // the 18 type bytes, sorted

func init() {
	register(&Engine{Name: "codec", Gen: codecGen, Exec: codecExec})
	for b := range codecSample {
		codecTypes = append(codecTypes, b)
	}
	sort.Slice(codecTypes, func(i, j int) bool { return codecTypes[i] < codecTypes[j] })
}

// ---------------------------------------------------------------- counting reader

type countingReader struct {
	data     []byte
	off      int
	chunk    int
	bodyReq  int
	maxReq   int
	readCall int
}

func (r *countingReader) Read(p []byte) (int, error) {
	r.readCall++
	if len(p) > r.maxReq {
		r.maxReq = len(p)
	}
	if r.off >= 9 && len(p) > r.bodyReq {
		r.bodyReq = len(p)
	}
	if r.off >= len(r.data) {
		return 0, io.EOF
	}
	n := len(p)
	if r.chunk > 0 && n > r.chunk {
		n = r.chunk
	}
	if n > len(r.data)-r.off {
		n = len(r.data) - r.off
	}
	copy(p, r.data[r.off:r.off+n])
	r.off += n
	return n, nil
}

func codec_errClass(err error) string {
	switch {
	case err == io.EOF:
		return "eof"
	case err == io.ErrUnexpectedEOF:
		return "ueof"
	case errors.Is(err, jsonMsg.ErrMsgType):
		return "type"
	case errors.Is(err, jsonMsg.ErrMaxMsgLength):
		return "max"
	case errors.Is(err, jsonMsg.ErrMsgLength):
		return "neg"
	case errors.Is(err, jsonMsg.ErrMsgFormat):
		return "fmt"
	default:
		return "json" // body-level: encoding/json, a field's UnmarshalText, or pkg/msg ErrInvalidBody
	}
}

func outcomeOf(m msg.Message, err error) string {
	if err != nil {
		return "err:" + codec_errClass(err)
	}
	if m == nil {
		return "nil"
	}
	t := reflect.TypeOf(m)
	if t.Kind() == reflect.Pointer {
		return "msg:" + t.Elem().Name()
	}
	return "msg:?" + t.String()
}

func hxb(b []byte) string { return "x" + hex.EncodeToString(b) }

// ---------------------------------------------------------------- value generator (reflection)

var strPool = []string{
	"", "", "a", "frp", "0.61.1", "proxy-1", "tcp", "example.com", "*.a.example.com", "/",
	"with space", "tab\there", "quote\"back\\slash", "<html>&amp;</html>", "\u2028\u2029", "né", "日本語", "😀",
	"null", "{}", "\x00\x01\x1f", "\x7f", "ключ",
}

func genString(rng *rand.Rand) string {
	switch rng.Intn(12) {
	case 0:
		return strings.Repeat(pick(rng, []string{"a", "é", "\"", "<", "\\", "\n"}), rng.Intn(300))
	case 1:
		return strings.Repeat("x", 1000+rng.Intn(2500))
	case 2:
		b := make([]byte, rng.Intn(20))
		for i := range b {
			b[i] = byte(32 + rng.Intn(95))
		}
		return string(b)
	default:
		return pick(rng, strPool)
	}
}

var int64Pool = []int64{0, 0, 1, -1, 7000, 65535, 65536, -11, math.MaxInt32, math.MinInt32, math.MaxInt64, math.MinInt64,
	1 << 53, 1<<53 + 1, -(1<<53 + 1), 1700000000}

func genIP(rng *rand.Rand) net.IP {
	switch rng.Intn(8) {
	case 0:
		return nil
	case 1:
		return net.IPv4(127, 0, 0, 1) // 16-byte form
	case 2:
		return net.IP{10, 0, 0, byte(rng.Intn(256))} // 4-byte form
	case 3:
		return net.IPv6loopback
	case 4:
		return net.IPv6zero
	case 5:
		return net.IPv4zero
	case 6:
		return net.ParseIP("2001:db8::" + fmt.Sprintf("%x", rng.Intn(65536)))
	default:
		ip := make(net.IP, 16)
		rng.Read(ip)
		return ip
	}
}

func fillValue(rng *rand.Rand, v reflect.Value, depth int) {
	switch v.Kind() {
	case reflect.String:
		v.SetString(genString(rng))
	case reflect.Bool:
		v.SetBool(rng.Intn(2) == 0)
	case reflect.Int, reflect.Int64:
		v.SetInt(pick(rng, int64Pool))
	case reflect.Uint16:
		v.SetUint(uint64(pick(rng, []int{0, 0, 1, 80, 65535, 32768})))
	case reflect.Uint8: // an element of a byte slice (no such field in the released protocol: the schema check decides)
		v.SetUint(uint64(rng.Intn(256)))
	case reflect.Map: // map[string]string
		switch rng.Intn(4) {
		case 0: // nil
		case 1:
			v.Set(reflect.MakeMap(v.Type()))
		default:
			m := reflect.MakeMap(v.Type())
			for i, n := 0, 1+rng.Intn(4); i < n; i++ {
				m.SetMapIndex(reflect.ValueOf(genString(rng)), reflect.ValueOf(genString(rng)))
			}
			v.Set(m)
		}
	case reflect.Slice:
		if v.Type() == reflect.TypeOf(net.IP{}) {
			v.Set(reflect.ValueOf(genIP(rng)))
			return
		}
		switch rng.Intn(4) {
		case 0:
		case 1:
			v.Set(reflect.MakeSlice(v.Type(), 0, 0))
		default:
			n := 1 + rng.Intn(4)
			s := reflect.MakeSlice(v.Type(), n, n)
			for i := 0; i < n; i++ {
				fillValue(rng, s.Index(i), depth+1)
			}
			v.Set(s)
		}
	case reflect.Pointer: // *net.UDPAddr
		switch rng.Intn(5) {
		case 0: // nil
		case 1:
			v.Set(reflect.New(v.Type().Elem())) // zero value behind the pointer
		default:
			p := reflect.New(v.Type().Elem())
			fillValue(rng, p.Elem(), depth+1)
			v.Set(p)
		}
	case reflect.Struct:
		sparse := rng.Intn(3) == 0 // leave most fields zero ⇒ omitempty paths
		for i := 0; i < v.NumField(); i++ {
			if sparse && rng.Intn(4) != 0 {
				continue
			}
			if v.Field(i).CanSet() {
				fillValue(rng, v.Field(i), depth+1)
			}
		}
	default:
		panic("codec generator: unsupported kind " + v.Kind().String() + " — extend fillValue")
	}
}

// buildValue: a *T for the struct T registered under typeByte, deterministic in seed.
// mode (seed%8): 0 = zero value, 1 = oversize (JSON body above 10240), else random.
func buildValue(typeByte byte, seed int64) any {
	t, ok := codecSample[typeByte]
	if !ok {
		return nil
	}
	rng := rand.New(rand.NewSource(seed))
	p := reflect.New(t)
	switch seed % 8 {
	case 0:
	case 1:
		fillValue(rng, p.Elem(), 0)
		// blow one string field up, if the type has one
		for i := 0; i < t.NumField(); i++ {
			if t.Field(i).Type.Kind() == reflect.String {
				p.Elem().Field(i).SetString(strings.Repeat(pick(rng, []string{"y", "\"", "é"}), 9000+rng.Intn(4000)))
				break
			}
		}
	default:
		fillValue(rng, p.Elem(), 0)
	}
	return p.Interface()
}

// normalise: the stated identification under which the round trip is an equality:
// empty map/slice ≡ nil (omitempty drops them), 4-byte IP ≡ its 16-byte form,
// pointer to a zero UDPAddr stays a pointer.
func normalise(v reflect.Value) {
	switch v.Kind() {
	case reflect.Map:
		if !v.IsNil() && v.Len() == 0 {
			v.Set(reflect.Zero(v.Type()))
		}
	case reflect.Slice:
		if v.Type() == reflect.TypeOf(net.IP{}) {
			ip := v.Interface().(net.IP)
			if len(ip) == 0 {
				v.Set(reflect.Zero(v.Type()))
			} else if ip16 := ip.To16(); ip16 != nil {
				v.Set(reflect.ValueOf(ip16))
			}
			return
		}
		if !v.IsNil() && v.Len() == 0 {
			v.Set(reflect.Zero(v.Type()))
			return
		}
		for i := 0; i < v.Len(); i++ {
			normalise(v.Index(i))
		}
	case reflect.Pointer:
		if !v.IsNil() {
			normalise(v.Elem())
		}
	case reflect.Struct:
		for i := 0; i < v.NumField(); i++ {
			if v.Field(i).CanSet() {
				normalise(v.Field(i))
			}
		}
	}
}

// ---------------------------------------------------------------- canonical tree texts
//
//	n | t | f | i<decimal> | r<raw number text> | s<hex> | [v,v,…] | {<hexkey>:v,…}   (keys sorted bytewise)

func codecCanonAny(b *strings.Builder, v any) {
	switch x := v.(type) {
	case nil:
		b.WriteByte('n')
	case bool:
		if x {
			b.WriteByte('t')
		} else {
			b.WriteByte('f')
		}
	case json.Number:
		t := x.String()
		isInt := len(t) > 0
		for i, c := range t {
			if !(c >= '0' && c <= '9') && !(i == 0 && c == '-' && len(t) > 1) {
				isInt = false
			}
		}
		if isInt {
			b.WriteString("i" + t)
		} else {
			b.WriteString("r" + t)
		}
	case string:
		b.WriteString("s" + hex.EncodeToString([]byte(x)))
	case []any:
		b.WriteByte('[')
		for i, e := range x {
			if i > 0 {
				b.WriteByte(',')
			}
			codecCanonAny(b, e)
		}
		b.WriteByte(']')
	case map[string]any:
		keys := make([]string, 0, len(x))
		for k := range x {
			keys = append(keys, k)
		}
		sort.Strings(keys)
		b.WriteByte('{')
		for i, k := range keys {
			if i > 0 {
				b.WriteByte(',')
			}
			b.WriteString(hex.EncodeToString([]byte(k)) + ":")
			codecCanonAny(b, x[k])
		}
		b.WriteByte('}')
	default:
		b.WriteString("?")
	}
}

// the real JSON body, parsed by encoding/json (trusted) into a generic tree
func codecCanonJSONText(body []byte) string {
	dec := json.NewDecoder(bytes.NewReader(body))
	dec.UseNumber()
	var v any
	if err := dec.Decode(&v); err != nil {
		return "?"
	}
	var b strings.Builder
	codecCanonAny(&b, v)
	return b.String()
}

// a Go message value walked by reflection into the same tree shape: struct = object keyed by Go
// field name, nil slice/map/pointer = n, net.IP = its MarshalText ("" when empty)
func codecValueTree(v reflect.Value) any {
	switch v.Kind() {
	case reflect.String:
		return v.String()
	case reflect.Bool:
		return v.Bool()
	case reflect.Int, reflect.Int64:
		return json.Number(fmt.Sprint(v.Int()))
	case reflect.Uint16:
		return json.Number(fmt.Sprint(v.Uint()))
	case reflect.Map:
		if v.IsNil() {
			return nil
		}
		m := map[string]any{}
		for _, k := range v.MapKeys() {
			m[k.String()] = codecValueTree(v.MapIndex(k))
		}
		return m
	case reflect.Slice:
		if v.Type() == reflect.TypeOf(net.IP{}) {
			ip := v.Interface().(net.IP)
			if len(ip) == 0 {
				return ""
			}
			t, err := ip.MarshalText()
			if err != nil {
				return "?" + err.Error()
			}
			return string(t)
		}
		if v.IsNil() {
			return nil
		}
		l := make([]any, v.Len())
		for i := range l {
			l[i] = codecValueTree(v.Index(i))
		}
		return l
	case reflect.Pointer:
		if v.IsNil() {
			return nil
		}
		return codecValueTree(v.Elem())
	case reflect.Struct:
		m := map[string]any{}
		for i := 0; i < v.NumField(); i++ {
			if v.Type().Field(i).IsExported() {
				m[v.Type().Field(i).Name] = codecValueTree(v.Field(i))
			}
		}
		return m
	}
	return "?" + v.Kind().String()
}

func codecCanonValue(v reflect.Value) string {
	var b strings.Builder
	codecCanonAny(&b, codecValueTree(v))
	return b.String()
}

// ---------------------------------------------------------------- exec

func codecExec(tok []string) string {
	switch tok[0] {
	case "reset":
		return "-"
	case "rt":
		tb := byte(atoi(tok[1]))
		var seed int64
		fmt.Sscan(tok[2], &seed)
		trailer := []byte(unhx(tok[3]))
		v := buildValue(tb, seed)
		if v == nil {
			return "unregistered"
		}
		body, jerr := json.Marshal(v) // the JSON text is trusted (encoding/json)
		var buf bytes.Buffer
		werr := msg.WriteMsg(&buf, v)
		if jerr != nil || werr != nil {
			return "werr"
		}
		frame := append([]byte{}, buf.Bytes()...)
		r := &countingReader{data: append(append([]byte{}, frame...), trailer...), chunk: int(seed % 5)}
		m, err := msg.ReadMsg(r)
		eq := "-"
		// object level (bodies within the bound only): O = the real JSON body as a canonical object
		// text, V = the Go value that was written, W = the Go value that came back (reflection dumps,
		// independent of encoding/json)
		objO, objV, objW := "-", "-", "-"
		if len(body) <= 10240 {
			objO = codecCanonJSONText(body)
			objV = codecCanonValue(reflect.ValueOf(buildValue(tb, seed)).Elem())
			if err == nil && m != nil && reflect.TypeOf(m).Kind() == reflect.Pointer {
				objW = codecCanonValue(reflect.ValueOf(m).Elem())
			}
		}
		if err == nil && m != nil {
			orig := buildValue(tb, seed) // fresh copy, WriteMsg might have touched v
			normalise(reflect.ValueOf(orig).Elem())
			if reflect.TypeOf(m) == reflect.TypeOf(orig) {
				normalise(reflect.ValueOf(m).Elem())
			}
			if reflect.DeepEqual(orig, m) {
				eq = "eq"
			} else {
				eq = "ne"
			}
		}
		return fmt.Sprintf("B%s F%s %s %d %d %s O%s V%s W%s", hxb(body), hxb(frame), outcomeOf(m, err), r.off, r.bodyReq, eq, objO, objV, objW)
	case "rd":
		data := []byte(unhx(tok[1]))
		r := &countingReader{data: data, chunk: atoi(tok[2])}
		m, err := msg.ReadMsg(r)
		return fmt.Sprintf("%s %d %d", outcomeOf(m, err), r.off, r.bodyReq)
	case "into":
		data := []byte(unhx(tok[1]))
		r := &countingReader{data: data, chunk: atoi(tok[2])}
		var lr msg.LoginResp
		err := msg.ReadMsgInto(r, &lr)
		o := "ok"
		if err != nil {
			o = "err:" + codec_errClass(err)
		}
		return fmt.Sprintf("%s %d %d", o, r.off, r.bodyReq)
	case "first":
		return codecFirst("-", []byte(unhx(tok[1])))
	case "pfirst":
		return codecFirst(codecProfileTok(tok[1]), []byte(unhx(tok[2])))
	case "psess":
		return codecSess(codecProfileTok(tok[1]), []byte(unhx(tok[2])), []byte(unhx(tok[3])))
	case "prd", "pinto":
		return codecProc(tok)
	case "pcli":
		return codecCli(codecProfileTok(tok[1]), tok[2], []byte(unhx(tok[3])))
	case "later":
		return codecLater([]byte(unhx(tok[1])))
	case "disp":
		return codecDisp(tok)
	case "nh":
		return codecNH(tok)
	case "lane":
		return codecLane(tok)
	case "batch":
		return codecBatch(tok)
	case "fwd":
		return codecFwd(tok)
	case "sess":
		return codecSess("-", []byte(unhx(tok[1])), []byte(unhx(tok[2])))
	case "gold":
		data := []byte(unhx(tok[1]))
		m, err := msg.ReadMsg(bytes.NewReader(data))
		if err != nil || m == nil {
			return outcomeOf(m, err)
		}
		var buf bytes.Buffer
		if err := msg.WriteMsg(&buf, m); err != nil {
			return "werr"
		}
		out := buf.Bytes()
		var a, b any
		if len(out) >= 9 && len(data) >= 9 && out[0] == data[0] &&
			json.Unmarshal(out[9:], &a) == nil && json.Unmarshal(data[9:], &b) == nil && reflect.DeepEqual(a, b) {
			return "same"
		}
		return "differs:" + hxb(out)
	}
	return "badop"
}

// ---------------------------------------------------------------- live server for `first`

const codecToken = "verif-token"

type codecLive struct {
	addr string
	conn net.Conn      // the established session's control connection
	rw   io.ReadWriter // … wrapped as the protocol prescribes after login
	stop io.Closer     // closing it ends the child process
}

// one live frps per configuration profile ("-" = all defaults), started on demand
var lives = map[string]*codecLive{}

func codecFreePort() int {
	l, err := net.Listen("tcp", "127.0.0.1:0")
	if err != nil {
		panic(err)
	}
	defer l.Close()
	return l.Addr().(*net.TCPAddr).Port
}

func liveLogin(addr string) (net.Conn, io.ReadWriter, error) {
	c, err := net.DialTimeout("tcp", addr, 2*time.Second)
	if err != nil {
		return nil, nil, err
	}
	ts := time.Now().Unix()
	if err := msg.WriteMsg(c, &msg.Login{Version: version.Full(), User: "good", PrivilegeKey: util.GetAuthKey(codecToken, ts), Timestamp: ts}); err != nil {
		return nil, nil, err
	}
	_ = c.SetReadDeadline(time.Now().Add(3 * time.Second))
	var lr msg.LoginResp
	if err := msg.ReadMsgInto(c, &lr); err != nil {
		return nil, nil, err
	}
	_ = c.SetReadDeadline(time.Time{})
	if lr.Error != "" {
		return nil, nil, errors.New("login refused: " + lr.Error)
	}
	rw, err := netpkg.NewCryptoReadWriter(c, []byte(codecToken))
	return c, rw, err
}

// The live frps runs in a CHILD process (this binary re-executed with VERIF_CODEC_SERVE=<port>), so
// that a first message that kills the server (a panic in a connection goroutine cannot be recovered
// from outside) shows up as the result `dead` of that very op instead of taking the harness down.
func init() {
	if p := os.Getenv("VERIF_CODEC_SERVE"); p != "" {
		codecServe(p)
		os.Exit(0)
	}
}

func codecServe(port string) {
	log.InitLogger("console", "error", 0, true)
	cfg := &v1.ServerConfig{}
	if p, ok := codecParseProfile(os.Getenv("VERIF_CODEC_PROFILE")); ok {
		p.applyServer(cfg)
	}
	cfg.BindAddr = "127.0.0.1"
	cfg.BindPort = atoi(port)
	cfg.Auth.Token = codecToken
	f := false
	cfg.Transport.TCPMux = &f
	// sess streams carry generated NewProxy messages: whatever they ask for, the only port this frps may bind is 1
	cfg.AllowPorts = []types.PortsRange{{Start: 1, End: 1}}
	cfg.Complete()
	svr, err := server.NewService(cfg)
	if err != nil {
		fmt.Fprintln(os.Stderr, "serve:", err)
		os.Exit(3)
	}
	go func() { // die with the parent
		_, _ = io.Copy(io.Discard, os.Stdin)
		os.Exit(0)
	}()
	svr.Run(context.Background())
}

var liveBroken = map[string]string{} // set when a listening frps could not be logged into: not retried

// the live frps of a profile (nil + reason when it cannot be used)
func liveFor(profile string) (*codecLive, string) {
	if lives[profile] == nil && liveBroken[profile] == "" {
		if len(lives) >= 3 { // few processes at a time: the default one stays, the other profiles come one after the other
			for k, l := range lives {
				if k != "-" {
					_ = l.conn.Close()
					_ = l.stop.Close()
					delete(lives, k)
				}
			}
		}
		lives[profile] = liveStart(profile)
	}
	if lives[profile] == nil {
		delete(lives, profile)
		return nil, liveBroken[profile]
	}
	return lives[profile], ""
}

// is the established session of that frps still served?  If not the server is given up (a fresh one next time).
func liveCheck(profile string) string {
	l := lives[profile]
	if l != nil && l.alive() {
		return "alive"
	}
	if l != nil {
		_ = l.conn.Close()
		_ = l.stop.Close()
	}
	delete(lives, profile)
	return "dead"
}

func liveStart(profile string) *codecLive {
	var lastErr error
	for try := 0; try < 5; try++ { // a port may be taken between probing and binding: not frp's fault
		port := codecFreePort()
		cmd := exec.Command(os.Args[0])
		cmd.Env = append(os.Environ(), fmt.Sprintf("VERIF_CODEC_SERVE=%d", port), "VERIF_CODEC_PROFILE="+profile)
		cmd.Stderr = io.Discard
		stdin, err := cmd.StdinPipe()
		if err != nil {
			panic(err)
		}
		if err := cmd.Start(); err != nil {
			panic(err)
		}
		go func() { _ = cmd.Wait() }()
		addr := fmt.Sprintf("127.0.0.1:%d", port)
		listening := false
		for w := 0; w < 60 && !listening; w++ {
			if c, err := net.DialTimeout("tcp", addr, time.Second); err == nil {
				_ = c.Close()
				listening = true
			} else {
				lastErr = err
				time.Sleep(50 * time.Millisecond)
			}
		}
		if !listening {
			_ = stdin.Close()
			continue
		}
		c, rw, err := liveLogin(addr)
		if err != nil { // the server is up but a correct login does not work: the implementation's doing
			_ = stdin.Close()
			liveBroken[profile] = "nologin"
			return nil
		}
		return &codecLive{addr: addr, conn: c, rw: rw, stop: stdin}
	}
	panic(fmt.Sprint("cannot start live frps: ", lastErr))
}

func (l *codecLive) alive() bool {
	if err := msg.WriteMsg(l.rw, &msg.Ping{}); err != nil {
		return false
	}
	_ = l.conn.SetReadDeadline(time.Now().Add(3 * time.Second))
	defer l.conn.SetReadDeadline(time.Time{})
	m, err := msg.ReadMsg(l.rw)
	if err != nil {
		return false
	}
	p, ok := m.(*msg.Pong)
	return ok && p.Error == ""
}

func codecFirst(profile string, data []byte) string {
	live, why := liveFor(profile)
	if live == nil {
		return why
	}
	c, err := net.DialTimeout("tcp", live.addr, 2*time.Second)
	if err != nil {
		return "dialerr"
	}
	defer c.Close()
	_, _ = c.Write(data)
	_ = c.(*net.TCPConn).CloseWrite()
	_ = c.SetReadDeadline(time.Now().Add(1500 * time.Millisecond))
	got, rerr := io.ReadAll(c)
	res := "closed"
	var ne net.Error
	if errors.As(rerr, &ne) && ne.Timeout() {
		res = "open"
	} else if len(got) > 0 {
		res = "data+closed"
	}
	return res + " " + liveCheck(profile)
}

// codecLater: a second client logs in correctly and then sends `data` on its (encrypted) control
// stream, keeping the connection open.  Result: did the server end that session, and is the other
// established session still served?
func codecLater(data []byte) string {
	live, why := liveFor("-")
	if live == nil {
		return why
	}
	c, rw, err := liveLogin(live.addr)
	if err != nil {
		return "nologin"
	}
	defer c.Close()
	if len(data) > 0 {
		_, _ = rw.Write(data)
	}
	_ = c.SetReadDeadline(time.Now().Add(1500 * time.Millisecond))
	_, rerr := io.Copy(io.Discard, c)
	res := "closed"
	var ne net.Error
	if errors.As(rerr, &ne) && ne.Timeout() {
		res = "open"
	}
	return res + " " + liveCheck("-")
}

// ---------------------------------------------------------------- generator

func be64(n uint64) []byte {
	b := make([]byte, 8)
	binary.BigEndian.PutUint64(b, n)
	return b
}

func mkFrame(t byte, length uint64, body []byte) []byte {
	return append(append([]byte{t}, be64(length)...), body...)
}

var bodyPool = []string{"{}", "null", " null ", "\tnull\n", "nul", "nulll", "null{}", "[]", "1", "\"s\"", "true", "", " ", "{",
	"{\"version\":\"1\"}", "{\"version\":1}", "{\"unknown_field\":[1,2,{}]}", "{\"error\":\"e\",\"run_id\":\"r\"}",
	"{\"l\":{\"IP\":\"1.2.3.4\",\"Port\":53,\"Zone\":\"\"}}", "{\"l\":{\"IP\":\"not-an-ip\"}}", "{\"l\":null,\"c\":\"YQ==\"}",
	"{\"pool_count\":-11}", "{\"timestamp\":1e400}", "{\"src_port\":65536}", "{\"metas\":{\"a\":null}}", "{\"metas\":null}",
	"{\"proxy_name\":\"\\ud800\"}", "\xff\xfe", "{\"a\":\"\xff\"}"}

func codec_randBytes(rng *rand.Rand, n int) []byte {
	b := make([]byte, n)
	rng.Read(b)
	return b
}

func padJSON(n int) []byte { // a valid JSON object of exactly n ≥ 2 bytes
	return []byte("{" + strings.Repeat(" ", n-2) + "}")
}

func genFrameBytes(rng *rand.Rand) []byte {
	t := pick(rng, codecTypes)
	switch rng.Intn(16) {
	case 0: // a real message
		var buf bytes.Buffer
		_ = msg.WriteMsg(&buf, buildValue(t, 2+rng.Int63n(1<<40)))
		return buf.Bytes()
	case 1: // real message, one byte mutated
		var buf bytes.Buffer
		_ = msg.WriteMsg(&buf, buildValue(t, 2+rng.Int63n(1<<40)))
		b := buf.Bytes()
		if len(b) > 200 {
			b = b[:200+rng.Intn(len(b)-199)]
		}
		i := rng.Intn(min(len(b), 12))
		if rng.Intn(2) == 0 {
			i = rng.Intn(len(b))
		}
		b[i] ^= byte(1 << rng.Intn(8))
		return b
	case 2: // truncated at a random point
		b := mkFrame(t, uint64(len("{\"error\":\"e\"}")), []byte("{\"error\":\"e\"}"))
		return b[:rng.Intn(len(b))]
	case 3: // unknown type byte
		return mkFrame(byte(rng.Intn(256)), 2, []byte("{}"))
	case 4: // negative length
		return mkFrame(t, 1<<63|uint64(rng.Int63()), codec_randBytes(rng, rng.Intn(12)))
	case 5: // lengths around the limit with a short body
		return mkFrame(t, pick(rng, []uint64{10239, 10240, 10241, 10242, 65536, 1 << 20, 1 << 31, 1 << 32, 1<<63 - 1, math.MaxUint64, 1 << 63}), []byte("{}"))
	case 6: // body exactly at / over the limit
		n := pick(rng, []int{10238, 10239, 10240, 10241, 10300})
		return mkFrame(t, uint64(n), padJSON(n))
	case 7: // declared length shorter / longer than what follows
		body := []byte(pick(rng, bodyPool))
		d := rng.Intn(5) - 2
		l := len(body) + d
		if l < 0 {
			l = 0
		}
		return mkFrame(t, uint64(l), body)
	case 8: // random bytes
		return codec_randBytes(rng, rng.Intn(30))
	case 9: // registered type then random bytes
		return append([]byte{t}, codec_randBytes(rng, rng.Intn(30))...)
	case 10: // two frames back to back: only the first may be consumed
		a := mkFrame(t, 2, []byte("{}"))
		return append(a, mkFrame(pick(rng, codecTypes), 2, []byte("{}"))...)
	default: // hand-made bodies under a correct header, sometimes with trailing bytes
		body := []byte(pick(rng, bodyPool))
		b := mkFrame(t, uint64(len(body)), body)
		if rng.Intn(3) == 0 {
			b = append(b, codec_randBytes(rng, 1+rng.Intn(5))...)
		}
		return b
	}
}

func codecGen(rng *rand.Rand, n int, emit func(string)) {
	if len(codecTypes) == 0 {
		panic("no registered message types found")
	}
	types := append([]byte{}, codecTypes...)
	sort.Slice(types, func(i, j int) bool { return types[i] < types[j] })
	emit("reset")
	for _, g := range codecGolden {
		emit("gold x" + g)
	}
	// every type: zero value, oversize value, a few random ones
	for _, t := range types {
		for _, s := range []int64{0, 8, 1, 9, 2, 3, 4, 5, 6, 7} {
			emit(fmt.Sprintf("rt %d %d %s", t, s+8*rng.Int63n(1<<30), hxb(codec_randBytes(rng, rng.Intn(4)))))
		}
	}
	nFirst, nLater, nSess := 0, 0, 0
	cfgGen := &cdCfgGen{}
	for i := 0; i < n; i++ {
		// the bound as a property of the process in every configuration (few: real sockets, child processes)
		if i%32 == 21 {
			if op := cfgGen.next(rng); op != "" {
				emit(op)
				continue
			}
		}
		// session level: the real Dispatcher over a pipe (every 4th op), a live control connection (few)
		if i%16 == 1 {
			emit(cdGenNH(rng))
			continue
		}
		if i%16 == 9 {
			emit(cdGenLane(rng))
			continue
		}
		if i%32 == 5 {
			emit(cdGenBatch(rng))
			continue
		}
		if i%128 == 45 { // the two forwarders on real sockets: few
			emit(cdGenFwd(rng))
			continue
		}
		if i%4 == 3 {
			emit(cdGenDisp(rng))
			if nSess < 40 && rng.Intn(100) == 0 {
				nSess++
				emit(cdGenSess(rng))
			}
			continue
		}
		switch k := rng.Intn(20); {
		case k < 6:
			emit(fmt.Sprintf("rt %d %d %s", pick(rng, types), rng.Int63n(1<<40), hxb(codec_randBytes(rng, rng.Intn(4)))))
		case k < 17:
			emit(fmt.Sprintf("rd %s %d", hxb(genFrameBytes(rng)), pick(rng, []int{0, 0, 1, 3, 7, 4096})))
		case k < 19:
			emit(fmt.Sprintf("into %s %d", hxb(genFrameBytes(rng)), pick(rng, []int{0, 1, 5})))
			if nLater < 60 && rng.Intn(4) == 0 { // real sockets + a login each: keep the count small
				nLater++
				t := pick(rng, types)
				var b []byte
				switch rng.Intn(4) {
				case 0:
					b = mkFrame(byte(128+rng.Intn(128)), 2, []byte("{}"))
				case 1:
					b = mkFrame(t, 1<<63|uint64(rng.Int63()), nil)
				case 2:
					b = mkFrame(t, pick(rng, []uint64{10241, 1 << 20, 1<<63 - 1}), []byte("{}"))
				default:
					b = append(mkFrame(t, 2, []byte("{}")), codec_randBytes(rng, 12)...)
				}
				emit("later " + hxb(b))
			}
		default:
			if nFirst < 120 { // real sockets: keep the count small
				nFirst++
				b := genFrameBytes(rng)
				if len(b) > 0 && (b[0] == 'o' || b[0] == 'w' || b[0] == 'v') && rng.Intn(3) != 0 {
					b[0] = pick(rng, types) // mostly message types that are unexpected as a first message
				}
				emit("first " + hxb(b))
			}
		}
	}
}
