package main

// Differential part of engine "conf" (C18): the three file formats and the template layer.
// Third-party parsers (pelletier/go-toml, k8s yaml, encoding/json, text/template) are NOT modelled in
// Lean; these ops compare the real loaders with each other / with a document written out by hand.

import (
	"encoding/json"
	"fmt"
	"math/rand"
	"reflect"
	"sort"
	"strconv"
	"strings"

	"github.com/fatedier/frp/pkg/config"
	v1 "github.com/fatedier/frp/pkg/config/v1"
)

type kv struct {
	k string
	v any // string | int | bool | []string | map[string]string | []kv (table) | [][]kv (array of tables)
}

func jq(s string) string { b, _ := json.Marshal(s); return string(b) }

func scalar(v any) (string, bool) {
	switch x := v.(type) {
	case string:
		return jq(x), true
	case int:
		return strconv.Itoa(x), true
	case bool:
		return strconv.FormatBool(x), true
	case []string:
		p := []string{}
		for _, s := range x {
			p = append(p, jq(s))
		}
		return "[" + strings.Join(p, ", ") + "]", true
	}
	return "", false
}

func toJSONTree(t []kv) map[string]any {
	m := map[string]any{}
	for _, e := range t {
		switch x := e.v.(type) {
		case []kv:
			m[e.k] = toJSONTree(x)
		case [][]kv:
			l := []any{}
			for _, el := range x {
				l = append(l, toJSONTree(el))
			}
			m[e.k] = l
		default:
			m[e.k] = x
		}
	}
	return m
}

func toYAML(t []kv, ind string, b *strings.Builder) {
	for _, e := range t {
		switch x := e.v.(type) {
		case []kv:
			fmt.Fprintf(b, "%s%s:\n", ind, jq(e.k))
			toYAML(x, ind+"  ", b)
		case [][]kv:
			fmt.Fprintf(b, "%s%s:\n", ind, jq(e.k))
			for _, el := range x {
				var sb strings.Builder
				toYAML(el, ind+"    ", &sb)
				s := sb.String()
				// first line carries the "- " marker
				fmt.Fprintf(b, "%s  - %s", ind, strings.TrimPrefix(s, ind+"    "))
			}
		case map[string]string:
			if len(x) == 0 {
				fmt.Fprintf(b, "%s%s: {}\n", ind, jq(e.k))
				continue
			}
			fmt.Fprintf(b, "%s%s:\n", ind, jq(e.k))
			keys := []string{}
			for k := range x {
				keys = append(keys, k)
			}
			sort.Strings(keys)
			for _, k := range keys {
				fmt.Fprintf(b, "%s  %s: %s\n", ind, jq(k), jq(x[k]))
			}
		default:
			s, _ := scalar(x)
			fmt.Fprintf(b, "%s%s: %s\n", ind, jq(e.k), s)
		}
	}
}

func toTOML(t []kv, path string, b *strings.Builder) {
	// scalars of this table first, then sub-tables
	for _, e := range t {
		if s, ok := scalar(e.v); ok {
			fmt.Fprintf(b, "%s = %s\n", e.k, s)
		}
	}
	for _, e := range t {
		p := e.k
		if path != "" {
			p = path + "." + e.k
		}
		switch x := e.v.(type) {
		case []kv:
			fmt.Fprintf(b, "\n[%s]\n", p)
			toTOML(x, p, b)
		case map[string]string:
			fmt.Fprintf(b, "\n[%s]\n", p)
			keys := []string{}
			for k := range x {
				keys = append(keys, k)
			}
			sort.Strings(keys)
			for _, k := range keys {
				fmt.Fprintf(b, "%s = %s\n", jq(k), jq(x[k]))
			}
		case [][]kv:
			for _, el := range x {
				fmt.Fprintf(b, "\n[[%s]]\n", p)
				toTOML(el, p, b)
			}
		}
	}
}

// inject adds an unknown key at nesting level `level` (0 = top; deeper = first table / array element
// found on the way down); returns false when the tree is not that deep
func inject(t []kv, level int) ([]kv, bool) {
	if level == 0 {
		return append(append([]kv{}, t...), kv{"zzUnknownField", 1}), true
	}
	for i, e := range t {
		switch x := e.v.(type) {
		case []kv:
			if n, ok := inject(x, level-1); ok {
				c := append([]kv{}, t...)
				c[i] = kv{e.k, n}
				return c, true
			}
		case [][]kv:
			for j, el := range x {
				if n, ok := inject(el, level-1); ok {
					c := append([]kv{}, t...)
					els := append([][]kv{}, x...)
					els[j] = n
					c[i] = kv{e.k, els}
					return c, true
				}
			}
		}
	}
	return nil, false
}

func genProxyTree(rng *rand.Rand, i int) []kv {
	t := pick(rng, confTypes)
	p := []kv{{"name", "p" + strconv.Itoa(i) + pick(rng, []string{"", "-名", " x"})}, {"type", t}}
	if rng.Intn(2) == 0 {
		p = append(p, kv{"localIP", pick(rng, []string{"127.0.0.1", "10.0.0.5", "::1"})})
	}
	p = append(p, kv{"localPort", pick(rng, []int{0, 22, 8080, 65535})})
	if rng.Intn(2) == 0 {
		tr := []kv{{"useEncryption", rng.Intn(2) == 0}}
		if rng.Intn(2) == 0 {
			tr = append(tr, kv{"bandwidthLimit", pick(rng, []string{"1MB", "10KB", "1.5MB"})})
		}
		if rng.Intn(2) == 0 {
			tr = append(tr, kv{"bandwidthLimitMode", pick(rng, []string{"client", "server"})})
		}
		p = append(p, kv{"transport", tr})
	}
	if rng.Intn(3) == 0 {
		p = append(p, kv{"metadatas", map[string]string{"k": pick(rng, confStrings), "Key Two": "v"}})
	}
	if rng.Intn(3) == 0 {
		p = append(p, kv{"loadBalancer", []kv{{"group", "g"}, {"groupKey", pick(rng, confStrings)}}})
	}
	switch t {
	case "tcp", "udp":
		p = append(p, kv{"remotePort", pick(rng, []int{0, 6000, 65535})})
	case "http":
		p = append(p, kv{"customDomains", []string{pick(rng, confDomains)}})
		if rng.Intn(2) == 0 {
			p = append(p, kv{"locations", []string{"/", "/a b"}})
			p = append(p, kv{"requestHeaders", []kv{{"set", map[string]string{"X-From": "frp"}}}})
		}
	case "https":
		p = append(p, kv{"subdomain", "blog"})
	case "tcpmux":
		p = append(p, kv{"customDomains", []string{pick(rng, confDomains), "b.org"}}, kv{"multiplexer", "httpconnect"})
	default:
		p = append(p, kv{"secretKey", pick(rng, confStrings)})
		if rng.Intn(2) == 0 {
			p = append(p, kv{"allowUsers", []string{"*"}})
		}
	}
	return p
}

func genClientTree(rng *rand.Rand) []kv {
	t := []kv{{"serverAddr", pick(rng, []string{"1.2.3.4", "frps.example.com"})}, {"serverPort", pick(rng, []int{7000, 443})}}
	if rng.Intn(2) == 0 {
		t = append(t, kv{"user", pick(rng, []string{"u", "Ünï"})})
	}
	if rng.Intn(2) == 0 {
		t = append(t, kv{"auth", []kv{{"method", "token"}, {"token", pick(rng, confStrings)}}})
	}
	if rng.Intn(2) == 0 {
		t = append(t, kv{"transport", []kv{{"protocol", pick(rng, []string{"tcp", "kcp", "quic"})},
			{"tls", []kv{{"enable", rng.Intn(2) == 0}, {"serverName", "n"}}}}})
	}
	px := [][]kv{}
	for i := 0; i < 1+rng.Intn(3); i++ {
		px = append(px, genProxyTree(rng, i))
	}
	t = append(t, kv{"proxies", px})
	return t
}

func loadAll(tree []kv, strict bool) (res [3]*v1.ClientConfig, errs [3]error, docs [3]string) {
	jb, _ := json.MarshalIndent(toJSONTree(tree), "", "  ")
	var yb, tb strings.Builder
	toYAML(tree, "", &yb)
	toTOML(tree, "", &tb)
	docs = [3]string{tb.String(), yb.String(), string(jb)}
	for i, d := range docs {
		c := &v1.ClientConfig{}
		errs[i] = config.LoadConfigure([]byte(d), c, strict)
		res[i] = c
	}
	return
}

func confFmt(tok []string) string {
	rng := rand.New(rand.NewSource(int64(atoi(tok[1]))))
	strict, inj := tok[2] == "1", tok[3] == "1"
	tree := genClientTree(rng)
	base, berrs, bdocs := loadAll(tree, strict)
	for i, e := range berrs {
		if e != nil {
			return fmt.Sprintf("differ base-load-error fmt=%d %s", i, hx(e.Error()+"\n"+bdocs[i]))
		}
	}
	if !reflect.DeepEqual(base[0], base[1]) || !reflect.DeepEqual(base[1], base[2]) {
		return "differ formats-disagree " + hx(bdocs[0])
	}
	// defaults are applied identically: Complete on each loaded structure keeps them equal
	for _, c := range base {
		c.ClientCommonConfig.Complete()
		for _, p := range c.Proxies {
			p.Complete(c.User)
		}
	}
	if !reflect.DeepEqual(base[0], base[1]) || !reflect.DeepEqual(base[1], base[2]) {
		return "differ defaults-disagree " + hx(bdocs[0])
	}
	if !inj {
		return "same ok"
	}
	level := rng.Intn(4)
	var t2 []kv
	for ; level >= 0; level-- {
		if n, ok := inject(tree, level); ok {
			t2 = n
			break
		}
	}
	got, errs, docs := loadAll(t2, strict)
	for i, e := range errs {
		if strict && e == nil {
			return fmt.Sprintf("differ strict-accepted-unknown fmt=%d level=%d %s", i, level, hx(docs[i]))
		}
		if !strict && e != nil {
			return fmt.Sprintf("differ lenient-rejected fmt=%d level=%d %s", i, level, hx(e.Error()))
		}
	}
	if strict {
		return "same err"
	}
	for _, c := range got {
		c.ClientCommonConfig.Complete()
		for _, p := range c.Proxies {
			p.Complete(c.User)
		}
		if !reflect.DeepEqual(c, base[0]) {
			return "differ lenient-changed-result"
		}
	}
	return "same ok"
}

// tmpl: a templated document with environment values and enumerated port pairs against the same
// document written out by the harness (ranges are generated as numbers, so the expected expansion is
// known by construction, without parsing).
func confTmpl(tok []string) string {
	rng := rand.New(rand.NewSource(int64(atoi(tok[1]))))
	envs := map[string]string{"FRP_A": pick(rng, []string{"alpha", "1.2.3.4", "with space", "ünï"}), "FRP_PORT": strconv.Itoa(7000 + rng.Intn(100))}
	type seg struct{ lo, n int }
	mk := func() ([]seg, string, int) {
		segs, parts, total := []seg{}, []string{}, 0
		for i := 0; i < 1+rng.Intn(3); i++ {
			s := seg{1000 + rng.Intn(60000), 1 + rng.Intn(4)}
			segs = append(segs, s)
			total += s.n
			if s.n == 1 {
				parts = append(parts, strconv.Itoa(s.lo))
			} else {
				parts = append(parts, fmt.Sprintf("%d-%d", s.lo, s.lo+s.n-1))
			}
		}
		return segs, strings.Join(parts, ","), total
	}
	expandSegs := func(ss []seg) []int {
		out := []int{}
		for _, s := range ss {
			for i := 0; i < s.n; i++ {
				out = append(out, s.lo+i)
			}
		}
		return out
	}
	a, as, an := mk()
	b, bs, bn := mk()
	var tpl, want strings.Builder
	tpl.WriteString("serverAddr = \"{{ .Envs.FRP_A }}\"\nserverPort = {{ .Envs.FRP_PORT }}\n")
	// "{{-" trims the line break in front of the range action
	want.WriteString("serverAddr = \"" + envs["FRP_A"] + "\"\nserverPort = " + envs["FRP_PORT"])
	tpl.WriteString(fmt.Sprintf("{{- range $_, $v := parseNumberRangePair %q %q }}\n[[proxies]]\nname = \"tcp-{{ $v.First }}\"\nlocalPort = {{ $v.First }}\nremotePort = {{ $v.Second }}\n{{- end }}\n", as, bs))
	out, err := config.RenderWithTemplate([]byte(tpl.String()), &config.Values{Envs: envs})
	if an != bn {
		if err == nil {
			return "differ unpaired-ranges-accepted"
		}
		return "same"
	}
	if err != nil {
		return "differ render-error " + hx(err.Error())
	}
	xa, xb := expandSegs(a), expandSegs(b)
	for i := range xa {
		want.WriteString(fmt.Sprintf("\n[[proxies]]\nname = \"tcp-%d\"\nlocalPort = %d\nremotePort = %d", xa[i], xa[i], xb[i]))
	}
	want.WriteString("\n")
	if string(out) != want.String() {
		return "differ rendered-text " + hx(string(out))
	}
	return "same"
}
