package main

import (
	"context"
	"fmt"
	"io"
	"math/rand"
	"net"
	"sort"
	"strings"
	"sync"
	"time"

	libio "github.com/fatedier/golib/io"
	"github.com/samber/lo"

	"github.com/fatedier/frp/client"
	cproxy "github.com/fatedier/frp/client/proxy"
	"github.com/fatedier/frp/client/visitor"
	v1 "github.com/fatedier/frp/pkg/config/v1"
	"github.com/fatedier/frp/pkg/msg"
	"github.com/fatedier/frp/pkg/proto/udp"
	"github.com/fatedier/frp/pkg/transport"
	"github.com/fatedier/frp/pkg/vnet"
	"github.com/fatedier/frp/server"
)

// Three ops of engine "udp" (property C03) around the CLIENT side of a sudp proxy (client/proxy/sudp.go) and
// the codec's value semantics.
//
//	cpx ps=<ps> enc=<0|1> comp=<0|1> s=<tok,tok,...>
//	  the real proxy.NewProxy(SUDPProxyConfig).Run/InWorkConn/Close with SEVERAL scripted work connections that
//	  are alive at the same time (one per visitor connection, as frps hands them over); the harness plays
//	  frps + the visitors on the far end of every work connection (same wrappers as frps) and the backend.
//	  o                     a new work connection (numbered 0, 1, … in the order of the `o` tokens); NOT synchronised
//	                        with traffic in flight on the other connections
//	  d<c>.<u>.<len>.<seed> a UDPPacket of user address u on connection c; the backend answers at once; wait until
//	                        everything expected on connection c has arrived (backend and far end of c)
//	  D<c>.<u>.<len>.<seed> the same without waiting (burst; stays in flight while later tokens act on other connections)
//	  q<c>.<u>.<len>.<seed> the same, but the backend HOLDS its answer (request/reply window stays open); wait for the backend
//	  a                     wait for everything, then the backend sends all held answers; wait for them
//	  b<c>.<u>.<len>.<seed> a UDPPacket whose content is not base64 (nobody may get anything)
//	  x<c> | y<c> | z<c>    what is expected on c is waited for, then connection c goes away: FIN from the far end |
//	                        frame of unknown type | frame longer than the 10240 limit; wait until the proxy has closed c
//	  C                     wait for everything, then pxy.Close(); wait until the proxy has closed every connection
//	  tokens on a connection that the script has taken away (or that does not exist) are ignored
//	  => B=<u.seq.len.hash,...>;R0=<u.seq.len.hash,...>;R1=…;alive=<0|1 per connection>;socks=<n>;mixed=<0|1>;bad=<n>
//	     B = what the backend got, Rc = UDPPackets read back on the far end of connection c, alive = the proxy
//	     has not closed connection c, socks = backend-side source ports, mixed = one source port carried
//	     datagrams of two (connection, user) pairs, bad = packets with a wrong address tag / undecodable content
//
//	e2ev ps=<ps> enc=<0|1> comp=<0|1> v=<nv> k=<k> s=<tok,tok,...>
//	  nv real SUDPVisitors (fresh per op; user u talks to visitor u mod nv) -> real frps -> ONE real frpc sudp proxy
//	  (frps + frpc kept per (ps, enc, comp)); the first datagram of a visitor opens its visitor connection and
//	  with it a new work connection of the proxy, while the other visitors' requests are outstanding.
//	  d<u>.<len>.<seed> | D… | q… | a   as above (user u instead of connection/user)
//	  => B=…;U0=…;…;socks=<n>;mixed=<0|1>     (as `tunnel`)
//
//	batch w=<w> p=<len.seed,...>
//	  w goroutines at once; each builds its packets with the real NewUDPPacket, decodes ALL of them with the real
//	  GetContent KEEPING every result, and only afterwards are the kept results looked at
//	  => W0=<len.hash,...>;W1=…     (hash of the retained result i of worker j; its payload is lcg(seed_i + 7919 j))
//
// seq = index of the token in the script; payload as in `tunnel` (first byte 'Q', or 'H' for a held answer);
// the backend answers tunnelReply(payload).
type pxHeld struct {
	reply []byte
	from  *net.UDPAddr
}

type pxBackend struct {
	conn   *net.UDPConn
	mu     sync.Mutex
	log    []tentry
	keyOf  func(e tentry) int // which (connection, user) pair a datagram belongs to
	srcKey map[int]int        // source port -> key of its first datagram
	src    map[int]*net.UDPAddr
	mixed  int
	held   []pxHeld
	got    map[int]int // key -> datagrams received
	count  int
}

func newPxBackend() *pxBackend {
	c, err := net.ListenUDP("udp", &net.UDPAddr{IP: net.IPv4(127, 0, 0, 1)})
	if err != nil {
		panic(err)
	}
	_ = c.SetReadBuffer(4 << 20)
	b := &pxBackend{conn: c}
	b.reset(func(e tentry) int { return e.u })
	go b.serve()
	return b
}

func (b *pxBackend) reset(keyOf func(e tentry) int) {
	b.mu.Lock()
	b.log, b.srcKey, b.src, b.mixed, b.held, b.got, b.count = nil, map[int]int{}, map[int]*net.UDPAddr{}, 0, nil, map[int]int{}, 0
	b.keyOf = keyOf
	b.mu.Unlock()
}

func (b *pxBackend) port() int { return b.conn.LocalAddr().(*net.UDPAddr).Port }

func (b *pxBackend) serve() {
	buf := make([]byte, 70000)
	for {
		n, from, err := b.conn.ReadFromUDP(buf)
		if err != nil {
			return
		}
		p := append([]byte(nil), buf[:n]...)
		if n > 0 && p[0] == 'P' { // readiness probe
			_, _ = b.conn.WriteToUDP(p, from)
			continue
		}
		e := entryOf(p)
		b.mu.Lock()
		key := b.keyOf(e)
		b.log = append(b.log, e)
		if k0, ok := b.srcKey[from.Port]; ok {
			if k0 != key {
				b.mixed = 1
			}
		} else {
			b.srcKey[from.Port] = key
			b.src[from.Port] = from
		}
		b.got[key]++
		b.count++
		hold := n > 0 && p[0] == 'H'
		if hold {
			b.held = append(b.held, pxHeld{tunnelReply(p), from})
		}
		b.mu.Unlock()
		if !hold {
			_, _ = b.conn.WriteToUDP(tunnelReply(p), from)
		}
	}
}

func (b *pxBackend) release() {
	b.mu.Lock()
	h := b.held
	b.held = nil
	b.mu.Unlock()
	for _, x := range h {
		_, _ = b.conn.WriteToUDP(x.reply, x.from)
	}
}

func pxPayload(hold bool, u, seq, ln, seed int) []byte {
	p := tunnelPayload(u, seq, ln, seed)
	if hold {
		p[0] = 'H'
	}
	return p
}

func pxUserAddr(u int) *net.UDPAddr { return &net.UDPAddr{IP: net.IPv4(127, 0, 0, 1), Port: 40000 + u} }

// ---------------------------------------------------------------- cpx

const pxToken = "c03-px-token"

type pxConn struct {
	raw   net.Conn
	rw    io.ReadWriteCloser
	mu    sync.Mutex
	r     []tentry
	bad   int
	eof   bool
	eofCh chan struct{}
}

func (c *pxConn) read() {
	defer func() {
		c.mu.Lock()
		c.eof = true
		c.mu.Unlock()
		close(c.eofCh)
	}()
	for {
		raw, err := msg.ReadMsg(c.rw)
		if err != nil {
			return
		}
		m, ok := raw.(*msg.UDPPacket)
		if !ok {
			continue // Ping
		}
		b, derr := udp.GetContent(m)
		e := entryOf(b)
		c.mu.Lock()
		if derr != nil || m.LocalAddr != nil || m.RemoteAddr == nil || m.RemoteAddr.Port != 40000+e.u || !m.RemoteAddr.IP.IsLoopback() {
			c.bad++
		}
		c.r = append(c.r, e)
		c.mu.Unlock()
	}
}

type pxTok struct {
	kind       byte
	c, u, l, s int
}

func pxParse(t string, withConn bool) pxTok {
	k := pxTok{kind: t[0]}
	if len(t) == 1 {
		return k
	}
	f := strings.Split(t[1:], ".")
	if !withConn {
		f = append([]string{"0"}, f...)
	}
	k.c = atoi(f[0])
	if len(f) == 4 {
		k.u, k.l, k.s = atoi(f[1]), atoi(f[2]), atoi(f[3])
	}
	return k
}

func pxWait(cond func() bool, max time.Duration) bool {
	deadline := time.Now().Add(max)
	for {
		if cond() {
			return true
		}
		if time.Now().After(deadline) {
			return false
		}
		time.Sleep(100 * time.Microsecond)
	}
}

// runCpx executes one script; second result = something expected did not arrive (and nothing is wrong)
func runCpx(ps int, enc, comp bool, script []string) (string, bool) {
	be := newPxBackend()
	be.reset(func(e tentry) int { return -1 }) // replaced below once the script is parsed
	toks := make([]pxTok, len(script))
	seqConn := map[int]int{}
	for i, t := range script {
		toks[i] = pxParse(t, true)
		seqConn[i] = toks[i].c
	}
	be.reset(func(e tentry) int {
		c, ok := seqConn[e.seq]
		if !ok {
			return -1
		}
		return c*1000 + e.u
	})

	pc := &v1.SUDPProxyConfig{}
	pc.Name = "c03px"
	pc.Type = "sudp"
	pc.Secretkey = "c03-sk"
	pc.LocalIP = "127.0.0.1"
	pc.LocalPort = be.port()
	pc.Transport.UseEncryption = enc
	pc.Transport.UseCompression = comp
	pc.Complete("")
	ccfg := &v1.ClientCommonConfig{UDPPacketSize: int64(ps)}
	ccfg.Auth.Token = pxToken
	pxy := cproxy.NewProxy(context.Background(), pc, ccfg, nil, nil)
	if pxy == nil {
		panic("no sudp proxy factory")
	}
	if err := pxy.Run(); err != nil {
		panic(err)
	}
	ln, err := net.Listen("tcp", "127.0.0.1:0")
	if err != nil {
		panic(err)
	}

	var conns []*pxConn
	dead := map[int]bool{}  // taken away by the script
	expB := map[int]int{}   // per connection: datagrams the backend must have
	expR := map[int]int{}   // per connection: answers the far end must have read
	heldOn := map[int]int{} // per connection: answers the backend holds
	missing, surplus := false, false
	patience := 400 * time.Millisecond
	gotB := func(c int) int {
		n := 0
		be.mu.Lock()
		for k, v := range be.got {
			if k >= 0 && k/1000 == c {
				n += v
			}
		}
		be.mu.Unlock()
		return n
	}
	gotR := func(c int) int {
		conns[c].mu.Lock()
		defer conns[c].mu.Unlock()
		return len(conns[c].r)
	}
	wrong := false // the proxy closed a connection the script has not taken away: the verdict is settled
	syncConn := func(c int) {
		if c >= len(conns) {
			return
		}
		gone := func() bool {
			select {
			case <-conns[c].eofCh:
				return !dead[c]
			default:
				return false
			}
		}
		ok := pxWait(func() bool {
			b, r := gotB(c), gotR(c)
			if b > expB[c] || r > expR[c] {
				surplus = true
			}
			if gone() {
				wrong = true
				return true // nothing more will come on this connection
			}
			return b >= expB[c] && r >= expR[c]
		}, patience)
		if !ok {
			missing = true
			patience = max(patience/4, 20*time.Millisecond)
		}
		if !ok || gone() {
			expB[c], expR[c] = gotB(c), gotR(c) // given up on: later waits do not pay for them again
		}
		if surplus {
			patience = 20 * time.Millisecond
		}
	}
	syncAll := func() {
		for c := range conns {
			syncConn(c)
		}
	}
	waitEOF := func(c int) {
		select {
		case <-conns[c].eofCh:
		case <-time.After(2 * time.Second):
		}
	}
	alive := func(c int) bool { return c < len(conns) && !dead[c] }
	closed := false // pxy.Close() has been called

	for i, t := range toks {
		switch t.kind {
		case 'o':
			far, err := net.Dial("tcp", ln.Addr().String())
			if err != nil {
				panic(err)
			}
			near, err := ln.Accept()
			if err != nil {
				panic(err)
			}
			// as frps wraps the work connection of a proxy (server/proxy/proxy.go handleUserTCPConnection)
			var rw io.ReadWriteCloser = far
			if enc {
				rw, err = libio.WithEncryption(rw, []byte(pxToken))
				if err != nil {
					panic(err)
				}
			}
			if comp {
				rw = libio.WithCompression(rw)
			}
			c := &pxConn{raw: far, rw: rw, eofCh: make(chan struct{})}
			conns = append(conns, c)
			go pxy.InWorkConn(near, &msg.StartWorkConn{ProxyName: "c03px"}) // as client/proxy.Wrapper.InWorkConn
			go c.read()
			if closed {
				dead[len(conns)-1] = true
				waitEOF(len(conns) - 1)
			}
		case 'd', 'D', 'q', 'b':
			if !alive(t.c) {
				continue
			}
			var m *msg.UDPPacket
			if t.kind == 'b' {
				_, _ = conns[t.c].rw.Write(udpRawFrame("!*", nil, pxUserAddr(t.u)))
				continue
			} else {
				m = udp.NewUDPPacket(pxPayload(t.kind == 'q', t.u, i, t.l, t.s), nil, pxUserAddr(t.u))
				expB[t.c]++
				if t.kind == 'q' {
					heldOn[t.c]++
				} else {
					expR[t.c]++
				}
			}
			_ = msg.WriteMsg(conns[t.c].rw, m)
			if t.kind == 'd' || t.kind == 'q' {
				syncConn(t.c)
			}
		case 'a':
			syncAll()
			for c := range conns {
				if alive(c) {
					expR[c] += heldOn[c]
				}
				heldOn[c] = 0
			}
			be.release()
			syncAll()
		case 'x', 'y', 'z':
			if !alive(t.c) {
				continue
			}
			syncConn(t.c)
			c := conns[t.c]
			switch t.kind {
			case 'x':
				if tc, ok := c.raw.(*net.TCPConn); ok {
					_ = tc.CloseWrite()
				}
			case 'y':
				_, _ = c.rw.Write([]byte{0x7e, 0, 0, 0, 0, 0, 0, 0, 2, '{', '}'})
			case 'z':
				_, _ = c.rw.Write([]byte{'u', 0, 0, 0, 0, 0, 0, 0x28, 0x01})
			}
			dead[t.c] = true
			waitEOF(t.c)
		case 'C':
			syncAll()
			pxy.Close()
			closed = true
			for c := range conns {
				if alive(c) {
					dead[c] = true
					waitEOF(c)
				}
			}
		default:
			panic("bad cpx token " + script[i])
		}
	}
	syncAll()
	time.Sleep(3 * time.Millisecond) // let a duplicate show up

	al := ""
	for _, c := range conns {
		c.mu.Lock()
		if c.eof {
			al += "0"
		} else {
			al += "1"
		}
		c.mu.Unlock()
	}
	be.mu.Lock()
	out := "B=" + fmtEntries(append([]tentry(nil), be.log...))
	nB := len(be.log)
	socks, mixed := len(be.srcKey), be.mixed
	ports := be.src
	be.mu.Unlock()
	bad, nR := 0, 0
	for i, c := range conns {
		c.mu.Lock()
		out += fmt.Sprintf(";R%d=%s", i, fmtEntries(append([]tentry(nil), c.r...)))
		bad += c.bad
		nR += len(c.r)
		c.mu.Unlock()
	}
	out += fmt.Sprintf(";alive=%s;socks=%d;mixed=%d;bad=%d", al, socks, mixed, bad)
	_, _ = nB, nR

	// teardown: the proxy, every connection, and the per-user sockets of the Forwarders (their reader
	// goroutines leave when a datagram arrives and the send on the closed channel panics - recovered by the real code)
	pxy.Close()
	for _, c := range conns {
		c.raw.Close()
	}
	ln.Close()
	for _, c := range conns {
		waitEOF2(c)
	}
	time.Sleep(time.Millisecond)
	for _, a := range ports {
		_, _ = be.conn.WriteToUDP([]byte{0}, a)
	}
	time.Sleep(time.Millisecond)
	be.conn.Close()
	return out, missing && !surplus && !wrong && bad == 0
}

func waitEOF2(c *pxConn) {
	select {
	case <-c.eofCh:
	case <-time.After(time.Second):
	}
}

func cpxExec(tok []string) string {
	ps := atoi(strings.TrimPrefix(tok[1], "ps="))
	enc := tok[2] == "enc=1"
	comp := tok[3] == "comp=1"
	var script []string
	if s := strings.TrimPrefix(tok[4], "s="); s != "" {
		script = strings.Split(s, ",")
	}
	res, missing := runCpx(ps, enc, comp, script)
	if udpRerunWorthIt(missing) {
		res, missing = runCpx(ps, enc, comp, script)
		udpRerunDone(missing)
	}
	return res
}

// ---------------------------------------------------------------- e2ev

type e2evPair struct {
	port    int // frps bind port
	be      *pxBackend
	enc, cp bool
	ps      int
}

var e2evPairs = map[string]*e2evPair{}

// e2evHelper is the visitor.Helper of a stand-alone SUDPVisitor: every visitor connection is a fresh TCP
// connection to the real frps (tcpMux off on this frps).
type e2evHelper struct {
	port int
	mu   sync.Mutex
	all  []net.Conn
}

func (h *e2evHelper) ConnectServer() (net.Conn, error) {
	c, err := net.Dial("tcp", fmt.Sprintf("127.0.0.1:%d", h.port))
	if err == nil {
		h.mu.Lock()
		h.all = append(h.all, c)
		h.mu.Unlock()
	}
	return c, err
}
func (h *e2evHelper) TransferConn(string, net.Conn) error          { return nil }
func (h *e2evHelper) MsgTransporter() transport.MessageTransporter { return nil }
func (h *e2evHelper) VNetController() *vnet.Controller             { return nil }
func (h *e2evHelper) RunID() string                                { return "" }
func (h *e2evHelper) closeAll() {
	h.mu.Lock()
	for _, c := range h.all {
		c.Close()
	}
	h.mu.Unlock()
}

func e2evVisitor(p *e2evPair, h *e2evHelper) (visitor.Visitor, int) {
	// the port is found free and bound a moment later: another process may take it in between
	for try := 0; ; try++ {
		port := freeUDPPort()
		cfg := &v1.SUDPVisitorConfig{}
		cfg.Name = fmt.Sprintf("c03v_visitor_%d", port)
		cfg.Type = "sudp"
		cfg.ServerName = "c03sudpv"
		cfg.SecretKey = "c03-sk"
		cfg.BindAddr = "127.0.0.1"
		cfg.BindPort = port
		cfg.Transport.UseEncryption = p.enc
		cfg.Transport.UseCompression = p.cp
		vis, err := visitor.NewVisitor(context.Background(), cfg, &v1.ClientCommonConfig{UDPPacketSize: int64(p.ps)}, h)
		if err != nil {
			panic(err)
		}
		if err := vis.Run(); err != nil {
			if try < 5 {
				continue
			}
			panic(err)
		}
		return vis, port
	}
}

func getE2evPair(ps int, enc, comp bool) *e2evPair {
	key := fmt.Sprintf("%d/%v/%v", ps, enc, comp)
	if p, ok := e2evPairs[key]; ok {
		return p
	}
	if e2eDown["v/"+key] {
		return nil
	}
	p := &e2evPair{be: newPxBackend(), enc: enc, cp: comp, ps: ps}
	var scfg *v1.ServerConfig
	for try := 0; ; try++ {
		scfg = &v1.ServerConfig{}
		scfg.BindAddr = "127.0.0.1"
		scfg.BindPort = freeTCPPort()
		scfg.ProxyBindAddr = "127.0.0.1"
		scfg.UDPPacketSize = int64(ps)
		scfg.Transport.TCPMux = lo.ToPtr(false)
		scfg.Complete()
		svr, err := server.NewService(scfg)
		if err != nil {
			if try < 5 { // the port was taken by another process between the probe and the bind
				continue
			}
			panic(err)
		}
		go svr.Run(context.Background())
		break
	}
	p.port = scfg.BindPort

	ccfg := &v1.ClientCommonConfig{}
	ccfg.ServerAddr = "127.0.0.1"
	ccfg.ServerPort = scfg.BindPort
	ccfg.UDPPacketSize = int64(ps)
	ccfg.Transport.TCPMux = lo.ToPtr(false)
	f := false
	ccfg.LoginFailExit = &f
	ccfg.Complete()
	pc := &v1.SUDPProxyConfig{}
	pc.Name = "c03sudpv"
	pc.Type = "sudp"
	pc.Secretkey = "c03-sk"
	pc.LocalIP = "127.0.0.1"
	pc.LocalPort = p.be.port()
	pc.Transport.UseEncryption = enc
	pc.Transport.UseCompression = comp
	pc.Complete("")
	cli, err := client.NewService(client.ServiceOptions{Common: ccfg, ProxyCfgs: []v1.ProxyConfigurer{pc}})
	if err != nil {
		panic(err)
	}
	go func() { _ = cli.Run(context.Background()) }()

	// ready when a probe makes the round trip through a visitor of its own
	h := &e2evHelper{port: p.port}
	vis, port := e2evVisitor(p, h)
	probe, err := net.DialUDP("udp", nil, &net.UDPAddr{IP: net.IPv4(127, 0, 0, 1), Port: port})
	if err != nil {
		panic(err)
	}
	defer func() { probe.Close(); vis.Close(); h.closeAll() }()
	buf := make([]byte, 16)
	deadline := time.Now().Add(8 * time.Second)
	for time.Now().Before(deadline) {
		_, _ = probe.Write([]byte{'P'})
		_ = probe.SetReadDeadline(time.Now().Add(50 * time.Millisecond))
		if n, err := probe.Read(buf); err == nil && n == 1 {
			e2evPairs[key] = p
			return p
		}
	}
	e2eDown["v/"+key] = true
	return nil
}

func runE2ev(p *e2evPair, nv, k int, script []string) (string, bool) {
	p.be.reset(func(e tentry) int { return e.u })
	h := &e2evHelper{port: p.port}
	viss := make([]visitor.Visitor, nv)
	ports := make([]int, nv)
	for i := range viss {
		viss[i], ports[i] = e2evVisitor(p, h)
	}
	users := make([]*net.UDPConn, k)
	uLog := make([][]tentry, k)
	var mu sync.Mutex
	got := 0
	var wg sync.WaitGroup
	for i := 0; i < k; i++ {
		c, err := net.DialUDP("udp", nil, &net.UDPAddr{IP: net.IPv4(127, 0, 0, 1), Port: ports[i%nv]})
		if err != nil {
			panic(err)
		}
		_ = c.SetReadBuffer(4 << 20)
		users[i] = c
		wg.Add(1)
		go func(i int, c *net.UDPConn) {
			defer wg.Done()
			buf := make([]byte, 70000)
			for {
				n, err := c.Read(buf)
				if err != nil {
					return
				}
				e := entryOf(buf[:n])
				mu.Lock()
				uLog[i] = append(uLog[i], e)
				got++
				mu.Unlock()
			}
		}(i, c)
	}
	expB, expR, held := 0, 0, 0
	missing, surplus := false, false
	patience := 400 * time.Millisecond
	syncAll := func() {
		ok := pxWait(func() bool {
			p.be.mu.Lock()
			b := p.be.count
			p.be.mu.Unlock()
			mu.Lock()
			r := got
			mu.Unlock()
			if b > expB || r > expR {
				surplus = true
			}
			return b >= expB && r >= expR
		}, patience)
		if !ok {
			missing = true
			p.be.mu.Lock()
			expB = p.be.count
			p.be.mu.Unlock()
			mu.Lock()
			expR = got
			mu.Unlock()
			patience = max(patience/4, 20*time.Millisecond)
		}
		if surplus {
			patience = 20 * time.Millisecond
		}
	}
	for i, s := range script {
		t := pxParse(s, false)
		switch t.kind {
		case 'd', 'D', 'q':
			expB++
			if t.kind == 'q' {
				held++
			} else {
				expR++
			}
			_, _ = users[t.u].Write(pxPayload(t.kind == 'q', t.u, i, t.l, t.s))
			if t.kind != 'D' {
				syncAll()
			}
		case 'a':
			syncAll()
			expR += held
			held = 0
			p.be.release()
			syncAll()
		default:
			panic("bad e2ev token " + s)
		}
	}
	syncAll()
	time.Sleep(3 * time.Millisecond)
	for _, c := range users {
		c.Close()
	}
	wg.Wait()
	for _, v := range viss {
		v.Close()
	}
	h.closeAll()
	p.be.mu.Lock()
	defer p.be.mu.Unlock()
	out := "B=" + fmtEntries(append([]tentry(nil), p.be.log...))
	for i := 0; i < k; i++ {
		out += fmt.Sprintf(";U%d=%s", i, fmtEntries(uLog[i]))
	}
	out += fmt.Sprintf(";socks=%d;mixed=%d", len(p.be.srcKey), p.be.mixed)
	return out, missing && !surplus
}

func e2evExec(tok []string) string {
	ps := atoi(strings.TrimPrefix(tok[1], "ps="))
	enc := tok[2] == "enc=1"
	comp := tok[3] == "comp=1"
	nv := atoi(strings.TrimPrefix(tok[4], "v="))
	k := atoi(strings.TrimPrefix(tok[5], "k="))
	var script []string
	if s := strings.TrimPrefix(tok[6], "s="); s != "" {
		script = strings.Split(s, ",")
	}
	p := getE2evPair(ps, enc, comp)
	if p == nil {
		return e2eNothing(k)
	}
	res, missing := runE2ev(p, nv, k, script)
	if udpRerunWorthIt(missing) {
		res, missing = runE2ev(p, nv, k, script)
		udpRerunDone(missing)
	}
	return res
}

// ---------------------------------------------------------------- batch

func batchExec(tok []string) string {
	w := atoi(strings.TrimPrefix(tok[1], "w="))
	var items [][2]int
	if s := strings.TrimPrefix(tok[2], "p="); s != "" {
		for _, e := range strings.Split(s, ",") {
			f := strings.Split(e, ".")
			items = append(items, [2]int{atoi(f[0]), atoi(f[1])})
		}
	}
	kept := make([][][]byte, w)
	errs := make([][]bool, w)
	var wg sync.WaitGroup
	for j := 0; j < w; j++ {
		wg.Add(1)
		go func(j int) {
			defer wg.Done()
			pkts := make([]*msg.UDPPacket, len(items))
			for i, it := range items {
				pkts[i] = udp.NewUDPPacket(lcgBytes(it[1]+7919*j, it[0]), nil, nil)
			}
			kept[j] = make([][]byte, len(items))
			errs[j] = make([]bool, len(items))
			for i := range pkts {
				b, err := udp.GetContent(pkts[i])
				kept[j][i], errs[j][i] = b, err != nil // kept as returned: no copy
			}
		}(j)
	}
	wg.Wait()
	parts := make([]string, w)
	for j := 0; j < w; j++ {
		es := make([]string, len(items))
		for i := range items {
			if errs[j][i] {
				es[i] = "err"
			} else {
				es[i] = fmt.Sprintf("%d.%d", len(kept[j][i]), vhash(kept[j][i]))
			}
		}
		parts[j] = fmt.Sprintf("W%d=%s", j, strings.Join(es, ","))
	}
	return strings.Join(parts, ";")
}

// ---------------------------------------------------------------- generators

// cpxGenScript: 2-4 work connections that are alive together, opened at arbitrary points of the traffic of the
// others (also while answers are held back and while bursts are in flight), users whose address occurs on
// several connections, connections taken away in three ways while the others carry traffic, re-opened
// afterwards, and the proxy closed at the end.
func cpxGenScript(rng *rand.Rand, ps, ntok, maxLen, bursts int) string {
	toks := []string{"o"}
	nconn := 1
	aliveC := []int{0}
	maxConn := 2 + rng.Intn(3)
	nu := 1 + rng.Intn(3)
	held := 0
	openW, killW, holdW := 12, 6, 25
	switch rng.Intn(4) {
	case 0: // long-lived connections, many overlapping windows
		openW, killW, holdW = 8, 1, 40
	case 1: // churn
		openW, killW, holdW = 20, 14, 20
	}
	dg := func(kind string) string {
		c := pick(rng, aliveC)
		return fmt.Sprintf("%s%d.%d.%d.%d", kind, c, rng.Intn(nu), sudpGenLen(rng, ps, maxLen), rng.Intn(1<<30))
	}
	for len(toks) < ntok {
		r := rng.Intn(100)
		switch {
		case r < openW && nconn < maxConn+2:
			toks = append(toks, "o")
			aliveC = append(aliveC, nconn)
			nconn++
		case r < openW+killW && len(aliveC) > 0:
			i := rng.Intn(len(aliveC))
			toks = append(toks, fmt.Sprintf("%s%d", pick(rng, []string{"x", "x", "y", "z"}), aliveC[i]))
			aliveC = append(aliveC[:i], aliveC[i+1:]...)
		case len(aliveC) == 0:
			toks = append(toks, "o")
			aliveC = append(aliveC, nconn)
			nconn++
		case r < openW+killW+holdW:
			toks = append(toks, dg("q"))
			held++
		case r < openW+killW+holdW+8 && held > 0:
			toks = append(toks, "a")
			held = 0
		case r < openW+killW+holdW+10:
			toks = append(toks, dg("b"))
		case r < openW+killW+holdW+25:
			toks = append(toks, dg("D"))
		default:
			toks = append(toks, dg("d"))
		}
	}
	// bursts of 20 to 100 distinct payloads on a connection that stays: UDPPackets back to back on the work connection
	// whose answers come back at once (D … d), or whose answers the backend keeps and then sends back to back (q … a:
	// a burst of replies on the per-user sockets of the Forwarder); one user address, the addresses in turn, arbitrary
	if bursts > 0 && len(aliveC) > 0 {
		for b := 0; b < bursts; b++ {
			g, bmax := burstShape(rng, ps)
			if bmax > maxLen {
				bmax = maxLen
			}
			c := pick(rng, aliveC)
			kind := pick(rng, []string{"D", "q"})
			mode, u0 := rng.Intn(3), rng.Intn(nu)
			ln := sudpGenLen(rng, ps, bmax)
			for i := 0; i < g; i++ {
				u := u0
				switch mode {
				case 1:
					u = (u0 + i) % nu
				case 2:
					u = rng.Intn(nu)
				}
				if rng.Intn(4) != 0 {
					ln = sudpGenLen(rng, ps, bmax)
				}
				toks = append(toks, fmt.Sprintf("%s%d.%d.%d.%d", kind, c, u, ln, rng.Intn(1<<30)))
			}
			if kind == "q" {
				toks = append(toks, "a")
				held = 0
			} else {
				toks = append(toks, fmt.Sprintf("d%d.%d.%d.%d", c, u0, sudpGenLen(rng, ps, bmax), rng.Intn(1<<30)))
			}
		}
	}
	if held > 0 || rng.Intn(2) == 0 {
		toks = append(toks, "a")
	}
	if rng.Intn(4) == 0 {
		toks = append(toks, "C")
		if rng.Intn(2) == 0 {
			toks = append(toks, "o")
		}
	}
	return strings.Join(toks, ",")
}

func e2evGenScript(rng *rand.Rand, ps, k, ntok, maxLen int) string {
	var toks []string
	held := 0
	holdW := 30
	if rng.Intn(3) == 0 {
		holdW = 55
	}
	for len(toks) < ntok {
		r := rng.Intn(100)
		dg := func(kind string) string {
			return fmt.Sprintf("%s%d.%d.%d", kind, rng.Intn(k), sudpGenLen(rng, ps, maxLen), rng.Intn(1<<30))
		}
		switch {
		case r < holdW:
			toks = append(toks, dg("q"))
			held++
		case r < holdW+10 && held > 0:
			toks = append(toks, "a")
			held = 0
		case r < holdW+30:
			toks = append(toks, dg("D"))
		default:
			toks = append(toks, dg("d"))
		}
	}
	toks = append(toks, "a")
	return strings.Join(toks, ",")
}

func pxGenSizes(rng *rand.Rand) (int, int) {
	switch rng.Intn(8) {
	case 0:
		return 64, 64
	case 1:
		return 4096, 4096
	case 2:
		return 7605, 7605
	case 3:
		return 1500, 200
	}
	return 1500, 1500
}

func pxGen(rng *rand.Rand, n int, emit func(string)) {
	// codec: batches of decoded payloads that are all kept (value semantics of GetContent)
	for i := 0; i < n/200+6; i++ {
		w := 1
		if i%2 == 1 {
			w = 2 + rng.Intn(5)
		}
		cnt := 2 + rng.Intn(24)
		base := pick(rng, []int{16, 200, 700, 1100, 1500, 3000, 6000})
		its := make([]string, cnt)
		for j := range its {
			ln := base
			switch rng.Intn(4) {
			case 0:
				ln = rng.Intn(base + 1)
			case 1:
				ln = base - rng.Intn(base/4+1)
			case 2:
				ln = rng.Intn(8000)
			}
			its[j] = fmt.Sprintf("%d.%d", ln, rng.Intn(1<<30))
		}
		emit(fmt.Sprintf("batch w=%d p=%s", w, strings.Join(its, ",")))
	}
	// client side of the sudp proxy with several scripted work connections
	for i := 0; i < n/100+4; i++ {
		ps, maxLen := pxGenSizes(rng)
		// the four encryption x compression settings in turn, then arbitrary ones; every fourth script carries bursts
		enc, comp := i>>1&1, i&1
		if i >= 4 {
			enc, comp = rng.Intn(2), rng.Intn(2)
		}
		bursts := 0
		if i%4 == 0 {
			bursts = 1 + rng.Intn(2)
		}
		emit(fmt.Sprintf("cpx ps=%d enc=%d comp=%d s=%s", ps, enc, comp, cpxGenScript(rng, ps, 10+rng.Intn(40), maxLen, bursts)))
	}
	// several real visitors on one real sudp proxy (two frps + frpc pairs: plain, encrypted + compressed)
	for i := 0; i < n/1000+2; i++ {
		for _, ec := range [][2]int{{0, 0}, {1, 1}} {
			nv := 2 + rng.Intn(2)
			k := nv + rng.Intn(3)
			emit(fmt.Sprintf("e2ev ps=1500 enc=%d comp=%d v=%d k=%d s=%s", ec[0], ec[1], nv, k,
				e2evGenScript(rng, 1500, k, 8+rng.Intn(30), 1500)))
		}
	}
}

var _ = sort.Ints
