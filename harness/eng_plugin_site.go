package main

import (
	"context"
	"crypto/ecdsa"
	"crypto/elliptic"
	crand "crypto/rand"
	"crypto/x509"
	"encoding/pem"
	"math/big"
	"fmt"
	"io"
	"net"
	"os"
	"sort"
	"strings"
	"time"

	"github.com/samber/lo"

	"github.com/fatedier/frp/pkg/config/types"
	v1 "github.com/fatedier/frp/pkg/config/v1"
	"github.com/fatedier/frp/pkg/msg"
	plugin "github.com/fatedier/frp/pkg/plugin/server"
	netpkg "github.com/fatedier/frp/pkg/util/net"
	"github.com/fatedier/frp/pkg/util/util"
	"github.com/fatedier/frp/server"
)

// `site <user> <proxy> <e|s>`: one real server.Service configured with the HTTP plugins registered
// since the last reset, and one scripted raw peer walking through the gated call sites:
//
//	Login (service.go handleConnection) → NewProxy stcp (control.go handleNewProxy) → Ping
//	(handlePing) → visitor connection = user connection (proxy.go handleUserTCPConnection) →
//	NewWorkConn (service.go RegisterWorkConn) → CloseProxy message (e) or nothing (s) → control
//	connection closed (Control.worker) .
//
// result: L=<ok|no>;N=<ok:<name>|no|closed|->;P=<ok|no|->;U=<ok|no|->;W=<ok|no|->;X=<e|s> | <wire>
// wire = the requests the plugin server received: <Op>:<id>:<a>:<b>, in call-site order; CloseProxy
// requests grouped per proxy name; b blanked where it is an ephemeral address (Login, NewUserConn).
var siteCertFiles [2]string

func siteCert() (string, string) {
	if siteCertFiles[0] != "" {
		return siteCertFiles[0], siteCertFiles[1]
	}
	key, err := ecdsa.GenerateKey(elliptic.P256(), crand.Reader)
	if err != nil {
		panic(err)
	}
	tmpl := &x509.Certificate{SerialNumber: big.NewInt(1), NotBefore: time.Now().Add(-time.Hour), NotAfter: time.Now().Add(24 * time.Hour)}
	der, err := x509.CreateCertificate(crand.Reader, tmpl, tmpl, &key.PublicKey, key)
	if err != nil {
		panic(err)
	}
	kder, _ := x509.MarshalECPrivateKey(key)
	dir, _ := os.MkdirTemp("", "verif-c15")
	siteCertFiles[0] = dir + "/c.pem"
	siteCertFiles[1] = dir + "/k.pem"
	_ = os.WriteFile(siteCertFiles[0], pem.EncodeToMemory(&pem.Block{Type: "CERTIFICATE", Bytes: der}), 0o600)
	_ = os.WriteFile(siteCertFiles[1], pem.EncodeToMemory(&pem.Block{Type: "EC PRIVATE KEY", Bytes: kder}), 0o600)
	return siteCertFiles[0], siteCertFiles[1]
}

func siteRun(user, pname string, explicit bool) string {
	pst.mu.Lock()
	pst.wire = nil
	pst.wireGen++
	pst.mu.Unlock()
	t0 := time.Now()
	tick := func(what string) {
		if os.Getenv("SITE_TIMING") != "" {
			fmt.Fprintf(os.Stderr, "%s %v\n", what, time.Since(t0))
		}
	}
	defer tick("end")

	l, err := net.Listen("tcp", "127.0.0.1:0")
	if err != nil {
		return "infra listen"
	}
	port := l.Addr().(*net.TCPAddr).Port
	l.Close()

	cfg := &v1.ServerConfig{}
	cfg.Complete()
	cfg.BindAddr = "127.0.0.1"
	cfg.ProxyBindAddr = "127.0.0.1"
	cfg.BindPort = port
	cfg.Transport.TCPMux = lo.ToPtr(false)
	cfg.UserConnTimeout = 1
	// the scenarios ask for stcp proxies (a plugin may still turn one into a tcp proxy with a port of the server's choice:
	// a small range, away from the ephemeral ports).  Each of the two port managers of a Service otherwise
	// keeps a 65535-entry table that its cleaning goroutine (never stopped) holds on to for the rest of the process:
	// ~3 MB per Service, several GB over a long run
	cfg.AllowPorts = []types.PortsRange{{Start: 13000, End: 13127}}
	cfg.Transport.TLS.CertFile, cfg.Transport.TLS.KeyFile = siteCert() // else frps generates an RSA key per start (~200 ms)
	cfg.HTTPPlugins = append([]v1.HTTPPluginOptions{}, pst.httpRegs...)
	svr, err := server.NewService(cfg)
	if err != nil {
		return "infra newservice"
	}
	ctx, cancel := context.WithCancel(context.Background())
	go svr.Run(ctx)
	defer func() {
		cancel()
		svr.Close()
	}()
	addr := fmt.Sprintf("127.0.0.1:%d", port)
	dial := func() net.Conn {
		for i := 0; i < 50; i++ {
			c, err := net.DialTimeout("tcp", addr, time.Second)
			if err == nil {
				return c
			}
			time.Sleep(5 * time.Millisecond)
		}
		return nil
	}
	nClose := 0
	for _, o := range pst.httpRegs {
		if lo.Contains(o.Ops, plugin.OpCloseProxy) {
			nClose++
		}
	}
	countClose := func() int {
		pst.mu.Lock()
		defer pst.mu.Unlock()
		n := 0
		for _, w := range pst.wire {
			if w.op == plugin.OpCloseProxy {
				n++
			}
		}
		return n
	}
	waitClose := func(want int) {
		for i := 0; i < 50 && countClose() < want; i++ {
			time.Sleep(5 * time.Millisecond)
		}
	}

	L, N, P, U, W := "no", "-", "-", "-", "-"
	X := "s"
	if explicit {
		X = "e"
	}
	finish := func() string {
		pst.mu.Lock()
		wire := append([]plugWire{}, pst.wire...)
		pst.mu.Unlock()
		rank := map[string]int{plugin.OpLogin: 0, plugin.OpNewProxy: 1, plugin.OpPing: 2, plugin.OpNewUserConn: 3, plugin.OpNewWorkConn: 4, plugin.OpCloseProxy: 5}
		sort.SliceStable(wire, func(i, j int) bool {
			if rank[wire[i].op] != rank[wire[j].op] {
				return rank[wire[i].op] < rank[wire[j].op]
			}
			if wire[i].op == plugin.OpCloseProxy {
				return wire[i].a < wire[j].a
			}
			return false
		})
		parts := []string{}
		for _, w := range wire {
			b := w.b
			if w.op == plugin.OpLogin || w.op == plugin.OpNewUserConn {
				b = ""
			}
			parts = append(parts, fmt.Sprintf("%s:%d:%s:%s%s", w.op, w.id, hx(w.a), hx(b), lo.Ternary(w.r0, ":R0", "")))
		}
		ws := "-"
		if len(parts) > 0 {
			ws = strings.Join(parts, ",")
		}
		return fmt.Sprintf("L=%s;N=%s;P=%s;U=%s;W=%s;X=%s | %s", L, N, P, U, W, X, ws)
	}

	tick("Login")
	// ---- Login
	ctl := dial()
	if ctl == nil {
		return "infra dial"
	}
	defer ctl.Close()
	ts := time.Now().Unix()
	_ = ctl.SetDeadline(time.Now().Add(10 * time.Second))
	if err := msg.WriteMsg(ctl, &msg.Login{Version: "0.61.0", User: user, RunID: "r1", Timestamp: ts, PrivilegeKey: util.GetAuthKey("", ts)}); err != nil {
		return "infra login-write"
	}
	var lr msg.LoginResp
	if err := msg.ReadMsgInto(ctl, &lr); err != nil {
		return "infra login-read " + hx(err.Error())
	}
	if lr.Error != "" {
		return finish()
	}
	L = "ok"
	_ = ctl.SetDeadline(time.Time{})
	crw, err := netpkg.NewCryptoReadWriter(ctl, []byte(""))
	if err != nil {
		return "infra crypto"
	}
	in := make(chan msg.Message, 64)
	go func() {
		defer close(in)
		for {
			m, err := msg.ReadMsg(crw)
			if err != nil {
				return
			}
			in <- m
		}
	}()
	// next message that is not a ReqWorkConn, or nil on close / timeout
	next := func() msg.Message {
		for {
			select {
			case m, ok := <-in:
				if !ok {
					return nil
				}
				if _, isReq := m.(*msg.ReqWorkConn); isReq {
					continue
				}
				return m
			case <-time.After(5 * time.Second):
				return nil
			}
		}
	}

	tick("NewProxy")
	// ---- NewProxy
	name := ""
	_ = msg.WriteMsg(crw, &msg.NewProxy{ProxyName: pname, ProxyType: "stcp", Sk: "k"})
	if r, ok := next().(*msg.NewProxyResp); ok {
		if r.Error == "" {
			name = r.ProxyName
			N = "ok:" + hx(name)
		} else {
			N = "no"
		}
	} else {
		N = "closed" // the server dropped the control connection instead of answering
		return finish()
	}

	tick("Ping")
	// ---- Ping
	_ = msg.WriteMsg(crw, &msg.Ping{})
	if r, ok := next().(*msg.Pong); ok {
		P = lo.Ternary(r.Error == "", "ok", "no")
	} else {
		P = "closed"
		return finish()
	}

	tick("user connection")
	// ---- user connection (a visitor of the stcp proxy)
	var vconn net.Conn
	if strings.HasPrefix(N, "ok") {
		vconn = dial()
		if vconn != nil {
			defer vconn.Close()
			_ = vconn.SetDeadline(time.Now().Add(5 * time.Second))
			_ = msg.WriteMsg(vconn, &msg.NewVisitorConn{RunID: lr.RunID, ProxyName: name, Timestamp: ts, SignKey: util.GetAuthKey("k", ts)})
			var vr msg.NewVisitorConnResp
			if err := msg.ReadMsgInto(vconn, &vr); err == nil && vr.Error == "" {
				// refused: the server closes the user connection; allowed: it asks the client for a work connection
				eof := make(chan struct{})
				go func() {
					buf := make([]byte, 1)
					_, _ = vconn.Read(buf)
					close(eof)
				}()
				req := make(chan struct{})
				go func() {
					for m := range in {
						if _, isReq := m.(*msg.ReqWorkConn); isReq {
							close(req)
							return
						}
					}
				}()
				select {
				case <-eof:
					U = "no"
				case <-req:
					U = "ok"
				case <-time.After(5 * time.Second):
					U = "timeout"
				}
			}
		}
	}

	tick("work connection")
	// ---- work connection
	wc := dial()
	if wc != nil {
		defer wc.Close()
		// timestamp 0: the credentials the NewWorkConn plugins see are the same in every run
		_ = msg.WriteMsg(wc, &msg.NewWorkConn{RunID: lr.RunID, Timestamp: 0, PrivilegeKey: util.GetAuthKey("", 0)})
	}

	tick("close")
	// ---- close
	if strings.HasPrefix(N, "ok") {
		if explicit {
			_ = msg.WriteMsg(crw, &msg.CloseProxy{ProxyName: name})
			waitClose(nClose)
		}
	}
	if wc != nil && U == "ok" {
		// the server is waiting for this work connection: it answers on it either way
		_ = wc.SetReadDeadline(time.Now().Add(5 * time.Second))
		var sw msg.StartWorkConn
		if err := msg.ReadMsgInto(wc, &sw); err == nil {
			W = lo.Ternary(sw.Error == "", "ok", "no")
		} else {
			W = "ok" // pooled and closed with the session (see below) – cannot happen before the control closes
		}
	}
	tick("ctl.Close() // session end")
	if wc != nil && U != "ok" {
		// nothing observable happens when a work connection is accepted and pooled; give the server
		// the time to run the NewWorkConn chain before the session ends (a work connection that
		// arrives after the control closed is neither pooled nor closed — DESIGN §7 #11)
		cnt := func() int {
			pst.mu.Lock()
			defer pst.mu.Unlock()
			return len(pst.wire)
		}
		last, stable := cnt(), 0
		for i := 0; i < 200 && stable < 6; i++ {
			time.Sleep(5 * time.Millisecond)
			if c := cnt(); c != last {
				last, stable = c, 0
			} else {
				stable++
			}
		}
	}
	ctl.Close() // session end
	if wc != nil && U != "ok" {
		// refused: StartWorkConn{Error}; accepted: pooled, closed by Control.worker → EOF without a message
		_ = wc.SetReadDeadline(time.Now().Add(time.Second))
		var sw msg.StartWorkConn
		err := msg.ReadMsgInto(wc, &sw)
		switch {
		case err == nil && sw.Error != "":
			W = "no"
		case err == nil || err == io.EOF || strings.Contains(err.Error(), "EOF") || strings.Contains(err.Error(), "reset"):
			W = "ok"
		default:
			W = "timeout"
		}
	}
	if strings.HasPrefix(N, "ok") {
		waitClose(nClose)
	}
	return finish()
}
