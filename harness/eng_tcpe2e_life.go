package main

// Engine "e2e" (C01), ops `life` and `sched`.
//
//	life cfg=<mux><tls><pool> steps=<hex mask>/<hex mask>/… seed=
//	   PROXY LIFE CYCLE on the vhost muxers. A dedicated frps + frpc pair carries a fixed lattice of tcpmux (httpconnect)
//	   and https proxies — several on ONE domain told apart only by routeByHTTPUser, proxies on other domains, wildcard
//	   proxies (*.life.test, *.x.life.test) covering those hosts — each with its own tagged backend. Every step reloads
//	   frpc (client.Service.UpdateAllConfigurer, what `frpc reload` does) with the proxies of the mask: the others are
//	   closed (CloseProxy -> frps closes them and removes their routes) while the rest keep serving. After every step a
//	   user connects for every (host, HTTP user) of the probe table and notes WHOSE backend answers.
//	   => s=<owner per probe: lattice index | - (refused) | ? (nothing within 2 s), comma separated>/…   | err=nosync
//	sched cfg= g=<member+member,member,…> n=<bytes> seed=      member = <type>.<enc>.<comp>.<lim>.<pp> of the main lattice
//	   CONNECTION SCHEDULES: the groups run back-to-back, the connections of one group simultaneously (distinct proxies
//	   inside a group, the same proxy may come again in a later group). Every connection carries its own random stream
//	   both ways (echo), checked byte for byte, and must be answered by its own proxy's tag.
//	   => ok=<k>;xw=<answered by another proxy's backend>;bad=<other failures>
import (
	"bufio"
	"context"
	"encoding/base64"
	"fmt"
	"io"
	"math/rand"
	"net"
	"strconv"
	"strings"
	"sync"
	"time"

	"github.com/fatedier/frp/client"
	v1 "github.com/fatedier/frp/pkg/config/v1"
	"github.com/fatedier/frp/server"
)

type te2eLifeEntry struct {
	typ, domain, user string
}

// the lattice (index = what a probe reports); keep in step with Frp/Engines/E2e.lean `lifeLattice`
var te2eLifeLattice = []te2eLifeEntry{
	{"tcpmux", "a.life.test", ""},
	{"tcpmux", "a.life.test", "alice"},
	{"tcpmux", "a.life.test", "bob"},
	{"tcpmux", "b.life.test", "alice"},
	{"tcpmux", "b.life.test", "carol"},
	{"tcpmux", "*.life.test", ""},
	{"tcpmux", "*.life.test", "alice"},
	{"tcpmux", "h.x.life.test", ""},
	{"tcpmux", "*.x.life.test", "bob"},
	{"https", "a.life.test", ""},
	{"https", "h.x.life.test", ""},
	{"https", "*.life.test", ""},
	{"https", "*.x.life.test", ""},
}

var te2eLifeHosts = []string{"a.life.test", "b.life.test", "w.life.test", "h.x.life.test", "w.x.life.test"}
var te2eLifeUsers = []string{"", "alice", "bob", "carol"}

type te2eLifeProbe struct {
	typ, host, user string
}

// tcpmux: every host x every user; https: every host (keep in step with E2e.lean `lifeProbes`)
func te2eLifeProbes() []te2eLifeProbe {
	var ps []te2eLifeProbe
	for _, h := range te2eLifeHosts {
		for _, u := range te2eLifeUsers {
			ps = append(ps, te2eLifeProbe{"tcpmux", h, u})
		}
	}
	for _, h := range te2eLifeHosts {
		ps = append(ps, te2eLifeProbe{"https", h, ""})
	}
	return ps
}

type te2eLifePair struct {
	svr       *server.Service
	cli       *client.Service
	ccfg      *v1.ClientCommonConfig
	backends  []*stkBackend
	cfgs      []v1.ProxyConfigurer
	muxPort   int
	httpsPort int
}

var te2eLifePairs = map[string]*te2eLifePair{}

func te2eLifeName(i int) string { return fmt.Sprintf("life-%02d", i) }

func te2eGetLife(cfg string) (*te2eLifePair, string) {
	if p, ok := te2eLifePairs[cfg]; ok {
		return p, ""
	}
	why := ""
	for try := 0; try < 3; try++ {
		p, w := te2eStartLife(cfg)
		if p != nil {
			te2eLifePairs[cfg] = p
			return p, ""
		}
		why = w
	}
	return nil, why
}

func te2eStartLife(cfg string) (*te2eLifePair, string) {
	mux, tlsOn, pool := cfg[0] == '1', cfg[1] == '1', int(cfg[2]-'0')
	p := &te2eLifePair{}
	scfg := &v1.ServerConfig{}
	scfg.BindAddr = "127.0.0.1"
	scfg.BindPort = te2ePort()
	scfg.ProxyBindAddr = "127.0.0.1"
	scfg.VhostHTTPSPort = te2ePort()
	scfg.TCPMuxHTTPConnectPort = te2ePort()
	scfg.Auth.Token = stkToken
	scfg.Transport.TCPMux = &mux
	scfg.Complete()
	svr, err := server.NewService(scfg)
	if err != nil {
		return nil, " frps:" + err.Error()
	}
	go svr.Run(context.Background())
	p.svr, p.muxPort, p.httpsPort = svr, scfg.TCPMuxHTTPConnectPort, scfg.VhostHTTPSPort
	ccfg := &v1.ClientCommonConfig{}
	ccfg.ServerAddr = "127.0.0.1"
	ccfg.ServerPort = scfg.BindPort
	ccfg.Auth.Token = stkToken
	ccfg.Transport.TLS.Enable = &tlsOn
	ccfg.Transport.TCPMux = &mux
	ccfg.Transport.PoolCount = pool
	f := false
	ccfg.LoginFailExit = &f
	ccfg.Complete()
	p.ccfg = ccfg
	for i, e := range te2eLifeLattice {
		b := stkNewBackend(te2eLifeName(i), false)
		p.backends = append(p.backends, b)
		enc, comp := i%2 == 1, i%3 == 0
		if e.typ == "tcpmux" {
			c := &v1.TCPMuxProxyConfig{}
			c.Name, c.Type = te2eLifeName(i), "tcpmux"
			c.LocalIP, c.LocalPort = "127.0.0.1", b.port()
			c.CustomDomains = []string{e.domain}
			c.Multiplexer = "httpconnect"
			c.RouteByHTTPUser = e.user
			te2eTransport(&c.Transport, enc, comp, "none", "", false)
			c.Complete("")
			p.cfgs = append(p.cfgs, c)
		} else {
			c := &v1.HTTPSProxyConfig{}
			c.Name, c.Type = te2eLifeName(i), "https"
			c.LocalIP, c.LocalPort = "127.0.0.1", b.port()
			c.CustomDomains = []string{e.domain}
			te2eTransport(&c.Transport, enc, comp, "none", "", false)
			c.Complete("")
			p.cfgs = append(p.cfgs, c)
		}
	}
	cli, err := client.NewService(client.ServiceOptions{Common: ccfg, ProxyCfgs: nil})
	if err != nil {
		_ = svr.Close()
		return nil, " frpc:" + err.Error()
	}
	go func() { _ = cli.Run(context.Background()) }()
	p.cli = cli
	// logged in?
	dl := time.Now().Add(4 * time.Second)
	for {
		ids, _ := svr.VerifSessDump()
		if len(ids) == 1 {
			return p, ""
		}
		if time.Now().After(dl) {
			cli.Close()
			_ = svr.Close()
			return nil, " nologin"
		}
		time.Sleep(5 * time.Millisecond)
	}
}

// reload frpc with exactly the proxies of the mask and wait (bounded) until both ends have settled
func (p *te2eLifePair) apply(mask uint64) bool {
	var pcs []v1.ProxyConfigurer
	for i := range te2eLifeLattice {
		if mask&(1<<uint(i)) != 0 {
			pcs = append(pcs, p.cfgs[i])
		}
	}
	if err := p.cli.UpdateAllConfigurer(pcs, nil); err != nil {
		return false
	}
	dl := time.Now().Add(3 * time.Second)
	for {
		ok := true
		_, names := p.svr.VerifSessDump()
		for i := range te2eLifeLattice {
			want := mask&(1<<uint(i)) != 0
			st, has := p.cli.StatusExporter().GetProxyStatus(te2eLifeName(i))
			_, reg := names[te2eLifeName(i)]
			if want != reg || want != has || (want && st.Phase != "running") {
				ok = false
				break
			}
		}
		if ok {
			return true
		}
		if time.Now().After(dl) {
			return false
		}
		time.Sleep(3 * time.Millisecond)
	}
}

// whose backend answers a user of (typ, host, user)?
func (p *te2eLifePair) probe(pr te2eLifeProbe) string {
	port := p.muxPort
	if pr.typ == "https" {
		port = p.httpsPort
	}
	c, err := net.DialTimeout("tcp", net.JoinHostPort("127.0.0.1", strconv.Itoa(port)), 2*time.Second)
	if err != nil {
		return "?"
	}
	defer c.Close()
	_ = c.SetDeadline(time.Now().Add(2 * time.Second))
	br := bufio.NewReader(c)
	if pr.typ == "https" {
		if _, err := c.Write(stkClientHello(pr.host)); err != nil {
			return "?"
		}
		// a TLS alert (record type 21) = refused by the muxer; otherwise the backend's length byte + tag
		b, err := br.ReadByte()
		if err != nil {
			if ne, ok := err.(net.Error); ok && ne.Timeout() {
				return "?"
			}
			return "-"
		}
		if b == 21 {
			return "-"
		}
		return te2eLifeTag(br, int(b))
	}
	h := ""
	if pr.user != "" {
		h = "Proxy-Authorization: Basic " + base64.StdEncoding.EncodeToString([]byte(pr.user+":x")) + "\r\n"
	}
	if _, err := fmt.Fprintf(c, "CONNECT %s:80 HTTP/1.1\r\nHost: %s:80\r\n%s\r\n", pr.host, pr.host, h); err != nil {
		return "?"
	}
	var reply []byte
	for !strings.HasSuffix(string(reply), "\r\n\r\n") {
		b, err := br.ReadByte()
		if err != nil {
			if ne, ok := err.(net.Error); ok && ne.Timeout() {
				return "?"
			}
			return "-"
		}
		reply = append(reply, b)
	}
	if !strings.HasPrefix(string(reply), "HTTP/1.1 200") {
		return "-"
	}
	b, err := br.ReadByte()
	if err != nil {
		return "?"
	}
	return te2eLifeTag(br, int(b))
}

func te2eLifeTag(br *bufio.Reader, n int) string {
	tag := make([]byte, n)
	if _, err := io.ReadFull(br, tag); err != nil {
		return "?"
	}
	for i := range te2eLifeLattice {
		if string(tag) == te2eLifeName(i) {
			return strconv.Itoa(i)
		}
	}
	return "?"
}

func te2eLife(kv map[string]string) string {
	p, why := te2eGetLife(kv["cfg"])
	if p == nil {
		return "err=nopair" + strings.ReplaceAll(why, " ", "_")
	}
	probes := te2eLifeProbes()
	var steps []string
	for _, ms := range strings.Split(kv["steps"], "/") {
		mask, err := strconv.ParseUint(ms, 16, 64)
		if err != nil {
			return "err=badmask"
		}
		if !p.apply(mask) && !p.apply(mask) {
			return "err=nosync"
		}
		owners := make([]string, len(probes))
		var wg sync.WaitGroup
		for i := range probes {
			wg.Add(1)
			go func(i int) {
				defer wg.Done()
				owners[i] = p.probe(probes[i])
				if owners[i] == "?" {
					owners[i] = p.probe(probes[i]) // nothing at all within the bound (loaded machine?): once more
				}
			}(i)
		}
		wg.Wait()
		steps = append(steps, strings.Join(owners, ","))
	}
	return "s=" + strings.Join(steps, "/")
}

func te2eGenLife(rng *rand.Rand, cfg string) string {
	n := len(te2eLifeLattice)
	full := uint64(1)<<uint(n) - 1
	mask := full
	if rng.Intn(3) == 0 {
		mask = rng.Uint64() & full
	}
	steps := []string{fmt.Sprintf("%x", mask)}
	for k := 1 + rng.Intn(4); k > 0; k-- {
		switch rng.Intn(4) {
		case 0: // close one
			mask &^= 1 << uint(rng.Intn(n))
		case 1: // close a few
			mask &^= rng.Uint64() & rng.Uint64() & full
		case 2: // start some again
			mask |= rng.Uint64() & rng.Uint64() & full
		default: // close one, start another
			mask &^= 1 << uint(rng.Intn(n))
			mask |= 1 << uint(rng.Intn(n))
		}
		steps = append(steps, fmt.Sprintf("%x", mask))
	}
	return fmt.Sprintf("life cfg=%s steps=%s seed=%d", cfg, strings.Join(steps, "/"), rng.Intn(100000))
}

// ---------------------------------------------------------------- connection schedules

func te2eSchedOnce(p *te2ePair, groups [][]*te2eProxy, n int, seed int64) (ok, xw, bad int) {
	var mu sync.Mutex
	j := 0
	for _, g := range groups {
		var wg sync.WaitGroup
		for _, px := range g {
			wg.Add(1)
			go func(j int, px *te2eProxy) {
				defer wg.Done()
				r := te2eTransferT(px, n+j, -1, "mixed", false, seed+int64(j), 50*time.Millisecond, 2500*time.Millisecond)
				mu.Lock()
				defer mu.Unlock()
				switch {
				case r.err == "" && r.up && r.down && r.tag:
					ok++
				case (r.err == "" && !r.tag) || strings.HasPrefix(r.err, "nobackend:tag="):
					xw++
				default:
					bad++
					te2eDebug("sched bad: %s err=%q up=%v down=%v tag=%v sent=%d got=%d", px.key, r.err, r.up, r.down, r.tag, len(r.sent), len(r.got))
				}
			}(j, px)
			j++
		}
		wg.Wait()
	}
	return
}

func te2eSched(kv map[string]string) string {
	p := te2eGetPair(kv["cfg"])
	n, seed := atoi(kv["n"]), int64(atoi(kv["seed"]))
	var groups [][]*te2eProxy
	for _, gs := range strings.Split(kv["g"], ",") {
		var g []*te2eProxy
		for _, m := range strings.Split(gs, "+") {
			px := p.proxies[strings.ReplaceAll(m, ".", "/")]
			if px == nil {
				return "noproxy"
			}
			g = append(g, px)
		}
		groups = append(groups, g)
	}
	ok, xw, bad := te2eSchedOnce(p, groups, n, seed)
	if bad > 0 && xw == 0 {
		// a timeout inside a transfer (loaded machine?): the whole schedule once more — a systematic fault shows again
		// (retrying the failed connection alone would not: it needs its neighbours); cross-wiring is never retried
		ok, xw, bad = te2eSchedOnce(p, groups, n, seed)
	}
	return fmt.Sprintf("ok=%d;xw=%d;bad=%d", ok, xw, bad)
}

func te2eGenSched(rng *rand.Rand, cfg string) string {
	member := func() string {
		typ := pick(rng, []string{"tcp", "tcp", "stcp", "https", "tcpmux"})
		enc, comp := rng.Intn(2), stkBit(rng.Intn(4) > 0) // compression mostly on: pooled codecs
		lim, ppv := pick(rng, []string{"none", "none", "cli"}), 0
		switch typ {
		case "tcp":
			ppv = rng.Intn(2)
		case "tcpmux":
			lim = "none"
		}
		return fmt.Sprintf("%s.%d.%d.%s.%d", typ, enc, comp, lim, ppv)
	}
	var gs []string
	for k := 3 + rng.Intn(3); k > 0; k-- {
		seen := map[string]bool{}
		var g []string
		for m := 1 + rng.Intn(4); m > 0; m-- {
			x := member()
			if !seen[x] {
				seen[x] = true
				g = append(g, x)
			}
		}
		gs = append(gs, strings.Join(g, "+"))
	}
	return fmt.Sprintf("sched cfg=%s g=%s n=%d seed=%d", cfg, strings.Join(gs, ","), pick(rng, []int{1, 300, 5000, 40000}), rng.Intn(100000))
}
