package main

import (
	"context"
	"fmt"
	"math/rand"
	"net"
	"os"
	"strconv"
	"strings"
	"sync"
	"syscall"
	"time"

	"github.com/fatedier/frp/pkg/msg"
	"github.com/fatedier/frp/pkg/nathole"
	"github.com/fatedier/frp/pkg/transport"
	"github.com/fatedier/frp/pkg/util/util"
)

// Engine "punch": the client side of hole punching on loopback, both roles, the real code end to end:
//
//	visitor: nathole.ExchangeInfo(NatHoleVisitor) -> nathole.MakeHole(listenConn, resp, key)
//	owner:   (sid from the proxy's sidCh) nathole.ExchangeInfo(NatHoleClient) -> nathole.MakeHole(...)
//
// over real transport.MessageTransporter pairs (Do / Dispatch by TransactionID, as client/control.go and
// server/control.go wire them) against a real nathole.Controller, with two real UDP sockets on 127.0.0.1.
// The mapped address lists are built around the sockets' true addresses (first entry) so that every NAT
// class / mode can be requested; a third socket injects noise before the parties start.
//
//	reset
//	sidmsg <sid> <resp 0|1> <noncelen> <key> <deckey> <cut>   => ok:<sid>,<resp>,<noncelen> | err
//	        EncodeMessage with <key>, drop the last <cut> bytes, DecodeMessageInto with <deckey>
//	pstart <id> <vkind> <ckind> <scenario>                    => <vport>,<cport> | fail:<why>
//	        kind = e|r|h|i|x (easy, hard regular, hard irregular, ip changed, malformed) + a|n|<N> (assisted = own address |
//	        none | N = 0..12 further local addresses of a multi-homed party that do NOT lead to its hole-punching socket:
//	        bound, idle sockets at ports p+2 .. p+1+N — nathole.Prepare announces up to 10 local IPs)
//	        scenario = "-" or letters: g garbage, k other key, w wrong sid (a response), t truncated, i insider
//	        (right key, right sid, not a response), m the owner holds another secret key, l the response of the
//	        party that is not the sender arrives late (after the sender's probe)
//	        w / v / c a well-formed NatHoleSid of ANOTHER session (same key, Response = true) queued at both sockets /
//	        only the visitor's / only the owner's before either MakeHole starts, f the same with Response = false
//	pwdm <role S|R|N> <sid> <items>                           => <a|b|c|n|o>#<replies|->
//	        one real waitDetectMessage: MakeHole(role, sid, no addresses to probe, ReadTimeoutMs 30) on a fresh socket
//	        at which the listed datagrams are already queued, in order.  item = <src a|b|c><code>: j garbage,
//	        k0/k1 our sid under another key, t0/t1 truncated, o0/o1 OUR sid (Response 0/1), f0/f1 another session's
//	        sid, p0/p1 our sid with a suffix, e0/e1 the empty sid.  Result: the source whose address MakeHole returned
//	        (n = error) and everything each source got back (<src>:1 = our sid with Response = true, :0 = without, :x)
//	pwait <id>                                                => V=<resp|->#C=<resp|->#<v>;<c>
//	        v, c = p (MakeHole returned the peer's address) | q (another socket of the peer: the one the peer's MakeHole
//	        chose) | t (the third party's) | o (another) | n (error) | x (not run)
type punchSess struct {
	id         int
	vConn      *net.UDPConn
	cConn      *net.UDPConn
	idle       []*net.UDPConn // the parties' other local addresses (assisted addresses that lead nowhere)
	vAddr      string
	cAddr      string
	sid        string
	mu         sync.Mutex
	vResp      *msg.NatHoleResp
	cResp      *msg.NatHoleResp
	vOut, cOut string
	vRaddr     *net.UDPAddr // what MakeHole returned: the remote address …
	cRaddr     *net.UDPAddr
	vLocal     string // … and the local address of the socket it chose (a receiver may listen on many)
	cLocal     string
	vTid, cTid string
	done       sync.WaitGroup
	start      time.Time
	cancel     context.CancelFunc
	scn        string
	smallBuf   bool // the receive buffers could not be enlarged (net.core.rmem_max): many-socket modes are not judged
}

// punchListen binds a party's socket on 127.0.0.1 at a port BELOW the ephemeral range, 40 apart.  Both parties
// share one IP here, so a receiver's range probes to "the sender's IP, ports p-n..p+n" would otherwise now and
// then reach one of the receiver's own 256 randomly bound sockets (which would answer itself); between two
// hosts those probes leave the machine.
var punchNextPort = 10000

func punchListen() (*net.UDPConn, error) {
	c, _, err := punchListenN(0)
	return c, err
}

// punchIdleCount: the number of idle local addresses a kind asks for (its tail is a decimal number)
func punchIdleCount(kind string) int {
	if len(kind) < 2 {
		return 0
	}
	n, err := strconv.Atoi(kind[1:])
	if err != nil || n < 0 || n > 12 {
		return 0
	}
	return n
}

// punchListenN binds a party's socket at port p and n idle sockets at p+2 .. p+1+n (p+1 and p+20 are the second
// mapped address of the kinds r and h): all of them or none.
func punchListenN(n int) (*net.UDPConn, []*net.UDPConn, error) {
	for try := 0; try < 200; try++ {
		port := punchNextPort
		punchNextPort += 40
		if punchNextPort >= 30000 {
			punchNextPort = 10000
		}
		c, err := net.ListenUDP("udp4", &net.UDPAddr{IP: net.IPv4(127, 0, 0, 1), Port: port})
		if err != nil {
			continue
		}
		idle := []*net.UDPConn{}
		for j := 0; j < n; j++ {
			ic, err := net.ListenUDP("udp4", &net.UDPAddr{IP: net.IPv4(127, 0, 0, 1), Port: port + 2 + j})
			if err != nil {
				break
			}
			idle = append(idle, ic)
		}
		if len(idle) == n {
			return c, idle, nil
		}
		c.Close()
		for _, ic := range idle {
			ic.Close()
		}
	}
	return nil, nil, fmt.Errorf("no free port")
}

// how late a receiver's response is in scenario l: after the sender's probe (1 s + 3 s in the many-socket modes)
func punchLate(r *msg.NatHoleResp) time.Duration {
	if r.DetectBehavior.ListenRandomPorts > 0 {
		return 4500 * time.Millisecond
	}
	return 1500 * time.Millisecond
}

func punchRcvBuf(c *net.UDPConn) int {
	n := 0
	if rc, err := c.SyscallConn(); err == nil {
		_ = rc.Control(func(fd uintptr) { n, _ = syscall.GetsockoptInt(int(fd), syscall.SOL_SOCKET, syscall.SO_RCVBUF) })
	}
	return n
}

type punchState struct {
	ctl   *nathole.Controller
	third *net.UDPConn
	src   [3]*net.UDPConn // the sources of pwdm datagrams
	sess  map[int]*punchSess
}

var punchSt *punchState

func punchReset() {
	if punchSt != nil {
		for _, s := range punchSt.sess {
			s.cancel()
			s.vConn.Close()
			s.cConn.Close()
			s.closeIdle()
		}
		punchSt.third.Close()
		for _, c := range punchSt.src {
			c.Close()
		}
	}
	c, _ := nathole.NewController(time.Hour)
	t, err := punchListen()
	if err != nil {
		panic(err)
	}
	punchSt = &punchState{ctl: c, third: t, sess: map[int]*punchSess{}}
	for i := range punchSt.src {
		punchSt.src[i], err = net.ListenUDP("udp4", &net.UDPAddr{IP: net.IPv4(127, 0, 0, 1)})
		if err != nil {
			panic(err)
		}
	}
}

// punchWdm drives one waitDetectMessage through MakeHole: the instruction names no address to probe, so
// MakeHole sends nothing and goes straight to the wait on `rcv`, where `items` are queued already.
func punchWdm(st *punchState, role, sid string, items []string) string {
	key := []byte("secret")
	rcv, err := net.ListenUDP("udp4", &net.UDPAddr{IP: net.IPv4(127, 0, 0, 1)})
	if err != nil {
		return "fail:listen"
	}
	defer rcv.Close()
	raddr := rcv.LocalAddr().(*net.UDPAddr)
	enc := func(sid string, response bool, key []byte) []byte {
		b, _ := nathole.EncodeMessage(&msg.NatHoleSid{TransactionID: "wdm", Sid: sid, Response: response, Nonce: "0000"}, key)
		return b
	}
	for _, it := range items {
		if len(it) < 2 || it[0] < 'a' || it[0] > 'c' {
			return "bad-item"
		}
		src := st.src[it[0]-'a']
		r := strings.HasSuffix(it, "1")
		var b []byte
		switch it[1] {
		case 'j':
			b = []byte("\x00garbage\xff not a sid message")
		case 'k':
			b = enc(sid, r, []byte("zzz"))
		case 't':
			b = enc(sid, r, key)
			b = b[:len(b)-3]
		case 'o':
			b = enc(sid, r, key)
		case 'f':
			b = enc("F"+sid, r, key)
		case 'p':
			b = enc(sid+"x", r, key)
		case 'e':
			b = enc("", r, key)
		default:
			return "bad-item"
		}
		if _, err := src.WriteToUDP(b, raddr); err != nil {
			return "fail:write"
		}
	}
	roleStr := map[string]string{"S": nathole.DetectRoleSender, "R": nathole.DetectRoleReceiver, "N": ""}[role]
	resp := &msg.NatHoleResp{Sid: sid, DetectBehavior: msg.NatHoleDetectBehavior{Role: roleStr, ReadTimeoutMs: 30}}
	type res struct {
		raddr *net.UDPAddr
		err   error
	}
	ch := make(chan res, 1)
	go func() {
		_, a, err := nathole.MakeHole(context.Background(), rcv, resp, key)
		ch <- res{a, err}
	}()
	var r res
	select {
	case r = <-ch:
	case <-time.After(2 * time.Second):
		rcv.Close()
		return "hang"
	}
	out := "n"
	if r.err == nil {
		out = "o"
		for i, c := range st.src {
			if r.raddr != nil && r.raddr.String() == c.LocalAddr().String() {
				out = string(rune('a' + i))
			}
		}
	}
	// what every source got back: an end marker from the (still open) socket delimits it, no waiting
	replies := []string{}
	buf := make([]byte, 2048)
	for i, c := range st.src {
		_, _ = rcv.WriteToUDP([]byte("END"), c.LocalAddr().(*net.UDPAddr))
		for {
			_ = c.SetReadDeadline(time.Now().Add(500 * time.Millisecond))
			n, from, err := c.ReadFromUDP(buf)
			if err != nil || (from.String() == raddr.String() && string(buf[:n]) == "END") {
				break
			}
			if from.String() != raddr.String() {
				continue // a leftover of an earlier socket
			}
			code := "x"
			var m msg.NatHoleSid
			if err := nathole.DecodeMessageInto(buf[:n], key, &m); err == nil && m.Sid == sid {
				code = b01(m.Response)
			}
			replies = append(replies, string(rune('a'+i))+":"+code)
		}
	}
	if len(replies) == 0 {
		return out + "#-"
	}
	return out + "#" + strings.Join(replies, ",")
}

// punchLink wires one control connection: a client-side and a server-side transporter (the real
// transport.MessageTransporter) and the two pumps that client/control.go and server/control.go run.
func punchLink(ctl *nathole.Controller, user string, onResp func(*msg.NatHoleResp) time.Duration) transport.MessageTransporter {
	up, down := make(chan msg.Message, 16), make(chan msg.Message, 16)
	cli, srv := transport.NewMessageTransporter(up), transport.NewMessageTransporter(down)
	go func() {
		for m := range up { // server/control.go: msg.AsyncHandler => one goroutine per message
			switch v := m.(type) {
			case *msg.NatHoleVisitor:
				go ctl.HandleVisitor(v, srv, user)
			case *msg.NatHoleClient:
				go ctl.HandleClient(v, srv)
			case *msg.NatHoleReport:
				go ctl.HandleReport(v)
			}
		}
	}()
	go func() {
		for m := range down { // client/control.go: handleNatHoleResp => Dispatch(m, m.TransactionID)
			if r, ok := m.(*msg.NatHoleResp); ok {
				cp := *r
				if d := onResp(&cp); d > 0 {
					time.Sleep(d) // the response is slow in transit
				}
				cli.Dispatch(r, r.TransactionID)
			}
		}
	}()
	return cli
}

func punchAddrs(kind string, port int) (mapped, assisted []string) {
	a := "127.0.0.1:" + strconv.Itoa(port)
	switch kind[0] {
	case 'e':
		mapped = []string{a, a}
	case 'r':
		mapped = []string{a, "127.0.0.1:" + strconv.Itoa(port+1)}
	case 'h':
		mapped = []string{a, "127.0.0.1:" + strconv.Itoa(port+20)}
	case 'i':
		mapped = []string{a, "127.0.0.9:" + strconv.Itoa(port)}
	default:
		mapped = []string{a, "nocolon"}
	}
	if kind[1] == 'a' {
		assisted = []string{a}
	}
	for j := 0; j < punchIdleCount(kind); j++ {
		assisted = append(assisted, "127.0.0.1:"+strconv.Itoa(port+2+j))
	}
	return
}

func (s *punchSess) closeIdle() {
	for _, c := range s.idle {
		c.Close()
	}
	s.idle = nil
}

// p = MakeHole returned the peer's own socket address, q = another socket of the peer, namely the one the peer's
// MakeHole chose (a receiver in modes 2 / 4 listens on 257 sockets and may be found through any of them),
// t = the third party's address, o = any other address, n = error
func (s *punchSess) classify(st *punchState, raddr *net.UDPAddr, peer, peerChosen string) string {
	switch {
	case raddr == nil:
		return "n"
	case raddr.String() == peer:
		return "p"
	case peerChosen != "" && raddr.String() == peerChosen:
		return "q"
	case raddr.String() == st.third.LocalAddr().String():
		return "t"
	}
	if os.Getenv("NAT_TIMING") != "" {
		fmt.Fprintf(os.Stderr, "punch %d: raddr %s, peer %s\n", s.id, raddr, peer)
	}
	return "o"
}

// a wildcard socket (0.0.0.0:port) is reached on loopback as 127.0.0.1:port
func punchLocal(c *net.UDPConn) string {
	a := c.LocalAddr().(*net.UDPAddr)
	if a.IP.IsUnspecified() {
		return "127.0.0.1:" + strconv.Itoa(a.Port)
	}
	return a.String()
}

func punchExec(tok []string) string {
	if punchSt == nil {
		punchReset()
	}
	st := punchSt
	switch tok[0] {
	case "reset":
		punchReset()
		return "-"
	case "sidmsg":
		m := &msg.NatHoleSid{TransactionID: "t", Sid: unhx(tok[1]), Response: tok[2] == "1", Nonce: strings.Repeat("0", atoi(tok[3]))}
		buf, err := nathole.EncodeMessage(m, []byte(unhx(tok[4])))
		if err != nil {
			return "encerr"
		}
		if cut := atoi(tok[6]); cut > 0 {
			if cut > len(buf) {
				cut = len(buf)
			}
			buf = buf[:len(buf)-cut]
		}
		var out msg.NatHoleSid
		if err := nathole.DecodeMessageInto(buf, []byte(unhx(tok[5])), &out); err != nil {
			return "err"
		}
		return fmt.Sprintf("ok:%s,%s,%d", hx(out.Sid), b01(out.Response), len(out.Nonce))
	case "pwdm":
		return punchWdm(st, tok[1], unhx(tok[2]), strings.Split(tok[3], ","))
	case "pstart":
		id := atoi(tok[1])
		if _, dup := st.sess[id]; dup {
			return "fail:dup-id"
		}
		vkind, ckind, scn := tok[2], tok[3], tok[4]
		vConn, vIdle, err := punchListenN(punchIdleCount(vkind))
		if err != nil {
			return "fail:listen"
		}
		cConn, cIdle, err := punchListenN(punchIdleCount(ckind))
		if err != nil {
			return "fail:listen"
		}
		// On loopback the receiver's low-TTL probes are not lost in transit as they are meant to be: with 257
		// receiver sockets they would fill the sender's default receive buffer while it sleeps SendDelayMs.
		_ = vConn.SetReadBuffer(4 << 20)
		_ = cConn.SetReadBuffer(4 << 20)
		s := &punchSess{id: id, vConn: vConn, cConn: cConn, vAddr: vConn.LocalAddr().String(), cAddr: cConn.LocalAddr().String(),
			vOut: "x", cOut: "x", vTid: "tv" + tok[1], cTid: "tc" + tok[1], start: time.Now(), cancel: func() {},
			idle: append(vIdle, cIdle...)}
		s.smallBuf = punchRcvBuf(vConn) < 1<<20 || punchRcvBuf(cConn) < 1<<20
		st.sess[id] = s
		name := "p" + tok[1]
		sidCh, err := st.ctl.ListenClient(name, "sk", []string{"*"})
		if err != nil {
			return "fail:listenclient"
		}
		vKey, cKey := []byte("secret"), []byte("secret")
		if strings.Contains(scn, "m") {
			cKey = []byte("other")
		}
		vPort, cPort := vConn.LocalAddr().(*net.UDPAddr).Port, cConn.LocalAddr().(*net.UDPAddr).Port
		vMapped, vAssisted := punchAddrs(vkind, vPort)
		cMapped, cAssisted := punchAddrs(ckind, cPort)
		late := func(r *msg.NatHoleResp) time.Duration {
			// scenario l: the NatHoleResp of the party that does not send first reaches it late, after the sender's
			// probe has arrived at its socket
			if !strings.Contains(scn, "l") || r.Error != "" || r.DetectBehavior.Role == nathole.DetectRoleSender {
				return 0
			}
			return punchLate(r)
		}
		vT := punchLink(st.ctl, "alice", func(r *msg.NatHoleResp) time.Duration { s.mu.Lock(); s.vResp = r; s.mu.Unlock(); return late(r) })
		cT := punchLink(st.ctl, "owner", func(r *msg.NatHoleResp) time.Duration { s.mu.Lock(); s.cResp = r; s.mu.Unlock(); return late(r) })
		s.scn = scn
		ctx, cancel := context.WithCancel(context.Background())
		s.cancel = cancel
		// the visitor: client/visitor/xtcp.go makeNatHole
		s.done.Add(2)
		go func() {
			defer s.done.Done()
			ts := time.Now().Unix()
			resp, err := nathole.ExchangeInfo(ctx, vT, s.vTid, &msg.NatHoleVisitor{
				TransactionID: s.vTid, ProxyName: name, Protocol: "quic", SignKey: util.GetAuthKey("sk", ts), Timestamp: ts,
				MappedAddrs: vMapped, AssistedAddrs: vAssisted,
			}, 5*time.Second)
			if err != nil {
				return
			}
			conn, raddr, err := nathole.MakeHole(ctx, vConn, resp, vKey)
			s.mu.Lock()
			s.vOut = "n"
			if err == nil {
				s.vRaddr, s.vLocal = raddr, punchLocal(conn)
				if os.Getenv("NAT_TIMING") != "" {
					fmt.Fprintf(os.Stderr, "punch %d: visitor done after %v\n", s.id, time.Since(s.start))
				}
			} else if os.Getenv("NAT_TIMING") != "" {
				fmt.Fprintf(os.Stderr, "punch %d: visitor error %v after %v\n", s.id, err, time.Since(s.start))
			}
			s.mu.Unlock()
		}()
		// the proxy side (server/proxy/xtcp.go) hands the sid to the owner
		select {
		case s.sid = <-sidCh:
		case <-time.After(3 * time.Second):
			return "fail:no-sid"
		}
		// noise first: it is queued at both sockets before either party starts MakeHole
		sendV := func(b []byte) { _, _ = st.third.WriteToUDP(b, vConn.LocalAddr().(*net.UDPAddr)) }
		sendC := func(b []byte) { _, _ = st.third.WriteToUDP(b, cConn.LocalAddr().(*net.UDPAddr)) }
		send := func(b []byte) { sendV(b); sendC(b) }
		enc := func(sid string, response bool, key []byte) []byte {
			b, _ := nathole.EncodeMessage(&msg.NatHoleSid{TransactionID: "noise", Sid: sid, Response: response, Nonce: "000"}, key)
			return b
		}
		for _, ch := range scn {
			switch ch {
			case 'g':
				send([]byte("hello"))
				send([]byte(strings.Repeat("\x00garbage\xff", 6)))
			case 'k':
				send(enc(s.sid, true, []byte("zzz")))
			case 'w':
				send(enc("nosuchsid", true, vKey))
			case 'v':
				sendV(enc("nosuchsid", true, vKey))
			case 'c':
				sendC(enc("nosuchsid", true, vKey))
			case 'f':
				send(enc("nosuchsid", false, vKey))
			case 't':
				b := enc(s.sid, true, vKey)
				send(b[:len(b)-3])
			case 'i':
				send(enc(s.sid, false, vKey))
			}
		}
		// the owner: client/proxy/xtcp.go InWorkConn
		go func() {
			defer s.done.Done()
			resp, err := nathole.ExchangeInfo(ctx, cT, s.cTid, &msg.NatHoleClient{
				TransactionID: s.cTid, ProxyName: name, Sid: s.sid, MappedAddrs: cMapped, AssistedAddrs: cAssisted,
			}, 5*time.Second)
			if err != nil {
				return
			}
			conn, raddr, err := nathole.MakeHole(ctx, cConn, resp, cKey)
			_ = cT.Send(&msg.NatHoleReport{Sid: s.sid, Success: err == nil})
			s.mu.Lock()
			s.cOut = "n"
			if err == nil {
				s.cRaddr, s.cLocal = raddr, punchLocal(conn)
			} else if os.Getenv("NAT_TIMING") != "" {
				fmt.Fprintf(os.Stderr, "punch %d: owner error %v after %v\n", s.id, err, time.Since(s.start))
			}
			s.mu.Unlock()
		}()
		return fmt.Sprintf("%d,%d", vPort, cPort)
	case "pwait":
		s, ok := st.sess[atoi(tok[1])]
		if !ok {
			return "unknown"
		}
		fin := make(chan struct{})
		go func() { s.done.Wait(); close(fin) }()
		// Both responses are there about 1 s after the start (HandleVisitor holds the sender's back for 1 s); the
		// sender then sleeps SendDelayMs and probes; everything after that takes milliseconds on loopback.
		deadline := s.start.Add(2500 * time.Millisecond)
		for {
			s.mu.Lock()
			v, c := s.vResp, s.cResp
			s.mu.Unlock()
			if v != nil && c != nil {
				d := v.DetectBehavior.SendDelayMs
				if c.DetectBehavior.SendDelayMs > d {
					d = c.DetectBehavior.SendDelayMs
				}
				d += 1000 // when the sender probes
				// a receiver with many sockets first sends its range probes (2 ms each) from every one of them
				pre, lateMs := 0, 0
				for _, r := range []*msg.NatHoleResp{v, c} {
					n := 0
					for _, pr := range r.DetectBehavior.CandidatePorts {
						n += pr.To - pr.From + 1
					}
					if x := n * 3 * (1 + r.DetectBehavior.ListenRandomPorts); x > pre {
						pre = x
					}
					if strings.Contains(s.scn, "l") && r.DetectBehavior.Role != nathole.DetectRoleSender {
						lateMs = int(punchLate(r).Milliseconds())
					}
				}
				if lateMs+pre > d {
					d = lateMs + pre
				} else if pre > d {
					d = pre
				}
				deadline = s.start.Add(time.Duration(d+1500) * time.Millisecond)
				break
			}
			stop := !time.Now().Before(deadline)
			select {
			case <-fin:
				stop = true
			case <-time.After(5 * time.Millisecond):
			}
			if stop {
				break
			}
		}
		select {
		case <-fin:
		case <-time.After(time.Until(deadline)):
			// nothing more will come: end the reads (MakeHole returns "wait detect message error" / "canceled")
			s.cancel()
			s.vConn.Close()
			s.cConn.Close()
			select {
			case <-fin:
			case <-time.After(8 * time.Second):
				return "hang"
			}
		}
		s.cancel()
		s.vConn.Close()
		s.cConn.Close()
		s.closeIdle()
		s.mu.Lock()
		defer s.mu.Unlock()
		if s.smallBuf && s.vResp != nil && s.cResp != nil &&
			s.vResp.DetectBehavior.ListenRandomPorts+s.cResp.DetectBehavior.ListenRandomPorts > 0 {
			return "skip:small-rcvbuf"
		}
		rs := func(r *msg.NatHoleResp, tid string) string {
			if r == nil {
				return "-"
			}
			t := "?"
			if r.TransactionID == tid {
				t = hx(tid)
			}
			return natRespStr(r, t, func(sid string) string {
				if sid == s.sid {
					return "s" + strconv.Itoa(s.id)
				}
				return "?"
			})
		}
		if s.vOut != "x" {
			s.vOut = s.classify(st, s.vRaddr, s.cAddr, s.cLocal)
		}
		if s.cOut != "x" {
			s.cOut = s.classify(st, s.cRaddr, s.vAddr, s.vLocal)
		}
		return "V=" + rs(s.vResp, s.vTid) + "#C=" + rs(s.cResp, s.cTid) + "#" + s.vOut + ";" + s.cOut
	}
	return "bad-op"
}

func punchGen(rng *rand.Rand, n int, emit func(string)) {
	emit("reset")
	emitted := 0
	e := func(s string) { emit(s); emitted++ }
	kinds := []string{"e", "e", "e", "r", "r", "h", "i", "x"}
	keys := []string{"secret", "other", "", "k"}
	nextID := 0
	batches := 0
	for emitted < n {
		if batches*120 <= emitted { // a batch costs a few seconds of wall time: one per ~120 ops
			batches++
			// Every batch starts from a fresh controller: within a batch no report is processed before the next
			// analysis, so a key walks down its rows.  Mode 0: rows 0..5 alternate the roles and the TTLs at
			// SendDelayMs 0, rows 6..9 sleep 5 s / 10 s, and with a public-network party rows 8 and 9 come 4th and
			// 5th: at most three easy/easy sessions per batch.
			if emitted > 0 {
				e("reset")
			}
			nextID = 0
			k := 6 + rng.Intn(5)
			ids := []int{}
			ee, stray := 0, 0
			multi := 0
			heavy := 0 // modes 2 and 4 open 256 sockets per receiver and take 4 s: at most three per batch
			for j := 0; j < k; j++ {
				vk, ck := pick(rng, kinds), pick(rng, kinds)
				switch j { // every batch has a mode-2 and a mode-4 pair (many sockets, random ports), either orientation
				case 0:
					vk, ck = pick(rng, []string{"h", "i"}), "e"
				case 1:
					vk, ck = "r", pick(rng, []string{"h", "i"})
				}
				if j < 2 && rng.Intn(2) == 0 {
					vk, ck = ck, vk
				}
				hi := 0 // exactly one side hard with irregular ports: mode 2 (other side easy) or mode 4 (other side regular)
				for _, x := range []string{vk, ck} {
					if x == "h" || x == "i" {
						hi++
					}
				}
				if hi == 1 && heavy >= 3 {
					vk, ck = "e", pick(rng, []string{"e", "r"})
					hi = 0
				}
				if hi == 1 {
					heavy++
				}
				scn := "-"
				switch rng.Intn(10) {
				case 0, 1, 2:
					scn = ""
					for _, c := range "gkwtvcf" {
						if rng.Intn(2) == 0 {
							scn += string(c)
						}
					}
					if scn == "" {
						scn = "g"
					}
				case 3: // expected not to meet: only with fast rows (easy / easy), see pwait's deadline
					scn = pick(rng, []string{"m", "i", "gi", "wm"})
					vk, ck = "e", "e"
				}
				if hi != 1 && scn != "-" && !strings.ContainsAny(scn, "mi") && rng.Intn(3) == 0 {
					scn += "l" // the receiver's response is late (single-socket modes only: 1.5 s)
				} else if hi != 1 && scn == "-" && rng.Intn(8) == 0 {
					scn = "l"
				}
				if vk == "e" && ck == "e" {
					if ee >= 3 {
						vk, ck, scn = pick(rng, []string{"e", "r"}), "r", "-"
					} else {
						// every batch: a datagram of another session (Response = true) waits at the visitor's socket in
						// one fast session and at the owner's in another (rows 0 and 1 of mode 0 swap the roles, so
						// both a receiver and a sender meet one before the genuine detect message)
						if !strings.ContainsAny(scn, "mi") {
							extra := ""
							switch stray {
							case 0:
								extra = "v"
							case 1:
								extra = "c"
							}
							stray++
							if extra != "" && !strings.Contains(scn, extra) {
								scn = strings.Replace(scn, "-", "", 1) + extra
							}
						}
						ee++
					}
				}
				id := nextID
				nextID++
				ids = append(ids, id)
				// assisted addresses (the peer's sender probes them BEFORE the mapped ones): the own address / none, or
				// N further local addresses that lead nowhere — any N in 0..12 per side; nathole.Prepare announces
				// up to 10 local IPs, so in every batch the first two fast honest sessions have fully multi-homed
				// parties (10..12 addresses) on both sides, whichever of them the table makes the receiver
				va, ca := pick(rng, []string{"a", "n"}), pick(rng, []string{"a", "n"})
				switch h := rng.Intn(20); {
				case h < 7:
				case h < 11:
					va, ca = strconv.Itoa(10+rng.Intn(3)), strconv.Itoa(10+rng.Intn(3))
				default:
					va, ca = strconv.Itoa(rng.Intn(13)), strconv.Itoa(rng.Intn(13))
				}
				if vk == "e" && ck == "e" && !strings.ContainsAny(scn, "mi") && multi < 2 {
					va, ca = strconv.Itoa(10+rng.Intn(3)), strconv.Itoa(10+rng.Intn(3))
					multi++
				}
				e(fmt.Sprintf("pstart %d %s%s %s%s %s", id, vk, va, ck, ca, scn))
			}
			for _, id := range ids {
				e(fmt.Sprintf("pwait %d", id))
			}
			continue
		}
		if rng.Intn(2) == 0 {
			// one waitDetectMessage over a queued inbox: datagrams of other sessions (same key, Response true / false),
			// undecodable ones and our own session's, from three sources, in every order — before, between and
			// after the genuine ones
			codes := []string{"j", "k1", "k0", "t1", "t0", "o0", "o0", "o0", "o1", "o1", "f0", "f1", "f1", "p0", "p1", "e0", "e1"}
			harmless := []string{"j", "k1", "t1", "f0", "f1", "f1", "p0", "p1", "e1", "e0"}
			srcs := []string{"a", "b", "c"}
			items := []string{}
			if rng.Intn(3) == 0 {
				for j := 1 + rng.Intn(3); j > 0; j-- {
					items = append(items, pick(rng, srcs)+pick(rng, harmless))
				}
				items = append(items, pick(rng, srcs)+pick(rng, []string{"o0", "o0", "o1"}))
				for j := rng.Intn(3); j > 0; j-- {
					items = append(items, pick(rng, srcs)+pick(rng, codes))
				}
			} else {
				for j := 1 + rng.Intn(6); j > 0; j-- {
					items = append(items, pick(rng, srcs)+pick(rng, codes))
				}
			}
			sid := pick(rng, []string{"s1", "0123456789abcdef", "sid with space", "s1", ""})
			e(fmt.Sprintf("pwdm %s %s %s", pick(rng, []string{"S", "R", "R", "N"}), hx(sid), strings.Join(items, ",")))
			continue
		}
		// the sid-message codec
		key := pick(rng, keys)
		dk := key
		if rng.Intn(4) == 0 {
			dk = pick(rng, keys)
		}
		cut := 0
		if rng.Intn(4) == 0 {
			cut = pick(rng, []int{1, 2, 5, 16, 30, 200})
		}
		sid := pick(rng, []string{"s", "0123456789abcdef", "", "sid with space", "\"quoted\"", "é"})
		e(fmt.Sprintf("sidmsg %s %d %d %s %s %d", hx(sid), rng.Intn(2), rng.Intn(20), hx(key), hx(dk), cut))
	}
}

func init() { register(&Engine{Name: "punch", Gen: punchGen, Exec: punchExec}) }
