package main

import (
	"bufio"
	"context"
	"encoding/base64"
	"fmt"
	"io"
	"math/rand"
	"net"
	"net/http"
	"os"
	"path/filepath"
	"strconv"
	"strings"
	"sync"
	"time"

	"github.com/fatedier/frp/client"
	v1 "github.com/fatedier/frp/pkg/config/v1"
	plugin "github.com/fatedier/frp/pkg/plugin/client"
	"github.com/fatedier/frp/server"
)

// Engine "httpauth", web endpoints (property C07): the password-protected endpoints that sit behind
// HTTPAuthMiddleware and a gorilla/mux router, and the socks5 plugin.
//
//	wq sf   <user> <pass> <strip> <method> <target> <wauth>   => q   queue a request for a real static_file plugin
//	       (NewStaticFilePlugin over a directory with files + Handle; each request on its own work connection)
//	wq dash <user> <pass> <prom>  <method> <target> <wauth>   => q   … for the web server of a real frps
//	       (server.NewService + Run, webServer.user/password, enablePrometheus = prom)
//	wq adm  <user> <pass> -       <method> <target> <wauth>   => q   … for the admin server of a real frpc
//	       (client.NewService + Run against a real frps)
//	wflush                                                     => r1,r2,… | -   send every queued request, all at
//	       the same time (a refused request costs the endpoint's 200 ms fail delay), answers in queue order
//	s5   <user> <pass> <ver> <hexmethods> <authver> <hexuser> <hexpass>
//	       => closed | na | closed2 | af | conn+ | …             real socks5 plugin (NewSocks5Plugin + Handle) in
//	       front of the recording target; "+" = the target saw the tunnelled request
//
// r = "<status><flag>", flag: g = Content-Encoding: gzip (set by the gzip wrapper in front of a file handler),
// e = empty body, n = body "404 page not found\n", o = any other body.
//
// wauth: "-" no Authorization line | "w<k>:<hexvalue>[:<hexvalue>]" one or two lines whose field name is
// spelled in variant k (4 = Proxy-Authorization) and whose value is written byte for byte after the colon.
type hawInst struct {
	addr  string
	close func()
}

var (
	hawOnce      sync.Once
	hawFilesDir  string
	hawAssetsDir string
	hawMu        sync.Mutex
	hawDash      = map[string]*hawInst{}
	hawAdm       = map[string]*hawInst{}
	hawSeq       int
)

func hawSetup() {
	hawOnce.Do(func() {
		// fixed location, fixed content: concurrent and repeated harness processes write the same files
		d := filepath.Join(os.TempDir(), "verif-c07-web")
		hawFilesDir = filepath.Join(d, "files")
		hawAssetsDir = filepath.Join(d, "assets")
		put := func(p, content string) {
			if b, err := os.ReadFile(p); err == nil && string(b) == content {
				return
			}
			_ = os.MkdirAll(filepath.Dir(p), 0o755)
			_ = os.WriteFile(p, []byte(content), 0o644)
		}
		for _, f := range []string{"secret.txt", "dir/inner.txt", "pub/secret.txt", "pub/sub/x.txt"} {
			put(filepath.Join(hawFilesDir, f), "protected content of "+f+"\n")
		}
		for _, f := range []string{"favicon.ico", "app.js", "index.html"} {
			put(filepath.Join(hawAssetsDir, f), "asset "+f+"\n")
		}
	})
}

var hawHdrNames = []string{"Authorization", "authorization", "AUTHORIZATION", "aUTHORIZATION", "Proxy-Authorization"}

// hawRoundTrip writes one request byte for byte and classifies the response.
func hawRoundTrip(c net.Conn, host, method, target, wauth string) string {
	defer c.Close()
	_ = c.SetDeadline(time.Now().Add(8 * time.Second))
	var sb strings.Builder
	fmt.Fprintf(&sb, "%s %s HTTP/1.1\r\nHost: %s\r\nAccept-Encoding: gzip\r\n", method, target, host)
	if wauth != "-" {
		parts := strings.Split(wauth, ":")
		name := hawHdrNames[atoi(parts[0][1:])]
		for _, v := range parts[1:] {
			fmt.Fprintf(&sb, "%s:%s\r\n", name, unhx(v))
		}
	}
	sb.WriteString("Content-Length: 0\r\nConnection: close\r\n\r\n")
	if _, err := c.Write([]byte(sb.String())); err != nil {
		return "err"
	}
	resp, err := http.ReadResponse(bufio.NewReader(c), &http.Request{Method: method})
	if err != nil {
		return "err"
	}
	defer resp.Body.Close()
	body, _ := io.ReadAll(io.LimitReader(resp.Body, 1<<16))
	flag := "o"
	switch {
	case strings.Contains(resp.Header.Get("Content-Encoding"), "gzip"):
		flag = "g"
	case len(body) == 0:
		flag = "e"
	case string(body) == "404 page not found\n":
		flag = "n"
	}
	return strconv.Itoa(resp.StatusCode) + flag
}

type hawItem struct{ kind, user, pass, extra, method, target, wauth string }

// hawFlush sends all queued requests concurrently and returns the answers in queue order.
func (st *httpAuthState) hawFlush() string {
	q := st.webQ
	st.webQ = nil
	if len(q) == 0 {
		return "-"
	}
	hawSetup()
	out := make([]string, len(q))
	// one static_file plugin per distinct configuration in this batch
	plugs := map[string]plugin.Plugin{}
	defer func() {
		for _, p := range plugs {
			p.Close()
		}
	}()
	conn := func(it hawItem) (net.Conn, error) {
		switch it.kind {
		case "sf":
			hawMu.Lock()
			key := it.user + "\x00" + it.pass + "\x00" + it.extra
			p := plugs[key]
			if p == nil {
				var err error
				p, err = plugin.NewStaticFilePlugin(plugin.PluginContext{Name: "verif"}, &v1.StaticFilePluginOptions{
					LocalPath: hawFilesDir, StripPrefix: it.extra, HTTPUser: it.user, HTTPPassword: it.pass,
				})
				if err != nil {
					hawMu.Unlock()
					return nil, err
				}
				plugs[key] = p
			}
			hawMu.Unlock()
			a, b := net.Pipe()
			go p.Handle(context.Background(), &plugin.ConnectionInfo{Conn: b, UnderlyingConn: b})
			return a, nil
		case "dash":
			return net.DialTimeout("tcp", hawFrps(it.user, it.pass, it.extra == "1").addr, 2*time.Second)
		default:
			return net.DialTimeout("tcp", hawFrpc(it.user, it.pass).addr, 2*time.Second)
		}
	}
	one := func(i int) {
		c, err := conn(q[i])
		if err != nil {
			out[i] = "err"
			return
		}
		out[i] = hawRoundTrip(c, "endpoint.test", q[i].method, q[i].target, q[i].wauth)
	}
	// POST …stop… on the admin API, when served, shuts that frpc down 100 ms later: such requests run alone,
	// after the others, and a served one retires the instance (the next request starts a fresh frpc)
	var later []int
	var wg sync.WaitGroup
	for i := range q {
		if q[i].kind == "adm" && q[i].method == "POST" && strings.Contains(q[i].target, "stop") {
			later = append(later, i)
			continue
		}
		wg.Add(1)
		go func(i int) { defer wg.Done(); one(i) }(i)
	}
	wg.Wait()
	for _, i := range later {
		one(i)
		if strings.HasPrefix(out[i], "200") {
			key := q[i].user + "\x00" + q[i].pass
			hawMu.Lock()
			in := hawAdm[key]
			delete(hawAdm, key)
			hawMu.Unlock()
			time.Sleep(150 * time.Millisecond)
			if in != nil {
				in.close()
			}
		}
	}
	return strings.Join(out, ",")
}

// hawFrps starts (once per credential pair) a real frps with its web server.
func hawFrps(user, pass string, prom bool) *hawInst {
	hawSetup()
	key := user + "\x00" + pass + "\x00" + strconv.FormatBool(prom)
	hawMu.Lock()
	defer hawMu.Unlock()
	if in := hawDash[key]; in != nil {
		return in
	}
	var lastErr error
	for try := 0; try < 5; try++ {
		cfg := &v1.ServerConfig{}
		cfg.BindAddr = "127.0.0.1"
		cfg.BindPort = freePort()
		cfg.ProxyBindAddr = "127.0.0.1"
		cfg.WebServer.Addr = "127.0.0.1"
		cfg.WebServer.Port = freePort()
		cfg.WebServer.User = user
		cfg.WebServer.Password = pass
		cfg.WebServer.AssetsDir = hawAssetsDir
		cfg.EnablePrometheus = prom
		cfg.Complete()
		svr, err := server.NewService(cfg)
		if err != nil {
			lastErr = err
			continue
		}
		ctx, cancel := context.WithCancel(context.Background())
		go svr.Run(ctx)
		in := &hawInst{addr: net.JoinHostPort("127.0.0.1", strconv.Itoa(cfg.WebServer.Port)), close: func() { cancel(); svr.Close() }}
		hawDash[key] = in
		hawDash[key+"\x00bind"] = &hawInst{addr: strconv.Itoa(cfg.BindPort)}
		return in
	}
	panic(lastErr)
}

// hawFrpc starts (once per credential pair, again after a served /api/stop) a real frpc with its admin server.
func hawFrpc(user, pass string) *hawInst {
	hawFrps("", "", false)
	key := user + "\x00" + pass
	hawMu.Lock()
	defer hawMu.Unlock()
	if in := hawAdm[key]; in != nil {
		return in
	}
	bind := atoi(hawDash["\x00\x00false\x00bind"].addr)
	var lastErr error
	for try := 0; try < 5; try++ {
		cfg := &v1.ClientCommonConfig{}
		cfg.ServerAddr = "127.0.0.1"
		cfg.ServerPort = bind
		f := false
		cfg.LoginFailExit = &f
		cfg.Transport.TLS.Enable = &f
		cfg.WebServer.Addr = "127.0.0.1"
		cfg.WebServer.Port = freePort()
		cfg.WebServer.User = user
		cfg.WebServer.Password = pass
		cfg.WebServer.AssetsDir = hawAssetsDir
		cfg.Complete()
		cfgFile := filepath.Join(filepath.Dir(hawAssetsDir), "frpc.toml")
		_ = os.WriteFile(cfgFile, []byte(fmt.Sprintf("serverAddr = \"127.0.0.1\"\nserverPort = %d\n", bind)), 0o600)
		svc, err := client.NewService(client.ServiceOptions{Common: cfg, ConfigFilePath: cfgFile})
		if err != nil {
			lastErr = err
			continue
		}
		ctx, cancel := context.WithCancel(context.Background())
		go func() { _ = svc.Run(ctx) }()
		in := &hawInst{addr: net.JoinHostPort("127.0.0.1", strconv.Itoa(cfg.WebServer.Port)), close: func() { cancel(); svc.Close() }}
		hawAdm[key] = in
		return in
	}
	panic(lastErr)
}

// hawSocks5 plays one SOCKS5 client against the real plugin.
func (st *httpAuthState) hawSocks5(user, pass string, ver int, methods string, authVer int, qu, qp string) string {
	p, err := plugin.NewSocks5Plugin(plugin.PluginContext{Name: "verif"}, &v1.Socks5PluginOptions{Username: user, Password: pass})
	if err != nil {
		return "err"
	}
	defer p.Close()
	uc, err := net.DialTimeout("tcp", st.plLn.Addr().String(), 2*time.Second)
	if err != nil {
		return "dialerr"
	}
	defer uc.Close()
	work, err := st.plLn.Accept()
	if err != nil {
		return "accepterr"
	}
	go p.Handle(context.Background(), &plugin.ConnectionInfo{Conn: work, UnderlyingConn: work})
	_ = uc.SetDeadline(time.Now().Add(5 * time.Second))
	if _, err := uc.Write(append([]byte{byte(ver), byte(len(methods))}, methods...)); err != nil {
		return "closed"
	}
	sel := make([]byte, 2)
	if _, err := io.ReadFull(uc, sel); err != nil {
		return "closed"
	}
	switch sel[1] {
	case 0xff:
		return "na"
	case 2:
		msg := []byte{byte(authVer), byte(len(qu))}
		msg = append(msg, qu...)
		msg = append(msg, byte(len(qp)))
		msg = append(msg, qp...)
		if _, err := uc.Write(msg); err != nil {
			return "closed2"
		}
		if _, err := io.ReadFull(uc, sel); err != nil {
			return "closed2"
		}
		if sel[1] != 0 {
			return "af"
		}
	case 0:
	default:
		return "sel" + strconv.Itoa(int(sel[1]))
	}
	// CONNECT to the recording target
	host, portS, _ := net.SplitHostPort(st.plAddr)
	port := atoi(portS)
	ip := net.ParseIP(host).To4()
	req := append([]byte{5, 1, 0, 1}, ip...)
	req = append(req, byte(port>>8), byte(port))
	if _, err := uc.Write(req); err != nil {
		return "conn-werr"
	}
	rep := make([]byte, 10)
	if _, err := io.ReadFull(uc, rep); err != nil {
		return "conn-eof"
	}
	if rep[1] != 0 {
		return "rep" + strconv.Itoa(int(rep[1]))
	}
	st.plSeq++
	marker := fmt.Sprintf("/s5-%d", st.plSeq)
	fmt.Fprintf(uc, "GET %s HTTP/1.1\r\nHost: %s\r\nConnection: close\r\n\r\n", marker, st.plAddr)
	if _, err := http.ReadResponse(bufio.NewReader(uc), &http.Request{Method: "GET"}); err != nil {
		return "conn?"
	}
	if _, ok := st.plSeen.Load(marker); ok {
		return "conn+"
	}
	return "conn"
}

func httpAuthWebExec(st *httpAuthState, tok []string) (string, bool) {
	switch tok[0] {
	case "wq":
		st.webQ = append(st.webQ, hawItem{tok[1], unhx(tok[2]), unhx(tok[3]), tok[4], unhx(tok[5]), unhx(tok[6]), tok[7]})
		if tok[1] == "sf" {
			st.webQ[len(st.webQ)-1].extra = unhx(tok[4])
		}
		return "q", true
	case "wflush":
		return st.hawFlush(), true
	case "s5":
		return st.hawSocks5(unhx(tok[1]), unhx(tok[2]), atoi(tok[3]), unhx(tok[4]), atoi(tok[5]), unhx(tok[6]), unhx(tok[7])), true
	}
	return "", false
}

// ---------------------------------------------------------------- generators

var (
	hawUsers = []string{"", "alice", "admin", "a:b"}
	hawPass  = []string{"", "secret", "pw:1", "s3cret", "Zz9+/=?"}
	// the frps / frpc instances are started once per credential pair: a small fixed choice
	hawSrvCreds = [][2]string{{"admin", "s3cret"}, {"alice", "pw:1"}, {"", "secret"}, {"admin", ""}, {"", ""}}
	hawMethods  = []string{"GET", "GET", "GET", "GET", "GET", "GET", "GET", "GET", "GET", "GET", "GET", "GET", "HEAD", "HEAD", "HEAD", "POST", "POST", "PUT", "DELETE", "DELETE", "OPTIONS", "PATCH", "TRACE", "get", "Get", "head", "PROPFIND"}
	hawSchemes  = []string{"Basic", "Basic", "basic", "BASIC", "bAsIc"}
)

func hawCfg(rng *rand.Rand) (string, string) {
	if rng.Intn(8) == 0 {
		return "", ""
	}
	u, p := pick(rng, hawUsers), pick(rng, hawPass)
	if rng.Intn(3) != 0 {
		u, p = pick(rng, hawUsers[1:3]), pick(rng, hawPass[1:])
	}
	return u, p
}

func hawB64(s string) string { return base64.StdEncoding.EncodeToString([]byte(s)) }

func hawIsLetter(c byte) bool { return (c >= 'a' && c <= 'z') || (c >= 'A' && c <= 'Z') }

// hawFlipCase changes the case of one, a few or all letters of a base64 text
func hawFlipCase(rng *rand.Rand, s string) string {
	b := []byte(s)
	var idx []int
	for i := range b {
		if hawIsLetter(b[i]) {
			idx = append(idx, i)
		}
	}
	if len(idx) == 0 {
		return s
	}
	flip := func(i int) { b[i] ^= 0x20 }
	switch rng.Intn(4) {
	case 0:
		for _, i := range idx {
			flip(i)
		}
	case 1:
		return strings.ToLower(s)
	default:
		for k, n := 0, 1+rng.Intn(3); k < n; k++ {
			flip(idx[rng.Intn(len(idx))])
		}
	}
	return string(b)
}

// hawOtherCreds: credentials that are not (necessarily) the configured ones, near misses included
func hawOtherCreds(rng *rand.Rand, u, p string) string {
	swap1 := func(s string) string { // the first letter in the other case
		b := []byte(s)
		for i := range b {
			if hawIsLetter(b[i]) {
				b[i] ^= 0x20
				break
			}
		}
		return string(b)
	}
	switch rng.Intn(14) {
	case 0:
		return u + ":" + p + "x"
	case 1:
		return u + ":" + strings.ToUpper(p)
	case 2:
		return strings.ToUpper(u) + ":" + p
	case 3:
		return swap1(u) + ":" + p
	case 4:
		return u + ":" + swap1(p)
	case 5:
		return u + ":"
	case 6:
		return ":" + p
	case 7:
		return p + ":" + u
	case 8:
		if len(p) > 0 {
			return u + ":" + p[:len(p)-1]
		}
		return u + ": "
	case 9:
		return u + " :" + p
	default:
		return pick(rng, hawUsers) + ":" + pick(rng, hawPass)
	}
}

// hawHeaderValue: an Authorization value, built relative to the configured credentials: exact, exact up to the
// letter case of the base64 text, other credentials, equivalent and broken encodings, blanks in and around,
// other / truncated / glued schemes, payloads without a colon
func hawHeaderValue(rng *rand.Rand, u, p string) string {
	exact := hawB64(u + ":" + p)
	sch := pick(rng, hawSchemes)
	var v string
	switch k := rng.Intn(29); {
	case k < 6:
		v = sch + " " + exact
	case k < 11:
		v = sch + " " + hawFlipCase(rng, exact)
	case k < 17:
		v = sch + " " + hawB64(hawOtherCreds(rng, u, p))
	case k < 18:
		// same bytes, other text: the unused low bits of the last sextet before the padding
		if strings.HasSuffix(exact, "=") {
			i := strings.Index(exact, "=") - 1
			const al = "ABCDEFGHIJKLMNOPQRSTUVWXYZabcdefghijklmnopqrstuvwxyz0123456789+/"
			j := strings.IndexByte(al, exact[i])
			v = sch + " " + exact[:i] + string(al[j^1]) + exact[i+1:]
		} else {
			v = sch + " " + exact
		}
	case k < 21:
		b := exact
		switch rng.Intn(7) {
		case 0:
			b = strings.TrimRight(b, "=")
		case 1:
			b += "="
		case 2:
			b = b[:len(b)-1]
		case 3:
			b += "A"
		case 4:
			b = strings.NewReplacer("+", "-", "/", "_").Replace(b) + "-"
		case 5:
			i := rng.Intn(len(b))
			b = b[:i] + pick(rng, []string{"!", "*", ".", " ", "%"}) + b[i+1:]
		default:
			b = b + b
		}
		v = sch + " " + b
	case k < 23:
		v = pick(rng, []string{sch + "  " + exact, sch + "\t" + exact, sch + " " + exact + " x", sch + " " + exact + " " + exact, sch + " \t" + exact})
	case k < 26:
		v = pick(rng, []string{sch + exact, "Basi " + exact, "Basicc " + exact, "Bearer " + exact, "Digest " + exact, "Basic", "Basic ", "", exact, "Negotiate " + exact, "Basic," + exact})
	case k < 27:
		v = sch + " " + pick(rng, []string{hawB64(u), hawB64(u + p), hawB64(u + ";" + p), hawB64("")})
	case k < 28:
		v = sch + " " + hawB64(pick(rng, []string{u + "::" + p, u + ":" + p + ":", ":" + u + ":" + p, u + ":" + p + "\n"}))
	default:
		n := 1 + rng.Intn(12)
		b := make([]byte, n)
		for i := range b {
			b[i] = byte(33 + rng.Intn(94))
		}
		v = string(b)
	}
	return v
}

// hawBlanks wraps a value in the blanks a client may put around it
func hawBlanks(rng *rand.Rand, v string) string {
	if rng.Intn(3) == 0 {
		v = pick(rng, []string{"", " ", "  ", "\t", " \t "}) + v + pick(rng, []string{"", "", " ", "\t ", "   "})
	} else {
		v = " " + v
	}
	return v
}

// hawWireAuth: the Authorization lines of one request
func hawWireAuth(rng *rand.Rand, u, p string) string {
	if rng.Intn(7) == 0 {
		return "-"
	}
	k := 0
	if rng.Intn(4) == 0 {
		k = rng.Intn(5)
	}
	tok := "w" + strconv.Itoa(k) + ":" + hx(hawBlanks(rng, hawHeaderValue(rng, u, p)))
	if rng.Intn(7) == 0 { // a second line: Header.Get reads the first only
		second := hawB64(u + ":" + p)
		if rng.Intn(2) == 0 {
			second = hawB64(hawOtherCreds(rng, u, p))
		}
		tok += ":" + hx(" Basic "+second)
	}
	return tok
}

func hawPath(rng *rand.Rand, ordinary, segs []string) string {
	switch k := rng.Intn(20); {
	case k < 13:
		return pick(rng, ordinary)
	case k < 19:
		n := 1 + rng.Intn(3)
		p := ""
		for i := 0; i < n; i++ {
			p += "/" + pick(rng, segs)
		}
		if rng.Intn(5) == 0 {
			p += "/"
		}
		return p
	default:
		return pick(rng, ordinary) + pick(rng, []string{"%", "%2", "%zz", "/%g0"})
	}
}

var (
	hawSfPaths   = []string{"/", "/secret.txt", "/dir/", "/dir", "/dir/inner.txt", "/pub/secret.txt", "/pub/", "/pub", "/pub/sub/x.txt", "/missing", "/secret.txt/", "/index.html"}
	hawSfSegs    = []string{"secret.txt", "dir", "inner.txt", "pub", "sub", "x.txt", "missing", "..", ".", "", "%2e%2e", "%2E", "%73ecret.txt", "pub%2fsecret.txt", "secret.txt", "dir", "pub", "%64ir", "pub"}
	hawDashPaths = []string{"/", "/healthz", "/api/serverinfo", "/api/proxy/tcp", "/api/proxy/http", "/api/proxy/tcp/x", "/api/proxy/tcp/x/y", "/api/proxy/",
		"/api/proxy", "/api/traffic/x", "/api/traffic/", "/api/proxies", "/metrics", "/favicon.ico", "/static/", "/static/app.js", "/static/missing.js", "/static",
		"/api", "/api/", "/api/serverinfo/", "/API/serverinfo", "/healthz/", "/debug/pprof/", "/x",
		"/", "/api/serverinfo", "/api/proxy/tcp", "/api/proxy/udp/y", "/api/traffic/y", "/api/proxies", "/favicon.ico", "/static/app.js", "/static/", "/api/serverinfo", "/api/proxy/stcp"}
	hawDashSegs = []string{"api", "serverinfo", "proxy", "tcp", "x", "traffic", "proxies", "healthz", "static", "app.js", "favicon.ico", "metrics", "..", ".", "",
		"%61pi", "%2e%2e", "api%2fserverinfo", "api", "serverinfo"}
	hawAdmPaths = []string{"/", "/healthz", "/api/reload", "/api/stop", "/api/status", "/api/config", "/api/config/", "/api/status/x", "/favicon.ico", "/static/",
		"/static/app.js", "/static", "/api", "/api/", "/API/status", "/debug/pprof/", "/x",
		"/", "/api/reload", "/api/stop", "/api/status", "/api/config", "/api/config", "/favicon.ico", "/static/app.js", "/api/status"}
	hawAdmSegs = []string{"api", "reload", "stop", "status", "config", "healthz", "static", "app.js", "..", ".", "", "%61pi", "%2e%2e", "api%2fstatus", "api", "status"}
)

func hawReq(rng *rand.Rand, u, p string, ordinary, segs []string) string {
	return hx(pick(rng, hawMethods)) + " " + hx(hawPath(rng, ordinary, segs)) + " " + hawWireAuth(rng, u, p)
}

// hawGen emits one op line of the given kind (a queued web request, a middleware call, a socks5 connection)
func hawGen(rng *rand.Rand, kind string) string {
	switch kind {
	case "sf":
		u, p := hawCfg(rng)
		strip := pick(rng, []string{"", "", "", "pub", "dir"})
		paths := hawSfPaths
		if strip != "" { // mostly below the prefix
			paths = nil
			for _, q := range hawSfPaths {
				paths = append(paths, "/"+strip+q, "/"+strip+q)
			}
			paths = append(paths, hawSfPaths...)
		}
		return fmt.Sprintf("wq sf %s %s %s ", hx(u), hx(p), hx(strip)) + hawReq(rng, u, p, paths, hawSfSegs)
	case "dash":
		c := pick(rng, hawSrvCreds)
		return fmt.Sprintf("wq dash %s %s %d ", hx(c[0]), hx(c[1]), rng.Intn(2)) + hawReq(rng, c[0], c[1], hawDashPaths, hawDashSegs)
	case "adm":
		c := pick(rng, hawSrvCreds)
		return fmt.Sprintf("wq adm %s %s - ", hx(c[0]), hx(c[1])) + hawReq(rng, c[0], c[1], hawAdmPaths, hawAdmSegs)
	case "mw":
		u, p := hawCfg(rng)
		v := hawHeaderValue(rng, u, p)
		if rng.Intn(6) == 0 {
			v = hawBlanks(rng, v)
		}
		return fmt.Sprintf("mw %s %s r%s", hx(u), hx(p), hx(v))
	default: // s5
		u, p := hawCfg(rng)
		switch rng.Intn(8) { // the plugin protects itself when EITHER is set
		case 0, 1:
			u = ""
		case 2:
			p = ""
		}
		ver := pick(rng, []int{5, 5, 5, 5, 5, 5, 5, 5, 4, 0})
		methods := pick(rng, []string{"\x02", "\x02", "\x00", "\x00\x02", "\x02\x00", "", "\x01", "\x01\x02", "\xff\x00", "\x00\x01\x02\x03"})
		av := pick(rng, []int{1, 1, 1, 1, 1, 1, 1, 1, 0, 5})
		qu, qp := u, p
		if rng.Intn(2) == 0 {
			o := hawOtherCreds(rng, u, p)
			i := strings.Index(o, ":")
			qu, qp = o[:i], o[i+1:]
			if rng.Intn(3) == 0 {
				qu = u
			}
		}
		return fmt.Sprintf("s5 %s %s %d %s %d %s %s", hx(u), hx(p), ver, hx(methods), av, hx(qu), hx(qp))
	}
}
