// Engine "crash" (C16): totality by exploration. A sacrificial CHILD process (this binary re-executed
// with VERIF_CRASH_CHILD=1) hosts a real frps (server.Service: token auth, tcpmux on, vhost http +
// tcpmux ports, a small allowPorts window) and a real frpc (client.Service) whose tcp proxy is the
// watchdog tunnel.  The parent forwards one op per line to the child and classifies what it sees:
// the child answered (the result), the child died (`crash:<class>@<first frp frame>` from its stderr)
// or did not answer in time (`hang`).  The child runs every op WITHOUT recover: whatever would kill
// frps / frpc kills the child.  After a death the next op starts a fresh child.
//
// Ops:
//
//	reset                                    fresh child                                          => -
//	login <cid> <pool> <good> <variant>      Login with PoolCount=pool, a good or bad key, other
//	                                         fields by variant; reads LoginResp                   => ok | err | eof
//	negpool <cid> <pool> <tcp|udp>           login with PoolCount=pool, register one proxy of that type on an
//	                                         allowed port, (tcp: connect to it as a user), wait 1.2 s          => done
//	msg <cid> <Type> <variant>               one message of msg type <Type> with extreme field values
//	                                         (derived from <variant>); on the established control
//	                                         connection <cid>, else as FIRST message of a new stream => sent
//	json <cid> <typebyte> <xHEXbody>         a frame with an arbitrary JSON body                   => sent
//	raw <xHEX>                               bytes on the bare tcp port (below yamux)              => sent
//	drop <cid>                               the peer closes its connection                        => -
//	storm <seed> <nconn> <nmsg>              nconn concurrent peers, each: login (mostly good), nmsg
//	                                         random messages / frames, registrations (all proxy
//	                                         types, groups), closes, nat-hole traffic, drops         => done
//	race6 <iters>                            readers HandleVisitor{PreCheck} vs writers ListenClient/
//	                                         CloseClient on one real nathole.Controller            => done
//	stun <k> <tries>                         nathole.Discover against a STUN peer that answers every
//	                                         request with k datagrams (frpc side)                  => done
//	cstorm <seed> <nmsg>                     a second real frpc logged in to a scripted server that
//	                                         sends nmsg server→client messages of every type with
//	                                         extreme fields, answers work connections with garbage,
//	                                         then drops; the frpc must log in again                => done | nologin
//	wconn <cid> <ptype> <variant>            on session <cid>: register a proxy of type tcp|udp|stcp|sudp|xtcp (or use the real
//	                                         frpc's rstcp|rsudp proxy), offer work connections (NewWorkConn), make frps take one
//	                                         (user connection / datagram / visitor connection / nat-hole request), then SPEAK on
//	                                         the work connection and on the visitor connection: UDPPacket with absent / null /
//	                                         zero / garbage addresses and contents, Ping, every other type, unregistered type
//	                                         bytes, wrong-typed JSON, raw bytes (eng_crash_work.go)                       => sent
//	wstorm <seed> <nconn> <nmsg>             the same concurrently from nconn peers, answering every ReqWorkConn, with
//	                                         control connections dropped mid-way                                      => done
//	tear <cid> <gate> <nwork> <nproxy>       session teardown against work connections: login, nproxy proxies, park the
//	                                         worker at gate dispDone|drained|beforeDone|beforeDel (verifhook) after dropping the
//	                                         control connection, offer nwork NewWorkConn for the run id, release, one late offer;
//	                                         gate `none` = a free race (offers hammering while the control connection drops)  => done
//	ureq / ustorm / canon / ptear / gchurn   hostile USER traffic on the user-facing listeners, CanonicalHost, frpc teardown with active plugin
//	                                         requests, ungated group churn: see eng_crash_user.go
//	ostorm                                   concurrent logins / pings / work connections against a frps with auth.method = oidc: see eng_crash_oidc.go
//	maxports                                 a session refused for max_ports_per_client goes on and reconnects: see eng_crash_limits.go
//	ssh / sstorm                             hostile ssh clients on the ssh tunnel gateway: see eng_crash_ssh.go
//	relogin / gleave / routes / nstorm / pstorm / swc / closerace   wedges, valid nat-hole storms, hostile server frames for frpc, user datagrams
//	                                         against a closing udp proxy: see eng_crash_wedge.go
//	stat                                     what the server answered so far (coverage evidence only;
//	                                         accepted as is by the model)                          => stat:…
//	watch                                    watchdog: echo through the real frpc's tcp tunnel and a
//	                                         fresh raw login                                       => ok | fail:<why>
package main

import (
	"bufio"
	"bytes"
	"context"
	"encoding/binary"
	"fmt"
	"io"
	"math"
	"math/rand"
	"net"
	"os"
	"os/exec"
	"regexp"
	"runtime"
	"strconv"
	"strings"
	"sync"
	"syscall"
	"time"

	"github.com/pion/stun/v2"
	"github.com/samber/lo"

	"github.com/fatedier/frp/client"
	"github.com/fatedier/frp/pkg/config/types"
	v1 "github.com/fatedier/frp/pkg/config/v1"
	"github.com/fatedier/frp/pkg/msg"
	"github.com/fatedier/frp/pkg/nathole"
	"github.com/fatedier/frp/pkg/transport"
	"github.com/fatedier/frp/pkg/util/log"
	"github.com/fatedier/frp/pkg/util/verifhook"
	netpkg "github.com/fatedier/frp/pkg/util/net"
	"github.com/fatedier/frp/pkg/util/version"
	"github.com/fatedier/frp/server"
)

const crashToken = "c16-token"

// ---------------------------------------------------------------- parent

type crashParent struct {
	cmd    *exec.Cmd
	in     io.WriteCloser
	out    *bufio.Reader
	errBuf *bytes.Buffer
	errMu  sync.Mutex
	exited chan struct{}
	pending chan crashRd // a line of the child that is being waited for
}

var crashP *crashParent

type crashLockedWriter struct {
	mu  *sync.Mutex
	buf *bytes.Buffer
}

func (w crashLockedWriter) Write(p []byte) (int, error) {
	w.mu.Lock()
	defer w.mu.Unlock()
	if w.buf.Len() > 4<<20 { // keep the tail: the panic trace comes last
		b := append([]byte{}, w.buf.Bytes()[w.buf.Len()/2:]...)
		w.buf.Reset()
		w.buf.Write(b)
	}
	return w.buf.Write(p)
}

func crashKill() {
	if crashP == nil {
		return
	}
	crashP.in.Close()
	_ = crashP.cmd.Process.Kill()
	<-crashP.exited
	crashP = nil
}

// the child picks free ports and another process on this machine may grab one in between: retry
func crashSpawn() error {
	var err error
	for attempt := 0; attempt < 4; attempt++ {
		if err = crashSpawnOnce(); err == nil {
			return nil
		}
	}
	return err
}

func crashSpawnOnce() error {
	cmd := exec.Command(os.Args[0], "crash", "child")
	cmd.Env = append(os.Environ(), "VERIF_CRASH_CHILD=1", "GOTRACEBACK=all")
	in, err := cmd.StdinPipe()
	if err != nil {
		return err
	}
	outp, err := cmd.StdoutPipe()
	if err != nil {
		return err
	}
	p := &crashParent{cmd: cmd, in: in, out: bufio.NewReaderSize(outp, 1<<16), errBuf: &bytes.Buffer{}, exited: make(chan struct{})}
	cmd.Stderr = crashLockedWriter{&p.errMu, p.errBuf}
	if err := cmd.Start(); err != nil {
		return err
	}
	go func() {
		_ = cmd.Wait()
		close(p.exited)
	}()
	crashP = p
	// the child prints "ready" once frps + frpc are up
	line, err := crashReadLine(p, 30*time.Second)
	if err != nil || line != "ready" {
		p.errMu.Lock()
		es := p.errBuf.String()
		p.errMu.Unlock()
		if os.Getenv("VERIF_CRASH_DEBUG") != "" { // the runner reads stderr as part of the trace: a start that is retried must not leave lines there
			fmt.Fprintf(os.Stderr, "crash child not ready: %q %v\n%s\n", line, err, es[:min(len(es), 3000)])
		}
		crashKill()
		return fmt.Errorf("child not ready: %q %v", line, err)
	}
	return nil
}

type crashRd struct {
	s   string
	err error
}

// one line of the child, waited for at most d.  A read that timed out stays pending: the next call goes on waiting for
// the SAME line (the answer of a slow child is not lost and not mistaken for the answer to the next op)
func crashReadLine(p *crashParent, d time.Duration) (string, error) {
	if p.pending == nil {
		ch := make(chan crashRd, 1)
		p.pending = ch
		go func() {
			s, err := p.out.ReadString('\n')
			ch <- crashRd{strings.TrimSpace(s), err}
		}()
	}
	select {
	case r := <-p.pending:
		p.pending = nil
		return r.s, r.err
	case <-time.After(d):
		return "", os.ErrDeadlineExceeded
	}
}

var crashFrameRe = regexp.MustCompile(`(?m)^github\.com/fatedier/frp/([^\s(]+(?:\(\*[A-Za-z0-9_]+\))?[^\s(]*)\(`)

// class of a dead child, from its stderr
func crashClassify(stderr string) string {
	i := strings.Index(stderr, "fatal error:")
	j := strings.Index(stderr, "panic:")
	if i < 0 || (j >= 0 && j < i) {
		i = j
	}
	if i < 0 {
		return "crash:exit@" + hx(stderr[max(0, len(stderr)-60):])
	}
	tail := stderr[i:]
	first := tail
	if k := strings.Index(first, "\n"); k >= 0 {
		first = first[:k]
	}
	class := "other"
	switch {
	case strings.Contains(first, "makechan"):
		class = "makechan"
	case strings.Contains(first, "concurrent map"):
		class = "concurrent-map"
	case strings.Contains(first, "closed channel"):
		class = "closed-channel"
	case strings.Contains(first, "nil pointer") || strings.Contains(first, "nil map"):
		class = "nil"
	case strings.Contains(first, "out of range"):
		class = "range"
	case strings.Contains(first, "all goroutines are asleep"):
		class = "deadlock"
	case strings.Contains(first, "DATA RACE"):
		class = "race"
	}
	where := "?"
	// the first frp frame of the first goroutine printed (the one that died), skipping the harness itself
	for _, m := range crashFrameRe.FindAllStringSubmatch(tail, -1) {
		where = m[1]
		break
	}
	if class == "other" {
		return "crash:other@" + where + ":" + hx(first[:min(len(first), 60)])
	}
	return "crash:" + class + "@" + where
}

func crashExec(tok []string) string {
	if os.Getenv("VERIF_CRASH_TIMING") != "" {
		t0 := time.Now()
		defer func() { fmt.Fprintf(os.Stderr, "TIMING %.3f %s\n", time.Since(t0).Seconds(), strings.Join(tok[:min(len(tok), 3)], " ")) }()
	}
	return crashExec1(tok)
}

// how long the parent waits for the child's answer to one op (VERIF_CRASH_WAIT_S: for testing the parent itself)
var crashAnswerWait = func() time.Duration {
	if v, err := strconv.Atoi(os.Getenv("VERIF_CRASH_WAIT_S")); err == nil && v > 0 {
		return time.Duration(v) * time.Second
	}
	return 90 * time.Second
}()

func crashExec1(tok []string) string {
	if tok[0] == "reset" {
		crashKill()
		if err := crashSpawn(); err != nil {
			return "spawnfail"
		}
		return "-"
	}
	if crashP == nil {
		if err := crashSpawn(); err != nil {
			return "spawnfail"
		}
	}
	p := crashP
	if _, err := io.WriteString(p.in, strings.Join(tok, " ")+"\n"); err != nil {
		// died before this op (should have been seen by the previous one)
	}
	line, err := crashReadLine(p, crashAnswerWait)
	if err == nil && line != "" {
		if strings.HasPrefix(line, "fail:") {
			// a wedge was observed: the next op gets a fresh child, as after a death
			crashKill()
			return line
		}
		// the child may die right after answering (a goroutine the op started): give it a moment
		if d := crashSettle(tok); d > 0 {
			select {
			case <-p.exited:
				return crashDead(p)
			case <-time.After(d):
			}
		}
		return line
	}
	if err == os.ErrDeadlineExceeded {
		// no answer within the bound.  A wedged child never answers; a child that is merely slow (a loaded machine) does:
		// give it the same time once more, and if the answer comes AND the watchdog passes afterwards, the observation is
		// "alive, slow" (`slow:<answer>`, not compared, not a property failure) - otherwise `hang`, with the goroutine dump kept
		late, err2 := crashReadLine(p, crashAnswerWait)
		switch {
		case err2 != nil && err2 != os.ErrDeadlineExceeded:
			return crashDead(p) // it died meanwhile
		case err2 == nil && strings.HasPrefix(late, "fail:"):
			crashKill()
			return late // the op itself saw a wedge
		case err2 == nil && late != "":
			if _, werr := io.WriteString(p.in, "watch\n"); werr == nil {
				if wl, err3 := crashReadLine(p, crashAnswerWait); err3 == nil && wl == "ok" {
					return "slow:" + late
				}
			}
		}
		crashHangDump(p, tok)
		crashKill()
		return "hang"
	}
	return crashDead(p)
}

// a child that does not answer: ask the Go runtime where every goroutine stands (SIGQUIT) and keep the dump for whoever has
// to explain the hang ($VERIF_HANG_DIR, default /tmp; the run's scratch directory is removed when the run ends)
func crashHangDump(p *crashParent, tok []string) {
	_ = p.cmd.Process.Signal(syscall.SIGQUIT)
	select {
	case <-p.exited:
	case <-time.After(10 * time.Second):
	}
	p.errMu.Lock()
	s := p.errBuf.String()
	p.errMu.Unlock()
	if i := strings.LastIndex(s, "SIGQUIT"); i >= 0 {
		s = s[max(0, i-200):]
	}
	dir := os.Getenv("VERIF_HANG_DIR")
	if dir == "" {
		dir = "/tmp"
	}
	name := fmt.Sprintf("%s/c16-hang-%d-%d.txt", dir, time.Now().Unix(), os.Getpid())
	_ = os.WriteFile(name, []byte("op: "+strings.Join(tok[:min(len(tok), 4)], " ")+"\n"+s), 0o644)
}

func crashSettle(tok []string) time.Duration {
	switch tok[0] {
	case "login":
		if strings.HasPrefix(tok[2], "-") {
			return 100 * time.Millisecond
		}
	case "storm", "cstorm", "race6", "stun", "negpool":
		return 50 * time.Millisecond
	case "wconn", "wstorm", "tear", "nstorm", "closerace", "pstorm", "ustorm", "ostorm":
		return 80 * time.Millisecond
	case "ureq":
		return 5 * time.Millisecond // the listener's goroutine may die right after the connection was closed
	case "swc":
		return 40 * time.Millisecond
	}
	return 0
}

func crashDead(p *crashParent) string {
	select {
	case <-p.exited:
	case <-time.After(10 * time.Second):
		_ = p.cmd.Process.Kill()
		<-p.exited
	}
	p.errMu.Lock()
	s := p.errBuf.String()
	p.errMu.Unlock()
	crashP = nil
	if os.Getenv("VERIF_CRASH_DEBUG") != "" {
		fmt.Fprintln(os.Stderr, s[:min(len(s), 6000)])
	}
	return crashClassify(s)
}

// ---------------------------------------------------------------- child world

type crashConn struct {
	c           net.Conn
	rw          io.ReadWriter
	established bool
	runID       string
	wmu         sync.Mutex              // writers of the control connection (ops and the ReqWorkConn responder)
	reqWork     chan struct{}           // one token per ReqWorkConn read from the server
	proxyResp   chan *msg.NewProxyResp  // registration answers
	pong        chan struct{}           // one token per Pong
}

type crashWorld struct {
	svr       *server.Service
	port      int
	vhostPort int
	muxPort   int
	allowLo   int
	watchPort int
	connector client.Connector
	mu        sync.Mutex
	conns     map[string]*crashConn
	runIDs    []string
	echoPort  int
	cli       *client.Service
	udpEcho   int
	gmu       sync.Mutex
	gates     map[string]*crashGate // armed key (Login.Hostname, proxy / group name) -> gate
	tearSeq   int
	swc       map[string]*crashSwcFix // proxyProtocolVersion -> scripted server + real frpc (op swc)
	// user-facing side (eng_crash_user.go)
	httpsPort   int
	webPort     int
	udpUserPort int
}

var crashW *crashWorld

func crashEcho() int {
	l, err := net.Listen("tcp", "127.0.0.1:0")
	if err != nil {
		panic(err)
	}
	go func() {
		for {
			c, err := l.Accept()
			if err != nil {
				return
			}
			go func() { _, _ = io.Copy(c, c); c.Close() }()
		}
	}()
	return l.Addr().(*net.TCPAddr).Port
}

// a window of 12 consecutive free tcp ports (allowPorts of the child's frps)
func crashPortWindow() int {
	// below the ephemeral range (32768+), where the storms' own outgoing connections live
	rr := rand.New(rand.NewSource(time.Now().UnixNano() ^ int64(os.Getpid())<<20))
	for attempt := 0; attempt < 200; attempt++ {
		base := 12000 + rr.Intn(19000)
		ok := true
		var ls []net.Listener
		for i := 0; i < 12; i++ {
			l, err := net.Listen("tcp", "127.0.0.1:"+strconv.Itoa(base+i))
			if err != nil {
				ok = false
				break
			}
			ls = append(ls, l)
		}
		for _, l := range ls {
			l.Close()
		}
		if ok {
			return base
		}
	}
	panic("no port window")
}

func crashStart() *crashWorld {
	w := &crashWorld{conns: map[string]*crashConn{}, gates: map[string]*crashGate{}}
	verifhook.Set(w.gateHook)
	crashSSHW = crashSSHPrepare()
	var svr *server.Service
	var err error
	for attempt := 0; attempt < 5; attempt++ {
		cfg := &v1.ServerConfig{}
		cfg.BindAddr = "127.0.0.1"
		cfg.ProxyBindAddr = "127.0.0.1"
		cfg.BindPort = freeTCPPort()
		cfg.VhostHTTPPort = freeTCPPort()
		cfg.TCPMuxHTTPConnectPort = freeTCPPort()
		cfg.VhostHTTPSPort = freeTCPPort()
		cfg.SubDomainHost = "c16.test"
		cfg.Auth.Method = v1.AuthMethodToken
		cfg.Auth.Token = crashToken
		w.allowLo = crashPortWindow()
		cfg.AllowPorts = []types.PortsRange{{Start: w.allowLo, End: w.allowLo + 11}}
		cfg.Transport.HeartbeatTimeout = 90
		cfg.UserConnTimeout = 2
		cfg.MaxPortsPerClient = 0
		crashSSHW.configureA(cfg) // the ssh tunnel gateway, no authorizedKeysFile (eng_crash_ssh.go)
		cfg.Complete()
		svr, err = server.NewService(cfg)
		if err != nil {
			continue
		}
		w.port, w.vhostPort, w.muxPort = cfg.BindPort, cfg.VhostHTTPPort, cfg.TCPMuxHTTPConnectPort
		w.httpsPort = cfg.VhostHTTPSPort
		break
	}
	if svr == nil {
		panic(fmt.Sprint("cannot start frps: ", err))
	}
	w.svr = svr
	go svr.Run(context.Background())
	crashSSHW.startB()

	cc := &v1.ClientCommonConfig{}
	cc.ServerAddr, cc.ServerPort = "127.0.0.1", w.port
	cc.Transport.TLS.Enable = lo.ToPtr(false)
	cc.Complete()
	cc.Transport.ProxyURL = ""
	w.connector = client.NewConnector(context.Background(), cc)
	if err := w.connector.Open(); err != nil {
		panic(err)
	}

	// the watchdog tunnel: a real frpc
	w.echoPort = crashEcho()
	w.watchPort = w.allowLo + 11
	ccfg := &v1.ClientCommonConfig{}
	ccfg.ServerAddr, ccfg.ServerPort = "127.0.0.1", w.port
	ccfg.Auth.Method = v1.AuthMethodToken
	ccfg.Auth.Token = crashToken
	ccfg.Transport.TLS.Enable = lo.ToPtr(false)
	ccfg.LoginFailExit = lo.ToPtr(false)
	ccfg.Complete()
	ccfg.Transport.ProxyURL = ""
	tcp := &v1.TCPProxyConfig{}
	tcp.Name, tcp.Type = "c16watch", "tcp"
	tcp.LocalIP, tcp.LocalPort = "127.0.0.1", w.echoPort
	tcp.RemotePort = w.watchPort
	tcp.Complete("")
	// two more proxies of the real frpc that VISITORS (another party) can reach: what a visitor sends is relayed by
	// frps to the real frpc's work connection (stcp: raw bytes to the echo service; sudp: parsed as UDPPacket frames)
	w.udpEcho = crashUDPEcho()
	stcp := &v1.STCPProxyConfig{}
	stcp.Name, stcp.Type = crashRealSTCP, "stcp"
	stcp.Secretkey, stcp.AllowUsers = crashSk, []string{"*"}
	stcp.LocalIP, stcp.LocalPort = "127.0.0.1", w.echoPort
	stcp.Complete("")
	sudp := &v1.SUDPProxyConfig{}
	sudp.Name, sudp.Type = crashRealSUDP, "sudp"
	sudp.Secretkey, sudp.AllowUsers = crashSk, []string{"*"}
	sudp.LocalIP, sudp.LocalPort = "127.0.0.1", w.udpEcho
	sudp.Complete("")
	// what the user-facing listeners can route to (eng_crash_user.go)
	cli, err := client.NewService(client.ServiceOptions{Common: ccfg, ProxyCfgs: append([]v1.ProxyConfigurer{tcp, stcp, sudp}, w.userProxies()...)})
	if err != nil {
		panic(err)
	}
	w.cli = cli
	go func() { _ = cli.Run(context.Background()) }()
	deadline := time.Now().Add(15 * time.Second)
	for time.Now().Before(deadline) {
		if w.echo() == "" {
			return w
		}
		time.Sleep(50 * time.Millisecond)
	}
	panic("watchdog tunnel did not come up")
}

func (w *crashWorld) echo() string {
	c, err := net.DialTimeout("tcp", "127.0.0.1:"+strconv.Itoa(w.watchPort), 2*time.Second)
	if err != nil {
		return "dial"
	}
	defer c.Close()
	_ = c.SetDeadline(time.Now().Add(5 * time.Second))
	pay := []byte("c16-watchdog-ping")
	if _, err := c.Write(pay); err != nil {
		return "write"
	}
	buf := make([]byte, len(pay))
	if _, err := io.ReadFull(c, buf); err != nil {
		return "read"
	}
	if !bytes.Equal(buf, pay) {
		return "payload"
	}
	return ""
}

func (w *crashWorld) open() (net.Conn, error) { return w.connector.Connect() }

func (w *crashWorld) get(cid string) *crashConn {
	w.mu.Lock()
	defer w.mu.Unlock()
	return w.conns[cid]
}

func (w *crashWorld) put(cid string, c *crashConn) {
	w.mu.Lock()
	defer w.mu.Unlock()
	if old := w.conns[cid]; old != nil {
		old.c.Close()
	}
	w.conns[cid] = c
	if c.runID != "" {
		w.runIDs = append(w.runIDs, c.runID)
		if len(w.runIDs) > 64 {
			w.runIDs = w.runIDs[1:]
		}
	}
}

func (w *crashWorld) someRunID(r *rand.Rand) string {
	w.mu.Lock()
	defer w.mu.Unlock()
	if len(w.runIDs) == 0 {
		return "none"
	}
	return w.runIDs[r.Intn(len(w.runIDs))]
}

// ---------------------------------------------------------------- extreme values

var crashLong = strings.Repeat("A", 5000)

func crashStr(r *rand.Rand) string {
	switch r.Intn(14) {
	case 0:
		return ""
	case 1:
		if r.Intn(12) == 0 {
			return crashLong // pushes the frame over the 10 KiB limit
		}
		return crashLong[:200]
	case 2:
		return "\xff\xfe\x00\x80bad-utf8"
	case 3:
		return "../../etc/passwd"
	case 4:
		return "*"
	case 5:
		return "with\x00nul and space\n"
	case 6:
		return "ünï©ødé-名前"
	case 7:
		return "{{.Evil}}%s%n"
	default:
		return "p" + strconv.Itoa(r.Intn(4))
	}
}

func (w *crashWorld) crashInt(r *rand.Rand) int {
	xs := []int{0, -1, 1, -10, -11, -12, math.MinInt64, math.MaxInt64, 65535, 65536, -65536, 1 << 31, -(1 << 31), 80,
		w.allowLo, w.allowLo + 1, w.allowLo + 2, w.allowLo + 3, w.watchPort, w.port, w.vhostPort}
	return xs[r.Intn(len(xs))]
}

func crashAddr(r *rand.Rand) string {
	xs := []string{"1.2.3.4:5", "1.2.3.4:6", "5.6.7.8:5", ":0", "[::1]:99999", "x", "", "1.2.3.4:-1", "1.2.3.4:65536",
		"999.1.1.1:1", "1.2.3.4", "[fe80::1%eth0]:53", "1.2.3.4:00000000000000000005", crashLong[:300]}
	return xs[r.Intn(len(xs))]
}

func crashAddrs(r *rand.Rand) []string {
	switch r.Intn(6) {
	case 0:
		return nil
	case 1:
		return []string{}
	case 2:
		o := make([]string, 40+r.Intn(2)*600)
		for i := range o {
			o[i] = crashAddr(r)
		}
		return o
	default:
		o := make([]string, 1+r.Intn(5))
		for i := range o {
			o[i] = crashAddr(r)
		}
		return o
	}
}

func crashStrs(r *rand.Rand) []string {
	switch r.Intn(5) {
	case 0:
		return nil
	case 1:
		return []string{}
	case 2:
		o := make([]string, 30)
		for i := range o {
			o[i] = crashStr(r)
		}
		return o
	default:
		o := make([]string, 1+r.Intn(3))
		for i := range o {
			o[i] = crashStr(r)
		}
		return o
	}
}

func crashMap(r *rand.Rand) map[string]string {
	switch r.Intn(4) {
	case 0:
		return nil
	case 1:
		return map[string]string{}
	case 2:
		m := map[string]string{}
		for i := 0; i < 12; i++ {
			m[strconv.Itoa(i)+crashStr(r)] = crashStr(r)
		}
		return m
	default:
		return map[string]string{crashStr(r): crashStr(r)}
	}
}

var crashTypes = []string{"Login", "LoginResp", "NewProxy", "NewProxyResp", "CloseProxy", "NewWorkConn", "ReqWorkConn",
	"StartWorkConn", "NewVisitorConn", "NewVisitorConnResp", "Ping", "Pong", "UDPPacket", "NatHoleVisitor",
	"NatHoleClient", "NatHoleResp", "NatHoleSid", "NatHoleReport"}

var crashProxyTypes = []string{"tcp", "udp", "http", "https", "tcpmux", "stcp", "sudp", "xtcp", "", "bogus"}

func crashKeyFor(r *rand.Rand, ts int64) string {
	if r.Intn(3) == 0 {
		return crashStr(r)
	}
	return peerKeyTok(crashToken, ts)
}

func peerKeyTok(token string, ts int64) string { return peerKey(token, ts) }

func (w *crashWorld) makeMsg(typ string, r *rand.Rand) msg.Message {
	ts := time.Now().Unix()
	if r.Intn(3) == 0 {
		ts = int64(w.crashInt(r))
	}
	switch typ {
	case "Login":
		return &msg.Login{Version: crashStr(r), Hostname: crashStr(r), Os: crashStr(r), Arch: crashStr(r), User: crashStr(r),
			PrivilegeKey: crashKeyFor(r, ts), Timestamp: ts, RunID: "s-" + crashStr(r), Metas: crashMap(r),
			ClientSpec: msg.ClientSpec{Type: crashStr(r), AlwaysAuthPass: r.Intn(2) == 0}, PoolCount: lo.Ternary(r.Intn(2) == 0, r.Intn(8), max(w.crashInt(r), lo.Ternary(crashNegPoolsInStorms, -10, 0)))}
	case "LoginResp":
		return &msg.LoginResp{Version: crashStr(r), RunID: crashStr(r), Error: crashStr(r)}
	case "NewProxy":
		m := &msg.NewProxy{ProxyName: crashStr(r), ProxyType: crashProxyTypes[r.Intn(len(crashProxyTypes))],
			UseEncryption: r.Intn(2) == 0, UseCompression: r.Intn(2) == 0,
			BandwidthLimit: []string{"", "1MB", "bogus", "-1KB", "0KB", "99999999999999999999MB"}[r.Intn(6)],
			BandwidthLimitMode: []string{"", "server", "client", "x"}[r.Intn(4)],
			Group: []string{"", "", "g1", "g2", crashLong[:200]}[r.Intn(5)], GroupKey: []string{"", "k", "K"}[r.Intn(3)],
			Metas: crashMap(r), Annotations: crashMap(r), RemotePort: w.crashInt(r),
			CustomDomains: [][]string{nil, {"a.example.org"}, {"b.example.org", "a.example.org"}, {"*.example.org"}, {""}, {crashStr(r)}, {"x.c16.test"}}[r.Intn(7)],
			SubDomain: []string{"", "sub", "Sub", "a.b", "*", crashStr(r)}[r.Intn(6)], Locations: [][]string{nil, {"/"}, {"/a", "/a"}, {""}, {crashStr(r)}}[r.Intn(5)],
			HTTPUser: []string{"", "u", crashStr(r)}[r.Intn(3)], HTTPPwd: crashStr(r), HostHeaderRewrite: crashStr(r),
			Headers: crashMap(r), ResponseHeaders: crashMap(r), RouteByHTTPUser: []string{"", "u", crashStr(r)}[r.Intn(3)],
			Sk: crashStr(r), AllowUsers: crashStrs(r), Multiplexer: []string{"", "httpconnect", "x"}[r.Intn(3)]}
		if r.Intn(2) == 0 { // mostly-valid: a name from a small pool so that sessions collide on names, ports, routes, groups
			m.ProxyName = "p" + strconv.Itoa(r.Intn(6))
			m.RemotePort = []int{0, w.allowLo, w.allowLo + 1, w.allowLo + 2, w.watchPort}[r.Intn(5)]
			m.BandwidthLimit, m.BandwidthLimitMode = "", ""
			if m.ProxyType == "" || m.ProxyType == "bogus" {
				m.ProxyType = "xtcp"
			}
		}
		return m
	case "NewProxyResp":
		return &msg.NewProxyResp{ProxyName: crashStr(r), RemoteAddr: crashAddr(r), Error: crashStr(r)}
	case "CloseProxy":
		if r.Intn(2) == 0 {
			return &msg.CloseProxy{ProxyName: "p" + strconv.Itoa(r.Intn(6))}
		}
		return &msg.CloseProxy{ProxyName: crashStr(r)}
	case "NewWorkConn":
		rid := crashStr(r)
		if r.Intn(2) == 0 {
			rid = w.someRunID(r)
		}
		return &msg.NewWorkConn{RunID: rid, PrivilegeKey: crashKeyFor(r, ts), Timestamp: ts}
	case "ReqWorkConn":
		return &msg.ReqWorkConn{}
	case "StartWorkConn":
		return &msg.StartWorkConn{ProxyName: crashStr(r), SrcAddr: crashAddr(r), DstAddr: crashAddr(r), SrcPort: uint16(r.Intn(65536)),
			DstPort: uint16(r.Intn(65536)), Error: crashStr(r)}
	case "NewVisitorConn":
		rid := crashStr(r)
		if r.Intn(2) == 0 {
			rid = w.someRunID(r)
		}
		return &msg.NewVisitorConn{RunID: rid, ProxyName: "p" + strconv.Itoa(r.Intn(6)), SignKey: crashKeyFor(r, ts), Timestamp: ts,
			UseEncryption: r.Intn(2) == 0, UseCompression: r.Intn(2) == 0}
	case "NewVisitorConnResp":
		return &msg.NewVisitorConnResp{ProxyName: crashStr(r), Error: crashStr(r)}
	case "Ping":
		return &msg.Ping{PrivilegeKey: crashKeyFor(r, ts), Timestamp: ts}
	case "Pong":
		return &msg.Pong{Error: crashStr(r)}
	case "UDPPacket":
		var la, ra *net.UDPAddr
		if r.Intn(2) == 0 {
			la = &net.UDPAddr{IP: net.IPv4(1, 2, 3, 4), Port: w.crashInt(r), Zone: crashStr(r)}
		}
		if r.Intn(2) == 0 {
			ra = &net.UDPAddr{Port: r.Intn(70000)}
		}
		m, _ := udpRawPacket(crashStr(r), la, ra) // eng_udp.go: does not name the type of the Content field
		return m
	case "NatHoleVisitor":
		return &msg.NatHoleVisitor{TransactionID: crashStr(r), ProxyName: "p" + strconv.Itoa(r.Intn(6)), PreCheck: r.Intn(3) != 0,
			Protocol: []string{"", "quic", "kcp", crashStr(r)}[r.Intn(4)], SignKey: crashKeyFor(r, ts), Timestamp: ts,
			MappedAddrs: crashAddrs(r), AssistedAddrs: crashAddrs(r)}
	case "NatHoleClient":
		return &msg.NatHoleClient{TransactionID: crashStr(r), ProxyName: "p" + strconv.Itoa(r.Intn(6)), Sid: crashStr(r),
			MappedAddrs: crashAddrs(r), AssistedAddrs: crashAddrs(r)}
	case "NatHoleResp":
		var cps []msg.PortsRange
		for i := 0; i < r.Intn(4); i++ {
			cps = append(cps, msg.PortsRange{From: w.crashInt(r), To: w.crashInt(r)})
		}
		return &msg.NatHoleResp{TransactionID: crashStr(r), Sid: crashStr(r), Protocol: crashStr(r), CandidateAddrs: crashAddrs(r),
			AssistedAddrs: crashAddrs(r), Error: []string{"", crashStr(r)}[r.Intn(2)],
			DetectBehavior: msg.NatHoleDetectBehavior{Role: []string{"sender", "receiver", "", crashStr(r)}[r.Intn(4)], Mode: w.crashInt(r),
				TTL: w.crashInt(r), SendDelayMs: r.Intn(50), ReadTimeoutMs: r.Intn(50), CandidatePorts: cps,
				SendRandomPorts: []int{0, 1, -1, 3}[r.Intn(4)], ListenRandomPorts: []int{0, 1, -1, 3}[r.Intn(4)]}}
	case "NatHoleSid":
		return &msg.NatHoleSid{TransactionID: crashStr(r), Sid: crashStr(r), Response: r.Intn(2) == 0, Nonce: crashStr(r)}
	case "NatHoleReport":
		return &msg.NatHoleReport{Sid: crashStr(r), Success: r.Intn(2) == 0}
	}
	panic("unknown msg type " + typ)
}

// arbitrary JSON bodies: wrong types, nulls, huge numbers, deep nesting
func crashJSON(r *rand.Rand) string {
	xs := []string{`{}`, `null`, `[]`, `""`, `0`, `{"pool_count":-9223372036854775808}`, `{"pool_count":1e400}`, `{"pool_count":"5"}`,
		`{"metas":null,"pool_count":null}`, `{"metas":{"a":null}}`, `{"metas":[1,2]}`, `{"remote_port":99999999999999999999}`,
		`{"proxy_name":null,"proxy_type":null}`, `{"custom_domains":null}`, `{"custom_domains":[null]}`, `{"custom_domains":"x"}`,
		`{"mapped_addrs":[1,2,3]}`, `{"mapped_addrs":null,"pre_check":"yes"}`, `{"l":{"IP":"x","Port":-1}}`, `{"l":null,"r":{}}`,
		`{"l":{"IP":"1.2.3.4","Port":1,"Zone":5}}`, `{"c":12}`, `{"timestamp":"now"}`, `{"timestamp":1e19}`, `{"run_id":{"a":1}}`,
		`{"detect_behavior":{"candidate_ports":[{"from":-1,"to":-5}]}}`, `{"allow_users":[[]]}`, `{"client_spec":null}`, `{"client_spec":7}`,
		strings.Repeat(`{"a":`, 200) + `1` + strings.Repeat(`}`, 200), `{"proxy_name":"` + crashLong + `"}`, `{`, `{"a":}`, "\xff\xfe",
		`{"PROXY_NAME":"caseFold","Proxy_Type":"tcp","REMOTE_PORT":0}`, `{"proxy_name":"a","proxy_name":"b"}`}
	return xs[r.Intn(len(xs))]
}

func crashFrame(typ byte, body []byte, lenOverride int64) []byte {
	var b bytes.Buffer
	b.WriteByte(typ)
	l := int64(len(body))
	if lenOverride != math.MinInt64 {
		l = lenOverride
	}
	_ = binary.Write(&b, binary.BigEndian, l)
	b.Write(body)
	return b.Bytes()
}

// ---------------------------------------------------------------- child ops

func crashDrain(c net.Conn) { go func() { _, _ = io.Copy(io.Discard, c) }() }

// what the server answered on established control connections (coverage evidence, see op `stat`)
var (
	crashCntMu sync.Mutex
	crashCnt   = map[string]int{}
)

func crashCount(k string) {
	crashCntMu.Lock()
	crashCnt[k]++
	crashCntMu.Unlock()
}

func crashDrainMsgs(rw io.Reader, pc *crashConn) {
	go func() {
		for {
			m, err := msg.ReadMsg(rw)
			if err != nil {
				return
			}
			switch x := m.(type) {
			case *msg.NewProxyResp:
				if x.Error == "" {
					crashCount("proxyOK")
				} else {
					crashCount("proxyRefused")
				}
				if pc != nil {
					select {
					case pc.proxyResp <- x:
					default:
					}
				}
			case *msg.Pong:
				if x.Error == "" {
					crashCount("pong")
				} else {
					crashCount("pongErr")
				}
				if pc != nil {
					select {
					case pc.pong <- struct{}{}:
					default:
					}
				}
			case *msg.NatHoleResp:
				crashCount("natResp")
			case *msg.ReqWorkConn:
				crashCount("reqWork")
				if pc != nil {
					select {
					case pc.reqWork <- struct{}{}:
					default:
					}
				}
			default:
				crashCount("other")
			}
		}
	}()
}

func (w *crashWorld) login(cid string, pool int, good bool, variant int64) string {
	return w.loginHost(cid, pool, good, variant, "c16")
}

func (w *crashWorld) loginHost(cid string, pool int, good bool, variant int64, host string) string {
	r := rand.New(rand.NewSource(variant))
	c, err := w.open()
	if err != nil {
		return "dialerr"
	}
	ts := time.Now().Unix()
	key := peerKeyTok(crashToken, ts)
	if !good {
		key = crashStr(r)
	}
	lm := &msg.Login{Version: version.Full(), Hostname: host, Os: "linux", Arch: "amd64", RunID: "", Timestamp: ts,
		PrivilegeKey: key, PoolCount: pool}
	if variant != 0 {
		lm.Version, lm.Hostname, lm.Os, lm.Arch, lm.User = crashStr(r), crashStr(r), crashStr(r), crashStr(r), crashStr(r)
		lm.RunID = "s-" + crashStr(r)
		lm.Metas = crashMap(r)
		lm.ClientSpec = msg.ClientSpec{Type: crashStr(r), AlwaysAuthPass: r.Intn(2) == 0}
	}
	if err := msg.WriteMsg(c, lm); err != nil {
		c.Close()
		return "writeerr"
	}
	_ = c.SetReadDeadline(time.Now().Add(5 * time.Second))
	m, err := msg.ReadMsg(c)
	_ = c.SetReadDeadline(time.Time{})
	if err != nil {
		c.Close()
		return "eof"
	}
	resp, ok := m.(*msg.LoginResp)
	if !ok {
		c.Close()
		return "unexpected"
	}
	if resp.Error != "" {
		c.Close()
		return "err"
	}
	rw, err := netpkg.NewCryptoReadWriter(c, []byte(crashToken))
	if err != nil {
		c.Close()
		return "cryptoerr"
	}
	pc := &crashConn{c: c, rw: rw, established: true, runID: resp.RunID, reqWork: make(chan struct{}, 64),
		proxyResp: make(chan *msg.NewProxyResp, 64), pong: make(chan struct{}, 8)}
	crashDrainMsgs(rw, pc)
	crashCount("loginOK")
	w.put(cid, pc)
	return "ok"
}

// send on the established connection, or as first message of a new stream
func (w *crashWorld) send(cid string, write func(io.Writer) error) {
	if pc := w.get(cid); pc != nil && pc.established {
		pc.wmu.Lock()
		_ = pc.c.SetWriteDeadline(time.Now().Add(3 * time.Second))
		err := write(pc.rw)
		pc.wmu.Unlock()
		if err != nil {
			w.drop(cid) // the server closed this session (a malformed / oversized frame before): next time a fresh stream
		}
		return
	}
	c, err := w.open()
	if err != nil {
		return
	}
	_ = c.SetWriteDeadline(time.Now().Add(3 * time.Second))
	_ = write(c)
	crashDrain(c)
	w.put(cid, &crashConn{c: c, rw: c})
}

func (w *crashWorld) drop(cid string) {
	w.mu.Lock()
	pc := w.conns[cid]
	delete(w.conns, cid)
	w.mu.Unlock()
	if pc != nil {
		pc.c.Close()
	}
}

func (w *crashWorld) rawBytes(b []byte) {
	c, err := net.DialTimeout("tcp", "127.0.0.1:"+strconv.Itoa(w.port), 2*time.Second)
	if err != nil {
		return
	}
	_ = c.SetWriteDeadline(time.Now().Add(2 * time.Second))
	_, _ = c.Write(b)
	go func() {
		time.Sleep(50 * time.Millisecond)
		c.Close()
	}()
}

func (w *crashWorld) storm(seed int64, nconn, nmsg int) {
	var wg sync.WaitGroup
	for i := 0; i < nconn; i++ {
		wg.Add(1)
		go func(i int) {
			defer wg.Done()
			r := rand.New(rand.NewSource(seed*1000 + int64(i)))
			cid := fmt.Sprintf("st%d-%d", seed, i)
			if r.Intn(10) < 7 {
				pools := crashPools([]int{0, 1, 5, 7, -1, -10, 1 << 40})
				w.login(cid, pools[r.Intn(len(pools))], r.Intn(10) < 8, int64(r.Intn(1000)))
			}
			for k := 0; k < nmsg; k++ {
				if pc := w.get(cid); (pc == nil || !pc.established) && r.Intn(3) == 0 {
					w.login(cid, r.Intn(6), true, 0)
				}
				switch x := r.Intn(100); {
				case x < 70:
					typ := crashTypes[r.Intn(len(crashTypes))]
					if x < 40 { // weight towards what the server handles
						typ = []string{"NewProxy", "NewProxy", "CloseProxy", "Ping", "NatHoleVisitor", "NatHoleClient", "NatHoleReport", "NewWorkConn", "NewVisitorConn"}[r.Intn(9)]
					}
					m := w.makeMsg(typ, r)
					if lm, ok := m.(*msg.Login); ok && lm.PoolCount < 0 && !crashNegPoolsInStorms {
						lm.PoolCount = 0 // the known crash (#4) has its own ops
					}
					w.send(cid, func(wr io.Writer) error { return msg.WriteMsg(wr, m) })
				case x < 76:
					tb := byte(r.Intn(256))
					if r.Intn(2) == 0 {
						tb = "o1p2cwrsv3h4uinm56"[r.Intn(18)]
					}
					body := []byte(crashJSON(r))
					lenOv := int64(math.MinInt64)
					if r.Intn(6) == 0 {
						lenOv = []int64{-1, 0, 10241, math.MaxInt64, math.MinInt64 + 1, int64(len(body)) + 5}[r.Intn(6)]
					}
					fr := crashFrame(tb, body, lenOv)
					w.send(cid, func(wr io.Writer) error { _, err := wr.Write(fr); return err })
				case x < 80:
					b := make([]byte, 1+r.Intn(200))
					r.Read(b)
					if r.Intn(3) == 0 {
						b[0] = 0x17 // the custom TLS first byte
					}
					w.rawBytes(b)
				case x < 84:
					w.drop(cid)
				case x < 90:
					w.login(cid, r.Intn(6), true, int64(r.Intn(1000)))
				default:
					time.Sleep(time.Duration(r.Intn(3)) * time.Millisecond)
				}
			}
			if r.Intn(2) == 0 {
				w.drop(cid)
			}
		}(i)
	}
	wg.Wait()
}

// §7 #6 on the real nathole.Controller: pre-check readers against ListenClient/CloseClient writers
func crashRace6(iters int) {
	nc, err := nathole.NewController(time.Hour)
	if err != nil {
		panic(err)
	}
	sendCh := make(chan msg.Message, 1024)
	stop := make(chan struct{})
	go func() {
		for {
			select {
			case <-sendCh:
			case <-stop:
				return
			}
		}
	}()
	tr := transport.NewMessageTransporter(sendCh)
	var wg sync.WaitGroup
	for g := 0; g < 3; g++ {
		wg.Add(1)
		go func(g int) {
			defer wg.Done()
			for i := 0; i < iters; i++ {
				name := "p" + strconv.Itoa((i+g)%16)
				if _, err := nc.ListenClient(name, "sk", []string{"*"}); err == nil {
					nc.CloseClient(name)
				}
			}
		}(g)
	}
	for g := 0; g < 4; g++ {
		wg.Add(1)
		go func(g int) {
			defer wg.Done()
			for i := 0; i < iters; i++ {
				nc.HandleVisitor(&msg.NatHoleVisitor{TransactionID: "t", ProxyName: "p" + strconv.Itoa((i+g)%16), PreCheck: true}, tr, "u")
			}
		}(g)
	}
	wg.Wait()
	close(stop)
}

// a STUN peer that answers every binding request with k copies of a valid response
func crashStun(k, tries int) string {
	pc, err := net.ListenPacket("udp4", "127.0.0.1:0")
	if err != nil {
		return "listenerr"
	}
	defer pc.Close()
	go func() {
		buf := make([]byte, 1500)
		for {
			n, from, err := pc.ReadFrom(buf)
			if err != nil {
				return
			}
			req := &stun.Message{Raw: append([]byte{}, buf[:n]...)}
			if err := req.Decode(); err != nil {
				continue
			}
			ua := from.(*net.UDPAddr)
			resp, err := stun.Build(stun.NewTransactionIDSetter(req.TransactionID), stun.BindingSuccess,
				&stun.XORMappedAddress{IP: ua.IP, Port: ua.Port})
			if err != nil {
				continue
			}
			for i := 0; i < k; i++ {
				_, _ = pc.WriteTo(resp.Raw, from)
			}
		}
	}()
	okN := 0
	for i := 0; i < tries; i++ {
		addrs, _, err := nathole.Discover([]string{pc.LocalAddr().String()}, "")
		if err == nil && len(addrs) > 0 {
			okN++
		}
		time.Sleep(2 * time.Millisecond) // let a reader that survived Close run into its fate
	}
	if okN == 0 {
		return "nodiscover"
	}
	return "done"
}

func crashChildExec(w *crashWorld, tok []string) string {
	switch tok[0] {
	case "login":
		v, _ := strconv.ParseInt(tok[4], 10, 64)
		pool, _ := strconv.ParseInt(tok[2], 10, 64)
		return w.login(tok[1], int(pool), tok[3] == "1", v)
	case "negpool":
		pool, _ := strconv.ParseInt(tok[2], 10, 64)
		if r := w.login(tok[1], int(pool), true, 0); r != "ok" {
			return "login-" + r
		}
		port := w.allowLo + 5
		np := &msg.NewProxy{ProxyName: "negpool-" + tok[1], ProxyType: tok[3], RemotePort: port}
		w.send(tok[1], func(wr io.Writer) error { return msg.WriteMsg(wr, np) })
		if tok[3] == "tcp" {
			for i := 0; i < 20; i++ {
				c, err := net.DialTimeout("tcp", "127.0.0.1:"+strconv.Itoa(port), time.Second)
				if err == nil {
					_, _ = c.Write([]byte("hello"))
					time.Sleep(300 * time.Millisecond)
					c.Close()
					break
				}
				time.Sleep(50 * time.Millisecond)
			}
		} else {
			time.Sleep(1200 * time.Millisecond) // UDPProxy.Run sleeps 500 ms before it asks for a work connection
		}
		w.send(tok[1], func(wr io.Writer) error { return msg.WriteMsg(wr, &msg.CloseProxy{ProxyName: np.ProxyName}) })
		w.drop(tok[1])
		return "done"
	case "msg":
		v, _ := strconv.ParseInt(tok[3], 10, 64)
		m := w.makeMsg(tok[2], rand.New(rand.NewSource(v)))
		w.send(tok[1], func(wr io.Writer) error { return msg.WriteMsg(wr, m) })
		return "sent"
	case "json":
		fr := crashFrame(byte(atoi(tok[2])), []byte(unhx(tok[3])), math.MinInt64)
		w.send(tok[1], func(wr io.Writer) error { _, err := wr.Write(fr); return err })
		return "sent"
	case "raw":
		w.rawBytes([]byte(unhx(tok[1])))
		return "sent"
	case "drop":
		w.drop(tok[1])
		return "-"
	case "storm":
		seed, _ := strconv.ParseInt(tok[1], 10, 64)
		w.storm(seed, atoi(tok[2]), atoi(tok[3]))
		return "done"
	case "race6":
		crashRace6(atoi(tok[1]))
		return "done"
	case "stun":
		return crashStun(atoi(tok[1]), atoi(tok[2]))
	case "cstorm":
		seed, _ := strconv.ParseInt(tok[1], 10, 64)
		return crashCStorm(w, seed, atoi(tok[2]))
	case "wconn":
		v, _ := strconv.ParseInt(tok[3], 10, 64)
		return w.wconn(tok[1], tok[2], v)
	case "wstorm":
		seed, _ := strconv.ParseInt(tok[1], 10, 64)
		w.wstorm(seed, atoi(tok[2]), atoi(tok[3]))
		return "done"
	case "tear":
		return w.tear(tok[1], tok[2], atoi(tok[3]), atoi(tok[4]))
	case "relogin":
		return w.relogin(tok[1], tok[2], atoi(tok[3]), tok[4], atoi(tok[5]))
	case "gleave":
		v, _ := strconv.ParseInt(tok[3], 10, 64)
		return w.gleave(tok[1], tok[2], v)
	case "nstorm":
		seed, _ := strconv.ParseInt(tok[1], 10, 64)
		w.nstorm(seed, atoi(tok[2]), atoi(tok[3]))
		return "done"
	case "routes":
		v, _ := strconv.ParseInt(tok[3], 10, 64)
		return w.routes(tok[1], tok[2], v)
	case "closerace":
		return w.closerace(tok[1], tok[2], atoi(tok[3]), atoi(tok[4]))
	case "pstorm":
		seed, _ := strconv.ParseInt(tok[1], 10, 64)
		w.pstorm(seed, atoi(tok[2]), atoi(tok[3]))
		return "done"
	case "swc":
		return w.swcOp(tok[1], unhx(tok[2]), atoi(tok[3]), unhx(tok[4]), atoi(tok[5]))
	case "ureq":
		return w.userSend(tok[1], []byte(unhx(tok[2])), crashWait)
	case "ustorm":
		seed, _ := strconv.ParseInt(tok[1], 10, 64)
		w.ustorm(seed, atoi(tok[2]), atoi(tok[3]))
		return "done"
	case "canon":
		return crashCanon(unhx(tok[1]))
	case "ptear":
		return w.ptear(tok[1], tok[2] == "1", tok[3], atoi(tok[4]))
	case "gchurn":
		return w.gchurn(tok[1], tok[2], atoi(tok[3]))
	case "ssh":
		if len(tok) < 3 {
			return "badop"
		}
		return w.sshOp(tok[1], tok[2], tok[3:])
	case "sstorm":
		seed, _ := strconv.ParseInt(tok[1], 10, 64)
		return w.sstorm(seed, atoi(tok[2]), atoi(tok[3]))
	case "maxports":
		v, _ := strconv.ParseInt(tok[2], 10, 64)
		return w.maxports(tok[1], v)
	case "ostorm":
		seed, _ := strconv.ParseInt(tok[1], 10, 64)
		return w.ostorm(seed, atoi(tok[2]), atoi(tok[3]))
	case "zzsleep": // not generated: lets the parent's handling of a slow / silent child be tested
		time.Sleep(time.Duration(atoi(tok[1])) * time.Millisecond)
		return "done"
	case "stat":
		byRun, names := w.svr.VerifSessDump()
		crashCntMu.Lock()
		defer crashCntMu.Unlock()
		ks := []string{"loginOK", "proxyOK", "proxyRefused", "pong", "pongErr", "natResp", "reqWork", "workOffered", "workStarted",
			"workFrames", "udpMarker", "visitorOK", "visitorRefused", "tearParked", "tearOfferClosed", "tearOfferPooled",
			"reloginParked", "gleaveParked", "wdGroupOK", "wdGroupRefused", "natSent", "swc", "closeraceSent", "pstormSent", "routesOK", "routesRefused",
			"userReq", "userAnswered", "ptearCut", "ptearOK", "gchurnRounds",
			"sshConn", "sshOK", "sshReq", "sshUp", "sshEcho", "sshHelp", "sshErr",
			"limSessions", "limRefused", "limReused", "limRelogin", "oidcLogin", "oidcPing", "oidcWork"}
		out := []string{fmt.Sprintf("sessions=%d", len(byRun)), fmt.Sprintf("proxies=%d", len(names))}
		for _, k := range ks {
			out = append(out, fmt.Sprintf("%s=%d", k, crashCnt[k]))
		}
		out = append(out, fmt.Sprintf("goroutines=%d", runtime.NumGoroutine()))
		return "stat:" + strings.Join(out, ",")
	case "watch":
		var why string
		for i := 0; i < 40; i++ { // the tunnel may be momentarily busy right after a storm: 40 × (≤5 s) worst case, normally the first
			if why = w.echo(); why == "" {
				break
			}
			time.Sleep(100 * time.Millisecond)
			if i >= 8 && why != "dial" {
				break
			}
		}
		if why != "" {
			return "fail:tunnel-" + why
		}
		if r := w.login("watch", 1, true, 0); r != "ok" {
			return "fail:login-" + r
		}
		defer w.drop("watch")
		if why := w.watchGroups(w.get("watch")); why != "" {
			return "fail:group-" + why
		}
		return "ok"
	}
	return "badop"
}

// ---------------------------------------------------------------- client side: a scripted server for a real frpc

func crashCStorm(w *crashWorld, seed int64, nmsg int) string {
	l, err := net.Listen("tcp", "127.0.0.1:0")
	if err != nil {
		return "listenerr"
	}
	defer l.Close()
	logins := make(chan struct{}, 64)
	var phase sync.Mutex
	storming := true
	go func() {
		n := 0
		for {
			c, err := l.Accept()
			if err != nil {
				return
			}
			n++
			go func(c net.Conn, n int) {
				defer c.Close()
				r := rand.New(rand.NewSource(seed*7919 + int64(n)))
				_ = c.SetReadDeadline(time.Now().Add(5 * time.Second))
				m, err := msg.ReadMsg(c)
				if err != nil {
					return
				}
				_ = c.SetReadDeadline(time.Time{})
				switch m.(type) {
				case *msg.Login:
					phase.Lock()
					st := storming
					phase.Unlock()
					if st && n%3 == 2 {
						_ = msg.WriteMsg(c, &msg.LoginResp{Error: crashStr(r)})
						return
					}
					_ = msg.WriteMsg(c, &msg.LoginResp{Version: crashStr(r), RunID: []string{"rid", "", crashLong}[r.Intn(3)]})
					logins <- struct{}{}
					rw, err := netpkg.NewCryptoReadWriter(c, []byte(crashToken))
					if err != nil {
						return
					}
					var wmu sync.Mutex // the scripted server writes from two goroutines
					wr := func(m msg.Message) error {
						wmu.Lock()
						defer wmu.Unlock()
						_ = c.SetWriteDeadline(time.Now().Add(2 * time.Second))
						return msg.WriteMsg(rw, m)
					}
					go func() { // what the client sends: answer registrations with extreme responses
						r := rand.New(rand.NewSource(seed*104729 + int64(n))) // own source: rand.Rand is not goroutine-safe
						for {
							cm, err := msg.ReadMsg(rw)
							if err != nil {
								return
							}
							switch x := cm.(type) {
							case *msg.NewProxy:
								if strings.HasPrefix(x.ProxyName, "c16clipp") { // these must reach `running` to be handed work connections
									_ = wr(&msg.NewProxyResp{ProxyName: x.ProxyName, RemoteAddr: ":1"})
									continue
								}
								_ = wr(&msg.NewProxyResp{ProxyName: []string{x.ProxyName, crashStr(r)}[r.Intn(2)],
									RemoteAddr: crashAddr(r), Error: []string{"", "", crashStr(r)}[r.Intn(3)]})
							case *msg.Ping:
								_ = wr(&msg.Pong{Error: []string{"", crashStr(r)}[r.Intn(2)]})
							}
						}
					}()
					if !st {
						time.Sleep(3 * time.Second)
						return
					}
					for k := 0; k < nmsg; k++ {
						typ := crashTypes[r.Intn(len(crashTypes))]
						if r.Intn(2) == 0 {
							typ = []string{"ReqWorkConn", "ReqWorkConn", "NewProxyResp", "NatHoleResp", "Pong", "StartWorkConn"}[r.Intn(6)]
						}
						cm := w.makeMsg(typ, r)
						if np, ok := cm.(*msg.NewProxyResp); ok && r.Intn(2) == 0 {
							np.ProxyName = "c16cli"
						}
						if r.Intn(8) == 0 {
							wmu.Lock()
							_, _ = rw.Write(crashFrame("o1p2cwrsv3h4uinm56\x00\xff"[r.Intn(20)], []byte(crashJSON(r)), math.MinInt64))
							wmu.Unlock()
						} else if err := wr(cm); err != nil {
							return
						}
					}
					time.Sleep(time.Duration(50+r.Intn(100)) * time.Millisecond)
				case *msg.NewWorkConn:
					switch r.Intn(8) {
					case 6, 7:
						// proxy protocol: the tcp proxies with transport.proxyProtocolVersion v1 / v2 (and the plain one) get the
						// addresses of the "user" from us — both families, ports 0 / 65535, and (crashPPAddrsInStorms) what does
						// not resolve
						pname := []string{"c16clipp1", "c16clipp2", "c16cli"}[r.Intn(3)]
						good := !crashPPAddrsInStorms && pname != "c16cli" // the proxy without header takes anything already now
						sw := &msg.StartWorkConn{ProxyName: pname,
							SrcAddr: crashHost(r, good), SrcPort: uint16([]int{1, 0, 65535, 40000}[r.Intn(4)]),
							DstAddr: []string{"", crashHost(r, good), crashHost(r, good)}[r.Intn(3)], DstPort: uint16([]int{80, 0, 65535}[r.Intn(3)])}
						_ = msg.WriteMsg(c, sw)
						_, _ = c.Write([]byte("c16-pp-payload"))
						_ = c.SetReadDeadline(time.Now().Add(100 * time.Millisecond))
						_, _ = io.Copy(io.Discard, c)
					case 0:
						_ = msg.WriteMsg(c, w.makeMsg("StartWorkConn", r))
					case 1:
						sw := w.makeMsg("StartWorkConn", r).(*msg.StartWorkConn)
						sw.ProxyName, sw.Error = "c16cli", ""
						_ = msg.WriteMsg(c, sw)
						b := make([]byte, 300)
						r.Read(b)
						_, _ = c.Write(b)
					case 2:
						_, _ = c.Write(crashFrame(byte(r.Intn(256)), []byte(crashJSON(r)), math.MinInt64))
					case 4, 5:
						// the client's udp proxy: StartWorkConn, then the frame classes of a work connection
						// (UDPPacket with absent / null / zero / garbage addresses, Ping, other types, malformed)
						_ = msg.WriteMsg(c, &msg.StartWorkConn{ProxyName: "c16cliudp"})
						for _, fr := range crashWorkFrames(w, r, 6+r.Intn(10), nil) {
							if _, err := c.Write(fr); err != nil {
								break
							}
						}
					default:
						_ = msg.WriteMsg(c, w.makeMsg(crashTypes[r.Intn(len(crashTypes))], r))
					}
					time.Sleep(20 * time.Millisecond)
				}
			}(c, n)
		}
	}()

	ccfg := &v1.ClientCommonConfig{}
	ccfg.ServerAddr, ccfg.ServerPort = "127.0.0.1", l.Addr().(*net.TCPAddr).Port
	ccfg.Auth.Method = v1.AuthMethodToken
	ccfg.Auth.Token = crashToken
	ccfg.Transport.TLS.Enable = lo.ToPtr(false)
	ccfg.Transport.TCPMux = lo.ToPtr(false)
	ccfg.Transport.PoolCount = 2
	ccfg.LoginFailExit = lo.ToPtr(false)
	ccfg.Complete()
	ccfg.Transport.ProxyURL = ""
	tcp := &v1.TCPProxyConfig{}
	tcp.Name, tcp.Type = "c16cli", "tcp"
	tcp.LocalIP, tcp.LocalPort = "127.0.0.1", w.echoPort
	tcp.RemotePort = 1
	tcp.Complete("")
	udp := &v1.UDPProxyConfig{}
	udp.Name, udp.Type = "c16cliudp", "udp"
	udp.LocalIP, udp.LocalPort = "127.0.0.1", 9
	udp.RemotePort = 2
	udp.Complete("")
	pcfgs := []v1.ProxyConfigurer{tcp, udp}
	for i, ver := range []string{"v1", "v2"} {
		pp := &v1.TCPProxyConfig{}
		pp.Name, pp.Type = "c16clipp"+strconv.Itoa(i+1), "tcp"
		pp.LocalIP, pp.LocalPort = "127.0.0.1", w.echoPort
		pp.RemotePort = 3 + i
		pp.Transport.ProxyProtocolVersion = ver
		pp.Complete("")
		pcfgs = append(pcfgs, pp)
	}
	cli, err := client.NewService(client.ServiceOptions{Common: ccfg, ProxyCfgs: pcfgs})
	if err != nil {
		return "clienterr"
	}
	ctx, cancel := context.WithCancel(context.Background())
	go func() { _ = cli.Run(ctx) }()
	defer func() {
		cancel()
		cli.Close()
	}()
	// first login, storm, drop; then the client must come back (it is not wedged)
	select {
	case <-logins:
	case <-time.After(10 * time.Second):
		return "nologin"
	}
	time.Sleep(300 * time.Millisecond)
	phase.Lock()
	storming = false
	phase.Unlock()
	for len(logins) > 0 {
		<-logins
	}
	deadline := time.After(40 * time.Second)
	select {
	case <-logins:
		return "done"
	case <-deadline:
		return "nologin"
	}
}

// ---------------------------------------------------------------- child main, generator

func crashChildMain() {
	proto := os.Stdout
	os.Stdout = os.Stderr // frp's console logger writes to os.Stdout (taken at InitLogger time only with colours on)
	log.InitLogger("console", "error", 0, false)
	w := crashStart()
	crashW = w
	fmt.Fprintln(proto, "ready")
	sc := bufio.NewScanner(os.Stdin)
	sc.Buffer(make([]byte, 1<<20), 1<<24)
	for sc.Scan() {
		line := strings.TrimSpace(sc.Text())
		if line == "" {
			continue
		}
		fmt.Fprintln(proto, crashChildExec(w, strings.Fields(line))) // no recover: a panic ends the process
	}
	os.Exit(0)
}

// StartWorkConn addresses that do not resolve kill the unrepaired frpc when the proxy has a proxyProtocolVersion (KNOWN
// finding C16-startworkconn-addr-nil; witnesses: the `swc` ops).  Until hooks/C16-fix-startworkconn-addr.patch is in /repo
// the scripted server of `cstorm` sends resolvable addresses only, otherwise every cstorm would end at the same place.
// Set to true together with Crash.startWorkAddrIsFixed.
const crashPPAddrsInStorms = true

// A user datagram read just before a udp proxy closes kills the unrepaired frps (KNOWN finding C16-udp-forward-send-closed;
// witness: harness/corpus/crash/udp-forward-send.ops).  Until hooks/C16-fix-udp-forward-send.patch is in /repo the generator
// does not flood closing UDP proxies (`closerace … udp`), otherwise every run would end there.  Set to true together with
// Crash.udpForwardSendIsFixed.
const crashUDPRaceInStorms = true

// Negative pool counts kill the unrepaired frps (KNOWN finding C16-poolcount-negative; witnesses `login … -11`,
// `negpool … -1`).  Until hooks/C16-fix-poolcount.patch is in /repo the RANDOM part of the generator and the
// storms stay at PoolCount >= 0, otherwise every run would die at a random place of the same cause.  Set to true
// together with Crash.poolCountIsFixed.
const crashNegPoolsInStorms = true

func crashPools(xs []int) []int {
	if crashNegPoolsInStorms {
		return xs
	}
	var o []int
	for _, x := range xs {
		if x >= 0 {
			o = append(o, x)
		}
	}
	return o
}

func crashGen(rng *rand.Rand, n int, emit func(string)) {
	emit("reset")
	// 1. the witnesses
	emit("login w1 -11 1 0")                     // §7 #4
	emit("watch")                                // a fresh child serves again
	emit(fmt.Sprintf("login w2 %d 1 3", math.MinInt64))
	emit("login w3 -10 1 0")                     // the boundary: capacity 0, alive
	emit("login w4 -11 0 0")                     // not authenticated: refused before NewControl
	emit("negpool n1 -1 udp")                    // -10..-1: no makechan panic, but GetWorkConnFromPool returns (nil, nil)
	emit("negpool n2 -1 tcp")
	emit("negpool n3 0 udp")                     // the boundary: fine
	emit("negpool n4 2 tcp")
	emit("race6 60000")                          // §7 #6
	emit("stun 1 3")                             // a well-behaved STUN peer
	emit("stun 64 150")                          // the flood
	emit("watch")
	// 1a. frpc against a hostile server: StartWorkConn addresses × proxyProtocolVersion (C16-startworkconn-addr-nil)
	if crashPPAddrsInStorms { // until then the two witnesses live in harness/corpus/crash/startworkconn-addr.ops (each ends a child)
		emit(fmt.Sprintf("swc v1 %s 1 %s 0", hx("1.2.3.4.5"), hx("")))
		emit(fmt.Sprintf("swc v2 %s 40000 %s 80", hx("1.2.3.4"), hx("999.1.1.1")))
	}
	for _, ver := range []string{"none", "v1", "v2"} {
		for i := 0; i < 7; i++ {
			good := i < 2 || (ver != "none" && !crashPPAddrsInStorms) // until the fix: what does not resolve only on the proxy without header
			src, dst := crashHost(rng, good), []string{"", crashHost(rng, good), crashHost(rng, good)}[rng.Intn(3)]
			if i == 2 {
				src = "" // no source address: no header at all
			}
			emit(fmt.Sprintf("swc %s %s %d %s %d", ver, hx(src), []int{1, 1, 0, 65535, 40000}[rng.Intn(5)], hx(dst), []int{80, 0, 65535}[rng.Intn(3)]))
		}
	}
	emit("watch")
	// 1u. the user-facing listeners and the string functions behind them; frpc teardown under active plugin requests
	crashGenUser(rng, emit)
	crashGenPtear(rng, emit)
	emit("watch")
	// 1s. the ssh tunnel gateway: hostile ssh clients (eng_crash_ssh.go)
	crashGenSSH(rng, emit)
	// 1w. wedges: re-logins with a live / closing session's run id; a join racing the last leave of a group; valid nat-hole traffic
	for i, g := range crashReloginGates {
		k := 2 + (i+rng.Intn(2))%3
		emit(fmt.Sprintf("relogin rg %s %d %s %d", g, k, crashPerm(rng, k), rng.Intn(4)))
	}
	emit(fmt.Sprintf("relogin rg live 1 %s 0", crashPerm(rng, 1)))
	for _, kind := range crashGroupKinds {
		emit(fmt.Sprintf("gleave gl %s %d", kind, rng.Intn(1<<20)&^3)) // CloseProxy, right key
		emit(fmt.Sprintf("gleave gl %s %d", kind, rng.Intn(1<<20)|1))  // connection drop (odd), right or wrong key
	}
	for i := 0; i < 6; i++ { // a session refused for max_ports_per_client goes on: every follow-up order once
		emit(fmt.Sprintf("maxports mp %d", i<<3|rng.Intn(8)))
	}
	for _, kind := range crashGroupKinds {
		emit(fmt.Sprintf("gchurn gc %s %d", kind, 200+rng.Intn(200))) // the same race without a gate: leave and join back to back, many rounds
	}
	for v := 0; v < 4; v++ {
		emit(fmt.Sprintf("routes rt http %d", rng.Intn(1<<20)&^3|v))
		emit(fmt.Sprintf("routes rt tcpmux %d", rng.Intn(1<<20)&^3|v))
	}
	emit(fmt.Sprintf("nstorm %d 8 400", rng.Intn(1<<20)))
	emit(fmt.Sprintf("pstorm %d 8 300", rng.Intn(1<<20)))
	emit(fmt.Sprintf("ostorm %d 16 120", rng.Intn(1<<20))) // auth.method = oidc: logins / pings / work connections through ONE verifier
	for _, kind := range crashRaceKinds() {
		emit(fmt.Sprintf("closerace cr %s %d %d", kind, 6+rng.Intn(6), 2+rng.Intn(4)))
	}
	emit("stat")
	emit("watch")
	// 1b. every class of work / visitor connection and every teardown gate once, early (short replays)
	for _, pt := range crashWorkTypes {
		v := rng.Intn(1 << 30)
		emit(fmt.Sprintf("wconn wa %s %d", pt, v&^3)) // plain work connection (variant%4 == 3: encrypted / compressed)
		if pt == "udp" || pt == "rsudp" {
			emit(fmt.Sprintf("wconn wa %s %d", pt, v|3))
		}
	}
	for _, g := range crashTearGates {
		emit(fmt.Sprintf("tear tg %s %d %d", g, 1+rng.Intn(4), rng.Intn(5)))
	}
	emit(fmt.Sprintf("wstorm %d 6 8", rng.Intn(1<<20)))
	emit("stat")
	emit("watch")
	// 2. sequential exploration: every message type, established and first-message, JSON frames, raw bytes
	cids := []string{"a", "b", "c", "d", "e", "f"}
	budget := n
	emitted := 0
	for _, t := range crashTypes {
		for _, cid := range []string{"a", "zz"} {
			if cid == "a" && t == crashTypes[0] {
				emit("login a 3 1 0")
			}
			emit(fmt.Sprintf("msg %s %s %d", cid, t, rng.Intn(1<<30)))
			emitted++
		}
	}
	emit("watch")
	stormEvery := 60
	for emitted < budget {
		switch x := rng.Intn(100); {
		case x < 12:
			pool := pick(rng, crashPools([]int{0, 1, 5, 7, -1, -9, -10, 1 << 31, math.MaxInt64}))
			emit(fmt.Sprintf("login %s %d %d %d", pick(rng, cids), pool, lo.Ternary(rng.Intn(5) == 0, 0, 1), rng.Intn(1<<20)))
		case x < 18:
			pt := pick(rng, crashWorkTypes)
			if rng.Intn(4) == 0 {
				pt = "udp" // the only class frps parses frame by frame
			}
			emit(fmt.Sprintf("wconn %s %s %d", pick(rng, cids), pt, rng.Intn(1<<30)))
		case x < 21:
			emit(fmt.Sprintf("tear %s %s %d %d", pick(rng, []string{"t1", "t2"}), pick(rng, crashTearGates), 1+rng.Intn(6), rng.Intn(12)))
		case x < 24:
			k := 1 + rng.Intn(4)
			emit(fmt.Sprintf("relogin %s %s %d %s %d", pick(rng, []string{"r1", "r2"}), pick(rng, crashReloginGates), k, crashPerm(rng, k), rng.Intn(6)))
		case x < 25:
			if rng.Intn(2) == 0 {
				emit(fmt.Sprintf("maxports %s %d", pick(rng, []string{"m1", "m2"}), rng.Intn(1<<10)))
			} else {
				emit(fmt.Sprintf("routes %s %s %d", pick(rng, []string{"q1", "q2"}), pick(rng, []string{"http", "tcpmux"}), rng.Intn(1<<20)))
			}
		case x < 27:
			if rng.Intn(3) == 0 {
				emit(fmt.Sprintf("gchurn %s %s %d", pick(rng, []string{"g1", "g2"}), pick(rng, crashGroupKinds), 50+rng.Intn(350)))
			} else {
				emit(fmt.Sprintf("gleave %s %s %d", pick(rng, []string{"g1", "g2"}), pick(rng, crashGroupKinds), rng.Intn(1<<20)))
			}
		case x < 29:
			good := rng.Intn(3) == 0
			ver := pick(rng, []string{"none", "v1", "v2", "v1", "v2"})
			if ver != "none" && !crashPPAddrsInStorms {
				good = true
			}
			emit(fmt.Sprintf("swc %s %s %d %s %d", ver, hx(crashHost(rng, good)), []int{1, 0, 65535, 40000}[rng.Intn(4)],
				hx([]string{"", crashHost(rng, good)}[rng.Intn(2)]), []int{80, 0, 65535}[rng.Intn(3)]))
		case x < 32:
			lst := pick(rng, append([]string{"mux", "mux", "http"}, crashUserListeners...))
			emit("ureq " + lst + " " + hx(string(crashUserReqCapped(rng, lst))))
		case x < 33:
			if rng.Intn(3) == 0 {
				emit(fmt.Sprintf("ptear %s %d %s %d", pick(rng, crashPlugins), rng.Intn(2), pick(rng, crashHolds), 1+rng.Intn(3)))
			} else {
				emit("canon " + hx(crashUserHost(rng)))
			}
		case x < 37:
			gw, auth, items := crashSSHScript(rng, 8)
			emit(crashSSHLine(gw, auth, items))
		case x < 70:
			t := crashTypes[rng.Intn(len(crashTypes))]
			if rng.Intn(2) == 0 {
				t = pick(rng, []string{"NewProxy", "NewProxy", "CloseProxy", "Ping", "NatHoleVisitor", "NatHoleClient", "NatHoleReport", "NewWorkConn", "NewVisitorConn"})
			}
			emit(fmt.Sprintf("msg %s %s %d", pick(rng, cids), t, rng.Intn(1<<30)))
		case x < 84:
			tb := int("o1p2cwrsv3h4uinm56"[rng.Intn(18)])
			if rng.Intn(4) == 0 {
				tb = rng.Intn(256)
			}
			emit(fmt.Sprintf("json %s %d %s", pick(rng, cids), tb, hx(crashJSON(rng))))
		case x < 90:
			b := make([]byte, 1+rng.Intn(64))
			rng.Read(b)
			emit("raw " + hx(string(b)))
		default:
			emit("drop " + pick(rng, cids))
		}
		emitted++
		if emitted%stormEvery == 0 {
			emit(fmt.Sprintf("storm %d %d %d", rng.Intn(1<<20), 6+rng.Intn(10), 15+rng.Intn(25)))
			if emitted%(2*stormEvery) == 0 {
				emit(fmt.Sprintf("ustorm %d %d %d", rng.Intn(1<<20), 4+rng.Intn(8), 6+rng.Intn(12)))
			}
			if emitted%(3*stormEvery) == 0 {
				emit(fmt.Sprintf("wstorm %d %d %d", rng.Intn(1<<20), 4+rng.Intn(8), 4+rng.Intn(12)))
				emit(fmt.Sprintf("sstorm %d %d %d", rng.Intn(1<<20), 4+rng.Intn(6), 4+rng.Intn(8)))
			}
			if emitted%(4*stormEvery) == 0 {
				emit(fmt.Sprintf("nstorm %d %d %d", rng.Intn(1<<20), 4+rng.Intn(8), 150+rng.Intn(300)))
				emit(fmt.Sprintf("pstorm %d %d %d", rng.Intn(1<<20), 4+rng.Intn(8), 100+rng.Intn(300)))
				emit(fmt.Sprintf("ostorm %d %d %d", rng.Intn(1<<20), 8+rng.Intn(12), 40+rng.Intn(80)))
				emit(fmt.Sprintf("closerace %s %s %d %d", pick(rng, []string{"c1", "c2"}), pick(rng, crashRaceKinds()), 3+rng.Intn(8), 1+rng.Intn(6)))
			}
			emit("stat")
			emit("watch")
			emitted += 20
		}
		if emitted%400 == 0 {
			emit(fmt.Sprintf("cstorm %d %d", rng.Intn(1<<20), 40+rng.Intn(80)))
			emitted += 40
		}
	}
	emit(fmt.Sprintf("cstorm %d 80", rng.Intn(1<<20)))
	emit(fmt.Sprintf("storm %d 16 40", rng.Intn(1<<20)))
	emit(fmt.Sprintf("wstorm %d 12 12", rng.Intn(1<<20)))
	emit("stat")
	emit("watch")
}

var crashTearGates = []string{"dispDone", "drained", "beforeDone", "beforeDel", "none"}
var crashReloginGates = []string{"dispDone", "drained", "beforeDone", "beforeDel", "live"}
var crashGroupKinds = []string{"tcp", "tcpmux", "http"}

func crashRaceKinds() []string {
	ks := []string{"tcp", "tcpgroup", "tcpmuxgroup", "httpgroup"}
	if crashUDPRaceInStorms {
		ks = append(ks, "udp")
	}
	return ks
}

// a release order for session A (0) and the k parked logins (1…k), as digits
func crashPerm(rng *rand.Rand, k int) string {
	p := rng.Perm(k + 1)
	var b strings.Builder
	for _, x := range p {
		b.WriteByte(byte('0' + x))
	}
	return b.String()
}

func init() {
	if os.Getenv("VERIF_CRASH_CHILD") != "" && len(os.Args) >= 3 && os.Args[1] == "crash" && os.Args[2] == "child" {
		crashChildMain()
	}
	register(&Engine{Name: "crash", Gen: crashGen, Exec: crashExec})
}
