package main

import (
	"context"
	"fmt"
	"net"
	"strings"
	"sync"
	"time"

	"github.com/fatedier/frp/client"
	v1 "github.com/fatedier/frp/pkg/config/v1"
	"github.com/fatedier/frp/server"
)

// e2e op of engine "udp": the same traffic as `tunnel`, but through a real frps + frpc pair running
// in this process (real server/proxy/udp.go and client/proxy/udp.go goroutines, real work
// connection over loopback TCP with yamux, optional encryption / compression).
//
//	e2e ps=<ps> enc=<0|1> comp=<0|1> k=<k> d=<u.len.seed,...>
//	   => B=…;U0=…;…;socks=<n>;mixed=<0|1>
//	e2e … g=<n>   in bursts of n (see `tunnel … g=`): n datagrams back to back on the public port, then the n answers
//	              back to back from the backend
//
//	e2es …  the same through a sudp tunnel: user -> real SUDPVisitor (frpc) -> frps (server/proxy/sudp.go,
//	        visitor manager) -> frpc sudp proxy (client/proxy/sudp.go, its own Forwarder per visitor
//	        connection) -> backend.  enc/comp are set on the visitor connection AND on the work connection.
//
// One pair per (ps, enc, comp, kind) is started lazily and kept for the whole run.
type e2ePair struct {
	remote  *net.UDPAddr
	backend *net.UDPConn
	mu      sync.Mutex
	bLog    []tentry
	srcUser map[int]int
	mixed   int
	count   int
	hold    bool // burst mode: answers are kept until release()
	held    []tunnelHeld
}

var e2ePairs = map[string]*e2ePair{}

// pairs whose readiness probe never made the round trip: nothing gets through this frps + frpc pair.  Remembered, so
// that every further op on the pair reports "nothing arrived" at once instead of waiting for the probe again.
var e2eDown = map[string]bool{}

func freeTCPPort() int {
	l, err := net.Listen("tcp", "127.0.0.1:0")
	if err != nil {
		panic(err)
	}
	defer l.Close()
	return l.Addr().(*net.TCPAddr).Port
}

func freeUDPPort() int {
	c, err := net.ListenUDP("udp", &net.UDPAddr{IP: net.IPv4(127, 0, 0, 1)})
	if err != nil {
		panic(err)
	}
	defer c.Close()
	return c.LocalAddr().(*net.UDPAddr).Port
}

func (p *e2ePair) reset() {
	p.mu.Lock()
	p.bLog, p.srcUser, p.mixed, p.count = nil, map[int]int{}, 0, 0
	p.hold, p.held = false, nil
	p.mu.Unlock()
}

// release: the answers kept so far go out back to back
func (p *e2ePair) release() int {
	p.mu.Lock()
	h := p.held
	p.held = nil
	p.mu.Unlock()
	for _, x := range h {
		_, _ = p.backend.WriteToUDP(x.reply, x.to)
	}
	return len(h)
}

func getPair(ps int, enc, comp, sudp bool) *e2ePair {
	key := fmt.Sprintf("%d/%v/%v/%v", ps, enc, comp, sudp)
	if p, ok := e2ePairs[key]; ok {
		return p
	}
	if e2eDown[key] {
		return nil
	}
	backend, err := net.ListenUDP("udp", &net.UDPAddr{IP: net.IPv4(127, 0, 0, 1)})
	if err != nil {
		panic(err)
	}
	_ = backend.SetReadBuffer(4 << 20)
	p := &e2ePair{backend: backend, srcUser: map[int]int{}}
	go func() {
		buf := make([]byte, 70000)
		for {
			n, from, err := backend.ReadFromUDP(buf)
			if err != nil {
				return
			}
			pl := append([]byte(nil), buf[:n]...)
			if n > 0 && pl[0] == 'P' { // readiness probe
				_, _ = backend.WriteToUDP(pl, from)
				continue
			}
			e := entryOf(pl)
			p.mu.Lock()
			p.bLog = append(p.bLog, e)
			if u0, ok := p.srcUser[from.Port]; ok {
				if u0 != e.u {
					p.mixed = 1
				}
			} else {
				p.srcUser[from.Port] = e.u
			}
			p.count++
			hold := p.hold
			if hold {
				p.held = append(p.held, tunnelHeld{tunnelReply(pl), from})
			}
			p.mu.Unlock()
			if !hold {
				_, _ = backend.WriteToUDP(tunnelReply(pl), from)
			}
		}
	}()

	scfg := &v1.ServerConfig{}
	scfg.BindAddr = "127.0.0.1"
	scfg.BindPort = freeTCPPort()
	scfg.ProxyBindAddr = "127.0.0.1"
	scfg.UDPPacketSize = int64(ps)
	scfg.Complete()
	svr, err := server.NewService(scfg)
	if err != nil {
		panic(err)
	}
	go svr.Run(context.Background())

	ccfg := &v1.ClientCommonConfig{}
	ccfg.ServerAddr = "127.0.0.1"
	ccfg.ServerPort = scfg.BindPort
	ccfg.UDPPacketSize = int64(ps)
	f := false
	ccfg.LoginFailExit = &f
	ccfg.Complete()
	var opts client.ServiceOptions
	if sudp {
		pc := &v1.SUDPProxyConfig{}
		pc.Name = "c03sudp"
		pc.Type = "sudp"
		pc.Secretkey = "c03-sk"
		pc.LocalIP = "127.0.0.1"
		pc.LocalPort = backend.LocalAddr().(*net.UDPAddr).Port
		pc.Transport.UseEncryption = enc
		pc.Transport.UseCompression = comp
		pc.Complete("")
		vc := &v1.SUDPVisitorConfig{}
		vc.Name = "c03sudp_visitor"
		vc.Type = "sudp"
		vc.ServerName = "c03sudp"
		vc.SecretKey = "c03-sk"
		vc.BindAddr = "127.0.0.1"
		vc.BindPort = freeUDPPort()
		vc.Transport.UseEncryption = enc
		vc.Transport.UseCompression = comp
		vc.Complete(ccfg)
		opts = client.ServiceOptions{Common: ccfg, ProxyCfgs: []v1.ProxyConfigurer{pc}, VisitorCfgs: []v1.VisitorConfigurer{vc}}
		p.remote = &net.UDPAddr{IP: net.IPv4(127, 0, 0, 1), Port: vc.BindPort}
	} else {
		pc := &v1.UDPProxyConfig{}
		pc.Name = "c03udp"
		pc.Type = "udp"
		pc.LocalIP = "127.0.0.1"
		pc.LocalPort = backend.LocalAddr().(*net.UDPAddr).Port
		pc.RemotePort = freeUDPPort()
		pc.Transport.UseEncryption = enc
		pc.Transport.UseCompression = comp
		pc.Complete("")
		opts = client.ServiceOptions{Common: ccfg, ProxyCfgs: []v1.ProxyConfigurer{pc}}
		p.remote = &net.UDPAddr{IP: net.IPv4(127, 0, 0, 1), Port: pc.RemotePort}
	}
	cli, err := client.NewService(opts)
	if err != nil {
		panic(err)
	}
	go func() { _ = cli.Run(context.Background()) }()

	// wait until a probe makes the round trip (the server proxy fetches its work connection
	// 500 ms after registration)
	probe, err := net.DialUDP("udp", nil, p.remote)
	if err != nil {
		panic(err)
	}
	defer probe.Close()
	buf := make([]byte, 16)
	deadline := time.Now().Add(8 * time.Second)
	for time.Now().Before(deadline) {
		_, _ = probe.Write([]byte{'P'})
		_ = probe.SetReadDeadline(time.Now().Add(100 * time.Millisecond))
		if n, err := probe.Read(buf); err == nil && n == 1 {
			e2ePairs[key] = p
			return p
		}
	}
	e2eDown[key] = true
	return nil
}

// e2eNothing: the result of an op on a pair that carries nothing
func e2eNothing(k int) string {
	out := "B="
	for i := 0; i < k; i++ {
		out += fmt.Sprintf(";U%d=", i)
	}
	return out + ";socks=0;mixed=0"
}

func runE2E(p *e2ePair, k int, ds [][3]int, g int) (string, bool) {
	p.reset()
	p.mu.Lock()
	p.hold = g > 0
	p.mu.Unlock()
	users := make([]*net.UDPConn, k)
	uLog := make([][]tentry, k)
	var mu sync.Mutex
	got := 0
	var wg sync.WaitGroup
	for i := 0; i < k; i++ {
		c, err := net.DialUDP("udp", nil, p.remote)
		if err != nil {
			panic(err)
		}
		_ = c.SetReadBuffer(4 << 20)
		users[i] = c
		wg.Add(1)
		go func(i int, c *net.UDPConn) {
			defer wg.Done()
			buf := make([]byte, 70000)
			for {
				n, err := c.Read(buf)
				if err != nil {
					return
				}
				e := entryOf(buf[:n])
				mu.Lock()
				uLog[i] = append(uLog[i], e)
				got++
				mu.Unlock()
			}
		}(i, c)
	}
	if g > 0 {
		bcount := func() int { p.mu.Lock(); defer p.mu.Unlock(); return p.count }
		ucount := func() int { mu.Lock(); defer mu.Unlock(); return got }
		stall := 400 * time.Millisecond // once something has failed to come the verdict is settled: do not wait long again
		for lo := 0; lo < len(ds); lo += g {
			hi := min(lo+g, len(ds))
			b0, u0 := bcount(), ucount()
			for i := lo; i < hi; i++ { // the burst: back to back
				d := ds[i]
				_, _ = users[d[0]].Write(tunnelPayload(d[0], i, d[1], d[2]))
			}
			if !burstWait(bcount, b0+(hi-lo), stall) {
				stall = 40 * time.Millisecond
			}
			nh := p.release() // the answers of the burst: back to back
			if !burstWait(ucount, u0+nh, stall) {
				stall = 40 * time.Millisecond
			}
		}
	} else {
		for i, d := range ds {
			_, _ = users[d[0]].Write(tunnelPayload(d[0], i, d[1], d[2]))
			if i%8 == 7 {
				time.Sleep(500 * time.Microsecond)
			}
		}
	}
	want := 2 * len(ds)
	last, lastT := -1, time.Now()
	for {
		p.mu.Lock()
		c := p.count
		p.mu.Unlock()
		mu.Lock()
		c += got
		mu.Unlock()
		if c >= want {
			time.Sleep(5 * time.Millisecond)
			break
		}
		if c != last {
			last, lastT = c, time.Now()
		} else if time.Since(lastT) > 400*time.Millisecond || (g > 0 && time.Since(lastT) > 40*time.Millisecond) {
			break
		}
		time.Sleep(2 * time.Millisecond)
	}
	for _, c := range users {
		c.Close()
	}
	wg.Wait()
	p.mu.Lock()
	defer p.mu.Unlock()
	out := "B=" + fmtEntries(p.bLog)
	total := len(p.bLog)
	for i := 0; i < k; i++ {
		out += fmt.Sprintf(";U%d=%s", i, fmtEntries(uLog[i]))
		total += len(uLog[i])
	}
	out += fmt.Sprintf(";socks=%d;mixed=%d", len(p.srcUser), p.mixed)
	return out, total < want
}

func e2eExec(tok []string) string {
	ps := atoi(strings.TrimPrefix(tok[1], "ps="))
	enc := tok[2] == "enc=1"
	comp := tok[3] == "comp=1"
	k := atoi(strings.TrimPrefix(tok[4], "k="))
	var ds [][3]int
	for _, e := range strings.Split(strings.TrimPrefix(tok[5], "d="), ",") {
		f := strings.Split(e, ".")
		ds = append(ds, [3]int{atoi(f[0]), atoi(f[1]), atoi(f[2])})
	}
	g := 0
	if len(tok) > 6 {
		g = atoi(strings.TrimPrefix(tok[6], "g="))
	}
	p := getPair(ps, enc, comp, tok[0] == "e2es")
	if p == nil {
		return e2eNothing(k)
	}
	res, missing := runE2E(p, k, ds, g)
	if udpRerunWorthIt(missing) && ps <= 7605 {
		res, missing = runE2E(p, k, ds, g)
		udpRerunDone(missing)
	}
	return res
}
