package main

import (
	"context"
	"encoding/base64"
	"fmt"
	"io"
	"math/rand"
	"net"
	"sort"
	"strings"
	"sync"
	"time"

	libio "github.com/fatedier/golib/io"
	"github.com/samber/lo"

	"github.com/fatedier/frp/client"
	v1 "github.com/fatedier/frp/pkg/config/v1"
	"github.com/fatedier/frp/pkg/msg"
	"github.com/fatedier/frp/pkg/proto/udp"
	netpkg "github.com/fatedier/frp/pkg/util/net"
	"github.com/fatedier/frp/pkg/util/version"
	"github.com/fatedier/frp/server"
)

// spx op of engine "udp" (property C03): the server side of a udp proxy with replacement of its work
// connection.  A real frps (server.Service → Control → proxy.NewProxy(udp).Run: the work-connection loop,
// workConnReaderFn / workConnSenderFn per work connection, udp.ForwardUserConn on the public socket) runs in
// this process; the harness plays frpc with the real codec over the real dialer (client.Connector, yamux): it
// logs in once per frps, registers one udp proxy per op (NewProxy), answers every ReqWorkConn with a
// NewWorkConn, reads StartWorkConn, wraps the work connection as frpc does (encryption, compression), records
// every UDPPacket per work connection, sends replies / pings / packets without address / packets with
// undecodable content, and takes the work connection away.
//
//	spx ps=<ps> enc=<0|1> comp=<0|1> k=<k> s=<tok,tok,...>
//	  d<u>.<len>.<seed>  user u sends a datagram to the public port; wait until the peer has it
//	  D<u>.<len>.<seed>  the same without waiting (burst; the next waiting token collects)
//	  r<u>.<len>.<seed>  the peer sends a reply addressed to user u on the current work connection; wait until u has it
//	  R<u>.<len>.<seed>  the same without waiting (burst of replies; the next waiting token collects)
//	  n<u>.<len>.<seed>  the peer sends a UDPPacket WITHOUT remote address (nobody may get it)
//	  b<u>.<len>.<seed>  the peer sends a UDPPacket for user u whose content is not base64 (nobody may get it)
//	  p                  the peer sends a Ping on the current work connection
//	  x | y | z          everything sent so far is waited for, then the current work connection goes away: closed by
//	                     the peer | frame of unknown type | frame longer than the 10240 limit; frps must fetch the
//	                     next one (the harness waits for its StartWorkConn)
//	  X | Y              the same (closed | unknown frame) WITHOUT waiting for the datagrams in flight
//	  => W=<g/u.seq.len.hash,...>;U0=…;…;conns=<n>;bad=<n>
//	     W = packets received, g = number of the work connection of this proxy (order of StartWorkConn);
//	     bad = packets with a RemoteAddr that is not the sending user's address, a LocalAddr, or an undecodable content
//
// seq = index of the token in the script; payloads as in `tunnel`; reply = tunnelReply(tunnelPayload).
const srvToken = "c03-srv-token"

type srvInst struct {
	svr   *server.Service
	port  int
	conn  client.Connector
	ctl   net.Conn
	rw    io.ReadWriter
	runID string

	mu   sync.Mutex
	resp map[string]chan *msg.NewProxyResp
	runs map[string]*srvRun
	eof  bool
}

type srvRun struct {
	name      string
	enc, comp bool

	mu        sync.Mutex
	conns     int
	cur       io.ReadWriteCloser
	curRaw    net.Conn
	curGen    int
	closedGen int
	w         []sudpWEntry
	seen      map[int]bool // seq numbers received
	bad       int
	userPort  map[int]int
}

var (
	srvInsts = map[int]*srvInst{}
	srvSeq   = 0
)

func srvGetInst(ps int) *srvInst {
	if in, ok := srvInsts[ps]; ok {
		return in
	}
	var lastErr error
	for attempt := 0; attempt < 5; attempt++ {
		cfg := &v1.ServerConfig{}
		cfg.BindAddr = "127.0.0.1"
		cfg.ProxyBindAddr = "127.0.0.1"
		cfg.BindPort = freeTCPPort()
		cfg.Auth.Method = v1.AuthMethodToken
		cfg.Auth.Token = srvToken
		cfg.UDPPacketSize = int64(ps)
		cfg.Complete()
		svr, err := server.NewService(cfg)
		if err != nil {
			lastErr = err
			continue
		}
		go svr.Run(context.Background())

		cc := &v1.ClientCommonConfig{}
		cc.ServerAddr = "127.0.0.1"
		cc.ServerPort = cfg.BindPort
		cc.Transport.Protocol = "tcp"
		cc.Transport.TLS.Enable = lo.ToPtr(false)
		cc.Complete()
		cc.Transport.ProxyURL = ""
		conn := client.NewConnector(context.Background(), cc)
		if err := conn.Open(); err != nil {
			lastErr = err
			svr.Close()
			continue
		}
		c, err := conn.Connect()
		if err != nil {
			lastErr = err
			svr.Close()
			continue
		}
		ts := time.Now().Unix()
		if err := msg.WriteMsg(c, &msg.Login{Version: version.Full(), Hostname: "c03srv", Os: "linux", Arch: "amd64",
			Timestamp: ts, PrivilegeKey: peerKey(srvToken, ts), PoolCount: 1}); err != nil {
			panic(err)
		}
		_ = c.SetReadDeadline(time.Now().Add(5 * time.Second))
		var lr msg.LoginResp
		if err := msg.ReadMsgInto(c, &lr); err != nil || lr.Error != "" {
			panic(fmt.Sprint("spx login: ", err, lr.Error))
		}
		_ = c.SetReadDeadline(time.Time{})
		rw, err := netpkg.NewCryptoReadWriter(c, []byte(srvToken))
		if err != nil {
			panic(err)
		}
		in := &srvInst{svr: svr, port: cfg.BindPort, conn: conn, ctl: c, rw: rw, runID: lr.RunID,
			resp: map[string]chan *msg.NewProxyResp{}, runs: map[string]*srvRun{}}
		go in.reader()
		srvInsts[ps] = in
		return in
	}
	panic(fmt.Sprint("spx: cannot start frps: ", lastErr))
}

// the control connection as frpc's: every ReqWorkConn is answered with a new work connection
func (in *srvInst) reader() {
	for {
		m, err := msg.ReadMsg(in.rw)
		if err != nil {
			in.mu.Lock()
			in.eof = true
			in.mu.Unlock()
			return
		}
		switch v := m.(type) {
		case *msg.ReqWorkConn:
			go in.offer()
		case *msg.NewProxyResp:
			in.mu.Lock()
			ch := in.resp[v.ProxyName]
			in.mu.Unlock()
			if ch != nil {
				select {
				case ch <- v:
				default:
				}
			}
		}
	}
}

func (in *srvInst) offer() {
	c, err := in.conn.Connect()
	if err != nil {
		return
	}
	if err := msg.WriteMsg(c, &msg.NewWorkConn{RunID: in.runID}); err != nil {
		c.Close()
		return
	}
	var start msg.StartWorkConn
	if err := msg.ReadMsgInto(c, &start); err != nil || start.Error != "" {
		c.Close()
		return
	}
	in.mu.Lock()
	run := in.runs[start.ProxyName]
	in.mu.Unlock()
	if run == nil {
		c.Close()
		return
	}
	run.serve(c)
}

// serve: one work connection of the proxy, as client/proxy/udp.go InWorkConn wraps it
func (p *srvRun) serve(c net.Conn) {
	var rw io.ReadWriteCloser = c
	if p.enc {
		var err error
		rw, err = libio.WithEncryption(rw, []byte(srvToken))
		if err != nil {
			c.Close()
			return
		}
	}
	if p.comp {
		rw = libio.WithCompression(rw)
	}
	p.mu.Lock()
	p.conns++
	g := p.conns
	p.cur, p.curRaw, p.curGen = rw, c, g
	p.mu.Unlock()
	for {
		raw, err := msg.ReadMsg(rw)
		if err != nil {
			break
		}
		m, ok := raw.(*msg.UDPPacket)
		if !ok {
			continue
		}
		b, derr := udp.GetContent(m)
		e := entryOf(b)
		p.mu.Lock()
		if derr != nil || m.LocalAddr != nil || m.RemoteAddr == nil {
			p.bad++
		} else if port, known := p.userPort[e.u]; !known || port != m.RemoteAddr.Port || !m.RemoteAddr.IP.IsLoopback() {
			p.bad++
		}
		p.w = append(p.w, sudpWEntry{g, e})
		p.seen[e.seq] = true
		p.mu.Unlock()
	}
	c.Close()
	p.mu.Lock()
	if p.curGen == g {
		p.cur, p.curRaw = nil, nil
	}
	if g > p.closedGen {
		p.closedGen = g
	}
	p.mu.Unlock()
}

// runSpx executes one script; second result = something expected did not arrive (and nothing is wrong)
func runSpx(ps int, enc, comp bool, k int, script []string) (string, bool) {
	in := srvGetInst(ps)
	srvSeq++
	name := fmt.Sprintf("c03srv-%d", srvSeq)
	run := &srvRun{name: name, enc: enc, comp: comp, seen: map[int]bool{}, userPort: map[int]int{}}
	respCh := make(chan *msg.NewProxyResp, 1)
	in.mu.Lock()
	in.runs[name] = run
	in.resp[name] = respCh
	in.mu.Unlock()
	defer func() {
		in.mu.Lock()
		delete(in.runs, name)
		delete(in.resp, name)
		in.mu.Unlock()
	}()

	if err := msg.WriteMsg(in.rw, &msg.NewProxy{ProxyName: name, ProxyType: "udp", UseEncryption: enc, UseCompression: comp}); err != nil {
		return "ctlerr", false
	}
	var port int
	select {
	case r := <-respCh:
		if r.Error != "" {
			return "proxyerr", false
		}
		_, pt, _ := net.SplitHostPort(r.RemoteAddr)
		port = atoi(pt)
	case <-time.After(5 * time.Second):
		return "noproxyresp", false
	}
	defer func() { _ = msg.WriteMsg(in.rw, &msg.CloseProxy{ProxyName: name}) }()

	users := make([]*net.UDPConn, k)
	uLog := make([][]tentry, k)
	var umu sync.Mutex
	var wg sync.WaitGroup
	for i := 0; i < k; i++ {
		c, err := net.DialUDP("udp", nil, &net.UDPAddr{IP: net.IPv4(127, 0, 0, 1), Port: port})
		if err != nil {
			panic(err)
		}
		_ = c.SetReadBuffer(4 << 20)
		users[i] = c
		run.mu.Lock()
		run.userPort[i] = c.LocalAddr().(*net.UDPAddr).Port
		run.mu.Unlock()
		wg.Add(1)
		go func(i int, c *net.UDPConn) {
			defer wg.Done()
			buf := make([]byte, 70000)
			for {
				n, err := c.Read(buf)
				if err != nil {
					return
				}
				e := entryOf(buf[:n])
				umu.Lock()
				uLog[i] = append(uLog[i], e)
				umu.Unlock()
			}
		}(i, c)
	}
	defer func() {
		for _, c := range users {
			c.Close()
		}
		wg.Wait()
	}()
	userAddr := func(u int) *net.UDPAddr {
		return &net.UDPAddr{IP: net.IPv4(127, 0, 0, 1), Port: users[u].LocalAddr().(*net.UDPAddr).Port}
	}

	// the proxy fetches its first work connection 500 ms after registration
	waitGen := func(g int, max time.Duration) bool {
		return sudpWaitFor(func() bool { run.mu.Lock(); defer run.mu.Unlock(); return run.curGen >= g && run.cur != nil }, max)
	}
	if !waitGen(1, 5*time.Second) {
		return "noworkconn", false
	}

	pending := map[int]bool{} // datagrams sent and not yet seen by the peer
	sentN := 0
	expectU := make([]int, k)
	missing := false
	patience := 400 * time.Millisecond
	arrived := func() bool {
		run.mu.Lock()
		defer run.mu.Unlock()
		for s := range pending {
			if !run.seen[s] {
				return false
			}
		}
		return true
	}
	surplus := func() bool {
		run.mu.Lock()
		defer run.mu.Unlock()
		return len(run.w) > sentN || run.bad > 0
	}
	// replies sent without waiting (R) are collected here: every user has what was sent to it
	repliesIn := func() bool {
		umu.Lock()
		defer umu.Unlock()
		for u := range expectU {
			if len(uLog[u]) < expectU[u] {
				return false
			}
		}
		return true
	}
	collectReplies := func() {
		if !sudpWaitFor(repliesIn, patience) {
			missing = true
			umu.Lock()
			for u := range expectU {
				if len(uLog[u]) < expectU[u] {
					expectU[u] = len(uLog[u])
				}
			}
			umu.Unlock()
			patience = 100 * time.Millisecond
		}
	}
	syncUp := func() {
		if !sudpWaitFor(arrived, patience) {
			missing = true
			patience = 100 * time.Millisecond
		}
		if surplus() {
			patience = 30 * time.Millisecond
		}
		pending = map[int]bool{}
		collectReplies()
	}
	current := func() (io.ReadWriteCloser, net.Conn, int) {
		run.mu.Lock()
		defer run.mu.Unlock()
		return run.cur, run.curRaw, run.curGen
	}
	for i, t := range script {
		switch {
		case t[0] == 'd' || t[0] == 'D':
			f := strings.Split(t[1:], ".")
			u, ln, seed := atoi(f[0]), atoi(f[1]), atoi(f[2])
			pending[i] = true
			sentN++
			_, _ = users[u].Write(tunnelPayload(u, i, ln, seed))
			if t[0] == 'd' {
				syncUp()
			}
		case t[0] == 'R':
			// a reply of a burst: written behind the previous one, nobody waits
			f := strings.Split(t[1:], ".")
			u, ln, seed := atoi(f[0]), atoi(f[1]), atoi(f[2])
			cur, _, _ := current()
			if cur == nil {
				continue
			}
			if err := msg.WriteMsg(cur, udp.NewUDPPacket(tunnelReply(tunnelPayload(u, i, ln, seed)), nil, userAddr(u))); err != nil {
				continue
			}
			expectU[u]++
		case t[0] == 'r' || t[0] == 'n' || t[0] == 'b':
			syncUp()
			f := strings.Split(t[1:], ".")
			u, ln, seed := atoi(f[0]), atoi(f[1]), atoi(f[2])
			cur, _, _ := current()
			if cur == nil {
				continue
			}
			pl := tunnelReply(tunnelPayload(u, i, ln, seed))
			switch t[0] {
			case 'n':
				_ = msg.WriteMsg(cur, udp.NewUDPPacket(pl, nil, nil))
				continue
			case 'b':
				_, _ = cur.Write(udpRawFrame("!*"+base64.StdEncoding.EncodeToString(pl), nil, userAddr(u)))
				continue
			}
			if err := msg.WriteMsg(cur, udp.NewUDPPacket(pl, nil, userAddr(u))); err != nil {
				continue
			}
			expectU[u]++
			want := expectU[u]
			if !sudpWaitFor(func() bool { umu.Lock(); defer umu.Unlock(); return len(uLog[u]) >= want }, patience) {
				missing = true
				umu.Lock()
				expectU[u] = len(uLog[u])
				umu.Unlock()
				patience = 100 * time.Millisecond
			}
		case t == "p":
			syncUp()
			if cur, _, _ := current(); cur != nil {
				_ = msg.WriteMsg(cur, &msg.Ping{})
			}
		case t == "x" || t == "y" || t == "z" || t == "X" || t == "Y":
			idle := t == "x" || t == "y" || t == "z"
			if idle {
				syncUp()
			}
			cur, raw, g := current()
			if cur == nil {
				continue
			}
			switch t {
			case "x", "X":
				raw.Close()
			case "y", "Y":
				_, _ = cur.Write([]byte{0x7e, 0, 0, 0, 0, 0, 0, 0, 2, '{', '}'})
			case "z":
				_, _ = cur.Write([]byte{'u', 0, 0, 0, 0, 0, 0, 0x28, 0x01})
			}
			if !sudpWaitFor(func() bool { run.mu.Lock(); defer run.mu.Unlock(); return run.closedGen >= g }, 2*time.Second) {
				raw.Close()
			}
			if !waitGen(g+1, 3*time.Second) {
				missing = true
			}
			time.Sleep(15 * time.Millisecond) // cancel() wakes the old sender; it leaves
			if !idle {
				// what was in flight may arrive (on the old or on the new connection) or be lost
				sudpWaitFor(arrived, 60*time.Millisecond)
				pending = map[int]bool{}
			}
		default:
			panic("bad spx token " + t)
		}
	}
	syncUp()
	time.Sleep(3 * time.Millisecond) // let a duplicate / a misrouted packet show up

	run.mu.Lock()
	ws := append([]sudpWEntry(nil), run.w...)
	conns, bad := run.conns, run.bad
	run.mu.Unlock()
	sort.Slice(ws, func(i, j int) bool {
		a, b := ws[i], ws[j]
		if a.g != b.g {
			return a.g < b.g
		}
		if a.e.u != b.e.u {
			return a.e.u < b.e.u
		}
		if a.e.seq != b.e.seq {
			return a.e.seq < b.e.seq
		}
		if a.e.ln != b.e.ln {
			return a.e.ln < b.e.ln
		}
		return a.e.h < b.e.h
	})
	parts := make([]string, len(ws))
	for i, w := range ws {
		parts[i] = fmt.Sprintf("%d/%d.%d.%d.%d", w.g, w.e.u, w.e.seq, w.e.ln, w.e.h)
	}
	out := "W=" + strings.Join(parts, ",")
	umu.Lock()
	for i := 0; i < k; i++ {
		out += fmt.Sprintf(";U%d=%s", i, fmtEntries(append([]tentry(nil), uLog[i]...)))
	}
	umu.Unlock()
	out += fmt.Sprintf(";conns=%d;bad=%d", conns, bad)
	return out, missing && len(ws) <= sentN && bad == 0
}

func spxExec(tok []string) string {
	ps := atoi(strings.TrimPrefix(tok[1], "ps="))
	enc := tok[2] == "enc=1"
	comp := tok[3] == "comp=1"
	k := atoi(strings.TrimPrefix(tok[4], "k="))
	var script []string
	if s := strings.TrimPrefix(tok[5], "s="); s != "" {
		script = strings.Split(s, ",")
	}
	// a datagram legitimately lost by the kernel must not alarm: when something is missing the same op is run
	// again (on a fresh proxy of the same frps)
	res, missing := runSpx(ps, enc, comp, k, script)
	if udpRerunWorthIt(missing) {
		res, missing = runSpx(ps, enc, comp, k, script)
		udpRerunDone(missing)
	}
	return res
}

// ---------------------------------------------------------------- generator

// spxGenScript: traffic of k users interleaved with replies, pings, packets without address / with undecodable
// content, and loss of the work connection of three kinds at arbitrary points — while idle (1 to 3 in a row,
// single datagrams afterwards) and under traffic (right after a burst) —, and `bursts` long bursts (20 to 100
// datagrams / replies back to back).
func spxGenScript(rng *rand.Rand, ps, k, ntok, maxLen, bursts int) string {
	segs := make([][]string, 0, ntok+8)
	count := 0
	var cur []string
	dgl := func(c string, u, ln int) {
		cur = append(cur, fmt.Sprintf("%s%d.%d.%d", c, u, ln, rng.Intn(1<<30)))
	}
	dg := func(c string) { dgl(c, rng.Intn(k), sudpGenLen(rng, ps, maxLen)) }
	flush := func() {
		if len(cur) > 0 {
			segs = append(segs, cur)
			count += len(cur)
			cur = nil
		}
	}
	killW, hotW := 8, 4
	switch rng.Intn(4) {
	case 0: // one long-lived connection, rare loss
		killW, hotW = 2, 1
	case 1: // flapping connection
		killW, hotW = 16, 8
	}
	for count < ntok {
		r := rng.Intn(100)
		switch {
		case r < killW:
			// 1 to 3 replacements in a row while nothing is in flight, then single datagrams
			for j, n := 0, 1+rng.Intn(3); j < n; j++ {
				cur = append(cur, pick(rng, []string{"x", "x", "y", "z"}))
			}
			for j, n := 0, 1+rng.Intn(4); j < n; j++ {
				dg("d")
			}
		case r < killW+hotW:
			// a burst and the loss right behind it
			for j, n := 0, 1+rng.Intn(5); j < n; j++ {
				dg("D")
			}
			cur = append(cur, pick(rng, []string{"X", "X", "Y"}))
		case r < killW+hotW+3:
			cur = append(cur, "p")
		case r < killW+hotW+3+5:
			dg(pick(rng, []string{"n", "n", "b"}))
		case r < killW+hotW+3+5+15:
			dg("r")
		default:
			if rng.Intn(7) == 0 {
				dg("D")
			} else {
				dg("d")
			}
		}
		flush()
	}
	// bursts of 20 to 100 distinct payloads, at arbitrary points between the segments above: datagrams back to back on
	// the public port (one user, the users in turn, arbitrary users; the length changes from datagram to datagram)
	// and replies back to back on the work connection; the token behind a burst collects it
	for b := 0; b < bursts; b++ {
		g, bmax := burstShape(rng, ps)
		if bmax > maxLen {
			bmax = maxLen
		}
		kind := pick(rng, []string{"D", "D", "R"})
		mode, u0 := rng.Intn(3), rng.Intn(k)
		ln := sudpGenLen(rng, ps, bmax)
		for i := 0; i < g; i++ {
			u := u0
			switch mode {
			case 1:
				u = (u0 + i) % k
			case 2:
				u = rng.Intn(k)
			}
			if rng.Intn(4) != 0 {
				ln = sudpGenLen(rng, ps, bmax)
			}
			dgl(kind, u, ln)
		}
		dgl(strings.ToLower(kind), rng.Intn(k), sudpGenLen(rng, ps, bmax))
		at := rng.Intn(len(segs) + 1)
		segs = append(segs[:at], append([][]string{cur}, segs[at:]...)...)
		cur = nil
	}
	var toks []string
	for _, sg := range segs {
		toks = append(toks, sg...)
	}
	return strings.Join(toks, ",")
}

func spxGen(rng *rand.Rand, n int, emit func(string)) {
	cnt := n/1000 + 2
	for i := 0; i < cnt; i++ {
		k := 1 + rng.Intn(4)
		ps, maxLen := 1500, 1500
		switch rng.Intn(8) {
		case 0:
			ps, maxLen = 64, 64
		case 1:
			ps, maxLen = 7605, 7605
		case 2, 3:
			ps, maxLen = 1500, 200
		}
		// the four encryption x compression settings in turn, then arbitrary ones; every second script carries bursts
		enc, comp := i>>1&1, i&1
		if i >= 4 {
			enc, comp = rng.Intn(2), rng.Intn(2)
		}
		bursts := 0
		if i%2 == 0 {
			bursts = 1 + rng.Intn(2)
		}
		emit(fmt.Sprintf("spx ps=%d enc=%d comp=%d k=%d s=%s", ps, enc, comp, k,
			spxGenScript(rng, ps, k, 10+rng.Intn(30), maxLen, bursts)))
	}
}
