package main

import (
	"bytes"
	"encoding/binary"
	"encoding/hex"
	"encoding/json"
	"errors"
	"fmt"
	"io"
	"math/rand"
	"net"
	"reflect"
	"runtime"
	"sort"
	"strings"
	"sync"
	"time"

	"github.com/fatedier/frp/pkg/msg"
)

// Session-level ops of engine "codec": the REAL msg.Dispatcher (pkg/msg/handler.go) over a pipe, and an
// established control connection of a live frps.
//
//	disp <handlers> <dflt> <chunk> <end> <nsend> <stream>
//	     handlers = H<typeByte>:<id>,…  (RegisterHandler calls in that order; "H-" = none),
//	     dflt = <id> | -  (RegisterDefaultHandler), chunk = the peer writes at most that many bytes per
//	     Write (0 = all at once), end = close|stay (what the peer does after the stream), nsend = Send calls
//	     (Ping{Timestamp:i}, i = 1…nsend) made before Run.
//	     A fresh Dispatcher on the server end of a net.Pipe; the peer writes <stream>.
//	     => T[<body>=<tree>;…] C[<id>:<Struct>@<off>:<V>;…] <done|alive|stuck>@<off> <eofdone|eofopen|-> S<hex>
//	     T: for every frame body the harness' own splitter finds in the stream, the generic JSON tree of it
//	        (encoding/json token stream — TRUSTED text level; "?" = not a JSON text), member order and
//	        duplicates kept;  C: the handler calls in call order: which func, struct of the message, bytes
//	        the dispatcher had taken from the pipe at that moment, reflection dump of the value;
//	        state: Done() closed / the loop asked for more after the whole stream / neither within 2 s;
//	        then, when the peer closes: Done() closed or not;  S: the bytes the send loop wrote.
//	sess <pre> <post>
//	     a second client logs in correctly, writes <pre> on its control stream, reads the replies it is due
//	     (one Pong per Ping, one NewProxyResp per NewProxy), then writes <post> and reads until the server closes
//	     (or 1.5 s pass)
//	     => T[…] pre=<Struct,…> post=<Struct,…> closed|open alive|dead
//
// Everything is event driven: the pipe wrapper sees every Read of the dispatcher; a Read issued after the
// whole stream was delivered means "the loop is alive and waiting".

// ---------------------------------------------------------------- ordered canonical JSON tree

func codecIsPlainInt(t string) bool {
	if t == "" || t == "-" || t == "-0" {
		return false
	}
	s := t
	if s[0] == '-' {
		s = s[1:]
	}
	if len(s) > 1 && s[0] == '0' {
		return false
	}
	for _, c := range s {
		if c < '0' || c > '9' {
			return false
		}
	}
	return true
}

func codecTreeValue(dec *json.Decoder, b *strings.Builder) error {
	tok, err := dec.Token()
	if err != nil {
		return err
	}
	switch x := tok.(type) {
	case nil:
		b.WriteByte('n')
	case bool:
		if x {
			b.WriteByte('t')
		} else {
			b.WriteByte('f')
		}
	case json.Number:
		if t := x.String(); codecIsPlainInt(t) {
			b.WriteString("i" + t)
		} else {
			b.WriteString("r" + hex.EncodeToString([]byte(t)))
		}
	case string:
		b.WriteString("s" + hex.EncodeToString([]byte(x)))
	case json.Delim:
		switch x {
		case '[':
			b.WriteByte('[')
			for i := 0; dec.More(); i++ {
				if i > 0 {
					b.WriteByte(',')
				}
				if err := codecTreeValue(dec, b); err != nil {
					return err
				}
			}
			if _, err := dec.Token(); err != nil {
				return err
			}
			b.WriteByte(']')
		case '{':
			b.WriteByte('{')
			for i := 0; dec.More(); i++ {
				if i > 0 {
					b.WriteByte(',')
				}
				k, err := dec.Token()
				if err != nil {
					return err
				}
				ks, ok := k.(string)
				if !ok {
					return errors.New("key")
				}
				b.WriteString(hex.EncodeToString([]byte(ks)) + ":")
				if err := codecTreeValue(dec, b); err != nil {
					return err
				}
			}
			if _, err := dec.Token(); err != nil {
				return err
			}
			b.WriteByte('}')
		default:
			return errors.New("delim")
		}
	}
	return nil
}

// codecOrderedTree: the JSON text as a canonical tree text keeping member order and duplicate members;
// "?" when the bytes are not (exactly one) JSON text
func codecOrderedTree(body []byte) string {
	if !json.Valid(body) {
		return "?"
	}
	dec := json.NewDecoder(bytes.NewReader(body))
	dec.UseNumber()
	var b strings.Builder
	if err := codecTreeValue(dec, &b); err != nil {
		return "?"
	}
	return b.String()
}

// the harness' own frame splitter (NOT frp's decoder): bodies of all length-consistent frames of the stream
func codecStreamTrees(stream []byte) string {
	var parts []string
	seen := map[string]bool{}
	for i, n := 0, 0; i+9 <= len(stream) && n < 24; n++ {
		l := int64(binary.BigEndian.Uint64(stream[i+1 : i+9]))
		if l < 0 || l > 10240 || i+9+int(l) > len(stream) {
			break
		}
		body := stream[i+9 : i+9+int(l)]
		if k := string(body); !seen[k] {
			seen[k] = true
			parts = append(parts, hex.EncodeToString(body)+"="+codecOrderedTree(body))
		}
		i += 9 + int(l)
	}
	return "T[" + strings.Join(parts, ";") + "]"
}

// ---------------------------------------------------------------- disp

type codecDispRW struct {
	r         net.Conn
	total     int
	delivered int
	atEnd     chan struct{}
	once      sync.Once
	mu        sync.Mutex
	wbuf      []byte
	wsig      chan struct{}
}

func (w *codecDispRW) Read(p []byte) (int, error) {
	if w.delivered >= w.total {
		w.once.Do(func() { close(w.atEnd) })
	}
	n, err := w.r.Read(p)
	w.delivered += n
	return n, err
}

func (w *codecDispRW) Write(p []byte) (int, error) {
	w.mu.Lock()
	w.wbuf = append(w.wbuf, p...)
	w.mu.Unlock()
	select {
	case w.wsig <- struct{}{}:
	default:
	}
	return len(p), nil
}

func (w *codecDispRW) written() []byte {
	w.mu.Lock()
	defer w.mu.Unlock()
	return append([]byte{}, w.wbuf...)
}

// how long to wait for an event that a correct dispatcher produces at once; after a few waits that ran
// out (a broken implementation) the remaining ops of the run wait only briefly
var codecDispTimeouts int

func codecDispWait() <-chan time.Time {
	if codecDispTimeouts >= 5 {
		return time.After(50 * time.Millisecond)
	}
	return time.After(2 * time.Second)
}

type codecCall struct {
	id  int
	typ string
	off int
	val string
}

func codecDisp(tok []string) string {
	hspec, dspec, chunk, end, nsend := tok[1], tok[2], atoi(tok[3]), tok[4], atoi(tok[5])
	stream := []byte(unhx(tok[6]))
	srv, cli := net.Pipe()
	defer srv.Close()
	defer cli.Close()
	rw := &codecDispRW{r: srv, total: len(stream), atEnd: make(chan struct{}), wsig: make(chan struct{}, 1)}
	d := msg.NewDispatcher(rw)
	// hspec "A…": every handler (and the default handler) is wrapped in msg.AsyncHandler, as frps does for the
	// nat-hole messages and frpc for ReqWorkConn: each call runs on a goroutine of its own, so calls are a multiset
	async := strings.HasPrefix(hspec, "A")
	var calls []codecCall
	var cmu sync.Mutex
	csig := make(chan struct{}, 1)
	mk := func(id int) func(msg.Message) {
		f := func(m msg.Message) {
			name := "?"
			val := "?"
			if t := reflect.TypeOf(m); t != nil && t.Kind() == reflect.Pointer && !reflect.ValueOf(m).IsNil() {
				name = t.Elem().Name()
				val = codecCanonValue(reflect.ValueOf(m).Elem())
			} else if m == nil {
				name = "nil"
			}
			if !async {
				calls = append(calls, codecCall{id, name, rw.delivered, val})
				return
			}
			cmu.Lock()
			calls = append(calls, codecCall{id, name, 0, val})
			cmu.Unlock()
			select {
			case csig <- struct{}{}:
			default:
			}
		}
		if async {
			return msg.AsyncHandler(f)
		}
		return f
	}
	handled := map[byte]bool{}
	if hspec != "H-" && hspec != "A-" {
		for _, p := range strings.Split(hspec[1:], ",") {
			kv := strings.SplitN(p, ":", 2)
			t, ok := codecSample[byte(atoi(kv[0]))]
			if !ok {
				return "badhandler"
			}
			d.RegisterHandler(reflect.New(t).Interface(), mk(atoi(kv[1])))
			handled[byte(atoi(kv[0]))] = true
		}
	}
	if dspec != "-" {
		d.RegisterDefaultHandler(mk(atoi(dspec)))
	}
	var want []byte
	for i := 1; i <= nsend; i++ {
		m := &msg.Ping{Timestamp: int64(i)}
		if err := d.Send(m); err != nil {
			return "senderr"
		}
		var fb bytes.Buffer
		_ = msg.WriteMsg(&fb, m)
		want = append(want, fb.Bytes()...)
	}
	d.Run()
	go func() { // the peer
		for i := 0; i < len(stream); {
			n := len(stream) - i
			if chunk > 0 && n > chunk {
				n = chunk
			}
			if _, err := cli.Write(stream[i : i+n]); err != nil {
				return
			}
			i += n
		}
	}()
	state := "stuck"
	select {
	case <-d.Done():
		state = "done"
	case <-rw.atEnd:
		select {
		case <-d.Done(): // cannot be: a Read at the end blocks
			state = "done"
		default:
			state = "alive"
		}
	case <-codecDispWait():
		codecDispTimeouts++
	}
	// a snapshot is only race free when the loop is known to be parked (alive: blocked in Read) or gone (done)
	var snap []codecCall
	off := -1
	if state != "stuck" && async {
		// the goroutines of the calls have been started, not necessarily run: wait (event driven) for as many
		// calls as the harness' own reading of the stream expects (encoding/json directly, not frp's decoder —
		// it only bounds the wait, the verdict is the model's), then leave a moment for calls beyond that
		want := codecExpectCalls(stream, handled, dspec != "-")
		deadline := codecDispWait()
	waitCalls:
		for {
			cmu.Lock()
			n := len(calls)
			cmu.Unlock()
			if n >= want {
				break
			}
			select {
			case <-csig:
			case <-deadline:
				codecDispTimeouts++
				break waitCalls
			}
		}
		for i := 0; i < 20; i++ {
			runtime.Gosched()
		}
		time.Sleep(300 * time.Microsecond)
		cmu.Lock()
		snap = append(snap, calls...)
		cmu.Unlock()
		sort.Slice(snap, func(a, b int) bool {
			if snap[a].id != snap[b].id {
				return snap[a].id < snap[b].id
			}
			if snap[a].typ != snap[b].typ {
				return snap[a].typ < snap[b].typ
			}
			return snap[a].val < snap[b].val
		})
		off = rw.delivered
	} else if state != "stuck" {
		snap = append(snap, calls...)
		off = rw.delivered
	}
	after := "-"
	if state == "alive" {
		// the send loop is due to write everything that was queued
		deadline := codecDispWait()
		for len(rw.written()) < len(want) {
			select {
			case <-rw.wsig:
				continue
			case <-deadline:
				codecDispTimeouts++
			}
			break
		}
		if end == "close" {
			_ = cli.Close()
			select {
			case <-d.Done():
				after = "eofdone"
				if !async && len(calls) != len(snap) {
					after = "eofdone+calls"
				}
			case <-codecDispWait():
				codecDispTimeouts++
				after = "eofopen"
			}
		}
	}
	wr := rw.written()
	var cs []string
	for _, c := range snap {
		cs = append(cs, fmt.Sprintf("%d:%s@%d:%s", c.id, c.typ, c.off, c.val))
	}
	return fmt.Sprintf("%s C[%s] %s@%d %s S%s", codecStreamTrees(stream), strings.Join(cs, ";"), state, off, after, hex.EncodeToString(wr))
}

// codecExpectCalls: how many handler calls the harness' own reading of the stream expects — frames split by
// the harness, bodies judged by encoding/json directly the way golib's unpack uses it.  Used only to bound a wait.
func codecExpectCalls(stream []byte, handled map[byte]bool, dflt bool) int {
	n := 0
	for i := 0; i+9 <= len(stream); {
		t, ok := codecSample[stream[i]]
		l := int64(binary.BigEndian.Uint64(stream[i+1 : i+9]))
		if !ok || l < 0 || l > 10240 || i+9+int(l) > len(stream) {
			break
		}
		var m any = reflect.New(t).Interface()
		if err := json.Unmarshal(stream[i+9:i+9+int(l)], &m); err != nil || m == nil {
			break
		}
		if handled[stream[i]] || dflt {
			n++
		}
		i += 9 + int(l)
	}
	return n
}

// ---------------------------------------------------------------- sess (live frps)

func codecReadReplies(c net.Conn, rw io.Reader, want int, wait time.Duration) (names []string, end string) {
	_ = c.SetReadDeadline(time.Now().Add(wait))
	defer c.SetReadDeadline(time.Time{})
	for want < 0 || len(names) < want {
		m, err := msg.ReadMsg(rw)
		if err != nil {
			var ne net.Error
			if errors.As(err, &ne) && ne.Timeout() {
				return names, "open"
			}
			return names, "closed"
		}
		names = append(names, reflect.TypeOf(m).Elem().Name())
	}
	return names, "more"
}

func codecCountPings(stream []byte) int {
	n := 0
	for i := 0; i+9 <= len(stream); {
		l := int64(binary.BigEndian.Uint64(stream[i+1 : i+9]))
		if l < 0 || l > 10240 || i+9+int(l) > len(stream) {
			break
		}
		if stream[i] == 'h' || stream[i] == 'p' { // Ping → Pong, NewProxy → NewProxyResp (both handled synchronously)
			n++
		}
		i += 9 + int(l)
	}
	return n
}

func codecSess(profile string, pre, post []byte) string {
	live, why := liveFor(profile)
	if live == nil {
		return why
	}
	c, rw, err := liveLogin(live.addr)
	if err != nil {
		return "nologin"
	}
	defer c.Close()
	var preNames []string
	if len(pre) > 0 {
		_, _ = rw.Write(pre)
		// the generator's pre part consists of well-formed frames: one Pong is due per Ping, one NewProxyResp per NewProxy
		preNames, _ = codecReadReplies(c, rw, codecCountPings(pre), 3*time.Second)
	}
	if len(post) > 0 {
		_, _ = rw.Write(post)
	}
	postNames, res := codecReadReplies(c, rw, -1, 1500*time.Millisecond)
	return fmt.Sprintf("%s pre=%s post=%s %s %s", codecStreamTrees(append(append([]byte{}, pre...), post...)),
		strings.Join(preNames, ","), strings.Join(postNames, ","), res, liveCheck(profile))
}

// ---------------------------------------------------------------- generator: JSON bodies from the struct schema

// a JSON value under construction
type cdJ struct {
	kind byte // n b i(raw number text) s a o
	b    bool
	raw  string
	arr  []*cdJ
	keys []string
	vals []*cdJ
}

func cdNull() *cdJ          { return &cdJ{kind: 'n'} }
func cdBool(b bool) *cdJ    { return &cdJ{kind: 'b', b: b} }
func cdNum(t string) *cdJ   { return &cdJ{kind: 'i', raw: t} }
func cdStr(s string) *cdJ   { return &cdJ{kind: 's', raw: s} }
func cdArr(l ...*cdJ) *cdJ  { return &cdJ{kind: 'a', arr: l} }
func cdObj() *cdJ           { return &cdJ{kind: 'o'} }
func (j *cdJ) set(k string, v *cdJ) *cdJ {
	j.keys = append(j.keys, k)
	j.vals = append(j.vals, v)
	return j
}

func (j *cdJ) write(b *bytes.Buffer, sortKeys bool) {
	switch j.kind {
	case 'n':
		b.WriteString("null")
	case 'b':
		if j.b {
			b.WriteString("true")
		} else {
			b.WriteString("false")
		}
	case 'i':
		b.WriteString(j.raw)
	case 's':
		t, _ := json.Marshal(j.raw)
		b.Write(t)
	case 'a':
		b.WriteByte('[')
		for i, e := range j.arr {
			if i > 0 {
				b.WriteByte(',')
			}
			e.write(b, sortKeys)
		}
		b.WriteByte(']')
	case 'o':
		idx := make([]int, len(j.keys))
		for i := range idx {
			idx[i] = i
		}
		if sortKeys {
			sort.SliceStable(idx, func(a, c int) bool { return j.keys[idx[a]] < j.keys[idx[c]] })
		}
		b.WriteByte('{')
		for n, i := range idx {
			if n > 0 {
				b.WriteByte(',')
			}
			t, _ := json.Marshal(j.keys[i])
			b.Write(t)
			b.WriteByte(':')
			j.vals[i].write(b, sortKeys)
		}
		b.WriteByte('}')
	}
}

var cdShortStr = []string{"", "a", "p", "tcp", "frp", "0.61.0", "example.com", "k", "yes", "true", "6000", "1700000000", "né", "quote\"\\", "null", "{}"}
var cdIntTexts = []string{"0", "-0", "1", "-1", "7", "6000", "65535", "65536", "1700000000", "-11", "2147483648", "9223372036854775807", "-9223372036854775808"}
var cdU16Texts = []string{"0", "1", "80", "443", "6000", "65535"}
var cdIPTexts = []string{"", "1.2.3.4", "127.0.0.1", "0.0.0.0", "255.255.255.255", "10.0.0.7"}

// address texts of both families, well-formed and not, built from pieces: hex groups with and without leading
// zeros / upper case, `::` at every position, embedded IPv4 tails, and the ways to get them wrong (too many / too
// few groups, a second `::`, five digits, stray colons, zones, octets with leading zeros or above 255).
// Which of them net.ParseIP (standard library, trusted) takes decides the pool a text goes to; the verdict on the
// frame is the model's.
var cdIPGood, cdIPBad []string

func init() {
	rng := rand.New(rand.NewSource(17))
	grp := func() string {
		return pick(rng, []string{"0", "0", "1", "db8", "2001", "ffff", "FFFF", "00a", "0000", "AbCd", "fe80", "c", "7f"})
	}
	v4 := func() string {
		return pick(rng, []string{"1.2.3.4", "127.0.0.1", "0.0.0.0", "255.255.255.255", "10.0.0.7", "192.168.1.254"})
	}
	seen := map[string]bool{}
	add := func(t string) {
		if seen[t] || len(t) > 60 {
			return
		}
		seen[t] = true
		if net.ParseIP(t) != nil {
			cdIPGood = append(cdIPGood, t)
		} else if t != "" {
			cdIPBad = append(cdIPBad, t)
		}
	}
	for _, t := range []string{"::", "::1", "1::", "::ffff:1.2.3.4", "::1.2.3.4", "64:ff9b::10.0.0.7", "0:0:0:0:0:ffff:102:304",
		"1:2:3:4:5:6:7:8", "1:2:3:4:5:6:1.2.3.4", "0:0:0:0:0:0:0:0", "1:0:0:2:0:0:0:3", "1:0:0:0:2:0:0:3", "0:0:1:0:0:1:0:0",
		"fe80::1%eth0", "::1%", "%eth0", ":::", ":", "1:", ":1", "1::2::3", "12345::", "1:2:3:4:5:6:7", "1:2:3:4:5:6:7:8:9",
		"1:2:3:4:5:6:7::", "::2:3:4:5:6:7:8", "1:2:3:4:5:6:7::8", "1.2.3", "1.2.3.4.5", "01.2.3.4", "1.2.3.256", "1..2.3", ".1.2.3",
		"1.2.3.4.", "1.2.3.4:80", "[::1]", "::g", "1:2:3:4:5:1.2.3.4", "::1.2.3", "::1.2.3.04", "1.2.3.4::", "::ffff:1.2.3.4:5",
		" 1.2.3.4", "1.2.3.4 ", "1.2.3.-4", "١.٢.٣.٤", "localhost", "not-an-ip", "1234", "zz"} {
		add(t)
	}
	for n := 0; n < 600; n++ {
		k := 1 + rng.Intn(9)
		var parts []string
		for i := 0; i < k; i++ {
			parts = append(parts, grp())
		}
		t := strings.Join(parts, ":")
		switch rng.Intn(8) {
		case 0, 1, 2: // one :: somewhere
			i := rng.Intn(k + 1)
			t = strings.Join(parts[:i], ":") + "::" + strings.Join(parts[i:], ":")
		case 3: // an IPv4 tail
			t += ":" + v4()
		case 4: // :: and an IPv4 tail
			i := rng.Intn(k + 1)
			t = strings.Join(parts[:i], ":") + "::" + strings.Join(parts[i:], ":")
			if !strings.HasSuffix(t, ":") {
				t += ":"
			}
			t += v4()
		case 5: // damaged: a character replaced / inserted / dropped
			b := []byte(t)
			i := rng.Intn(len(b))
			switch rng.Intn(3) {
			case 0:
				b[i] = pick(rng, []byte(":.%gG0f "))
			case 1:
				b = append(b[:i], append([]byte{pick(rng, []byte(":.%0f"))}, b[i:]...)...)
			default:
				b = append(b[:i], b[i+1:]...)
			}
			t = string(b)
		}
		add(t)
	}
}
var cdUnknownKeys = []string{"x", "extra", "unknown_field", "zz", "_", "v2", "time_stamp", "né", "ключ", "t\u0131mestamp", "vers\u0130on", "\u212a", "erro\u0280", "pr\u00efvilege_key"}

var cdIPType = reflect.TypeOf(net.IP{})

func cdJSONName(f reflect.StructField) string {
	tag := f.Tag.Get("json")
	if tag == "" {
		return f.Name
	}
	n := strings.Split(tag, ",")[0]
	if n == "" {
		return f.Name
	}
	return n
}

// any JSON value (for members no field claims)
func cdAny(rng *rand.Rand, depth int) *cdJ {
	switch rng.Intn(8) {
	case 0:
		return cdNull()
	case 1:
		return cdBool(rng.Intn(2) == 0)
	case 2:
		return cdNum(pick(rng, []string{"0", "1", "-5", "1.5", "1e3", "99999999999999999999"}))
	case 3:
		return cdStr(pick(rng, cdShortStr))
	case 4:
		if depth < 2 {
			return cdArr(cdAny(rng, depth+1), cdAny(rng, depth+1))
		}
		return cdArr()
	case 5:
		if depth < 2 {
			return cdObj().set("a", cdAny(rng, depth+1))
		}
		return cdObj()
	default:
		return cdStr("v")
	}
}

// a value of the right JSON type for the Go type
func cdValid(rng *rand.Rand, t reflect.Type, depth int) *cdJ {
	if rng.Intn(14) == 0 {
		return cdNull() // null into anything is a no-op
	}
	switch t.Kind() {
	case reflect.String:
		return cdStr(pick(rng, cdShortStr))
	case reflect.Bool:
		return cdBool(rng.Intn(2) == 0)
	case reflect.Int, reflect.Int64:
		return cdNum(pick(rng, cdIntTexts))
	case reflect.Uint16:
		return cdNum(pick(rng, cdU16Texts))
	case reflect.Map:
		o := cdObj()
		for _, k := range pickSome(rng, []string{"a", "b", "k1", "user", "x-y"}, rng.Intn(3)) {
			if rng.Intn(8) == 0 {
				o.set(k, cdNull())
			} else {
				o.set(k, cdStr(pick(rng, cdShortStr)))
			}
		}
		return o
	case reflect.Slice:
		if t == cdIPType {
			if rng.Intn(2) == 0 {
				return cdStr(pick(rng, cdIPGood))
			}
			return cdStr(pick(rng, cdIPTexts))
		}
		var l []*cdJ
		for i, n := 0, rng.Intn(3); i < n; i++ {
			if t.Elem().Kind() == reflect.String && rng.Intn(8) == 0 {
				l = append(l, cdNull())
			} else {
				l = append(l, cdValid(rng, t.Elem(), depth+1))
			}
		}
		return cdArr(l...)
	case reflect.Pointer:
		return cdValid(rng, t.Elem(), depth)
	case reflect.Struct:
		o := cdObj()
		for i := 0; i < t.NumField(); i++ {
			f := t.Field(i)
			if !f.IsExported() || rng.Intn(2) == 0 {
				continue
			}
			o.set(cdJSONName(f), cdValid(rng, f.Type, depth+1))
		}
		if rng.Intn(5) == 0 {
			o.set(pick(rng, cdUnknownKeys), cdAny(rng, 0))
		}
		return o
	}
	panic("codec disp generator: unsupported kind " + t.Kind().String())
}

func pickSome(rng *rand.Rand, xs []string, n int) []string {
	idx := rng.Perm(len(xs))
	if n > len(xs) {
		n = len(xs)
	}
	out := make([]string, 0, n)
	for _, i := range idx[:n] {
		out = append(out, xs[i])
	}
	sort.Strings(out)
	return out
}

// a value of a WRONG JSON type / out of range for the Go type: the field-level malformed class
func cdWrong(rng *rand.Rand, t reflect.Type) *cdJ {
	str := func() *cdJ { return cdStr(pick(rng, cdShortStr)) }
	num := func() *cdJ { return cdNum(pick(rng, []string{"0", "1", "6000", "-1"})) }
	obj := func() *cdJ {
		if rng.Intn(2) == 0 {
			return cdObj()
		}
		return cdObj().set("a", cdStr("b"))
	}
	arr := func() *cdJ {
		if rng.Intn(2) == 0 {
			return cdArr()
		}
		return cdArr(cdStr("a"))
	}
	boo := func() *cdJ { return cdBool(rng.Intn(2) == 0) }
	switch t.Kind() {
	case reflect.String:
		return pick(rng, []func() *cdJ{num, boo, obj, arr})()
	case reflect.Bool:
		return pick(rng, []func() *cdJ{num, str, obj, arr})()
	case reflect.Int, reflect.Int64:
		return pick(rng, []func() *cdJ{str, boo, obj, arr,
			func() *cdJ { return cdNum(pick(rng, []string{"9223372036854775808", "-9223372036854775809", "18446744073709551616", "1e30"})) },
			func() *cdJ { return cdNum(pick(rng, []string{"1.5", "1e3", "0.0", "6000.0", "1E400", "-2.5e-3"})) }})()
	case reflect.Uint16:
		return pick(rng, []func() *cdJ{str, boo, obj, arr,
			func() *cdJ { return cdNum(pick(rng, []string{"65536", "-1", "-0", "70000", "4294967296", "-65535"})) },
			func() *cdJ { return cdNum(pick(rng, []string{"1.5", "8e1", "80.0"})) }})()
	case reflect.Map:
		return pick(rng, []func() *cdJ{str, num, boo, arr,
			func() *cdJ { return cdObj().set("a", cdStr("ok")).set("b", pick(rng, []func() *cdJ{num, boo, obj, arr})()) }})()
	case reflect.Slice:
		if t == cdIPType {
			return pick(rng, []func() *cdJ{num, boo, obj, arr, func() *cdJ { return cdStr(pick(rng, cdIPBad)) }, func() *cdJ { return cdStr(pick(rng, cdIPBad)) }})()
		}
		if t.Elem().Kind() == reflect.String {
			return pick(rng, []func() *cdJ{str, num, boo, obj,
				func() *cdJ { return cdArr(cdStr("a"), pick(rng, []func() *cdJ{num, boo, obj, arr})()) }})()
		}
		// slice of structs
		return pick(rng, []func() *cdJ{str, num, boo, obj,
			func() *cdJ { return cdArr(pick(rng, []func() *cdJ{num, boo, str, arr})()) },
			func() *cdJ { return cdArr(cdWrongInside(rng, t.Elem())) }})()
	case reflect.Pointer:
		if rng.Intn(2) == 0 {
			return cdWrongInside(rng, t.Elem())
		}
		return pick(rng, []func() *cdJ{func() *cdJ { return cdStr("1.2.3.4:53") }, num, boo, arr})()
	case reflect.Struct:
		if rng.Intn(2) == 0 {
			return cdWrongInside(rng, t)
		}
		return pick(rng, []func() *cdJ{str, num, boo, arr})()
	}
	panic("codec disp generator: unsupported kind " + t.Kind().String())
}

func cdFlipCase(rng *rand.Rand, k string) string {
	b := []byte(k)
	switch rng.Intn(4) {
	case 3: // the two non-ASCII runes encoding/json folds onto ASCII letters: KELVIN SIGN ~ k, LONG S ~ s
		var idx []int
		for i, c := range b {
			if c == 'k' || c == 'K' || c == 's' || c == 'S' {
				idx = append(idx, i)
			}
		}
		if len(idx) == 0 {
			return strings.ToUpper(k)
		}
		i := pick(rng, idx)
		r := "\u212a"
		if b[i] == 's' || b[i] == 'S' {
			r = "\u017f"
		}
		return k[:i] + r + k[i+1:]
	case 0:
		return strings.ToUpper(k)
	case 1:
		if len(b) > 0 && b[0] >= 'a' && b[0] <= 'z' {
			b[0] -= 32
		}
		return string(b)
	default:
		i := rng.Intn(len(b))
		if b[i] >= 'a' && b[i] <= 'z' {
			b[i] -= 32
		} else if b[i] >= 'A' && b[i] <= 'Z' {
			b[i] += 32
		}
		return string(b)
	}
}

// an object for struct t in which exactly one member (possibly nested deeper) has a wrong-typed value;
// a struct without fields cannot be wrong inside: a wrong top-level type is returned for it
func cdWrongInside(rng *rand.Rand, t reflect.Type) *cdJ {
	var fs []reflect.StructField
	for i := 0; i < t.NumField(); i++ {
		if t.Field(i).IsExported() {
			fs = append(fs, t.Field(i))
		}
	}
	if len(fs) == 0 {
		return pick(rng, []*cdJ{cdArr(), cdStr("s"), cdNum("5"), cdBool(true)})
	}
	bad := fs[rng.Intn(len(fs))]
	o := cdObj()
	for _, f := range fs {
		if f.Name == bad.Name {
			k := cdJSONName(f)
			switch rng.Intn(8) {
			case 0: // the name in another case still selects the field
				o.set(cdFlipCase(rng, k), cdWrong(rng, f.Type))
			case 1: // duplicate member: right value first, wrong one second
				o.set(k, cdValid(rng, f.Type, 1)).set(k, cdWrong(rng, f.Type))
			case 2: // … or the wrong one first
				o.set(k, cdWrong(rng, f.Type)).set(k, cdValid(rng, f.Type, 1))
			default:
				o.set(k, cdWrong(rng, f.Type))
			}
		} else if rng.Intn(2) == 0 {
			o.set(cdJSONName(f), cdValid(rng, f.Type, 1))
		}
	}
	if rng.Intn(6) == 0 {
		o.set(pick(rng, cdUnknownKeys), cdAny(rng, 0))
	}
	return o
}

func cdText(rng *rand.Rand, j *cdJ) []byte {
	var b bytes.Buffer
	j.write(&b, rng.Intn(4) != 0) // mostly sorted member names (the value comparison of the driver needs them)
	return b.Bytes()
}

// a body the decoder must accept for type byte t
func cdGoodBody(rng *rand.Rand, t byte) []byte {
	switch rng.Intn(12) {
	case 0:
		return []byte("{}")
	case 1: // insignificant white space
		return []byte(" {\n\t\"unknown_field\" : [1, 2.5, {}] }\r\n")
	case 2: // a field name in another case carrying the right type
		ty := codecSample[t]
		for i := 0; i < ty.NumField(); i++ {
			if ty.Field(i).Type.Kind() == reflect.String {
				return cdText(rng, cdObj().set(cdFlipCase(rng, cdJSONName(ty.Field(i))), cdStr("v")))
			}
		}
		return []byte("{}")
	}
	b := cdText(rng, cdValid(rng, codecSample[t], 0))
	if string(b) == "null" {
		return []byte("{}")
	}
	return b
}

var cdTopLevelBad = []string{"null", " null ", "[]", "[{}]", "5", "-1.5", "\"s\"", "true", "false", "", " ", "{", "}", "{\"a\"}", "{\"a\":}",
	"{\"timestamp\":", "{} x", "{}{}", "{}]", "[1,]", "{\"a\":1,}", "nul", "{'a':1}", "\xff\xfe", "{\"a\":01}", "{\"a\":+1}", "\xef\xbb\xbf{}"}

// one piece that ReadMsg must reject (or, for "trunc", wait for), by class
func cdBadPiece(rng *rand.Rand) (piece []byte, class string) {
	t := pick(rng, codecTypes)
	switch k := rng.Intn(20); {
	case k < 10: // FIELD level: one wrong-typed / out-of-range member, per the struct's schema
		body := cdText(rng, cdWrongInside(rng, codecSample[t]))
		return mkFrame(t, uint64(len(body)), body), "field"
	case k < 13: // top level / syntax / trailing garbage inside the declared length
		body := []byte(pick(rng, cdTopLevelBad))
		return mkFrame(t, uint64(len(body)), body), "top"
	case k < 14:
		b := byte(rng.Intn(256))
		for {
			if _, ok := codecSample[b]; !ok {
				break
			}
			b = byte(rng.Intn(256))
		}
		return mkFrame(b, 2, []byte("{}")), "type"
	case k < 15:
		return mkFrame(t, 1<<63|uint64(rng.Int63()), codec_randBytes(rng, rng.Intn(6))), "neg"
	case k < 16:
		if rng.Intn(2) == 0 { // a declared length above the bound WITH the whole body supplied
			n := pick(rng, []int{10241, 10241, 10242, 11000, 16384, 20000})
			return mkFrame(t, uint64(n), cdBigBody(rng, t, n)), "max"
		}
		return mkFrame(t, pick(rng, []uint64{10241, 65536, 1 << 32, 1<<63 - 1}), []byte("{}")), "max"
	case k < 17: // declared length one short: the body loses its last byte, the stray byte starts the next frame
		body := cdGoodBody(rng, t)
		return mkFrame(t, uint64(len(body)-1), body), "short"
	case k < 18: // declared length too long: swallows the start of what follows
		body := cdGoodBody(rng, t)
		return mkFrame(t, uint64(len(body)+1+rng.Intn(12)), body), "long"
	default: // a valid frame cut off
		body := cdGoodBody(rng, t)
		f := mkFrame(t, uint64(len(body)), body)
		return f[:rng.Intn(len(f))], "trunc"
	}
}

func cdStream(rng *rand.Rand, goodTypes []byte, afterTypes []byte) (pre, post []byte) {
	for i, n := 0, rng.Intn(4); i < n; i++ {
		t := pick(rng, goodTypes)
		body := cdGoodBody(rng, t)
		pre = append(pre, mkFrame(t, uint64(len(body)), body)...)
	}
	if rng.Intn(8) != 0 {
		p, _ := cdBadPiece(rng)
		post = append(post, p...)
	}
	for i, n := 0, rng.Intn(3); i < n; i++ {
		t := pick(rng, afterTypes)
		body := cdGoodBody(rng, t)
		post = append(post, mkFrame(t, uint64(len(body)), body)...)
	}
	return
}

func cdGenDisp(rng *rand.Rand) string {
	pre, post := cdStream(rng, codecTypes, codecTypes)
	stream := append(pre, post...)
	var hs []string
	for i, n := 0, rng.Intn(5); i < n; i++ {
		t := pick(rng, codecTypes)
		if rng.Intn(2) == 0 && len(stream) > 0 { // prefer types that occur in the stream
			t2 := stream[0]
			if _, ok := codecSample[t2]; ok {
				t = t2
			}
		}
		hs = append(hs, fmt.Sprintf("%d:%d", t, i+1))
	}
	hp := "H"
	if rng.Intn(6) == 0 { // all handlers wrapped in msg.AsyncHandler
		hp = "A"
	}
	h := hp + "-"
	if len(hs) > 0 {
		h = hp + strings.Join(hs, ",")
	}
	d := "-"
	if rng.Intn(2) == 0 {
		d = "0"
	}
	return fmt.Sprintf("disp %s %s %d %s %d %s", h, d, pick(rng, []int{0, 0, 1, 3, 7, 64}), pick(rng, []string{"close", "close", "stay"}),
		pick(rng, []int{0, 0, 1, 3}), hxb(stream))
}

// what the well-formed part of a sess stream is made of: Ping (→ Pong), NewProxy (→ exactly one NewProxyResp,
// whatever the proxy layer makes of the generated configuration), CloseProxy and NatHoleReport (handled, no reply),
// and the types a frps control connection ignores (no handler, no default handler)
var cdSessQuiet = []byte{'h', 'h', 'h', 'h', 'h', 'h', 'p', 'p', 'p', 'c', '6', '4', 'r', 's', '1', '2', '3', 'u', 'o', 'w', 'v', 'm', '5'}

func cdGenSess(rng *rand.Rand) string {
	pre, post := cdStream(rng, cdSessQuiet, []byte{'h'})
	if len(post) == 0 || rng.Intn(10) != 0 { // nearly always a rejected piece: the server then closes at once
		for {
			p, class := cdBadPiece(rng)
			if class == "trunc" || class == "long" {
				continue
			}
			post = append(p, mkFrame('h', 2, []byte("{}"))...)
			break
		}
	}
	return fmt.Sprintf("sess %s %s", hxb(pre), hxb(post))
}
