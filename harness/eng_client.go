package main

import (
	"context"
	"fmt"
	"math/rand"
	"net"
	"reflect"
	"runtime"
	"sort"
	"strconv"
	"strings"
	"sync"
	"time"

	"github.com/fatedier/frp/client/proxy"
	"github.com/fatedier/frp/client/visitor"
	v1 "github.com/fatedier/frp/pkg/config/v1"
	"github.com/fatedier/frp/pkg/msg"
)

// Engine "client": the real client proxy.Manager with its real Wrappers (worker goroutines,
// event handler, capturing MessageTransporter) and the real visitor.Manager.
//
// The wrapper worker is driven one loop iteration at a time: statusCheckInterval is set to 1h
// (verif setter) and an iteration is triggered through the health-notify channel (VerifKick /
// the health callbacks).  After each op the harness waits until every `(*Wrapper).checkWorker`
// goroutine is parked in its select (runtime.Stack) before it collects the captured messages.
// Time is virtual (ms, carried in the op); before an iteration the harness sets
// waitResponseTimeout / startErrTimeout to +1h or -1h according to whether the virtual deadline
// (last captured NewProxy + 20000, last start error + 30000) has passed.
//
//	reset
//	consts                              => <statusCheckInterval> <waitResponseTimeout> <startErrTimeout> (ms, the compiled-in values)
//	upd <now> <dup> <name:variant:h:r>* => sorted events  C<name> (CloseProxy) / N<name> (NewProxy), or -
//	                                       (the list is written as a configuration file that spells out only what the
//	                                       variants set and read back through the real loader: eng_c19_load.go, loadCfgs)
//	tick <name> <now>                   => none | events
//	resp <name> <now> ok|err            => notfound | <ok|notwait|resperr|runerr>;<events>
//	hup|hdown <name> <now>              => none | nohealth | events     (monitor callback + the wake-up it causes)
//	work <name>                         => handed | closed
//	status                              => name:phase:variant:id,…   (variant = cfgMutated if the stored configuration object
//	                                       no longer equals a second load of the text it came from)
//	close                               => events                        (Manager.Close)
//	oresp <k> <now> ok|err | ohup <k> | ohdown <k> | owork <k> | ostat <k>   ops on the k-th stopped wrapper
//	vupd <name:variant:f>*              => cfg=name:variant,…;run=name,…  (visitor.Manager.UpdateAll)
//	live | livebackoff                  => real-time end-to-end scenarios (see code)
//	race N|C[<name>] <op A> / <op B>    => w=<name>:<N|C[*]>…,…;ra=<res A>;rb=<res B>;a=<phase of the holder's wrapper|->;st=<status>
//	                                       (see clientRace: op A is started alone with a gate in the transporter that
//	                                       holds the first NewProxy (N) / CloseProxy (C) just before it goes on the
//	                                       wire; op B is started on another goroutine while the message is held)
//	wake SW|WS <tick|hup|hdown> <name> <now> / <upd …|close>   (eng_client_wake.go: the worker's wake-up and its locked
//	                                       section as separate steps, Stop() in between)
type capTransporter struct {
	mu sync.Mutex
	ev []string
	// what a NewProxy for a name must carry: the message marshalled from the configuration the last
	// reload gave for that name ([0]) — during overlapping operations also the one before ([1]).
	// A NewProxy with any other content is recorded as X<name>.
	expect  map[string][]*msg.NewProxy
	relaxed bool
	// gate (op race): the first message of kind gateKind is held in Send until release is closed
	armed    bool
	gateKind string
	parked   bool
	held     string
	release  chan struct{}
}

func (t *capTransporter) Send(m msg.Message) error {
	ev := "?"
	switch x := m.(type) {
	case *msg.NewProxy:
		ev = "N" + strings.TrimPrefix(x.ProxyName, "p")
		if !t.carriesConfigured(x) {
			ev = "X" + strings.TrimPrefix(x.ProxyName, "p")
		}
	case *msg.CloseProxy:
		ev = "C" + strings.TrimPrefix(x.ProxyName, "p")
	}
	t.mu.Lock()
	if t.armed && (ev == t.gateKind || (len(t.gateKind) == 1 && strings.HasPrefix(ev, t.gateKind))) {
		t.armed, t.parked, t.held = false, true, ev
		rel := t.release
		t.mu.Unlock()
		<-rel // the message is not on the wire yet
		t.mu.Lock()
		t.ev = append(t.ev, ev+"*")
		t.mu.Unlock()
		return nil
	}
	t.ev = append(t.ev, ev)
	t.mu.Unlock()
	return nil
}

func (t *capTransporter) carriesConfigured(x *msg.NewProxy) bool {
	t.mu.Lock()
	defer t.mu.Unlock()
	exp, ok := t.expect[x.ProxyName]
	if !ok {
		return true
	}
	for i, e := range exp {
		if (i == 0 || t.relaxed) && reflect.DeepEqual(e, x) {
			return true
		}
	}
	return false
}

// configured records what the reload that is about to run configures under each name (last entry wins)
func (t *capTransporter) configured(tokens []string) {
	t.mu.Lock()
	defer t.mu.Unlock()
	if t.expect == nil {
		t.expect = map[string][]*msg.NewProxy{}
	}
	done := map[string]bool{}
	for i := len(tokens) - 1; i >= 0; i-- {
		f := strings.Split(tokens[i], ":")
		name := "p" + f[0]
		if done[name] {
			continue
		}
		done[name] = true
		m := &msg.NewProxy{}
		buildProxy(name, atoi(f[1])).MarshalToMsg(m) // a fresh object, not the one the manager gets
		old := t.expect[name]
		if len(old) > 0 && reflect.DeepEqual(old[0], m) {
			continue
		}
		if len(old) > 1 {
			old = old[:1]
		}
		t.expect[name] = append([]*msg.NewProxy{m}, old...)
	}
}

func (t *capTransporter) setRelaxed(b bool) {
	t.mu.Lock()
	defer t.mu.Unlock()
	t.relaxed = b
}

func (t *capTransporter) arm(kind string) {
	t.mu.Lock()
	defer t.mu.Unlock()
	t.armed, t.gateKind, t.parked, t.held, t.release = true, kind, false, "", make(chan struct{})
}

// disarm switches the gate off and lets a held message go.
func (t *capTransporter) disarm() {
	t.mu.Lock()
	defer t.mu.Unlock()
	t.armed = false
	if t.release != nil {
		close(t.release)
		t.release = nil
	}
}

func (t *capTransporter) gateState() (parked bool, held string, n int) {
	t.mu.Lock()
	defer t.mu.Unlock()
	return t.parked, t.held, len(t.ev)
}
func (t *capTransporter) Do(ctx context.Context, req msg.Message, laneKey, recvMsgType string) (msg.Message, error) {
	return nil, fmt.Errorf("not connected")
}
func (t *capTransporter) Dispatch(m msg.Message, laneKey string) bool { return false }
func (t *capTransporter) DispatchWithType(m msg.Message, msgType, laneKey string) bool {
	return false
}
func (t *capTransporter) take() []string {
	t.mu.Lock()
	defer t.mu.Unlock()
	e := t.ev
	t.ev = nil
	return e
}

type cfgInfo struct {
	variant, epoch int
}

type stoppedW struct {
	pw *proxy.Wrapper
}

type clientState struct {
	cancel   context.CancelFunc
	tr       *capTransporter
	pm       *proxy.Manager
	vm       *visitor.Manager
	epoch    int
	info     map[v1.ProxyConfigurer]cfgInfo
	pristine map[v1.ProxyConfigurer]v1.ProxyConfigurer // the same text loaded a second time (never given to frp)
	loader   c19Loader
	loadMu   sync.Mutex
	vinfo    map[v1.VisitorConfigurer]int
	lastSend map[*proxy.Wrapper]int64
	lastErr  map[*proxy.Wrapper]int64
	stopped  []*proxy.Wrapper
	handed   chan struct{}
	busyLn   net.Listener
	names    map[string]bool // every proxy name ever configured (for lock-free-of-wrapper snapshots)
	// op wake: the reload on the other goroutine must not touch the deadline flags set for the woken worker
	keepTimings bool
}

var cst *clientState
var (
	origCheck, origWait, origStartErr time.Duration
	origTaken                         bool
)

const hour = time.Hour

func clientReset() {
	if !origTaken {
		origCheck, origWait, origStartErr = proxy.VerifTimings()
		origTaken = true
	}
	if cst != nil {
		cst.tr.disarm()
		cst.pm.Close()
		cst.vm.Close()
		cst.cancel()
		if cst.busyLn != nil {
			cst.busyLn.Close()
		}
		cst.loader.close()
		settle()
	}
	proxy.VerifSetTimings(hour, hour, hour)
	ctx, cancel := context.WithCancel(context.Background())
	tr := &capTransporter{}
	common := &v1.ClientCommonConfig{}
	common.Complete()
	s := &clientState{cancel: cancel, tr: tr,
		info: map[v1.ProxyConfigurer]cfgInfo{}, vinfo: map[v1.VisitorConfigurer]int{},
		pristine: map[v1.ProxyConfigurer]v1.ProxyConfigurer{},
		lastSend: map[*proxy.Wrapper]int64{}, lastErr: map[*proxy.Wrapper]int64{},
		handed: make(chan struct{}, 16), names: map[string]bool{}}
	s.pm = proxy.NewManager(ctx, common, tr, nil)
	s.pm.SetInWorkConnCallback(func(*v1.ProxyBaseConfig, net.Conn, *msg.StartWorkConn) bool {
		s.handed <- struct{}{}
		return false
	})
	s.vm = visitor.NewManager(ctx, "run", common, func() (net.Conn, error) { return nil, fmt.Errorf("no server") }, tr, nil)
	cst = s
}

// settle waits until every wrapper worker goroutine is parked in its select: exactly one parked
// worker per wrapper in the manager, no worker in any other state (a worker goroutine that has
// not been scheduled yet does not show a checkWorker frame, hence the count).
func settle() bool {
	want := 0
	if cst != nil && cst.pm != nil {
		want = len(cst.pm.GetAllProxyStatus())
	}
	buf := make([]byte, 1<<20)
	deadline := time.Now().Add(5 * time.Second)
	for {
		n := runtime.Stack(buf, true)
		for n == len(buf) {
			buf = make([]byte, 2*len(buf))
			n = runtime.Stack(buf, true)
		}
		busy, parked := false, 0
		for _, g := range strings.Split(string(buf[:n]), "\n\n") {
			if !strings.Contains(g, "proxy.(*Wrapper).checkWorker(") {
				continue
			}
			// header: goroutine 12 [select]:   or [select, 2 minutes]:
			i, j := strings.Index(g, "["), strings.Index(g, "]")
			if i < 0 || j < i || !strings.HasPrefix(g[i+1:j], "select") {
				busy = true
				break
			}
			parked++
		}
		if !busy && parked == want {
			return true
		}
		if time.Now().After(deadline) {
			return false
		}
		time.Sleep(50 * time.Microsecond)
	}
}

func evString(ev []string, ok bool) string {
	sort.Strings(ev)
	s := strings.Join(ev, ",")
	if s == "" {
		s = "-"
	}
	if !ok {
		s += "!UNSETTLED"
	}
	return s
}

const nVariants = 19

func variantFlags(v int) (h, r bool) {
	if v >= cfvBase {
		return cfvFlags(v - cfvBase)
	}
	switch v {
	case 10, 11, 12, 17, 18:
		return true, false
	case 13:
		return false, true
	case 14:
		return true, true
	}
	return false, false
}

// buildProxy: variants 0..18 are hand-picked configurations, variants >= cfvBase are field vectors
// (eng_client_fields.go), Complete()d as the loader does with every entry of a configuration file
// (defaults such as transport.bandwidthLimitMode = "client" are filled in).  It is the REFERENCE image
// (expected NewProxy contents); what the manager gets is loaded from text (loadCfgs).
func buildProxy(name string, v int) v1.ProxyConfigurer {
	c := buildProxyRaw(name, v)
	c.Complete("")
	return c
}

// buildProxyRaw: the entry as it stands in a configuration file (nothing defaulted)
func buildProxyRaw(name string, v int) v1.ProxyConfigurer {
	if v >= cfvBase {
		return cfvBuildRaw(name, v-cfvBase)
	}
	return buildProxyLegacy(name, v)
}

func buildProxyLegacy(name string, v int) v1.ProxyConfigurer {
	base := func(t string) v1.ProxyBaseConfig {
		b := v1.ProxyBaseConfig{Name: name, Type: t}
		b.LocalPort = 80 // (localIP is left to Complete())
		return b
	}
	hc := func(b *v1.ProxyBaseConfig, t string, max int) {
		b.LocalPort = 1 // nothing listens there: the real monitor only ever sees refused probes
		b.HealthCheck = v1.HealthCheckConfig{Type: t, IntervalSeconds: 1, TimeoutSeconds: 1, MaxFailed: max}
		if t == "http" {
			b.HealthCheck.Path = "/h"
		}
	}
	bogus := func(b *v1.ProxyBaseConfig) { b.Plugin = cfvFailingPlugin() }
	switch v {
	case 0:
		return &v1.TCPProxyConfig{ProxyBaseConfig: base("tcp"), RemotePort: 6000}
	case 1:
		return &v1.TCPProxyConfig{ProxyBaseConfig: base("tcp"), RemotePort: 6001}
	case 2:
		c := &v1.TCPProxyConfig{ProxyBaseConfig: base("tcp"), RemotePort: 6000}
		c.Transport.UseEncryption = true
		return c
	case 3:
		c := &v1.TCPProxyConfig{ProxyBaseConfig: base("tcp"), RemotePort: 6000}
		c.Metadatas = map[string]string{"k": "v"}
		return c
	case 4:
		c := &v1.TCPProxyConfig{ProxyBaseConfig: base("tcp"), RemotePort: 6000}
		c.Annotations = map[string]string{"a": "b"}
		return c
	case 5:
		c := &v1.TCPProxyConfig{ProxyBaseConfig: base("tcp"), RemotePort: 6000}
		c.LocalPort = 81
		return c
	case 6:
		c := &v1.HTTPProxyConfig{ProxyBaseConfig: base("http")}
		c.CustomDomains = []string{"a.example.com"}
		return c
	case 7:
		c := &v1.HTTPProxyConfig{ProxyBaseConfig: base("http")}
		c.CustomDomains = []string{"a.example.com", "b.example.com"}
		return c
	case 8:
		return &v1.STCPProxyConfig{ProxyBaseConfig: base("stcp"), Secretkey: "k", AllowUsers: []string{"u"}}
	case 9:
		// (udp has its own InWorkConn without the callback the harness observes hand-over with)
		c := &v1.HTTPSProxyConfig{ProxyBaseConfig: base("https")}
		c.CustomDomains = []string{"a.example.com"}
		return c
	case 10:
		c := &v1.TCPProxyConfig{ProxyBaseConfig: base("tcp"), RemotePort: 6000}
		hc(&c.ProxyBaseConfig, "tcp", 1)
		return c
	case 11:
		c := &v1.TCPProxyConfig{ProxyBaseConfig: base("tcp"), RemotePort: 6000}
		hc(&c.ProxyBaseConfig, "tcp", 3)
		return c
	case 12:
		c := &v1.TCPProxyConfig{ProxyBaseConfig: base("tcp"), RemotePort: 6001}
		hc(&c.ProxyBaseConfig, "http", 2)
		return c
	case 13:
		c := &v1.TCPProxyConfig{ProxyBaseConfig: base("tcp"), RemotePort: 6000}
		bogus(&c.ProxyBaseConfig)
		return c
	case 14:
		c := &v1.TCPProxyConfig{ProxyBaseConfig: base("tcp"), RemotePort: 6000}
		hc(&c.ProxyBaseConfig, "tcp", 1)
		bogus(&c.ProxyBaseConfig)
		return c
	case 15:
		c := &v1.TCPProxyConfig{ProxyBaseConfig: base("tcp"), RemotePort: 6000}
		c.Transport.UseCompression = true
		return c
	case 16:
		// health check configured but no local port: NewWrapper creates no monitor
		c := &v1.TCPProxyConfig{ProxyBaseConfig: base("tcp"), RemotePort: 6000}
		c.LocalPort = 0
		c.HealthCheck = v1.HealthCheckConfig{Type: "tcp", IntervalSeconds: 1}
		return c
	case 17:
		// health check with nothing but its type: interval, timeout and maxFailed are the monitor's defaults
		c := &v1.TCPProxyConfig{ProxyBaseConfig: base("tcp"), RemotePort: 6000}
		c.LocalPort = 1
		c.HealthCheck = v1.HealthCheckConfig{Type: "tcp"}
		return c
	case 18:
		c := &v1.TCPProxyConfig{ProxyBaseConfig: base("tcp"), RemotePort: 6001}
		c.LocalPort = 1
		c.HealthCheck = v1.HealthCheckConfig{Type: "http", Path: "/h", IntervalSeconds: 1,
			HTTPHeaders: []v1.HTTPHeader{{Name: "X-H", Value: "1"}}}
		return c
	}
	panic("variant")
}

func (s *clientState) busyPort() int {
	if s.busyLn == nil {
		ln, err := net.Listen("tcp", "127.0.0.1:0")
		if err != nil {
			panic(err)
		}
		s.busyLn = ln
	}
	return s.busyLn.Addr().(*net.TCPAddr).Port
}

func (s *clientState) buildVisitor(name string, v int) v1.VisitorConfigurer {
	b := v1.VisitorBaseConfig{Name: name, Type: "stcp", ServerName: "s1", SecretKey: "k", BindAddr: "127.0.0.1", BindPort: -1}
	switch v {
	case 0:
	case 1:
		b.ServerName = "s2"
	case 2:
		b.SecretKey = "k2"
	case 3:
		b.Transport.UseEncryption = true
	case 4: // cannot start: port taken
		b.BindPort = s.busyPort()
	default:
		panic("vvariant")
	}
	return &v1.STCPVisitorConfig{VisitorBaseConfig: b}
}

func phaseTok(p string) string {
	switch p {
	case proxy.ProxyPhaseNew:
		return "new"
	case proxy.ProxyPhaseWaitStart:
		return "wait"
	case proxy.ProxyPhaseStartErr:
		return "err"
	case proxy.ProxyPhaseRunning:
		return "run"
	case proxy.ProxyPhaseCheckFailed:
		return "chk"
	case proxy.ProxyPhaseClosed:
		return "closed"
	}
	return "?" + p
}

// setFlags makes the worker's two deadline tests come out as the virtual clock says.
func (s *clientState) setFlags(pw *proxy.Wrapper, now int64) {
	w, e := hour, hour
	if now > s.lastSend[pw]+origWait.Milliseconds() {
		w = -hour
	}
	if now > s.lastErr[pw]+origStartErr.Milliseconds() {
		e = -hour
	}
	proxy.VerifSetTimings(hour, w, e)
}

func (s *clientState) noteEvents(ev []string, now int64) {
	for _, e := range ev {
		if strings.HasPrefix(e, "N") {
			if pw, ok := s.pm.VerifWrapper("p" + e[1:]); ok {
				s.lastSend[pw] = now
			}
		}
	}
}

type sigConn struct {
	net.Conn
	closed chan struct{}
	once   sync.Once
}

func (c *sigConn) Close() error {
	c.once.Do(func() { close(c.closed) })
	return c.Conn.Close()
}

func (s *clientState) workConn(deliver func(net.Conn, *msg.StartWorkConn)) string {
	a, b := net.Pipe()
	defer b.Close()
	c := &sigConn{Conn: a, closed: make(chan struct{})}
	for len(s.handed) > 0 {
		<-s.handed
	}
	deliver(c, &msg.StartWorkConn{})
	select {
	case <-s.handed:
		a.Close()
		return "handed"
	case <-c.closed:
		return "closed"
	case <-time.After(3 * time.Second):
		return "lost"
	}
}

func respClass(err error) string {
	switch {
	case err == nil:
		return "ok"
	case strings.Contains(err.Error(), "not found"):
		return "notfound"
	case strings.Contains(err.Error(), "status not wait start"):
		return "notwait"
	case err.Error() == "E":
		return "resperr"
	default:
		return "runerr"
	}
}

func clientExec(tok []string) string {
	if cst == nil {
		clientReset()
	}
	s := cst
	switch tok[0] {
	case "reset":
		clientReset()
		return "-"
	case "consts":
		return fmt.Sprintf("%d %d %d", origCheck.Milliseconds(), origWait.Milliseconds(), origStartErr.Milliseconds())
	case "upd":
		now := int64(atoi(tok[1]))
		cfgs, err := s.loadCfgs(tok[3:])
		if err != nil {
			return "loaderr;" + hx(err.Error())
		}
		before := map[*proxy.Wrapper]bool{}
		for _, st := range s.pm.GetAllProxyStatus() {
			if pw, ok := s.pm.VerifWrapper(st.Name); ok {
				before[pw] = true
			}
		}
		proxy.VerifSetTimings(hour, hour, hour)
		s.tr.take()
		s.tr.configured(tok[3:])
		s.pm.UpdateAll(cfgs)
		ok := settle()
		for _, st := range s.pm.GetAllProxyStatus() {
			if pw, ok := s.pm.VerifWrapper(st.Name); ok {
				delete(before, pw)
			}
		}
		var gone []*proxy.Wrapper
		for pw := range before {
			gone = append(gone, pw)
		}
		sort.Slice(gone, func(i, j int) bool { return gone[i].Name < gone[j].Name })
		s.stopped = append(s.stopped, gone...)
		ev := s.tr.take()
		s.noteEvents(ev, now)
		return evString(ev, ok)
	case "tick", "hup", "hdown":
		now := int64(atoi(tok[2]))
		pw, ok := s.pm.VerifWrapper("p" + tok[1])
		if !ok {
			return "none"
		}
		if tok[0] != "tick" && !pw.VerifHasMonitor() {
			return "nohealth"
		}
		s.setFlags(pw, now)
		s.tr.take()
		switch tok[0] {
		case "tick":
			if !pw.VerifKick() {
				return "stopped"
			}
		case "hup":
			pw.VerifHealth(true)
		case "hdown":
			pw.VerifHealth(false)
		}
		st := settle()
		ev := s.tr.take()
		s.noteEvents(ev, now)
		return evString(ev, st)
	case "resp":
		now := int64(atoi(tok[2]))
		pw, found := s.pm.VerifWrapper("p" + tok[1])
		s.tr.take()
		e := ""
		if tok[3] == "err" {
			e = "E"
		}
		err := s.pm.StartProxy("p"+tok[1], "remote:1", e)
		cl := respClass(err)
		if cl == "notfound" {
			return cl
		}
		if found && (cl == "resperr" || cl == "runerr") {
			s.lastErr[pw] = now
		}
		st := settle()
		return cl + ";" + evString(s.tr.take(), st)
	case "work":
		return s.workConn(func(c net.Conn, m *msg.StartWorkConn) {
			m.ProxyName = "p" + tok[1]
			s.pm.HandleWorkConn("p"+tok[1], c, m)
		})
	case "status":
		return s.statusStr()
	case "race":
		sep := -1
		for i, t := range tok {
			if t == "/" {
				sep = i
			}
		}
		if len(tok) < 5 || sep < 3 || sep == len(tok)-1 || (tok[1][:1] != "N" && tok[1][:1] != "C") {
			return "badop"
		}
		return s.race(tok[1], tok[2:sep], tok[sep+1:])
	case "wake":
		sep := -1
		for i, t := range tok {
			if t == "/" {
				sep = i
			}
		}
		if len(tok) < 7 || sep != 5 {
			return "badop"
		}
		return s.wake(tok[1], tok[2:sep], tok[sep+1:])
	case "close":
		var all []*proxy.Wrapper
		for _, st := range s.pm.GetAllProxyStatus() {
			if pw, ok := s.pm.VerifWrapper(st.Name); ok {
				all = append(all, pw)
			}
		}
		sort.Slice(all, func(i, j int) bool { return all[i].Name < all[j].Name })
		s.tr.take()
		s.pm.Close()
		ok := settle()
		s.stopped = append(s.stopped, all...)
		return evString(s.tr.take(), ok)
	case "oresp", "ohup", "ohdown", "owork", "ostat":
		k := atoi(tok[1])
		if k >= len(s.stopped) {
			return "nok"
		}
		pw := s.stopped[k]
		s.tr.take()
		switch tok[0] {
		case "oresp":
			e := ""
			if tok[3] == "err" {
				e = "E"
			}
			proxy.VerifSetTimings(hour, -hour, -hour)
			cl := respClass(pw.SetRunningStatus("remote:1", e))
			st := settle()
			return cl + ";" + evString(s.tr.take(), st)
		case "ohup", "ohdown":
			proxy.VerifSetTimings(hour, -hour, -hour)
			pw.VerifHealth(tok[0] == "ohup")
			kicked := pw.VerifKick()
			st := settle()
			return fmt.Sprintf("kick=%t;%s", kicked, evString(s.tr.take(), st))
		case "owork":
			return s.workConn(func(c net.Conn, m *msg.StartWorkConn) { pw.InWorkConn(c, m) })
		case "ostat":
			return phaseTok(pw.GetStatus().Phase)
		}
	case "vupd":
		var cfgs []v1.VisitorConfigurer
		for _, t := range tok[1:] {
			f := strings.Split(t, ":")
			c := s.buildVisitor("v"+f[0], atoi(f[1]))
			s.vinfo[c] = atoi(f[1])
			cfgs = append(cfgs, c)
		}
		s.vm.UpdateAll(cfgs)
		names, run := s.vm.VerifDump()
		var cs []string
		for _, n := range names {
			c, _ := s.vm.VerifCfg(n)
			cs = append(cs, fmt.Sprintf("%s:%d", strings.TrimPrefix(n, "v"), s.vinfo[c.(v1.VisitorConfigurer)]))
		}
		for i := range run {
			run[i] = strings.TrimPrefix(run[i], "v")
		}
		return "cfg=" + strings.Join(cs, ",") + ";run=" + strings.Join(run, ",")
	case "live":
		return clientLive()
	case "livebackoff":
		return clientLiveBackoff()
	}
	return "badop"
}

// loadCfgs: what a reload hands to the manager — the entries written as a configuration file (only the
// values the tokens set) and read through config.LoadClientConfig + validation, freshly allocated
func (s *clientState) loadCfgs(tokens []string) ([]v1.ProxyConfigurer, error) {
	s.loadMu.Lock()
	defer s.loadMu.Unlock()
	s.epoch++
	var ents []map[string]any
	for _, t := range tokens {
		f := strings.Split(t, ":")
		ents = append(ents, c19Entry(buildProxyRaw("p"+f[0], atoi(f[1]))))
		s.names["p"+f[0]] = true
	}
	ld, err := s.loader.load(ents, nil)
	if err != nil {
		return nil, err
	}
	for i, t := range tokens {
		s.info[ld.proxies[i]] = cfgInfo{atoi(strings.Split(t, ":")[1]), s.epoch}
		s.pristine[ld.proxies[i]] = ld.pristineP[i]
	}
	return ld.proxies, nil
}

// variant reported for a wrapper: the one its configuration object was loaded from — cfgMutated if
// the object no longer equals what the loader produced from that text (something wrote into it)
const cfgMutated = 999999999

func (s *clientState) statusStr() string {
	var out []string
	for _, st := range s.pm.GetAllProxyStatus() {
		s.loadMu.Lock()
		inf, ok := s.info[st.Cfg]
		pr := s.pristine[st.Cfg]
		s.loadMu.Unlock()
		if !ok {
			inf = cfgInfo{-1, -1}
		} else if pr != nil && !c19Intact(st.Cfg, pr) {
			inf.variant = cfgMutated
		}
		out = append(out, fmt.Sprintf("%s:%s:%d:%d", strings.TrimPrefix(st.Name, "p"), phaseTok(st.Phase), inf.variant, inf.epoch))
	}
	sort.Strings(out)
	if len(out) == 0 {
		return "-"
	}
	return strings.Join(out, ",")
}

// waitEvent polls the transporter for an event with the given text.
func waitEvent(tr *capTransporter, want string, d time.Duration) bool {
	deadline := time.Now().Add(d)
	for time.Now().Before(deadline) {
		for _, e := range tr.take() {
			if e == want {
				return true
			}
		}
		time.Sleep(2 * time.Millisecond)
	}
	return false
}

// clientLive: real manager + real wrapper + REAL health monitor against a real listener, real time
// (interval 1 s): open backend ⇒ NewProxy; the same text loaded again while everything runs ⇒ nothing;
// backend down ⇒ CloseProxy (maxFailed defaulted to 1); up again ⇒ NewProxy.
func clientLive() string {
	clientReset()
	s := cst
	ln, err := net.Listen("tcp", "127.0.0.1:0")
	if err != nil {
		return "listen-failed"
	}
	port := ln.Addr().(*net.TCPAddr).Port
	accept := func(l net.Listener) {
		for {
			c, err := l.Accept()
			if err != nil {
				return
			}
			c.Close()
		}
	}
	go accept(ln)
	// the entry as text: localIP, the health check's timeout and maxFailed are left to their defaults
	raw := &v1.TCPProxyConfig{ProxyBaseConfig: v1.ProxyBaseConfig{Name: "p0", Type: "tcp"}, RemotePort: 6000}
	raw.LocalPort = port
	raw.HealthCheck = v1.HealthCheckConfig{Type: "tcp", IntervalSeconds: 1}
	load := func() []v1.ProxyConfigurer {
		ld, err := s.loader.load([]map[string]any{c19Entry(raw)}, nil)
		if err != nil {
			return nil
		}
		return ld.proxies
	}
	var out []string
	s.pm.UpdateAll(load())
	out = append(out, fmt.Sprintf("N=%t", waitEvent(s.tr, "N0", 4*time.Second)))
	out = append(out, respClass(s.pm.StartProxy("p0", "r", "")))
	// wrapper, monitor and proxy have been created and are running: the same text is loaded again
	pw0, _ := s.pm.VerifWrapper("p0")
	s.tr.take()
	s.pm.UpdateAll(load())
	pw1, _ := s.pm.VerifWrapper("p0")
	if ev := s.tr.take(); len(ev) == 0 && pw0 == pw1 && pw1 != nil {
		out = append(out, "R=same")
	} else {
		out = append(out, fmt.Sprintf("R=%s/restarted=%t", strings.Join(ev, "+"), pw0 != pw1))
	}
	ln.Close()
	out = append(out, fmt.Sprintf("C=%t", waitEvent(s.tr, "C0", 4*time.Second)))
	st, _ := s.pm.GetProxyStatus("p0")
	out = append(out, phaseTok(st.Phase))
	ln2, err := net.Listen("tcp", "127.0.0.1:"+strconv.Itoa(port))
	if err != nil {
		return strings.Join(out, ",") + ",relisten-failed"
	}
	go accept(ln2)
	out = append(out, fmt.Sprintf("N=%t", waitEvent(s.tr, "N0", 4*time.Second)))
	ln2.Close()
	clientReset()
	return strings.Join(out, ",")
}

// clientLiveBackoff: real time, startErrTimeout = 300 ms, statusCheckInterval = 10 ms:
// after a start error the wrapper must not re-register before the back-off and must after it.
func clientLiveBackoff() string {
	clientReset()
	s := cst
	proxy.VerifSetTimings(10*time.Millisecond, hour, 300*time.Millisecond)
	s.pm.UpdateAll([]v1.ProxyConfigurer{buildProxy("p0", 0)})
	if !waitEvent(s.tr, "N0", 3*time.Second) {
		return "no-first-N"
	}
	t0 := time.Now()
	cl := respClass(s.pm.StartProxy("p0", "", "E"))
	res := "never"
	for time.Since(t0) < 5*time.Second {
		got := false
		for _, e := range s.tr.take() {
			if e == "N0" {
				got = true
			}
		}
		if got {
			if time.Since(t0) < 300*time.Millisecond {
				res = "early"
			} else {
				res = "after"
			}
			break
		}
		time.Sleep(time.Millisecond)
	}
	clientReset()
	return cl + ",retry=" + res
}

// ---------------------------------------------------------------- generator

func clientGen(rng *rand.Rand, n int, emit func(string)) {
	emit("reset")
	emit("consts")
	now := 0
	steps := []int{0, 1, 1, 1000, 1000, 3000, 3000, 3000, 19999, 20000, 20001, 29999, 30000, 30001, 60000}
	adv := func() int { now += pick(rng, steps); return now }
	type ent struct{ name, variant int }
	var cur []ent
	// configurations: hand-picked variants and field vectors (eng_client_fields.go)
	randVariant := func() int {
		if rng.Intn(2) == 0 {
			return rng.Intn(nVariants)
		}
		return cfvBase + cfvRandom(rng, false)
	}
	plainVariant := func() int { // no health monitor, Run() does not fail
		if rng.Intn(2) == 0 {
			return rng.Intn(10)
		}
		return cfvBase + cfvRandom(rng, true)
	}
	// a different configuration for the same name: for a field vector mostly exactly ONE field
	// changed, drawn over every field of the base configuration and of the type's own struct
	otherVariant := func(v int, plain bool) int {
		if v >= cfvBase && rng.Intn(5) != 0 {
			return cfvBase + cfvChangeOne(rng, v-cfvBase, plain)
		}
		for {
			w := randVariant()
			if plain {
				w = plainVariant()
			}
			if w != v {
				return w
			}
		}
	}
	healthUpdates := 0
	maxHealthUpdates := 16 + n/300 // each one costs the wrapper's 500 ms start-up sleep
	nStopped := 0
	genCfgs := func() []ent {
		var next []ent
		mode := rng.Intn(10)
		switch {
		case mode < 6 && len(cur) > 0: // mutate the current list
			next = append(next, cur...)
			for k := rng.Intn(3) + 1; k > 0; k-- {
				switch rng.Intn(6) {
				case 0: // add
					next = append(next, ent{rng.Intn(5), randVariant()})
				case 1: // remove
					if len(next) > 0 {
						i := rng.Intn(len(next))
						next = append(next[:i:i], next[i+1:]...)
					}
				case 2: // change a field
					if len(next) > 0 {
						i := rng.Intn(len(next))
						next[i].variant = otherVariant(next[i].variant, false)
					}
				case 3: // reorder
					rng.Shuffle(len(next), func(i, j int) { next[i], next[j] = next[j], next[i] })
				case 4: // duplicate a name
					if len(next) > 0 {
						e := next[rng.Intn(len(next))]
						if rng.Intn(2) == 0 {
							e.variant = otherVariant(e.variant, false)
						}
						i := rng.Intn(len(next) + 1)
						next = append(next[:i:i], append([]ent{e}, next[i:]...)...)
					}
				case 5: // nothing (identical reload)
				}
			}
		case mode < 7 && rng.Intn(3) == 0:
			next = nil
		default:
			for k := 1 + rng.Intn(4); k > 0; k-- {
				next = append(next, ent{rng.Intn(5), randVariant()})
			}
		}
		return next
	}
	// fmtUpd renders a reload to `next` (and makes it the current configuration)
	fmtUpd := func(next []ent) string {
		// limit the number of updates that create health-checked wrappers
		creates := false
		isOld := func(e ent) bool {
			for _, o := range cur {
				if o == e {
					return true
				}
			}
			return false
		}
		for _, e := range next {
			if h, _ := variantFlags(e.variant); h && !isOld(e) {
				creates = true
			}
		}
		if creates {
			if healthUpdates >= maxHealthUpdates {
				for i := range next {
					if h, _ := variantFlags(next[i].variant); h && !isOld(next[i]) {
						next[i].variant = plainVariant()
					}
				}
			} else {
				healthUpdates++
			}
		}
		dup := 0
		for i := range next {
			for j := range next {
				if next[i].name == next[j].name && next[i].variant != next[j].variant {
					dup = 1
				}
			}
		}
		var sb strings.Builder
		fmt.Fprintf(&sb, "upd %d %d", adv(), dup)
		for _, e := range next {
			h, r := variantFlags(e.variant)
			fmt.Fprintf(&sb, " %d:%d:%d:%d", e.name, e.variant, b2i(h), b2i(r))
		}
		nStopped += len(cur) // upper bound, good enough for picking indices
		cur = next
		return sb.String()
	}
	emitUpd := func(next []ent) {
		emit(fmtUpd(next))
		// the server usually answers the registrations
		for _, e := range cur {
			switch rng.Intn(6) {
			case 0, 1, 2:
				emit(fmt.Sprintf("resp %d %d ok", e.name, adv()))
			case 3:
				emit(fmt.Sprintf("resp %d %d err", e.name, adv()))
			}
		}
	}
	// ---- overlapping operations (op race): some goroutine is inside the hand-over of a
	// registration / withdrawal to the transporter while another operation arrives.
	// Classes of the held side (A): first registration by a reload, retry after a start error,
	// resend after the reply time-out, recovery / withdrawal by the health callback, run-failure on
	// the reply, Stop inside a reload.  Classes of the arriving side (B): reload that removes /
	// changes / keeps the proxy or is unrelated, Manager.Close, server reply, worker wake-up, health
	// callback, work connection — for the same proxy mostly, sometimes for another one.
	variantOf := func(name int) int {
		v := -1
		for _, e := range cur {
			if e.name == name {
				v = e.variant // the last entry of a name is the configured one
			}
		}
		return v
	}
	without := func(name int) []ent {
		var next []ent
		for _, e := range cur {
			if e.name != name {
				next = append(next, e)
			}
		}
		return next
	}
	changed := func(name int) []ent {
		next := append([]ent(nil), cur...)
		for i := range next {
			if next[i].name == name {
				next[i].variant = otherVariant(next[i].variant, false)
			}
		}
		return next
	}
	// genB renders the arriving operation for proxy x; AFTER the text of A has been rendered
	genB := func(x int, allowReload bool) string {
		other := rng.Intn(5)
		for tries := 0; tries < 4 && allowReload; tries++ {
			switch rng.Intn(12) {
			case 0, 1, 2:
				return fmtUpd(without(x))
			case 3, 4:
				return fmtUpd(changed(x))
			case 5:
				return fmtUpd(append([]ent(nil), cur...))
			case 6:
				return fmtUpd(genCfgs())
			case 7:
				nStopped += len(cur)
				cur = nil
				return "close"
			}
			break
		}
		switch rng.Intn(8) {
		case 0, 1:
			return fmt.Sprintf("resp %d %d %s", x, adv(), pick(rng, []string{"ok", "ok", "err"}))
		case 2:
			return fmt.Sprintf("tick %d %d", x, adv())
		case 3:
			return fmt.Sprintf("tick %d %d", other, adv())
		case 4:
			return fmt.Sprintf("hup %d %d", x, adv())
		case 5:
			return fmt.Sprintf("hdown %d %d", x, adv())
		case 6:
			return fmt.Sprintf("work %d", x)
		}
		return fmt.Sprintf("resp %d %d ok", other, adv())
	}
	raceHealth := 6 + n/500
	emitRace := func() {
		x := rng.Intn(5)
		if len(cur) > 0 && rng.Intn(6) != 0 {
			x = cur[rng.Intn(len(cur))].name
		}
		var hs, rs []int // health-checked / run-failing proxies
		for _, e := range cur {
			h, r := variantFlags(variantOf(e.name))
			if h {
				hs = append(hs, e.name)
			}
			if r && !h {
				rs = append(rs, e.name)
			}
		}
		// fresh puts a new wrapper for x (variant v, no health gate) into status `wait start`
		fresh := func(v int) {
			next := without(x)
			next = append(next, ent{x, v})
			emit(fmtUpd(next))
		}
		switch sc := rng.Intn(12); {
		case sc < 3 || len(cur) == 0:
			// first registration: the reload adds (or replaces) x without health gate
			next := without(x)
			next = append(next, ent{x, plainVariant()})
			if rng.Intn(3) == 0 {
				next = append(next, ent{rng.Intn(5), plainVariant()})
			}
			a := fmtUpd(next)
			emit(fmt.Sprintf("race N%d ", x) + a + " / " + genB(x, true))
		case sc < 6 || (sc < 8 && len(hs) == 0 && raceHealth <= 0):
			// retry after a start error (30 s) / resend after the reply time-out (20 s)
			if rng.Intn(3) != 0 {
				fresh(plainVariant())
			}
			step := 20001
			if rng.Intn(2) == 0 {
				emit(fmt.Sprintf("resp %d %d err", x, adv()))
				step = 30001
			}
			now += pick(rng, []int{step, step, 60000, step - 2})
			a := fmt.Sprintf("tick %d %d", x, now)
			emit(fmt.Sprintf("race N%d ", x) + a + " / " + genB(x, true))
		case sc < 8:
			if len(hs) > 0 {
				x = pick(rng, hs)
			} else {
				// a health-checked proxy of its own (its start-up costs 500 ms: limited)
				raceHealth--
				maxHealthUpdates++
				fresh(10 + rng.Intn(3))
			}
			if rng.Intn(2) == 0 {
				// withdrawal: registered and healthy, the failed callback arrives
				emit(fmt.Sprintf("hup %d %d", x, adv()))
				if rng.Intn(3) != 0 {
					emit(fmt.Sprintf("resp %d %d ok", x, adv()))
				}
				a := fmt.Sprintf("hdown %d %d", x, adv())
				emit(fmt.Sprintf("race C%d ", x) + a + " / " + genB(x, true))
			} else {
				// recovery: the success callback arrives
				if rng.Intn(2) == 0 {
					emit(fmt.Sprintf("hdown %d %d", x, adv()))
				}
				a := fmt.Sprintf("hup %d %d", x, adv())
				emit(fmt.Sprintf("race N%d ", x) + a + " / " + genB(x, true))
			}
		case sc < 9:
			// the server accepts but the local Run() fails: SetRunningStatus sends CloseProxy
			if len(rs) > 0 && rng.Intn(2) == 0 {
				x = pick(rng, rs)
			} else {
				fresh(13)
			}
			a := fmt.Sprintf("resp %d %d ok", x, adv())
			emit(fmt.Sprintf("race C%d ", x) + a + " / " + genB(x, true))
		case sc < 11:
			// Stop inside a reload is the holder
			var a string
			if rng.Intn(2) == 0 {
				a = fmtUpd(without(x))
			} else {
				a = fmtUpd(changed(x))
			}
			emit(fmt.Sprintf("race C%d ", x) + a + " / " + genB(x, false))
		default:
			// unconstrained pair
			a := fmt.Sprintf("tick %d %d", x, adv())
			emit("race " + pick(rng, []string{"N", "C"}) + pick(rng, []string{"", strconv.Itoa(x)}) + " " + a + " / " + genB(x, true))
		}
	}
	// ---- the worker has left its select (timer / health notification) but not yet taken pw.mu when a reload
	// stops the wrapper (op wake).  Classes: the phase the wrapper is in (new-after-withdrawal / wait start before
	// and past its deadline / start error before and past its back-off / running / check failed), the kind of
	// wake-up (timer or notification = tick, success callback, failure callback), who gets the mutex first
	// (SW: Stop, then the worker's locked section; WS: the reverse), what the reload does with the proxy
	// (removes it / changes one field / keeps it / Manager.Close / unrelated list).
	wakeHealth := 4 + n/700
	emitWake := func() {
		x := rng.Intn(5)
		if len(cur) > 0 && rng.Intn(8) != 0 {
			x = cur[rng.Intn(len(cur))].name
		}
		fresh := func(v int) {
			next := without(x)
			next = append(next, ent{x, v})
			emit(fmtUpd(next))
		}
		kind := "tick"
		h := false
		if v := variantOf(x); v >= 0 {
			h, _ = variantFlags(v)
		}
		switch sc := rng.Intn(10); {
		case sc < 2 && h, sc < 1 && wakeHealth > 0:
			// a health-checked proxy: the monitor's callback is the wake-up
			if !h {
				wakeHealth--
				maxHealthUpdates++
				fresh(10 + rng.Intn(3))
			}
			switch rng.Intn(4) {
			case 0: // first success: registration due
				kind = "hup"
			case 1: // registered, then the failure callback: withdrawal due
				emit(fmt.Sprintf("hup %d %d", x, adv()))
				if rng.Intn(2) == 0 {
					emit(fmt.Sprintf("resp %d %d ok", x, adv()))
				}
				kind = "hdown"
			case 2: // withdrawn, recovery: registration due from `check failed`
				emit(fmt.Sprintf("hup %d %d", x, adv()))
				emit(fmt.Sprintf("hdown %d %d", x, adv()))
				kind = "hup"
			default:
				emit(fmt.Sprintf("hup %d %d", x, adv()))
				kind = pick(rng, []string{"tick", "hup", "hdown"})
			}
		case sc < 4:
			// wait start, the reply deadline passes (or not quite)
			fresh(plainVariant())
			now += pick(rng, []int{20001, 20001, 19999, 60000})
		case sc < 6:
			// start error, the back-off passes (or not quite)
			fresh(plainVariant())
			emit(fmt.Sprintf("resp %d %d err", x, adv()))
			now += pick(rng, []int{30001, 30001, 29999, 60000})
		case sc < 8:
			// running
			if variantOf(x) < 0 || h || rng.Intn(2) == 0 {
				fresh(plainVariant())
			}
			emit(fmt.Sprintf("resp %d %d ok", x, adv()))
		default:
			// whatever state it is in
		}
		wop := fmt.Sprintf("%s %d %d", kind, x, adv())
		var b string
		switch r := rng.Intn(12); {
		case r < 5:
			b = fmtUpd(without(x))
		case r < 8:
			b = fmtUpd(changed(x))
		case r < 9:
			b = fmtUpd(append([]ent(nil), cur...))
		case r < 10:
			b = fmtUpd(genCfgs())
		default:
			nStopped += len(cur)
			cur = nil
			b = "close"
		}
		emit("wake " + pick(rng, []string{"SW", "SW", "WS"}) + " " + wop + " / " + b)
		if rng.Intn(2) == 0 {
			emit("status")
		}
	}
	for i := 0; i < n; i++ {
		name := rng.Intn(5)
		if len(cur) > 0 && rng.Intn(8) != 0 {
			name = cur[rng.Intn(len(cur))].name
		}
		hname, hasH := name, false
		for _, e := range cur {
			if h, _ := variantFlags(e.variant); h {
				hasH = true
				if rng.Intn(4) != 0 {
					hname = e.name
				}
			}
		}
		if len(cur) == 0 && rng.Intn(3) != 0 {
			emitUpd(genCfgs())
			continue
		}
		if hasH && rng.Intn(6) == 0 {
			// a health episode on a health-checked proxy
			for _, op := range pick(rng, [][]string{
				{"hup", "resp ok", "work", "hdown", "work", "hup", "resp ok"},
				{"hup", "hdown", "tick", "hup"},
				{"hup", "resp err", "hdown", "tick", "hup", "tick"},
				{"tick", "hup", "resp ok", "hdown", "hdown", "resp ok"},
			}) {
				switch op {
				case "work":
					emit(fmt.Sprintf("work %d", hname))
				case "resp ok", "resp err":
					emit(fmt.Sprintf("resp %d %d %s", hname, adv(), op[5:]))
				default:
					emit(fmt.Sprintf("%s %d %d", op, hname, adv()))
				}
				i++
			}
			continue
		}
		if rng.Intn(100) < 5 {
			emitRace()
			continue
		}
		if rng.Intn(100) < 4 {
			emitWake()
			continue
		}
		if len(cur) > 0 && rng.Intn(100) < 9 {
			// RELOAD DIFF OVER ALL FIELDS: one proxy is brought to status running, then a reload changes
			// exactly one field of it (or none: the same values in a new object) and nothing else
			k := rng.Intn(len(cur))
			e := cur[k]
			if e.variant < cfvBase {
				// restart it as a field vector first
				next := append([]ent(nil), cur...)
				next[k].variant = plainVariant()
				for next[k].variant < cfvBase {
					next[k].variant = plainVariant()
				}
				emit(fmtUpd(next))
				e = cur[k]
				i++
			}
			if h, _ := variantFlags(variantOf(e.name)); h {
				emit(fmt.Sprintf("hup %d %d", e.name, adv()))
				i++
			}
			emit(fmt.Sprintf("resp %d %d ok", e.name, adv()))
			next := append([]ent(nil), cur...)
			if rng.Intn(6) != 0 {
				for j := range next {
					if next[j].name == e.name {
						next[j].variant = otherVariant(variantOf(e.name), true)
					}
				}
			}
			emit(fmtUpd(next))
			emit("status")
			if rng.Intn(2) == 0 {
				emit(fmt.Sprintf("resp %d %d ok", e.name, adv()))
				emit(fmt.Sprintf("work %d", e.name))
			}
			i += 2
			continue
		}
		switch r := rng.Intn(100); {
		case r < 12:
			emitUpd(genCfgs())
		case r < 34:
			emit(fmt.Sprintf("tick %d %d", name, adv()))
		case r < 52:
			emit(fmt.Sprintf("resp %d %d %s", name, adv(), pick(rng, []string{"ok", "ok", "err"})))
		case r < 66 && !hasH && rng.Intn(8) != 0:
			emit(fmt.Sprintf("tick %d %d", name, adv()))
		case r < 60:
			emit(fmt.Sprintf("hup %d %d", hname, adv()))
		case r < 66:
			emit(fmt.Sprintf("hdown %d %d", hname, adv()))
		case r < 76:
			emit(fmt.Sprintf("work %d", name))
		case r < 84:
			emit("status")
		case r < 92:
			k := 0
			if nStopped > 0 {
				k = rng.Intn(nStopped + 1)
			}
			switch rng.Intn(5) {
			case 0:
				emit(fmt.Sprintf("oresp %d %d %s", k, adv(), pick(rng, []string{"ok", "err"})))
			case 1:
				emit(fmt.Sprintf("ohup %d", k))
			case 2:
				emit(fmt.Sprintf("ohdown %d", k))
			case 3:
				emit(fmt.Sprintf("owork %d", k))
			case 4:
				emit(fmt.Sprintf("ostat %d", k))
			}
		case r < 97:
			var sb strings.Builder
			sb.WriteString("vupd")
			for k := rng.Intn(5); k > 0; k-- {
				v := rng.Intn(5)
				fmt.Fprintf(&sb, " %d:%d:%d", rng.Intn(4), v, b2i(v == 4))
			}
			emit(sb.String())
		case r < 98:
			emit("close")
			emit("status")
			nStopped += len(cur)
			cur = nil
		default:
			if rng.Intn(3) == 0 {
				emit("reset")
				cur, nStopped, now = nil, 0, 0
			} else {
				emit("status")
			}
		}
	}
	// malformed / out-of-domain stream: names that do not exist, replies nobody waits for
	emit("reset")
	for i := 0; i < 20; i++ {
		emit(fmt.Sprintf("resp %d %d %s", rng.Intn(9), i, pick(rng, []string{"ok", "err"})))
		emit(fmt.Sprintf("work %d", rng.Intn(9)))
		emit(fmt.Sprintf("tick %d %d", rng.Intn(9), i))
	}
	emit("livebackoff")
	emit("live")
}

func b2i(b bool) int {
	if b {
		return 1
	}
	return 0
}

func init() {
	register(&Engine{Name: "client", Gen: clientGen, Exec: clientExec})
}
