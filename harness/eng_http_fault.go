package main

// Engine "http", FAULTS IN THE MIDDLE OF AN EXCHANGE (C02: "body bytes unchanged, for bodies of any size and
// framing" — a shortened body must never arrive as a well-formed complete message).
//
//	freq <host> <path> <routeUser|-> <method> <body> <status> <rbody> <fault>
//	      body = "-" | cl:<tok> | ch:<tok>     rbody = cl:<tok> | ch:<tok> | eof:<tok>     (tok as in req)
//	      fault = d<k>  the BACKEND dies (closes its connection) after the header block and k bytes of its answer body
//	                    (cl: k of the announced bytes; ch: whole chunks carrying k bytes, no terminating chunk; eof: k bytes)
//	              q<k>  the BACKEND dies after it has read k wire bytes of the request body, without answering
//	              u<k>  the USER dies (closes its connection) after the header block and k bytes of its request body
//	  d => be=<id> rt=<id> ow=.. c=<n><n|r> ! st=<code|0> fr=<cl|ch|eof|no> n=<bytes the user got> pre=<1|0> end=<ok|cut|timeout>
//	  q => be=<id> rt=<id> ow=.. c=.. up=<bytes the backend got> ! st=<code|0> b=<page|len.hash|-> end=<ok|cut|timeout>
//	  u => be=<id> rt=<id> ow=.. c=.. up=<bytes the backend got> pre=<1|0> whole=<1|0>
//	  no backend involved: be=- rt=<id|-> c=- [! st=.. b=.. end=..]
//	      pre = what arrived is a prefix of what was sent; end = ok: the framing of the answer ended properly
//	      (Content-Length reached / terminating chunk / close of a close-delimited body), cut: the connection ended first;
//	      st=0: the connection ended before any status line
//
// Every fault op uses a fresh user connection (the three persistent ones stay untouched); the real http.Server in
// front of the proxy is what makes httputil.ReverseProxy abort an answer (http.ServerContextKey).  All waits are
// bounded (3 s deadline on the user connection, 2 s for the backend's record).
import (
	"bufio"
	"bytes"
	"fmt"
	"io"
	"math/rand"
	"net"
	"net/http"
	"os"
	"strconv"
	"strings"
	"time"
)

// an RNG of its own for op classes added later: the op stream of the main generator stays what it was
func sideRng(salt int64) *rand.Rand {
	seed := int64(1)
	if len(os.Args) > 3 {
		if v, err := strconv.ParseInt(os.Args[3], 10, 64); err == nil {
			seed = v
		}
	}
	return rand.New(rand.NewSource(seed*1000003 + salt))
}

// the backend's half of fault d: header block, k bytes of the body in the answer's framing, then the connection dies
func httpEngDieInBody(c net.Conn, spec *httpEngRespSpec) {
	var w bytes.Buffer
	fmt.Fprintf(&w, "HTTP/1.1 %d %s\r\n", spec.status, http.StatusText(spec.status))
	k := spec.faultAt
	if k > len(spec.body) {
		k = len(spec.body)
	}
	switch spec.kind {
	case "cl":
		fmt.Fprintf(&w, "Content-Length: %d\r\nConnection: close\r\n\r\n", len(spec.body))
		w.Write(spec.body[:k])
	case "ch":
		w.WriteString("Transfer-Encoding: chunked\r\nConnection: close\r\n\r\n")
		b := spec.body[:k]
		for len(b) > 0 {
			n := len(b)/2 + 1
			fmt.Fprintf(&w, "%x\r\n", n)
			w.Write(b[:n])
			w.WriteString("\r\n")
			b = b[n:]
		}
	default: // eof
		w.WriteString("Connection: close\r\n\r\n")
		w.Write(spec.body[:k])
	}
	_, _ = c.Write(w.Bytes())
}

func httpEngFaultOf(t string) (byte, int) { return t[0], atoi(t[1:]) }

func (st *httpEngState) doFault(tok []string) string {
	host, path, method := unhx(tok[1]), unhx(tok[2]), tok[4]
	user := ""
	if tok[3] != "-" {
		user = unhx(tok[3])
	}
	bkind, body := httpEngBodySpec(tok[5])
	spec := &httpEngRespSpec{status: atoi(tok[6]), keep: false}
	spec.kind, spec.body = httpEngBodySpec(tok[7])
	spec.fault, spec.faultAt = httpEngFaultOf(tok[8])
	st.mu.Lock()
	st.spec = spec
	before := st.connSeq
	st.mu.Unlock()
	st.drainSeen()
	c, err := net.DialTimeout("tcp", st.addr, 2*time.Second)
	if err != nil {
		return "dialerr"
	}
	defer c.Close()
	_ = c.SetDeadline(time.Now().Add(3 * time.Second))
	var w bytes.Buffer
	fmt.Fprintf(&w, "%s %s HTTP/1.1\r\nHost: %s\r\n", method, path, host)
	if user != "" {
		fmt.Fprintf(&w, "Authorization: %s\r\n", httpEngBasic(user))
	}
	sendN := len(body)
	if spec.fault == 'u' && spec.faultAt < sendN {
		sendN = spec.faultAt
	}
	switch bkind {
	case "cl":
		fmt.Fprintf(&w, "Content-Length: %d\r\n\r\n", len(body))
		w.Write(body[:sendN])
	case "ch":
		w.WriteString("Transfer-Encoding: chunked\r\n\r\n")
		httpEngWriteChunked(&w, body[:sendN])
		if spec.fault == 'u' {
			w.Truncate(w.Len() - 5) // the user dies before the terminating chunk
		}
	default:
		w.WriteString("\r\n")
	}
	rt := st.currentRoute(host, path, user)
	beNote := func(seen *httpEngSeen) string {
		if seen == nil {
			return fmt.Sprintf("be=- rt=%s c=-", rt)
		}
		return fmt.Sprintf("be=%d rt=%s ow=%s c=%s", seen.be, rt, st.ownerNote(seen.be, rt), st.connNote(before, seen))
	}
	if spec.fault == 'u' {
		_, _ = c.Write(w.Bytes())
		if os.Getenv("HTTPENG_UHOLD") == "" {
			// let the part of the body arrive before the user goes: what counts is how the request ENDS at the backend
			time.Sleep(5 * time.Millisecond)
		}
		c.Close()
		// (a user that left before the proxy forwarded anything: no record will come — short bounded wait)
		seen := st.takeSeen(300 * time.Millisecond)
		if seen == nil {
			return beNote(nil)
		}
		return fmt.Sprintf("%s up=%d pre=%d whole=%d", beNote(seen), len(seen.body), btoi(bytes.HasPrefix(body, seen.body)), btoi(!seen.part))
	}
	// d / q: the whole request goes out (the proxy may stop reading it: write errors are not results)
	go func() { _, _ = c.Write(w.Bytes()) }()
	br := bufio.NewReader(c)
	resp, err := http.ReadResponse(br, &http.Request{Method: method})
	stc, fr, end := 0, "no", "cut"
	var rb []byte
	if err != nil {
		if he2eIsTimeout(err) {
			end = "timeout"
		}
	} else {
		stc = resp.StatusCode
		switch {
		case len(resp.TransferEncoding) > 0:
			fr = "ch"
		case resp.ContentLength >= 0:
			fr = "cl"
		case resp.Close:
			fr = "eof"
		}
		var rerr error
		rb, rerr = io.ReadAll(resp.Body)
		resp.Body.Close()
		switch {
		case rerr == nil:
			end = "ok"
		case he2eIsTimeout(rerr):
			end = "timeout"
		}
	}
	seen := st.takeSeen(0)
	if seen == nil && stc == 0 {
		seen = st.takeSeen(300 * time.Millisecond) // nothing came back: was the backend reached at all?
	}
	bn := httpEngBodyNote(rb, len(rb) > 0)
	if bytes.Equal(rb, st.page) {
		bn = "page"
	}
	if seen == nil {
		return fmt.Sprintf("%s ! st=%d b=%s end=%s", beNote(nil), stc, bn, end)
	}
	if spec.fault == 'q' {
		return fmt.Sprintf("%s up=%d ! st=%d b=%s end=%s", beNote(seen), len(seen.body), stc, bn, end)
	}
	return fmt.Sprintf("%s ! st=%d fr=%s n=%d pre=%d end=%s", beNote(seen), stc, fr, len(rb), btoi(bytes.HasPrefix(spec.body, rb)), end)
}

// ---- generator: fault ops as a class (every framing x both directions x where the fault strikes) ----

func httpGenFault(r *rand.Rand, host, path, user string) string {
	size := func() int {
		switch x := r.Intn(10); {
		case x < 4:
			return 1 + r.Intn(300)
		case x < 8:
			return 2000 + r.Intn(9000)
		default:
			return 40000 + r.Intn(120000)
		}
	}
	// where: nothing / one byte / somewhere / all but one byte / everything (chunked and close-delimited: the body is all
	// there, only the END is missing)
	at := func(n int, all bool) int {
		switch x := r.Intn(6); {
		case x == 0:
			return 0
		case x == 1:
			return 1
		case x == 2 && n > 1:
			return n - 1
		case x == 3 && all:
			return n
		default:
			return r.Intn(n)
		}
	}
	uq := "-"
	if user != "" {
		uq = hx(user)
	}
	st := pick(r, []int{200, 200, 200, 201, 404, 500})
	switch r.Intn(10) {
	case 0, 1, 2, 3, 4: // the backend dies inside its answer
		kind := pick(r, []string{"cl", "ch", "ch", "eof"})
		n := size()
		method, body := "GET", "-"
		if r.Intn(3) == 0 {
			method, body = pick(r, []string{"POST", "PUT"}), pick(r, []string{"cl", "ch"})+":"+httpEngTok(r.Intn(100000), 1+r.Intn(3000))
		}
		return fmt.Sprintf("freq %s %s %s %s %s %d %s:%s d%d", hx(host), hx(path), uq, method, body, st, kind, httpEngTok(r.Intn(100000), n), at(n, kind != "cl"))
	case 5, 6: // the backend dies while the request body comes in
		kind := pick(r, []string{"cl", "ch"})
		n := size()
		return fmt.Sprintf("freq %s %s %s %s %s:%s %d cl:%s q%d", hx(host), hx(path), uq, pick(r, []string{"POST", "PUT"}), kind,
			httpEngTok(r.Intn(100000), n), st, httpEngTok(r.Intn(100000), 10), at(n, false))
	default: // the user dies inside its request body
		kind := pick(r, []string{"cl", "ch"})
		n := size()
		return fmt.Sprintf("freq %s %s %s %s %s:%s %d cl:%s u%d", hx(host), hx(path), uq, pick(r, []string{"POST", "PUT"}), kind,
			httpEngTok(r.Intn(100000), n), st, httpEngTok(r.Intn(100000), 10), at(n, kind == "ch"))
	}
}

var _ = strings.TrimSpace
