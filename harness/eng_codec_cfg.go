package main

import (
	"bufio"
	"context"
	"errors"
	"fmt"
	"io"
	"math/rand"
	"net"
	"os"
	"os/exec"
	"sort"
	"strconv"
	"strings"
	"time"

	"github.com/fatedier/frp/client"
	v1 "github.com/fatedier/frp/pkg/config/v1"
	"github.com/fatedier/frp/pkg/msg"
	"github.com/fatedier/frp/pkg/util/log"
	netpkg "github.com/fatedier/frp/pkg/util/net"
	"github.com/fatedier/frp/pkg/util/version"
	"github.com/fatedier/frp/server"
)

// Ops of engine "codec" that state the decoder's bound as a property of the PROCESS in every configuration:
// pkg/msg holds ONE codec object per process (pkg/msg/ctl.go `msgCtl`); its length limit must be the constant
// 10240 whatever configuration frps / frpc were built with.
//
//	pfirst <profile> <bytes>          as `first`, against a live frps started with the configuration <profile>
//	psess  <profile> <pre> <post>     as `sess`,  against a live frps started with the configuration <profile>
//	prd    <profile> <who> <bytes> <chunk>
//	pinto  <profile> <who> <bytes> <chunk>
//	     as `rd` / `into`, executed in a CHILD process in which first server.NewService (who = srv), client.NewService
//	     (who = cli) or both (who = both) have been constructed with the configuration <profile> — the codec object
//	     is global, so the main harness' own codec must not be touched by such constructions
//	pcli   <profile> <phase> <bytes>
//	     a live frpc (child process, client.NewService + Run with the configuration <profile>) dials the harness,
//	     which plays frps: it reads the Login and then
//	       phase login: sends <bytes> where the LoginResp is due
//	       phase sess:  sends a good LoginResp and then <bytes> on the (encrypted) control stream
//	     => closed | open | nologin   (closed: frpc ended that control connection — in phase login by giving the login
//	        up, which ends the frpc process (loginFailExit) —; open: it still holds it after 1.5 s)
//
// profile = `-` (all defaults) or k=v,k=v,… with k of
//
//	u      udpPacketSize                       (frps and frpc)
//	pool   transport.maxPoolCount / poolCount  (frps / frpc)
//	ports  maxPortsPerClient                   (frps)
//	hb     transport.heartbeatTimeout          (frps and frpc)
//	uct    userConnTimeout                     (frps)
//	dial   transport.dialServerTimeout         (frpc)
//
// the size-like settings of the two configurations.

type codecProfile struct {
	kv map[string]int64
}

func codecProfileTok(t string) string {
	if _, ok := codecParseProfile(t); !ok {
		panic("bad profile " + t)
	}
	return t
}

func codecParseProfile(s string) (codecProfile, bool) {
	p := codecProfile{kv: map[string]int64{}}
	if s == "" || s == "-" {
		return p, true
	}
	for _, e := range strings.Split(s, ",") {
		k, v, ok := strings.Cut(e, "=")
		if !ok {
			return p, false
		}
		n, err := strconv.ParseInt(v, 10, 64)
		if err != nil {
			return p, false
		}
		switch k {
		case "u", "pool", "ports", "hb", "uct", "dial":
			p.kv[k] = n
		default:
			return p, false
		}
	}
	return p, true
}

func (p codecProfile) applyServer(cfg *v1.ServerConfig) {
	for k, v := range p.kv {
		switch k {
		case "u":
			cfg.UDPPacketSize = v
		case "pool":
			cfg.Transport.MaxPoolCount = v
		case "ports":
			cfg.MaxPortsPerClient = v
		case "hb":
			cfg.Transport.HeartbeatTimeout = v
		case "uct":
			cfg.UserConnTimeout = v
		}
	}
}

func (p codecProfile) applyClient(cfg *v1.ClientCommonConfig) {
	for k, v := range p.kv {
		switch k {
		case "u":
			cfg.UDPPacketSize = v
		case "pool":
			cfg.Transport.PoolCount = int(v)
		case "hb":
			cfg.Transport.HeartbeatTimeout = v
		case "dial":
			cfg.Transport.DialServerTimeout = v
		}
	}
}

func codecClientCfg(p codecProfile, port int) *v1.ClientCommonConfig {
	cfg := &v1.ClientCommonConfig{}
	cfg.ServerAddr = "127.0.0.1"
	cfg.ServerPort = port
	cfg.Auth.Token = codecToken
	f := false
	cfg.Transport.TCPMux = &f
	cfg.Transport.TLS.Enable = &f
	p.applyClient(cfg)
	cfg.Complete()
	return cfg
}

// ---------------------------------------------------------------- child processes

func init() {
	if w := os.Getenv("VERIF_CODEC_PROC"); w != "" {
		codecProcServe(w, os.Getenv("VERIF_CODEC_PROFILE"))
		os.Exit(0)
	}
	if p := os.Getenv("VERIF_CODEC_FRPC"); p != "" {
		codecFrpcServe(atoi(p), os.Getenv("VERIF_CODEC_PROFILE"))
		os.Exit(0)
	}
}

// child: construct the services of `who` with the profile, then execute rd / into lines from stdin
func codecProcServe(who, profile string) {
	log.InitLogger("console", "error", 0, true)
	p, ok := codecParseProfile(profile)
	if !ok {
		os.Exit(3)
	}
	if who == "srv" || who == "both" {
		var err error
		for try := 0; try < 5; try++ { // a port may be taken between probing and binding: not frp's fault
			cfg := &v1.ServerConfig{}
			cfg.BindAddr = "127.0.0.1"
			cfg.BindPort = codecFreePort()
			cfg.Auth.Token = codecToken
			p.applyServer(cfg)
			cfg.Complete()
			if _, err = server.NewService(cfg); err == nil {
				break
			}
		}
		if err != nil {
			fmt.Println("ctor:" + hx(err.Error()))
			os.Exit(3)
		}
	}
	if who == "cli" || who == "both" {
		if _, err := client.NewService(client.ServiceOptions{Common: codecClientCfg(p, 1)}); err != nil {
			fmt.Println("ctor:" + hx(err.Error()))
			os.Exit(3)
		}
	}
	fmt.Println("ready")
	sc := bufio.NewScanner(os.Stdin)
	sc.Buffer(make([]byte, 1<<20), 1<<26)
	for sc.Scan() {
		tok := strings.Fields(sc.Text())
		if len(tok) == 0 {
			continue
		}
		fmt.Println(safeExec(engines["codec"], tok))
	}
}

// child: a real frpc with the profile, server = the harness at 127.0.0.1:port
func codecFrpcServe(port int, profile string) {
	log.InitLogger("console", "error", 0, true)
	p, ok := codecParseProfile(profile)
	if !ok {
		os.Exit(3)
	}
	svc, err := client.NewService(client.ServiceOptions{Common: codecClientCfg(p, port)})
	if err != nil {
		os.Exit(3)
	}
	go func() { // die with the parent
		_, _ = io.Copy(io.Discard, os.Stdin)
		os.Exit(0)
	}()
	// loginFailExit is left at its default (true): Run returns when the first login is refused, and this frpc ends —
	// a frpc whose login failed leaves the refused connection to the process exit (client/service.go login)
	_ = svc.Run(context.Background())
}

type codecProcChild struct {
	in   io.WriteCloser
	out  *bufio.Reader
	cmd  *exec.Cmd
	dead bool
}

var codecProcs = map[string]*codecProcChild{}

func (c *codecProcChild) line(wait time.Duration) (string, bool) {
	type r struct {
		s   string
		err error
	}
	ch := make(chan r, 1)
	go func() {
		s, err := c.out.ReadString('\n')
		ch <- r{strings.TrimRight(s, "\n"), err}
	}()
	select {
	case x := <-ch:
		return x.s, x.err == nil
	case <-time.After(wait):
		return "", false
	}
}

func (c *codecProcChild) kill() {
	c.dead = true
	_ = c.in.Close()
	if c.cmd.Process != nil {
		_ = c.cmd.Process.Kill()
	}
}

func codecProcFor(who, profile string) (*codecProcChild, string) {
	key := who + "|" + profile
	if c := codecProcs[key]; c != nil && !c.dead {
		return c, ""
	}
	if len(codecProcs) >= 3 { // few processes at a time: the generator visits one profile after the other
		for k, c := range codecProcs {
			c.kill()
			delete(codecProcs, k)
		}
	}
	cmd := exec.Command(os.Args[0])
	cmd.Env = append(os.Environ(), "VERIF_CODEC_PROC="+who, "VERIF_CODEC_PROFILE="+profile)
	cmd.Stderr = io.Discard
	in, err := cmd.StdinPipe()
	if err != nil {
		panic(err)
	}
	out, err := cmd.StdoutPipe()
	if err != nil {
		panic(err)
	}
	if err := cmd.Start(); err != nil {
		panic(err)
	}
	go func() { _ = cmd.Wait() }()
	c := &codecProcChild{in: in, out: bufio.NewReaderSize(out, 1<<16), cmd: cmd}
	first, ok := c.line(10 * time.Second)
	if !ok || first != "ready" {
		c.kill()
		if strings.HasPrefix(first, "ctor:") {
			return nil, "noctor" // the service could not be constructed with that configuration
		}
		return nil, "noproc"
	}
	codecProcs[key] = c
	return c, ""
}

// prd / pinto <profile> <who> <bytes> <chunk>
func codecProc(tok []string) string {
	profile, who := codecProfileTok(tok[1]), tok[2]
	if who != "srv" && who != "cli" && who != "both" {
		return "badop"
	}
	c, why := codecProcFor(who, profile)
	if c == nil {
		return why
	}
	op := "rd"
	if tok[0] == "pinto" {
		op = "into"
	}
	if _, err := fmt.Fprintf(c.in, "%s %s %s\n", op, tok[3], tok[4]); err != nil {
		c.kill()
		return "procdead"
	}
	res, ok := c.line(10 * time.Second)
	if !ok {
		c.kill()
		return "procdead"
	}
	return res
}

// ---------------------------------------------------------------- pcli: the harness plays frps for a live frpc

func codecCli(profile, phase string, data []byte) string {
	if phase != "login" && phase != "sess" {
		return "badop"
	}
	l, err := net.Listen("tcp", "127.0.0.1:0")
	if err != nil {
		panic(err)
	}
	defer l.Close()
	cmd := exec.Command(os.Args[0])
	cmd.Env = append(os.Environ(), fmt.Sprintf("VERIF_CODEC_FRPC=%d", l.Addr().(*net.TCPAddr).Port), "VERIF_CODEC_PROFILE="+profile)
	cmd.Stderr = io.Discard
	stdin, err := cmd.StdinPipe()
	if err != nil {
		panic(err)
	}
	if err := cmd.Start(); err != nil {
		panic(err)
	}
	go func() { _ = cmd.Wait() }()
	defer func() {
		_ = stdin.Close()
		if cmd.Process != nil {
			_ = cmd.Process.Kill()
		}
	}()
	_ = l.(*net.TCPListener).SetDeadline(time.Now().Add(5 * time.Second))
	c, err := l.Accept()
	if err != nil {
		return "nologin"
	}
	defer c.Close()
	// further connections of that frpc (work connections, a second login attempt) are accepted and ignored
	go func() {
		for {
			_ = l.(*net.TCPListener).SetDeadline(time.Now().Add(5 * time.Second))
			x, err := l.Accept()
			if err != nil {
				return
			}
			defer x.Close()
		}
	}()
	_ = c.SetReadDeadline(time.Now().Add(3 * time.Second))
	m, err := msg.ReadMsg(c)
	if err != nil {
		return "nologin"
	}
	if _, ok := m.(*msg.Login); !ok {
		return "nologin"
	}
	var w io.Writer = c
	if phase == "sess" {
		if err := msg.WriteMsg(c, &msg.LoginResp{Version: version.Full(), RunID: "verif-run"}); err != nil {
			return "nologin"
		}
		rw, err := netpkg.NewCryptoReadWriter(c, []byte(codecToken))
		if err != nil {
			return "nologin"
		}
		w = rw
	}
	if len(data) > 0 {
		if _, err := w.Write(data); err != nil {
			return "closed"
		}
	}
	_ = c.SetReadDeadline(time.Now().Add(1500 * time.Millisecond))
	_, rerr := io.Copy(io.Discard, c)
	var ne net.Error
	if errors.As(rerr, &ne) && ne.Timeout() {
		return "open"
	}
	return "closed"
}

// ---------------------------------------------------------------- generator

// sizes of udpPacketSize an operator may configure: tiny, the default, usual MTUs, jumbo frames, the largest UDP
// payload, powers of two, and beyond
var codecUDPSizes = []int64{1, 512, 1400, 1500, 4096, 7000, 8000, 9000, 16384, 32768, 65507, 65535, 1 << 20}

// the profiles of one run: the default, the three named sizes, and a few generated combinations
func cdGenProfiles(rng *rand.Rand) []string {
	ps := []string{"-", "u=1500", "u=8000", "u=65507"}
	for len(ps) < 7 {
		kv := map[string]int64{"u": pick(rng, codecUDPSizes)}
		if rng.Intn(2) == 0 {
			kv["pool"] = pick(rng, []int64{1, 50, 200})
		}
		if rng.Intn(3) == 0 {
			kv["ports"] = pick(rng, []int64{1, 7, 65535})
		}
		if rng.Intn(3) == 0 {
			kv["hb"] = pick(rng, []int64{20, 90, 3600})
		}
		if rng.Intn(4) == 0 {
			kv["uct"] = pick(rng, []int64{1, 30})
		}
		if rng.Intn(4) == 0 {
			kv["dial"] = pick(rng, []int64{3, 30})
		}
		keys := make([]string, 0, len(kv))
		for k := range kv {
			keys = append(keys, k)
		}
		sort.Strings(keys)
		var parts []string
		for _, k := range keys {
			parts = append(parts, fmt.Sprintf("%s=%d", k, kv[k]))
		}
		ps = append(ps, strings.Join(parts, ","))
	}
	return ps
}

// body lengths at and above the bound, with the body actually supplied
var codecBigLens = []int{10240, 10241, 10241, 10242, 10300, 11000, 12288, 16384, 20000, 20000, 40000, 60000, 60000, 65536, 87000, 100000}

// a well-formed JSON body of exactly n bytes for the struct registered under t: an object whose first string
// member (if the struct has one) carries a short value, padded with insignificant white space
func cdBigBody(rng *rand.Rand, t byte, n int) []byte {
	head := "{"
	switch t {
	case 'o':
		head = fmt.Sprintf("{\"version\":%q,\"timestamp\":%d", version.Full(), 1700000000+rng.Intn(1000))
	case 'w', 'v':
		head = fmt.Sprintf("{\"run_id\":\"r%d\",\"timestamp\":%d", rng.Intn(1000), 1700000000+rng.Intn(1000))
	case 'h':
		head = fmt.Sprintf("{\"timestamp\":%d", 1700000000+rng.Intn(1000))
	case 'p':
		head = fmt.Sprintf("{\"proxy_name\":\"big%d\",\"proxy_type\":\"tcp\",\"remote_port\":1", rng.Intn(1000))
	case '1':
		head = fmt.Sprintf("{\"version\":%q,\"run_id\":\"r%d\"", version.Full(), rng.Intn(1000))
	}
	if len(head)+1 > n {
		head = "{"
	}
	switch rng.Intn(3) {
	case 0: // the padding inside a string member no field claims
		if pad := n - len(head) - len(",\"zz\":\"\"}"); pad >= 0 && head != "{" {
			return []byte(head + ",\"zz\":\"" + strings.Repeat("z", pad) + "\"}")
		}
	}
	return []byte(head + strings.Repeat(" ", n-len(head)-1) + "}")
}

// a frame whose declared length is the length of the body that follows
func cdBigFrame(rng *rand.Rand, t byte) []byte {
	n := pick(rng, codecBigLens)
	return mkFrame(t, uint64(n), cdBigBody(rng, t, n))
}

type cdCfgGen struct {
	profiles []string
	slot     int
}

// one op of the configuration class per call, "" when the run has had its share (real sockets / child processes).
// The profiles are visited one after the other, 24 ops each (9 pfirst, 4 psess, 9 prd / pinto, 2 pcli), so that only
// the children of one profile are alive at a time.
func (g *cdCfgGen) next(rng *rand.Rand) string {
	if g.profiles == nil {
		g.profiles = cdGenProfiles(rng)
	}
	if g.slot >= 24*len(g.profiles) {
		return ""
	}
	profile := g.profiles[g.slot/24]
	k, round := g.slot%8, (g.slot%24)/8
	g.slot++
	switch {
	case k < 3:
		// first message of a fresh connection: mostly the three types a frps answers to (Login, NewWorkConn,
		// NewVisitorConn), above the bound mostly; sometimes any type / one of the framing classes
		t := pick(rng, []byte{'o', 'o', 'w', 'v'})
		if rng.Intn(4) == 0 {
			t = pick(rng, codecTypes)
		}
		b := cdBigFrame(rng, t)
		if rng.Intn(8) == 0 {
			b = genFrameBytes(rng)
		}
		return fmt.Sprintf("pfirst %s %s", profile, hxb(b))
	case k == 3 || (k == 7 && round == 2):
		pre, _ := cdStream(rng, cdSessQuiet, []byte{'h'})
		big := cdBigFrame(rng, pick(rng, []byte{'h', 'h', 'p', 'c', '6', 'r'}))
		for len(big) == 9+10240 && rng.Intn(4) != 0 { // mostly above the bound (an accepted frame costs the full wait; `sess` has those)
			big = cdBigFrame(rng, big[0])
		}
		post := append(big, mkFrame('h', 2, []byte("{}"))...)
		return fmt.Sprintf("psess %s %s %s", profile, hxb(pre), hxb(post))
	case k < 7:
		who := []string{"srv", "cli", "both"}[k-4]
		b := cdBigFrame(rng, pick(rng, codecTypes))
		if rng.Intn(6) == 0 {
			b = genFrameBytes(rng)
		}
		op := "prd"
		if rng.Intn(4) == 0 {
			op = "pinto"
		}
		return fmt.Sprintf("%s %s %s %s %d", op, profile, who, hxb(b), pick(rng, []int{0, 0, 7, 4096}))
	default:
		t := pick(rng, []byte{'r', '4', '2', 'm', 'r'})
		phase := "sess"
		if round == 0 {
			t, phase = '1', "login"
		}
		b := cdBigFrame(rng, t)
		for len(b) == 9+10240 { // above the bound only: what frpc does with a frame it accepts is not claimed here
			b = cdBigFrame(rng, t)
		}
		return fmt.Sprintf("pcli %s %s %s", profile, phase, hxb(b))
	}
}
