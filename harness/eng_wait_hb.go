// Engine "wait" (C14), the heartbeat settings as WRITTEN in a configuration file: every case goes through the
// real loader (config.LoadClientConfig / LoadServerConfig: parse + Complete) and the real validation.
//
//	hbcfg c FMT MUX I T          a frpc configuration text in format FMT (toml|json|yaml|ini) with transport.tcpMux = MUX
//	                             (on|off|unset), transport.heartbeatInterval = I, transport.heartbeatTimeout = T
//	                             (an integer, or - = not written; a written 0 means the same)  => I'/T' ok | I'/T' invalid | loaderr
//	hbcfg s FMT MUX T            the same for frps (transport.heartbeatTimeout)         => T' ok | T' invalid | loaderr
//	hbstart ID FMT MUX I T K     real frpc started from that text (client.NewService on what the loader returned) against a
//	                             scripted raw server (yamux when the loaded tcpMux is on) that answers the login and K pings
//	                             and then falls silent, keeping the connection
//	hbwait ID                    => eff=I'/T' invalid | eff=I'/T' pg=<ms/ms/..> last=<ms> closed=<ms> | … open=<ms>
//	                             (ms after the login was answered; last = the last Pong written, 0 = none; pg = gaps between
//	                             the pings received; open = the connection was still up when the scenario stopped watching)
//
// The Lean side instantiates the watchdog model with the WRITTEN values (defaults where nothing is written).
package main

import (
	"context"
	"encoding/json"
	"fmt"
	"net"
	"os"
	"path/filepath"
	"strconv"
	"strings"
	"time"

	fmux "github.com/hashicorp/yamux"
	"github.com/samber/lo"

	"github.com/fatedier/frp/client"
	"github.com/fatedier/frp/pkg/config"
	v1 "github.com/fatedier/frp/pkg/config/v1"
	"github.com/fatedier/frp/pkg/config/v1/validation"
	"github.com/fatedier/frp/pkg/msg"
	netpkg "github.com/fatedier/frp/pkg/util/net"
	"github.com/fatedier/frp/pkg/util/version"

	"io"
)

type hbWritten struct {
	mux  string // on | off | unset
	i, t string // integer or "-"
}

// hbText renders the configuration file; only what is written appears in it
func hbText(side byte, format string, w hbWritten, port int) (string, string) {
	type kv struct{ k, v string }
	var tr []kv // members of `transport`
	if w.mux != "unset" {
		tr = append(tr, kv{"tcpMux", map[string]string{"on": "true", "off": "false"}[w.mux]})
	}
	if side == 'c' && w.i != "-" {
		tr = append(tr, kv{"heartbeatInterval", w.i})
	}
	if w.t != "-" {
		tr = append(tr, kv{"heartbeatTimeout", w.t})
	}
	switch format {
	case "ini":
		var sb strings.Builder
		sb.WriteString("[common]\n")
		if side == 'c' {
			fmt.Fprintf(&sb, "server_addr = 127.0.0.1\nserver_port = %d\nlogin_fail_exit = false\ntoken = %s\ntls_enable = false\n", port, waitToken)
		} else {
			fmt.Fprintf(&sb, "bind_addr = 127.0.0.1\nbind_port = %d\ntoken = %s\n", port, waitToken)
		}
		ini := map[string]string{"tcpMux": "tcp_mux", "heartbeatInterval": "heartbeat_interval", "heartbeatTimeout": "heartbeat_timeout"}
		for _, e := range tr {
			fmt.Fprintf(&sb, "%s = %s\n", ini[e.k], e.v)
		}
		return sb.String(), "cfg.ini"
	case "toml":
		var sb strings.Builder
		if side == 'c' {
			fmt.Fprintf(&sb, "serverAddr = \"127.0.0.1\"\nserverPort = %d\nloginFailExit = false\nauth.token = \"%s\"\ntransport.tls.enable = false\n", port, waitToken)
		} else {
			fmt.Fprintf(&sb, "bindAddr = \"127.0.0.1\"\nbindPort = %d\nauth.token = \"%s\"\n", port, waitToken)
		}
		for _, e := range tr {
			fmt.Fprintf(&sb, "transport.%s = %s\n", e.k, e.v)
		}
		return sb.String(), "cfg.toml"
	case "yaml":
		var sb strings.Builder
		if side == 'c' {
			fmt.Fprintf(&sb, "serverAddr: 127.0.0.1\nserverPort: %d\nloginFailExit: false\nauth:\n  token: %s\ntransport:\n  tls:\n    enable: false\n", port, waitToken)
		} else {
			fmt.Fprintf(&sb, "bindAddr: 127.0.0.1\nbindPort: %d\nauth:\n  token: %s\n", port, waitToken)
			if len(tr) > 0 {
				sb.WriteString("transport:\n")
			}
		}
		for _, e := range tr {
			fmt.Fprintf(&sb, "  %s: %s\n", e.k, e.v)
		}
		return sb.String(), "cfg.yaml"
	default: // json
		trm := map[string]any{}
		for _, e := range tr {
			if e.k == "tcpMux" {
				trm[e.k] = e.v == "true"
			} else {
				n, _ := strconv.ParseInt(e.v, 10, 64)
				trm[e.k] = n
			}
		}
		doc := map[string]any{"auth": map[string]any{"token": waitToken}}
		if side == 'c' {
			doc["serverAddr"], doc["serverPort"], doc["loginFailExit"] = "127.0.0.1", port, false
			trm["tls"] = map[string]any{"enable": false}
		} else {
			doc["bindAddr"], doc["bindPort"] = "127.0.0.1", port
		}
		if len(trm) > 0 {
			doc["transport"] = trm
		}
		b, _ := json.Marshal(doc)
		return string(b), "cfg.json"
	}
}

func hbWriteFile(text, name string) (string, func(), error) {
	d, err := os.MkdirTemp("", "c14hb")
	if err != nil {
		return "", nil, err
	}
	p := filepath.Join(d, name)
	if err := os.WriteFile(p, []byte(text), 0o600); err != nil {
		os.RemoveAll(d)
		return "", nil, err
	}
	return p, func() { os.RemoveAll(d) }, nil
}

// hbLoadClient: text -> the real loader (parse + Complete) -> the real validation
func hbLoadClient(format string, w hbWritten, port int) (*v1.ClientCommonConfig, []v1.ProxyConfigurer, []v1.VisitorConfigurer, bool, string) {
	text, name := hbText('c', format, w, port)
	path, done, err := hbWriteFile(text, name)
	if err != nil {
		return nil, nil, nil, false, "infra-file"
	}
	defer done()
	cfg, pcs, vcs, _, err := config.LoadClientConfig(path, true)
	if err != nil {
		return nil, nil, nil, false, "loaderr"
	}
	_, err = validation.ValidateAllClientConfig(cfg, pcs, vcs)
	return cfg, pcs, vcs, err == nil, ""
}

func hbCfgOp(tok []string) string {
	if len(tok) < 5 {
		return "badop"
	}
	side, format := tok[1], tok[2]
	if side == "s" {
		w := hbWritten{mux: tok[3], i: "-", t: tok[4]}
		text, name := hbText('s', format, w, 7000)
		path, done, err := hbWriteFile(text, name)
		if err != nil {
			return "infra-file"
		}
		defer done()
		cfg, _, err := config.LoadServerConfig(path, true)
		if err != nil {
			return "loaderr"
		}
		_, err = validation.ValidateServerConfig(cfg)
		return fmt.Sprintf("%d %s", cfg.Transport.HeartbeatTimeout, map[bool]string{true: "ok", false: "invalid"}[err == nil])
	}
	if len(tok) < 6 {
		return "badop"
	}
	cfg, _, _, valid, e := hbLoadClient(format, hbWritten{tok[3], tok[4], tok[5]}, 7000)
	if e != "" {
		return e
	}
	return fmt.Sprintf("%d/%d %s", cfg.Transport.HeartbeatInterval, cfg.Transport.HeartbeatTimeout,
		map[bool]string{true: "ok", false: "invalid"}[valid])
}

// runHb: real frpc from the configuration text against a scripted server that answers k pings and falls silent
func runHb(format string, w hbWritten, k int) string {
	l, err := net.Listen("tcp", "127.0.0.1:0")
	if err != nil {
		return "infra-listen"
	}
	defer l.Close()
	port := l.Addr().(*net.TCPAddr).Port
	cfg, pcs, vcs, valid, e := hbLoadClient(format, w, port)
	if e != "" {
		return e
	}
	eff := fmt.Sprintf("eff=%d/%d", cfg.Transport.HeartbeatInterval, cfg.Transport.HeartbeatTimeout)
	if !valid {
		return eff + " invalid"
	}
	mux := lo.FromPtr(cfg.Transport.TCPMux)
	svc, err := client.NewService(client.ServiceOptions{Common: cfg, ProxyCfgs: pcs, VisitorCfgs: vcs})
	if err != nil {
		return "infra-newservice"
	}
	ctx, cancel := context.WithCancel(context.Background())
	defer cancel()
	go func() { _ = svc.Run(ctx) }()
	defer svc.Close()

	// the first connection that logs in is the scenario's; anything later (re-logins after the close) is dropped
	type arrival struct {
		conn net.Conn
		tcp  net.Conn
		sess *fmux.Session
	}
	arrivals := make(chan arrival, 4)
	stop := make(chan struct{})
	defer close(stop)
	var keep []io.Closer
	defer func() {
		for _, c := range keep {
			c.Close()
		}
	}()
	go func() {
		for {
			tcp, err := l.Accept()
			if err != nil {
				return
			}
			go func() {
				var conn net.Conn = tcp
				var sess *fmux.Session
				if mux {
					c := fmux.DefaultConfig()
					c.LogOutput = io.Discard
					c.MaxStreamWindowSize = 6 * 1024 * 1024
					c.EnableKeepAlive = false
					s, err := fmux.Server(tcp, c)
					if err != nil {
						tcp.Close()
						return
					}
					st, err := s.AcceptStream()
					if err != nil {
						s.Close()
						tcp.Close()
						return
					}
					sess, conn = s, st
				}
				_ = conn.SetReadDeadline(time.Now().Add(5 * time.Second))
				m, err := msg.ReadMsg(conn)
				_ = conn.SetReadDeadline(time.Time{})
				if _, ok := m.(*msg.Login); err != nil || !ok {
					tcp.Close()
					return
				}
				select {
				case arrivals <- arrival{conn, tcp, sess}:
				case <-stop:
					tcp.Close()
				}
			}()
		}
	}()
	var a arrival
	select {
	case a = <-arrivals:
	case <-time.After(5 * time.Second):
		return eff + " nologin"
	}
	keep = append(keep, a.tcp)
	if a.sess != nil {
		keep = append(keep, a.sess)
	}
	conn := a.conn
	_ = msg.WriteMsg(conn, &msg.LoginResp{Version: version.Full(), RunID: "verifhb"})
	tLogin := time.Now()
	rw, err := netpkg.NewCryptoReadWriter(conn, []byte(waitToken))
	if err != nil {
		return "infra-crypto"
	}
	msgs := make(chan msg.Message, 64)
	go func() {
		defer close(msgs)
		for {
			m, err := msg.ReadMsg(rw)
			if err != nil {
				return
			}
			msgs <- m
		}
	}()
	// how long to watch: the effective timeout (as loaded) + checker period + margin after the last Pong, but never
	// longer than 2.5 s beyond a timeout of 5 s: long timeouts (the defaults) are only watched for "still open"
	// (the WRITTEN timeout where one is written: what the loader made of it is reported, not trusted)
	I, T := cfg.Transport.HeartbeatInterval, cfg.Transport.HeartbeatTimeout
	if n, err := strconv.ParseInt(w.t, 10, 64); err == nil && n > 0 {
		T = n
	}
	if n, err := strconv.ParseInt(w.i, 10, 64); err == nil && n > 0 {
		I = n
	}
	watch := func() time.Duration {
		if I > 0 && T > 0 && T <= 5 {
			return time.Duration(T)*time.Second + 2500*time.Millisecond
		}
		return 2500 * time.Millisecond
	}
	deadline := time.NewTimer(watch())
	defer deadline.Stop()
	var gaps []string
	lastPingAt := tLogin
	lastPong := time.Duration(0)
	answered := 0
	for {
		select {
		case m, ok := <-msgs:
			if !ok {
				return fmt.Sprintf("%s pg=%s last=%d closed=%d", eff, hbGaps(gaps), lastPong.Milliseconds(), time.Since(tLogin).Milliseconds())
			}
			if _, isPing := m.(*msg.Ping); isPing {
				gaps = append(gaps, strconv.FormatInt(time.Since(lastPingAt).Milliseconds(), 10))
				lastPingAt = time.Now()
				if answered < k {
					answered++
					lastPong = time.Since(tLogin)
					_ = msg.WriteMsg(rw, &msg.Pong{})
					if !deadline.Stop() {
						select {
						case <-deadline.C:
						default:
						}
					}
					deadline.Reset(watch())
				}
			}
		case <-deadline.C:
			return fmt.Sprintf("%s pg=%s last=%d open=%d", eff, hbGaps(gaps), lastPong.Milliseconds(), time.Since(tLogin).Milliseconds())
		}
	}
}

func hbGaps(g []string) string {
	if len(g) == 0 {
		return "-"
	}
	return strings.Join(g, "/")
}
